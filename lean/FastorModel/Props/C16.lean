import FastorModel.Proofs.Reduce
import FastorModel.Proofs.ReduceError
import FastorModel.Proofs.SimdLanes
import FastorModel.Generated.Simd_sse2
import FastorModel.Generated.Simd_avx2
import FastorModel.Generated.Simd_avx512
import FastorModel.Generated.C16Spec_avx2
import FastorModel.Generated.C16Spec_avx512
import Mathlib.Order.MinMax
import Mathlib.Tactic.FinCases
import Mathlib.LinearAlgebra.Matrix.Determinant.Basic
import Mathlib.LinearAlgebra.Matrix.Block
/-
# C16 — Reductions, predicates and scalar-valued functions agree with their definitions

Property: sum, product, min, max, norm, trace, inner, determinant and the predicates all_of / any_of / none_of
applied to any tensor or expression return the value defined by folding the scalar operation over all elements;
min/max return an element of the input for inputs of any sign; none_of is the negation of any_of.

Reading of the statements.  `Model/Reduce.lean` transcribes the code: `U` vector accumulators of `V` lanes, a ladder
of unroll factors (one loop `for (; i < ROUND_DOWN(n,u*V); i += u*V)` per factor, `ROUND_DOWN` being the bit mask of
the source), a scalar tail, a lane-wise combination of the accumulators, a horizontal step and the final combine,
with the seeds the code uses.  `term i` is element `i` of the argument: `x i` for a tensor, `evalS e i` for a lazy
expression (`expr_lanes`: the vector evaluation is the scalar evaluation lane by lane, C02).
* `positions_exactly_once`, `reduce_correct`: for ALL `n < 2^64`, all widths and all admissible ladders.
* `sum_correct … trace_correct`: the instances the code contains (seeds 0 / 1, ladders 1 / 4,2,1 / 8,4,2,1).
* `min_in_input`, `max_in_input`: hypothesis = what the code's seed satisfies (`x i ≤ numeric_limits::max()`,
  `numeric_limits::lowest() ≤ x i`); conclusion: the result is an element of the input and bounds every element.
* predicates: `all_of = ∀`, `any_of = ∃`; `none_of` AS WRITTEN returns `any_of` (`none_of_expr_counterexample`,
  defect F5, kept as a known finding because a pinned test asserts the defective value); the repaired body is correct.
* determinants: closed forms n ≤ 4 = `Matrix.det` (Leibniz); `determinant<LU>` = sign · ∏ U_ii.
Floating-point error bounds are NOT proved here (measured by the harness).
-/
namespace Fastor.C16
open Fastor Fastor.Expr Fastor.Reduce Finset Fastor.Simd Fastor.Gen

/-! ## loop structure -/

/-- **every element exactly once**: the positions touched by the vector stages (each step covers `V` consecutive
    lanes), followed by the scalar tail, are exactly `0, 1, …, n-1`, each once and in increasing order —
    for every size `n`, every width `V` and every admissible unroll ladder. -/
theorem positions_exactly_once (n V : Nat) (us : List Nat) (hn : n < 2 ^ 64) (hg : GoodLadder V us) :
    flat V (vecSteps n V us) ++ tailPos n V us = List.range n := coverage n V us hn hg

example : GoodLadder 16 [8, 4, 2, 1] := goodLadder_8421 16 4 (by omega) (by norm_num)
example : flat 4 (vecSteps 11 4 [4, 2, 1]) ++ tailPos 11 4 [4, 2, 1] = List.range 11 := by decide

/-- **reduce_correct**: for an associative-commutative operation with identity `e` used as every seed, the
    reduction machine — `U` accumulators, any admissible ladder `us` (each factor times `V` a power of two, each
    factor dividing the previous ones), any width, any size — returns the fold of `op` over all `n` terms. -/
theorem reduce_correct {α : Type} (op : α → α → α) (e : α) (hassoc : ∀ a b c, op (op a b) c = op a (op b c))
    (hcomm : ∀ a b, op a b = op b a) (hid : ∀ a, op e a = a)
    (term : Nat → α) (U : Nat) (us : List Nat) (n V : Nat) (hn : n < 2 ^ 64)
    (hg : GoodLadder V us) (hU : ∀ u ∈ us, u ≤ U) (hU0 : 0 < U) :
    reduce ⟨op, e, e, e, U, us⟩ term n V = (List.range n).foldl (fun acc i => op acc (term i)) e :=
  reduce_op op e hassoc hcomm hid term U us n V hn hg hU hU0

example : reduce ⟨(· + ·), 0, 0, 0, 4, [4, 2, 1]⟩ (fun i => (i : Int) + 1) 11 2 = 66 := by decide

section sums
variable {A : Type} [AddCommMonoid A]

/-- `sum(expr)` / `sum(tensor)` (AbstractTensorFunctions.h), seeds `0`: the sum of all elements, ∀ n, ∀ V = 2^ev -/
theorem sum_correct (term : Nat → A) (n V ev : Nat) (hn : n < 2 ^ 64) (hev : ev ≤ 64) (hV : V = 2 ^ ev) :
    sumExpr term n V = ∑ i ∈ range n, term i := by
  unfold sumExpr sumSpec
  rw [reduce_correct (· + ·) 0 add_assoc add_comm zero_add term 1 [1] n V hn (goodLadder_one V ev hev hV) (by simp) (by omega)]
  exact foldl_add_eq_sum term n

/-- `Tensor::sum()` including the early return for one element -/
theorem tensorSum_correct (x : Nat → A) (n V ev : Nat) (hn : n < 2 ^ 64) (hev : ev ≤ 64) (hV : V = 2 ^ ev) (hpos : 0 < n) :
    tensorSum x n V = ∑ i ∈ range n, x i := by
  unfold tensorSum
  by_cases h : n ≤ 1
  · have : n = 1 := by omega
    subst this; simp
  · simp only [h, if_false]
    exact sum_correct x n V ev hn hev hV
end sums

section prods
variable {M : Type} [CommMonoid M]

/-- `product(expr)`, seeds `1` -/
theorem product_correct (term : Nat → M) (n V ev : Nat) (hn : n < 2 ^ 64) (hev : ev ≤ 64) (hV : V = 2 ^ ev) :
    prodExpr term n V = ∏ i ∈ range n, term i := by
  unfold prodExpr prodSpec
  rw [reduce_correct (· * ·) 1 mul_assoc mul_comm one_mul term 1 [1] n V hn (goodLadder_one V ev hev hV) (by simp) (by omega)]
  exact foldl_mul_eq_prod term n

/-- `Tensor::product()` -/
theorem tensorProd_correct (x : Nat → M) (n V ev : Nat) (hn : n < 2 ^ 64) (hev : ev ≤ 64) (hV : V = 2 ^ ev) (hpos : 0 < n) :
    tensorProd x n V = ∏ i ∈ range n, x i := by
  unfold tensorProd
  by_cases h : n ≤ 1
  · have : n = 1 := by omega
    subst this; simp
  · simp only [h, if_false]
    exact product_correct x n V ev hn hev hV
end prods

section semiring
variable {R : Type} [CommSemiring R]

/-- radicand of `norm(expr)`: both ladders (`8,4,2,1` with 8 accumulators under AVX-512, `4,2,1` with 4 otherwise) -/
theorem norm2Expr_correct (avx512 : Bool) (term : Nat → R) (n V ev : Nat) (hn : n < 2 ^ 64) (hev : ev ≤ 60) (hV : V = 2 ^ ev) :
    norm2Expr avx512 term n V = ∑ i ∈ range n, term i * term i := by
  unfold norm2Expr normLadder
  cases avx512
  · simp only [Bool.false_eq_true, if_false]
    rw [reduce_correct (· + ·) 0 add_assoc add_comm zero_add _ 4 [4, 2, 1] n V hn (goodLadder_421 V ev hev hV)
      (by intro u hu; simp at hu; omega) (by omega)]
    exact foldl_add_eq_sum _ n
  · simp only [if_true]
    rw [reduce_correct (· + ·) 0 add_assoc add_comm zero_add _ 8 [8, 4, 2, 1] n V hn (goodLadder_8421 V ev hev hV)
      (by intro u hu; simp at hu; omega) (by omega)]
    exact foldl_add_eq_sum _ n

/-- radicand of `_norm<T,N>` (both overloads) -/
theorem norm2Tensor_correct (avx512 : Bool) (x : Nat → R) (n V ev : Nat) (hn : n < 2 ^ 64) (hev : ev ≤ 60) (hV : V = 2 ^ ev) :
    norm2Tensor avx512 x n V = ∑ i ∈ range n, x i * x i := by
  unfold norm2Tensor
  split
  · rw [reduce_correct (· + ·) 0 add_assoc add_comm zero_add _ 1 [1] n V hn (goodLadder_one V ev (by omega) hV) (by simp) (by omega)]
    exact foldl_add_eq_sum _ n
  · exact norm2Expr_correct avx512 x n V ev hn hev hV

/-- `inner(a,b)` = `_doublecontract<T,N,1>` (both overloads) -/
theorem inner_correct (a b : Nat → R) (n V ev : Nat) (hn : n < 2 ^ 64) (hev : ev ≤ 60) (hV : V = 2 ^ ev) :
    Reduce.inner a b n V = ∑ i ∈ range n, a i * b i := by
  unfold Reduce.inner
  split
  · rw [reduce_correct (· + ·) 0 add_assoc add_comm zero_add _ 1 [1] n V hn (goodLadder_one V ev (by omega) hV) (by simp) (by omega)]
    exact foldl_add_eq_sum _ n
  · rw [reduce_correct (· + ·) 0 add_assoc add_comm zero_add _ 4 [4, 2, 1] n V hn (goodLadder_421 V ev hev hV)
      (by intro u hu; simp at hu; omega) (by omega)]
    exact foldl_add_eq_sum _ n

/-- `trace(A)` and `trace(expr)`: the sum of the diagonal (flat positions `i*M+i`) -/
theorem trace_correct (x : Nat → R) (M : Nat) :
    Reduce.trace x M = ∑ i ∈ range M, x (i * M + i) ∧ Reduce.traceExpr x M = ∑ i ∈ range M, x (i * M + i) := by
  unfold Reduce.trace Reduce.traceExpr
  refine ⟨foldl_add_eq_sum _ M, ?_⟩
  rw [foldl_add_eq_sum (fun i => x (i * (M + 1))) M]
  apply Finset.sum_congr rfl
  intro i _
  have : i * (M + 1) = i * M + i := by ring
  rw [this]
end semiring

/-! non-vacuity: concrete instances of the hypotheses / the instances evaluated -/
example : sumExpr (fun i => (i : Int) + 1) 11 4 = 66 := by decide
example : prodExpr (fun i => (i : Int) + 1) 5 2 = 120 := by decide
example : tensorSum (fun i => (i : Int) + 1) 1 4 = 1 ∧ tensorProd (fun i => (i : Int) + 2) 7 4 = 40320 := by decide
example : norm2Expr true (fun i => (i : Int)) 20 1 = 2470 ∧ norm2Tensor false (fun i => (i : Int)) 20 2 = 2470 := by decide
example : Reduce.inner (fun i => (i : Int)) (fun _ => (2 : Int)) 19 2 = 342 := by decide
example : Reduce.trace (fun i => (i : Int)) 3 = 12 ∧ Reduce.traceExpr (fun i => (i : Int)) 3 = 12 := by decide

/-- lazy expressions: lane `l` of the vector evaluation `eval<T>(p)` of any expression tree is the scalar evaluation
    at `p + l` (C02), so the reductions of an expression are the reductions of `term = evalS e` -/
theorem expr_lanes {α : Type} [Add α] [Sub α] [Mul α] [Neg α] (ofInt : Int → α) (env : Nat → Nat → α) (V : Nat) (e : E) (p l : Nat) (hl : l < V) :
    (evalV ofInt env V e p)[l]? = some (evalS ofInt env e (p + l)) := C02.lanes_of_evalV ofInt env V e p l hl


/-! ## floating-point error of the summation tree (abstract rounding model) -/

/-- **sum_error_bound**: if every addition is rounded with relative error at most `u` (`|fl x - x| ≤ u |x|`; with FMA the
    product inside `inner` / `norm` is not rounded separately), the reduction machine — any admissible ladder, width, size —
    returns a value within `((1+u)^depth - 1) · Σ|term_i|` of the exact sum; `depth ≤ n + U + V + 1`.  The harness measures the
    FPU against this bound (`fbound` lines) and checks `depth` against the model in every symbolic case (`DEPTH`). -/
theorem sum_error_bound {K : Type} [CommRing K] [LinearOrder K] [IsStrictOrderedRing K] (u : K) (hu : 0 ≤ u) (fl : K → K)
    (hfl : ∀ x, |fl x - x| ≤ u * |x|) (term : Nat → K) (U : Nat) (us : List Nat) (n V : Nat) (hn : n < 2 ^ 64)
    (hg : GoodLadder V us) (hU : ∀ u' ∈ us, u' ≤ U) (hU0 : 0 < U) :
    |reduce ⟨fun a b => fl (a + b), 0, 0, 0, U, us⟩ term n V - ∑ i ∈ range n, term i|
      ≤ ((1 + u) ^ depth n V U us - 1) * ∑ i ∈ range n, |term i| :=
  Reduce.sum_error_bound u hu fl hfl term U us n V hn hg hU hU0

theorem depth_le_n (n V U : Nat) (us : List Nat) (hn : n < 2 ^ 64) (hg : GoodLadder V us) (hV : 0 < V) :
    depth n V U us ≤ n + U + V + 1 := Reduce.depth_le n V U us hn hg hV

/-- non-vacuity: exact arithmetic is the rounding model with `u = 0`, and the depth of `sum` over 11 elements at width 4 -/
example : ∀ x : Int, |id x - x| ≤ 0 * |x| := by intro x; simp
example : depth 11 4 1 [1] = 2 + 1 + 4 + 3 + 1 := by decide

/-! ## min / max -/

/-- **minmax_in_input** (min): with a seed that is not smaller than any element (the code uses
    `numeric_limits<T>::max()`), for every `n > 0`, every width and every sign pattern, `min` returns an element of
    the input which is `≤` every element. -/
theorem min_in_input {α : Type} [LinearOrder α] (seed : α) (x : Nat → α) (n V ev : Nat)
    (hn : n < 2 ^ 64) (hev : ev ≤ 64) (hV : V = 2 ^ ev) (hpos : 0 < n) (hseed : ∀ i < n, x i ≤ seed) :
    (∃ i < n, minmax (fun a b => decide (a < b)) seed x n V = x i) ∧
    ∀ i < n, minmax (fun a b => decide (a < b)) seed x n V ≤ x i := by
  have hb : StrictTotal (fun a b : α => decide (a < b)) :=
    ⟨by intro a; simp, by intro a b c h1 h2; simp at h1 h2 ⊢; exact lt_trans h1 h2,
     by intro a b; simp; exact lt_trichotomy a b⟩
  obtain ⟨h1, h2⟩ := minmax_correct hb seed x n V ev hn hev hV hpos (by intro i hi; simpa using hseed i hi)
  exact ⟨h1, fun i hi => by simpa using h2 i hi⟩

/-- **minmax_in_input** (max): seed not larger than any element (`numeric_limits<T>::lowest()`) -/
theorem max_in_input {α : Type} [LinearOrder α] (seed : α) (x : Nat → α) (n V ev : Nat)
    (hn : n < 2 ^ 64) (hev : ev ≤ 64) (hV : V = 2 ^ ev) (hpos : 0 < n) (hseed : ∀ i < n, seed ≤ x i) :
    (∃ i < n, minmax (fun a b => decide (b < a)) seed x n V = x i) ∧
    ∀ i < n, x i ≤ minmax (fun a b => decide (b < a)) seed x n V := by
  have hb : StrictTotal (fun a b : α => decide (b < a)) :=
    ⟨by intro a; simp, by intro a b c h1 h2; simp at h1 h2 ⊢; exact lt_trans h2 h1,
     by intro a b; simp; rcases lt_trichotomy a b with h | h | h
        · exact Or.inr (Or.inr h)
        · exact Or.inr (Or.inl h)
        · exact Or.inl h⟩
  obtain ⟨h1, h2⟩ := minmax_correct hb seed x n V ev hn hev hV hpos (by intro i hi; simpa using hseed i hi)
  exact ⟨h1, fun i hi => by simpa using h2 i hi⟩

/-- non-vacuity: all-negative data, `n = 7`, `V = 4`, the seed `lowest = -128` of an 8-bit type -/
example : minmax (fun a b : Int => decide (b < a)) (-128) (fun i => -(i : Int) - 3) 7 4 = -3 := by decide
/-- the seed the code used before the repair (`numeric_limits<float>::min()`, a positive number) violates the
    hypothesis on all-negative data, and the result is then not an element of the input -/
example : minmax (fun a b : Int => decide (b < a)) 1 (fun i => -(i : Int) - 3) 7 4 = 1 := by decide

/-! ## predicates -/

theorem allOf_iff (b : Nat → Bool) (n : Nat) : allOf b n = true ↔ ∀ i < n, b i = true := by
  unfold allOf
  induction n with
  | zero => simp
  | succ n ih =>
    rw [List.range_succ, List.foldl_append]
    simp only [List.foldl_cons, List.foldl_nil]
    by_cases h : List.foldl (fun val i => if val = true then if (b i == false) = true then false else true else false) true (List.range n) = true
    · have ih' := ih.1 h
      simp only [h, if_true]
      constructor
      · intro hb i hi
        by_cases hin : i = n
        · subst hin; cases hbi : b i <;> simp [hbi] at hb ⊢
        · exact ih' i (by omega)
      · intro hall
        have := hall n (by omega)
        simp [this]
    · have hne : ¬ ∀ i < n, b i = true := fun hh => h (ih.2 hh)
      simp only [h]
      constructor
      · intro hf; simp at hf
      · intro hall; exact absurd (fun i hi => hall i (by omega)) hne

theorem anyOf_iff (b : Nat → Bool) (n : Nat) : anyOf b n = true ↔ ∃ i < n, b i = true := by
  unfold anyOf
  induction n with
  | zero => simp
  | succ n ih =>
    rw [List.range_succ, List.foldl_append]
    simp only [List.foldl_cons, List.foldl_nil]
    by_cases h : List.foldl (fun val i => if val = true then true else if (b i == true) = true then true else false) false (List.range n) = true
    · obtain ⟨i, hi, hbi⟩ := ih.1 h
      simp only [h, if_true]
      exact ⟨fun _ => ⟨i, by omega, hbi⟩, fun _ => trivial⟩
    · have hne : ¬ ∃ i < n, b i = true := fun hh => h (ih.2 hh)
      simp only [h]
      constructor
      · intro hb
        refine ⟨n, by omega, ?_⟩
        cases hbn : b n <;> simp [hbn] at hb ⊢
      · rintro ⟨i, hi, hbi⟩
        by_cases hin : i = n
        · subst hin; simp [hbi]
        · exact absurd ⟨i, by omega, hbi⟩ hne

/-- the expression/tensor overload of `none_of` as written returns `any_of` (F5) -/
theorem none_of_code_eq_any_of (b : Nat → Bool) (n : Nat) : noneOfCode b n = anyOf b n := rfl

/-- **counterexample** to `none_of b = !any_of b` for the code as written: the one-element tensor `[true]`
    (replayed on the real code by the `pred … what=none` cases) -/
theorem none_of_expr_counterexample : noneOfCode (fun _ => true) 1 ≠ !(anyOf (fun _ => true) 1) := by decide

/-- as written, `none_of` is wrong on EVERY input -/
theorem none_of_code_always_wrong (b : Nat → Bool) (n : Nat) : noneOfCode b n ≠ !(anyOf b n) := by
  rw [none_of_code_eq_any_of]; cases anyOf b n <;> simp

/-- the repaired body satisfies the property: `none_of = !any_of` -/
theorem none_of_fixed_correct (b : Nat → Bool) (n : Nat) : noneOfFixed b n = !(anyOf b n) := by
  have key : noneOfFixed b n = true ↔ ∀ i < n, b i = false := by
    unfold noneOfFixed
    induction n with
    | zero => simp
    | succ n ih =>
      rw [List.range_succ, List.foldl_append]
      simp only [List.foldl_cons, List.foldl_nil]
      by_cases h : List.foldl (fun val i => if val = true then if (b i == true) = true then false else true else false) true (List.range n) = true
      · have ih' := ih.1 h
        simp only [h, if_true]
        constructor
        · intro hb i hi
          by_cases hin : i = n
          · subst hin; cases hbi : b i <;> simp [hbi] at hb ⊢
          · exact ih' i (by omega)
        · intro hall
          have := hall n (by omega)
          simp [this]
      · have hne : ¬ ∀ i < n, b i = false := fun hh => h (ih.2 hh)
        simp only [h]
        constructor
        · intro hf; simp at hf
        · intro hall; exact absurd (fun i hi => hall i (by omega)) hne
  cases hany : anyOf b n
  · have : ¬ ∃ i < n, b i = true := fun hh => by rw [(anyOf_iff b n).2 hh] at hany; exact Bool.noConfusion hany
    simp only [Bool.not_false]
    apply key.2
    intro i hi
    cases hbi : b i
    · rfl
    · exact absurd ⟨i, hi, hbi⟩ this
  · obtain ⟨i, hi, hbi⟩ := (anyOf_iff b n).1 hany
    simp only [Bool.not_true]
    cases hnf : noneOfFixed b n
    · rfl
    · have := key.1 hnf i hi; rw [hbi] at this; exact Bool.noConfusion this


/-! ## issymmetric, isequal -/

/-- **issymmetric** (non-evaluating overload): true iff no pair `(i*M+j, j*M+i)` violates the tolerance — the `break`
    leaves only the inner loop, but `_issym` is never set back to true -/
theorem isSymmetric_iff (viol : Nat → Nat → Bool) (M : Nat) :
    isSymmetric viol M = true ↔ ∀ i < M, ∀ j < M, viol (i * M + j) (j * M + i) = false := by
  unfold isSymmetric
  have key : ∀ m, (List.range m).foldl (fun s i =>
      ((List.range M).foldl (fun (st : Bool × Bool) j => if st.2 then st else if viol (i * M + j) (j * M + i) then (false, true) else st) (s, false)).1) true
      = decide (∀ i < m, ∀ j < M, viol (i * M + j) (j * M + i) = false) := by
    intro m
    induction m with
    | zero => simp
    | succ m ih =>
      rw [List.range_succ, List.foldl_append, ih]
      simp only [List.foldl_cons, List.foldl_nil]
      rw [isSym_inner (fun j => viol (m * M + j) (j * M + m))]
      simp only []
      by_cases h1 : ∀ i < m, ∀ j < M, viol (i * M + j) (j * M + i) = false
      · by_cases h2 : ∀ j < M, viol (m * M + j) (j * M + m) = false
        · have : ∀ i < m + 1, ∀ j < M, viol (i * M + j) (j * M + i) = false := by
            intro i hi j hj
            by_cases him : i = m
            · subst him; exact h2 j hj
            · exact h1 i (by omega) j hj
          simp only [decide_eq_true h1, decide_eq_true h2, decide_eq_true this]
          simp
        · have : ¬ ∀ i < m + 1, ∀ j < M, viol (i * M + j) (j * M + i) = false := fun hh => h2 (hh m (by omega))
          simp only [decide_eq_true h1, decide_eq_false h2, decide_eq_false this]
          simp
      · have : ¬ ∀ i < m + 1, ∀ j < M, viol (i * M + j) (j * M + i) = false := fun hh => h1 (fun i hi => hh i (by omega))
        simp only [decide_eq_false h1, decide_eq_false this]
        simp
  rw [key M]
  simp

/-- `isequal(a,b,Tol)` = `all_of(abs(a - b) <= Tol)`; for integral element types `Tol` is converted to 0 -/
def isEqualInt (a b : Nat → Int) (n : Nat) : Bool := allOf (fun i => decide ((a i - b i).natAbs ≤ 0)) n
/-- the form before commit 81c67dd (`<`) -/
def isEqualIntOld (a b : Nat → Int) (n : Nat) : Bool := allOf (fun i => decide ((a i - b i).natAbs < 0)) n

/-- **isequal** on integer tensors: true iff the tensors agree element by element -/
theorem isEqualInt_iff (a b : Nat → Int) (n : Nat) : isEqualInt a b n = true ↔ ∀ i < n, a i = b i := by
  unfold isEqualInt
  rw [allOf_iff]
  constructor
  · intro h i hi
    have := h i hi
    simp at this
    omega
  · intro h i hi
    simp [h i hi]

/-- the pre-repair comparison was false for every non-empty pair of tensors, equal ones included -/
theorem isEqualIntOld_counterexample : isEqualIntOld (fun _ => 7) (fun _ => 7) 1 = false := by decide


/-! ## the real horizontal steps: theorems about the definitions GENERATED from the source

`Generated/Simd_<isa>.lean` is regenerated by this check (vlib/xlate_simd.py) from the preprocessed headers of the current
repo tree, over the intrinsic semantics of `Model/SimdIntrinsics.lean` (C08).  The theorems below are about those generated
definitions, per build configuration: a changed shuffle immediate, a swapped operand or a dropped half in `extintrin.h` /
`simd_vector_*.h` regenerates a different definition and the proof no longer builds (a proof obligation, not a text compare). -/

section generated
variable {α : Type} [LinearOrder α]

/-- the FPU's lane maximum / minimum decode to the order's max / min (true of IEEE max/min on non-NaN values) -/
structure Decodes32 (fo : FOps) (val : BitVec 32 → α) : Prop where
  max : ∀ x y, val (fo.max32 x y) = Max.max (val x) (val y)
  min : ∀ x y, val (fo.min32 x y) = Min.min (val x) (val y)
structure Decodes64 (fo : FOps) (val : BitVec 64 → α) : Prop where
  max : ∀ x y, val (fo.max64 x y) = Max.max (val x) (val y)
  min : ∀ x y, val (fo.min64 x y) = Min.min (val x) (val y)

set_option linter.unusedSimpArgs false
theorem hpick_max2 (v : Nat → α) : hpick (fun a b => decide (b < a)) 2 v = max (v 0) (v 1) := by
  simp only [hpick, List.range, List.range.loop, List.foldl, ite_gt_max]
  simp [max_comm, max_left_comm, max_assoc]
theorem hpick_min2 (v : Nat → α) : hpick (fun a b => decide (a < b)) 2 v = min (v 0) (v 1) := by
  simp only [hpick, List.range, List.range.loop, List.foldl, ite_lt_min]
  simp [min_comm, min_left_comm, min_assoc]
theorem hpick_max4 (v : Nat → α) : hpick (fun a b => decide (b < a)) 4 v = max (max (v 0) (v 1)) (max (v 2) (v 3)) := by
  simp only [hpick, List.range, List.range.loop, List.foldl, ite_gt_max]
  simp [max_comm, max_left_comm, max_assoc]
theorem hpick_min4 (v : Nat → α) : hpick (fun a b => decide (a < b)) 4 v = min (min (v 0) (v 1)) (min (v 2) (v 3)) := by
  simp only [hpick, List.range, List.range.loop, List.foldl, ite_lt_min]
  simp [min_comm, min_left_comm, min_assoc]
theorem hpick_max8 (v : Nat → α) : hpick (fun a b => decide (b < a)) 8 v =
    max (max (max (v 0) (v 1)) (max (v 2) (v 3))) (max (max (v 4) (v 5)) (max (v 6) (v 7))) := by
  simp only [hpick, List.range, List.range.loop, List.foldl, ite_gt_max]
  simp [max_comm, max_left_comm, max_assoc]
theorem hpick_min8 (v : Nat → α) : hpick (fun a b => decide (a < b)) 8 v =
    min (min (min (v 0) (v 1)) (min (v 2) (v 3))) (min (min (v 4) (v 5)) (min (v 6) (v 7))) := by
  simp only [hpick, List.range, List.range.loop, List.foldl, ite_lt_min]
  simp [min_comm, min_left_comm, min_assoc]

/-! `SIMDVector<float|double, sse|avx>::maximum() / minimum()` as GENERATED from the current source for each build
    configuration: the decoded result is what `hpick` (the horizontal step of `minmax`, for which `min_in_input` /
    `max_in_input` are proved) returns on the decoded lanes.  A changed shuffle immediate, a swapped operand or a dropped
    half regenerates a different definition and these proofs no longer build. -/

theorem gen_sse2_float_sse_maximum (fo : FOps) (val : BitVec 32 → α) (h : Decodes32 fo val) (a : Reg) :
    val (sse2.float_sse.maximum fo a) = hpick (fun x y => decide (y < x)) 4 (fun l => val (a l)) := by
  rw [hpick_max4]
  simp [simd, sse2.float_sse.maximum, sse2.mm_hmax_ps, sse2.mm_hmin_ps, sse2.mm_reverse_ps, h.max, max_comm, max_left_comm, max_assoc]

theorem gen_sse2_float_sse_minimum (fo : FOps) (val : BitVec 32 → α) (h : Decodes32 fo val) (a : Reg) :
    val (sse2.float_sse.minimum fo a) = hpick (fun x y => decide (x < y)) 4 (fun l => val (a l)) := by
  rw [hpick_min4]
  simp [simd, sse2.float_sse.minimum, sse2.mm_hmax_ps, sse2.mm_hmin_ps, sse2.mm_reverse_ps, h.min, min_comm, min_left_comm, min_assoc]

theorem gen_sse2_double_sse_maximum (fo : FOps) (val : BitVec 64 → α) (h : Decodes64 fo val) (a : Reg) :
    val (sse2.double_sse.maximum fo a) = hpick (fun x y => decide (y < x)) 2 (fun l => val (lane64 a l)) := by
  rw [hpick_max2]
  simp [simd, sse2.double_sse.maximum, sse2.mm_hmax_pd, sse2.mm_hmin_pd, sse2.mm_reverse_pd, h.max, max_comm, max_left_comm, max_assoc, lane64]

theorem gen_sse2_double_sse_minimum (fo : FOps) (val : BitVec 64 → α) (h : Decodes64 fo val) (a : Reg) :
    val (sse2.double_sse.minimum fo a) = hpick (fun x y => decide (x < y)) 2 (fun l => val (lane64 a l)) := by
  rw [hpick_min2]
  simp [simd, sse2.double_sse.minimum, sse2.mm_hmax_pd, sse2.mm_hmin_pd, sse2.mm_reverse_pd, h.min, min_comm, min_left_comm, min_assoc, lane64]

theorem gen_avx2_float_sse_maximum (fo : FOps) (val : BitVec 32 → α) (h : Decodes32 fo val) (a : Reg) :
    val (avx2.float_sse.maximum fo a) = hpick (fun x y => decide (y < x)) 4 (fun l => val (a l)) := by
  rw [hpick_max4]
  simp [simd, avx2.float_sse.maximum, avx2.mm_hmax_ps, avx2.mm_hmin_ps, avx2.mm_reverse_ps, h.max, max_comm, max_left_comm, max_assoc]

theorem gen_avx2_float_sse_minimum (fo : FOps) (val : BitVec 32 → α) (h : Decodes32 fo val) (a : Reg) :
    val (avx2.float_sse.minimum fo a) = hpick (fun x y => decide (x < y)) 4 (fun l => val (a l)) := by
  rw [hpick_min4]
  simp [simd, avx2.float_sse.minimum, avx2.mm_hmax_ps, avx2.mm_hmin_ps, avx2.mm_reverse_ps, h.min, min_comm, min_left_comm, min_assoc]

theorem gen_avx2_double_sse_maximum (fo : FOps) (val : BitVec 64 → α) (h : Decodes64 fo val) (a : Reg) :
    val (avx2.double_sse.maximum fo a) = hpick (fun x y => decide (y < x)) 2 (fun l => val (lane64 a l)) := by
  rw [hpick_max2]
  simp [simd, avx2.double_sse.maximum, avx2.mm_hmax_pd, avx2.mm_hmin_pd, avx2.mm_reverse_pd, h.max, max_comm, max_left_comm, max_assoc, lane64]

theorem gen_avx2_double_sse_minimum (fo : FOps) (val : BitVec 64 → α) (h : Decodes64 fo val) (a : Reg) :
    val (avx2.double_sse.minimum fo a) = hpick (fun x y => decide (x < y)) 2 (fun l => val (lane64 a l)) := by
  rw [hpick_min2]
  simp [simd, avx2.double_sse.minimum, avx2.mm_hmax_pd, avx2.mm_hmin_pd, avx2.mm_reverse_pd, h.min, min_comm, min_left_comm, min_assoc, lane64]

theorem gen_avx2_float_avx_maximum (fo : FOps) (val : BitVec 32 → α) (h : Decodes32 fo val) (a : Reg) :
    val (avx2.float_avx.maximum fo a) = hpick (fun x y => decide (y < x)) 8 (fun l => val (a l)) := by
  rw [hpick_max8]
  simp [simd, avx2.float_avx.maximum, avx2.mm256_hmax_ps, avx2.mm256_hmin_ps, avx2.mm_reverse_ps, h.max, max_comm, max_left_comm, max_assoc]

theorem gen_avx2_float_avx_minimum (fo : FOps) (val : BitVec 32 → α) (h : Decodes32 fo val) (a : Reg) :
    val (avx2.float_avx.minimum fo a) = hpick (fun x y => decide (x < y)) 8 (fun l => val (a l)) := by
  rw [hpick_min8]
  simp [simd, avx2.float_avx.minimum, avx2.mm256_hmax_ps, avx2.mm256_hmin_ps, avx2.mm_reverse_ps, h.min, min_comm, min_left_comm, min_assoc]

theorem gen_avx2_double_avx_maximum (fo : FOps) (val : BitVec 64 → α) (h : Decodes64 fo val) (a : Reg) :
    val (avx2.double_avx.maximum fo a) = hpick (fun x y => decide (y < x)) 4 (fun l => val (lane64 a l)) := by
  rw [hpick_max4]
  simp [simd, avx2.double_avx.maximum, avx2.mm256_hmax_pd, avx2.mm256_hmin_pd, avx2.mm256_reverse_pd, h.max, max_comm, max_left_comm, max_assoc, lane64]

theorem gen_avx2_double_avx_minimum (fo : FOps) (val : BitVec 64 → α) (h : Decodes64 fo val) (a : Reg) :
    val (avx2.double_avx.minimum fo a) = hpick (fun x y => decide (x < y)) 4 (fun l => val (lane64 a l)) := by
  rw [hpick_min4]
  simp [simd, avx2.double_avx.minimum, avx2.mm256_hmax_pd, avx2.mm256_hmin_pd, avx2.mm256_reverse_pd, h.min, min_comm, min_left_comm, min_assoc, lane64]

theorem gen_avx512_float_sse_maximum (fo : FOps) (val : BitVec 32 → α) (h : Decodes32 fo val) (a : Reg) :
    val (avx512.float_sse.maximum fo a) = hpick (fun x y => decide (y < x)) 4 (fun l => val (a l)) := by
  rw [hpick_max4]
  simp [simd, avx512.float_sse.maximum, avx512.mm_hmax_ps, avx512.mm_hmin_ps, avx512.mm_reverse_ps, h.max, max_comm, max_left_comm, max_assoc]

theorem gen_avx512_float_sse_minimum (fo : FOps) (val : BitVec 32 → α) (h : Decodes32 fo val) (a : Reg) :
    val (avx512.float_sse.minimum fo a) = hpick (fun x y => decide (x < y)) 4 (fun l => val (a l)) := by
  rw [hpick_min4]
  simp [simd, avx512.float_sse.minimum, avx512.mm_hmax_ps, avx512.mm_hmin_ps, avx512.mm_reverse_ps, h.min, min_comm, min_left_comm, min_assoc]

theorem gen_avx512_double_sse_maximum (fo : FOps) (val : BitVec 64 → α) (h : Decodes64 fo val) (a : Reg) :
    val (avx512.double_sse.maximum fo a) = hpick (fun x y => decide (y < x)) 2 (fun l => val (lane64 a l)) := by
  rw [hpick_max2]
  simp [simd, avx512.double_sse.maximum, avx512.mm_hmax_pd, avx512.mm_hmin_pd, avx512.mm_reverse_pd, h.max, max_comm, max_left_comm, max_assoc, lane64]

theorem gen_avx512_double_sse_minimum (fo : FOps) (val : BitVec 64 → α) (h : Decodes64 fo val) (a : Reg) :
    val (avx512.double_sse.minimum fo a) = hpick (fun x y => decide (x < y)) 2 (fun l => val (lane64 a l)) := by
  rw [hpick_min2]
  simp [simd, avx512.double_sse.minimum, avx512.mm_hmax_pd, avx512.mm_hmin_pd, avx512.mm_reverse_pd, h.min, min_comm, min_left_comm, min_assoc, lane64]

theorem gen_avx512_float_avx_maximum (fo : FOps) (val : BitVec 32 → α) (h : Decodes32 fo val) (a : Reg) :
    val (avx512.float_avx.maximum fo a) = hpick (fun x y => decide (y < x)) 8 (fun l => val (a l)) := by
  rw [hpick_max8]
  simp [simd, avx512.float_avx.maximum, avx512.mm256_hmax_ps, avx512.mm256_hmin_ps, avx512.mm_reverse_ps, h.max, max_comm, max_left_comm, max_assoc]

theorem gen_avx512_float_avx_minimum (fo : FOps) (val : BitVec 32 → α) (h : Decodes32 fo val) (a : Reg) :
    val (avx512.float_avx.minimum fo a) = hpick (fun x y => decide (x < y)) 8 (fun l => val (a l)) := by
  rw [hpick_min8]
  simp [simd, avx512.float_avx.minimum, avx512.mm256_hmax_ps, avx512.mm256_hmin_ps, avx512.mm_reverse_ps, h.min, min_comm, min_left_comm, min_assoc]

theorem gen_avx512_double_avx_maximum (fo : FOps) (val : BitVec 64 → α) (h : Decodes64 fo val) (a : Reg) :
    val (avx512.double_avx.maximum fo a) = hpick (fun x y => decide (y < x)) 4 (fun l => val (lane64 a l)) := by
  rw [hpick_max4]
  simp [simd, avx512.double_avx.maximum, avx512.mm256_hmax_pd, avx512.mm256_hmin_pd, avx512.mm256_reverse_pd, h.max, max_comm, max_left_comm, max_assoc, lane64]

theorem gen_avx512_double_avx_minimum (fo : FOps) (val : BitVec 64 → α) (h : Decodes64 fo val) (a : Reg) :
    val (avx512.double_avx.minimum fo a) = hpick (fun x y => decide (x < y)) 4 (fun l => val (lane64 a l)) := by
  rw [hpick_min4]
  simp [simd, avx512.double_avx.minimum, avx512.mm256_hmax_pd, avx512.mm256_hmin_pd, avx512.mm256_reverse_pd, h.min, min_comm, min_left_comm, min_assoc, lane64]


/-! `sum()` / `product()` of the float / double vectors as GENERATED: under the commutative-monoid laws for the lane
    operation (they hold on the data for which every association is exact) the shuffle tree is `hfold`, the horizontal step
    of `reduce`.  The association tree itself (what the FPU evaluates) is fixed by C08's `*_sum_tree` theorems. -/

theorem gen_sse2_float_sse_sum (fo : FOps) (hassoc : ∀ x y z, fo.add32 (fo.add32 x y) z = fo.add32 x (fo.add32 y z)) (hcomm : ∀ x y, fo.add32 x y = fo.add32 y x)
    (e : BitVec 32) (hid : ∀ x, fo.add32 e x = x) (a : Reg) :
    sse2.float_sse.sum fo a = hfold fo.add32 e 4 (fun l => a l) := by
  have : Std.Associative fo.add32 := ⟨hassoc⟩
  have : Std.Commutative fo.add32 := ⟨hcomm⟩
  simp only [hfold, List.range, List.range.loop, List.foldl, hid]
  simp [simd, sse2.float_sse.sum, sse2.mm_sum_ps, sse2.mm_prod_ps]
  try ac_rfl

theorem gen_sse2_float_sse_product (fo : FOps) (hassoc : ∀ x y z, fo.mul32 (fo.mul32 x y) z = fo.mul32 x (fo.mul32 y z)) (hcomm : ∀ x y, fo.mul32 x y = fo.mul32 y x)
    (e : BitVec 32) (hid : ∀ x, fo.mul32 e x = x) (a : Reg) :
    sse2.float_sse.product fo a = hfold fo.mul32 e 4 (fun l => a l) := by
  have : Std.Associative fo.mul32 := ⟨hassoc⟩
  have : Std.Commutative fo.mul32 := ⟨hcomm⟩
  simp only [hfold, List.range, List.range.loop, List.foldl, hid]
  simp [simd, sse2.float_sse.product, sse2.mm_sum_ps, sse2.mm_prod_ps]
  try ac_rfl

theorem gen_sse2_double_sse_sum (fo : FOps) (hassoc : ∀ x y z, fo.add64 (fo.add64 x y) z = fo.add64 x (fo.add64 y z)) (hcomm : ∀ x y, fo.add64 x y = fo.add64 y x)
    (e : BitVec 64) (hid : ∀ x, fo.add64 e x = x) (a : Reg) :
    sse2.double_sse.sum fo a = hfold fo.add64 e 2 (fun l => lane64 a l) := by
  have : Std.Associative fo.add64 := ⟨hassoc⟩
  have : Std.Commutative fo.add64 := ⟨hcomm⟩
  simp only [hfold, List.range, List.range.loop, List.foldl, hid]
  simp [simd, sse2.double_sse.sum, sse2.mm_sum_pd, sse2.mm_prod_pd, lane64]
  try ac_rfl

theorem gen_sse2_double_sse_product (fo : FOps) (hassoc : ∀ x y z, fo.mul64 (fo.mul64 x y) z = fo.mul64 x (fo.mul64 y z)) (hcomm : ∀ x y, fo.mul64 x y = fo.mul64 y x)
    (e : BitVec 64) (hid : ∀ x, fo.mul64 e x = x) (a : Reg) :
    sse2.double_sse.product fo a = hfold fo.mul64 e 2 (fun l => lane64 a l) := by
  have : Std.Associative fo.mul64 := ⟨hassoc⟩
  have : Std.Commutative fo.mul64 := ⟨hcomm⟩
  simp only [hfold, List.range, List.range.loop, List.foldl, hid]
  simp [simd, sse2.double_sse.product, sse2.mm_sum_pd, sse2.mm_prod_pd, lane64]
  try ac_rfl

theorem gen_avx2_float_sse_sum (fo : FOps) (hassoc : ∀ x y z, fo.add32 (fo.add32 x y) z = fo.add32 x (fo.add32 y z)) (hcomm : ∀ x y, fo.add32 x y = fo.add32 y x)
    (e : BitVec 32) (hid : ∀ x, fo.add32 e x = x) (a : Reg) :
    avx2.float_sse.sum fo a = hfold fo.add32 e 4 (fun l => a l) := by
  have : Std.Associative fo.add32 := ⟨hassoc⟩
  have : Std.Commutative fo.add32 := ⟨hcomm⟩
  simp only [hfold, List.range, List.range.loop, List.foldl, hid]
  simp [simd, avx2.float_sse.sum, avx2.mm_sum_ps, avx2.mm_prod_ps]
  try ac_rfl

theorem gen_avx2_float_sse_product (fo : FOps) (hassoc : ∀ x y z, fo.mul32 (fo.mul32 x y) z = fo.mul32 x (fo.mul32 y z)) (hcomm : ∀ x y, fo.mul32 x y = fo.mul32 y x)
    (e : BitVec 32) (hid : ∀ x, fo.mul32 e x = x) (a : Reg) :
    avx2.float_sse.product fo a = hfold fo.mul32 e 4 (fun l => a l) := by
  have : Std.Associative fo.mul32 := ⟨hassoc⟩
  have : Std.Commutative fo.mul32 := ⟨hcomm⟩
  simp only [hfold, List.range, List.range.loop, List.foldl, hid]
  simp [simd, avx2.float_sse.product, avx2.mm_sum_ps, avx2.mm_prod_ps]
  try ac_rfl

theorem gen_avx2_double_sse_sum (fo : FOps) (hassoc : ∀ x y z, fo.add64 (fo.add64 x y) z = fo.add64 x (fo.add64 y z)) (hcomm : ∀ x y, fo.add64 x y = fo.add64 y x)
    (e : BitVec 64) (hid : ∀ x, fo.add64 e x = x) (a : Reg) :
    avx2.double_sse.sum fo a = hfold fo.add64 e 2 (fun l => lane64 a l) := by
  have : Std.Associative fo.add64 := ⟨hassoc⟩
  have : Std.Commutative fo.add64 := ⟨hcomm⟩
  simp only [hfold, List.range, List.range.loop, List.foldl, hid]
  simp [simd, avx2.double_sse.sum, avx2.mm_sum_pd, avx2.mm_prod_pd, lane64]
  try ac_rfl

theorem gen_avx2_double_sse_product (fo : FOps) (hassoc : ∀ x y z, fo.mul64 (fo.mul64 x y) z = fo.mul64 x (fo.mul64 y z)) (hcomm : ∀ x y, fo.mul64 x y = fo.mul64 y x)
    (e : BitVec 64) (hid : ∀ x, fo.mul64 e x = x) (a : Reg) :
    avx2.double_sse.product fo a = hfold fo.mul64 e 2 (fun l => lane64 a l) := by
  have : Std.Associative fo.mul64 := ⟨hassoc⟩
  have : Std.Commutative fo.mul64 := ⟨hcomm⟩
  simp only [hfold, List.range, List.range.loop, List.foldl, hid]
  simp [simd, avx2.double_sse.product, avx2.mm_sum_pd, avx2.mm_prod_pd, lane64]
  try ac_rfl

theorem gen_avx2_float_avx_sum (fo : FOps) (hassoc : ∀ x y z, fo.add32 (fo.add32 x y) z = fo.add32 x (fo.add32 y z)) (hcomm : ∀ x y, fo.add32 x y = fo.add32 y x)
    (e : BitVec 32) (hid : ∀ x, fo.add32 e x = x) (a : Reg) :
    avx2.float_avx.sum fo a = hfold fo.add32 e 8 (fun l => a l) := by
  have : Std.Associative fo.add32 := ⟨hassoc⟩
  have : Std.Commutative fo.add32 := ⟨hcomm⟩
  simp only [hfold, List.range, List.range.loop, List.foldl, hid]
  simp [simd, avx2.float_avx.sum, avx2.mm256_sum_ps, avx2.mm256_prod_ps, avx2.mm_sum_ps, avx2.mm_prod_ps]
  try ac_rfl

theorem gen_avx2_float_avx_product (fo : FOps) (hassoc : ∀ x y z, fo.mul32 (fo.mul32 x y) z = fo.mul32 x (fo.mul32 y z)) (hcomm : ∀ x y, fo.mul32 x y = fo.mul32 y x)
    (e : BitVec 32) (hid : ∀ x, fo.mul32 e x = x) (a : Reg) :
    avx2.float_avx.product fo a = hfold fo.mul32 e 8 (fun l => a l) := by
  have : Std.Associative fo.mul32 := ⟨hassoc⟩
  have : Std.Commutative fo.mul32 := ⟨hcomm⟩
  simp only [hfold, List.range, List.range.loop, List.foldl, hid]
  simp [simd, avx2.float_avx.product, avx2.mm256_sum_ps, avx2.mm256_prod_ps, avx2.mm_sum_ps, avx2.mm_prod_ps]
  try ac_rfl

theorem gen_avx2_double_avx_sum (fo : FOps) (hassoc : ∀ x y z, fo.add64 (fo.add64 x y) z = fo.add64 x (fo.add64 y z)) (hcomm : ∀ x y, fo.add64 x y = fo.add64 y x)
    (e : BitVec 64) (hid : ∀ x, fo.add64 e x = x) (a : Reg) :
    avx2.double_avx.sum fo a = hfold fo.add64 e 4 (fun l => lane64 a l) := by
  have : Std.Associative fo.add64 := ⟨hassoc⟩
  have : Std.Commutative fo.add64 := ⟨hcomm⟩
  simp only [hfold, List.range, List.range.loop, List.foldl, hid]
  simp [simd, avx2.double_avx.sum, avx2.mm256_sum_pd, avx2.mm256_prod_pd, lane64]
  try ac_rfl

theorem gen_avx2_double_avx_product (fo : FOps) (hassoc : ∀ x y z, fo.mul64 (fo.mul64 x y) z = fo.mul64 x (fo.mul64 y z)) (hcomm : ∀ x y, fo.mul64 x y = fo.mul64 y x)
    (e : BitVec 64) (hid : ∀ x, fo.mul64 e x = x) (a : Reg) :
    avx2.double_avx.product fo a = hfold fo.mul64 e 4 (fun l => lane64 a l) := by
  have : Std.Associative fo.mul64 := ⟨hassoc⟩
  have : Std.Commutative fo.mul64 := ⟨hcomm⟩
  simp only [hfold, List.range, List.range.loop, List.foldl, hid]
  simp [simd, avx2.double_avx.product, avx2.mm256_sum_pd, avx2.mm256_prod_pd, lane64]
  try ac_rfl

theorem gen_avx512_float_sse_sum (fo : FOps) (hassoc : ∀ x y z, fo.add32 (fo.add32 x y) z = fo.add32 x (fo.add32 y z)) (hcomm : ∀ x y, fo.add32 x y = fo.add32 y x)
    (e : BitVec 32) (hid : ∀ x, fo.add32 e x = x) (a : Reg) :
    avx512.float_sse.sum fo a = hfold fo.add32 e 4 (fun l => a l) := by
  have : Std.Associative fo.add32 := ⟨hassoc⟩
  have : Std.Commutative fo.add32 := ⟨hcomm⟩
  simp only [hfold, List.range, List.range.loop, List.foldl, hid]
  simp [simd, avx512.float_sse.sum, avx512.mm_sum_ps, avx512.mm_prod_ps]
  try ac_rfl

theorem gen_avx512_float_sse_product (fo : FOps) (hassoc : ∀ x y z, fo.mul32 (fo.mul32 x y) z = fo.mul32 x (fo.mul32 y z)) (hcomm : ∀ x y, fo.mul32 x y = fo.mul32 y x)
    (e : BitVec 32) (hid : ∀ x, fo.mul32 e x = x) (a : Reg) :
    avx512.float_sse.product fo a = hfold fo.mul32 e 4 (fun l => a l) := by
  have : Std.Associative fo.mul32 := ⟨hassoc⟩
  have : Std.Commutative fo.mul32 := ⟨hcomm⟩
  simp only [hfold, List.range, List.range.loop, List.foldl, hid]
  simp [simd, avx512.float_sse.product, avx512.mm_sum_ps, avx512.mm_prod_ps]
  try ac_rfl

theorem gen_avx512_double_sse_sum (fo : FOps) (hassoc : ∀ x y z, fo.add64 (fo.add64 x y) z = fo.add64 x (fo.add64 y z)) (hcomm : ∀ x y, fo.add64 x y = fo.add64 y x)
    (e : BitVec 64) (hid : ∀ x, fo.add64 e x = x) (a : Reg) :
    avx512.double_sse.sum fo a = hfold fo.add64 e 2 (fun l => lane64 a l) := by
  have : Std.Associative fo.add64 := ⟨hassoc⟩
  have : Std.Commutative fo.add64 := ⟨hcomm⟩
  simp only [hfold, List.range, List.range.loop, List.foldl, hid]
  simp [simd, avx512.double_sse.sum, avx512.mm_sum_pd, avx512.mm_prod_pd, lane64]
  try ac_rfl

theorem gen_avx512_double_sse_product (fo : FOps) (hassoc : ∀ x y z, fo.mul64 (fo.mul64 x y) z = fo.mul64 x (fo.mul64 y z)) (hcomm : ∀ x y, fo.mul64 x y = fo.mul64 y x)
    (e : BitVec 64) (hid : ∀ x, fo.mul64 e x = x) (a : Reg) :
    avx512.double_sse.product fo a = hfold fo.mul64 e 2 (fun l => lane64 a l) := by
  have : Std.Associative fo.mul64 := ⟨hassoc⟩
  have : Std.Commutative fo.mul64 := ⟨hcomm⟩
  simp only [hfold, List.range, List.range.loop, List.foldl, hid]
  simp [simd, avx512.double_sse.product, avx512.mm_sum_pd, avx512.mm_prod_pd, lane64]
  try ac_rfl

theorem gen_avx512_float_avx_sum (fo : FOps) (hassoc : ∀ x y z, fo.add32 (fo.add32 x y) z = fo.add32 x (fo.add32 y z)) (hcomm : ∀ x y, fo.add32 x y = fo.add32 y x)
    (e : BitVec 32) (hid : ∀ x, fo.add32 e x = x) (a : Reg) :
    avx512.float_avx.sum fo a = hfold fo.add32 e 8 (fun l => a l) := by
  have : Std.Associative fo.add32 := ⟨hassoc⟩
  have : Std.Commutative fo.add32 := ⟨hcomm⟩
  simp only [hfold, List.range, List.range.loop, List.foldl, hid]
  simp [simd, avx512.float_avx.sum, avx512.mm256_sum_ps, avx512.mm256_prod_ps, avx512.mm_sum_ps, avx512.mm_prod_ps]
  try ac_rfl

theorem gen_avx512_float_avx_product (fo : FOps) (hassoc : ∀ x y z, fo.mul32 (fo.mul32 x y) z = fo.mul32 x (fo.mul32 y z)) (hcomm : ∀ x y, fo.mul32 x y = fo.mul32 y x)
    (e : BitVec 32) (hid : ∀ x, fo.mul32 e x = x) (a : Reg) :
    avx512.float_avx.product fo a = hfold fo.mul32 e 8 (fun l => a l) := by
  have : Std.Associative fo.mul32 := ⟨hassoc⟩
  have : Std.Commutative fo.mul32 := ⟨hcomm⟩
  simp only [hfold, List.range, List.range.loop, List.foldl, hid]
  simp [simd, avx512.float_avx.product, avx512.mm256_sum_ps, avx512.mm256_prod_ps, avx512.mm_sum_ps, avx512.mm_prod_ps]
  try ac_rfl

theorem gen_avx512_double_avx_sum (fo : FOps) (hassoc : ∀ x y z, fo.add64 (fo.add64 x y) z = fo.add64 x (fo.add64 y z)) (hcomm : ∀ x y, fo.add64 x y = fo.add64 y x)
    (e : BitVec 64) (hid : ∀ x, fo.add64 e x = x) (a : Reg) :
    avx512.double_avx.sum fo a = hfold fo.add64 e 4 (fun l => lane64 a l) := by
  have : Std.Associative fo.add64 := ⟨hassoc⟩
  have : Std.Commutative fo.add64 := ⟨hcomm⟩
  simp only [hfold, List.range, List.range.loop, List.foldl, hid]
  simp [simd, avx512.double_avx.sum, avx512.mm256_sum_pd, avx512.mm256_prod_pd, lane64]
  try ac_rfl

theorem gen_avx512_double_avx_product (fo : FOps) (hassoc : ∀ x y z, fo.mul64 (fo.mul64 x y) z = fo.mul64 x (fo.mul64 y z)) (hcomm : ∀ x y, fo.mul64 x y = fo.mul64 y x)
    (e : BitVec 64) (hid : ∀ x, fo.mul64 e x = x) (a : Reg) :
    avx512.double_avx.product fo a = hfold fo.mul64 e 4 (fun l => lane64 a l) := by
  have : Std.Associative fo.mul64 := ⟨hassoc⟩
  have : Std.Commutative fo.mul64 := ⟨hcomm⟩
  simp only [hfold, List.range, List.range.loop, List.foldl, hid]
  simp [simd, avx512.double_avx.product, avx512.mm256_sum_pd, avx512.mm256_prod_pd, lane64]
  try ac_rfl


/-! integer vectors: the SSE `_mm_sum_epi32` / `_mm_prod_epi32` shuffle trees and the AVX-512 `_mm512_reduce_add_epi32` are
    `hfold` over the lanes (wrap-around arithmetic); the AVX and int64 forms are lane loops in the source, i.e. `hfold` literally. -/

theorem gen_sse2_int32_sse_sum (a : Reg) : sse2.int32_sse.sum a = hfold (· + ·) 0 4 a := by
  simp only [hfold, List.range, List.range.loop, List.foldl]
  simp [simd, sse2.int32_sse.sum, sse2.mm_sum_epi32]; ac_rfl
theorem gen_sse2_int32_sse_product (a : Reg) : sse2.int32_sse.product a = hfold (· * ·) 1 4 a := by
  simp only [hfold, List.range, List.range.loop, List.foldl]
  simp [simd, of64, sse2.int32_sse.product, sse2.mm_prod_epi32]; ac_rfl

theorem gen_avx2_int32_sse_sum (a : Reg) : avx2.int32_sse.sum a = hfold (· + ·) 0 4 a := by
  simp only [hfold, List.range, List.range.loop, List.foldl]
  simp [simd, avx2.int32_sse.sum, avx2.mm_sum_epi32]; ac_rfl
theorem gen_avx2_int32_sse_product (a : Reg) : avx2.int32_sse.product a = hfold (· * ·) 1 4 a := by
  simp only [hfold, List.range, List.range.loop, List.foldl]
  simp [simd, of64, avx2.int32_sse.product, avx2.mm_prod_epi32]; ac_rfl

theorem gen_avx512_int32_sse_sum (a : Reg) : avx512.int32_sse.sum a = hfold (· + ·) 0 4 a := by
  simp only [hfold, List.range, List.range.loop, List.foldl]
  simp [simd, avx512.int32_sse.sum, avx512.mm_sum_epi32]; ac_rfl
theorem gen_avx512_int32_sse_product (a : Reg) : avx512.int32_sse.product a = hfold (· * ·) 1 4 a := by
  simp only [hfold, List.range, List.range.loop, List.foldl]
  simp [simd, of64, avx512.int32_sse.product, avx512.mm_prod_epi32]; ac_rfl

theorem gen_avx512_int32_avx512_sum (a : Reg) : avx512.int32_avx512.sum a = hfold (· + ·) 0 16 a := by
  simp [avx512.int32_avx512.sum, reduce_add_epi32, hfold]

end generated

/-! ## determinants -/

/-- the row-major flat array `a` of an `n × n` matrix as a `Matrix` -/
def flatMat {R : Type} (n : Nat) (a : Nat → R) : Matrix (Fin n) (Fin n) R := Matrix.of fun i j => a (i.val * n + j.val)

section det
variable {R : Type} [CommRing R]

theorem det1_correct (a : Nat → R) : detSimple 1 a = (flatMat 1 a).det := by
  simp [detSimple, flatMat]

theorem det2_correct (a : Nat → R) : detSimple 2 a = (flatMat 2 a).det := by
  simp [detSimple, det2, flatMat, Matrix.det_fin_two]

theorem det3_correct (a : Nat → R) : detSimple 3 a = (flatMat 3 a).det := by
  simp [detSimple, det3, flatMat, Matrix.det_fin_three]
  ring

theorem det4_correct (a : Nat → R) : detSimple 4 a = (flatMat 4 a).det := by
  simp [detSimple, det4, flatMat, Matrix.det_succ_row_zero, Fin.sum_univ_succ, Fin.succAbove, Matrix.submatrix]
  ring

/-- non-vacuity: the closed forms on a concrete integer matrix -/
example : detSimple 3 (fun i => ([2, 1, 0, 1, -3, 1, 0, 1, 4] : List Int).getD i 0) = -30 := by decide

/-- **determinant<LU>**: if the row permutation `σ` found by the static pivot search is a product of `swaps` transpositions
    (`count_swaps`), and `lu` returned `L` unit lower triangular and `U` upper triangular with `P A = L U`, then
    `product(diag(U)) * (swaps even ? 1 : -1)` is the determinant of `A`. -/
theorem detLU_correct {n : Nat} (A L U : Matrix (Fin n) (Fin n) R) (sw : List (Equiv.Perm (Fin n)))
    (hsw : ∀ g ∈ sw, g.IsSwap) (hPA : A.submatrix sw.prod id = L * U)
    (hL : L.BlockTriangular OrderDual.toDual) (hL1 : ∀ i, L i i = 1) (hU : U.BlockTriangular id)
    (V ev : Nat) (hn : n < 2 ^ 64) (hev : ev ≤ 64) (hV : V = 2 ^ ev) :
    detLU sw.length (fun i => if h : i < n then U ⟨i, h⟩ ⟨i, h⟩ else 1) n V = A.det := by
  unfold detLU
  rw [product_correct _ n V ev hn hev hV]
  have hprod : ∏ i ∈ range n, (if h : i < n then U ⟨i, h⟩ ⟨i, h⟩ else (1 : R)) = ∏ i : Fin n, U i i := by
    rw [← Fin.prod_univ_eq_prod_range (fun i => if h : i < n then U ⟨i, h⟩ ⟨i, h⟩ else (1 : R)) n]
    apply Finset.prod_congr rfl
    intro i _; simp
  rw [hprod]
  have hdet := congrArg Matrix.det hPA
  rw [Matrix.det_permute, Matrix.det_mul, Matrix.det_of_isLowerTriangular L hL, Matrix.det_of_isUpperTriangular hU] at hdet
  simp only [hL1, Finset.prod_const_one, one_mul] at hdet
  rw [← hdet, Equiv.Perm.sign_prod_list_swap hsw]
  rcases Nat.even_or_odd sw.length with he | ho
  · have : sw.length % 2 = 0 := Nat.even_iff.1 he
    simp [this, he.neg_one_pow]
  · have : sw.length % 2 = 1 := Nat.odd_iff.1 ho
    simp [this, ho.neg_one_pow]

/-- non-vacuity of `detLU_correct`: `A = [[0,1],[1,0]]`, one row swap, `L = U = 1`: the hypotheses hold and `detLU = -1 = det A` -/
example : detLU 1 (fun _ => (1 : Int)) 2 2 = -1 := by decide
example : (Matrix.of ![![(0 : Int), 1], ![1, 0]]).submatrix ([Equiv.swap (0 : Fin 2) 1].prod) id = (1 : Matrix (Fin 2) (Fin 2) Int) * 1 := by
  ext i j; fin_cases i <;> fin_cases j <;> simp

/-- `determinant<QR>` as written is `product(diag(R))`; with `R_ii = sqrt(…) ≥ 0` it cannot be negative: the sign of
    the determinant is lost (known finding QRSIGN; replayed by the `detqr … sgn=neg` cases) -/
theorem detQR_nonneg {K : Type} [CommRing K] [LinearOrder K] [IsStrictOrderedRing K] (rdiag : Nat → K) (n V ev : Nat) (hn : n < 2 ^ 64) (hev : ev ≤ 64)
    (hV : V = 2 ^ ev) (hpos : ∀ i < n, 0 ≤ rdiag i) : 0 ≤ detQR rdiag n V := by
  unfold detQR
  rw [product_correct _ n V ev hn hev hV]
  exact Finset.prod_nonneg (fun i hi => hpos i (Finset.mem_range.1 hi))
end det

/-! ## the intrinsic specialisations of the reduction back ends: theorems about GENERATED definitions

`Generated/C16Spec_<isa>.lean` is regenerated by this check (props/c16_xlate.py, which extends the C08 translator by brace-initialised registers and the `T` of the AVX `_det` overloads and cuts the definitions out of that translator's output) from the
preprocessed `backend/norm.h`, `trace.h`, `determinant.h`, `doublecontract.h`.  Under the decoding hypothesis `RingDec32/64`
(the FPU's add / sub / mul are the ring operations on the decoded values — true whenever they are exact) the specialised
`_trace` is the model's `trace`, the AVX `_det` is `det2` / `det3` (= `Matrix.det`), the radicand of `_norm<T,4|9>` is the sum of
squares of ALL elements and `_doublecontract` is `Σ a_i b_i`. -/

section spec
attribute [local simp] loadw loadw_ss loadw_sd

/-- the lane operations of the FPU decode to the operations of a commutative ring (true on data for which they are exact) -/
structure RingDec32 (fo : FOps) {R : Type} [CommRing R] (val : BitVec 32 → R) : Prop where
  add : ∀ x y, val (fo.add32 x y) = val x + val y
  sub : ∀ x y, val (fo.sub32 x y) = val x - val y
  mul : ∀ x y, val (fo.mul32 x y) = val x * val y
  zero : val 0 = 0
structure RingDec64 (fo : FOps) {R : Type} [CommRing R] (val : BitVec 64 → R) : Prop where
  add : ∀ x y, val (fo.add64 x y) = val x + val y
  sub : ∀ x y, val (fo.sub64 x y) = val x - val y
  mul : ∀ x y, val (fo.mul64 x y) = val x * val y
  zero : val 0 = 0

/-- the same operations with the square root replaced by the identity: `_norm` of it is the radicand -/
def noSqrt (fo : FOps) : FOps := { fo with sqrt32 := id, sqrt64 := id }

variable (fo : FOps) {R : Type} [CommRing R]
/-! Memory behind a pointer is a `Reg` of 32-bit words (Model/SimdIntrinsics.lean): element `i` of a `float*` is `a i`, element `i`
    of a `double*` is `lane64 a i`. -/

-- ------------------------------------------------------------------------------------------------ configuration `avx2`
theorem spec_avx2_trace_double_2x2 (a : Reg) : avx2.spec.trace_double_2x2 fo a = fo.add64 (lane64 a 0) (lane64 a 3) := by
  simp [simd, avx2.spec.trace_double_2x2, lane64]
theorem spec_avx2_trace_double_3x3 (a : Reg) : avx2.spec.trace_double_3x3 fo a = fo.add64 (lane64 a 0) (fo.add64 (lane64 a 4) (lane64 a 8)) := by
  simp [simd, avx2.spec.trace_double_3x3, lane64]
theorem spec_avx2_trace_float_2x2 (a : Reg) : avx2.spec.trace_float_2x2 fo a = fo.add32 (a 0) (a 3) := by
  simp [simd, avx2.spec.trace_float_2x2, avx2.mm_reverse_ps]
theorem spec_avx2_trace_float_3x3 (a : Reg) : avx2.spec.trace_float_3x3 fo a = fo.add32 (fo.add32 (a 0) (a 4)) (a 8) := by
  simp [simd, avx2.spec.trace_float_3x3]
/-- the specialised traces are the model's `trace` (the sum of the diagonal `i*M+i`) -/
theorem spec_avx2_trace_float_3x3_model (val : BitVec 32 → R) (h : RingDec32 fo val) (a : Reg) :
    val (avx2.spec.trace_float_3x3 fo a) = Reduce.trace (fun i => val (a i)) 3 := by
  rw [spec_avx2_trace_float_3x3]; simp [Reduce.trace, h.add, List.range, List.range.loop]
theorem spec_avx2_trace_double_3x3_model (val : BitVec 64 → R) (h : RingDec64 fo val) (a : Reg) :
    val (avx2.spec.trace_double_3x3 fo a) = Reduce.trace (fun i => val (lane64 a i)) 3 := by
  rw [spec_avx2_trace_double_3x3]; simp [Reduce.trace, h.add, List.range, List.range.loop]; ring
theorem spec_avx2_trace_float_2x2_model (val : BitVec 32 → R) (h : RingDec32 fo val) (a : Reg) :
    val (avx2.spec.trace_float_2x2 fo a) = Reduce.trace (fun i => val (a i)) 2 := by
  rw [spec_avx2_trace_float_2x2]; simp [Reduce.trace, h.add, List.range, List.range.loop]
theorem spec_avx2_trace_double_2x2_model (val : BitVec 64 → R) (h : RingDec64 fo val) (a : Reg) :
    val (avx2.spec.trace_double_2x2 fo a) = Reduce.trace (fun i => val (lane64 a i)) 2 := by
  rw [spec_avx2_trace_double_2x2]; simp [Reduce.trace, h.add, List.range, List.range.loop]

/-- the AVX `_det` code for 2x2 and 3x3 float / double matrices decodes to the closed forms `det2` / `det3` of the model
    (= `Matrix.det` by `det2_correct`, `det3_correct`) -/
theorem spec_avx2_det_float_2 (val : BitVec 32 → R) (h : RingDec32 fo val) (a : Reg) :
    val (avx2.spec.det_float_2 fo a) = det2 (fun i => val (a i)) := by
  simp [simd, avx2.spec.det_float_2, det2, h.sub, h.mul]
theorem spec_avx2_det_double_2 (val : BitVec 64 → R) (h : RingDec64 fo val) (a : Reg) :
    val (avx2.spec.det_double_2 fo a) = det2 (fun i => val (lane64 a i)) := by
  simp [simd, avx2.spec.det_double_2, det2, h.sub, h.mul, lane64]
theorem spec_avx2_det_float_3 (val : BitVec 32 → R) (h : RingDec32 fo val) (a : Reg) :
    val (avx2.spec.det_float_3 fo a) = det3 (fun i => val (a i)) := by
  simp [simd, avx2.spec.det_float_3, avx2.h_add_ps, det3, h.sub, h.mul, h.add, h.zero]
  simp only [show val 0#32 = (0 : R) from h.zero]
  ring
theorem spec_avx2_det_double_3 (val : BitVec 64 → R) (h : RingDec64 fo val) (a : Reg) :
    val (avx2.spec.det_double_3 fo a) = det3 (fun i => val (lane64 a i)) := by
  simp [simd, avx2.spec.det_double_3, avx2.h_add_pd_m256d, det3, h.sub, h.mul, h.add, h.zero, lane64, hadd_pd, extractf128]
  simp only [show val 0#64 = (0 : R) from h.zero]
  ring

/-- `_norm<T,4|9>`: the result is `sqrt` of the radicand, and the radicand decodes to the sum of squares of all elements -/
theorem spec_avx2_norm_float_4_sqrt (a : Reg) : avx2.spec.norm_float_4 fo a = fo.sqrt32 (avx2.spec.norm_float_4 (noSqrt fo) a) := by
  simp [simd, avx2.spec.norm_float_4, avx2.h_norm_float_4, avx2.h_add_ps, noSqrt]
theorem spec_avx2_norm_float_4_radicand (val : BitVec 32 → R) (h : RingDec32 fo val) (a : Reg) :
    val (avx2.spec.norm_float_4 (noSqrt fo) a) = ∑ i ∈ range 4, val (a i) * val (a i) := by
  simp [simd, avx2.spec.norm_float_4, avx2.h_norm_float_4, avx2.h_add_ps, noSqrt, h.add, h.mul, Finset.sum_range_succ]; ring
theorem spec_avx2_norm_float_9_sqrt (a : Reg) : avx2.spec.norm_float_9 fo a = fo.sqrt32 (avx2.spec.norm_float_9 (noSqrt fo) a) := by
  simp [simd, avx2.spec.norm_float_9, avx2.h_norm_float_9, avx2.h_add_ps, avx2.h_add_ps_m256, noSqrt]
theorem spec_avx2_norm_float_9_radicand (val : BitVec 32 → R) (h : RingDec32 fo val) (a : Reg) :
    val (avx2.spec.norm_float_9 (noSqrt fo) a) = ∑ i ∈ range 9, val (a i) * val (a i) := by
  simp [simd, avx2.spec.norm_float_9, avx2.h_norm_float_9, avx2.h_add_ps, avx2.h_add_ps_m256, extractf128, noSqrt, h.add, h.mul, h.zero, Finset.sum_range_succ]
  simp only [show val 0#32 = (0 : R) from h.zero]
  ring
theorem spec_avx2_norm_double_4_sqrt (a : Reg) : avx2.spec.norm_double_4 fo a = fo.sqrt64 (avx2.spec.norm_double_4 (noSqrt fo) a) := by
  simp [simd, avx2.spec.norm_double_4, avx2.h_norm_double_4, avx2.h_add_pd_m256d, noSqrt, lane64, hadd_pd, extractf128]
theorem spec_avx2_norm_double_4_radicand (val : BitVec 64 → R) (h : RingDec64 fo val) (a : Reg) :
    val (avx2.spec.norm_double_4 (noSqrt fo) a) = ∑ i ∈ range 4, val (lane64 a i) * val (lane64 a i) := by
  simp [simd, avx2.spec.norm_double_4, avx2.h_norm_double_4, avx2.h_add_pd_m256d, noSqrt, h.add, h.mul, Finset.sum_range_succ, lane64, hadd_pd, extractf128]; ring
theorem spec_avx2_norm_double_9_sqrt (a : Reg) : avx2.spec.norm_double_9 fo a = fo.sqrt64 (avx2.spec.norm_double_9 (noSqrt fo) a) := by
  simp [simd, avx2.spec.norm_double_9, avx2.h_norm_double_9, avx2.h_add_pd, avx2.h_add_pd_m256d, noSqrt, lane64, hadd_pd, extractf128, movehl_ps]
theorem spec_avx2_norm_double_9_radicand (val : BitVec 64 → R) (h : RingDec64 fo val) (a : Reg) :
    val (avx2.spec.norm_double_9 (noSqrt fo) a) = ∑ i ∈ range 9, val (lane64 a i) * val (lane64 a i) := by
  simp [simd, avx2.spec.norm_double_9, avx2.h_norm_double_9, avx2.h_add_pd, avx2.h_add_pd_m256d, noSqrt, h.add, h.mul, h.zero, Finset.sum_range_succ, lane64, hadd_pd, extractf128, movehl_ps]
  simp only [show val 0#64 = (0 : R) from h.zero]
  ring

/-- `_doublecontract<T,2,2|3,3>` decodes to `Σ a_i b_i` over all 4 / 9 elements -/
theorem spec_avx2_dc_float_2x2 (val : BitVec 32 → R) (h : RingDec32 fo val) (a b : Reg) :
    val (avx2.spec.doublecontract_float_2x2 fo a b) = ∑ i ∈ range 4, val (a i) * val (b i) := by
  simp [simd, avx2.spec.doublecontract_float_2x2, avx2.mm_sum_ps, h.add, h.mul, Finset.sum_range_succ]; ring
theorem spec_avx2_dc_float_3x3 (val : BitVec 32 → R) (h : RingDec32 fo val) (a b : Reg) :
    val (avx2.spec.doublecontract_float_3x3 fo a b) = ∑ i ∈ range 9, val (a i) * val (b i) := by
  simp [simd, avx2.spec.doublecontract_float_3x3, avx2.mm_sum_ps, avx2.mm256_sum_ps, extractf128, h.add, h.mul, h.zero, Finset.sum_range_succ]
  simp only [show val 0#32 = (0 : R) from h.zero]
  ring
theorem spec_avx2_dc_double_2x2 (val : BitVec 64 → R) (h : RingDec64 fo val) (a b : Reg) :
    val (avx2.spec.doublecontract_double_2x2 fo a b) = ∑ i ∈ range 4, val (lane64 a i) * val (lane64 b i) := by
  simp [simd, avx2.spec.doublecontract_double_2x2, avx2.mm256_sum_pd, extractf128, shuffle_pd, lane64, h.add, h.mul, Finset.sum_range_succ]; ring
theorem spec_avx2_dc_double_3x3 (val : BitVec 64 → R) (h : RingDec64 fo val) (a b : Reg) :
    val (avx2.spec.doublecontract_double_3x3 fo a b) = ∑ i ∈ range 9, val (lane64 a i) * val (lane64 b i) := by
  simp [simd, avx2.spec.doublecontract_double_3x3, avx2.h_add_pd, avx2.h_add_pd_m256d, extractf128, hadd_pd, movehl_ps, lane64, h.add, h.mul, h.zero, Finset.sum_range_succ]
  simp only [show val 0#64 = (0 : R) from h.zero]
  ring

-- ------------------------------------------------------------------------------------------------ configuration `avx512`
theorem spec_avx512_trace_double_2x2 (a : Reg) : avx512.spec.trace_double_2x2 fo a = fo.add64 (lane64 a 0) (lane64 a 3) := by
  simp [simd, avx512.spec.trace_double_2x2, lane64]
theorem spec_avx512_trace_double_3x3 (a : Reg) : avx512.spec.trace_double_3x3 fo a = fo.add64 (lane64 a 0) (fo.add64 (lane64 a 4) (lane64 a 8)) := by
  simp [simd, avx512.spec.trace_double_3x3, lane64]
theorem spec_avx512_trace_float_2x2 (a : Reg) : avx512.spec.trace_float_2x2 fo a = fo.add32 (a 0) (a 3) := by
  simp [simd, avx512.spec.trace_float_2x2, avx512.mm_reverse_ps]
theorem spec_avx512_trace_float_3x3 (a : Reg) : avx512.spec.trace_float_3x3 fo a = fo.add32 (fo.add32 (a 0) (a 4)) (a 8) := by
  simp [simd, avx512.spec.trace_float_3x3]
/-- the specialised traces are the model's `trace` (the sum of the diagonal `i*M+i`) -/
theorem spec_avx512_trace_float_3x3_model (val : BitVec 32 → R) (h : RingDec32 fo val) (a : Reg) :
    val (avx512.spec.trace_float_3x3 fo a) = Reduce.trace (fun i => val (a i)) 3 := by
  rw [spec_avx512_trace_float_3x3]; simp [Reduce.trace, h.add, List.range, List.range.loop]
theorem spec_avx512_trace_double_3x3_model (val : BitVec 64 → R) (h : RingDec64 fo val) (a : Reg) :
    val (avx512.spec.trace_double_3x3 fo a) = Reduce.trace (fun i => val (lane64 a i)) 3 := by
  rw [spec_avx512_trace_double_3x3]; simp [Reduce.trace, h.add, List.range, List.range.loop]; ring
theorem spec_avx512_trace_float_2x2_model (val : BitVec 32 → R) (h : RingDec32 fo val) (a : Reg) :
    val (avx512.spec.trace_float_2x2 fo a) = Reduce.trace (fun i => val (a i)) 2 := by
  rw [spec_avx512_trace_float_2x2]; simp [Reduce.trace, h.add, List.range, List.range.loop]
theorem spec_avx512_trace_double_2x2_model (val : BitVec 64 → R) (h : RingDec64 fo val) (a : Reg) :
    val (avx512.spec.trace_double_2x2 fo a) = Reduce.trace (fun i => val (lane64 a i)) 2 := by
  rw [spec_avx512_trace_double_2x2]; simp [Reduce.trace, h.add, List.range, List.range.loop]

/-- the AVX `_det` code for 2x2 and 3x3 float / double matrices decodes to the closed forms `det2` / `det3` of the model
    (= `Matrix.det` by `det2_correct`, `det3_correct`) -/
theorem spec_avx512_det_float_2 (val : BitVec 32 → R) (h : RingDec32 fo val) (a : Reg) :
    val (avx512.spec.det_float_2 fo a) = det2 (fun i => val (a i)) := by
  simp [simd, avx512.spec.det_float_2, det2, h.sub, h.mul]
theorem spec_avx512_det_double_2 (val : BitVec 64 → R) (h : RingDec64 fo val) (a : Reg) :
    val (avx512.spec.det_double_2 fo a) = det2 (fun i => val (lane64 a i)) := by
  simp [simd, avx512.spec.det_double_2, det2, h.sub, h.mul, lane64]
theorem spec_avx512_det_float_3 (val : BitVec 32 → R) (h : RingDec32 fo val) (a : Reg) :
    val (avx512.spec.det_float_3 fo a) = det3 (fun i => val (a i)) := by
  simp [simd, avx512.spec.det_float_3, avx512.h_add_ps, det3, h.sub, h.mul, h.add, h.zero]
  simp only [show val 0#32 = (0 : R) from h.zero]
  ring
theorem spec_avx512_det_double_3 (val : BitVec 64 → R) (h : RingDec64 fo val) (a : Reg) :
    val (avx512.spec.det_double_3 fo a) = det3 (fun i => val (lane64 a i)) := by
  simp [simd, avx512.spec.det_double_3, avx512.h_add_pd_m256d, det3, h.sub, h.mul, h.add, h.zero, lane64, hadd_pd, extractf128]
  simp only [show val 0#64 = (0 : R) from h.zero]
  ring

/-- `_norm<T,4|9>`: the result is `sqrt` of the radicand, and the radicand decodes to the sum of squares of all elements -/
theorem spec_avx512_norm_float_4_sqrt (a : Reg) : avx512.spec.norm_float_4 fo a = fo.sqrt32 (avx512.spec.norm_float_4 (noSqrt fo) a) := by
  simp [simd, avx512.spec.norm_float_4, avx512.h_norm_float_4, avx512.h_add_ps, noSqrt]
theorem spec_avx512_norm_float_4_radicand (val : BitVec 32 → R) (h : RingDec32 fo val) (a : Reg) :
    val (avx512.spec.norm_float_4 (noSqrt fo) a) = ∑ i ∈ range 4, val (a i) * val (a i) := by
  simp [simd, avx512.spec.norm_float_4, avx512.h_norm_float_4, avx512.h_add_ps, noSqrt, h.add, h.mul, Finset.sum_range_succ]; ring
theorem spec_avx512_norm_float_9_sqrt (a : Reg) : avx512.spec.norm_float_9 fo a = fo.sqrt32 (avx512.spec.norm_float_9 (noSqrt fo) a) := by
  simp [simd, avx512.spec.norm_float_9, avx512.h_norm_float_9, avx512.h_add_ps, avx512.h_add_ps_m256, noSqrt]
theorem spec_avx512_norm_float_9_radicand (val : BitVec 32 → R) (h : RingDec32 fo val) (a : Reg) :
    val (avx512.spec.norm_float_9 (noSqrt fo) a) = ∑ i ∈ range 9, val (a i) * val (a i) := by
  simp [simd, avx512.spec.norm_float_9, avx512.h_norm_float_9, avx512.h_add_ps, avx512.h_add_ps_m256, extractf128, noSqrt, h.add, h.mul, h.zero, Finset.sum_range_succ]
  simp only [show val 0#32 = (0 : R) from h.zero]
  ring
theorem spec_avx512_norm_double_4_sqrt (a : Reg) : avx512.spec.norm_double_4 fo a = fo.sqrt64 (avx512.spec.norm_double_4 (noSqrt fo) a) := by
  simp [simd, avx512.spec.norm_double_4, avx512.h_norm_double_4, avx512.h_add_pd_m256d, noSqrt, lane64, hadd_pd, extractf128]
theorem spec_avx512_norm_double_4_radicand (val : BitVec 64 → R) (h : RingDec64 fo val) (a : Reg) :
    val (avx512.spec.norm_double_4 (noSqrt fo) a) = ∑ i ∈ range 4, val (lane64 a i) * val (lane64 a i) := by
  simp [simd, avx512.spec.norm_double_4, avx512.h_norm_double_4, avx512.h_add_pd_m256d, noSqrt, h.add, h.mul, Finset.sum_range_succ, lane64, hadd_pd, extractf128]; ring
theorem spec_avx512_norm_double_9_sqrt (a : Reg) : avx512.spec.norm_double_9 fo a = fo.sqrt64 (avx512.spec.norm_double_9 (noSqrt fo) a) := by
  simp [simd, avx512.spec.norm_double_9, avx512.h_norm_double_9, avx512.h_add_pd, avx512.h_add_pd_m256d, noSqrt, lane64, hadd_pd, extractf128, movehl_ps]
theorem spec_avx512_norm_double_9_radicand (val : BitVec 64 → R) (h : RingDec64 fo val) (a : Reg) :
    val (avx512.spec.norm_double_9 (noSqrt fo) a) = ∑ i ∈ range 9, val (lane64 a i) * val (lane64 a i) := by
  simp [simd, avx512.spec.norm_double_9, avx512.h_norm_double_9, avx512.h_add_pd, avx512.h_add_pd_m256d, noSqrt, h.add, h.mul, h.zero, Finset.sum_range_succ, lane64, hadd_pd, extractf128, movehl_ps]
  simp only [show val 0#64 = (0 : R) from h.zero]
  ring

/-- `_doublecontract<T,2,2|3,3>` decodes to `Σ a_i b_i` over all 4 / 9 elements -/
theorem spec_avx512_dc_float_2x2 (val : BitVec 32 → R) (h : RingDec32 fo val) (a b : Reg) :
    val (avx512.spec.doublecontract_float_2x2 fo a b) = ∑ i ∈ range 4, val (a i) * val (b i) := by
  simp [simd, avx512.spec.doublecontract_float_2x2, avx512.mm_sum_ps, h.add, h.mul, Finset.sum_range_succ]; ring
theorem spec_avx512_dc_float_3x3 (val : BitVec 32 → R) (h : RingDec32 fo val) (a b : Reg) :
    val (avx512.spec.doublecontract_float_3x3 fo a b) = ∑ i ∈ range 9, val (a i) * val (b i) := by
  simp [simd, avx512.spec.doublecontract_float_3x3, avx512.mm_sum_ps, avx512.mm256_sum_ps, extractf128, h.add, h.mul, h.zero, Finset.sum_range_succ]
  simp only [show val 0#32 = (0 : R) from h.zero]
  ring
theorem spec_avx512_dc_double_2x2 (val : BitVec 64 → R) (h : RingDec64 fo val) (a b : Reg) :
    val (avx512.spec.doublecontract_double_2x2 fo a b) = ∑ i ∈ range 4, val (lane64 a i) * val (lane64 b i) := by
  simp [simd, avx512.spec.doublecontract_double_2x2, avx512.mm256_sum_pd, extractf128, shuffle_pd, lane64, h.add, h.mul, Finset.sum_range_succ]; ring
theorem spec_avx512_dc_double_3x3 (val : BitVec 64 → R) (h : RingDec64 fo val) (a b : Reg) :
    val (avx512.spec.doublecontract_double_3x3 fo a b) = ∑ i ∈ range 9, val (lane64 a i) * val (lane64 b i) := by
  simp [simd, avx512.spec.doublecontract_double_3x3, avx512.h_add_pd, avx512.h_add_pd_m256d, extractf128, hadd_pd, movehl_ps, lane64, h.add, h.mul, h.zero, Finset.sum_range_succ]
  simp only [show val 0#64 = (0 : R) from h.zero]
  ring

end spec

end Fastor.C16
