import FastorModel.Proofs.Einsum
/-
# C03 — Pairwise einsum equals the Einstein summation it denotes

Property (properties.jsonl): for every pair of index lists in which no index occurs more than twice
and every operand shape consistent with them, einsum of two tensors returns a tensor whose free
indices are the non-repeated indices in order of first appearance, with extents taken from the
operands, and whose every element equals the sum over all repeated indices of the product of the
corresponding operand elements.

Reading of the formal statements below.
* `p : Pair` carries the two index lists `p.I`, `p.J` (index *names* are natural numbers) and the two
  extent lists `p.dI`, `p.dJ`; `p.cat = I ++ J`, `p.catDims = dI ++ dJ`.  `a b : Nat → R` are the two
  row-major operand buffers over an arbitrary commutative semiring `R`.
* `uniq p.cat` is the list of loop variables (one per index name, in order of first appearance),
  `p.loopDims` their extents, `assignments p.loopDims 1` the scalar loop nest: the list of all
  assignments `σ` (a value for every loop variable) in program order.  `posIn p.cat idx` maps each
  index of `idx` to its loop variable, `flatAt dims pos σ` is the row-major offset of the element of a
  tensor of extents `dims` whose k-th index is the value of loop variable `pos[k]` under `σ`.
* `p.loopEvents 1` is the model of the `RecursiveCartesian` loop nest: per assignment one accumulation
  `out[io] += a[ia] * b[ib]`; `accAt a b evs q` is the final content of cell `q` of the
  zero-initialised result.
* `p.term a b σ = a (flatAt p.dI (posIn p.cat p.I) σ) * b (flatAt p.dJ (posIn p.cat p.J) σ)` is the
  product of the operand elements selected by `σ`; `p.free σ` is the list of values `σ` gives to the
  result indices (in result order).
* `result_type_correct` (T4): the result indices are the indices of `I ++ J` that occur once, in order
  of first appearance; the result extents are the operand extents found at the position of each such
  index; if no index occurs more than twice, every loop variable is either a result index or occurs
  exactly twice (is contracted).
* `loopnest_correct` (T5, the main theorem): for *every* pattern (also with an index repeated inside
  one operand, also with indices occurring more than twice), all extents, and every in-range
  assignment `σ₀`, the result cell addressed by the free part of `σ₀` ends up holding the sum of
  `p.term a b σ` over all assignments `σ` of all index names that agree with `σ₀` on the free
  indices, each counted exactly once — i.e. the sum over all values of the repeated indices of the
  product of the corresponding operand elements.  `loopnest_correct_cell` is the same statement for an
  arbitrary in-range result multi-index `m` (it also covers results none of whose cells is ever
  written, e.g. a contracted extent 0: the cell holds the empty sum), `loopnest_all_cells` says every
  cell `q < prod p.resDims` is such a cell and `loopnest_frame` that cells `q ≥ prod p.resDims` are
  never written.
  The hypothesis "extents consistent" (`Consistent`) is *not needed* for these: a result index occurs
  once, so its result extent is by construction the loop extent of its loop variable.  Consistency is
  what makes the operand offsets genuine elements: `operand_offsets_in_range`.
* T1 `accAt_eq_sum`, T2 `mem_assignments`/`assignments_nodup`, T3 `flat_injective`/`flat_lt_prod`
  are the three ingredients (accumulation = sum, every assignment exactly once, two assignments hit
  the same cell iff they agree on the free indices).
* T6 `loopnest_vectorised_correct`: with the stride `p.stride sz vec` that `is_vectorisable` selects
  (any element size up to 16 bytes) the vector loop nest — innermost step `V`, each event covering `V`
  consecutive lanes — leaves in every cell exactly what the scalar nest leaves (`stride_sound` shows
  the stride is 1 unless the last index of the second operand is free and `V` divides its extent;
  `loopnest_vectorised_expand` shows that then the vector events expand to the scalar events, in
  order).  `loopnest_vectorised_cell` is T5 for the nest as run.
* T6b `reroute_gemm_correct` / `reroute_gemm_dispatch`: whenever the dispatch selects the matrix-matrix
  back end, the Einstein sum is the `(M,K,N)` matrix product of the operand buffers with
  `(M,K,N) = p.gemmShape` (here extents must be consistent and `K > 0`).
* The correspondence run of `./check C03` ties `Pair.loopEvents`, `Pair.stride`, `Pair.route` and the
  metafunctions to the real templates (same result extents, values, store order, read sets).
-/
namespace Fastor.C03
open Fastor Fastor.Einsum

variable {R : Type} [CommSemiring R]

/-! ### T1 -/

/-- **T1.** For scalar events the final content of cell `q` is the sum of `a[ia]*b[ib]` over the
    events addressed to `q`. -/
theorem accAt_eq_sum (a b : Nat → R) (evs : List Acc) (h1 : ∀ e ∈ evs, e.lanes = 1) (q : Nat) :
    accAt a b evs q = ((evs.filter (fun e => decide (e.io = q))).map (fun e => a e.ia * b e.ib)).sum :=
  Einsum.accAt_eq_sum a b evs h1 q

/-- general lanes: the sum over the events whose lane window contains `q` -/
theorem accAt_eq_sum_lanes (a b : Nat → R) (evs : List Acc) (q : Nat) :
    accAt a b evs q
      = ((evs.filter (fun e => decide (e.io ≤ q ∧ q < e.io + e.lanes))).map
          (fun e => a e.ia * b (e.ib + (q - e.io)))).sum :=
  Einsum.accAt_eq_sum_lanes a b evs q

/-! ### T2 -/

/-- **T2.** The scalar loop nest visits exactly the in-range assignments … -/
theorem mem_assignments (dims σ : List Nat) :
    σ ∈ assignments dims 1 ↔
      σ.length = dims.length ∧ ∀ k < dims.length, σ.getD k 0 < dims.getD k 0 := by
  rw [mem_assignments_iff, inRange_iff_getD]

/-- … each exactly once. -/
theorem assignments_nodup (dims : List Nat) : (assignments dims 1).Nodup :=
  Einsum.assignments_nodup dims

/-! ### T3 -/

/-- `flatAt` is the row-major offset `flat` of the multi-index read off the assignment -/
theorem flatAt_eq_flat (dims pos σ : List Nat) :
    flatAt dims pos σ = flat dims (pos.map (σ.getD · 0)) := Einsum.flatAt_eq_flat dims pos σ

/-- **T3.** Row-major offsets are injective on in-range multi-indices. -/
theorem flat_injective (dims x y : List Nat)
    (hx : x.length = dims.length) (hxr : ∀ k < dims.length, x.getD k 0 < dims.getD k 0)
    (hy : y.length = dims.length) (hyr : ∀ k < dims.length, y.getD k 0 < dims.getD k 0)
    (h : flat dims x = flat dims y) : x = y :=
  Einsum.flat_injective (inRange_iff_getD.2 ⟨hx, hxr⟩) (inRange_iff_getD.2 ⟨hy, hyr⟩) h

theorem flat_lt_prod (dims x : List Nat)
    (hx : x.length = dims.length) (hxr : ∀ k < dims.length, x.getD k 0 < dims.getD k 0) :
    flat dims x < prod dims :=
  Einsum.flat_lt_prod (inRange_iff_getD.2 ⟨hx, hxr⟩)

/-- every cell below the product of the extents is the offset of an in-range multi-index -/
theorem flat_surjective (dims : List Nat) (q : Nat) (hq : q < prod dims) :
    ∃ x, x.length = dims.length ∧ (∀ k < dims.length, x.getD k 0 < dims.getD k 0) ∧ flat dims x = q := by
  obtain ⟨x, hx, hf⟩ := Einsum.flat_surjective dims hq
  exact ⟨x, (inRange_iff_getD.1 hx).1, (inRange_iff_getD.1 hx).2, hf⟩

/-! ### T4 -/

/-- **T4.** The result type: (1) the free indices are the indices of `I ++ J` occurring once, in the
    order of `I ++ J`, which (2) is their order of first appearance (their order among the loop
    variables `uniq (I ++ J)`); (3) no index is listed twice; (4) the k-th result extent is the
    operand extent at the (only) position of the k-th result index. -/
theorem result_type_correct (p : Pair) (hI : p.I.length = p.dI.length) (hJ : p.J.length = p.dJ.length) :
    p.resIdx = (p.I ++ p.J).filter (fun x => decide ((p.I ++ p.J).count x = 1)) ∧
    p.resIdx = (uniq (p.I ++ p.J)).filter (fun x => decide ((p.I ++ p.J).count x = 1)) ∧
    p.resIdx.Nodup ∧
    p.resDims = p.resIdx.map (fun x => (p.dI ++ p.dJ).getD ((p.I ++ p.J).idxOf x) 0) := by
  have e : (fun x => decide ((p.I ++ p.J).count x = 1)) = occursOnce (p.I ++ p.J) := by
    funext x; unfold occursOnce; generalize (p.I ++ p.J).count x = n
    by_cases h : n = 1 <;> simp [h]
  rw [e]
  exact ⟨rfl, resultIdx_eq_filter_uniq _, resultIdx_nodup _, resultDims_eq_map (p.cat_length hI hJ)⟩

/-- **T4, at most twice.** If no index occurs more than twice, the loop variables split into the
    result indices and the indices occurring exactly twice (the contracted ones). -/
theorem loop_variables_split (p : Pair) (h2 : ∀ x, p.cat.count x ≤ 2) :
    (p.resIdx ++ (uniq p.cat).filter (fun x => decide (p.cat.count x = 2))).Perm (uniq p.cat) := by
  have h := List.filter_append_perm (occursOnce p.cat) (uniq p.cat)
  rw [← resultIdx_eq_filter_uniq] at h
  have e : (uniq p.cat).filter (fun x => !occursOnce p.cat x)
      = (uniq p.cat).filter (fun x => decide (p.cat.count x = 2)) := by
    apply List.filter_congr
    intro x hx
    have h1 : 0 < p.cat.count x := List.count_pos_iff.2 (mem_uniq.1 hx)
    have := h2 x
    simp only [occursOnce]
    by_cases hc : p.cat.count x = 1
    · simp [hc]
    · have : p.cat.count x = 2 := by omega
      simp [this]
  rw [e] at h
  exact h

/-- the number of loop variables is the number of distinct index names -/
theorem loopDims_length (p : Pair) : p.loopDims.length = (uniq p.cat).length :=
  Einsum.loopDims_length _ _

/-! ### T5 -/

/-- **T5 (C03, main theorem).**  For every index pattern and all extents, after the scalar loop nest
    the result cell addressed by the free part of an in-range assignment `σ₀` holds the sum, over
    all in-range assignments `σ` of all index names that agree with `σ₀` on the free indices (each
    once), of the product of the operand elements selected by `σ` — the Einstein sum. -/
theorem loopnest_correct (p : Pair) (hI : p.I.length = p.dI.length) (hJ : p.J.length = p.dJ.length)
    (a b : Nat → R) (σ₀ : List Nat) (hσ₀ : σ₀ ∈ assignments p.loopDims 1) :
    accAt a b (p.loopEvents 1) (flatAt p.resDims (posIn p.cat p.resIdx) σ₀)
      = (((assignments p.loopDims 1).filter (fun σ => decide (p.free σ = p.free σ₀))).map
          (fun σ => a (flatAt p.dI (posIn p.cat p.I) σ) * b (flatAt p.dJ (posIn p.cat p.J) σ))).sum := by
  rw [Pair.io_eq_flat]
  exact p.loopnest_cell hI hJ a b (p.free_inRange hI hJ hσ₀)

/-- the same for an arbitrary in-range result multi-index `m` (covers cells that no event touches) -/
theorem loopnest_correct_cell (p : Pair) (hI : p.I.length = p.dI.length) (hJ : p.J.length = p.dJ.length)
    (a b : Nat → R) (m : List Nat) (hm : m.length = p.resDims.length)
    (hmr : ∀ k < p.resDims.length, m.getD k 0 < p.resDims.getD k 0) :
    accAt a b (p.loopEvents 1) (flat p.resDims m)
      = (((assignments p.loopDims 1).filter (fun σ => decide (p.free σ = m))).map
          (fun σ => a (flatAt p.dI (posIn p.cat p.I) σ) * b (flatAt p.dJ (posIn p.cat p.J) σ))).sum :=
  p.loopnest_cell hI hJ a b (inRange_iff_getD.2 ⟨hm, hmr⟩)

/-- every cell of the result is of that form: the whole result buffer is determined -/
theorem loopnest_all_cells (p : Pair) (hI : p.I.length = p.dI.length) (hJ : p.J.length = p.dJ.length)
    (a b : Nat → R) (q : Nat) (hq : q < prod p.resDims) :
    ∃ m, m.length = p.resDims.length ∧ (∀ k < p.resDims.length, m.getD k 0 < p.resDims.getD k 0) ∧
      flat p.resDims m = q ∧
      accAt a b (p.loopEvents 1) q
        = (((assignments p.loopDims 1).filter (fun σ => decide (p.free σ = m))).map
            (fun σ => a (flatAt p.dI (posIn p.cat p.I) σ) * b (flatAt p.dJ (posIn p.cat p.J) σ))).sum := by
  obtain ⟨m, hm, hf⟩ := Einsum.flat_surjective p.resDims hq
  refine ⟨m, (inRange_iff_getD.1 hm).1, (inRange_iff_getD.1 hm).2, hf, ?_⟩
  rw [← hf]
  exact p.loopnest_cell hI hJ a b hm

/-- frame: cells at or beyond the size of the result are never written -/
theorem loopnest_frame (p : Pair) (hI : p.I.length = p.dI.length) (hJ : p.J.length = p.dJ.length)
    (a b : Nat → R) (q : Nat) (hq : prod p.resDims ≤ q) : accAt a b (p.loopEvents 1) q = 0 :=
  p.loopnest_frame hI hJ a b hq

/-- the free part of an in-range assignment is an in-range result multi-index, and two in-range
    assignments address the same result cell iff they agree on the free indices -/
theorem same_cell_iff (p : Pair) (hI : p.I.length = p.dI.length) (hJ : p.J.length = p.dJ.length)
    (σ τ : List Nat) (hσ : σ ∈ assignments p.loopDims 1) (hτ : τ ∈ assignments p.loopDims 1) :
    flatAt p.resDims (posIn p.cat p.resIdx) σ = flatAt p.resDims (posIn p.cat p.resIdx) τ
      ↔ p.free σ = p.free τ := by
  rw [Pair.io_eq_flat, Pair.io_eq_flat]
  exact ⟨Einsum.flat_injective (p.free_inRange hI hJ hσ) (p.free_inRange hI hJ hτ), fun h => by rw [h]⟩

/-- with consistent extents (every occurrence of an index name has the same extent) the operand
    offsets of every visited assignment are offsets of in-range operand multi-indices: each term of
    the sum is a genuine element of `a` times a genuine element of `b`, and no read is out of range -/
theorem operand_offsets_in_range (p : Pair) (hI : p.I.length = p.dI.length)
    (hJ : p.J.length = p.dJ.length) (hcons : Consistent p.cat p.catDims)
    (σ : List Nat) (hσ : σ ∈ assignments p.loopDims 1) :
    InRange ((posIn p.cat p.I).map (σ.getD · 0)) p.dI ∧
    InRange ((posIn p.cat p.J).map (σ.getD · 0)) p.dJ ∧
    flatAt p.dI (posIn p.cat p.I) σ < prod p.dI ∧
    flatAt p.dJ (posIn p.cat p.J) σ < prod p.dJ := by
  have hz : p.cat.zip p.catDims = p.I.zip p.dI ++ p.J.zip p.dJ := List.zip_append hI
  have hσ' := mem_assignments_iff.1 hσ
  have h1 : InRange ((posIn p.cat p.I).map (σ.getD · 0)) p.dI :=
    operand_inRange hcons hI (fun z hz' => by rw [hz]; exact List.mem_append_left _ hz') hσ'
  have h2 : InRange ((posIn p.cat p.J).map (σ.getD · 0)) p.dJ :=
    operand_inRange hcons hJ (fun z hz' => by rw [hz]; exact List.mem_append_right _ hz') hσ'
  refine ⟨h1, h2, ?_, ?_⟩
  · rw [Einsum.flatAt_eq_flat]; exact Einsum.flat_lt_prod h1
  · rw [Einsum.flatAt_eq_flat]; exact Einsum.flat_lt_prod h2

/-! ### T6: the vectorised loop nest -/

/-- what `is_vectorisable` (the model's `Pair.stride`) guarantees for element sizes up to 16 bytes:
    the stride is 1, or the last index of the second operand occurs nowhere else (it is free, hence
    the innermost loop variable and the last result index) and the positive stride divides its
    extent -/
theorem stride_sound (p : Pair) (hJ : p.J.length = p.dJ.length) (sz : Nat) (hsz : 0 < sz ∧ sz ≤ 16)
    (vec : Bool) :
    p.stride sz vec = 1 ∨
    ∃ J' jl k, p.J = J' ++ [jl] ∧ jl ∉ p.I ∧ jl ∉ J' ∧ 0 < p.stride sz vec ∧
      p.dJ.getLastD 1 = k * p.stride sz vec :=
  p.stride_cases hJ sz hsz vec

/-- **T6 (explicit hypotheses).** If the last index `jl` of the second operand occurs nowhere else
    and `V > 0` divides its extent, the vector loop nest (innermost step `V`, each event covering `V`
    consecutive lanes of the output and of the second operand) leaves in every cell what the scalar
    loop nest leaves there; in fact replacing every vector event by the `V` scalar events it stands
    for (`expand`) yields the scalar event list itself, in order. -/
theorem loopnest_vectorised_expand (p : Pair) (hI : p.I.length = p.dI.length)
    (hJ : p.J.length = p.dJ.length) (J' : List Nat) (jl : Nat) (hJeq : p.J = J' ++ [jl])
    (hnI : jl ∉ p.I) (hnJ : jl ∉ J') (k V : Nat) (hV : 0 < V) (hdl : p.dJ.getLastD 1 = k * V)
    (a b : Nat → R) :
    (p.loopEvents V).flatMap expand = p.loopEvents 1 ∧
    ∀ q, accAt a b (p.loopEvents V) q = accAt a b (p.loopEvents 1) q := by
  have h := p.loopEvents_vector_expand hI hJ J' jl hJeq hnI hnJ k V hV hdl
  exact ⟨h, fun q => by rw [← accAt_expand, h]⟩

/-- **T6.** With the stride the library selects (any element size up to 16 bytes, vectorisation on
    or off) the loop nest computes in every cell the same value as the scalar loop nest … -/
theorem loopnest_vectorised_correct (p : Pair) (hI : p.I.length = p.dI.length)
    (hJ : p.J.length = p.dJ.length) (sz : Nat) (hsz : 0 < sz ∧ sz ≤ 16) (vec : Bool)
    (a b : Nat → R) (q : Nat) :
    accAt a b (p.loopEvents (p.stride sz vec)) q = accAt a b (p.loopEvents 1) q := by
  rcases p.stride_cases hJ sz hsz vec with h | ⟨J', jl, k, hJeq, hnI, hnJ, hV, hdl⟩
  · rw [h]
  · exact (loopnest_vectorised_expand p hI hJ J' jl hJeq hnI hnJ k _ hV hdl a b).2 q

/-- … hence the Einstein sum: T5 for the loop nest as the library actually runs it. -/
theorem loopnest_vectorised_cell (p : Pair) (hI : p.I.length = p.dI.length)
    (hJ : p.J.length = p.dJ.length) (sz : Nat) (hsz : 0 < sz ∧ sz ≤ 16) (vec : Bool)
    (a b : Nat → R) (m : List Nat) (hm : m.length = p.resDims.length)
    (hmr : ∀ k < p.resDims.length, m.getD k 0 < p.resDims.getD k 0) :
    accAt a b (p.loopEvents (p.stride sz vec)) (flat p.resDims m)
      = (((assignments p.loopDims 1).filter (fun σ => decide (p.free σ = m))).map
          (fun σ => a (flatAt p.dI (posIn p.cat p.I) σ) * b (flatAt p.dJ (posIn p.cat p.J) σ))).sum := by
  rw [loopnest_vectorised_correct p hI hJ sz hsz vec a b]
  exact loopnest_correct_cell p hI hJ a b m hm hmr

/-- frame for the vectorised nest -/
theorem loopnest_vectorised_frame (p : Pair) (hI : p.I.length = p.dI.length)
    (hJ : p.J.length = p.dJ.length) (sz : Nat) (hsz : 0 < sz ∧ sz ≤ 16) (vec : Bool)
    (a b : Nat → R) (q : Nat) (hq : prod p.resDims ≤ q) :
    accAt a b (p.loopEvents (p.stride sz vec)) q = 0 := by
  rw [loopnest_vectorised_correct p hI hJ sz hsz vec a b]
  exact loopnest_frame p hI hJ a b q hq

/-! ### T6b: re-routing of the matrix-matrix pattern -/

/-- **re-routing, matrix-matrix.**  For the pattern `I = A ++ C`, `J = C ++ B` with all index names
    distinct (the shape `is_generalised_matrix_matrix` recognises: no index repeated within an operand,
    the last `|C|` indices of `I` are the first `|C|` of `J`), extents `dA ++ dC`, `dC ++ dB`: the result
    has indices `A ++ B`, extents `dA ++ dB` (so `M*N` cells with `M = prod dA`, `N = prod dB`), and
    the loop nest leaves in cell `i*N + j` the `(i,j)` entry of the product of the operands read as
    row-major `M×K` and `K×N` matrices, `K = prod dC` — which is what `_matmul<T,M,K,N>` computes on
    the same buffers (C01). -/
theorem reroute_gemm_correct (A C B dA dC dB : List Nat) (hnd : (A ++ C ++ B).Nodup)
    (hA : A.length = dA.length) (hC : C.length = dC.length) (hB : B.length = dB.length)
    (a b : Nat → R) :
    (gemmPair A C B dA dC dB).resIdx = A ++ B ∧
    (gemmPair A C B dA dC dB).resDims = dA ++ dB ∧
    prod (gemmPair A C B dA dC dB).resDims = prod dA * prod dB ∧
    ∀ i, i < prod dA → ∀ j, j < prod dB →
      accAt a b ((gemmPair A C B dA dC dB).loopEvents 1) (i * prod dB + j)
        = ∑ k ∈ Finset.range (prod dC), a (i * prod dC + k) * b (k * prod dB + j) := by
  refine ⟨gemm_resIdx hnd, gemm_resDims hnd hA hC hB, ?_, ?_⟩
  · rw [gemm_resDims hnd hA hC hB, prod_append]
  · intro i hi j hj
    obtain ⟨x, hx, rfl⟩ := Einsum.flat_surjective dA hi
    obtain ⟨y, hy, rfl⟩ := Einsum.flat_surjective dB hj
    exact gemm_cell hnd hA hC hB a b hx hy

/-- **re-routing, as dispatched.**  Whenever the model's dispatch selects the matrix-matrix back end
    (`p.route = .gemm`) for consistent extents, with `(M, K, N, _) = p.gemmShape` the shape handed to
    `_matmul` and `K > 0`: the result has `M*N` cells and the Einstein sum computed by the loop nest
    in cell `i*N + j` is the `(i,j)` entry of the `M×K` by `K×N` matrix product of the two operand
    buffers — so replacing the loop nest by `_matmul<T,M,K,N>` (correct by C01) preserves the result. -/
theorem reroute_gemm_dispatch (p : Pair) (hI : p.I.length = p.dI.length) (hJ : p.J.length = p.dJ.length)
    (hcons : Consistent p.cat p.catDims) (hr : p.route = .gemm) (hK : 0 < p.gemmShape.2.1)
    (a b : Nat → R) :
    p.gemmShape.2.2.2 = false ∧
    prod p.resDims = p.gemmShape.1 * p.gemmShape.2.2.1 ∧
    ∀ i, i < p.gemmShape.1 → ∀ j, j < p.gemmShape.2.2.1 →
      accAt a b (p.loopEvents 1) (i * p.gemmShape.2.2.1 + j)
        = ∑ k ∈ Finset.range p.gemmShape.2.1,
            a (i * p.gemmShape.2.1 + k) * b (k * p.gemmShape.2.2.1 + j) := by
  obtain ⟨A, C, B, dA, dC, dB, rfl, hnd, hA, hC, hB, hnc, _⟩ := p.gemm_structure hI hJ hcons hr
  have hK' : 0 < prod dC := by
    rcases Nat.eq_zero_or_pos (prod dC) with h0 | h0
    · exfalso
      have : (gemmPair A C B dA dC dB).gemmShape.2.1 = 0 := by
        unfold Pair.gemmShape
        rw [hr]
        simp only
        rw [← hnc, hC]
        show prod ((dC ++ dB).take dC.length) = 0
        simpa using h0
      omega
    · exact h0
  rw [gemmShape_of_gemm A C B dA dC dB hC hnc hr hK']
  obtain ⟨_, _, h3, h4⟩ := reroute_gemm_correct A C B dA dC dB hnd hA hC hB a b
  exact ⟨rfl, h3, h4⟩

/-! ### non-vacuity -/

/-- matrix product pattern `ij,jk`, extents 2×3 · 3×2 -/
def pMM : Pair := { I := [0, 1], J := [1, 2], dI := [2, 3], dJ := [3, 2] }
/-- trace-like pattern `ii,ji` (index 0 repeated inside the first operand), extents 2×2 · 3×2 -/
def pTr : Pair := { I := [0, 0], J := [1, 0], dI := [2, 2], dJ := [3, 2] }

example : pMM.resIdx = [0, 2] ∧ pMM.resDims = [2, 2] ∧ pMM.loopDims = [2, 3, 2] := by decide
example : pTr.resIdx = [1] ∧ pTr.resDims = [3] ∧ pTr.loopDims = [2, 3] := by decide
example : [1, 2, 1] ∈ assignments pMM.loopDims 1 := by decide
example : [1, 2] ∈ assignments pTr.loopDims 1 := by decide
example : Consistent pMM.cat pMM.catDims := by
  intro i j hi hj
  have h : ∀ i ∈ List.range 4, ∀ j ∈ List.range 4, pMM.cat.getD i 0 = pMM.cat.getD j 0 →
      pMM.catDims.getD i 0 = pMM.catDims.getD j 0 := by decide
  exact h i (List.mem_range.2 hi) j (List.mem_range.2 hj)
example : Consistent pTr.cat pTr.catDims := by
  intro i j hi hj
  have h : ∀ i ∈ List.range 4, ∀ j ∈ List.range 4, pTr.cat.getD i 0 = pTr.cat.getD j 0 →
      pTr.catDims.getD i 0 = pTr.catDims.getD j 0 := by decide
  exact h i (List.mem_range.2 hi) j (List.mem_range.2 hj)
example : ∀ x, pMM.cat.count x ≤ 2 := by
  intro x; by_cases h : x ∈ pMM.cat
  · have : x = 0 ∨ x = 1 ∨ x = 2 := by simpa [pMM, Pair.cat] using h
    rcases this with rfl | rfl | rfl <;> decide
  · rw [List.count_eq_zero.2 h]; omega

/-- T5 instantiated: cell (1,1) of the 2×2 result of `ij,jk` is `∑_j a[1,j]*b[j,1]` -/
example (a b : Nat → Int) :
    accAt a b (pMM.loopEvents 1) 3 = a 3 * b 1 + (a 4 * b 3 + (a 5 * b 5 + 0)) := by
  have h := loopnest_correct pMM rfl rfl a b [1, 2, 1] (by decide)
  have e : flatAt pMM.resDims (posIn pMM.cat pMM.resIdx) [1, 2, 1] = 3 := by decide
  rw [e] at h
  rw [h]
  rfl

/-- T5 instantiated on `ii,ji`: cell `j = 2` holds `∑_i a[i,i]*b[2,i]` (the diagonal of `a`) -/
example (a b : Nat → Int) :
    accAt a b (pTr.loopEvents 1) 2 = a 0 * b 4 + (a 3 * b 5 + 0) := by
  have h := loopnest_correct pTr rfl rfl a b [1, 2] (by decide)
  have e : flatAt pTr.resDims (posIn pTr.cat pTr.resIdx) [1, 2] = 2 := by decide
  rw [e] at h
  rw [h]
  rfl

/-- a vectorised instance: `ij,jk` with extents 2×3 · 3×4 and 4-byte elements runs with stride 4,
    three vector events per row instead of twelve scalar ones -/
def pVec : Pair := { I := [0, 1], J := [1, 2], dI := [2, 3], dJ := [3, 4] }
example : pVec.stride 4 true = 4 ∧ (pVec.loopEvents 4).length = 6 ∧ (pVec.loopEvents 1).length = 24 := by
  decide
example : pVec.J = [1] ++ [2] ∧ 2 ∉ pVec.I ∧ 2 ∉ [1] ∧ pVec.dJ.getLastD 1 = 1 * 4 := by decide

/-- the matrix product pattern is an instance of `gemmPair`, and the library re-routes it -/
example : pMM = gemmPair [0] [1] [2] [2] [3] [2] := rfl
example : pMM.route = .gemm ∧ pMM.gemmShape = (2, 3, 2, false) ∧ 0 < pMM.gemmShape.2.1 := by decide
/-- a rank-3 · rank-3 double contraction `A=[0]`, `C=[1,2]`, `B=[3]` -/
example : (gemmPair [0] [1, 2] [3] [2] [3, 2] [5]).route = .gemm ∧
    (gemmPair [0] [1, 2] [3] [2] [3, 2] [5]).gemmShape = (2, 6, 5, false) ∧
    ([0] ++ [1, 2] ++ [3]).Nodup := by decide

end Fastor.C03
