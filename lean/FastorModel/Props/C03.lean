import FastorModel.Model.Einsum
namespace Fastor.C03
/-- placeholder replaced below in this session: the C03 theorems are being written -/
theorem placeholder_true : True := trivial
end Fastor.C03
