import FastorModel.Proofs.TmatmulVal
import FastorModel.Props.C01
/-
# C17 — Triangular matrix product equals the general product of triangular operands

Property: for every shape (M,K,N), including trapezoidal ones, and every combination of
lower/upper/general tags, the triangular product of operands that are zero outside the tagged
triangle equals their ordinary matrix product element by element (exactly for integer-valued data).
Every element of the M×N result is written, including those that are structurally zero.

Reading of the statements.
* `Tmatmul.tkernel cfg lt rt sz M K N` is the model of `_tmatmul<T,M,K,N,Lhs,Rhs>`: dispatch between
  `_tmatmul_base`, `_tmatmul_base_masked`, and per tile the `k` range `[find_kfirst, find_klast)`.
* `TriA lt K a`: `a(r,k) = 0` whenever the tag `lt` says so (`k > r` for Lower, `k < r` for Upper);
  `TriB rt N b` likewise for `b(k,c)`.  These are the hypotheses "zero outside the tagged triangle".
* `tmatmul_exact`: every cell `(i,j)`, `i<M`, `j<N`, ends up holding the *full* sum
  `∑_{k<K} a[i*K+k]*b[k*N+j]` (so it equals the general product, and every cell is written since the
  statement is about the final memory whatever `c₀` was), and nothing at or beyond `M*N` is written.
  All nine tag pairs, all shapes, widths, unroll factors, both masked idioms.
* `krange_sufficient` (in Proofs/TmatmulFills) is the core: for every cell of a tile the clipped range
  misses only terms with a structurally zero factor — for *all* unroll factors `uo, ui`.
-/
namespace Fastor.C17
open Fastor Fastor.Matmul Fastor.Tmatmul Finset

variable {R : Type} [CommSemiring R]

theorem tkernel_correct (lt rt : UpLo) (M K N : Nat) (segs : List Seg)
    (h : Fills N (TComplete lt rt K) segs (· < M) (· < N))
    (a b c₀ : Nat → R) (ha : TriA lt K a) (hb : TriB rt N b) :
    (∀ i, i < M → ∀ j, j < N →
      applyWrites (kernelWrites N (tval a b K N) segs) c₀ (i * N + j)
        = ∑ k ∈ range K, a (i * K + k) * b (k * N + j)) ∧
    (∀ p, M * N ≤ p → applyWrites (kernelWrites N (tval a b K N) segs) c₀ p = c₀ p) := by
  have := kernel_memory M N (tval a b K N) (dotSpec a b K N) segs
    (fun s hs e he => by
      obtain ⟨_, hc, hP⟩ := h.inside s hs e he
      exact tval_final lt rt a b K N ha hb e hc hP)
    h.ok
    (fun s hs e he => by
      obtain ⟨hr, hc, _⟩ := h.inside s hs e he
      exact ⟨hr, hc⟩)
    (fun r hr c hc => h.cover r c hr hc)
    c₀
  simpa [dotSpec] using this

theorem tkernel_fills (cfg : Cfg) (lt rt : UpLo) (sz M K N : Nat) (hsz : sz = 4 ∨ sz = 8 ∨ sz = 16)
    (hob : ∀ x, cfg.outerBlock = some x → 0 < x) (hib : ∀ x, cfg.innerBlock = some x → 0 < x) :
    Fills N (TComplete lt rt K) (tkernel cfg lt rt sz M K N).2.2 (· < M) (· < N) := by
  unfold tkernel
  obtain ⟨e, _, hV⟩ := C01.vsize_pow2 cfg sz N hsz
  have hVpos : 0 < cfg.vsize sz N := by rw [hV]; exact Nat.pow_pos (by omega)
  obtain ⟨hu, hnR, hnC⟩ := C01.blocking_pos cfg M N (cfg.vsize sz N) hob hib
  cases tdispatch cfg true sz N with
  | base => simp only; exact fills_tbase M _ _ hVpos hu hnR hnC
  | baseMasked => simp only; exact fills_tbaseMasked cfg.masks M _ _ hVpos hu hnR hnC
  | nonPrimitive => simp only; exact fills_tnonPrimitive M

/-- **C17.** -/
theorem tmatmul_exact (cfg : Cfg) (lt rt : UpLo) (sz M K N : Nat) (hsz : sz = 4 ∨ sz = 8 ∨ sz = 16)
    (hob : ∀ x, cfg.outerBlock = some x → 0 < x) (hib : ∀ x, cfg.innerBlock = some x → 0 < x)
    (a b c₀ : Nat → R) (ha : TriA lt K a) (hb : TriB rt N b) :
    (∀ i, i < M → ∀ j, j < N →
      applyWrites (kernelWrites N (tval a b K N) (tkernel cfg lt rt sz M K N).2.2) c₀ (i * N + j)
        = ∑ k ∈ range K, a (i * K + k) * b (k * N + j)) ∧
    (∀ p, M * N ≤ p →
      applyWrites (kernelWrites N (tval a b K N) (tkernel cfg lt rt sz M K N).2.2) c₀ p = c₀ p) :=
  tkernel_correct lt rt M K N _ (tkernel_fills cfg lt rt sz M K N hsz hob hib) a b c₀ ha hb

/-- the clipping is sufficient whatever the unroll factors (restated here as a property theorem) -/
theorem krange_sufficient_all (lt rt : UpLo) (K uo ui i j r c : Nat)
    (hr : i ≤ r ∧ r < i + uo) (hc : j ≤ c ∧ c < j + ui) :
    KRangeOK lt rt K r c (kfirst lt rt i j) (klast lt rt K uo ui i j) :=
  krange_sufficient lt rt K uo ui i j r c hr hc

/-- non-vacuity: a lower-triangular `a` (zero above the diagonal) satisfies `TriA .lower` -/
example : TriA (R := Int) .lower 3 (fun p => if p % 3 ≤ p / 3 then 1 else 0) := by
  intro r k hk hz
  simp only [lzero] at hz
  have h1 : (r * 3 + k) % 3 = k := by omega
  have h2 : (r * 3 + k) / 3 = r := by omega
  simp only [h1, h2]
  split <;> omega

end Fastor.C17
