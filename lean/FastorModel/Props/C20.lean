import FastorModel.Model.Layout
import FastorModel.Model.MapAlias
/-
# C20 — wrapped / reshaped tensors are true aliases; layout conversions are exact inverses
(placeholder while the proofs are being written; see docs/DESIGN_C20.md)
-/
namespace Fastor.C20
open Fastor Fastor.Layout

/-- `nprods_views` gives one stride per dimension -/
theorem strides_length (dims : List Nat) : (strides dims).length = dims.length := by
  induction dims with
  | nil => rfl
  | cons d ds ih => simp [strides, ih]

end Fastor.C20
