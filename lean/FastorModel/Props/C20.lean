import FastorModel.Proofs.Layout
import FastorModel.Proofs.MapAlias
import FastorModel.Proofs.MapAliasWide
/-
# C20 — wrapped / reshaped tensors are true aliases; layout conversions are exact inverses

Property: a tensor map over a buffer, and the maps returned by reshape, flatten and squeeze, denote the same storage
as their source: every operation applied through the map has exactly the effect on the buffer that the operation
would have on an owning tensor holding the same values, and is immediately visible through the source and vice
versa.  Converting between row-major and column-major layouts places element (i0,…,ik) at the column-major offset
and the two conversions compose to the identity for every rank and shape; constructing from a raw buffer,
initializer lists, std::array or std::vector stores the given values in row-major order.

Reading of the statements (models: Model/Layout.lean, Model/MapAlias.lean; they transcribe the loops of
tensor/TensorFunctions.h, tensor/IndexRetriever.h, tensor/Tensor.h, tensor/InitializerListConstructors.h and the
`trivial_assign*` passes of tensor/TensorAssignment.h as used by TensorMap.h).

* `Box dims i`: the multi-index `i` has the rank of `dims` and every component is below its extent.
  `rowOffset dims i = Σ_k i_k·Π_{l>k} dims_l`, `colOffset dims i = Σ_k i_k·Π_{l<k} dims_l` (running product).
* WHICH WAY each converter converts (read from the code; its two branches agree):
  `torowmajor_offset`  — `torowmajor(a)` puts element (i0..ik) of the row-major tensor `a` AT THE COLUMN-MAJOR OFFSET
  of the result; this is the sentence of the property.  `tocolumnmajor_offset` — `tocolumnmajor(a)` reads the element
  found at the column-major offset of `a` and stores it at the row-major offset: it turns a column-major buffer
  into the library's storage (that is how `Tensor(ptr, ColumnMajor)` uses it: `ctor_columnmajor`).
  The comment lines above the two functions in the source state the opposite direction; the names are to be read as
  "interpret the argument as …".  Both theorems hold for EVERY rank (0, 1: copy; 2: the 2-D loops; ≥ 3: the reversed
  odometer) and every shape, whatever the initial contents `init` of the (uninitialised) result.
* `layout_roundtrip_cr` / `layout_roundtrip_rc`: the two converters compose to the identity in both orders.
* `flatIndex_rowmajor`: scalar indexing `get_flat_index` (closed forms for ranks 1–4, `products_` loop above) is the
  row-major offset; `reshape_same_storage` / `flatten_same_storage` / `squeeze_same_storage`: element `p` (in row-major
  reading order) of the returned map is element `p` of the source — same base pointer, equal products.
* `map_step_eq_owning_step`, `map_is_alias`: one memory, two names.  For every program (any interleaving of
  operations issued through the map and through the source), running it on the shared buffer equals running it with
  the map replaced by an OWNING tensor of the map's shape (aligned or not) holding the same values: plain `=` of an
  element-wise expression evaluated in place (map) equals evaluation into a temporary followed by a copy (owning) —
  `MapAlias.passInPlace_spec` / `assignViaTemp_spec` are the substance —, assignment from the other name is a
  no-op for the map and a value-preserving round trip for the owning tensor, same-type copy assignment copies the
  values.  Visibility "through the source and vice versa" is the single `buf` component of the state.
* `aligned_flag_irrelevant`: the state after a step does not depend on `is_aligned()`; `map_never_aligned`: a step
  through a map issues no aligned access.
* `ctor_rowmajor`, `ctor_columnmajor`, `ilist1_rowmajor … ilist4_rowmajor` (value `(i,j,k,l)` of a rectangular nested
  list ends at `((i·N+j)·P+k)·Q+l`): constructors store row-major.
Not in the model: views / reductions / evaluation-requiring right-hand sides through maps (value runs on the real
types), `TensorMap<const T>` (compile acceptance).
-/
namespace Fastor.C20
open Fastor Fastor.Expr Fastor.Layout Fastor.MapAlias

variable {α : Type}

/-! ### layout converters -/

/-- `tocolumnmajor(a)`: the element found at the COLUMN-major offset of `(i0..ik)` in `a` lands at the ROW-major offset -/
theorem tocolumnmajor_offset (dims : List Nat) (a init : Nat → α) (i : List Nat) (hi : Box dims i) :
    toColumnMajor dims a init (rowOffset dims i) = a (colOffset dims i) := by
  rw [colOffset_eq]
  unfold toColumnMajor runMoves movesWrites rowOffset
  apply applyWrites_functional
  · simp only [List.mem_map]
    exact ⟨(rowFlat dims i, colFlat dims i), (mem_toColumnMajorMoves dims _).2 ⟨i, hi, rfl⟩, rfl⟩
  · intro v' hv'
    simp only [List.mem_map] at hv'
    obtain ⟨m, hm, hmv⟩ := hv'
    obtain ⟨j, hj, rfl⟩ := (mem_toColumnMajorMoves dims m).1 hm
    have h1 : rowFlat dims j = rowFlat dims i := congrArg Prod.fst hmv
    have h2 : a (colFlat dims j) = v' := congrArg Prod.snd hmv
    rw [← h2, rowFlat_inj hj hi h1]

/-- **layout_offset**: `torowmajor(a)` places element `(i0..ik)` of `a` at the column-major offset -/
theorem torowmajor_offset (dims : List Nat) (a init : Nat → α) (i : List Nat) (hi : Box dims i) :
    toRowMajor dims a init (colOffset dims i) = a (rowOffset dims i) := by
  rw [colOffset_eq]
  unfold toRowMajor runMoves movesWrites rowOffset
  apply applyWrites_functional
  · simp only [List.mem_map]
    exact ⟨(colFlat dims i, rowFlat dims i), (mem_toRowMajorMoves dims _).2 ⟨i, hi, rfl⟩, rfl⟩
  · intro v' hv'
    simp only [List.mem_map] at hv'
    obtain ⟨m, hm, hmv⟩ := hv'
    obtain ⟨j, hj, rfl⟩ := (mem_toRowMajorMoves dims m).1 hm
    have h1 : colFlat dims j = colFlat dims i := congrArg Prod.fst hmv
    have h2 : a (rowFlat dims j) = v' := congrArg Prod.snd hmv
    rw [← h2, colFlat_inj hj hi h1]

example : Box [2, 3, 4] [1, 2, 3] ∧ rowOffset [2, 3, 4] [1, 2, 3] = 23 ∧ colOffset [2, 3, 4] [1, 0, 3] = 19 :=
  ⟨by simp [Box], by decide, by decide⟩

/-- **layout_roundtrip**: `torowmajor(tocolumnmajor(a)) = a`, every rank and shape -/
theorem layout_roundtrip_cr (dims : List Nat) (a i1 i2 : Nat → α) (p : Nat) (hp : p < prod dims) :
    toRowMajor dims (toColumnMajor dims a i1) i2 p = a p := by
  obtain ⟨hb, hv⟩ := unflatCol_spec hp
  have h := torowmajor_offset dims (toColumnMajor dims a i1) i2 _ hb
  rw [colOffset_eq, hv] at h
  rw [h, tocolumnmajor_offset dims a i1 _ hb, colOffset_eq, hv]

/-- `tocolumnmajor(torowmajor(a)) = a`, every rank and shape -/
theorem layout_roundtrip_rc (dims : List Nat) (a i1 i2 : Nat → α) (p : Nat) (hp : p < prod dims) :
    toColumnMajor dims (toRowMajor dims a i1) i2 p = a p := by
  obtain ⟨hb, hv⟩ := unflatRow_spec hp
  have h := tocolumnmajor_offset dims (toRowMajor dims a i1) i2 _ hb
  unfold rowOffset at h
  rw [hv] at h
  rw [h, torowmajor_offset dims a i1 _ hb]
  unfold rowOffset
  rw [hv]

example : toRowMajor [2, 3, 2] (toColumnMajor [2, 3, 2] (fun p => (p : Int) * 7) (fun _ => 0)) (fun _ => 0) 5 = 35 := by
  decide

/-- the odometer's store order: counter `c` of the n-D branch pairs the row-major offset of the multi-index whose
    column-major offset is `c` -/
theorem odometer_order (dims : List Nat) (hpos : 0 < prod dims) :
    odoMoves dims = (List.range (prod dims)).map fun c => (dot (strides dims).reverse (unflatRow dims.reverse c), c) := by
  unfold odoMoves
  have hb0 : Box dims.reverse (List.replicate dims.length 0) := by
    have := box_replicate_zero (ds := dims.reverse) (by rw [prod_reverse]; exact hpos)
    simpa using this
  have hv0 : rowFlat dims.reverse (List.replicate dims.length 0) = 0 := by
    have := rowFlat_replicate_zero dims.reverse
    simpa using this
  have hloop := odoLoop_eq (strides dims).reverse dims.reverse (prod dims) (List.replicate dims.length 0) 0
    hb0 hv0 (by rw [prod_reverse]; omega)
  rw [prod_reverse] at hloop
  rw [hloop, Nat.sub_zero, List.range_eq_range']

/-! ### scalar indexing, reshape / flatten / squeeze -/

/-- `get_flat_index` is the row-major offset, for every rank -/
theorem flatIndex_rowmajor (dims idx : List Nat) (hl : idx.length = dims.length) :
    flatIndex dims idx = rowOffset dims idx := by
  unfold rowOffset
  match dims, idx, hl with
  | [], [], _ => simp [flatIndex, rowFlat, strides, dot]
  | [_], [i], _ => simp [flatIndex, rowFlat, prod]
  | [_, N], [i, j], _ => simp [flatIndex, rowFlat, prod]
  | [_, N, P], [i, j, k], _ => simp [flatIndex, rowFlat, prod, Nat.mul_assoc, Nat.add_assoc]
  | [_, N, P, Q], [i, j, k, l], _ => simp [flatIndex, rowFlat, prod, Nat.mul_assoc, Nat.add_assoc]
  | d0 :: d1 :: d2 :: d3 :: d4 :: ds, i0 :: i1 :: i2 :: i3 :: i4 :: is, _ =>
    simp only [flatIndex]; exact (rowFlat_eq_dot _ _).symm

/-- **reshape_same_storage**: element `p` (row-major reading order) of `reshape<shapes...>(a)` is element `p` of `a`
    — the `static_assert` of `reshape` is the hypothesis on the products -/
theorem reshape_same_storage (v : View) (shapes : List Nat) (mem : Nat → α) (p : Nat)
    (hprod : prod shapes = prod v.dims) (hp : p < prod v.dims) :
    (reshape v shapes).at mem (unflatRow shapes p) = v.at mem (unflatRow v.dims p) := by
  have h1 := unflatRow_spec (ds := shapes) (p := p) (by rw [hprod]; exact hp)
  have h2 := unflatRow_spec (ds := v.dims) (p := p) hp
  unfold View.at reshape
  simp only []
  rw [flatIndex_rowmajor _ _ h1.1.length_eq, flatIndex_rowmajor _ _ h2.1.length_eq]
  unfold rowOffset
  rw [h1.2, h2.2]

theorem flatten_same_storage (v : View) (mem : Nat → α) (p : Nat) (hp : p < prod v.dims) :
    (flatten v).at mem [p] = v.at mem (unflatRow v.dims p) := by
  have h := reshape_same_storage v [prod v.dims] mem p (by simp [prod]) hp
  simpa [reshape, flatten, unflatRow, prod] using h

theorem prod_filter_ne_one (ds : List Nat) : prod (ds.filter (· != 1)) = prod ds := by
  induction ds with
  | nil => rfl
  | cons d ds ih =>
    by_cases h : d = 1
    · subst h; simp [List.filter, prod, ih]
    · have : (d != 1) = true := by simp [h]
      simp [List.filter, this, prod, ih]

theorem squeeze_same_storage (v : View) (mem : Nat → α) (p : Nat) (hp : p < prod v.dims) :
    (squeeze v).at mem (unflatRow (squeeze v).dims p) = v.at mem (unflatRow v.dims p) :=
  reshape_same_storage v (v.dims.filter (· != 1)) mem p (prod_filter_ne_one _) hp

example : (reshape ⟨0, [2, 3, 2]⟩ [4, 3]).at (fun p => (p : Int)) [3, 1] = (⟨0, [2, 3, 2]⟩ : View).at (fun p => (p : Int)) [1, 2, 0] := by
  decide

/-! ### constructors -/

theorem ctor_rowmajor (dims : List Nat) (arr init : Nat → α) (p : Nat) (hp : p < prod dims) :
    ctorBuffer dims .rowMajor arr init p = arr p := by
  unfold ctorBuffer ctorBufferWrites
  have := applyWrites_map_range (α := α) 0 (prod dims) arr init p
  simp only [Nat.zero_add, Nat.zero_le, true_and] at this
  simp only [this, if_pos hp]

/-- `Tensor(ptr, ColumnMajor)`: element `(i0..ik)` of the tensor (row-major storage) is the element of the buffer at
    the column-major offset -/
theorem ctor_columnmajor (dims : List Nat) (arr init : Nat → α) (i : List Nat) (hi : Box dims i) :
    ctorBuffer dims .columnMajor arr init (rowOffset dims i) = arr (colOffset dims i) := by
  unfold ctorBuffer ctorBufferWrites
  simp only []
  rw [applyWrites_append]
  have hcopy : ∀ q, applyWrites ((List.range (prod dims)).map fun p => (p, arr p)) init q = if q < prod dims then arr q else init q := by
    intro q
    have := applyWrites_map_range (α := α) 0 (prod dims) arr init q
    simpa using this
  have hfin := applyWrites_map_range (α := α) 0 (prod dims)
    (applyWrites (movesWrites (toColumnMajorMoves dims) (applyWrites ((List.range (prod dims)).map fun p => (p, arr p)) init)) init)
    (applyWrites ((List.range (prod dims)).map fun p => (p, arr p)) init) (rowOffset dims i)
  simp only [Nat.zero_add, Nat.zero_le, true_and] at hfin
  have hlt : rowOffset dims i < prod dims := rowFlat_lt hi
  rw [hfin, if_pos hlt]
  have h := tocolumnmajor_offset dims (applyWrites ((List.range (prod dims)).map fun p => (p, arr p)) init) init i hi
  unfold toColumnMajor runMoves at h
  rw [h, hcopy, if_pos (by rw [colOffset_eq]; exact colFlat_lt hi)]

example : ctorBuffer [2, 3] .columnMajor (fun p => (p : Int)) (fun _ => -1) (rowOffset [2, 3] [1, 2]) = 5 := by decide

/-- the stores `_data[counter] = x; counter++` over a flat sequence of values -/
def seqWrites (l : List α) (c : Nat) : List (Nat × α) := (List.range' c l.length).zip l

theorem seqWrites_cons (x : α) (l : List α) (c : Nat) : seqWrites (x :: l) c = (c, x) :: seqWrites l (c + 1) := by
  simp [seqWrites, List.range'_succ]

theorem seqWrites_append (a b : List α) (c : Nat) : seqWrites (a ++ b) c = seqWrites a c ++ seqWrites b (c + a.length) := by
  induction a generalizing c with
  | nil => simp [seqWrites]
  | cons x a ih =>
    simp only [List.cons_append, seqWrites_cons, ih, List.length_cons]
    congr 3; omega

theorem ilist1_aux (l : List α) (acc : List (Nat × α)) (c : Nat) :
    l.foldl (fun st x => (st.1 ++ [(st.2, x)], st.2 + 1)) (acc, c) = (acc ++ seqWrites l c, c + l.length) := by
  induction l generalizing acc c with
  | nil => simp [seqWrites]
  | cons x l ih =>
    simp only [List.foldl_cons, ih, seqWrites_cons, List.length_cons, List.append_assoc, List.singleton_append]
    congr 1; omega

/-- rank 1: the values are stored consecutively from `counter` in reading order -/
theorem ilist1_writes (l : List α) (c : Nat) : ilistWrites1 l c = (seqWrites l c, c + l.length) := by
  unfold ilistWrites1; rw [ilist1_aux]; simp

theorem ilist2_aux (ll : List (List α)) (acc : List (Nat × α)) (c : Nat) :
    ll.foldl (fun st row => (st.1 ++ seqWrites row st.2, st.2 + row.length)) (acc, c) =
      (acc ++ seqWrites ll.flatten c, c + ll.flatten.length) := by
  induction ll generalizing acc c with
  | nil => simp [seqWrites]
  | cons row ll ih =>
    simp only [List.foldl_cons]
    rw [ih]
    simp [seqWrites_append, Nat.add_assoc]

/-- rank 2: nested braces are stored in reading order, i.e. row by row -/
theorem ilist2_writes (ll : List (List α)) (c : Nat) :
    ilistWrites2 ll c = (seqWrites ll.flatten c, c + ll.flatten.length) := by
  unfold ilistWrites2
  simp only [ilist1_writes]
  rw [ilist2_aux]; simp

theorem ilist3_aux (l3 : List (List (List α))) (acc : List (Nat × α)) (c : Nat) :
    l3.foldl (fun st row => (st.1 ++ seqWrites row.flatten st.2, st.2 + row.flatten.length)) (acc, c) =
      (acc ++ seqWrites l3.flatten.flatten c, c + l3.flatten.flatten.length) := by
  induction l3 generalizing acc c with
  | nil => simp [seqWrites]
  | cons row l3 ih =>
    simp only [List.foldl_cons]
    rw [ih]
    simp [seqWrites_append, Nat.add_assoc]

theorem ilist3_writes (l3 : List (List (List α))) (c : Nat) :
    ilistWrites3 l3 c = (seqWrites l3.flatten.flatten c, c + l3.flatten.flatten.length) := by
  unfold ilistWrites3
  simp only [ilist2_writes]
  rw [ilist3_aux]; simp

theorem ilist4_aux (l4 : List (List (List (List α)))) (acc : List (Nat × α)) (c : Nat) :
    l4.foldl (fun st row => (st.1 ++ seqWrites row.flatten.flatten st.2, st.2 + row.flatten.flatten.length)) (acc, c) =
      (acc ++ seqWrites l4.flatten.flatten.flatten c, c + l4.flatten.flatten.flatten.length) := by
  induction l4 generalizing acc c with
  | nil => simp [seqWrites]
  | cons row l4 ih =>
    simp only [List.foldl_cons]
    rw [ih]
    simp [seqWrites_append, Nat.add_assoc]

theorem ilist4_writes (l4 : List (List (List (List α)))) (c : Nat) :
    ilistWrites4 l4 c = (seqWrites l4.flatten.flatten.flatten c, c + l4.flatten.flatten.flatten.length) := by
  unfold ilistWrites4
  simp only [ilist3_writes]
  rw [ilist4_aux]; simp

/-- memory after the stores of a flat sequence: position `p` holds the `p`-th value in reading order -/
theorem seqWrites_memory (l : List α) (init : Nat → α) (p : Nat) (hp : p < l.length) :
    applyWrites (seqWrites l 0) init p = l[p] := by
  apply applyWrites_functional
  · unfold seqWrites
    rw [List.mem_iff_getElem?]
    refine ⟨p, ?_⟩
    rw [List.getElem?_zip_eq_some]
    exact ⟨by simp [List.getElem?_range', hp], by simp [hp]⟩
  · intro v' hv'
    unfold seqWrites at hv'
    obtain ⟨k, hk, hk2⟩ := List.getElem_of_mem hv'
    rw [List.getElem_zip] at hk2
    have h1 := congrArg Prod.fst hk2
    have h2 := congrArg Prod.snd hk2
    simp only [List.getElem_range', Nat.one_mul, Nat.zero_add] at h1
    subst h1
    exact h2.symm

/-- row-major reading of a rectangular rank-2 list: row `i`, column `j` is at position `i*N + j` of the flattening -/
theorem flatten_rect_getElem? (ll : List (List α)) (N : Nat) (hrect : ∀ row ∈ ll, row.length = N) (i j : Nat)
    (hj : j < N) : ll.flatten[i * N + j]? = (ll[i]?).bind (·[j]?) := by
  induction ll generalizing i with
  | nil => simp
  | cons row ll ih =>
    have hrow : row.length = N := hrect row (by simp)
    have hrest : ∀ r ∈ ll, r.length = N := fun r hr => hrect r (List.mem_cons_of_mem _ hr)
    cases i with
    | zero => simp [List.getElem?_append_left, hrow, hj]
    | succ i =>
      have : (i + 1) * N + j = row.length + (i * N + j) := by rw [hrow, Nat.succ_mul]; omega
      simp only [List.flatten_cons, this, List.getElem?_cons_succ]
      rw [List.getElem?_append_right (by omega)]
      simp only [Nat.add_sub_cancel_left]
      exact ih hrest i

/-- **rank-2 initializer list stores row-major**: with `M` rows of `N` values, `_data[i*N+j]` is value `(i,j)` -/
theorem ilist2_rowmajor (ll : List (List α)) (N : Nat) (hrect : ∀ row ∈ ll, row.length = N) (init : Nat → α)
    (i j : Nat) (hi : i < ll.length) (hj : j < N) :
    some (applyWrites (ilistWrites2 ll 0).1 init (i * N + j)) = (ll[i]?).bind (·[j]?) := by
  rw [ilist2_writes]
  simp only []
  have hrow : (ll[i]).length = N := hrect _ (List.getElem_mem hi)
  have h := flatten_rect_getElem? ll N hrect i j hj
  rw [List.getElem?_eq_getElem hi] at h
  simp only [Option.bind_some] at h
  have hj' : j < (ll[i]).length := by rw [hrow]; exact hj
  rw [List.getElem?_eq_getElem hj'] at h
  obtain ⟨hlen, _⟩ := List.getElem?_eq_some_iff.1 h
  rw [seqWrites_memory _ init _ hlen, ← flatten_rect_getElem? ll N hrect i j hj, List.getElem?_eq_getElem hlen]

example : applyWrites (ilistWrites2 [[(1 : Int), 2, 3], [4, 5, 6]] 0).1 (fun _ => 0) (1 * 3 + 2) = 6 := by decide

/-- row-major reading of a rectangular rank-3 list -/
theorem ilist3_rowmajor (l3 : List (List (List α))) (N P : Nat)
    (hrect2 : ∀ m ∈ l3, m.length = N) (hrect3 : ∀ m ∈ l3, ∀ row ∈ m, row.length = P) (init : Nat → α)
    (i j k : Nat) (hi : i < l3.length) (hj : j < N) (hk : k < P) :
    some (applyWrites (ilistWrites3 l3 0).1 init ((i * N + j) * P + k)) = ((l3[i]?).bind (·[j]?)).bind (·[k]?) := by
  rw [ilist3_writes]
  simp only []
  have hrows : ∀ row ∈ l3.flatten, row.length = P := by
    intro row hrow
    obtain ⟨m, hm, hr⟩ := List.mem_flatten.1 hrow
    exact hrect3 m hm row hr
  have h1 := flatten_rect_getElem? l3 N hrect2 i j hj
  have h2 := flatten_rect_getElem? l3.flatten P hrows (i * N + j) k hk
  rw [h1] at h2
  have hmi : (l3[i]).length = N := hrect2 _ (List.getElem_mem hi)
  have hj' : j < (l3[i]).length := by rw [hmi]; exact hj
  have hrow : ((l3[i])[j]).length = P := hrect3 _ (List.getElem_mem hi) _ (List.getElem_mem hj')
  have hk' : k < ((l3[i])[j]).length := by rw [hrow]; exact hk
  have hval : ((l3[i]?).bind (·[j]?)).bind (·[k]?) = some ((l3[i])[j])[k] := by
    rw [List.getElem?_eq_getElem hi]; simp only [Option.bind_some]
    rw [List.getElem?_eq_getElem hj']; simp only [Option.bind_some]
    rw [List.getElem?_eq_getElem hk']
  rw [hval] at h2 ⊢
  obtain ⟨hlen, hv⟩ := List.getElem?_eq_some_iff.1 h2
  rw [seqWrites_memory _ init _ hlen, hv]

example : applyWrites (ilistWrites3 [[[(1 : Int), 2], [3, 4], [5, 6]], [[7, 8], [9, 10], [11, 12]]] 0).1 (fun _ => 0) ((1 * 3 + 2) * 2 + 1) = 12 := by
  decide

/-- row-major reading of a rectangular rank-4 list -/
theorem ilist4_rowmajor (l4 : List (List (List (List α)))) (N P Q : Nat)
    (hr2 : ∀ a ∈ l4, a.length = N) (hr3 : ∀ a ∈ l4, ∀ b ∈ a, b.length = P) (hr4 : ∀ a ∈ l4, ∀ b ∈ a, ∀ c ∈ b, c.length = Q)
    (init : Nat → α) (i j k l : Nat) (hi : i < l4.length) (hj : j < N) (hk : k < P) (hl : l < Q) :
    some (applyWrites (ilistWrites4 l4 0).1 init (((i * N + j) * P + k) * Q + l)) =
      (((l4[i]?).bind (·[j]?)).bind (·[k]?)).bind (·[l]?) := by
  rw [ilist4_writes]
  simp only []
  have hrows2 : ∀ b ∈ l4.flatten, b.length = P := by
    intro b hb
    obtain ⟨a, ha, hba⟩ := List.mem_flatten.1 hb
    exact hr3 a ha b hba
  have hrows3 : ∀ c ∈ l4.flatten.flatten, c.length = Q := by
    intro c hc
    obtain ⟨b, hb, hcb⟩ := List.mem_flatten.1 hc
    obtain ⟨a, ha, hba⟩ := List.mem_flatten.1 hb
    exact hr4 a ha b hba c hcb
  have h1 := flatten_rect_getElem? l4 N hr2 i j hj
  have h2 := flatten_rect_getElem? l4.flatten P hrows2 (i * N + j) k hk
  have h3 := flatten_rect_getElem? l4.flatten.flatten Q hrows3 ((i * N + j) * P + k) l hl
  rw [h1] at h2
  rw [h2] at h3
  have hai : (l4[i]).length = N := hr2 _ (List.getElem_mem hi)
  have hj' : j < (l4[i]).length := by rw [hai]; exact hj
  have hb : ((l4[i])[j]).length = P := hr3 _ (List.getElem_mem hi) _ (List.getElem_mem hj')
  have hk' : k < ((l4[i])[j]).length := by rw [hb]; exact hk
  have hc : (((l4[i])[j])[k]).length = Q := hr4 _ (List.getElem_mem hi) _ (List.getElem_mem hj') _ (List.getElem_mem hk')
  have hl' : l < (((l4[i])[j])[k]).length := by rw [hc]; exact hl
  have hval : (((l4[i]?).bind (·[j]?)).bind (·[k]?)).bind (·[l]?) = some (((l4[i])[j])[k])[l] := by
    rw [List.getElem?_eq_getElem hi]; simp only [Option.bind_some]
    rw [List.getElem?_eq_getElem hj']; simp only [Option.bind_some]
    rw [List.getElem?_eq_getElem hk']; simp only [Option.bind_some]
    rw [List.getElem?_eq_getElem hl']
  rw [hval] at h3 ⊢
  obtain ⟨hlen, hv⟩ := List.getElem?_eq_some_iff.1 h3
  rw [seqWrites_memory _ init _ hlen, hv]

/-- rank 1 -/
theorem ilist1_rowmajor (l : List α) (init : Nat → α) (i : Nat) (hi : i < l.length) :
    applyWrites (ilistWrites1 l 0).1 init i = l[i] := by
  rw [ilist1_writes]; exact seqWrites_memory l init i hi


/-! ### one memory, two names -/

variable [Add α] [Sub α] [Mul α] [Neg α]

/-- the owning tensor of the same shape (its `is_aligned()` is `al`) -/
def owning (nm : Name) (al : Bool) : Name := { dims := nm.dims, isMap := false, aligned := al }

/-- **one step**: an operation issued through a map leaves the state (buffer and read targets) that the same
    operation leaves when issued on an owning tensor of the map's shape holding the same values -/
theorem map_step_eq_owning_step (ofInt : Int → α) (cst : Nat → α) (opnd : Nat → Nat → α) (tmp0 : Nat → α)
    (ex : Nat) (hex : ex ≤ 64) (nm : Name) (hmap : nm.isMap = true) (hn : prod nm.dims < 2 ^ 64) (al : Bool)
    (via : Via) (o : Op) (s : MapAlias.St α) :
    (step ofInt cst opnd tmp0 (2 ^ ex) nm via o s).1 = (step ofInt cst opnd tmp0 (2 ^ ex) (owning nm al) via o s).1 := by
  have hpass := fun (opnd' : Nat → Nat → α) op e m => funext (passInPlace_spec ofInt opnd' op e (prod nm.dims) ex hn hex m)
  have htemp := fun e cur dst => funext (assignViaTemp_spec ofInt opnd e (prod nm.dims) ex hn hex cur dst tmp0)
  unfold passInPlace at hpass
  unfold assignViaTemp at htemp
  have e1 : (AOp.set == AOp.set) = true := rfl
  have e2 : (AOp.add == AOp.set) = false := rfl
  have e3 : (AOp.sub == AOp.set) = false := rfl
  have e4 : (AOp.mul == AOp.set) = false := rfl
  cases o with
  | write idx c => simp [step, owning]
  | fill c => simp [step, owning]
  | scal op c => simp [step, owning]
  | expr op e =>
    cases op with
    | set =>
      simp only [step, owning, hmap, e1, Bool.not_true, Bool.and_false, Bool.false_eq_true, if_false,
        Bool.not_false, Bool.and_true, if_true]
      congr 1
      rw [hpass, htemp]
      funext q; simp [AOp.ap]
    | add => simp [step, owning, hmap, e2]
    | sub => simp [step, owning, hmap, e3]
    | mul => simp [step, owning, hmap, e4]
  | other op =>
    cases op with
    | set =>
      simp only [step, owning, hmap, e1, if_true, Bool.false_eq_true, if_false]
      rw [htemp]
      cases s with
      | mk buf rd =>
        congr 1
        funext q; simp [evalS, envOf]
    | add => simp [step, owning, hmap, e2]
    | sub => simp [step, owning, hmap, e3]
    | mul => simp [step, owning, hmap, e4]
  | copy =>
    simp only [step, owning, hmap, if_true, Bool.false_eq_true, if_false]
    congr 1
    rw [hpass]
    funext q
    have := applyWrites_map_range (α := α) 0 (prod nm.dims) (opnd 1) s.buf q
    simp only [Nat.zero_add, Nat.zero_le, true_and] at this
    rw [this]
    simp [AOp.ap, evalS, envOf]
  | read e => simp [step, owning]

/-- **map_is_alias**: for every program (operations issued in any order through the map and through the source),
    running on the shared buffer equals running with the map replaced by an owning tensor of the map's shape
    holding the same values -/
theorem map_is_alias (ofInt : Int → α) (cst : Nat → α) (opnd : Via → Nat → Nat → α) (tmp0 : Nat → α)
    (ex : Nat) (hex : ex ≤ 64) (mapN srcN : Name) (hmap : mapN.isMap = true) (hn : prod mapN.dims < 2 ^ 64) (al : Bool)
    (prog : Prog) (s : MapAlias.St α) :
    runShared ofInt cst opnd tmp0 (2 ^ ex) mapN srcN prog s =
      runShared ofInt cst opnd tmp0 (2 ^ ex) (owning mapN al) srcN prog s := by
  induction prog generalizing s with
  | nil => rfl
  | cons vo rest ih =>
    obtain ⟨via, o⟩ := vo
    cases via with
    | map =>
      simp only [runShared]
      rw [map_step_eq_owning_step ofInt cst (opnd .map) tmp0 ex hex mapN hmap hn al .map o s, ih]
    | src => simp only [runShared]; rw [ih]

def Ev.isAligned : Ev → Bool
  | .store _ a => a
  | .vload _ a => a
  | .vstore _ a => a

/-- **aligned_flag_irrelevant**: the state after a step does not depend on the value of `is_aligned()` -/
theorem aligned_flag_irrelevant (ofInt : Int → α) (cst : Nat → α) (opnd : Nat → Nat → α) (tmp0 : Nat → α) (V : Nat)
    (nm : Name) (b : Bool) (via : Via) (o : Op) (s : MapAlias.St α) :
    (step ofInt cst opnd tmp0 V { nm with aligned := b } via o s).1 = (step ofInt cst opnd tmp0 V nm via o s).1 := by
  cases o <;> simp only [step] <;> (try split) <;> (try split) <;> rfl

/-- a step through a name whose `is_aligned()` is false (every map) issues no aligned access -/
theorem map_never_aligned (ofInt : Int → α) (cst : Nat → α) (opnd : Nat → Nat → α) (tmp0 : Nat → α) (V : Nat)
    (nm : Name) (hal : nm.aligned = false) (via : Via) (o : Op) (s : MapAlias.St α) :
    ∀ ev ∈ (step ofInt cst opnd tmp0 V nm via o s).2, Ev.isAligned ev = false := by
  have hpe : ∀ b n, ∀ ev ∈ passEvents b false n V, Ev.isAligned ev = false := by
    intro b n ev hev
    simp only [passEvents, List.mem_append, List.mem_flatMap, List.mem_map] at hev
    rcases hev with ⟨i, _, hi⟩ | ⟨i, _, rfl⟩
    · cases b <;> simp at hi
      · subst hi; rfl
      · rcases hi with rfl | rfl <;> rfl
    · rfl
  have hce : ∀ n, ∀ ev ∈ copyEvents n, Ev.isAligned ev = false := by
    intro n ev hev
    simp only [copyEvents, List.mem_map] at hev
    obtain ⟨p, _, rfl⟩ := hev; rfl
  intro ev hev
  cases o with
  | write idx c => simp [step] at hev; subst hev; rfl
  | fill c => simp only [step, hal] at hev; exact hpe _ _ ev hev
  | scal op c => simp only [step, hal] at hev; exact hpe _ _ ev hev
  | expr op e =>
    simp only [step, hal] at hev
    split at hev
    · exact hce _ ev hev
    · exact hpe _ _ ev hev
  | other op =>
    simp only [step, hal] at hev
    split at hev
    · split at hev
      · simp at hev
      · exact hce _ ev hev
    · exact hpe _ _ ev hev
  | copy =>
    simp only [step, hal] at hev
    split at hev
    · exact hpe _ _ ev hev
    · exact hce _ ev hev
  | read e => simp [step] at hev

/-- non-vacuity: `m = m * m - B` issued through a flat map of 7 elements, width 4, evaluated in place, gives at
    position 5 what the owning tensor gets -/
example : (step (α := Int) (fun k => k) (fun _ => 0) (fun w p => (w : Int) * 100 + p) (fun _ => 0) (2 ^ 2)
    { dims := [7], isMap := true, aligned := false } .map
    (.expr .set (.bin .sub (.bin .mul (.t 0) (.t 0)) (.t 1))) { buf := fun p => (p : Int) + 1, rd := fun _ _ => 0 }).1.buf 5
    = 6 * 6 - 105 := by decide

/-! ### the enlarged alphabet: any number of names, views, scalar assignment, reductions, staged right-hand sides -/

section wide
variable {α : Type} [Add α] [Sub α] [Mul α] [Neg α] [Div α] [Zero α]
open Fastor.ViewWrite

/-- side conditions of an operation issued on a tensor of extents `dims`: a view write selects in-bounds positions
    with positive steps and non-empty extents (C05's `InBounds`) -/
def Op2.Valid (dims : List Nat) : Op2 → Prop
  | .viewW axs _ _ => C05.InBounds dims axs ∧ dims.length = axs.length ∧ axs ≠ [] ∧ ∀ a ∈ axs, 0 < a.ext ∧ a.ext < 2 ^ 64
  | _ => True

theorem odo_nodup (ex : Nat) (dims : List Nat) (axs : List Ax) (hin : C05.InBounds dims axs) (hlen : dims.length = axs.length)
    (hne : axs ≠ []) (hext : ∀ a ∈ axs, 0 < a.ext) (cstep : Nat) (hcs : cstep = 2 ^ ex ∨ cstep = 1) :
    ((lanesOf (odoIters (2 ^ ex) dims axs false cstep)).map (·.1)).Nodup := by
  have hV : 0 < 2 ^ ex := Nat.pow_pos (by omega)
  rw [odo_lanes (2 ^ ex) hV dims axs hne hlen hext cstep hcs, incs_one, List.map_map]
  have := C05.pos_nodup dims axs hin 0
  simpa [Function.comp_def] using this

/-- generic n-D view class versus the class an owning tensor of that rank gets: same memory -/
theorem iters_cls_irrelevant (ex : Nat) (hex : ex ≤ 64) (dims : List Nat) (axs : List Ax) (cstep : Nat)
    (hcs : cstep = 2 ^ ex ∨ cstep = 1) (hin : C05.InBounds dims axs) (hlen : dims.length = axs.length) (hne : axs ≠ [])
    (hext : ∀ a ∈ axs, 0 < a.ext ∧ a.ext < 2 ^ 64) (op : WOp) (r : Nat → α) (m : Nat → α) :
    exec op (fun _ => r) (itersOf .dynN (2 ^ ex) false dims axs false cstep) m =
      exec op (fun _ => r) (itersOf (rankCls dims.length) (2 ^ ex) false dims axs false cstep) m := by
  have hpos : ∀ a ∈ axs, 0 < a.ext := fun a ha => (hext a ha).1
  have hnd := odo_nodup ex dims axs hin hlen hne hpos cstep hcs
  match dims, axs, hlen, hin, hne, hext, hpos, hnd with
  | [d], [a], _, _, _, hext, hpos, hnd =>
    have hl := lanes_rank1 ex hex d a (hext a (by simp)).2 (hpos a (by simp)) cstep hcs
    simp only [itersOf, rankCls, List.length_cons, List.length_nil]
    exact exec_eq_of_lanes op r _ _ m hl (by rw [← hl]; exact hnd)
  | [M, N], [a0, a1], _, _, _, hext, hpos, hnd =>
    have hl := lanes_rank2 ex hex M N a0 a1 (hext a1 (by simp)).2 (hpos a0 (by simp)) (hpos a1 (by simp)) cstep hcs
    simp only [itersOf, rankCls, List.length_cons, List.length_nil]
    exact exec_eq_of_lanes op r _ _ m hl (by rw [← hl]; exact hnd)
  | [], axs, hlen, _, hne, _, _, _ =>
    exact absurd (List.eq_nil_of_length_eq_zero hlen.symm) hne
  | d0 :: d1 :: d2 :: ds, axs, _, _, _, _, _, _ =>
    simp only [rankCls, List.length_cons]

/-- a write through a strided view of a map (generic n-D view class) leaves the memory that the same write leaves
    through the view class an owning tensor of that shape gets (1-D / 2-D specialisations) -/
theorem viewW_map_eq_owning (ex : Nat) (hex : ex ≤ 64) (nm : Name) (hmap : nm.isMap = true) (al : Bool)
    (axs : List Ax) (op : WOp) (rhs : VRhs) (r : Nat → α) (m : Nat → α)
    (hv : Op2.Valid nm.dims (.viewW axs op rhs)) :
    exec op (fun _ => r) (viewIters (2 ^ ex) nm axs rhs) m =
      exec op (fun _ => r) (viewIters (2 ^ ex) (owning nm al) axs rhs) m := by
  obtain ⟨hin, hlen, hne, hext⟩ := hv
  have hcs : rhs.cstep (2 ^ ex) = 2 ^ ex ∨ rhs.cstep (2 ^ ex) = 1 := by cases rhs <;> simp [VRhs.cstep]
  simp only [viewIters, viewCls, hmap, if_true, owning, Bool.false_eq_true, if_false]
  exact iters_cls_irrelevant ex hex nm.dims axs _ hcs hin hlen hne hext op r m

/-- **one step of the enlarged alphabet** through a map = the same step on an owning tensor of the map's shape -/
theorem step2_map_eq_owning (ofInt : Int → α) (cst : Nat → α) (opnd : Nat → Nat → α) (tmp0 : Nat → α)
    (ex : Nat) (hex : ex ≤ 64) (stagedFn : Nat → (Nat → α) → Nat → α) (nm : Name) (hmap : nm.isMap = true)
    (hn : prod nm.dims < 2 ^ 64) (al : Bool) (k : Nat) (o : Op2) (hv : Op2.Valid nm.dims o) (s : St2 α) :
    (step2 ofInt cst opnd tmp0 (2 ^ ex) stagedFn nm k o s).1 =
      (step2 ofInt cst opnd tmp0 (2 ^ ex) stagedFn (owning nm al) k o s).1 := by
  have hpass := fun (opnd' : Nat → Nat → α) op e m => funext (passInPlace_spec ofInt opnd' op e (prod nm.dims) ex hn hex m)
  unfold passInPlace at hpass
  have hrange := fun (g : Nat → α) (m : Nat → α) => funext (fun q => by
    have := applyWrites_map_range (α := α) 0 (prod nm.dims) g m q
    simpa using this : ∀ q, applyWrites ((List.range (prod nm.dims)).map fun p => (p, g p)) m q = if q < prod nm.dims then g q else m q)
  cases o with
  | base b =>
    have h := map_step_eq_owning_step ofInt cst opnd tmp0 ex hex nm hmap hn al .map b { buf := s.buf, rd := fun _ => s.rd k }
    simp only [step2]
    rw [h]
  | sassign c =>
    simp only [step2, owning, hmap, if_true, Bool.false_eq_true, if_false]
    congr 1
    rw [hpass, hrange]
    funext q; simp [AOp.ap, evalS, envOf]
  | windex idx c => simp [step2, owning]
  | viewW axs op rhs =>
    simp only [step2]
    rw [viewW_map_eq_owning ex hex nm hmap al axs op rhs _ s.buf hv]
  | viewR axs => simp [step2, owning]
  | reduce => simp [step2, owning]
  | staged op tag =>
    cases op with
    | set =>
      have e1 : (AOp.set == AOp.set) = true := rfl
      simp only [step2, owning, hmap, e1, Bool.not_true, Bool.and_false, Bool.false_eq_true, if_false, Bool.not_false,
        Bool.and_true, if_true]
      congr 1
      rw [hpass, hrange]
      funext q; simp [AOp.ap, evalS, envOf]
    | add => have e : (AOp.add == AOp.set) = false := rfl; simp [step2, owning, hmap, e]
    | sub => have e : (AOp.sub == AOp.set) = false := rfl; simp [step2, owning, hmap, e]
    | mul => have e : (AOp.mul == AOp.set) = false := rfl; simp [step2, owning, hmap, e]

/-- **map_is_alias over the enlarged alphabet** (history theorem): for every program — operations of the enlarged
    alphabet issued in any order through any of the names of the one storage — replacing any subset of the maps by
    owning tensors of the same shape holding the same values leaves the same final state (buffer, read targets,
    reduction result) -/
theorem map_is_alias_wide (ofInt : Int → α) (cst : Nat → α) (opnd : Nat → Nat → Nat → α) (tmp0 : Nat → α)
    (ex : Nat) (hex : ex ≤ 64) (stagedFn : Nat → Nat → (Nat → α) → Nat → α) (names names' : Nat → Name) (al : Bool)
    (hnames : ∀ k, names' k = names k ∨ ((names k).isMap = true ∧ names' k = owning (names k) al))
    (hn : ∀ k, prod (names k).dims < 2 ^ 64)
    (prog : Prog2) (hvalid : ∀ ko ∈ prog, Op2.Valid (names ko.1).dims ko.2) (s : St2 α) :
    runNames ofInt cst opnd tmp0 (2 ^ ex) stagedFn names prog s =
      runNames ofInt cst opnd tmp0 (2 ^ ex) stagedFn names' prog s := by
  induction prog generalizing s with
  | nil => rfl
  | cons ko rest ih =>
    obtain ⟨k, o⟩ := ko
    simp only [runNames]
    have hv := hvalid (k, o) (by simp)
    have hrest : ∀ ko ∈ rest, Op2.Valid (names ko.1).dims ko.2 := fun ko h => hvalid ko (List.mem_cons_of_mem _ h)
    rcases hnames k with h | ⟨hm, h⟩
    · rw [h, ih hrest]
    · rw [h, ← step2_map_eq_owning ofInt cst (opnd k) tmp0 ex hex (stagedFn k) (names k) hm (hn k) al k o hv s, ih hrest]

/-- non-vacuity: `m(seq(0,4,2), all) += 3` through a 4x5 map is a valid view write -/
example : Op2.Valid [4, 5] (.viewW [⟨0, 2, 2⟩, ⟨0, 1, 5⟩] .add (.scalar 0)) := by
  refine ⟨?_, rfl, by simp, ?_⟩
  · simp only [C05.InBounds]; decide
  · intro a ha; simp at ha; rcases ha with rfl | rfl <;> decide

end wide

end Fastor.C20
