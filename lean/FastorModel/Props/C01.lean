import FastorModel.Proofs.MatmulFills
import FastorModel.Proofs.MatmulVal
/-
# C01 — Matrix product equals the mathematical product for every shape and scalar type

Property (properties.jsonl): for every compile-time shape (M,K,N) … the matrix product of A (M×K) and
B (K×N) returns a tensor whose every element (i,j) equals Σ_k A(i,k)·B(k,j) (exactly for
integer-valued data) … No element of the result is left unwritten and nothing outside the result is
written.

Reading of the formal statements below.
* `a`, `b`, `c₀` are the three row-major buffers as functions `Nat → R` over an arbitrary commutative
  semiring `R` (so the statement covers integers exactly, and floating point up to rounding — the
  rounding clause is not a theorem here, see DESIGN.md §8).
* `Matmul.kernel cfg sz M K N` is the model of `Fastor::_matmul<T,M,K,N>`: the dispatch ladder of
  matmul.h evaluated for the build configuration `cfg` and element size `sz`, and the selected kernel
  as an ordered list of store events.  `kernelWrites` turns the events into `(position,value)` writes
  and `applyWrites` runs them on the initial contents `c₀` of the output buffer.
* `matmul_exact` says: after the run, cell `i*N+j` holds `∑_{k<K} a[i*K+k]*b[k*N+j]` for all `i<M`,
  `j<N` (every element is written with the right value), and every position `≥ M*N` still holds `c₀`
  (nothing outside the result is written).  It holds for *all* `M K N`, all six build configurations,
  all block-size overrides `> 0`.
* The correspondence run of `./check C01` ties `Matmul.kernel` to the code: same store order, same
  read sets, same values, on the real templates instantiated over a symbolic scalar.
-/
namespace Fastor.C01
open Fastor Fastor.Matmul Finset

variable {R : Type} [CommSemiring R]

/-- A kernel whose segments fill the `M × N` grid computes the product and writes nothing else. -/
theorem kernel_correct (M K N : Nat) (segs : List Seg) (h : Fills N (Complete K) segs (· < M) (· < N))
    (a b c₀ : Nat → R) :
    (∀ i, i < M → ∀ j, j < N →
      applyWrites (kernelWrites N (val a b K N) segs) c₀ (i * N + j)
        = ∑ k ∈ range K, a (i * K + k) * b (k * N + j)) ∧
    (∀ p, M * N ≤ p → applyWrites (kernelWrites N (val a b K N) segs) c₀ p = c₀ p) := by
  have := kernel_memory M N (val a b K N) (dotSpec a b K N) segs
    (fun s hs e he => by
      obtain ⟨_, _, _, hk, hst⟩ := h.inside s hs e he
      exact val_final a b K N e hk hst)
    h.ok
    (fun s hs e he => by
      obtain ⟨hr, hc, _⟩ := h.inside s hs e he
      exact ⟨hr, hc⟩)
    (fun r hr c hc => h.cover r c hr hc)
    c₀
  simpa [dotSpec] using this

theorem lanes_pow2 (a : Abi) (sz : Nat) (h : sz = 4 ∨ sz = 8 ∨ sz = 16) :
    ∃ e, e ≤ 6 ∧ a.lanes sz = 2 ^ e := by
  rcases h with rfl | rfl | rfl <;> cases a
  all_goals first
    | exact ⟨0, by omega, by decide⟩
    | exact ⟨1, by omega, by decide⟩
    | exact ⟨2, by omega, by decide⟩
    | exact ⟨3, by omega, by decide⟩
    | exact ⟨4, by omega, by decide⟩

theorem vsize_pow2 (cfg : Cfg) (sz N : Nat) (h : sz = 4 ∨ sz = 8 ∨ sz = 16) :
    ∃ e, e ≤ 6 ∧ cfg.vsize sz N = 2 ^ e := lanes_pow2 _ sz h

/-- The block constants chosen by `_matmul_base` are positive. -/
theorem blocking_pos (cfg : Cfg) (M N V : Nat)
    (hob : ∀ x, cfg.outerBlock = some x → 0 < x) (hib : ∀ x, cfg.innerBlock = some x → 0 < x) :
    0 < (blocking cfg M N V).u ∧ 0 < (blocking cfg M N V).nR ∧ 0 < (blocking cfg M N V).nC := by
  unfold blocking
  refine ⟨by simp, ?_, ?_⟩
  · simp only
    cases h : cfg.outerBlock with
    | some x => exact hob x h
    | none => simp only; split <;> [omega; (split <;> omega)]
  · simp only
    cases h : cfg.innerBlock with
    | some x => exact hib x h
    | none => simp only; split <;> omega

/-- **Dispatch is total and every selected kernel fills the result**: for every configuration,
    element size and shape, the segment list produced by the model of `_matmul` fills `M × N`. -/
theorem kernel_fills (cfg : Cfg) (sz M K N : Nat) (hsz : sz = 4 ∨ sz = 8 ∨ sz = 16) (hN : N < 2 ^ 64)
    (hob : ∀ x, cfg.outerBlock = some x → 0 < x) (hib : ∀ x, cfg.innerBlock = some x → 0 < x) :
    Fills N (Complete K) (kernel cfg sz M K N).2.2 (· < M) (· < N) := by
  unfold kernel
  obtain ⟨e, he, hV⟩ := vsize_pow2 cfg sz N hsz
  have hVpos : 0 < cfg.vsize sz N := by rw [hV]; exact Nat.pow_pos (by omega)
  obtain ⟨hu, hnR, hnC⟩ := blocking_pos cfg M N (cfg.vsize sz N) hob hib
  cases hrt : dispatch cfg false true sz M K N with
  | matvec =>
    simp only
    -- the matvec route is only taken when N = 1
    have hN1 : N = 1 := by
      unfold dispatch at hrt
      simp only [Bool.false_and, Bool.false_eq_true, if_false, Bool.not_true] at hrt
      by_cases h1 : N = 1
      · exact h1
      · have : (N == 1) = false := by simp [h1]
        simp only [this, Bool.false_eq_true, if_false] at hrt
        repeat' split at hrt
        all_goals simp at hrt
    subst hN1
    exact fills_matvec M _
  | smallN => simp only; exact fills_smallN cfg.masks M _ hVpos
  | base => simp only; exact fills_base M _ _ hVpos hu hnR hnC
  | baseMasked => simp only; exact fills_baseMasked cfg.masks M _ _ hVpos hu hnR hnC
  | tiny =>
    simp only
    exact fills_tiny M _ hVpos (by rw [hV]; exact roundDown_pow2 N e hN (by omega))
  | nonPrimitive => simp only; exact fills_nonPrimitive M
  | spec => simp only; exact fills_nonPrimitive M

/-- **C01 (exact part).**  The model of `_matmul<T,M,K,N>` leaves `Σ_k a(i,k)·b(k,j)` in every cell
    of the result and does not write outside it — for all shapes, configurations and block sizes. -/
theorem matmul_exact (cfg : Cfg) (sz M K N : Nat) (hsz : sz = 4 ∨ sz = 8 ∨ sz = 16) (hN : N < 2 ^ 64)
    (hob : ∀ x, cfg.outerBlock = some x → 0 < x) (hib : ∀ x, cfg.innerBlock = some x → 0 < x)
    (a b c₀ : Nat → R) :
    (∀ i, i < M → ∀ j, j < N →
      applyWrites (kernelWrites N (val a b K N) (kernel cfg sz M K N).2.2) c₀ (i * N + j)
        = ∑ k ∈ range K, a (i * K + k) * b (k * N + j)) ∧
    (∀ p, M * N ≤ p →
      applyWrites (kernelWrites N (val a b K N) (kernel cfg sz M K N).2.2) c₀ p = c₀ p) :=
  kernel_correct M K N _ (kernel_fills cfg sz M K N hsz hN hob hib) a b c₀

/-- Corollary used by C06: the result does not depend on the build configuration. -/
theorem matmul_config_independent (cfg cfg' : Cfg) (sz sz' M K N : Nat)
    (hsz : sz = 4 ∨ sz = 8 ∨ sz = 16) (hsz' : sz' = 4 ∨ sz' = 8 ∨ sz' = 16) (hN : N < 2 ^ 64)
    (hob : ∀ x, cfg.outerBlock = some x → 0 < x) (hib : ∀ x, cfg.innerBlock = some x → 0 < x)
    (hob' : ∀ x, cfg'.outerBlock = some x → 0 < x) (hib' : ∀ x, cfg'.innerBlock = some x → 0 < x)
    (a b c₀ : Nat → R) (p : Nat) :
    applyWrites (kernelWrites N (val a b K N) (kernel cfg sz M K N).2.2) c₀ p
      = applyWrites (kernelWrites N (val a b K N) (kernel cfg' sz' M K N).2.2) c₀ p := by
  obtain ⟨h1, h1'⟩ := matmul_exact cfg sz M K N hsz hN hob hib a b c₀
  obtain ⟨h2, h2'⟩ := matmul_exact cfg' sz' M K N hsz' hN hob' hib' a b c₀
  by_cases hp : p < M * N
  · have hNpos : 0 < N := by
      rcases Nat.eq_zero_or_pos N with h0 | h0
      · subst h0; simp at hp
      · exact h0
    have hr : p / N < M := by rw [Nat.div_lt_iff_lt_mul hNpos]; exact hp
    have hc : p % N < N := Nat.mod_lt _ hNpos
    have hpe : p / N * N + p % N = p := by rw [Nat.mul_comm]; exact Nat.div_add_mod p N
    rw [← hpe, h1 _ hr _ hc, h2 _ hr _ hc]
  · rw [h1' p (by omega), h2' p (by omega)]

/-- non-vacuity: a concrete configuration and shape satisfy the hypotheses, and the selected
    kernel is a vectorised one with remainders in both directions -/
example : (kernel ⟨.sse, false, false, none, none⟩ 4 7 3 9).1 = .base ∧
    (kernel ⟨.sse, false, false, none, none⟩ 4 7 3 9).2.1 = 4 := by decide

end Fastor.C01
