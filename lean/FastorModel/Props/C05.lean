import FastorModel.Proofs.ViewWrite
import FastorModel.Proofs.Odometer
import FastorModel.Model.ScalarWrite
import FastorModel.Proofs.ViewsRead
import Mathlib.Data.List.Nodup
import Mathlib.Data.List.Range
/-
  C05 — writing through a slice changes exactly the selected elements and nothing else.

  Model: `Model/ViewWrite.lean` (`segIters` = the innermost loop of the 1-D and 2-D view operators with its
  three routes, `linIters`, `rowIters`, `odoIters` = the n-D odometer, `execIter`/`exec` = memory semantics
  in which every iteration reads the current memory).  The right-hand side of C05 does not refer to the
  destination tensor, so it is a function `r` of the logical element index.

  * `write_correct_of_distinct`  any program of iterations with pairwise distinct stored positions:
                                 each lane `(p,j)` ends as `op(old p, r j)`; FRAME: every other position of
                                 memory (inside or outside the parent tensor) is unchanged.
  * `write_correct_1d`           1-D views (dynamic and fixed), all extents / first / step ≥ 1 / V = 2^e /
                                 both settings of FASTOR_USE_VECTORISED_EXPR_ASSIGN / five operators.
  * `write_correct_2d`           2-D views (dynamic and fixed), likewise, rows of the parent of any length N
                                 that contains the selected columns.
  * `vector_route_no_spill`      a vector store is issued only on a unit-step run and all its lanes are
                                 elements of that run (never past the end of the selected row);
                                 `odo_vector_only_if` the n-D views store vectors only when `_is_vectorisable`.
  * `norm_admissible`            every view class maps every admissible encoding (plain, `last`-relative, both ends from the end) of
                                 `0 ≤ f < l ≤ n, s ≥ 1` to the axis (f, s, ⌈(l-f)/s⌉) whose elements lie inside the parent axis
                                 (`seq::size` with C++ truncating `/ %`): the hypotheses of the write theorems hold for them.
  * `scalar_write_correct`       scalar element assignment `A(i,j,…) op= x` for every rank (C04's `scalarIndex` composed with one
                                 read-modify-write): the documented element gets op(old,x), frame everywhere else.
  * `writes_seq`                 sequences of writes compose: the memory after a history is the fold of the
                                 per-write specifications.
  * `write_correct_nd`           n-D views of EVERY rank (odometer; equal-order binders and scalar right-hand sides; vector and
                                 scalar branch): via `steps_box` (the odometer visits the box exactly once in row-major
                                 order, induction on the rank), `odo_lanes`, `pos_nodup` (mixed-radix injectivity).
  * `write_correct_nd_flat`      the binders of unequal order (rhs read through the running `counter`): `odo_flat_eq` shows the
                                 counter is the flat index of the visited multi-index, so it is the same program.
-/
namespace Fastor.C05
open Fastor Fastor.ViewWrite

variable {α : Type} [Add α] [Sub α] [Mul α] [Div α]

/-- the specification of one write: lanes `(p, j)` get `op(old p, r j)`, everything else is kept -/
def specWrite (op : WOp) (r : Nat → α) (lanes : List (Nat × Nat)) (m : Nat → α) : Nat → α :=
  fun p => match lanes.find? (fun l => l.1 = p) with
    | some l => op.ap (m p) (r l.2)
    | none => m p

/-- **write_correct, program level** (all view classes): distinct stored positions ⇒ value + frame -/
theorem write_correct_of_distinct (op : WOp) (r : Nat → α) (its : List Iter) (m : Nat → α)
    (hnd : ((lanesOf its).map (·.1)).Nodup) :
    (∀ l ∈ lanesOf its, exec op (fun _ => r) its m l.1 = op.ap (m l.1) (r l.2)) ∧
    (∀ p, p ∉ (lanesOf its).map (·.1) → exec op (fun _ => r) its m p = m p) :=
  exec_spec op r its m hnd

theorem exec_eq_spec (op : WOp) (r : Nat → α) (its : List Iter) (m : Nat → α)
    (hnd : ((lanesOf its).map (·.1)).Nodup) :
    exec op (fun _ => r) its m = specWrite op r (lanesOf its) m := by
  funext p
  have h := exec_spec op r its m hnd
  unfold specWrite
  cases hf : (lanesOf its).find? (fun l => l.1 = p) with
  | none =>
    simp only
    apply h.2
    intro hin
    obtain ⟨l, hl, hlp⟩ := List.mem_map.1 hin
    have := List.find?_eq_none.1 hf l hl
    simp at this; exact this hlp
  | some l =>
    simp only
    have hl := List.mem_of_find?_eq_some hf
    have hp : l.1 = p := by simpa using List.find?_some hf
    rw [← hp]; exact h.1 l hl

/-- positions of a run are pairwise distinct when the step is positive -/
theorem run_nodup (pb f s n : Nat) (hs : 0 < s) :
    (((List.range n).map fun k => (pb + (k * s + f), (0 : Nat) + k)).map (·.1)).Nodup := by
  rw [List.map_map]
  apply List.Nodup.map_on _ (List.nodup_range)
  intro x _ y _ hxy
  simp only [Function.comp] at hxy
  have : x * s = y * s := by omega
  exact Nat.eq_of_mul_eq_mul_right hs this

/-- **write_correct, 1-D views** (`TensorViewExpr<Tensor<T,N>,1>`, `TensorFixedViewExpr1D`): after
    `A(first + k*step, k < n) op= rhs` element `k` of the slice holds `op(old, rhs k)` and every other
    position is unchanged — for every width `2^e`, both settings of the vectorised-assign macro. -/
theorem write_correct_1d (e : Nat) (he : e ≤ 64) (vea : Bool) (a : Ax) (hn : a.ext < 2 ^ 64) (hs : 0 < a.step)
    (op : WOp) (r : Nat → α) (m : Nat → α) :
    let m' := exec op (fun _ => r) (linIters (2 ^ e) vea a) m
    (∀ k < a.ext, m' (k * a.step + a.first) = op.ap (m (k * a.step + a.first)) (r k)) ∧
    (∀ p, (∀ k < a.ext, p ≠ k * a.step + a.first) → m' p = m p) := by
  intro m'
  have hl := seg_lanes e he vea .rmw 0 0 a hn
  have hnd : ((lanesOf (linIters (2 ^ e) vea a)).map (·.1)).Nodup := by
    unfold linIters; rw [hl]; exact run_nodup 0 a.first a.step a.ext hs
  have h := exec_spec op r (linIters (2 ^ e) vea a) m hnd
  refine ⟨?_, ?_⟩
  · intro k hk
    have hmem : (0 + (k * a.step + a.first), 0 + k) ∈ lanesOf (linIters (2 ^ e) vea a) := by
      unfold linIters; rw [hl]; exact List.mem_map.2 ⟨k, List.mem_range.2 hk, rfl⟩
    have := h.1 _ hmem
    simpa using this
  · intro p hp
    apply h.2
    unfold linIters; rw [hl]
    intro hin
    simp only [List.map_map, List.mem_map, List.mem_range, Function.comp] at hin
    obtain ⟨k, hk, hkp⟩ := hin
    exact hp k hk (by omega)

example : (⟨1, 2, 5⟩ : Ax).ext < 2 ^ 64 ∧ 0 < (⟨1, 2, 5⟩ : Ax).step := by decide

/-- the lanes of the 2-D loops: row `i`, column element `k`, in row-major order -/
theorem row_lanes (e : Nat) (he : e ≤ 64) (vea : Bool) (N : Nat) (a0 a1 : Ax) (hn : a1.ext < 2 ^ 64) :
    lanesOf (rowIters (2 ^ e) vea N a0 a1) =
      (List.range a0.ext).flatMap fun i => (List.range a1.ext).map fun k =>
        ((a0.step * i + a0.first) * N + (k * a1.step + a1.first), i * a1.ext + k) := by
  unfold rowIters lanesOf
  rw [List.flatMap_assoc]
  congr 1
  funext i
  exact seg_lanes e he vea .scatter _ _ a1 hn

theorem row_nodup (N : Nat) (a0 a1 : Ax) (hs0 : 0 < a0.step) (hs1 : 0 < a1.step)
    (hin : ∀ k < a1.ext, k * a1.step + a1.first < N) :
    (((List.range a0.ext).flatMap fun i => (List.range a1.ext).map fun k =>
        ((a0.step * i + a0.first) * N + (k * a1.step + a1.first), i * a1.ext + k)).map (·.1)).Nodup := by
  rw [List.map_flatMap, List.nodup_flatMap]
  refine ⟨?_, ?_⟩
  · intro i _
    rw [List.map_map]
    apply List.Nodup.map_on _ List.nodup_range
    intro x _ y _ hxy
    simp only [Function.comp] at hxy
    have : x * a1.step = y * a1.step := by omega
    exact Nat.eq_of_mul_eq_mul_right hs1 this
  · apply List.Pairwise.imp _ (List.pairwise_lt_range (n := a0.ext))
    intro i j hij
    simp only [Function.onFun, List.disjoint_left, List.map_map, List.mem_map, List.mem_range, Function.comp]
    rintro p ⟨k, hk, rfl⟩ ⟨k', hk', hpe⟩
    have h1 : a0.step * i + a0.first + 1 ≤ a0.step * j + a0.first := by
      have := Nat.mul_lt_mul_of_pos_left hij hs0; omega
    have h2 := Nat.mul_le_mul_right N h1
    rw [Nat.add_mul, Nat.one_mul] at h2
    have := hin k hk
    have := hin k' hk'
    omega

/-- **write_correct, 2-D views** (`TensorViewExpr<Tensor<T,M,N>,2>`, `TensorFixedViewExpr2D`): element
    `(i,k)` of the slice, stored at `(step0*i+first0)*N + k*step1+first1`, holds `op(old, rhs (i*ext1+k))`;
    every other position is unchanged. -/
theorem write_correct_2d (e : Nat) (he : e ≤ 64) (vea : Bool) (N : Nat) (a0 a1 : Ax) (hn : a1.ext < 2 ^ 64)
    (hs0 : 0 < a0.step) (hs1 : 0 < a1.step) (hin : ∀ k < a1.ext, k * a1.step + a1.first < N)
    (op : WOp) (r : Nat → α) (m : Nat → α) :
    let m' := exec op (fun _ => r) (rowIters (2 ^ e) vea N a0 a1) m
    let pos := fun i k => (a0.step * i + a0.first) * N + (k * a1.step + a1.first)
    (∀ i < a0.ext, ∀ k < a1.ext, m' (pos i k) = op.ap (m (pos i k)) (r (i * a1.ext + k))) ∧
    (∀ p, (∀ i < a0.ext, ∀ k < a1.ext, p ≠ pos i k) → m' p = m p) := by
  intro m' pos
  have hl := row_lanes e he vea N a0 a1 hn
  have hnd : ((lanesOf (rowIters (2 ^ e) vea N a0 a1)).map (·.1)).Nodup := by
    rw [hl]; exact row_nodup N a0 a1 hs0 hs1 hin
  have h := exec_spec op r (rowIters (2 ^ e) vea N a0 a1) m hnd
  refine ⟨?_, ?_⟩
  · intro i hi k hk
    have hmem : (pos i k, i * a1.ext + k) ∈ lanesOf (rowIters (2 ^ e) vea N a0 a1) := by
      rw [hl]
      exact List.mem_flatMap.2 ⟨i, List.mem_range.2 hi, List.mem_map.2 ⟨k, List.mem_range.2 hk, rfl⟩⟩
    exact h.1 _ hmem
  · intro p hp
    apply h.2
    rw [hl]
    intro hmem
    simp only [List.map_flatMap, List.mem_flatMap, List.map_map, List.mem_map, List.mem_range, Function.comp] at hmem
    obtain ⟨i, hi, k, hk, hkp⟩ := hmem
    exact hp i hi k hk hkp.symm

example : ∀ k < (⟨1, 2, 3⟩ : Ax).ext, k * (⟨1, 2, 3⟩ : Ax).step + (⟨1, 2, 3⟩ : Ax).first < 7 := by decide

/-- **vector_route_no_spill**: in the 1-D / 2-D loops a vector store happens only on a unit-step run,
    and every lane it stores is an element `k < n` of that run — it never reaches past the end of the row -/
theorem vector_route_no_spill (e : Nat) (he : e ≤ 64) (vea : Bool) (strided : IKind) (hst : strided ≠ .vstore)
    (pb jb : Nat) (a : Ax) (hn : a.ext < 2 ^ 64) (it : Iter)
    (hit : it ∈ segIters (2 ^ e) vea strided pb jb a) (hk : it.kind = .vstore) :
    a.step = 1 ∧ ∀ l ∈ it.lanes, ∃ k < a.ext, l = (pb + (k * a.step + a.first), jb + k) := by
  refine ⟨?_, ?_⟩
  · by_contra hs
    unfold segIters at hit
    simp only [hs, if_false] at hit
    cases vea with
    | true =>
      simp only [if_true, List.mem_append, List.mem_map] at hit
      rcases hit with ⟨_, _, rfl⟩ | ⟨_, _, rfl⟩
      · exact hst hk
      · simp at hk
    | false =>
      simp only [Bool.false_eq_true, if_false, List.mem_map] at hit
      obtain ⟨_, _, rfl⟩ := hit
      simp at hk
  · intro l hl
    have hmem : l ∈ lanesOf (segIters (2 ^ e) vea strided pb jb a) :=
      List.mem_flatMap.2 ⟨it, hit, hl⟩
    rw [seg_lanes e he vea strided pb jb a hn] at hmem
    obtain ⟨k, hk', rfl⟩ := List.mem_map.1 hmem
    exact ⟨k, List.mem_range.1 hk', rfl⟩

/-- the n-D views issue vector stores only when `_is_vectorisable`: last extent a multiple of the width
    and unit last step -/
theorem odo_vector_only_if (V : Nat) (dims : List Nat) (axs : List Ax) (flatRhs : Bool) (cstep : Nat) (it : Iter)
    (hit : it ∈ odoIters V dims axs flatRhs cstep) (hk : it.kind = .vstore) :
    (lastAx axs).ext % V = 0 ∧ (lastAx axs).step = 1 := by
  by_contra hc
  unfold odoIters at hit
  simp only [hc, if_false, List.mem_map] at hit
  obtain ⟨_, _, rfl⟩ := hit
  simp at hk

/-! ### n-D views: every rank -/

/-- every selected coordinate of every axis lies inside the parent's axis, steps are positive -/
def InBounds : List Nat → List Ax → Prop
  | d :: ds, a :: axs => 0 < a.step ∧ (∀ k < a.ext, k * a.step + a.first < d) ∧ InBounds ds axs
  | [], [] => True
  | _, _ => False

theorem box_ones_cons (e : Nat) (es : List Nat) :
    box (((e :: es).map fun e => (e, 1))) = (List.range e).flatMap fun x => (box (es.map fun e => (e, 1))).map (x :: ·) := by
  simp [box, forRange_range]

theorem pos_lt : ∀ (dims : List Nat) (axs : List Ax), InBounds dims axs →
    ∀ j ∈ box ((axs.map (·.ext)).map fun e => (e, 1)), posOf dims axs j < dims.prod := by
  intro dims
  induction dims with
  | nil =>
    intro axs hin j _
    cases axs with
    | nil => simp [posOf]
    | cons a r => simp [InBounds] at hin
  | cons d ds ih =>
    intro axs hin j hj
    cases axs with
    | nil => simp [InBounds] at hin
    | cons a rest =>
      obtain ⟨_, hb, hrest⟩ := hin
      rw [List.map_cons, box_ones_cons] at hj
      obtain ⟨x, hx, hj⟩ := List.mem_flatMap.1 hj
      obtain ⟨js, hjs, rfl⟩ := List.mem_map.1 hj
      have h1 := ih rest hrest js hjs
      have h2 := hb x (List.mem_range.1 hx)
      show (x * a.step + a.first) * ds.prod + posOf ds rest js < (d :: ds).prod
      rw [List.prod_cons]
      have : (x * a.step + a.first + 1) * ds.prod ≤ d * ds.prod := Nat.mul_le_mul_right _ h2
      rw [Nat.add_mul, Nat.one_mul] at this
      omega

/-- distinct multi-indices of the slice are stored at distinct positions (mixed-radix argument) -/
theorem pos_nodup : ∀ (dims : List Nat) (axs : List Ax), InBounds dims axs → ∀ pb : Nat,
    ((box ((axs.map (·.ext)).map fun e => (e, 1))).map fun j => pb + posOf dims axs j).Nodup := by
  intro dims
  induction dims with
  | nil =>
    intro axs hin pb
    cases axs with
    | nil => simp [box]
    | cons a r => simp [InBounds] at hin
  | cons d ds ih =>
    intro axs hin pb
    cases axs with
    | nil => simp [InBounds] at hin
    | cons a rest =>
      obtain ⟨hs, hb, hrest⟩ := hin
      rw [List.map_cons, box_ones_cons, List.map_flatMap, List.nodup_flatMap]
      refine ⟨?_, ?_⟩
      · intro x _
        rw [List.map_map]
        have := ih rest hrest (pb + (x * a.step + a.first) * ds.prod)
        simpa [Function.comp_def, posOf, Nat.add_assoc] using this
      · apply List.Pairwise.imp _ (List.pairwise_lt_range (n := a.ext))
        intro x y hxy
        simp only [Function.onFun, List.disjoint_left, List.map_map, List.mem_map, Function.comp]
        rintro p ⟨js, hjs, rfl⟩ ⟨js', hjs', hpe⟩
        have h1 := pos_lt ds rest hrest js (by simpa [List.map_map] using hjs)
        have h2 := pos_lt ds rest hrest js' (by simpa [List.map_map] using hjs')
        have hX : x * a.step + a.first + 1 ≤ y * a.step + a.first := by
          have := Nat.mul_lt_mul_of_pos_right hxy hs; omega
        have hXP := Nat.mul_le_mul_right ds.prod hX
        rw [Nat.add_mul, Nat.one_mul] at hXP
        simp only [posOf] at hpe
        omega

/-- **write_correct, n-D views, every rank** (`TensorViewExpr<…,DIMS>`, `TensorFixedViewExprnD`, binders of equal
    order and scalar right-hand sides): the odometer visits every multi-index `j` of the slice exactly once; element
    `j`, stored at `posOf dims axs j = Σ_k products_k (j_k step_k + first_k)`, ends as `op(old, rhs (flat j))`, and every
    other position of memory is unchanged — for every width, vector branch or scalar branch. -/
theorem write_correct_nd (V : Nat) (hV : 0 < V) (dims : List Nat) (axs : List Ax) (hne : axs ≠ [])
    (hin : InBounds dims axs) (hlen : dims.length = axs.length) (hext : ∀ a ∈ axs, 0 < a.ext)
    (cstep : Nat) (hcs : cstep = V ∨ cstep = 1) (op : WOp) (r : Nat → α) (m : Nat → α) :
    let exts := axs.map (·.ext)
    let m' := exec op (fun _ => r) (odoIters V dims axs false cstep) m
    (∀ j ∈ box (exts.map fun e => (e, 1)), m' (posOf dims axs j) = op.ap (m (posOf dims axs j)) (r (flat exts j))) ∧
    (∀ p, (∀ j ∈ box (exts.map fun e => (e, 1)), p ≠ posOf dims axs j) → m' p = m p) := by
  intro exts m'
  have hl := odo_lanes V hV dims axs hne hlen hext cstep hcs
  rw [incs_one] at hl
  have hnd : ((lanesOf (odoIters V dims axs false cstep)).map (·.1)).Nodup := by
    rw [hl, List.map_map]
    have := pos_nodup dims axs hin 0
    simpa [Function.comp_def] using this
  have h := exec_spec op r (odoIters V dims axs false cstep) m hnd
  refine ⟨?_, ?_⟩
  · intro j hj
    have hmem : (posOf dims axs j, flat exts j) ∈ lanesOf (odoIters V dims axs false cstep) := by
      rw [hl]; exact List.mem_map.2 ⟨j, hj, rfl⟩
    exact h.1 _ hmem
  · intro p hp
    apply h.2
    rw [hl]
    intro hmem
    simp only [List.map_map, List.mem_map, Function.comp] at hmem
    obtain ⟨j, hj, hjp⟩ := hmem
    exact hp j (by simpa [exts, List.map_map] using hj) hjp.symm

/-- **write_correct, n-D views, binders of unequal order** (the right-hand side is read through the running `counter`):
    the same statement, element `j` taking rhs element number `flat j` -/
theorem write_correct_nd_flat (V : Nat) (hV : 0 < V) (dims : List Nat) (axs : List Ax) (hne : axs ≠ [])
    (hin : InBounds dims axs) (hlen : dims.length = axs.length) (hext : ∀ a ∈ axs, 0 < a.ext)
    (op : WOp) (r : Nat → α) (m : Nat → α) :
    let exts := axs.map (·.ext)
    let m' := exec op (fun _ => r) (odoIters V dims axs true V) m
    (∀ j ∈ box (exts.map fun e => (e, 1)), m' (posOf dims axs j) = op.ap (m (posOf dims axs j)) (r (flat exts j))) ∧
    (∀ p, (∀ j ∈ box (exts.map fun e => (e, 1)), p ≠ posOf dims axs j) → m' p = m p) := by
  rw [odo_flat_eq V hV dims axs hne hext]
  exact write_correct_nd V hV dims axs hne hin hlen hext V (Or.inl rfl) op r m

/-- non-vacuity: a 3-D slice `A(seq(0,2), seq(1,4,2), seq(2,6))` of a 2x4x6 tensor -/
example : InBounds [2, 4, 6] [⟨0, 1, 2⟩, ⟨1, 2, 2⟩, ⟨2, 1, 4⟩] := by
  simp only [InBounds]; decide

/-! ### range normalisation: from the caller's triple to the normalised axis -/

/-- the admissible encodings of the slice `f, f+s, … < l` (`0 ≤ f < l ≤ n`, `s ≥ 1`) of an axis of `n` elements:
    plain, `last`-relative end, both ends counted from the end, and the integer index `-1` (not for the dynamic 1-D view) -/
inductive Enc (n f l s : Nat) : Seq → Prop
  | plain : Enc n f l s ⟨f, l, s⟩
  | lastRel : Enc n f l s ⟨f, (l : Int) - (n + 1), s⟩
  | bothRel : Enc n f l s ⟨(f : Int) - (n + 1), (l : Int) - (n + 1), s⟩

theorem size_nat (f l s : Nat) (hfl : f < l) (hs : 0 < s) :
    (Seq.size ⟨f, l, s⟩).toNat = (l - f + (s - 1)) / s := by
  unfold Seq.size
  simp only
  have hr : ((l : Int) - f) = ((l - f : Nat) : Int) := by omega
  rw [hr]
  generalize l - f = d
  rw [Int.tmod_eq_emod_of_nonneg (by omega), Int.tdiv_eq_ediv_of_nonneg (by omega)]
  have hmodc : ((d : Int) % (s : Int)) = ((d % s : Nat) : Int) := by norm_cast
  have hdivc : ((d : Int) / (s : Int)) = ((d / s : Nat) : Int) := by norm_cast
  rw [hmodc, hdivc]
  obtain ⟨q, r, rfl, hrs⟩ : ∃ q r, d = s * q + r ∧ r < s := ⟨d / s, d % s, (Nat.div_add_mod d s).symm, Nat.mod_lt d hs⟩
  have hq : (s * q + r) / s = q := by rw [Nat.mul_add_div hs, Nat.div_eq_of_lt hrs, Nat.add_zero]
  have hm : (s * q + r) % s = r := by rw [Nat.mul_add_mod, Nat.mod_eq_of_lt hrs]
  rw [hm, hq]
  by_cases hr0 : r = 0
  · subst hr0
    simp only [Int.natCast_zero, if_true, Int.toNat_natCast, Nat.add_zero]
    rw [Nat.mul_add_div hs, Nat.div_eq_of_lt (by omega), Nat.add_zero]
  · have hne : ¬ ((r : Int) = 0) := by omega
    simp only [hne, if_false]
    have : ((q : Int)) + 1 = ((q + 1 : Nat) : Int) := by push_cast; rfl
    rw [this, Int.toNat_natCast]
    have h2 : s * q + r + (s - 1) = s * (q + 1) + (r - 1) := by
      rw [Nat.mul_add, Nat.mul_one]; omega
    rw [h2, Nat.mul_add_div hs, Nat.div_eq_of_lt (by omega), Nat.add_zero]

theorem normN_enc (n f l s : Nat) (hfl : f < l) (hln : l ≤ n) (q : Seq) (h : Enc n f l s q) :
    normN n q = ⟨f, l, s⟩ := by
  cases h with
  | plain => unfold normN; simp only; split <;> first | omega | (split <;> first | omega | (split <;> first | omega | rfl))
  | lastRel =>
    unfold normN; simp only
    have h1 : (l : Int) - (n + 1) < 0 := by omega
    simp only [h1, true_and, Int.natCast_nonneg, ge_iff_le, if_true]
    congr 1; omega
  | bothRel =>
    unfold normN; simp only
    have h1 : (l : Int) - (n + 1) < 0 := by omega
    have h2 : ¬ ((f : Int) - (n + 1) ≥ 0) := by omega
    have h3 : (f : Int) - (n + 1) < 0 := by omega
    have h4 : ¬ ((l : Int) - (n + 1) = 0) := by omega
    simp only [h1, h2, h3, h4, and_false, false_and, and_self, if_false, if_true]
    congr 1 <;> omega

theorem norm1_enc (n f l s : Nat) (hfl : f < l) (hln : l ≤ n) (q : Seq) (h : Enc n f l s q) :
    norm1 n q = ⟨f, l, s⟩ := by
  cases h with
  | plain =>
    unfold norm1; simp only
    have h1 : ¬ ((l : Int) < 0) := by omega
    have h2 : ¬ ((f : Int) < 0) := by omega
    simp [h1, h2]
  | lastRel =>
    unfold norm1; simp only
    have h1 : (l : Int) - (n + 1) < 0 := by omega
    have h2 : ¬ ((f : Int) < 0) := by omega
    simp only [h1, h2, if_true, if_false]
    congr 1; omega
  | bothRel =>
    unfold norm1; simp only
    have h1 : (l : Int) - (n + 1) < 0 := by omega
    have h3 : (f : Int) - (n + 1) < 0 := by omega
    simp only [h1, h3, if_true]
    congr 1 <;> omega

/-- **norm_admissible**: every view class maps every admissible encoding to the axis `first = f`, `step = s`,
    `ext = ⌈(l-f)/s⌉`, all of whose elements lie below `l ≤ n` -/
theorem norm_admissible (c : Cls) (n f l s : Nat) (hfl : f < l) (hln : l ≤ n) (hs : 0 < s) (q : Seq) (h : Enc n f l s q) :
    let a := Ax.ofSeq (c.norm n q)
    a.first = f ∧ a.step = s ∧ a.ext = (l - f + (s - 1)) / s ∧ 0 < a.ext ∧ ∀ k < a.ext, k * a.step + a.first < n := by
  intro a
  have hq : c.norm n q = ⟨f, l, s⟩ := by
    cases c <;> first | exact norm1_enc n f l s hfl hln q h | exact normN_enc n f l s hfl hln q h
  have ha : a = ⟨f, s, (l - f + (s - 1)) / s⟩ := by
    show Ax.ofSeq (c.norm n q) = _
    rw [hq]; unfold Ax.ofSeq
    simp only [Int.toNat_natCast]
    rw [size_nat f l s hfl hs]
  rw [ha]
  refine ⟨rfl, rfl, rfl, ?_, ?_⟩
  · show 0 < (l - f + (s - 1)) / s
    apply Nat.div_pos <;> omega
  · intro k hk
    show k * s + f < n
    have hk' : k < (l - f + (s - 1)) / s := hk
    have := (Nat.lt_div_iff_mul_lt hs).1 hk'
    have h2 : k * s + s ≤ l - f + (s - 1) := by
      have : (k + 1) * s ≤ l - f + (s - 1) := by
        have h3 : k + 1 ≤ (l - f + (s - 1)) / s := hk'
        exact (Nat.le_div_iff_mul_le hs).1 h3
      rw [Nat.add_mul, Nat.one_mul] at this; exact this
    omega

example : Enc 9 2 9 3 ⟨2, -1, 3⟩ := Enc.lastRel
/-! ### scalar element assignment -/

/-- **scalar_write_correct** (last sentence of the property), all ranks (1–4 written out in IndexRetriever.h, >= 5 the
    loop), `Tensor` and `TensorMap`, with or without FASTOR_BOUNDS_CHECK: for indices in `[-d_k, d_k)` the statement
    `A(i,j,…) op= x` leaves `op(old, x)` in the element whose every negative index is counted from the end of ITS axis
    (row-major offset) and changes no other position of memory. -/
theorem scalar_write_correct (chk : Bool) (dims : List Nat) (args : List Int) (h : Views.ValidArgs dims args)
    (op : WOp) (x : α) (m : Nat → α) :
    scalarWrite chk dims args op x m =
      fun p => if p = Views.rowMajor dims (List.zipWith Views.wrapNat dims args) then op.ap (m p) x else m p := by
  unfold scalarWrite
  rw [Views.scalarIndex_valid chk dims args h]
  simp

/-- with the assertion compiled in, an out-of-range index changes nothing -/
theorem scalar_write_checked (dims : List Nat) (args : List Int)
    (h : Views.inBounds dims (List.zipWith Views.wrapIdx dims args) = false) (op : WOp) (x : α) (m : Nat → α) :
    scalarWrite true dims args op x m = m := by
  unfold scalarWrite
  rw [Views.scalarIndex_checked_oob dims args h]

example : Views.ValidArgs [2, 3, 4] [1, -3, -1] := by simp [Views.ValidArgs]
example : scalarWritePos true [2, 3, 4] [1, -3, -1] = some 15 := by decide

/-- **writes_seq**: a history of writes, each with pairwise distinct stored positions, leaves the memory
    obtained by folding the per-write specifications -/
theorem writes_seq (ws : List (WOp × (Nat → α) × List Iter)) (m : Nat → α)
    (hnd : ∀ w ∈ ws, ((lanesOf w.2.2).map (·.1)).Nodup) :
    ws.foldl (fun m w => exec w.1 (fun _ => w.2.1) w.2.2 m) m =
    ws.foldl (fun m w => specWrite w.1 w.2.1 (lanesOf w.2.2) m) m := by
  induction ws generalizing m with
  | nil => rfl
  | cons w ws ih =>
    simp only [List.foldl_cons]
    rw [exec_eq_spec w.1 w.2.1 w.2.2 m (hnd w (by simp))]
    exact ih _ (fun w' hw' => hnd w' (List.mem_cons_of_mem _ hw'))

/-- non-vacuity / sanity of the odometer on a concrete box: extents (2,3,4), vector stepping 2 on the last
    axis visits the multi-indices in row-major order with the running counter equal to the flat index -/
example : (odoLoop (incs [2, 3, 4] 2) 24 2 24 0 [0, 0, 0]).map (fun st => (flat [2, 3, 4] st.1, st.2)) =
    (List.range 12).map (fun t => (2 * t, 2 * t)) := by decide

/-- a concrete strided 1-D write over `Int`: `A(seq(1,6,2)) += rhs` with width 2, macro on -/
example : (List.range 7).map (exec .add (fun _ j => (10 : Int) * j) (linIters 2 true ⟨1, 2, 3⟩) (fun p => (p : Int))) =
    [0, 1, 2, 13, 4, 25, 6] := by decide

end Fastor.C05
