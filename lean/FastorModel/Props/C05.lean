import FastorModel.Model.ViewWrite
/-
  C05 — writing through a slice (statements being extended; see docs/DESIGN_C05.md)
-/
namespace Fastor.C05
open Fastor Fastor.ViewWrite

variable {α : Type} [Add α] [Sub α] [Mul α] [Div α]

/-- an empty program leaves memory alone -/
theorem exec_nil (op : WOp) (rhs : (Nat → α) → Nat → α) (m : Nat → α) : exec op rhs [] m = m := rfl

end Fastor.C05
