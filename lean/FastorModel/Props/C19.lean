import FastorModel.Model.RandomViews
/-
# C19 — index-tensor views and boolean-mask views (statements below are being filled in)
-/
namespace Fastor.C19
open Fastor Fastor.Expr Fastor.RandomViews

/-- placeholder non-vacuous fact used while the correspondence is brought up: the index × index
    overload stores exactly `M*N` entries -/
theorem flatII_length (ncols M N : Nat) (it0 it1 : Nat → Nat) : (flatII ncols M N it0 it1).length = M * N := by
  unfold flatII
  induction M with
  | zero => simp [forRange, forCount]
  | succ k ih =>
    simp only [forRange, forCount] at ih ⊢
    simp at ih ⊢
    rw [List.range_succ, List.map_append, List.sum_append] at *
    simp [ih, Nat.add_mul]

end Fastor.C19
