import FastorModel.Model.RandomViews
import FastorModel.Proofs.RandomViews
import FastorModel.Props.C04
import FastorModel.Props.C05
/-
# C19 — Index-tensor and boolean-mask views select and update exactly the indexed items

Property: indexing a tensor with integer index tensors (one flat-index tensor, or one per axis,
optionally mixed with a range or a fixed integer) reads the elements at exactly those positions in
index-tensor order (repeats allowed); assigning through such a view with duplicate-free indices
updates exactly those positions and no others.  Assigning through a boolean mask updates exactly the
positions where the mask is true, with the right-hand-side element at the same position, and leaves
all others unchanged.

Reading of the statements (model: `Model/RandomViews.lean`, which transcribes the loops of
`BlockIndexing.h`, `tensor_random_views.h`, `vector_setter` of `simd_vector_common.h`,
`trivial_assign*` and `tensor_filter_views.h`).

* `flat_index_*`: for each per-axis overload, whatever the temporary index tensor contained before,
  after the loop nest its entry `(a,b)` (flat `a*N+b`) is the row-major flat position of the selected
  element: `it0[a]*NCols + it1[b]`, `it0[a]*NCols + num`, `num*NCols + it0[a]`,
  `it0[a]*NCols + (first + step*b)`, `(first + step*a)*NCols + it0[b]` — all extents.
* `gather_lanes`: lane `l` of `eval(i)` of ANY operand tree containing views is `eval_s(i+l)`; for the
  view leaf this is `data[it[i+l]]` (the per-lane index array, the reversed argument list of
  `vector_setter` and the reversed lane order of `set` cancel) — all widths.
* `random_read`: reading an expression with views into a tensor of `n` elements (vector body over
  `ROUND_DOWN(n,V)`, scalar tail; `V = 2^e`) leaves `op(dst j, tree j)` at every `j < n` and nothing
  else; `random_read_view`: for the bare view, element `j` is `A[it[j]]`, repeats or not.
* `scatter_order`: with or without `FASTOR_USE_VECTORISED_EXPR_ASSIGN` the instructions issued by
  `A(it) op= rhs` are `A[it[j]] op= rhs_j` for `j = 0 .. n-1` in this order.
* `random_write`: if the index values are pairwise distinct, then afterwards `A[it[j]] = op(A[it[j]], rhs_j)`
  for every `j < n` and every position that is not an index value is unchanged (frame) — any binary
  operator (so `= += -= *= /=`), any right-hand-side tree, both assignment paths.
* `random_write_repeats_partial`: what the model (and the code) does for `=` when index values repeat:
  the last instruction for a position wins.  The property does not constrain this case.
* `filter_write`: after `A(mask) op= rhs`, every `p < n` holds `op(A p, rhs p)` if `mask p` and `A p`
  otherwise; positions `≥ n` are untouched.  `filter_read`: a mask view read gives `A p` where the
  mask is true and `0` elsewhere.
* `read_ii` / `write_ii`: the per-axis overload composed with reading / writing.
* `eval2_lanes`, `eval2_ii`, `teval_rank3`: what a 2-D / n-D range view asks its source for — element
  `(i,k)` by row and column, or a multi-index — is the element of the view at that position (flat
  `i*ncols+k`, row-major flat index of the multi-index), lanes = consecutive columns.  (This is the
  code after the `fix:` commit; before it these members used `i+k` and the sum of the multi-index.)
* `flatIndex_bumpLast`, `teval_lanes`: the same for every rank.
* `ctor2Gen_views`, `ctor2Gen_correct`, `ctor2_index_plus_range`: the two-index constructor loop (C04's `ctor2Writes` is
  the instance for a range-view source) evaluating `A(it0,it1) + B(r0,r1)` stores `A[it0[i]*NCols+it1[j]] + B[documented (i,j)]`
  at `i*N+j` and nothing else.
* `rangeview2d_from_index_view`: `B(r0,r1) op= A(it0,it1)` through C05's `rowIters` (value + frame).
* `index_view_from_range_view`, `mask_view_from_range_view`: `A(it) op= B(ranges)`, `A(mask) op= B(ranges)` with the offsets of
  C04's flat evaluator, which `C04.read_correct` identifies with the documented element.
* `staged_index_write`, `staged_mask_write`: right-hand sides that Fastor evaluates into a temporary first (`P % Q`, `trans(C)`,
  `P % Q + D`, also reading the parent): the temporary is computed from the memory before the statement, then the element-wise
  path runs — value + frame as above.  (The n-D index view class has no evaluating overload: such statements do not compile.)
* `filter_teval_rank3`: the multi-index members of a mask view (after the second `fix:` commit: lane `l` is the
  element at `(x,y,z+l)`; before it every lane held the element at `(x,y,z)`).

Not in the model: index narrowing to `int` and overflow of the index arithmetic (indices are natural
numbers), `noalias()` temporaries, right-hand sides that need evaluation into a temporary first,
`teval`, division by a scalar being a multiplication by the reciprocal (an instance of `ap`).
-/
namespace Fastor.C19
open Fastor Fastor.Expr Fastor.RandomViews

/-! ## flat-index precomputation -/

/-- the stores of a 2-level loop nest `tmp(i,j) = g i j` (`i < M`, `j < N`, row-major) leave `g a b` at `a*N+b` -/
theorem nest_correct (M N : Nat) (g : Nat → Nat → Nat) (junk : Nat → Nat) (a b : Nat) (ha : a < M) (hb : b < N) :
    storesTo junk ((forRange 0 M 1).flatMap fun i => (forRange 0 N 1).map fun j => (i * N + j, g i j)) (a * N + b)
      = g a b := by
  have hN : 0 < N := by omega
  have hex : WritesExactly ((forRange 0 M 1).flatMap fun i => (forRange 0 N 1).map fun j => (i * N + j, g i j))
      (fun p => p < M * N) (fun p => g (p / N) (p % N)) := by
    apply writesExactly_of_all_right
    · intro w hw
      obtain ⟨i, hi, hw⟩ := List.mem_flatMap.1 hw
      obtain ⟨j, hj, rfl⟩ := List.mem_map.1 hw
      rw [forRange_zero_one, List.mem_range] at hi hj
      have h1 : (i * N + j) / N = i := by
        rw [Nat.mul_comm, Nat.mul_add_div hN, Nat.div_eq_of_lt hj]; simp
      have h2 : (i * N + j) % N = j := by
        rw [Nat.mul_comm, Nat.mul_add_mod, Nat.mod_eq_of_lt hj]
      refine ⟨?_, by simp only [h1, h2]⟩
      show i * N + j < M * N
      have : (i + 1) * N ≤ M * N := Nat.mul_le_mul_right _ (by omega)
      rw [Nat.add_mul] at this; omega
    · intro p hp
      refine ⟨(p / N * N + p % N, g (p / N) (p % N)), ?_, ?_⟩
      · apply List.mem_flatMap.2
        refine ⟨p / N, ?_, ?_⟩
        · rw [forRange_zero_one, List.mem_range]
          exact (Nat.div_lt_iff_lt_mul hN).2 hp
        · apply List.mem_map.2
          exact ⟨p % N, by rw [forRange_zero_one, List.mem_range]; exact Nat.mod_lt _ hN, rfl⟩
      · show p / N * N + p % N = p
        rw [Nat.mul_comm]; exact Nat.div_add_mod p N
  have hp : a * N + b < M * N := by
    have : (a + 1) * N ≤ M * N := Nat.mul_le_mul_right _ (by omega)
    rw [Nat.add_mul] at this; omega
  have := (applyWrites_of_exact hex junk (a * N + b)).1 hp
  unfold storesTo
  rw [this]
  have h1 : (a * N + b) / N = a := by
    rw [Nat.mul_comm, Nat.mul_add_div hN, Nat.div_eq_of_lt hb]; simp
  have h2 : (a * N + b) % N = b := by
    rw [Nat.mul_comm, Nat.mul_add_mod, Nat.mod_eq_of_lt hb]
  rw [h1, h2]

/-- **index × index**: entry `(a,b)` of the precomputed tensor is `it0[a]*NCols + it1[b]` -/
theorem flat_index_ii (ncols M N : Nat) (it0 it1 junk : Nat → Nat) (a b : Nat) (ha : a < M) (hb : b < N) :
    storesTo junk (flatII ncols M N it0 it1) (a * N + b) = it0 a * ncols + it1 b :=
  nest_correct M N (fun i j => it0 i * ncols + it1 j) junk a b ha hb

/-- **index × fseq**: entry `(a,b)` is `it0[a]*NCols + (first + step*b)` -/
theorem flat_index_if (ncols M : Nat) (it0 junk : Nat → Nat) (first step csize : Nat) (a b : Nat) (ha : a < M) (hb : b < csize) :
    storesTo junk (flatIF ncols M it0 first step csize) (a * csize + b) = it0 a * ncols + (first + step * b) := by
  have := nest_correct M csize (fun i j => it0 i * ncols + step * j + first) junk a b ha hb
  unfold flatIF; rw [this]; omega

/-- **fseq × index**: entry `(a,b)` is `(first + step*a)*NCols + it0[b]` -/
theorem flat_index_fi (ncols N : Nat) (it0 junk : Nat → Nat) (first step rsize : Nat) (a b : Nat) (ha : a < rsize) (hb : b < N) :
    storesTo junk (flatFI ncols N first step rsize it0) (a * N + b) = (first + step * a) * ncols + it0 b := by
  have := nest_correct rsize N (fun i j => (step * i + first) * ncols + it0 j) junk a b ha hb
  unfold flatFI; rw [this, Nat.add_comm first]

/-- a single loop `tmp(i,0) = g i` over an `M x 1` tensor leaves `g a` at `a` -/
theorem column_correct (M : Nat) (g : Nat → Nat) (junk : Nat → Nat) (a : Nat) (ha : a < M) :
    storesTo junk ((forRange 0 M 1).map fun i => (i * 1 + 0, g i)) a = g a := by
  unfold storesTo
  rw [forRange_zero_one]
  have : (List.range M).map (fun i => (i * 1 + 0, g i)) = (List.range M).map (fun j => (j, g j)) := by simp
  rw [this, applyWrites_range]; simp [ha]

/-- **index × integer**: entry `a` is `it0[a]*NCols + num` -/
theorem flat_index_in (ncols M : Nat) (it0 junk : Nat → Nat) (num a : Nat) (ha : a < M) :
    storesTo junk (flatIN ncols M it0 num) a = it0 a * ncols + num :=
  column_correct M (fun i => it0 i * ncols + num) junk a ha

/-- **integer × index**: entry `a` is `num*NCols + it0[a]` -/
theorem flat_index_ni (ncols M : Nat) (it0 junk : Nat → Nat) (num a : Nat) (ha : a < M) :
    storesTo junk (flatNI ncols M num it0) a = num * ncols + it0 a :=
  column_correct M (fun i => num * ncols + it0 i) junk a ha

example : storesTo (fun _ => 99) (flatII 4 2 3 (fun i => [2, 0].getD i 0) (fun j => [1, 3, 0].getD j 0)) (1 * 3 + 1) = 0 * 4 + 3 := by decide
example : storesTo (fun _ => 99) (flatFI 3 2 1 2 2 (fun j => [2, 0].getD j 0)) (1 * 2 + 0) = (1 + 2 * 1) * 3 + 2 := by decide

/-! ## reads -/

variable {α : Type} [Zero α] [Add α] [Sub α] [Mul α]

/-- **gather lanes = scalar reads**: lane `l` of the vector evaluation at `i` is the scalar evaluation at `i+l` -/
theorem gather_lanes (ofInt : Int → α) (env : Nat → Nat → α) (it : Nat → Nat) (mask : Nat → Bool) (V : Nat) (e : Src)
    (i l : Nat) (hl : l < V) :
    (evalV ofInt env it mask V e i)[l]? = some (evalS ofInt env it mask e (i + l)) := by
  rw [evalV_eq]; simp [hl]

/-- the view leaf: lane `l` of `A(it).eval(i)` is `A[it[i+l]]` -/
theorem gather_lanes_view (ofInt : Int → α) (env : Nat → Nat → α) (it : Nat → Nat) (mask : Nat → Bool) (V w i l : Nat) (hl : l < V) :
    (vectorSetter (env w) (laneInds it V i))[l]? = some (env w (it (i + l))) :=
  gather_lanes ofInt env it mask V (.v w) i l hl

/-- the stores of reading a tree with views into a tensor, in program order -/
theorem read_order (ofInt : Int → α) (env : Nat → Nat → α) (it : Nat → Nat) (mask : Nat → Bool) (op : AOp) (dst : Nat → α)
    (e : Src) (n ex : Nat) (hn : n < 2 ^ 64) (hex : ex ≤ 64) :
    readWrites ofInt env it mask op dst e n (2 ^ ex)
      = (List.range n).map fun j => (j, op.ap (dst j) (evalS ofInt env it mask e j)) := by
  unfold readWrites
  apply vecThenTail_eq n ex hn hex
  intro i
  rw [evalV_eq, zip_range_map, List.map_map]
  rfl

/-- **C19 (reading)**: every `j < n` receives `op(dst j, tree j)`, nothing else is stored to -/
theorem random_read (ofInt : Int → α) (env : Nat → Nat → α) (it : Nat → Nat) (mask : Nat → Bool) (op : AOp) (dst : Nat → α)
    (e : Src) (n ex : Nat) (hn : n < 2 ^ 64) (hex : ex ≤ 64) (p : Nat) :
    applyWrites (readWrites ofInt env it mask op dst e n (2 ^ ex)) dst p
      = if p < n then op.ap (dst p) (evalS ofInt env it mask e p) else dst p := by
  rw [read_order ofInt env it mask op dst e n ex hn hex]
  exact applyWrites_range (fun j => op.ap (dst j) (evalS ofInt env it mask e j)) n dst p

/-- element `j` of `B = A(it)` is `A[it[j]]`, in index-tensor order, repeats allowed -/
theorem random_read_view (ofInt : Int → α) (env : Nat → Nat → α) (it : Nat → Nat) (mask : Nat → Bool) (dst : Nat → α)
    (w n ex : Nat) (hn : n < 2 ^ 64) (hex : ex ≤ 64) (j : Nat) (hj : j < n) :
    applyWrites (readWrites ofInt env it mask .set dst (.v w) n (2 ^ ex)) dst j = env w (it j) := by
  rw [random_read ofInt env it mask .set dst (.v w) n ex hn hex]; simp [hj, AOp.ap, RandomViews.evalS]

/-- a mask view read gives the element where the mask is true and zero elsewhere -/
theorem filter_read (ofInt : Int → α) (env : Nat → Nat → α) (it : Nat → Nat) (mask : Nat → Bool) (dst : Nat → α)
    (w n ex : Nat) (hn : n < 2 ^ 64) (hex : ex ≤ 64) (j : Nat) (hj : j < n) :
    applyWrites (readWrites ofInt env it mask .set dst (.f w) n (2 ^ ex)) dst j = if mask j then env w j else 0 := by
  rw [random_read ofInt env it mask .set dst (.f w) n ex hn hex]; simp [hj, AOp.ap, RandomViews.evalS]

/-- non-vacuity: 7 indices with repeats and arbitrary order, width 4 (one vector iteration + tail of 3) -/
example : (List.range 7).map (applyWrites (readWrites (fun k => k) (fun w p => (w : Int) * 100 + p)
    (fun j => [5, 0, 5, 3, 1, 1, 4].getD j 0) (fun _ => false) .set (fun _ => 0) (.v 1) 7 (2 ^ 2)) (fun _ => 0))
    = [105, 100, 105, 103, 101, 101, 104] := by decide

/-- per-axis overload composed with reading: element `(a,b)` of `A(it0,it1)` is `A[it0[a]*NCols + it1[b]]` -/
theorem read_ii (ofInt : Int → α) (env : Nat → Nat → α) (mask : Nat → Bool) (dst : Nat → α) (junk it0 it1 : Nat → Nat)
    (w ncols M N ex : Nat) (hn : M * N < 2 ^ 64) (hex : ex ≤ 64) (a b : Nat) (ha : a < M) (hb : b < N) :
    applyWrites (readWrites ofInt env (storesTo junk (flatII ncols M N it0 it1)) mask .set dst (.v w) (M * N) (2 ^ ex)) dst (a * N + b)
      = env w (it0 a * ncols + it1 b) := by
  have hp : a * N + b < M * N := by
    have : (a + 1) * N ≤ M * N := Nat.mul_le_mul_right _ (by omega)
    rw [Nat.add_mul] at this; omega
  rw [random_read_view ofInt env _ mask dst w (M * N) ex hn hex _ hp, flat_index_ii ncols M N it0 it1 junk a b ha hb]

/-! ## the view as a 2-D / n-D operand -/

omit [Zero α] [Add α] [Sub α] [Mul α] in
/-- lane `l` of `eval(i,k)` is `eval_s(i,k+l)`: element `(i, k+l)` of the view -/
theorem eval2_lanes (data : Nat → α) (it : Nat → Nat) (V ncols i k l : Nat) (hl : l < V) :
    (evalV2 data it V ncols i k)[l]? = some (evalS2 data it ncols i (k + l)) := by
  unfold evalV2 evalS2
  rw [vectorSetter_eq]
  simp [laneInds, forRange_zero_one, hl, Nat.add_assoc]

omit [Zero α] [Add α] [Sub α] [Mul α] in
/-- **element `(a,b)` of `A(it0,it1)` asked for by row and column is `A[it0[a]*NCols + it1[b]]`** -/
theorem eval2_ii (data : Nat → α) (junk it0 it1 : Nat → Nat) (ncols M N a b : Nat) (ha : a < M) (hb : b < N) :
    evalS2 data (storesTo junk (flatII ncols M N it0 it1)) N a b = data (it0 a * ncols + it1 b) := by
  unfold evalS2
  rw [flat_index_ii ncols M N it0 it1 junk a b ha hb]

/-- `get_flat_index` of a rank-3 multi-index is the row-major position -/
theorem flatIndex_rank3 (d0 d1 d2 x y z : Nat) : flatIndex [d0, d1, d2] [x, y, z] = (x * d1 + y) * d2 + z := by
  simp [flatIndex, Nat.add_mul, Nat.mul_assoc, Nat.add_assoc]

omit [Zero α] [Add α] [Sub α] [Mul α] in
/-- `teval_s(as)` of a rank-3 view is the element at row-major position `(x,y,z)` of the index tensor,
    and lane `l` of `teval(as)` is the element at `(x,y,z+l)` -/
theorem teval_rank3 (data : Nat → α) (it : Nat → Nat) (V d0 d1 d2 x y z l : Nat) (hl : l < V) :
    tevalS data it [d0, d1, d2] [x, y, z] = data (it ((x * d1 + y) * d2 + z)) ∧
    (tevalV data it V [d0, d1, d2] [x, y, z])[l]? = some (tevalS data it [d0, d1, d2] [x, y, z + l]) := by
  unfold tevalS tevalV
  rw [vectorSetter_eq, flatIndex_rank3, flatIndex_rank3]
  simp [laneInds, forRange_zero_one, hl, Nat.add_assoc]

example : evalV2 (fun p => (p : Int)) (fun q => [7, 3, 9, 1, 0, 5].getD q 0) 2 3 1 1 = [0, 5] := by decide

/-! ## writes through an index-tensor view -/

/-- **store order**: both assignment paths issue `A[it[j]] op= rhs_j` for `j = 0 .. n-1` in this order -/
theorem scatter_order (vea : Bool) (ofInt : Int → α) (env : Nat → Nat → α) (it : Nat → Nat) (mask : Nat → Bool) (rhs : Src)
    (n ex : Nat) (hn : n < 2 ^ 64) (hex : ex ≤ 64) :
    scatter vea ofInt env it mask rhs n (2 ^ ex)
      = (List.range n).map fun j => (it j, evalS ofInt env it mask rhs j) := by
  unfold scatter
  cases vea with
  | false => simp [scatterScalar, forRange_zero_one]
  | true =>
    simp only [if_true]
    unfold scatterVector
    apply vecThenTail_eq n ex hn hex
    intro i
    rw [evalV_eq, forRange_zero_one, zip_range_map, List.map_map]
    rfl

/-- **C19 (writing, duplicate-free indices)**: exactly the indexed positions change, position `it[j]`
    to `op(A[it[j]], rhs_j)`; every other position keeps its value. -/
theorem random_write (vea : Bool) (ap : α → α → α) (ofInt : Int → α) (env : Nat → Nat → α) (it : Nat → Nat) (mask : Nat → Bool)
    (rhs : Src) (A : Nat → α) (n ex : Nat) (hn : n < 2 ^ 64) (hex : ex ≤ 64)
    (hnd : ((List.range n).map it).Nodup) :
    (∀ j, j < n → exec ap (scatter vea ofInt env it mask rhs n (2 ^ ex)) A (it j)
        = ap (A (it j)) (evalS ofInt env it mask rhs j)) ∧
    (∀ p, (∀ j, j < n → it j ≠ p) → exec ap (scatter vea ofInt env it mask rhs n (2 ^ ex)) A p = A p) := by
  rw [scatter_order vea ofInt env it mask rhs n ex hn hex]
  constructor
  · intro j hj
    have hmem : (it j, evalS ofInt env it mask rhs j) ∈ (List.range n).map fun j => (it j, evalS ofInt env it mask rhs j) :=
      List.mem_map.2 ⟨j, List.mem_range.2 hj, rfl⟩
    have hnd' : (((List.range n).map fun j => (it j, evalS ofInt env it mask rhs j)).map (·.1)).Nodup := by
      rw [List.map_map]; exact hnd
    exact exec_nodup ap _ A hnd' _ hmem
  · intro p hp
    apply exec_frame
    intro x hx
    obtain ⟨j, hj, rfl⟩ := List.mem_map.1 hx
    exact hp j (List.mem_range.1 hj)

/-- what happens for plain `=` when index values repeat (not constrained by the property): the
    instruction with the largest `j` wins — `lastWrite` over the instructions in index-tensor order -/
theorem random_write_repeats_partial (vea : Bool) (ofInt : Int → α) (env : Nat → Nat → α) (it : Nat → Nat) (mask : Nat → Bool)
    (rhs : Src) (A : Nat → α) (n ex : Nat) (hn : n < 2 ^ 64) (hex : ex ≤ 64) (p : Nat) :
    exec (fun _ y => y) (scatter vea ofInt env it mask rhs n (2 ^ ex)) A p
      = (lastWrite ((List.range n).map fun j => (it j, evalS ofInt env it mask rhs j)) p).getD (A p) := by
  rw [scatter_order vea ofInt env it mask rhs n ex hn hex, exec_set_eq_applyWrites, applyWrites_eq_lastWrite]

/-- non-vacuity: duplicate-free, unsorted indices, `+=`, vectorised path of width 2 with a tail -/
example : (List.range 6).map (exec (· + ·) (scatter true (fun k => k) (fun w p => (w : Int) * 100 + p)
    (fun j => [4, 0, 3].getD j 0) (fun _ => false) (.t 2) 3 (2 ^ 1)) (fun p => (p : Int)))
    = [0 + 201, 1, 2, 3 + 202, 4 + 200, 5] := by decide
example : ((List.range 3).map fun j => [4, 0, 3].getD j 0).Nodup := by decide

/-- per-axis overload composed with writing: with duplicate-free `it0` and `it1` ... the entry for `(a,b)`
    is written to row-major position `it0[a]*NCols + it1[b]` -/
theorem write_ii (vea : Bool) (ap : α → α → α) (ofInt : Int → α) (env : Nat → Nat → α) (mask : Nat → Bool) (rhs : Src)
    (A : Nat → α) (junk it0 it1 : Nat → Nat) (ncols M N ex : Nat) (hn : M * N < 2 ^ 64) (hex : ex ≤ 64)
    (hnd : ((List.range (M * N)).map (storesTo junk (flatII ncols M N it0 it1))).Nodup)
    (a b : Nat) (ha : a < M) (hb : b < N) :
    exec ap (scatter vea ofInt env (storesTo junk (flatII ncols M N it0 it1)) mask rhs (M * N) (2 ^ ex)) A (it0 a * ncols + it1 b)
      = ap (A (it0 a * ncols + it1 b))
          (evalS ofInt env (storesTo junk (flatII ncols M N it0 it1)) mask rhs (a * N + b)) := by
  have hp : a * N + b < M * N := by
    have : (a + 1) * N ≤ M * N := Nat.mul_le_mul_right _ (by omega)
    rw [Nat.add_mul] at this; omega
  have h := (random_write vea ap ofInt env _ mask rhs A (M * N) ex hn hex hnd).1 (a * N + b) hp
  rw [flat_index_ii ncols M N it0 it1 junk a b ha hb] at h
  exact h

/-! ## boolean-mask views -/

theorem filterInstrs_eq (ofInt : Int → α) (env : Nat → Nat → α) (it : Nat → Nat) (mask : Nat → Bool) (rhs : Src) (n : Nat) :
    filterInstrs ofInt env it mask rhs n
      = ((List.range n).filter fun i => mask i).map fun i => (i, evalS ofInt env it mask rhs i) := by
  unfold filterInstrs
  rw [forRange_zero_one]
  induction n with
  | zero => simp
  | succ k ih =>
    rw [List.range_succ, List.flatMap_append, ih, List.filter_append, List.map_append]
    cases h : mask k <;> simp [h]

/-- **C19 (mask views)**: `A(mask) op= rhs` leaves `op(A p, rhs p)` at every `p < n` with `mask p`, and
    `A p` everywhere else (false positions and positions `≥ n`). -/
theorem filter_write (ap : α → α → α) (ofInt : Int → α) (env : Nat → Nat → α) (it : Nat → Nat) (mask : Nat → Bool)
    (rhs : Src) (A : Nat → α) (n : Nat) (p : Nat) :
    exec ap (filterInstrs ofInt env it mask rhs n) A p
      = if p < n ∧ mask p = true then ap (A p) (evalS ofInt env it mask rhs p) else A p := by
  rw [filterInstrs_eq]
  by_cases h : p < n ∧ mask p = true
  · rw [if_pos h]
    have hmem : (p, evalS ofInt env it mask rhs p) ∈ ((List.range n).filter fun i => mask i).map
        fun i => (i, evalS ofInt env it mask rhs i) :=
      List.mem_map.2 ⟨p, List.mem_filter.2 ⟨List.mem_range.2 h.1, h.2⟩, rfl⟩
    have hnd : ((((List.range n).filter fun i => mask i).map fun i => (i, evalS ofInt env it mask rhs i)).map (·.1)).Nodup := by
      rw [List.map_map]
      have : ((fun x : Nat × α => x.1) ∘ fun i => (i, evalS ofInt env it mask rhs i)) = id := rfl
      rw [this, List.map_id]
      exact List.Nodup.sublist List.filter_sublist List.nodup_range
    exact exec_nodup ap _ A hnd _ hmem
  · rw [if_neg h]
    apply exec_frame
    intro x hx
    obtain ⟨i, hi, rfl⟩ := List.mem_map.1 hx
    obtain ⟨hi1, hi2⟩ := List.mem_filter.1 hi
    intro e
    exact h ⟨e ▸ List.mem_range.1 hi1, e ▸ hi2⟩

/-- advancing a multi-index by `j` along its last axis advances the row-major flat index by `j` — all ranks -/
theorem flatIndex_bumpLast (dims as : List Nat) (j : Nat) (hlen : as.length = dims.length) (hne : as ≠ []) :
    flatIndex dims (bumpLast as j) = flatIndex dims as + j := by
  induction as generalizing dims with
  | nil => exact absurd rfl hne
  | cons a rest ih =>
    cases dims with
    | nil => simp at hlen
    | cons d ds =>
      cases rest with
      | nil =>
        have hds : ds = [] := by
          cases ds with
          | nil => rfl
          | cons _ _ => simp at hlen
        subst hds
        simp [bumpLast, flatIndex]
      | cons b rest' =>
        have hlen' : (b :: rest').length = ds.length := by simpa using hlen
        have := ih ds hlen' (by simp)
        simp only [bumpLast, flatIndex] at this ⊢
        rw [this]; omega

omit [Zero α] [Add α] [Sub α] [Mul α] in
/-- **all ranks**: lane `l` of `teval(as)` of an index view is `teval_s` at the multi-index advanced by `l` along the last axis -/
theorem teval_lanes (data : Nat → α) (it : Nat → Nat) (V : Nat) (dims as : List Nat) (l : Nat) (hl : l < V)
    (hlen : as.length = dims.length) (hne : as ≠ []) :
    (tevalV data it V dims as)[l]? = some (tevalS data it dims (bumpLast as l)) := by
  unfold tevalV tevalS
  rw [vectorSetter_eq, flatIndex_bumpLast dims as l hlen hne]
  simp [laneInds, forRange_zero_one, hl]

/-- non-vacuity: rank 4, the vector form at `(1,0,1,1)` of a `2x2x2x4` index tensor, width 2 -/
example : tevalV (fun p => (p : Int)) (fun q => 100 - q) 2 [2, 2, 2, 4] [1, 0, 1, 1] = [100 - 21, 100 - 22] := by decide
example : ([1, 0, 1, 1] : List Nat).length = [2, 2, 2, 4].length ∧ ([1, 0, 1, 1] : List Nat) ≠ [] := by decide

omit [Add α] [Sub α] [Mul α] in
/-- `teval_s` / `teval` of a rank-3 mask view: the element at `(x,y,z)` where the mask is true and `0` elsewhere;
    lane `l` of the vector form is the scalar form at `(x,y,z+l)` -/
theorem filter_teval_rank3 (data : Nat → α) (mask : Nat → Bool) (V d0 d1 d2 x y z l : Nat) (hl : l < V) :
    ftevalS data mask [d0, d1, d2] [x, y, z]
      = (if mask ((x * d1 + y) * d2 + z) then data ((x * d1 + y) * d2 + z) else 0) ∧
    (ftevalV data mask V [d0, d1, d2] [x, y, z])[l]? = some (ftevalS data mask [d0, d1, d2] [x, y, z + l]) := by
  unfold ftevalV ftevalS
  rw [flatIndex_rank3]
  simp [forRange_zero_one, hl, bumpLast]

/-- non-vacuity: a mask that is neither all-true nor all-false, `*=` -/
example : (List.range 6).map (exec (· * ·) (filterInstrs (fun k => k) (fun w p => (w : Int) * 10 + p)
    (fun i => i) (fun i => [true, false, true, true, false].getD i false) (.bin .add (.t 2) (.c 1)) 5) (fun p => (p : Int) + 1))
    = [1 * 21, 2, 3 * 23, 4 * 24, 5, 6] := by decide

/-! ## composition with the range-view models of C04 (reads) and C05 (writes) -/

/-- C04's constructor loop is the instance of `ctor2Gen` whose source is a range view -/
theorem ctor2Gen_views (v : Views.View) (V M N : Nat) :
    ctor2Gen V M N (fun i j => (v.eval2V V i j).2) v.eval2S = v.ctor2Writes V M N := rfl

/-- **the two-index constructor loop with any source whose vector member is lane-wise**: exactly the positions
    below `M*N` are stored to, position `i*N+j` receives `eval_s(i,j)` -/
theorem ctor2Gen_correct {β : Type} (V M N : Nat) (hV : 0 < V) (hN : 0 < N) (vec : Nat → Nat → List β) (sc : Nat → Nat → β)
    (hvec : ∀ i j, vec i j = (List.range V).map fun l => sc i (j + l)) :
    WritesExactly (ctor2Gen V M N vec sc) (fun p => p < M * N) (fun p => sc (p / N) (p % N)) := by
  unfold ctor2Gen
  have hrows : (List.range M).flatMap (fun i =>
      (forRange 0 (Views.roundDownV N V) V).flatMap (fun j => laneW (i * N + j) (vec i j)) ++
      (forRange (forExit 0 (Views.roundDownV N V) V) N 1).map (fun j => (i * N + j, sc i j)))
      = (List.range M).flatMap fun i => (List.range N).map fun j => (i * N + j, sc i j) := by
    congr 1; funext i
    exact ctor2_row V N i hV (vec i) (sc i) (hvec i)
  simp only [] 
  rw [hrows]
  apply writesExactly_of_all_right
  · intro w hw
    obtain ⟨i, hi, hw⟩ := List.mem_flatMap.1 hw
    obtain ⟨j, hj, rfl⟩ := List.mem_map.1 hw
    rw [List.mem_range] at hi hj
    have h1 : (i * N + j) / N = i := by
      rw [Nat.mul_comm, Nat.mul_add_div hN, Nat.div_eq_of_lt hj]; simp
    have h2 : (i * N + j) % N = j := by
      rw [Nat.mul_comm, Nat.mul_add_mod, Nat.mod_eq_of_lt hj]
    refine ⟨?_, by simp only [h1, h2]⟩
    show i * N + j < M * N
    have : (i + 1) * N ≤ M * N := Nat.mul_le_mul_right _ (by omega)
    rw [Nat.add_mul] at this; omega
  · intro p hp
    refine ⟨(p / N * N + p % N, sc (p / N) (p % N)), ?_, ?_⟩
    · apply List.mem_flatMap.2
      refine ⟨p / N, List.mem_range.2 ((Nat.div_lt_iff_lt_mul hN).2 hp), ?_⟩
      exact List.mem_map.2 ⟨p % N, List.mem_range.2 (Nat.mod_lt _ hN), rfl⟩
    · show p / N * N + p % N = p
      rw [Nat.mul_comm]; exact Nat.div_add_mod p N

section
variable {α : Type} [Add α]
/-- **`Tensor<T,M,N> X = A(it0,it1) + B(r0,r1)`** (index view and 2-D range view in one 2-D expression, evaluated by the
    two-index constructor loop): `X(i,j) = A[it0[i]*NCols + it1[j]] + B[documented element (i,j) of the slice]`,
    nothing else is stored. -/
theorem ctor2_index_plus_range (cls : Views.Cls) (h2 : Views.is2D cls) (m n : Nat) (a0 a1 : Views.Ax)
    (A B : Nat → α) (junk it0 it1 : Nat → Nat) (ncols V M N : Nat) (hV : 0 < V) (hN : 0 < N) :
    let it := storesTo junk (flatII ncols M N it0 it1)
    let v := Views.View.mk cls [m, n] [a0, a1]
    let ws := ctor2Gen V M N
      (fun i j => List.zipWith (· + ·) (evalV2 A it V N i j) ((v.eval2V V i j).2.map B))
      (fun i j => evalS2 A it N i j + B (v.eval2S i j))
    WritesExactly ws (fun p => p < M * N)
      (fun p => A (it0 (p / N) * ncols + it1 (p % N)) + B (Views.specOff [m, n] [a0, a1] [p / N, p % N])) := by
  intro it v ws
  have hlanes : ∀ i j, List.zipWith (· + ·) (evalV2 A it V N i j) ((v.eval2V V i j).2.map B)
      = (List.range V).map fun l => evalS2 A it N i (j + l) + B (v.eval2S i (j + l)) := by
    intro i j
    apply List.ext_getElem?
    intro l
    by_cases hl : l < V
    · have e1 := eval2_lanes A it V N i j l hl
      have e2 := (Views.eval2V_lane cls h2 m n a0 a1 V i j l hl).1
      rw [List.getElem?_zipWith, e1, List.getElem?_map, e2]
      simp [hl, v]
    · have hlen1 : (evalV2 A it V N i j).length = V := by
        unfold evalV2; rw [vectorSetter_eq]; simp [laneInds, forRange_zero_one]
      have hge : V ≤ l := by omega
      rw [List.getElem?_zipWith, List.getElem?_eq_none (by rw [hlen1]; exact hge)]
      simp [hge]
  have h := ctor2Gen_correct V M N hV hN
    (fun i j => List.zipWith (· + ·) (evalV2 A it V N i j) ((v.eval2V V i j).2.map B))
    (fun i j => evalS2 A it N i j + B (v.eval2S i j)) hlanes
  intro p
  have hp := h p
  constructor
  · intro hlt
    rw [hp.1 hlt]
    have hi : p / N < M := (Nat.div_lt_iff_lt_mul hN).2 hlt
    have hj : p % N < N := Nat.mod_lt _ hN
    simp only [eval2_ii A junk it0 it1 ncols M N (p / N) (p % N) hi hj, it, v,
      Views.eval2S_correct cls h2 m n a0 a1]
  · exact hp.2
end

section compose
variable {α : Type} [Zero α] [Add α] [Sub α] [Mul α] [Div α]

omit [Zero α] in
/-- **`B(r0,r1) op= A(it0,it1)`** (C05's 2-D range-view write loop with a per-axis index view as the source):
    element `(i,k)` of the slice of `B`, at `(step0*i+first0)*NB + k*step1+first1`, ends as
    `op(old, A[it0[i]*NCols + it1[k]])`; every other position of `B` is unchanged. -/
theorem rangeview2d_from_index_view (e : Nat) (he : e ≤ 64) (vea : Bool) (NB : Nat) (a0 a1 : ViewWrite.Ax)
    (hn : a1.ext < 2 ^ 64) (hs0 : 0 < a0.step) (hs1 : 0 < a1.step) (hin : ∀ k < a1.ext, k * a1.step + a1.first < NB)
    (op : ViewWrite.WOp) (A : Nat → α) (junk it0 it1 : Nat → Nat) (ncols : Nat) (B : Nat → α) :
    let it := storesTo junk (flatII ncols a0.ext a1.ext it0 it1)
    let B' := ViewWrite.exec op (fun _ j => evalS2 A it a1.ext (j / a1.ext) (j % a1.ext)) (ViewWrite.rowIters (2 ^ e) vea NB a0 a1) B
    let pos := fun i k => (a0.step * i + a0.first) * NB + (k * a1.step + a1.first)
    (∀ i < a0.ext, ∀ k < a1.ext, B' (pos i k) = op.ap (B (pos i k)) (A (it0 i * ncols + it1 k))) ∧
    (∀ p, (∀ i < a0.ext, ∀ k < a1.ext, p ≠ pos i k) → B' p = B p) := by
  intro it B' pos
  have h := C05.write_correct_2d e he vea NB a0 a1 hn hs0 hs1 hin op
    (fun j => evalS2 A it a1.ext (j / a1.ext) (j % a1.ext)) B
  refine ⟨?_, h.2⟩
  intro i hi k hk
  have h1 := h.1 i hi k hk
  have hN : 0 < a1.ext := by omega
  have hd : (i * a1.ext + k) / a1.ext = i := by
    rw [Nat.mul_comm, Nat.mul_add_div hN, Nat.div_eq_of_lt hk]; simp
  have hm : (i * a1.ext + k) % a1.ext = k := by
    rw [Nat.mul_comm, Nat.mul_add_mod, Nat.mod_eq_of_lt hk]
  simp only [hd, hm] at h1
  rw [eval2_ii A junk it0 it1 ncols a0.ext a1.ext i k hi hk] at h1
  exact h1

omit [Div α] in
/-- **`A(it) op= B(ranges)`** (a range view of any class as the right-hand side of an index view, both
    assignment paths): with duplicate-free indices `A[it[j]]` ends as `op(A[it[j]], B[off_j])`, where `off_j` is
    what C04's flat evaluator `eval_s(j)` of the range view reads; by `C04.read_correct` that is the documented
    element `jj` of the slice when `j` is the row-major position of the multi-index `jj`. -/
theorem index_view_from_range_view (vea : Bool) (ap : α → α → α) (ofInt : Int → α) (it : Nat → Nat) (mask : Nat → Bool)
    (A B : Nat → α) (v : Views.View) (hwf : v.WF) (ex : Nat) (hn : v.size < 2 ^ 64) (hex : ex ≤ 64)
    (hnd : ((List.range v.size).map it).Nodup) :
    let env : Nat → Nat → α := fun _ j => B (v.evalS j)
    let A' := exec ap (scatter vea ofInt env it mask (.t 2) v.size (2 ^ ex)) A
    (∀ jj, Views.InRange (Views.vdims v.axs) jj →
        A' (it (Views.rowMajor (Views.vdims v.axs) jj))
          = ap (A (it (Views.rowMajor (Views.vdims v.axs) jj))) (B (Views.specOff v.pdims v.axs jj))) ∧
    (∀ p, (∀ j, j < v.size → it j ≠ p) → A' p = A p) := by
  intro env A'
  have h := random_write vea ap ofInt env it mask (.t 2) A v.size ex hn hex hnd
  refine ⟨?_, h.2⟩
  intro jj hjj
  have hlt : Views.rowMajor (Views.vdims v.axs) jj < v.size := Views.rowMajor_lt hjj
  refine (h.1 _ hlt).trans ?_
  simp only [RandomViews.evalS, env, C04.read_correct v hwf jj hjj]

omit [Div α] in
/-- **`A(mask) op= B(ranges)`**: every `p < n` with `mask p` ends as `op(A p, B[off_p])`, `off_p` the offset C04's
    `eval_s(p)` of the range view reads (the documented element by `C04.read_correct`); all other positions keep
    their value. -/
theorem mask_view_from_range_view (ap : α → α → α) (ofInt : Int → α) (it : Nat → Nat) (mask : Nat → Bool)
    (A B : Nat → α) (v : Views.View) (hwf : v.WF) :
    let env : Nat → Nat → α := fun _ j => B (v.evalS j)
    let A' := exec ap (filterInstrs ofInt env it mask (.t 2) v.size) A
    (∀ jj, Views.InRange (Views.vdims v.axs) jj →
        A' (Views.rowMajor (Views.vdims v.axs) jj)
          = if mask (Views.rowMajor (Views.vdims v.axs) jj) = true
            then ap (A (Views.rowMajor (Views.vdims v.axs) jj)) (B (Views.specOff v.pdims v.axs jj))
            else A (Views.rowMajor (Views.vdims v.axs) jj)) ∧
    (∀ p, v.size ≤ p → A' p = A p) := by
  intro env A'
  constructor
  · intro jj hjj
    have hlt : Views.rowMajor (Views.vdims v.axs) jj < v.size := Views.rowMajor_lt hjj
    show exec ap _ A _ = _
    rw [filter_write]
    simp only [hlt, true_and, RandomViews.evalS, env, C04.read_correct v hwf jj hjj]
  · intro p hp
    show exec ap _ A _ = _
    rw [filter_write]
    have : ¬ p < v.size := by omega
    simp [this]

end compose

/-! ## right-hand sides that are evaluated first -/

section staged
variable {α : Type} [Zero α] [Add α] [Sub α] [Mul α]

/-- **`A(it) op= rhs`, `rhs` requiring evaluation** (`P % Q`, `trans(C)`, `P % Q + D`, also when `rhs` reads `A`): with
    duplicate-free indices `A[it[j]]` ends as `op(A[it[j]], rhs_j)` where `rhs_j` is computed from the contents of `A`
    BEFORE the statement; every other position keeps its value. -/
theorem staged_index_write (vea : Bool) (ap : α → α → α) (ofInt : Int → α) (env : Nat → Nat → α) (it : Nat → Nat) (mask : Nat → Bool)
    (rhsOf : (Nat → α) → Nat → α) (A : Nat → α) (n ex : Nat) (hn : n < 2 ^ 64) (hex : ex ≤ 64)
    (hnd : ((List.range n).map it).Nodup) :
    (∀ j, j < n → stagedScatter vea ap ofInt env it mask rhsOf n (2 ^ ex) A (it j) = ap (A (it j)) (rhsOf A j)) ∧
    (∀ p, (∀ j, j < n → it j ≠ p) → stagedScatter vea ap ofInt env it mask rhsOf n (2 ^ ex) A p = A p) := by
  unfold stagedScatter
  have h := random_write vea ap ofInt (stagedEnv env 7 (rhsOf A)) it mask (.t 7) A n ex hn hex hnd
  refine ⟨fun j hj => ?_, h.2⟩
  rw [h.1 j hj]
  simp [RandomViews.evalS, stagedEnv]

/-- **`A(mask) op= rhs`, `rhs` requiring evaluation**: `op(A p, rhs_p)` with `rhs` computed from the old `A` where the mask
    is true, `A p` everywhere else. -/
theorem staged_mask_write (ap : α → α → α) (ofInt : Int → α) (env : Nat → Nat → α) (it : Nat → Nat) (mask : Nat → Bool)
    (rhsOf : (Nat → α) → Nat → α) (A : Nat → α) (n p : Nat) :
    stagedFilter ap ofInt env it mask rhsOf n A p = if p < n ∧ mask p = true then ap (A p) (rhsOf A p) else A p := by
  unfold stagedFilter
  rw [filter_write]
  simp [RandomViews.evalS, stagedEnv]

/-- non-vacuity: `a(mask) -= a % B` on a 2x2 parent that the product reads (values from the OLD parent) -/
example : (List.range 4).map (stagedFilter (· - ·) (fun k => k) (fun _ _ => (0 : Int)) (fun i => i)
    (fun i => [true, false, true, true].getD i false) (fun m => mmAt m (fun q => [1, 2, 3, 4].getD q 0) 2 2) 4 (fun p => (p : Int) + 1))
    = [1 - (1 * 1 + 2 * 3), 2, 3 - (3 * 1 + 4 * 3), 4 - (3 * 2 + 4 * 4)] := by decide

end staged

end Fastor.C19
