import FastorModel.Model.Permute
import FastorModel.Model.Transpose
/-
# C14 — permute, permutation and transpose move every element to its permuted position
-/
namespace Fastor.C14
open Fastor Fastor.Transpose

variable {α : Type}

/-- the plain double loop (`_transpose` without `FASTOR_AVX_IMPL`, `_transpose_dispatch`, and with `f = conj`
    the backend `_ctranspose` of `ctrans`): every cell of the `N×M` result is written, nothing else is, and
    `out[j*M+i] = f (a[i*N+j])` -/
theorem plain_transpose_correct (f : α → α) (a : Nat → α) (M N : Nat) :
    WritesExactly (plainWrites f a M N) (fun p => p < N * M) (fun p => f (a ((p % M) * N + p / M))) := by
  apply writesExactly_of_all_right
  · intro w hw
    simp only [plainWrites, List.mem_flatMap, List.mem_map, List.mem_range] at hw
    obtain ⟨j, hj, i, hi, rfl⟩ := hw
    have hM : 0 < M := by omega
    have h1 : (j * M + i) % M = i := by
      rw [Nat.add_comm, Nat.add_mul_mod_self_right]; exact Nat.mod_eq_of_lt hi
    have h2 : (j * M + i) / M = j := by
      rw [Nat.add_comm, Nat.add_mul_div_right _ _ hM, Nat.div_eq_of_lt hi]; simp
    refine ⟨?_, ?_⟩
    · show j * M + i < N * M
      calc j * M + i < j * M + M := by omega
        _ = (j + 1) * M := by rw [Nat.add_mul]; simp
        _ ≤ N * M := Nat.mul_le_mul_right _ hj
    · show f (a (i * N + j)) = f (a ((j * M + i) % M * N + (j * M + i) / M))
      rw [h1, h2]
  · intro p hp
    have hM : 0 < M := by
      rcases Nat.eq_zero_or_pos M with h | h
      · subst h; simp at hp
      · exact h
    refine ⟨(p / M * M + p % M, f (a (p % M * N + p / M))), ?_, ?_⟩
    · simp only [plainWrites, List.mem_flatMap, List.mem_map, List.mem_range]
      refine ⟨p / M, ?_, p % M, Nat.mod_lt _ hM, rfl⟩
      exact (Nat.div_lt_iff_lt_mul hM).2 hp
    · show p / M * M + p % M = p
      rw [Nat.mul_comm]; exact Nat.div_add_mod p M

end Fastor.C14
