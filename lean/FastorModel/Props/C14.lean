import FastorModel.Proofs.Permute
import FastorModel.Proofs.PermuteMeta
import FastorModel.Proofs.PermuteOdometer
import FastorModel.Proofs.PermuteLabels
import FastorModel.Proofs.Transpose
import FastorModel.Generated.C14Kernels
import FastorModel.Proofs.TransposeLeaf
/-
# C14 — permute, permutation and transpose move every element to its permuted position

Property: for every rank, every permutation `p` of the axes and every shape, `permute<Index<p...>>(A)` has
extents `shape[p[n]]` and satisfies `out(i[p[0]],…,i[p[k]]) = A(i[0],…,i[k])` for every multi-index; the legacy
`permutation<>` returns the axis permutation by `p` or by its inverse, the same one for its extents and for
its elements; `transpose`/`trans` is the rank-2 case and the conjugate transpose additionally conjugates.
Composing a permutation with its inverse returns the original tensor bit for bit, for tensors and for
unevaluated expressions.

Reading of the statements.
* `Permute.permuteMoves s v p dims` is the ordered list of moves `out[dst] = a[src]` executed by
  `permute<Index<p...>>(Tensor<T,dims...>)` under standard `s` (C++14: loop over the input box, forward map
  `resulting_index` on the output offset; C++17: loop over the output box, reverse map `permute_mapped_index_t` on the
  input offset) with loop skeleton `v` (`recursive` = default build, `odometer` = `CONTRACT_OPT==-1`).  The source
  `a : Nat → α` is the tensor's buffer or, for an unevaluated expression, `eval_s(index_a)`: the same list of
  moves (permute.h has the same body for both), so the theorems cover both argument kinds; only moves happen, so
  "equal" is equality of the moved elements themselves (bit for bit).
* `InBox dims i`: `i` is a multi-index of the shape; `flat dims i` its row-major offset; `gather p i` is
  `(i[p[0]], …, i[p[r-1]])`; `gather p dims` the extents `dims[p[n]]`.
* `Transpose.transposeWrites cfg sz nR nC a g1 g2 M N` is the ordered list of stores of `_transpose<T,M,N>` for an
  element of `sz` bytes under build configuration `cfg` and block-size macros `nR`, `nC`; `g1`, `g2` are the
  (arbitrary) previous contents of the two pack buffers.
-/
namespace Fastor.C14
open Fastor Fastor.Permute Fastor.Transpose

variable {α : Type}

/-! ## transpose -/

/-- the plain double loop (`_transpose` without `FASTOR_AVX_IMPL`, the generic `_transpose_dispatch` leaf):
    every cell of the `N×M` result is written, nothing else is, and `out[j*M+i] = a[i*N+j]` -/
theorem plain_transpose_correct (a : Nat → α) (M N : Nat) :
    WritesExactly (plainWrites id a M N) (fun p => p < N * M) (fun p => a ((p % M) * N + p / M)) :=
  plainWrites_exact id a M N

/-- `_ctranspose` (backend of `ctrans` / `ctranspose`): the same cells, each holding the conjugate:
    `out[j*M+i] = conj (a[i*N+j])` for every `i < M`, `j < N` and nothing outside `N*M` is touched -/
theorem ctrans_conjugates (conj : α → α) (a m : Nat → α) (M N : Nat) :
    (∀ i j, i < M → j < N → applyWrites (plainWrites conj a M N) m (j * M + i) = conj (a (i * N + j))) ∧
    (∀ p, N * M ≤ p → applyWrites (plainWrites conj a M N) m p = m p) := by
  have h := plainWrites_exact conj a M N
  refine ⟨?_, ?_⟩
  · intro i j hi hj
    rw [(applyWrites_of_exact h m (j * M + i)).1 (digits_lt hj hi)]
    obtain ⟨h1, h2⟩ := digits_div_mod (x := j) hi
    rw [h1, h2]
  · intro p hp
    exact (applyWrites_of_exact h m p).2 (by omega)

/-- **transpose_correct** — the register-blocked nest, for ALL `M N`, every vector width `V > 0` and every pair of
    block-size macros `nR, nC > 0`, whatever the pack buffers held before: every cell `j*M+i` of the result ends up
    holding `a[i*N+j]`, every cell is written, nothing at or beyond `N*M` is written, and every load (the vector
    loads of the packing loop included) stays inside `a[0 .. M*N)` -/
theorem transpose_correct (a m : Nat → α) (g1 g2 : Nat → Nat → Nat → α) (M N V nR nC : Nat)
    (hV : 0 < V) (hR : 0 < nR) (hC : 0 < nC) :
    (∀ i j, i < M → j < N → applyWrites (blockedWrites a g1 g2 M N V nR nC) m (j * M + i) = a (i * N + j)) ∧
    (∀ p, p < N * M → ∃ w ∈ blockedWrites a g1 g2 M N V nR nC, w.1 = p) ∧
    (∀ p, N * M ≤ p → applyWrites (blockedWrites a g1 g2 M N V nR nC) m p = m p) ∧
    (∀ r ∈ blockedReads M N V nR nC, r < M * N) := by
  have h := blockedWrites_exact a g1 g2 M N V nR nC hV hR hC
  refine ⟨?_, ?_, ?_, blockedReads_lt M N V nR nC hV hR hC⟩
  · intro i j hi hj
    rw [(applyWrites_of_exact h m (j * M + i)).1 (digits_lt hj hi), spec_at a M N i j hi]
  · intro p hp
    have := (h p).1 hp
    exact ⟨(p, _), lastWrite_some_mem this, rfl⟩
  · intro p hp
    exact (applyWrites_of_exact h m p).2 (by omega)

theorem lanes_pos (abi : Abi) (sz : Nat) : 0 < abi.lanes sz := by
  unfold Abi.lanes
  by_cases h : abi.bits sz / sz / 8 = 0
  · simp [h]
  · simp only [bne_iff_ne, ne_eq, h, not_false_eq_true, if_true]; exact Nat.pos_of_ne_zero h

/-- the same for the entry point under any build configuration (plain loop or blocked nest as `FASTOR_AVX_IMPL`
    decides), any element size: the result does not depend on the configuration at all -/
theorem transpose_correct_cfg (cfg : Cfg) (sz nR nC : Nat) (hR : 0 < nR) (hC : 0 < nC)
    (a m : Nat → α) (g1 g2 : Nat → Nat → Nat → α) (M N : Nat) :
    (∀ i j, i < M → j < N → applyWrites (transposeWrites cfg sz nR nC a g1 g2 M N) m (j * M + i) = a (i * N + j)) ∧
    (∀ p, N * M ≤ p → applyWrites (transposeWrites cfg sz nR nC a g1 g2 M N) m p = m p) ∧
    (∀ r ∈ transposeReads cfg sz nR nC M N, r < M * N) := by
  unfold transposeWrites transposeReads
  cases route cfg with
  | plain =>
    have h := plainWrites_exact id a M N
    refine ⟨?_, ?_, plainReads_lt M N⟩
    · intro i j hi hj
      rw [(applyWrites_of_exact h m (j * M + i)).1 (digits_lt hj hi)]
      obtain ⟨h1, h2⟩ := digits_div_mod (x := j) hi
      simp only [id, h1, h2]
    · intro p hp
      exact (applyWrites_of_exact h m p).2 (by omega)
  | blocked =>
    obtain ⟨h1, _, h3, h4⟩ := transpose_correct a m g1 g2 M N (cfg.native.lanes sz) nR nC (lanes_pos _ _) hR hC
    exact ⟨h1, h3, h4⟩

/-- `TensorMap dst = trans(A)` as the code is now (materialise in a temporary, then copy linearly): the map ends up
    holding the transposed matrix, every cell of it is written, nothing beyond it -/
theorem map_assign_trans_correct (cfg : Cfg) (sz nR nC : Nat) (hR : 0 < nR) (hC : 0 < nC)
    (a m t0 : Nat → α) (g1 g2 : Nat → Nat → Nat → α) (M N : Nat) :
    (∀ i j, i < M → j < N → applyWrites (mapAssignWrites cfg sz nR nC a g1 g2 t0 M N) m (j * M + i) = a (i * N + j)) ∧
    (∀ p, N * M ≤ p → applyWrites (mapAssignWrites cfg sz nR nC a g1 g2 t0 M N) m p = m p) := by
  have hcopy : WritesExactly (mapAssignWrites cfg sz nR nC a g1 g2 t0 M N) (fun p => p < N * M)
      (applyWrites (transposeWrites cfg sz nR nC a g1 g2 M N) t0) := by
    apply writesExactly_of_all_right
    · intro w hw
      simp only [mapAssignWrites, List.mem_map, List.mem_range] at hw
      obtain ⟨p, hp, rfl⟩ := hw
      exact ⟨hp, rfl⟩
    · intro p hp
      exact ⟨(p, _), by simp only [mapAssignWrites, List.mem_map, List.mem_range]; exact ⟨p, hp, rfl⟩, rfl⟩
  obtain ⟨h1, _, _⟩ := transpose_correct_cfg cfg sz nR nC hR hC a t0 g1 g2 M N
  refine ⟨?_, ?_⟩
  · intro i j hi hj
    rw [(applyWrites_of_exact hcopy m (j * M + i)).1 (digits_lt hj hi), h1 i j hi hj]
  · intro p hp
    exact (applyWrites_of_exact hcopy m p).2 (by omega)

/-- non-vacuity: the default AVX2 float build on a 9×11 matrix runs 1 full block column and both edge loops -/
example : (blockedWrites (fun k => k) (fun _ _ _ => 0) (fun _ _ _ => 0) 9 11 8 1 1).length = 99 := by decide

/-- **intrinsic leaf kernels, for every element type** — every float/double kernel of transpose.h / transpose_kernels.h
    (`_transpose<float,2,2|3,3|4,4|8,8|16,16>`, `<double,2,2|3,3|4,4|8,8>`, with `_MM_TRANSPOSE4_PS`, `_MM_TRANSPOSE8_PS`,
    `_MM_TRANSPOSE4_PD`, `_MM_TRANSPOSE8_PD`, `_MM_TRANSPOSE16_PS` and the partial load/store helpers of extintrin.h inlined),
    as selected by the conditional compilation of the sse2, avx, avx2 and avx512 configurations and translated
    statement by statement into Lean over the lane semantics of `Model/Intrinsics.lean` (Generated/C14Kernels.lean,
    regenerated and compared on every run): for EVERY lane type `α`, every value `z` of a zeroed lane and every source
    `a`, its stores leave exactly the transposed matrix in `out[0..n*n)` (so it is the lane permutation the generic
    leaf loop of `transpose_correct` performs), no store falls outside the result and no load outside the source.
    Proof per kernel: `decide` on lane tokens + naturality (`Proofs/Intrinsics.lean`: every intrinsic commutes with
    mapping a function over the lanes; `Intr.of_tokens`). -/
theorem intrinsic_leaf_kernels : C14K.AllKernels := C14K.all_kernels

/-- **transpose_correct with any admissible leaf** — the blocked nest is correct whatever `_transpose_dispatch` runs, as
    long as that leaf leaves the transposed block in `pack_out` (`LeafOK`): same conclusions as `transpose_correct` -/
theorem transpose_correct_any_leaf (leaf : (Nat → α) → List (Nat × α)) (a m : Nat → α) (g1 g2 : Nat → Nat → Nat → α)
    (M N V nR nC : Nat) (hV : 0 < V) (hR : 0 < nR) (hC : 0 < nC) (hleaf : LeafOK leaf (V * nC) (V * nR)) :
    (∀ i j, i < M → j < N → applyWrites (blockedWritesWith leaf a g1 g2 M N V nR nC) m (j * M + i) = a (i * N + j)) ∧
    (∀ p, p < N * M → ∃ w ∈ blockedWritesWith leaf a g1 g2 M N V nR nC, w.1 = p) ∧
    (∀ p, N * M ≤ p → applyWrites (blockedWritesWith leaf a g1 g2 M N V nR nC) m p = m p) := by
  have h := blockedWritesWith_exact leaf a g1 g2 M N V nR nC hV hR hC hleaf
  refine ⟨?_, ?_, ?_⟩
  · intro i j hi hj
    rw [(applyWrites_of_exact h m (j * M + i)).1 (digits_lt hj hi), spec_at a M N i j hi]
  · intro p hp
    exact ⟨(p, _), lastWrite_some_mem ((h p).1 hp), rfl⟩
  · intro p hp
    exact (applyWrites_of_exact h m p).2 (by omega)

/-- the float/double builds: `_transpose<T,M,N>` for ALL `M N` with the translated intrinsic kernel as leaf, in the
    block shapes in which the library dispatches to it — float under AVX/AVX2 (`V = 8`, 8x8 kernel) and AVX-512
    (`V = 16`, 16x16 kernel), double under AVX/AVX2 (`V = 4`: 4x4 kernel by default, the 8x8 kernel with both block
    macros 2) and AVX-512 (`V = 8`, 8x8 kernel) -/
theorem transpose_correct_intrinsic_leaf (z : α) (a m : Nat → α) (g1 g2 : Nat → Nat → Nat → α) (M N i j : Nat)
    (hi : i < M) (hj : j < N) :
    applyWrites (blockedWritesWith (C14K.k_float8_avx z) a g1 g2 M N 8 1 1) m (j * M + i) = a (i * N + j) ∧
    applyWrites (blockedWritesWith (C14K.k_float8_avx2 z) a g1 g2 M N 8 1 1) m (j * M + i) = a (i * N + j) ∧
    applyWrites (blockedWritesWith (C14K.k_float16_avx512 z) a g1 g2 M N 16 1 1) m (j * M + i) = a (i * N + j) ∧
    applyWrites (blockedWritesWith (C14K.k_double4_avx z) a g1 g2 M N 4 1 1) m (j * M + i) = a (i * N + j) ∧
    applyWrites (blockedWritesWith (C14K.k_double4_avx2 z) a g1 g2 M N 4 1 1) m (j * M + i) = a (i * N + j) ∧
    applyWrites (blockedWritesWith (C14K.k_double8_avx z) a g1 g2 M N 4 2 2) m (j * M + i) = a (i * N + j) ∧
    applyWrites (blockedWritesWith (C14K.k_double8_avx2 z) a g1 g2 M N 4 2 2) m (j * M + i) = a (i * N + j) ∧
    applyWrites (blockedWritesWith (C14K.k_double8_avx512 z) a g1 g2 M N 8 1 1) m (j * M + i) = a (i * N + j) := by
  have key : ∀ (K : (Nat → α) → List (Nat × α)) (n V b : Nat) (hV : 0 < V) (hb : 0 < b) (hn : V * b = n)
      (hK : ∀ pa, Intr.finalCells (K pa) (n * n) = Intr.transposed pa n),
      applyWrites (blockedWritesWith K a g1 g2 M N V b b) m (j * M + i) = a (i * N + j) := by
    intro K n V b hV hb hn hK
    have hl : LeafOK K (V * b) (V * b) := by rw [hn]; exact leafOK_of_kernel K n hK
    exact (transpose_correct_any_leaf K a m g1 g2 M N V b b hV hb hb hl).1 i j hi hj
  exact ⟨key _ 8 8 1 (by omega) (by omega) rfl (fun pa => (C14K.k_float8_avx_correct z pa).1),
         key _ 8 8 1 (by omega) (by omega) rfl (fun pa => (C14K.k_float8_avx2_correct z pa).1),
         key _ 16 16 1 (by omega) (by omega) rfl (fun pa => (C14K.k_float16_avx512_correct z pa).1),
         key _ 4 4 1 (by omega) (by omega) rfl (fun pa => (C14K.k_double4_avx_correct z pa).1),
         key _ 4 4 1 (by omega) (by omega) rfl (fun pa => (C14K.k_double4_avx2_correct z pa).1),
         key _ 8 4 2 (by omega) (by omega) rfl (fun pa => (C14K.k_double8_avx_correct z pa).1),
         key _ 8 4 2 (by omega) (by omega) rfl (fun pa => (C14K.k_double8_avx2_correct z pa).1),
         key _ 8 8 1 (by omega) (by omega) rfl (fun pa => (C14K.k_double8_avx512_correct z pa).1)⟩

/-! ## permute -/

theorem gather_pos {mi rev dims : List Nat} (h : IsInv mi rev dims.length) (hpos : ∀ d ∈ dims, 0 < d) :
    ∀ d ∈ gather mi dims, 0 < d := by
  intro d hd
  obtain ⟨k, hk, rfl⟩ := List.mem_map.1 hd
  obtain ⟨n, hn, rfl⟩ := List.getElem_of_mem hk
  have hn' : n < dims.length := by rw [← h.lmi]; exact hn
  have h1 := (h.left n hn').1
  rw [getD_eq_getElem' mi n hn] at h1
  rw [getD_eq_getElem' dims _ h1]
  exact hpos _ (List.getElem_mem _)

/-- **permute_correct** — for both standards (`s`), both loop skeletons (`v`), every rank ≥ 1, every permutation `p`
    of `0..r-1` and every shape with positive extents:
    the declared extents are `dims[p[n]]`; `out(i[p[0]],…,i[p[r-1]]) = A(i)` for every multi-index `i` of the shape;
    nothing at or beyond the size of the result is written; every cell of the result is written.
    (`a` is the argument's buffer for a tensor and `eval_s` for an unevaluated expression.) -/
theorem permute_correct (s : Std) (v : Variant) (p dims : List Nat) (hne : dims ≠ []) (hpos : ∀ d ∈ dims, 0 < d)
    (hp : p.Perm (List.range dims.length)) (a m : Nat → α) :
    newDims p dims = gather p dims ∧
    (∀ i, InBox dims i →
      applyWrites (movesWrites a (permuteMoves s v p dims)) m (flat (newDims p dims) (gather p i)) = a (flat dims i)) ∧
    (∀ pos, prod (newDims p dims) ≤ pos → applyWrites (movesWrites a (permuteMoves s v p dims)) m pos = m pos) ∧
    (∀ pos, pos < prod (newDims p dims) → ∃ i, InBox dims i ∧ flat (newDims p dims) (gather p i) = pos) := by
  have hd := newDims_eq hp dims
  have hr : 0 < dims.length := List.length_pos_iff.2 hne
  cases s with
  | cxx14 =>
    have := forward_correct v p (invOf p) dims hne (fun as => loopStates_mem v dims as hpos) (isInv_invOf hp) a m
    simp only [permuteMoves, newIdx_eq hp, hd]
    exact ⟨trivial, this⟩
  | cxx17 =>
    have hinv := isInv_mappedIndex hr hp
    have := reverse_correct v p (mappedIndex p) dims hne
      (fun as => loopStates_mem v (gather p dims) as (gather_pos hinv hpos)) hinv a m
    simp only [permuteMoves, hd]
    exact ⟨trivial, this⟩

/-- non-vacuity: `Index<1,2,0>` is a permutation of `0..2` and `(1,2,3)` a multi-index of the shape `2×3×4` -/
example : [1, 2, 0].Perm (List.range [2, 3, 4].length) ∧ InBox [2, 3, 4] [1, 2, 3] :=
  ⟨by decide, by simp [InBox]⟩

/-- the reverse map the C++17 branch computes (`permute_mapped_index_t`) and the index the legacy function
    computes (`meta_argsort`) are both the inverse permutation: `p[q[k]] = k` and `q[p[n]] = n` -/
theorem metafunctions_inverse (p : List Nat) (r : Nat) (hr : 0 < r) (hp : p.Perm (List.range r)) :
    IsInv p (mappedIndex p) r ∧ IsInv (legacyIdx p) p r ∧ mappedIndex p = legacyIdx p :=
  ⟨isInv_mappedIndex hr hp, isInv_legacyIdx hr hp,
   isInv_unique (isInv_mappedIndex hr hp) (isInv_legacyIdx hr hp).symm⟩

/-- **explicit-output einsum** (`einsum<…, OIndex<o...>>`, C++17): it ends with
    `permute<permute_mapped_index_t<Index<R...>, Index<O...>>>(res)` where `R` are the (distinct, arbitrary) labels of the
    contraction result and `O` the requested order.  For every such pair the computed pack is "position in `R` of the
    label `O[n]`" and is a permutation of `0..n-1`; by `permute_correct` the result therefore has, at place `n`, the axis of
    `res` that carries the label `O[n]` (extent and elements). -/
theorem einsum_output_index (R O : List Nat) (hn : R.Nodup) (hne : R ≠ []) (hO : O.Perm R) :
    mappedIndex2 R O = O.map (fun y => R.idxOf y) ∧ (mappedIndex2 R O).Perm (List.range R.length) :=
  ⟨mappedIndex2_spec hn hne hO, mappedIndex2_perm hn hne hO⟩

/-- non-vacuity: the labels `5,8,2` requested as `2,5,8` -/
example : [5, 8, 2].Nodup ∧ [2, 5, 8].Perm [5, 8, 2] ∧ mappedIndex2 [5, 8, 2] [2, 5, 8] = [2, 0, 1] := by decide

/-- **cxx14_eq_cxx17** — the final contents of the result are the same for both standards and both loop skeletons
    (which, moreover, visit their box in the same order: `odometer_eq_cartesian`) -/
theorem cxx14_eq_cxx17 (s s' : Std) (v v' : Variant) (p dims : List Nat) (hne : dims ≠ []) (hpos : ∀ d ∈ dims, 0 < d)
    (hp : p.Perm (List.range dims.length)) (a m : Nat → α) (pos : Nat) :
    applyWrites (movesWrites a (permuteMoves s v p dims)) m pos
      = applyWrites (movesWrites a (permuteMoves s' v' p dims)) m pos := by
  obtain ⟨_, h1, h2, h3⟩ := permute_correct s v p dims hne hpos hp a m
  obtain ⟨_, h1', h2', _⟩ := permute_correct s' v' p dims hne hpos hp a m
  by_cases h : pos < prod (newDims p dims)
  · obtain ⟨i, hi, rfl⟩ := h3 pos h
    rw [h1 i hi, h1' i hi]
  · rw [h2 pos (by omega), h2' pos (by omega)]

theorem loops_same_order (dims : List Nat) (hpos : ∀ d ∈ dims, 0 < d) :
    loopStates .odometer dims = loopStates .recursive dims := odometer_eq_cartesian dims hpos

/-- **permutation_consistent** — the legacy `permutation<Index<p...>>` permutes by the INVERSE `q = p⁻¹` of the
    pack (`p[q[k]] = k`), and it uses that same `q` for the declared extents (`dims[q[n]]`, since the repair of
    `permute_impl::resulting_tensor`) and for the elements: `out(i[q[0]],…,i[q[r-1]]) = A(i)`; every cell of the
    result is written and nothing else -/
theorem permutation_consistent (v : Variant) (p dims : List Nat) (hne : dims ≠ []) (hpos : ∀ d ∈ dims, 0 < d)
    (hp : p.Perm (List.range dims.length)) (a m : Nat → α) :
    IsInv (legacyIdx p) p dims.length ∧
    legacyDims p dims = gather (legacyIdx p) dims ∧
    (∀ i, InBox dims i →
      applyWrites (movesWrites a (legacyMoves v p dims)) m (flat (legacyDims p dims) (gather (legacyIdx p) i))
        = a (flat dims i)) ∧
    (∀ pos, prod (legacyDims p dims) ≤ pos → applyWrites (movesWrites a (legacyMoves v p dims)) m pos = m pos) ∧
    (∀ pos, pos < prod (legacyDims p dims) → ∃ i, InBox dims i ∧ flat (legacyDims p dims) (gather (legacyIdx p) i) = pos) := by
  have hr : 0 < dims.length := List.length_pos_iff.2 hne
  have hinv := isInv_legacyIdx hr hp
  have := forward_correct v (legacyIdx p) p dims hne (fun as => loopStates_mem v dims as hpos) hinv a m
  exact ⟨hinv, rfl, this⟩

/-- **permute_inverse_id** — permuting by `p` and then by its inverse `q` (any standards, any loop skeletons, the
    second leg reading the first result as a tensor or through `eval_s`) returns the original extents and, at
    every multi-index, the very element that was there: only moves happen, so the round trip is the identity
    bit for bit -/
theorem permute_inverse_id (s1 s2 : Std) (v1 v2 : Variant) (p q dims : List Nat) (hne : dims ≠ [])
    (hpos : ∀ d ∈ dims, 0 < d) (hp : p.Perm (List.range dims.length)) (hq : q.Perm (List.range dims.length))
    (hinv : IsInv p q dims.length) (a m1 m2 : Nat → α) :
    newDims q (newDims p dims) = dims ∧
    ∀ i, InBox dims i →
      applyWrites (movesWrites (applyWrites (movesWrites a (permuteMoves s1 v1 p dims)) m1)
        (permuteMoves s2 v2 q (newDims p dims))) m2 (flat dims i) = a (flat dims i) := by
  obtain ⟨hd, h1, _, _⟩ := permute_correct s1 v1 p dims hne hpos hp a m1
  have hl : (newDims p dims).length = dims.length := by rw [hd, gather_length, hinv.lmi]
  have hne' : newDims p dims ≠ [] := by
    intro h; rw [h] at hl; exact hne (List.length_eq_zero_iff.1 hl.symm)
  have hpos' : ∀ d ∈ newDims p dims, 0 < d := by rw [hd]; exact gather_pos hinv hpos
  obtain ⟨hd2, h2, _, _⟩ := permute_correct s2 v2 q (newDims p dims) hne' hpos' (hl ▸ hq)
    (applyWrites (movesWrites a (permuteMoves s1 v1 p dims)) m1) m2
  have hback : newDims q (newDims p dims) = dims := by
    rw [hd2, hd]; exact gather_gather hinv dims rfl
  refine ⟨hback, ?_⟩
  intro i hi
  have hgi : InBox (newDims p dims) (gather p i) := by rw [hd]; exact gather_inBox hinv rfl hi
  have := h2 (gather p i) hgi
  rw [hback, gather_gather hinv i hi.length_eq, h1 i hi] at this
  exact this

/-- non-vacuity of `permute_inverse_id`: `Index<1,2,0>` and `Index<2,0,1>` are mutually inverse permutations -/
example : [1, 2, 0].Perm (List.range 3) ∧ [2, 0, 1].Perm (List.range 3) ∧ IsInv [1, 2, 0] [2, 0, 1] 3 := by
  refine ⟨by decide, by decide, rfl, rfl, ?_, ?_⟩ <;> intro n hn <;>
    (have : n = 0 ∨ n = 1 ∨ n = 2 := by omega) <;> rcases this with rfl | rfl | rfl <;> simp

/-- the model on the harness' running example `permute<Index<1,2,0>>(Tensor<T,2,3,4>)`: same moves under both
    standards' index maps up to order, 24 of them -/
example : (permuteMoves .cxx14 .recursive [1, 2, 0] [2, 3, 4]).length = 24 ∧
    (permuteMoves .cxx17 .odometer [1, 2, 0] [2, 3, 4]).length = 24 := by decide

end Fastor.C14
