import FastorModel.Proofs.Solve
import FastorModel.Proofs.SolveInvPiv
import FastorModel.Props.C11
/-
  C12 — "For every square size, each implemented solve strategy (inverse-based, block and simple LU, and their pivoted forms) and
  both a vector and a multi-column right-hand side, the returned x satisfies ||A*x - b|| <= c*n*eps*cond(A)*||b|| for every A on
  which the strategy is defined […]. The lazy solve expression and the triangular substitution helpers obey the same bound."

  Proved here, over ANY field (exact arithmetic — what a wrong index, bound or permutation breaks), for ALL sizes n and ALL numbers of
  columns c (the vector overload is c = 1), about `Model/Solve.lean`, which transcribes the compile-time recursions
  `forward_subs_impl` / `backward_subs_impl` (including the backward inner product that starts AT the diagonal and relies on the
  zero-initialised x), `get_lu_solve` and the `solve<SolveCompType::…>` dispatch:
    forward_subs_correct, backward_subs_correct, lu_solve_correct (any factorisation `L*U = P*A`, any bijection p),
    solve_lu_correct (the four LU strategies, all n, via C11's lu_core_correct), solve_inv_correct, solve_invPiv_correct
    — i.e. `A*X = B` for all six strategies.
  Not proved: the floating-point residual bound (measured by the harness: a test).
-/
namespace Fastor.C12
open Fastor.LU Finset

variable {K : Type} [Field K]

/-- `forward_subs(L[, p], B)`, every size, every number of columns: L unit lower triangular ⇒ `L * X = B∘p` -/
theorem forward_subs_correct (n c : Nat) (L B : Mat K) (p : Nat → Nat)
    (hdiag : ∀ i, i < n → L.get i i = 1) (hlz : ∀ i k, i < n → k < n → i < k → L.get i k = 0)
    (i j : Nat) (hi : i < n) (hj : j < c) :
    ∑ k ∈ range n, L.get i k * (forwardSubs n c L B p).get k j = B.get (p i) j := by
  rw [← forwardCol_solves n L B p j hdiag hlz i hi]
  apply sum_congr rfl; intro k hk
  rw [forwardSubs_get _ _ _ _ _ _ _ (mem_range.1 hk) hj]

/-- `backward_subs(U, Y)`, every size, every number of columns: U upper triangular with non-zero diagonal ⇒ `U * X = Y` -/
theorem backward_subs_correct (n c : Nat) (U Y : Mat K)
    (huz : ∀ i k, i < n → k < n → k < i → U.get i k = 0) (hd : ∀ i, i < n → U.get i i ≠ 0)
    (i j : Nat) (hi : i < n) (hj : j < c) :
    ∑ k ∈ range n, U.get i k * (backwardSubs n c U Y).get k j = Y.get i j := by
  rw [← backwardCol_solves n U Y j huz hd i hi]
  apply sum_congr rfl; intro k hk
  rw [backwardSubs_get _ _ _ _ _ _ (mem_range.1 hk) hj]

/-- `get_lu_solve(L, U, p, B)` after ANY correct factorisation `L*U = P*A` with a bijective `p`: `A * X = B`. -/
theorem lu_solve_correct (n c : Nat) (A L U B : Mat K) (perm : Array Nat)
    (h : IsLU n (applyPivotV n A perm) L U) (hd : ∀ i, i < n → U.get i i ≠ 0)
    (hsurj : ∀ v, v < n → ∃ i, i < n ∧ perm.getD i 0 = v)
    (r j : Nat) (hr : r < n) (hj : j < c) :
    ∑ k ∈ range n, A.get r k * (luSolve n c L U B (fun i => perm.getD i 0)).get k j = B.get r j := by
  obtain ⟨i, hi, e⟩ := hsurj r hr
  have := luSolve_solves n c (applyPivotV n A perm) L U B (fun i => perm.getD i 0) h hd i j hi hj
  simp only [e] at this
  rw [← this]
  apply sum_congr rfl; intro k hk
  rw [applyPivotV_get n A perm i k hi (mem_range.1 hk), e]

/-- the LU strategy behind a solve strategy -/
def luStrategyOf : SolveStrategy → Option Strategy
  | .blockLU => some .block
  | .simpleLU => some .simple
  | .blockLUPiv => some .blockPiv
  | .simpleLUPiv => some .simplePiv
  | _ => none

/-- **solve_lu_correct** — `solve<SolveCompType::{Block,Simple}LU[Piv]>(A, B)`: EVERY size n, EVERY number of columns c (the
`Tensor<T,M>` overload is c = 1), every A on which the LU strategy is defined (C11) and whose `U` has a non-zero diagonal
(A invertible): `A * X = B`. -/
theorem solve_lu_correct (ops : InvOps K) (hops : InvSpec ops) (inv : Nat → Mat K → Mat K) (gt : K → K → Bool)
    (ss : SolveStrategy) (s : Strategy) (hs : luStrategyOf ss = some s)
    (n c : Nat) (A B : Mat K) (hdef : Fastor.LU.LUDefined ops gt s n A)
    (hd : ∀ i, i < n → (luPublicV ops gt s n A).U.get i i ≠ 0)
    (r j : Nat) (hr : r < n) (hj : j < c) :
    ∑ k ∈ range n, A.get r k * (solve ops inv gt ss n c A B).get k j = B.get r j := by
  have pb := pivotPerm_bijection gt n A
  cases ss with
  | simpleInv => simp [luStrategyOf] at hs
  | simpleInvPiv => simp [luStrategyOf] at hs
  | blockLU =>
    have e : s = .block := by simpa [luStrategyOf] using hs.symm
    subst e
    have h := Fastor.C11.lu_core_correct ops hops true n A (by simpa [Fastor.LU.LUDefined, Fastor.LU.blocked, Strategy.pivoted] using hdef)
    simp only [solve]
    exact luSolve_solves n c A _ _ B id h hd r j hr hj
  | simpleLU =>
    have e : s = .simple := by simpa [luStrategyOf] using hs.symm
    subst e
    have h := Fastor.C11.lu_core_correct ops hops false n A (by simpa [Fastor.LU.LUDefined, Fastor.LU.blocked, Strategy.pivoted] using hdef)
    simp only [solve]
    exact luSolve_solves n c A _ _ B id h hd r j hr hj
  | blockLUPiv =>
    have e : s = .blockPiv := by simpa [luStrategyOf] using hs.symm
    subst e
    have h := Fastor.C11.lu_core_correct ops hops true n (applyPivotV n A (pivotPerm gt n A))
      (by simpa [Fastor.LU.LUDefined, Fastor.LU.blocked, Strategy.pivoted] using hdef)
    simp only [solve]
    exact lu_solve_correct n c A _ _ B (pivotPerm gt n A) h hd pb.2.2.2 r j hr hj
  | simpleLUPiv =>
    have e : s = .simplePiv := by simpa [luStrategyOf] using hs.symm
    subst e
    have h := Fastor.C11.lu_core_correct ops hops false n (applyPivotV n A (pivotPerm gt n A))
      (by simpa [Fastor.LU.LUDefined, Fastor.LU.blocked, Strategy.pivoted] using hdef)
    simp only [solve]
    exact lu_solve_correct n c A _ _ B (pivotPerm gt n A) h hd pb.2.2.2 r j hr hj

/-- `solve<SolveCompType::SimpleInv>(A, B) = matmul(inverse(A), B)`: if `inverse` returns a right inverse (C10) then `A * X = B` -/
theorem solve_inv_correct (ops : InvOps K) (inv : Nat → Mat K → Mat K) (gt : K → K → Bool) (n c : Nat) (A B : Mat K)
    (hinv : ∀ i m, i < n → m < n → ∑ k ∈ range n, A.get i k * (inv n A).get k m = if i = m then 1 else 0)
    (r j : Nat) (hr : r < n) (hj : j < c) :
    ∑ k ∈ range n, A.get r k * (solve ops inv gt .simpleInv n c A B).get k j = B.get r j := by
  simp only [solve]
  have e1 : ∀ k ∈ range n, A.get r k * (Mat.mul n n c (inv n A) B).get k j =
      A.get r k * ∑ m ∈ range n, (inv n A).get k m * B.get m j := by
    intro k hk; rw [get_mul _ _ _ _ _ _ _ (mem_range.1 hk) hj]
  rw [sum_congr rfl e1, sum_assoc_left]
  have e2 : ∀ m ∈ range n, (∑ k ∈ range n, A.get r k * (inv n A).get k m) * B.get m j = if r = m then B.get m j else 0 := by
    intro m hm; rw [hinv r m hr (mem_range.1 hm)]; split <;> simp
  rw [sum_congr rfl e2, sum_ite_eq]; simp [hr]

/-- `solve<SolveCompType::SimpleInvPiv>(A, B)` — vector and matrix right-hand sides alike —
`= matmul(reconstruct_colwise(inverse(P*A), p), B)`: if `inverse` returns a right inverse of `P*A` (C10) then `A * X = B`, every size,
every number of columns.  (With the row scatter `reconstruct` that the matrix overload used before the repair, this is false.) -/
theorem solve_invPiv_correct (ops : InvOps K) (inv : Nat → Mat K → Mat K) (gt : K → K → Bool) (n c : Nat) (A B : Mat K)
    (hinv : ∀ i m, i < n → m < n →
      ∑ k ∈ range n, (applyPivotV n A (pivotPerm gt n A)).get i k * (inv n (applyPivotV n A (pivotPerm gt n A))).get k m
        = if i = m then 1 else 0)
    (r j : Nat) (hr : r < n) (hj : j < c) :
    ∑ k ∈ range n, A.get r k * (solve ops inv gt .simpleInvPiv n c A B).get k j = B.get r j := by
  have pb := pivotPerm_bijection gt n A
  simp only [solve]
  exact solve_invPiv_solves n c A B _ _ pb.2.1 pb.2.2.1 pb.2.2.2 hinv r j hr hj

/-! ### non-vacuity -/
example : ∀ i, i < 9 → (luPublicV (execOps : InvOps ℚ) Fastor.C11.exGt .block 9 Fastor.C11.exA).U.get i i ≠ 0 := by decide +kernel
example : ∀ i, i < 9 → (luPublicV (execOps : InvOps ℚ) Fastor.C11.exGt .blockPiv 9 Fastor.C11.exB).U.get i i ≠ 0 := by decide +kernel

end Fastor.C12
