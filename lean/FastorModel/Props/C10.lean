import FastorModel.Proofs.InverseRec
/-!
# C10 — `inverse(A)` times `A` is the identity, for every size and every computation type

Statement (properties.jsonl): for every square size and each of the six inversion strategies, the returned `X`
satisfies `‖A·X − I‖`, `‖X·A − I‖` below a bound proportional to `n·eps·cond(A)` for every non-singular `A` on which
the chosen strategy is defined; triangular inversion and the batched inverse obey the same bound per matrix.

What is proved here is the exact-arithmetic content: over ANY field, for EVERY size, the algorithm of
`Model/Inverse.lean` (a transcription of `inverse_dispatcher` & co: closed forms, size-class dispatch, split
points, Schur-complement recombination, pivot application and column-wise reconstruction) returns a two-sided
inverse whenever every value it divides by is non-zero (`InvDefined`).  The floating-point bound itself is not
provable by this technique; it is measured by the check (`harness/inverse_real.h`).
-/
namespace Fastor.C10
open Fastor.Inv Matrix

variable {K : Type} [Field K]

/-- closed forms `_inverse<T,n>`, `n = 1..4` (generic scalar code of backend/inverse.h): two-sided inverse whenever
    the determinant expression the code divides by is non-zero -/
theorem closed_form_correct (n : Nat) (h1 : 1 ≤ n) (h4 : n ≤ 4) (A : Mat K) (h : leafDet n (flat n A) ≠ 0) :
    toMat n n (leafInv n A) * toMat n n A = 1 ∧ toMat n n A * toMat n n (leafInv n A) = 1 := by
  have hl := leaf_left n h1 h4 A h
  exact ⟨hl, mul_eq_one_comm.mp hl⟩

example : leafDet 2 (flat 2 ({ get := fun i j => if i = j then (2 : ℚ) else 1 } : Mat ℚ)) ≠ 0 := by
  norm_num [leafDet, flat]

/-- **inverse_correct** — `inverse<InvCompType::SimpleInv>(A)` (`internal::inverse_dispatcher`): for EVERY size
    `M ≥ 1` (the code accepts `1..256`; the model uses the last split formula beyond) and every `A` on which the
    recursion is defined, `X·A = 1 ∧ A·X = 1`.  Strong induction on `M`; the step is the Schur-complement block
    identity `block_left_inv` for arbitrary block sizes with the split point `splitPoint M` of the size class. -/
theorem inverse_correct (M : Nat) (hM : 0 < M) (A : Mat K) (hdef : InvDefined M A) :
    toMat M M (inverseSimple M A) * toMat M M A = 1 ∧ toMat M M A * toMat M M (inverseSimple M A) = 1 := by
  have hl : toMat M M (inverseSimple M A) * toMat M M A = 1 := by
    unfold inverseSimple
    simp only [memo_eq]
    exact inv_left M hM A hdef
  exact ⟨hl, mul_eq_one_comm.mp hl⟩

/-- the sizes with a dispatcher overload are covered -/
theorem inverse_correct_accepted (M : Nat) (hM : accepted M = true) (A : Mat K) (hdef : InvDefined M A) :
    toMat M M (inverseSimple M A) * toMat M M A = 1 ∧ toMat M M A * toMat M M (inverseSimple M A) = 1 := by
  have : 0 < M := by simp [accepted] at hM; omega
  exact inverse_correct M this A hdef

end Fastor.C10
