import FastorModel.Proofs.InverseRec
import FastorModel.Proofs.InverseTri
import FastorModel.Proofs.InversePiv
import FastorModel.Proofs.InverseSse
import FastorModel.Proofs.InverseLU
import FastorModel.Proofs.InverseLUBridge
import Mathlib.LinearAlgebra.Matrix.Determinant.Basic
/-!
# C10 — `inverse(A)` times `A` is the identity, for every size and every computation type

Statement (properties.jsonl): for every square size and each of the six inversion strategies, the returned `X`
satisfies `‖A·X − I‖`, `‖X·A − I‖` below a bound proportional to `n·eps·cond(A)` for every non-singular `A` on which
the chosen strategy is defined; triangular inversion and the batched inverse obey the same bound per matrix.

What is proved here is the exact-arithmetic content: over ANY field, for EVERY size, the algorithm of
`Model/Inverse.lean` (a transcription of `inverse_dispatcher` & co: closed forms, size-class dispatch, split
points, Schur-complement recombination, pivot application and column-wise reconstruction) returns a two-sided
inverse whenever every value it divides by is non-zero (`InvDefined`).  The floating-point bound itself is not
provable by this technique; it is measured by the check (`harness/inverse_real.h`).
-/
namespace Fastor.C10
open Fastor.Inv Matrix

variable {K : Type} [Field K]

/-- closed forms `_inverse<T,n>`, `n = 1..4` (generic scalar code of backend/inverse.h): two-sided inverse whenever
    the determinant expression the code divides by is non-zero -/
theorem closed_form_correct (n : Nat) (h1 : 1 ≤ n) (h4 : n ≤ 4) (A : Mat K) (h : leafDet n (flat n A) ≠ 0) :
    toMat n n (leafInv n A) * toMat n n A = 1 ∧ toMat n n A * toMat n n (leafInv n A) = 1 := by
  have hl := leaf_left n h1 h4 A h
  exact ⟨hl, mul_eq_one_comm.mp hl⟩

example : leafDet 2 (flat 2 ({ get := fun i j => if i = j then (2 : ℚ) else 1 } : Mat ℚ)) ≠ 0 := by
  norm_num [leafDet, flat]

/-- **inverse_correct** — `inverse<InvCompType::SimpleInv>(A)` (`internal::inverse_dispatcher`): for EVERY size
    `M ≥ 1` (the code accepts `1..256`; the model uses the last split formula beyond) and every `A` on which the
    recursion is defined, `X·A = 1 ∧ A·X = 1`.  Strong induction on `M`; the step is the Schur-complement block
    identity `block_left_inv` for arbitrary block sizes with the split point `splitPoint M` of the size class. -/
theorem inverse_correct (M : Nat) (hM : 0 < M) (A : Mat K) (hdef : InvDefined M A) :
    toMat M M (inverseSimple M A) * toMat M M A = 1 ∧ toMat M M A * toMat M M (inverseSimple M A) = 1 := by
  have hl : toMat M M (inverseSimple M A) * toMat M M A = 1 := by
    unfold inverseSimple
    simp only [memo_eq]
    exact inv_left M hM A hdef
  exact ⟨hl, mul_eq_one_comm.mp hl⟩

/-- the sizes with a dispatcher overload are covered -/
theorem inverse_correct_accepted (M : Nat) (hM : accepted M = true) (A : Mat K) (hdef : InvDefined M A) :
    toMat M M (inverseSimple M A) * toMat M M A = 1 ∧ toMat M M A * toMat M M (inverseSimple M A) = 1 := by
  have : 0 < M := by simp [accepted] at hM; omega
  exact inverse_correct M this A hdef


example : InvDefined 2 ({ get := fun i j => if i = j then (2 : ℚ) else 1 } : Mat ℚ) := by
  intro x hx
  rw [invDivs, dif_pos (by omega)] at hx
  simp only [List.mem_singleton] at hx
  subst hx
  norm_num [leafDet, flat]

/-- **ut_inverse_correct** — `tinverse<SimpleInv,UpLoType::Upper>` (`ut_inverse_dispatcher`, all size classes, `matmul`
    below 33 and `tmatmul` above): for every size and every exactly upper triangular `A` whose leaf blocks have
    non-zero determinant, `X·A = 1 ∧ A·X = 1`, and `X` is again exactly upper triangular (which is what makes the
    `tmatmul<General,Upper>` / `tmatmul<Upper,General>` calls of the larger classes legitimate). -/
theorem ut_inverse_correct (M : Nat) (hM : 0 < M) (A : Mat K) (hA : UpperTri M A) (hdef : UtDefined M A) :
    toMat M M (tinverseUpper M A) * toMat M M A = 1 ∧ toMat M M A * toMat M M (tinverseUpper M A) = 1
      ∧ UpperTri M (tinverseUpper M A) := by
  unfold tinverseUpper
  simp only [memo_eq]
  obtain ⟨hl, hu⟩ := ut_left M hM A hA hdef
  exact ⟨hl, mul_eq_one_comm.mp hl, hu⟩

example : UpperTri 3 ({ get := fun i j => if j < i then (0 : ℚ) else 2 } : Mat ℚ) := by
  intro i _ j _ h; simp [h]

/-- **lut_inverse_correct** — `tinverse<SimpleInv,UpLoType::UniLower>` (`lut_inverse_dispatcher` on top of
    `_lowunitri_inverse<T,1..4>`): for every size and every exactly unit lower triangular `A`, `X·A = 1 ∧ A·X = 1`
    and `X` has exact zeros above the diagonal.  (No division is performed: always defined.) -/
theorem lut_inverse_correct (M : Nat) (hM : 0 < M) (A : Mat K) (hA : UnitLower M A) :
    toMat M M (tinverseUniLower M A) * toMat M M A = 1 ∧ toMat M M A * toMat M M (tinverseUniLower M A) = 1
      ∧ LowerZ M (tinverseUniLower M A) := by
  unfold tinverseUniLower
  simp only [memo_eq]
  obtain ⟨hl, hz⟩ := lut_left M hM A hA
  exact ⟨hl, mul_eq_one_comm.mp hl, hz⟩

example : UnitLower 4 ({ get := fun i j => if i < j then (0 : ℚ) else if i = j then 1 else 3 } : Mat ℚ) := by
  refine ⟨fun i _ j _ h => by simp [h], fun i _ => by simp⟩

/-- **pivot_perm** — the vector filled by the swap loop of `pivot_inplace` is a permutation of `0..M-1` for every
    input matrix and every comparison -/
theorem pivot_perm {α : Type} (gt : α → α → Bool) (M : Nat) (A : Mat α) : IsPermOn M (pivotVec gt M A).get :=
  pivotVec_perm gt M A

/-- **inverse_piv_correct** — `inverse<InvCompType::SimpleInvPiv>`: `pivot_inplace`, `apply_pivot`,
    `inverse_dispatcher` on the row-pre-pivoted matrix, `reconstruct_colwise`: for every size, every comparison used
    by the pivot search and every `A` such that the recursion is defined on the row-pre-pivoted matrix,
    `X·A = 1 ∧ A·X = 1`. -/
theorem inverse_piv_correct (gt : K → K → Bool) (M : Nat) (hM : 0 < M) (A : Mat K)
    (hdef : InvDefined M (applyPivot A (pivotVec gt M A))) :
    toMat M M (inverseSimplePiv gt M A) * toMat M M A = 1 ∧ toMat M M A * toMat M M (inverseSimplePiv gt M A) = 1 := by
  have hl : toMat M M (inverseSimplePiv gt M A) * toMat M M A = 1 := by
    unfold inverseSimplePiv
    simp only [memo_eq]
    exact reconstruct_left M A _ _ (pivotVec_perm gt M A) (inv_left M hM _ hdef)
  exact ⟨hl, mul_eq_one_comm.mp hl⟩

/-- the permutation of the example below exchanges rows 0 and 1 (the matrix has a zero in position (0,0): the
    unpivoted recursion is undefined on it, the pivoted one is defined) -/
example : InvDefined 2 (applyPivot ({ get := fun i j => if i = j then (0 : ℚ) else 1 } : Mat ℚ)
    { get := fun k => if k = 0 then 1 else if k = 1 then 0 else k }) := by
  intro x hx
  rw [invDivs, dif_pos (by omega)] at hx
  simp only [List.mem_singleton] at hx
  subst hx
  norm_num [leafDet, flat, applyPivot]

/-- **batched_inverse_correct** — `inverse(const Tensor<T,Rest...,J,J>&)` (rank ≥ 3, `J ≤ 4`): slice `b` of the
    result is a two-sided inverse of slice `b` of the operand whenever its determinant expression is non-zero -/
theorem batched_inverse_correct (J : Nat) (h1 : 1 ≤ J) (h4 : J ≤ 4) (a : Nat → K) (b : Nat)
    (hdet : leafDet J (fun q => a (b * (J * J) + q)) ≠ 0) :
    toMat J J (unflat J (fun q => (batchedInverse J a) (b * (J * J) + q)))
      * toMat J J (unflat J (fun q => a (b * (J * J) + q))) = 1 := by
  have hfl : flat J (unflat J (fun q => a (b * (J * J) + q))) = fun q => a (b * (J * J) + q) := by
    funext k
    show a (b * (J * J) + (k / J * J + k % J)) = a (b * (J * J) + k)
    rw [Nat.div_add_mod' k J]
  have hl := leaf_left J h1 h4 (unflat J (fun q => a (b * (J * J) + q))) (by rw [hfl]; exact hdet)
  rw [← hl]
  congr 1
  apply toMat_congr
  intro i hi j hj
  have hq : i * J + j < J * J := by
    calc i * J + j < i * J + J := by omega
      _ = (i + 1) * J := by ring
      _ ≤ J * J := Nat.mul_le_mul_right J (by omega)
  have hJJ : 0 < J * J := Nat.mul_pos (by omega) (by omega)
  have e1 : (b * (J * J) + (i * J + j)) / (J * J) = b := by
    rw [Nat.mul_comm b, Nat.mul_add_div hJJ, Nat.div_eq_of_lt hq]; simp
  have e2 : (b * (J * J) + (i * J + j)) % (J * J) = i * J + j := by
    rw [Nat.mul_comm b, Nat.mul_add_mod, Nat.mod_eq_of_lt hq]
  show leafFlat J (fun q => a ((b * (J * J) + (i * J + j)) / (J * J) * (J * J) + q))
        ((b * (J * J) + (i * J + j)) % (J * J))
      = leafFlat J (flat J (unflat J (fun q => a (b * (J * J) + q)))) (i * J + j)
  rw [e1, e2, hfl]


/-- **sse_leaf_kernels_correct** — the SSE intrinsic leaf kernels `_inverse<float,4>`, `_inverse<double,4>`,
    `_inverse<float,2>`, `_inverse<double,2>` (hand models `Sse.inv4f`, `Sse.inv4d`, `Sse.inv2f`, `Sse.inv2d` of Model/InverseSse.lean: registers as lane
    tuples, every shuffle immediate / `movelh` / `movehl` / `_ss` form / sign mask as in the source; the floating point
    operations read as field operations) return, on every matrix with non-zero determinant, exactly the matrix of the
    scalar closed form — the inverse. -/
theorem sse_leaf_kernels_correct (A : Mat K) :
    (leafDet 4 (flat 4 A) ≠ 0 →
      toMat 4 4 (unflat 4 (Sse.inv4f (flat 4 A))) = toMat 4 4 (leafInv 4 A)
      ∧ toMat 4 4 (unflat 4 (Sse.inv4d (flat 4 A))) = toMat 4 4 (leafInv 4 A)
      ∧ toMat 4 4 (unflat 4 (Sse.inv4f (flat 4 A))) * toMat 4 4 A = 1
      ∧ toMat 4 4 (unflat 4 (Sse.inv4d (flat 4 A))) * toMat 4 4 A = 1) ∧
    (leafDet 2 (flat 2 A) ≠ 0 →
      toMat 2 2 (unflat 2 (Sse.inv2f (flat 2 A))) = toMat 2 2 (leafInv 2 A)
      ∧ toMat 2 2 (unflat 2 (Sse.inv2d (flat 2 A))) = toMat 2 2 (leafInv 2 A)
      ∧ toMat 2 2 (unflat 2 (Sse.inv2f (flat 2 A))) * toMat 2 2 A = 1
      ∧ toMat 2 2 (unflat 2 (Sse.inv2d (flat 2 A))) * toMat 2 2 A = 1) := by
  refine ⟨fun h => ?_, fun h => ?_⟩
  · have h1 := leaf_of_flat 4 A Sse.inv4f (Sse.inv4f_flat _ h)
    have h2 := leaf_of_flat 4 A Sse.inv4d (Sse.inv4d_flat _ h)
    have h0 := leaf_left 4 (by omega) (by omega) A h
    exact ⟨Sse.left_inv_unique _ _ _ h1 h0, Sse.left_inv_unique _ _ _ h2 h0, h1, h2⟩
  · have h1 := leaf_of_flat 2 A Sse.inv2f (Sse.inv2f_flat _ h)
    have h2 := leaf_of_flat 2 A Sse.inv2d (Sse.inv2d_flat _ h)
    have h0 := leaf_left 2 (by omega) (by omega) A h
    exact ⟨Sse.left_inv_unique _ _ _ h1 h0, Sse.left_inv_unique _ _ _ h2 h0, h1, h2⟩


/-- **inverse_lu_correct** — the LU based strategies (`inverse<SimpleLU|BlockLU|SimpleLUPiv|BlockLUPiv>`), relative to
    the LU postcondition (property C11): for ANY `L`, `U` — whichever of `_lufact`, `lu_simple_dispatcher`,
    `recursive_lu_dispatcher`, `lu_block_dispatcher` produced them — such that (strict lower triangle of `L` with unit
    diagonal)·(upper triangle of `U`) = `apply_pivot(A,p)`, `p` a permutation (`pivot_perm`; the identity for the
    unpivoted strategies) and `U(i,i) ≠ 0`, the matrix returned by `get_lu_inverse(L,U,p)`
    (`forward_subs` then `backward_subs`, transcribed with their `_inner` sums and the reversed fill order) satisfies
    `X·A = 1 ∧ A·X = 1`, for every size.  Only the entries of `L`, `U` that the substitutions read are constrained
    (the public `inverse<SimpleLU>` passes uninitialised `L`, `U` tensors to `lu`). -/
theorem inverse_lu_correct (M : Nat) (A L U : Mat K) (p : Vec Nat) (hp : IsPermOn M p.get)
    (hU : ∀ i < M, U i i ≠ 0)
    (hLU : toMat M M (unitLowerPart L) * toMat M M (triu U) = toMat M M (applyPivot A p)) :
    toMat M M (getLuInverse M L U p) * toMat M M A = 1 ∧ toMat M M A * toMat M M (getLuInverse M L U p) = 1 :=
  getLuInverse_correct M A L U p hp hU hLU

/-- the hypotheses are met, e.g., by `L = [[1,0],[2,1]]`, `U = [[1,3],[0,1]]`, `A = L·U`, `p = id` -/
example : toMat 2 2 (unitLowerPart ({ get := fun i j => if i = 1 ∧ j = 0 then (2 : ℚ) else if i = j then 1 else 0 } : Mat ℚ))
      * toMat 2 2 (triu ({ get := fun i j => if i = 0 ∧ j = 1 then (3 : ℚ) else if i = j then 1 else 0 } : Mat ℚ))
    = toMat 2 2 (applyPivot ({ get := fun i j => if i = 0 then (if j = 0 then (1 : ℚ) else 3) else (if j = 0 then 2 else 7) } : Mat ℚ)
        { get := id }) := by
  ext i j
  fin_cases i <;> fin_cases j <;> simp [Matrix.mul_apply, Fin.sum_univ_succ, unitLowerPart, triu, applyPivot] <;> norm_num

/-- **inverse_lu_strategies_correct** — the four LU based strategies end to end, `hLU` discharged by the C11 export
    `Fastor.LU.lu_post_exec`: for EVERY strategy `s ∈ {BlockLU, SimpleLU, BlockLUPiv, SimpleLUPiv}`, every size `n` and every
    `A` on which the strategy's factorisation kernel is defined (`LUDefined`: non-zero pivots as met by `_lufact<T,1..8>`, the
    Doolittle loops, the recursive and the blocked dispatchers, on the row-pre-pivoted matrix for the pivoted forms) and whose `U`
    has no zero on the diagonal (the divisors of `backward_subs`; the same side condition as C12's solve theorems),
    `X = get_lu_inverse(L, U, p)` with `(L,U,p) = lu<LUCompType::s>(A)` satisfies `X·A = 1 ∧ A·X = 1`. -/
theorem inverse_lu_strategies_correct (gt : K → K → Bool) (s : Fastor.LU.Strategy) (n : Nat) (A : Mat K)
    (hdef : Fastor.LU.LUDefined (Fastor.LU.execOps : Fastor.LU.InvOps K) gt s n (toLU n A))
    (hd : ∀ i, i < n → Fastor.LU.Mat.get (Fastor.LU.luPublicV Fastor.LU.execOps gt s n (toLU n A)).U i i ≠ 0) :
    let r := Fastor.LU.luPublicV (Fastor.LU.execOps : Fastor.LU.InvOps K) gt s n (toLU n A)
    let X := getLuInverse n (ofLU r.L) (ofLU r.U) (ofPerm r.perm)
    toMat n n X * toMat n n A = 1 ∧ toMat n n A * toMat n n X = 1 :=
  getLuInverse_of_LUPost n A _ _ _ (Fastor.LU.lu_post_exec gt s n (toLU n A) hdef) hd

/-- **det_closed_form** — the determinant expression the closed forms divide by (`det` of `_inverse<T,n>`, the same
    cofactor expansions `_det<T,n,n>` of backend/determinant.h uses) is the Leibniz determinant, `n ≤ 4` -/
theorem det_closed_form (A : Mat K) :
    leafDet 1 (flat 1 A) = (toMat 1 1 A).det ∧ leafDet 2 (flat 2 A) = (toMat 2 2 A).det
      ∧ leafDet 3 (flat 3 A) = (toMat 3 3 A).det ∧ leafDet 4 (flat 4 A) = (toMat 4 4 A).det := by
  refine ⟨?_, ?_, ?_, ?_⟩
  · simp [leafDet, flat, Matrix.det_fin_one]
  · simp [leafDet, flat, Matrix.det_fin_two]; ring
  · simp [leafDet, flat, Matrix.det_fin_three]; ring
  · rw [Matrix.det_succ_row_zero]
    simp [Fin.sum_univ_succ, Matrix.det_fin_three, Matrix.submatrix_apply, Fin.succAbove, leafDet, flat]
    ring

end Fastor.C10
