import FastorModel.Model.Footprint
import FastorModel.Model.Kern3
import FastorModel.Proofs.FootprintInside
import FastorModel.Props.C01
import FastorModel.Props.C02
import FastorModel.Props.C03
import FastorModel.Props.C05
import FastorModel.Props.C06
import FastorModel.Props.C14
import FastorModel.Props.C04
import FastorModel.Props.C16
import FastorModel.Props.C19
import FastorModel.Props.C20
import FastorModel.Model.Inverse
import FastorModel.Props.C17
/-
# C07 — No operation touches memory outside its operands, for any shape or alignment

Property (properties.jsonl): every library operation reads only bytes belonging to its input tensors and writes
only bytes belonging to its output, for every shape (in particular sizes that are not multiples of the vector
width), and performs alignment-requiring accesses only on storage the library itself aligned.  Wrapping an
arbitrary, possibly unaligned external buffer and operating on it never faults and never reads or writes beyond the
wrapped extent; with runtime checks enabled an out-of-range index raises an error instead of accessing memory.  No
tensor operation that completes normally (other than conversion to std::vector and text output) allocates.

What is a theorem here and what is not.
* (a) **Footprints of the kernel models**: for the models of `_matmul`, `_tmatmul`, expression assignment and
  einsum (the ones tied to the code by the trace correspondences of C01 / C17 / C02 / C03: same store order, same
  read-set digests), every write offset is `< M*N` / `< n` (`*_writes_in_result`) and every operand offset read is
  inside the operand (`matmul_reads_in_operands`, `tmatmul_reads_in_operands`,
  `assign_reads_in_operands`, `einsum_reads_in_operands`) — for matmul / tmatmul this covers EVERY store event, final or
  intermediate (`matmul_reads_in_operands`, `matmul_read_sets_in_operands`: the sets whose digests the driver prints).
* (b) **Partial load / store helpers** (`Footprint.load3`, `store3`, `maskLoop`, `maskAvx`, `arrayToMask`,
  `memberMask`, `remainderMask`): exactly the enabled lanes are touched, in every `#if` branch; the two mask idioms
  agree; the remainder mask of the kernels enables exactly the first `N - N1` lanes, so a masked access at column
  `N1` of any row stays inside the row.  The non-AVX-512 fallbacks of the member `mask_load` / `mask_store` touch exactly the enabled lanes as well
  (`member_mask_fallback_lanes`; before the repair of the zeroing `mask_store` this was false — history in the design doc).
* (c) **Aligned flag**: an access carries the aligned flag only when `is_aligned()` is true, which only owning
  `Tensor` storage of a SIMD element type reports (never `TensorMap`, never a view, never with
  `FASTOR_DONT_ALIGN` / `FASTOR_DONT_VECTORISE`), at an element offset that is a multiple of the width `V`, which in
  bytes divides `FASTOR_MEMORY_ALIGNMENT_VALUE` (C06.vsize_dvd_alignment) — so the address is a multiple of the
  vector size (`aligned_access_address`).
* (d) **Bounds checks**: `flatIndex true` returns the error branch whenever some index is out of range after the
  negative wrap, and otherwise an offset inside the extent (`bounds_check_sound`, `bounds_check_complete`).
* NOT theorems — observed by K7 of `./check C07` (guard pages at every misalignment, canaries, allocation counter,
  sanitizer builds): "never faults", "never allocates", and the footprints of the float/double intrinsic
  specialisations (2x2…8x8 matmul, 3x3 transpose, norm, determinant, inverse …), which have no Lean model.
-/
namespace Fastor.C07
open Fastor Fastor.Footprint

/-! ## (b) partial load / store helpers -/

/-- every `#if` branch of the 3-lane loads touches exactly lanes 0, 1, 2 -/
theorem load3_eq (b : Branch) : load3 b = [0, 1, 2] := by cases b <;> decide
theorem store3_eq (b : Branch) : store3 b = [0, 1, 2] := by cases b <;> decide

theorem load3_lanes (b : Branch) (l : Nat) : l ∈ load3 b ↔ l < 3 := by
  rw [load3_eq]; simp only [List.mem_cons, List.mem_nil_iff, or_false]; omega

theorem store3_lanes (b : Branch) (l : Nat) : l ∈ store3 b ↔ l < 3 := by
  rw [store3_eq]; simp only [List.mem_cons, List.mem_nil_iff, or_false]; omega

/-- the scalar fallback of `maskload` / `maskstore`: lane `l` is touched iff `maska[V-1-l] == -1` -/
theorem maskLoop_mem (V : Nat) (m : List Int) (l : Nat) :
    l ∈ maskLoop V m ↔ l < V ∧ m.getD (V - 1 - l) 0 = -1 := by
  unfold maskLoop
  simp only [List.mem_filterMap, List.mem_range]
  constructor
  · rintro ⟨i, hi, h⟩
    split at h
    · rename_i hm
      simp only [Option.some.injEq] at h
      subst h
      refine ⟨by omega, ?_⟩
      have : V - 1 - (V - i - 1) = i := by omega
      rw [this]; exact hm
    · simp at h
  · rintro ⟨hl, hm⟩
    refine ⟨V - 1 - l, by omega, ?_⟩
    rw [if_pos hm]
    simp only [Option.some.injEq]; omega

/-- the AVX intrinsic specialisations touch lane `l` iff the sign bit of `maska[V-1-l]` is set -/
theorem maskAvx_mem (V : Nat) (m : List Int) (hlen : m.length = V) (l : Nat) :
    l ∈ maskAvx V m ↔ l < V ∧ m.getD (V - 1 - l) 0 < 0 := by
  unfold maskAvx avxMaskLanes setLane
  simp only [List.mem_filter, List.mem_range, decide_eq_true_eq, hlen]

/-- for mask arrays holding only `0` and `-1` (all the kernels build) the loop and the intrinsics agree -/
theorem maskAvx_eq_maskLoop (V : Nat) (m : List Int) (hlen : m.length = V)
    (h01 : ∀ i, m.getD i 0 = 0 ∨ m.getD i 0 = -1) (l : Nat) :
    l ∈ maskAvx V m ↔ l ∈ maskLoop V m := by
  rw [maskAvx_mem V m hlen, maskLoop_mem]
  constructor
  · rintro ⟨h1, h2⟩; refine ⟨h1, ?_⟩; rcases h01 (V - 1 - l) with h | h <;> omega
  · rintro ⟨h1, h2⟩; exact ⟨h1, by omega⟩

/-- AVX-512 member `mask_load` / `mask_store`: lane `l` iff bit `l` -/
theorem memberMask_mem (V mask l : Nat) : l ∈ memberMask V mask ↔ l < V ∧ mask.testBit l = true := by
  simp [memberMask, kmaskLanes]

/-- `mask_to_array` followed by the reversed loop: lane `l` iff bit `l` — the non-AVX-512 fallbacks of the member
    `mask_load` and (since the repair that removed the zeroing of disabled lanes) `mask_store` touch exactly the
    enabled lanes, like the AVX-512 branch -/
theorem member_mask_fallback_lanes (V mask l : Nat) :
    (l ∈ memberMaskLoadFallback V mask ↔ l < V ∧ mask.testBit l = true) ∧
    (l ∈ memberMaskStoreFallback V mask ↔ l < V ∧ mask.testBit l = true) := by
  have key : l ∈ maskLoop V (maskToArray V mask) ↔ l < V ∧ mask.testBit l = true := by
    rw [maskLoop_mem]
    constructor
    · rintro ⟨hl, h⟩
      refine ⟨hl, ?_⟩
      have hlt : V - 1 - l < V := by omega
      unfold maskToArray at h
      rw [List.getD_eq_getElem?_getD, List.getElem?_map, List.getElem?_range hlt] at h
      simp only [Option.map_some, Option.getD_some] at h
      have e : V - (V - 1 - l) - 1 = l := by omega
      rw [e] at h
      by_cases hb : mask.testBit l = true
      · exact hb
      · rw [if_neg hb] at h; omega
    · rintro ⟨hl, hb⟩
      refine ⟨hl, ?_⟩
      have hlt : V - 1 - l < V := by omega
      unfold maskToArray
      rw [List.getD_eq_getElem?_getD, List.getElem?_map, List.getElem?_range hlt]
      simp only [Option.map_some, Option.getD_some]
      have e : V - (V - 1 - l) - 1 = l := by omega
      rw [e, if_pos hb]
  exact ⟨key, key⟩

/-- both fallbacks agree with the AVX-512 member functions -/
theorem member_mask_fallback_eq_kmask (V mask l : Nat) :
    l ∈ memberMaskStoreFallback V mask ↔ l ∈ memberMask V mask := by
  rw [(member_mask_fallback_lanes V mask l).2, memberMask_mem]

/-- invariant of the `array_to_mask` loop -/
theorem arrayToMask_fold (N : Nat) (b : List Int) (is : List Nat) (c l : Nat) (hl : l < N)
    (his : ∀ i ∈ is, i < N) :
    (is.foldl (fun c i => if b.getD i 0 = -1 then c ||| (1 <<< (N - i - 1)) else c) c).testBit l
      = (c.testBit l || decide (N - 1 - l ∈ is ∧ b.getD (N - 1 - l) 0 = -1)) := by
  induction is generalizing c with
  | nil => simp
  | cons i is ih =>
    simp only [List.foldl_cons]
    rw [ih _ (fun j hj => his j (List.mem_cons_of_mem _ hj))]
    have hi : i < N := his i (List.mem_cons_self ..)
    have hiff : (N - i - 1 = l) ↔ (N - 1 - l = i) := by omega
    by_cases hb : b.getD i 0 = -1
    · rw [if_pos hb, Nat.testBit_or, Nat.one_shiftLeft, Nat.testBit_two_pow]
      by_cases hil : N - 1 - l = i
      · have e1 : decide (N - i - 1 = l) = true := by simp [hiff.2 hil]
        have e2 : decide (N - 1 - l ∈ i :: is ∧ b.getD (N - 1 - l) 0 = -1) = true :=
          decide_eq_true ⟨by rw [hil]; exact List.mem_cons_self .., by rw [hil]; exact hb⟩
        rw [e1, e2]; simp
      · have e1 : decide (N - i - 1 = l) = false := by
          simp only [decide_eq_false_iff_not]; exact fun h => hil (hiff.1 h)
        have e2 : decide (N - 1 - l ∈ i :: is ∧ b.getD (N - 1 - l) 0 = -1)
            = decide (N - 1 - l ∈ is ∧ b.getD (N - 1 - l) 0 = -1) := by
          simp [List.mem_cons, hil]
        rw [e1, e2]; simp
    · rw [if_neg hb]
      by_cases hil : N - 1 - l = i
      · have hb' : ¬ b.getD (N - 1 - l) 0 = -1 := by rw [hil]; exact hb
        have f1 : decide (N - 1 - l ∈ is ∧ b.getD (N - 1 - l) 0 = -1) = false := decide_eq_false (fun h => hb' h.2)
        have f2 : decide (N - 1 - l ∈ i :: is ∧ b.getD (N - 1 - l) 0 = -1) = false := decide_eq_false (fun h => hb' h.2)
        rw [f1, f2]
      · simp [List.mem_cons, hil]

/-- **`array_to_mask` agrees with the reversed array convention**: bit `l` of the k-mask is set iff
    `maska[N-1-l] == -1` -/
theorem arrayToMask_testBit (N : Nat) (b : List Int) (l : Nat) (hl : l < N) :
    (arrayToMask N b).testBit l = decide (b.getD (N - 1 - l) 0 = -1) := by
  unfold arrayToMask
  rw [arrayToMask_fold N b (List.range N) 0 l hl (fun i hi => List.mem_range.1 hi)]
  have : N - 1 - l ∈ List.range N := List.mem_range.2 (by omega)
  simp [this]

/-- the k-mask idiom (AVX-512) and the array idiom touch the same lanes -/
theorem kmask_eq_maskLoop (V : Nat) (m : List Int) (l : Nat) :
    l ∈ memberMask V (arrayToMask V m) ↔ l ∈ maskLoop V m := by
  rw [memberMask_mem, maskLoop_mem]
  constructor
  · rintro ⟨h1, h2⟩
    rw [arrayToMask_testBit V m l h1] at h2
    exact ⟨h1, by simpa using h2⟩
  · rintro ⟨h1, h2⟩
    exact ⟨h1, by rw [arrayToMask_testBit V m l h1]; simpa using h2⟩

/-- the remainder mask of the masked kernels enables exactly the first `w = N - N1` lanes -/
theorem remainderMask_lanes (V w : Nat) (hw : w ≤ V) (l : Nat) :
    l ∈ maskLoop V (remainderMask V w) ↔ l < w := by
  rw [maskLoop_mem]
  unfold remainderMask
  constructor
  · rintro ⟨hl, h⟩
    have hlt : V - 1 - l < V := by omega
    rw [List.getD_eq_getElem?_getD, List.getElem?_map, List.getElem?_range hlt] at h
    simp only [Option.map_some, Option.getD_some] at h
    split at h
    · omega
    · omega
  · intro hl
    have hlt : V - 1 - l < V := by omega
    refine ⟨by omega, ?_⟩
    rw [List.getD_eq_getElem?_getD, List.getElem?_map, List.getElem?_range hlt]
    simp only [Option.map_some, Option.getD_some]
    rw [if_neg (by omega)]

/-- **masked tail stays inside the row**: a masked access at column `N1 = N / V * V` of row `r < M`
    touches offsets `r*N + N1 + l` with `l < N - N1` only — all below `(r+1)*N ≤ M*N` -/
theorem masked_tail_in_extent (M N V r l : Nat) (hr : r < M)
    (hl : l ∈ maskLoop V (remainderMask V (N - N / V * V))) (hV : 0 < V) :
    r * N + N / V * V + l < M * N := by
  have hw : N - N / V * V ≤ V := by
    have := Nat.mod_lt N hV
    have h2 := Nat.div_add_mod N V
    have h3 : N / V * V = V * (N / V) := Nat.mul_comm _ _
    omega
  have h := (remainderMask_lanes V _ hw l).1 hl
  have h1 : (r + 1) * N ≤ M * N := Nat.mul_le_mul_right N hr
  have h2 : N / V * V ≤ N := Nat.div_mul_le_self N V
  rw [Nat.add_mul] at h1
  omega

/-! ## (d) bounds checks -/

/-- "in range after the negative wrap" (Python convention): `0 ≤ i < d` or `-d ≤ i < 0` -/
def InRange (d : Nat) (i : Int) : Prop := (0 ≤ i ∧ i < d) ∨ (i < 0 ∧ 0 ≤ (d : Int) + i)

/-- the position an in-range index denotes -/
def norm (d : Nat) (i : Int) : Nat := if i < 0 then ((d : Int) + i).toNat else i.toNat

/-- the `size_t` arithmetic of `idx < 0 ? M + idx : idx` followed by `i < M` decides exactly `InRange`, and
    yields the normalised position (extents below 2^63, `int` indices) -/
theorem wrapIdx_lt_iff (d : Nat) (i : Int) (hd : d < 2 ^ 63) (hi : -(2 ^ 31 : Int) ≤ i ∧ i < 2 ^ 31) :
    (wrapIdx d i < d ↔ InRange d i) ∧ (InRange d i → wrapIdx d i = norm d i) := by
  unfold wrapIdx InRange norm
  by_cases hneg : i < 0
  · rw [if_pos hneg, if_pos hneg]
    have h64 : (i % (2 ^ 64 : Int)).toNat = (i + 2 ^ 64).toNat := by omega
    rw [h64]
    generalize ht : (i + 2 ^ 64).toNat = t
    have htv : (t : Int) = i + 2 ^ 64 := by omega
    refine ⟨⟨fun h => Or.inr ⟨hneg, ?_⟩, ?_⟩, ?_⟩
    · omega
    · rintro (⟨h1, _⟩ | ⟨_, h2⟩)
      · omega
      · omega
    · rintro (⟨h1, _⟩ | ⟨_, h2⟩)
      · omega
      · omega
  · rw [if_neg hneg, if_neg hneg]
    refine ⟨⟨fun h => Or.inl ⟨by omega, by omega⟩, ?_⟩, fun _ => rfl⟩
    rintro (⟨_, h2⟩ | ⟨h1, _⟩)
    · omega
    · omega

theorem rowMajor_lt (dims is : List Nat) (hlen : is.length = dims.length)
    (h : ∀ k, k < dims.length → is.getD k 0 < dims.getD k 0) :
    rowMajor dims is < dims.foldl (· * ·) 1 ∨ dims = [] := by
  induction dims generalizing is with
  | nil => right; rfl
  | cons d ds ih =>
    left
    cases is with
    | nil => simp at hlen
    | cons i is =>
      simp only [rowMajor]
      have hi : i < d := by simpa using h 0 (by simp)
      have hfold : ∀ (l : List Nat) (a : Nat), l.foldl (· * ·) a = a * l.foldl (· * ·) 1 := by
        intro l; induction l with
        | nil => intro a; simp
        | cons x xs ihx => intro a; simp only [List.foldl_cons]; rw [ihx (a * x), ihx (1 * x)]; simp [Nat.mul_assoc]
      have hrest := ih is (by simpa using hlen) (fun k hk => by simpa using h (k + 1) (by simp; omega))
      simp only [List.foldl_cons, Nat.one_mul]
      rw [hfold ds d]
      have hP : (i + 1) * ds.foldl (· * ·) 1 ≤ d * ds.foldl (· * ·) 1 := Nat.mul_le_mul_right _ hi
      rw [Nat.add_mul] at hP
      rcases hrest with hr | hr
      · omega
      · subst hr; simp only [rowMajor, List.foldl_nil] at hP ⊢
        cases is <;> simp [rowMajor] <;> omega

/-- **bounds check, soundness**: with checks on, if some index is out of range (after the negative wrap) the
    error branch is taken — no offset is produced, so no element is accessed -/
theorem bounds_check_sound (dims : List Nat) (idx : List Int) (hlen : idx.length = dims.length)
    (hd : ∀ k, k < dims.length → dims.getD k 0 < 2 ^ 63)
    (hi : ∀ k, k < dims.length → -(2 ^ 31 : Int) ≤ idx.getD k 0 ∧ idx.getD k 0 < 2 ^ 31)
    (k : Nat) (hk : k < dims.length) (hbad : ¬ InRange (dims.getD k 0) (idx.getD k 0)) :
    flatIndex true dims idx = .err := by
  unfold flatIndex
  simp only [Bool.true_and]
  rw [if_pos]
  simp only [Bool.not_eq_true', List.all_eq_false]
  refine ⟨false, ?_, by simp⟩
  rw [List.mem_iff_getElem]
  have hk1 : k < idx.length := by omega
  refine ⟨k, by simp [List.length_zipWith]; omega, ?_⟩
  simp only [List.getElem_zipWith]
  have hw := (wrapIdx_lt_iff (dims.getD k 0) (idx.getD k 0) (hd k hk) (hi k hk)).1
  have e1 : dims[k] = dims.getD k 0 := by simp [List.getD_eq_getElem?_getD, hk]
  have e2 : idx[k] = idx.getD k 0 := by simp [List.getD_eq_getElem?_getD, hk1]
  rw [e1, e2]
  simp only [decide_eq_false_iff_not]
  exact fun h => hbad (hw.1 h)

/-- **bounds check, completeness + in-extent**: when every index is in range the check passes and the offset is
    the row-major offset of the normalised indices, which lies inside the tensor -/
theorem bounds_check_complete (chk : Bool) (dims : List Nat) (idx : List Int) (hlen : idx.length = dims.length)
    (hne : dims ≠ [])
    (hd : ∀ k, k < dims.length → dims.getD k 0 < 2 ^ 63)
    (hi : ∀ k, k < dims.length → -(2 ^ 31 : Int) ≤ idx.getD k 0 ∧ idx.getD k 0 < 2 ^ 31)
    (hin : ∀ k, k < dims.length → InRange (dims.getD k 0) (idx.getD k 0)) :
    ∃ f, flatIndex chk dims idx = .ok f ∧ f < dims.foldl (· * ·) 1 ∧
      f = rowMajor dims (List.zipWith wrapIdx dims idx) := by
  have hall : ∀ k, k < dims.length → (List.zipWith wrapIdx dims idx).getD k 0 < dims.getD k 0 := by
    intro k hk
    have hk1 : k < idx.length := by omega
    have : (List.zipWith wrapIdx dims idx).getD k 0 = wrapIdx (dims.getD k 0) (idx.getD k 0) := by
      simp [List.getD_eq_getElem?_getD, List.getElem?_zipWith, hk, hk1]
    rw [this]
    exact (wrapIdx_lt_iff _ _ (hd k hk) (hi k hk)).1.2 (hin k hk)
  refine ⟨rowMajor dims (List.zipWith wrapIdx dims idx), ?_, ?_, rfl⟩
  · unfold flatIndex
    rw [if_neg]
    simp only [Bool.and_eq_true, Bool.not_eq_true', not_and, Bool.not_eq_false]
    intro _
    rw [List.all_eq_true]
    intro x hx
    rw [List.mem_iff_getElem] at hx
    obtain ⟨k, hk, rfl⟩ := hx
    simp only [List.length_zipWith] at hk
    have hkd : k < dims.length := by omega
    have hki : k < idx.length := by omega
    simp only [List.getElem_zipWith, id_eq, decide_eq_true_eq]
    have e1 : dims.getD k 0 = dims[k] := by simp [List.getD_eq_getElem?_getD, hkd]
    have e2 : idx.getD k 0 = idx[k] := by simp [List.getD_eq_getElem?_getD, hki]
    have := (wrapIdx_lt_iff _ _ (hd k hkd) (hi k hkd)).1.2 (hin k hkd)
    rw [e1, e2] at this; exact this
  · rcases rowMajor_lt dims _ (by simp [List.length_zipWith]; omega) hall with h | h
    · exact h
    · exact absurd h hne

/-- `get_mem_index` with checks: error iff the flat index is negative or `≥ size()` -/
theorem memIndex_sound (size : Nat) (i : Int) (hi : -(2 ^ 63 : Int) ≤ i ∧ i < 2 ^ 63) (hs : size < 2 ^ 63) :
    (memIndex true size i = .err ↔ (i < 0 ∨ (size : Int) ≤ i)) ∧
    (∀ f, memIndex true size i = .ok f → f < size ∧ (f : Int) = i) := by
  unfold memIndex
  simp only [Bool.true_and]
  by_cases h0 : 0 ≤ i
  · have hu : (i % (2 ^ 64 : Int)).toNat = i.toNat := by omega
    rw [hu]
    by_cases h1 : i.toNat < size
    · simp [h0, h1]; omega
    · simp [h0, h1]; omega
  · simp [h0]; omega

/-- non-vacuity: a 3x4 tensor, index (-1, 3) is in range and denotes offset 11; (-4, 3) is rejected -/
example : flatIndex true [3, 4] [-1, 3] = .ok 11 ∧ flatIndex true [3, 4] [-4, 3] = .err ∧
    flatIndex true [3, 4] [2, 4] = .err := by decide

/-! ## (c) the aligned flag -/

/-- only owning tensors of a SIMD element type, in a build that aligns and vectorises, report `is_aligned()` -/
theorem isAligned_only_owned (b : Build) (simd : Bool) (st : Storage) (h : isAligned b simd st = true) :
    st = .tensor ∧ b.dontAlign = false ∧ b.dontVectorise = false ∧ simd = true := by
  cases st <;> simp [isAligned] at h ⊢
  exact ⟨h.1.1, h.1.2, h.2⟩

/-- `TensorMap` (wrapped external buffers) and views never carry the flag -/
theorem isAligned_map_false (b : Build) (simd : Bool) :
    isAligned b simd .tensorMap = false ∧ isAligned b simd .view = false ∧ isAligned b simd .fixedView = false ∧
    isAligned b simd .filterView = false := by simp [isAligned]

/-- **aligned accesses only on owning storage, at multiples of the width, inside the extent** — the assignment
    loops, the compound-assignment / reduction loads and `reverse()` -/
theorem aligned_only_on_owned (b : Build) (simd : Bool) (st : Storage) (n V : Nat) (hV : 0 < V) (a : Access)
    (ha : a ∈ assignStores n V (isAligned b simd st) ++ flaggedLoads n V (isAligned b simd st) ++
            leafLoads n V ++ reverseAccesses n V (isAligned b simd st))
    (hal : a.aligned = true) :
    st = .tensor ∧ b.dontAlign = false ∧ b.dontVectorise = false ∧ V ∣ a.off ∧ a.off + a.lanes ≤ n := by
  have hR : n / V * V ≤ n := Nat.div_mul_le_self n V
  have key : ∀ i, i ∈ forRange 0 (n / V * V) V → V ∣ i ∧ i + V ≤ n := by
    intro i hi
    obtain ⟨t, rfl, hlt⟩ := (mem_forRange hV).1 hi
    refine ⟨⟨t, by rw [Nat.zero_add, Nat.mul_comm]⟩, ?_⟩
    have : t < n / V := by
      rw [Nat.zero_add] at hlt; exact Nat.lt_of_mul_lt_mul_right hlt
    have h2 : (t + 1) * V ≤ n / V * V := Nat.mul_le_mul_right V this
    rw [Nat.add_mul] at h2; omega
  simp only [List.mem_append] at ha
  have hflag : isAligned b simd st = true → st = .tensor ∧ b.dontAlign = false ∧ b.dontVectorise = false := by
    intro h; obtain ⟨h1, h2, h3, _⟩ := isAligned_only_owned b simd st h; exact ⟨h1, h2, h3⟩
  rcases ha with ((ha | ha) | ha) | ha
  · unfold assignStores at ha
    rcases List.mem_append.1 ha with h | h
    · obtain ⟨i, hi, rfl⟩ := List.mem_map.1 h
      obtain ⟨h1, h2, h3⟩ := hflag hal
      exact ⟨h1, h2, h3, (key i hi).1, (key i hi).2⟩
    · obtain ⟨i, _, rfl⟩ := List.mem_map.1 h; simp at hal
  · unfold flaggedLoads at ha
    rcases List.mem_append.1 ha with h | h
    · obtain ⟨i, hi, rfl⟩ := List.mem_map.1 h
      obtain ⟨h1, h2, h3⟩ := hflag hal
      exact ⟨h1, h2, h3, (key i hi).1, (key i hi).2⟩
    · obtain ⟨i, _, rfl⟩ := List.mem_map.1 h; simp at hal
  · unfold leafLoads flaggedLoads at ha
    rcases List.mem_append.1 ha with h | h
    · obtain ⟨i, _, rfl⟩ := List.mem_map.1 h; simp at hal
    · obtain ⟨i, _, rfl⟩ := List.mem_map.1 h; simp at hal
  · unfold reverseAccesses at ha
    obtain ⟨i, hi, h⟩ := List.mem_flatMap.1 ha
    simp only [List.mem_cons, List.mem_nil_iff, or_false] at h
    rcases h with rfl | rfl
    · simp at hal
    · obtain ⟨h1, h2, h3⟩ := hflag hal
      exact ⟨h1, h2, h3, (key i hi).1, (key i hi).2⟩

/-- every access of these loops, aligned or not, stays inside the `n` elements -/
theorem flagged_accesses_in_extent (n V : Nat) (hV : 0 < V) (flag : Bool) (a : Access)
    (ha : a ∈ assignStores n V flag ++ flaggedLoads n V flag ++ reverseAccesses n V flag) :
    a.off + a.lanes ≤ n := by
  have hR : n / V * V ≤ n := Nat.div_mul_le_self n V
  have key : ∀ i, i ∈ forRange 0 (n / V * V) V → i + V ≤ n := by
    intro i hi
    obtain ⟨t, rfl, hlt⟩ := (mem_forRange hV).1 hi
    have : t < n / V := by
      rw [Nat.zero_add] at hlt; exact Nat.lt_of_mul_lt_mul_right hlt
    have h2 : (t + 1) * V ≤ n / V * V := Nat.mul_le_mul_right V this
    rw [Nat.add_mul] at h2; omega
  have tail : ∀ i, i ∈ forRange (forExit 0 (n / V * V) V) n 1 → i + 1 ≤ n := by
    intro i hi
    obtain ⟨t, _, hlt⟩ := (mem_forRange (by omega : 0 < 1)).1 hi
    omega
  simp only [List.mem_append] at ha
  rcases ha with (ha | ha) | ha
  · unfold assignStores at ha
    rcases List.mem_append.1 ha with h | h
    · obtain ⟨i, hi, rfl⟩ := List.mem_map.1 h; exact key i hi
    · obtain ⟨i, hi, rfl⟩ := List.mem_map.1 h; exact tail i hi
  · unfold flaggedLoads at ha
    rcases List.mem_append.1 ha with h | h
    · obtain ⟨i, hi, rfl⟩ := List.mem_map.1 h; exact key i hi
    · obtain ⟨i, hi, rfl⟩ := List.mem_map.1 h; exact tail i hi
  · unfold reverseAccesses at ha
    obtain ⟨i, hi, h⟩ := List.mem_flatMap.1 ha
    simp only [List.mem_cons, List.mem_nil_iff, or_false] at h
    have := key i hi
    rcases h with rfl | rfl
    · show n - i - V + V ≤ n; omega
    · exact this

/-- **the address of an aligned access is a multiple of the vector size**: base aligned to the alignment value
    `A`, vector bytes `V*sz` dividing `A` (C06.vsize_dvd_alignment), element offset a multiple of `V` -/
theorem aligned_access_address (base A V sz off : Nat) (hbase : A ∣ base) (hfit : V * sz ∣ A) (hoff : V ∣ off) :
    V * sz ∣ base + off * sz := by
  obtain ⟨q, rfl⟩ := hoff
  exact Nat.dvd_add (Nat.dvd_trans hfit hbase) ⟨q, Nat.mul_right_comm V q sz⟩

/-- … instantiated with the configuration ladder: for every compiler predefine set, element size 4 or 8 and
    extent, a store of the width chosen by the library at a multiple of that width from tensor storage is aligned -/
theorem aligned_access_address_ladder (p : Predef) (sz N base off : Nat) (hsz : C06.PrimSize sz)
    (hbase : p.alignment ∣ base) (hoff : p.toCfg.vsize sz N ∣ off) :
    p.toCfg.vsize sz N * sz ∣ base + off * sz :=
  aligned_access_address base p.alignment _ sz off hbase (C06.vsize_dvd_alignment p sz N hsz) hoff

/-- non-vacuity: an owning float tensor of 11 elements at width 4 issues aligned stores at 0 and 4 (and no other) -/
example : (assignStores 11 4 (isAligned ⟨false, false⟩ true .tensor)).filter (·.aligned)
    = [⟨0, 4, true, true⟩, ⟨4, 4, true, true⟩] := by decide
example : (assignStores 11 4 (isAligned ⟨false, false⟩ true .tensorMap)).filter (·.aligned) = [] := by decide

/-! ## (a) footprints of the kernel models -/

variable {R : Type} [CommSemiring R]

/-- **matmul writes stay inside the result** (restated from C01.matmul_exact: every position `≥ M*N` keeps its
    initial contents, whatever they were) -/
theorem matmul_writes_in_result (cfg : Cfg) (sz M K N : Nat) (hsz : sz = 4 ∨ sz = 8 ∨ sz = 16) (hN : N < 2 ^ 64)
    (hob : ∀ x, cfg.outerBlock = some x → 0 < x) (hib : ∀ x, cfg.innerBlock = some x → 0 < x)
    (a b c₀ : Nat → R) (p : Nat) (hp : M * N ≤ p) :
    applyWrites (kernelWrites N (Matmul.val a b K N) (Matmul.kernel cfg sz M K N).2.2) c₀ p = c₀ p :=
  (C01.matmul_exact cfg sz M K N hsz hN hob hib a b c₀).2 p hp

/-- the operand offsets a matmul store event reads (the inner functions of `Matmul.readsA` / `readsB`, whose
    sorted digests the driver prints as RDA / RDB and the harness measures on the real `_matmul`) -/
def eventReadsA (K : Nat) (e : St) : List Nat := (List.range e.kk).map fun k => e.r * K + k
def eventReadsB (N : Nat) (e : St) : List Nat := (List.range e.kk).map fun k => k * N + e.c
theorem readsA_eq (K : Nat) (segs : List Seg) :
    Matmul.readsA K segs = segs.flatMap fun s => s.events.flatMap (eventReadsA K) := rfl
theorem readsB_eq (N : Nat) (segs : List Seg) :
    Matmul.readsB N segs = segs.flatMap fun s => s.events.flatMap (eventReadsB N) := rfl
/-- the same for the triangular kernels: `k` runs over the clipped range `[k0, kk)` -/
def teventReadsA (K : Nat) (e : St) : List Nat := (List.range' e.k0 (e.kk - e.k0)).map fun k => e.r * K + k
def teventReadsB (N : Nat) (e : St) : List Nat := (List.range' e.k0 (e.kk - e.k0)).map fun k => k * N + e.c
theorem treadsA_eq (K : Nat) (segs : List Seg) :
    Tmatmul.readsA K segs = segs.flatMap fun s => s.events.flatMap (teventReadsA K) := rfl
theorem treadsB_eq (N : Nat) (segs : List Seg) :
    Tmatmul.readsB N segs = segs.flatMap fun s => s.events.flatMap (teventReadsB N) := rfl

/-- every segment of the selected kernel has well-formed intermediate events (Proofs/FootprintInside) -/
theorem kernel_preOK (cfg : Cfg) (sz M K N : Nat) :
    Matmul.AllSegs (Matmul.PreOK K) (Matmul.kernel cfg sz M K N).2.2 := by
  unfold Matmul.kernel
  cases Matmul.dispatch cfg false true sz M K N with
  | matvec => exact Matmul.allSegs_matvec M _
  | smallN => exact Matmul.allSegs_smallN _ M N _
  | base => exact Matmul.allSegs_base M N _ _
  | baseMasked => exact Matmul.allSegs_baseMasked _ M N _ _
  | tiny => exact Matmul.allSegs_tiny M N _
  | nonPrimitive => exact Matmul.allSegs_nonPrimitive M N
  | spec => exact Matmul.allSegs_nonPrimitive M N

/-- **matmul reads stay inside the operands — every store event**, final or intermediate (partial sums of the
    `M % 4` remainder blocks and of `_matvecmul`, spilled lanes of the small-N kernels): for all shapes,
    configurations, block sizes, every operand offset the model reads is `< M*K` resp. `< K*N`. -/
theorem matmul_reads_in_operands (cfg : Cfg) (sz M K N : Nat) (hsz : sz = 4 ∨ sz = 8 ∨ sz = 16)
    (hN : N < 2 ^ 64) (hob : ∀ x, cfg.outerBlock = some x → 0 < x) (hib : ∀ x, cfg.innerBlock = some x → 0 < x)
    (s : Seg) (hs : s ∈ (Matmul.kernel cfg sz M K N).2.2) (e : St) (he : e ∈ s.events) :
    (∀ x ∈ eventReadsA K e, x < M * K) ∧ (∀ x ∈ eventReadsB N e, x < K * N) := by
  have hfill := C01.kernel_fills cfg sz M K N hsz hN hob hib
  have key : ∀ r c kk, r < M → c < N → kk ≤ K →
      (∀ x ∈ (List.range kk).map (fun k => r * K + k), x < M * K) ∧
      (∀ x ∈ (List.range kk).map (fun k => k * N + c), x < K * N) := by
    intro r c kk hr hc hk
    constructor
    · intro x hx
      obtain ⟨k, hk', rfl⟩ := List.mem_map.1 hx
      exact pos_lt hr (by have := List.mem_range.1 hk'; omega)
    · intro x hx
      obtain ⟨k, hk', rfl⟩ := List.mem_map.1 hx
      exact pos_lt (by have := List.mem_range.1 hk'; omega) hc
  rcases List.mem_append.1 he with hpre | hfin
  · rcases kernel_preOK cfg sz M K N s hs e hpre with h0 | ⟨_, hkk, e', he', hr, hc⟩
    · simp [eventReadsA, eventReadsB, h0]
    · obtain ⟨hr', hc', _⟩ := hfill.inside s hs e' he'
      exact key e.r e.c e.kk (hr ▸ hr') (hc ▸ hc') hkk
  · obtain ⟨hr, hc, _, hkk, _⟩ := hfill.inside s hs e hfin
    exact key e.r e.c e.kk hr hc (by omega)

/-- the statement about the sets the driver prints (RDA / RDB): every element of `Matmul.readsA` / `readsB` of the
    selected kernel is inside the operand -/
theorem matmul_read_sets_in_operands (cfg : Cfg) (sz M K N : Nat) (hsz : sz = 4 ∨ sz = 8 ∨ sz = 16)
    (hN : N < 2 ^ 64) (hob : ∀ x, cfg.outerBlock = some x → 0 < x) (hib : ∀ x, cfg.innerBlock = some x → 0 < x) :
    (∀ x ∈ Matmul.readsA K (Matmul.kernel cfg sz M K N).2.2, x < M * K) ∧
    (∀ x ∈ Matmul.readsB N (Matmul.kernel cfg sz M K N).2.2, x < K * N) := by
  rw [readsA_eq, readsB_eq]
  constructor
  · intro x hx
    obtain ⟨s, hs, hx⟩ := List.mem_flatMap.1 hx
    obtain ⟨e, he, hx⟩ := List.mem_flatMap.1 hx
    exact (matmul_reads_in_operands cfg sz M K N hsz hN hob hib s hs e he).1 x hx
  · intro x hx
    obtain ⟨s, hs, hx⟩ := List.mem_flatMap.1 hx
    obtain ⟨e, he, hx⟩ := List.mem_flatMap.1 hx
    exact (matmul_reads_in_operands cfg sz M K N hsz hN hob hib s hs e he).2 x hx

/-- **tmatmul writes stay inside the result** (from C17.tmatmul_exact) -/
theorem tmatmul_writes_in_result (cfg : Cfg) (lt rt : Tmatmul.UpLo) (sz M K N : Nat) (hsz : sz = 4 ∨ sz = 8 ∨ sz = 16)
    (hob : ∀ x, cfg.outerBlock = some x → 0 < x) (hib : ∀ x, cfg.innerBlock = some x → 0 < x)
    (a b c₀ : Nat → R) (ha : Tmatmul.TriA lt K a) (hb : Tmatmul.TriB rt N b) (p : Nat) (hp : M * N ≤ p) :
    applyWrites (kernelWrites N (Tmatmul.tval a b K N) (Tmatmul.tkernel cfg lt rt sz M K N).2.2) c₀ p = c₀ p :=
  (C17.tmatmul_exact cfg lt rt sz M K N hsz hob hib a b c₀ ha hb).2 p hp

theorem tkernel_preOK (cfg : Cfg) (lt rt : Tmatmul.UpLo) (sz M K N : Nat) :
    Matmul.AllSegs (Matmul.PreOK K) (Tmatmul.tkernel cfg lt rt sz M K N).2.2 := by
  unfold Tmatmul.tkernel
  cases Tmatmul.tdispatch cfg true sz N with
  | base => exact Tmatmul.allSegs_tbase lt rt M N _ _
  | baseMasked => exact Tmatmul.allSegs_tbaseMasked lt rt _ M N _ _
  | nonPrimitive => exact Tmatmul.allSegs_tnonPrimitive lt rt M N

/-- **tmatmul reads stay inside the operands — every store event**: the clipped `k` range `[k0, kk)` of every
    final event lies in `[0, K)`, and the intermediate events (partial sums of the unclipped remainder rows) re-read
    a prefix; so every offset `a[r*K+k]`, `b[k*N+c]` the model reads is inside its operand -/
theorem tmatmul_reads_in_operands (cfg : Cfg) (lt rt : Tmatmul.UpLo) (sz M K N : Nat)
    (hsz : sz = 4 ∨ sz = 8 ∨ sz = 16)
    (hob : ∀ x, cfg.outerBlock = some x → 0 < x) (hib : ∀ x, cfg.innerBlock = some x → 0 < x)
    (s : Seg) (hs : s ∈ (Tmatmul.tkernel cfg lt rt sz M K N).2.2) (e : St) (he : e ∈ s.events) :
    (∀ x ∈ teventReadsA K e, x < M * K) ∧ (∀ x ∈ teventReadsB N e, x < K * N) := by
  have hfill := C17.tkernel_fills cfg lt rt sz M K N hsz hob hib
  have key : ∀ r c k0 kk, r < M → c < N → kk ≤ K →
      (∀ x ∈ (List.range' k0 (kk - k0)).map (fun k => r * K + k), x < M * K) ∧
      (∀ x ∈ (List.range' k0 (kk - k0)).map (fun k => k * N + c), x < K * N) := by
    intro r c k0 kk hr hc hk
    constructor
    · intro x hx
      obtain ⟨k, hk', rfl⟩ := List.mem_map.1 hx
      exact pos_lt hr (by have := List.mem_range'_1.1 hk'; omega)
    · intro x hx
      obtain ⟨k, hk', rfl⟩ := List.mem_map.1 hx
      exact pos_lt (by have := List.mem_range'_1.1 hk'; omega) hc
  rcases List.mem_append.1 he with hpre | hfin
  · rcases tkernel_preOK cfg lt rt sz M K N s hs e hpre with h0 | ⟨_, hkk, e', he', hr, hc⟩
    · simp [teventReadsA, teventReadsB, h0]
    · obtain ⟨hr', hc', _⟩ := hfill.inside s hs e' he'
      exact key e.r e.c e.k0 e.kk (hr ▸ hr') (hc ▸ hc') hkk
  · obtain ⟨hr, hc, hP⟩ := hfill.inside s hs e hfin
    exact key e.r e.c e.k0 e.kk hr hc hP.1

theorem tmatmul_read_sets_in_operands (cfg : Cfg) (lt rt : Tmatmul.UpLo) (sz M K N : Nat)
    (hsz : sz = 4 ∨ sz = 8 ∨ sz = 16)
    (hob : ∀ x, cfg.outerBlock = some x → 0 < x) (hib : ∀ x, cfg.innerBlock = some x → 0 < x) :
    (∀ x ∈ Tmatmul.readsA K (Tmatmul.tkernel cfg lt rt sz M K N).2.2, x < M * K) ∧
    (∀ x ∈ Tmatmul.readsB N (Tmatmul.tkernel cfg lt rt sz M K N).2.2, x < K * N) := by
  rw [treadsA_eq, treadsB_eq]
  constructor
  · intro x hx
    obtain ⟨s, hs, hx⟩ := List.mem_flatMap.1 hx
    obtain ⟨e, he, hx⟩ := List.mem_flatMap.1 hx
    exact (tmatmul_reads_in_operands cfg lt rt sz M K N hsz hob hib s hs e he).1 x hx
  · intro x hx
    obtain ⟨s, hs, hx⟩ := List.mem_flatMap.1 hx
    obtain ⟨e, he, hx⟩ := List.mem_flatMap.1 hx
    exact (tmatmul_reads_in_operands cfg lt rt sz M K N hsz hob hib s hs e he).2 x hx

/-- non-vacuity: a shape whose kernel has intermediate events (7 rows: a 3-row remainder block storing partial sums) -/
example : ((Matmul.kernel ⟨.sse, false, false, none, none⟩ 4 7 3 9).2.2.flatMap (·.pre)).length > 0 := by decide

/-- **expression assignment reads stay inside the operands**: the vector body reads `i … i+V-1` for `i` a multiple
    of `V` below `n / V * V`, the scalar tail reads `i < n` — every position `< n`, for every `n` and `V > 0` -/
theorem assign_reads_in_operands (n V : Nat) (hV : 0 < V) (p : Nat) (hp : p ∈ assignReadPositions n V) : p < n := by
  unfold assignReadPositions at hp
  rcases List.mem_append.1 hp with h | h
  · obtain ⟨i, hi, h2⟩ := List.mem_flatMap.1 h
    obtain ⟨l, hl, rfl⟩ := List.mem_map.1 h2
    obtain ⟨t, rfl, hlt⟩ := (mem_forRange hV).1 hi
    have hl' := List.mem_range.1 hl
    have : t < n / V := by rw [Nat.zero_add] at hlt; exact Nat.lt_of_mul_lt_mul_right hlt
    have h2 : (t + 1) * V ≤ n / V * V := Nat.mul_le_mul_right V this
    have hR : n / V * V ≤ n := Nat.div_mul_le_self n V
    rw [Nat.add_mul] at h2; omega
  · obtain ⟨t, _, hlt⟩ := (mem_forRange (by omega : 0 < 1)).1 h
    exact hlt

/-- … and they are all of them: every operand position `< n` is read (nothing is skipped by the remainder logic) -/
theorem assign_reads_cover (n V : Nat) (hV : 0 < V) (p : Nat) (hp : p < n) : p ∈ assignReadPositions n V := by
  unfold assignReadPositions
  have hR : n / V * V ≤ n := Nat.div_mul_le_self n V
  by_cases h : p < n / V * V
  · apply List.mem_append_left
    refine List.mem_flatMap.2 ⟨p / V * V, (mem_forRange hV).2 ⟨p / V, by omega, ?_⟩, ?_⟩
    · have : p / V < n / V := by
        rw [Nat.div_lt_iff_lt_mul hV]; exact h
      have h2 : (p / V + 1) * V ≤ n / V * V := Nat.mul_le_mul_right V this
      rw [Nat.add_mul] at h2; omega
    · refine List.mem_map.2 ⟨p % V, List.mem_range.2 (Nat.mod_lt _ hV), ?_⟩
      have := Nat.div_add_mod p V
      rw [Nat.mul_comm] at this; exact this
  · apply List.mem_append_right
    have hex : forExit 0 (n / V * V) V = n / V * V :=
      forExit_of_dvd hV (Nat.zero_le _) ⟨n / V, by rw [Nat.sub_zero, Nat.mul_comm]⟩
    rw [hex]
    exact (mem_forRange (by omega : 0 < 1)).2 ⟨p - n / V * V, by omega, hp⟩

/-- **einsum reads stay inside the operands** (restated from C03.operand_offsets_in_range) -/
theorem einsum_reads_in_operands (p : Einsum.Pair) (hI : p.I.length = p.dI.length) (hJ : p.J.length = p.dJ.length)
    (hcons : Einsum.Consistent p.cat p.catDims) (σ : List Nat) (hσ : σ ∈ Einsum.assignments p.loopDims 1) :
    Einsum.flatAt p.dI (Einsum.posIn p.cat p.I) σ < Einsum.prod p.dI ∧
    Einsum.flatAt p.dJ (Einsum.posIn p.cat p.J) σ < Einsum.prod p.dJ :=
  let h := C03.operand_offsets_in_range p hI hJ hcons σ hσ
  ⟨h.2.2.1, h.2.2.2⟩

/-- non-vacuity: 11 elements at width 4 — the read positions are exactly 0..10 -/
example : assignReadPositions 11 4 = [0, 1, 2, 3, 4, 5, 6, 7, 8, 9, 10] := by decide


/-! ## footprints of the view-write model (C05, Model/ViewWrite.lean) -/

open Fastor.ViewWrite in
/-- **1-D views write inside the parent tensor and read inside the right-hand side**: when the view selects
    elements of a tensor of `n` elements (`k*step + first < n` for `k < ext` — what FASTOR_BOUNDS_CHECK asserts), every
    lane of every iteration (vector body, strided read-modify-write route, scalar tail; every power-of-two width,
    both settings of FASTOR_USE_VECTORISED_EXPR_ASSIGN) stores at a position `< n` and takes a right-hand-side
    element `< ext` -/
theorem view1d_footprint (e : Nat) (he : e ≤ 64) (vea : Bool) (a : Ax) (hn : a.ext < 2 ^ 64) (n : Nat)
    (hin : ∀ k < a.ext, k * a.step + a.first < n) (l : Nat × Nat)
    (hl : l ∈ lanesOf (linIters (2 ^ e) vea a)) : l.1 < n ∧ l.2 < a.ext := by
  unfold linIters at hl
  rw [seg_lanes e he vea .rmw 0 0 a hn] at hl
  obtain ⟨k, hk, rfl⟩ := List.mem_map.1 hl
  have hk' := List.mem_range.1 hk
  exact ⟨by have := hin k hk'; simpa using this, by simpa using hk'⟩

open Fastor.ViewWrite in
/-- **2-D views**: rows `step0*i + first0 < M`, columns `k*step1 + first1 < N` ⇒ every store is below `M*N` and every
    right-hand-side element read is below `ext0*ext1` -/
theorem view2d_footprint (e : Nat) (he : e ≤ 64) (vea : Bool) (M N : Nat) (a0 a1 : Ax) (hn : a1.ext < 2 ^ 64)
    (hrow : ∀ i < a0.ext, a0.step * i + a0.first < M) (hcol : ∀ k < a1.ext, k * a1.step + a1.first < N)
    (l : Nat × Nat) (hl : l ∈ lanesOf (rowIters (2 ^ e) vea N a0 a1)) :
    l.1 < M * N ∧ l.2 < a0.ext * a1.ext := by
  rw [C05.row_lanes e he vea N a0 a1 hn] at hl
  obtain ⟨i, hi, hl⟩ := List.mem_flatMap.1 hl
  obtain ⟨k, hk, rfl⟩ := List.mem_map.1 hl
  have hi' := List.mem_range.1 hi
  have hk' := List.mem_range.1 hk
  exact ⟨pos_lt (hrow i hi') (hcol k hk'), pos_lt hi' hk'⟩

/-- non-vacuity: `A(seq(1,6,2))` on 7 elements, and a 2x3 block with column step 2 of a 3x7 matrix -/
example : ∀ k < (⟨1, 2, 3⟩ : ViewWrite.Ax).ext, k * (⟨1, 2, 3⟩ : ViewWrite.Ax).step + (⟨1, 2, 3⟩ : ViewWrite.Ax).first < 7 := by decide
example : (∀ i < (⟨1, 1, 2⟩ : ViewWrite.Ax).ext, (⟨1, 1, 2⟩ : ViewWrite.Ax).step * i + (⟨1, 1, 2⟩ : ViewWrite.Ax).first < 3) ∧
    (∀ k < (⟨1, 2, 3⟩ : ViewWrite.Ax).ext, k * (⟨1, 2, 3⟩ : ViewWrite.Ax).step + (⟨1, 2, 3⟩ : ViewWrite.Ax).first < 7) := by decide


/-! ## footprints of the fixed-size intrinsic kernels (Model/Kern3.lean) -/

section K3
open Fastor.Kern3

/-- decidable form of "the list is exactly `{0,…,n-1}` as a set" -/
def exactly (L : List Nat) (n : Nat) : Bool := L.all (· < n) && (List.range n).all (· ∈ L)

theorem exactly_iff (L : List Nat) (n : Nat) : exactly L n = true ↔ ∀ p, p ∈ L ↔ p < n := by
  unfold exactly
  simp only [Bool.and_eq_true, List.all_eq_true, decide_eq_true_eq, List.mem_range]
  exact ⟨fun h p => ⟨h.1 p, h.2 p⟩, fun h => ⟨fun p hp => (h p).1 hp, fun p hp => (h p).2 hp⟩⟩

/-- **`_transpose<float,3,3>`** (every `#if` branch of the helpers, SSE and AVX2 paths): reads exactly `a[0..8]`,
    writes exactly `out[0..8]` -/
theorem transpose33_footprint (br : Branch) (avx2 : Bool) :
    (∀ p, p ∈ offsets (transpose33 br avx2) 0 false ↔ p < 9) ∧
    (∀ p, p ∈ offsets (transpose33 br avx2) 2 true ↔ p < 9) := by
  refine ⟨(exactly_iff _ _).1 ?_, (exactly_iff _ _).1 ?_⟩ <;> cases br <;> cases avx2 <;> decide

/-- the code before the repair read `a[9..]`… and wrote `out[9]` (history; this is F10) -/
theorem transpose33_before_counterexample :
    9 ∈ offsets transpose33_before 0 false ∧ 9 ∈ offsets transpose33_before 2 true := by decide

/-- **`_matmul<T,3,3,3>`**: reads exactly `a[0..8]`, `b[0..8]`, writes exactly `out[0..8]`; the 4-lane stores at
    stride 3 spill one lane into the next row, and the store that owns a cell is the last one to write it -/
theorem matmul333_footprint (br : Branch) :
    (∀ p, p ∈ offsets (matmul333 br) 0 false ↔ p < 9) ∧ (∀ p, p ∈ offsets (matmul333 br) 1 false ↔ p < 9) ∧
    (∀ p, p ∈ offsets (matmul333 br) 2 true ↔ p < 9) ∧ (∀ p, p < 9 → lastWriter (matmul333 br) p = some (p / 3)) := by
  refine ⟨(exactly_iff _ _).1 ?_, (exactly_iff _ _).1 ?_, (exactly_iff _ _).1 ?_, ?_⟩ <;> cases br <;> decide

theorem matvec331_footprint (br : Branch) :
    (∀ p, p ∈ offsets (matvec331 br) 0 false ↔ p < 9) ∧ (∀ p, p ∈ offsets (matvec331 br) 1 false ↔ p < 3) ∧
    (∀ p, p ∈ offsets (matvec331 br) 2 true ↔ p < 3) := by
  refine ⟨(exactly_iff _ _).1 ?_, (exactly_iff _ _).1 ?_, (exactly_iff _ _).1 ?_⟩ <;> cases br <;> decide

/-- `_norm<·,9>`, `_trace<·,3,3>` (reads the diagonal only, or the whole matrix in the float kernel),
    `_det<·,3,3>`, `_doublecontract<·,3,3>`: all reads inside the 9 elements -/
theorem small_kernels_footprint :
    (∀ p, p ∈ offsets norm9f 0 false ↔ p < 9) ∧ (∀ p, p ∈ offsets norm9d 0 false ↔ p < 9) ∧
    (∀ p, p ∈ offsets trace33f 0 false ↔ p < 9) ∧ (∀ p ∈ offsets trace33d 0 false, p < 9) ∧
    (∀ p, p ∈ offsets det33 0 false ↔ p < 9) ∧
    (∀ p, p ∈ offsets dc33f 0 false ↔ p < 9) ∧ (∀ p, p ∈ offsets dc33f 1 false ↔ p < 9) ∧
    (∀ p, p ∈ offsets dc33d 0 false ↔ p < 9) ∧ (∀ p, p ∈ offsets dc33d 1 false ↔ p < 9) := by
  refine ⟨(exactly_iff _ _).1 ?_, (exactly_iff _ _).1 ?_, (exactly_iff _ _).1 ?_, ?_, (exactly_iff _ _).1 ?_,
    (exactly_iff _ _).1 ?_, (exactly_iff _ _).1 ?_, (exactly_iff _ _).1 ?_, (exactly_iff _ _).1 ?_⟩ <;> decide


/-- the whole-vector kernels (2x2, 4x4) and the double 3x3 transpose in its three widths: exactly their operands -/
theorem whole_vector_kernels_footprint :
    (∀ vw, vw = 2 ∨ vw = 4 ∨ vw = 8 → (∀ p, p ∈ offsets (transpose33d vw) 0 false ↔ p < 9) ∧
      (∀ p, p ∈ offsets (transpose33d vw) 2 true ↔ p < 9)) ∧
    (∀ p, p ∈ offsets unary4f 0 false ↔ p < 4) ∧ (∀ p, p ∈ offsets unary4f 2 true ↔ p < 4) ∧
    (∀ p, p ∈ offsets unary4d 0 false ↔ p < 4) ∧ (∀ p, p ∈ offsets unary4d 2 true ↔ p < 4) ∧
    (∀ b, (∀ p, p ∈ offsets (transpose44f b) 0 false ↔ p < 16) ∧ (∀ p, p ∈ offsets (transpose44f b) 2 true ↔ p < 16)) ∧
    (∀ p, p ∈ offsets matmul222f 0 false ↔ p < 4) ∧ (∀ p, p ∈ offsets matmul222f 1 false ↔ p < 4) ∧
    (∀ p, p ∈ offsets matmul222f 2 true ↔ p < 4) ∧
    (∀ p, p ∈ offsets matmul444f 0 false ↔ p < 16) ∧ (∀ p, p ∈ offsets matmul444f 1 false ↔ p < 16) ∧
    (∀ p, p ∈ offsets matmul444f 2 true ↔ p < 16) := by
  refine ⟨?_, (exactly_iff _ _).1 (by decide), (exactly_iff _ _).1 (by decide), (exactly_iff _ _).1 (by decide),
    (exactly_iff _ _).1 (by decide), ?_, (exactly_iff _ _).1 (by decide), (exactly_iff _ _).1 (by decide),
    (exactly_iff _ _).1 (by decide), (exactly_iff _ _).1 (by decide), (exactly_iff _ _).1 (by decide),
    (exactly_iff _ _).1 (by decide)⟩
  · rintro vw (rfl | rfl | rfl) <;> exact ⟨(exactly_iff _ _).1 (by decide), (exactly_iff _ _).1 (by decide)⟩
  · intro b; cases b <;> exact ⟨(exactly_iff _ _).1 (by decide), (exactly_iff _ _).1 (by decide)⟩

/-- **`_dyadic<T,3,3>`, `_dyadic<float,2,2>`** (after the repair): reads exactly the 3 (2) elements of each operand, writes
    exactly `out[0..8]` (`out[0..3]`); the code before the repair wrote `out[9]` and read `b[3]` -/
theorem dyadic_footprint (br : Branch) :
    (∀ p, p ∈ offsets (dyadic33f br) 0 false ↔ p < 3) ∧ (∀ p, p ∈ offsets (dyadic33f br) 1 false ↔ p < 3) ∧
    (∀ p, p ∈ offsets (dyadic33f br) 2 true ↔ p < 9) ∧
    (∀ p, p ∈ offsets (dyadic33d br) 0 false ↔ p < 3) ∧ (∀ p, p ∈ offsets (dyadic33d br) 1 false ↔ p < 3) ∧
    (∀ p, p ∈ offsets (dyadic33d br) 2 true ↔ p < 9) ∧
    (∀ p, p ∈ offsets dyadic22f 0 false ↔ p < 2) ∧ (∀ p, p ∈ offsets dyadic22f 2 true ↔ p < 4) ∧
    (9 ∈ offsets dyadic33f_before 2 true ∧ 3 ∈ offsets dyadic33f_before 1 false) := by
  refine ⟨(exactly_iff _ _).1 ?_, (exactly_iff _ _).1 ?_, (exactly_iff _ _).1 ?_, (exactly_iff _ _).1 ?_,
    (exactly_iff _ _).1 ?_, (exactly_iff _ _).1 ?_, (exactly_iff _ _).1 ?_, (exactly_iff _ _).1 ?_, ?_⟩ <;>
    first | (cases br <;> decide) | decide

theorem offsets_append (A B : List KAcc) (o : Nat) (w : Bool) :
    offsets (A ++ B) o w = offsets A o w ++ offsets B o w := by
  simp [offsets, List.filter_append, List.flatMap_append]

theorem offsets_flatMap {ι : Type} (L : List ι) (f : ι → List KAcc) (o : Nat) (w : Bool) :
    offsets (L.flatMap f) o w = L.flatMap fun x => offsets (f x) o w := by
  induction L with
  | nil => rfl
  | cons x xs ih => simp only [List.flatMap_cons, offsets_append, ih]

/-- **`_matmul<T,3,K,3>` for every `K`**: reads exactly `a[0..3K-1]` and `b[0..3K-1]`, writes exactly `out[0..8]` -/
theorem matmul3K3_footprint (br : Branch) (K : Nat) :
    (∀ p, p ∈ offsets (matmul3K3 br K) 0 false ↔ p < 3 * K) ∧
    (∀ p, p ∈ offsets (matmul3K3 br K) 1 false ↔ p < 3 * K) ∧
    (∀ p, p ∈ offsets (matmul3K3 br K) 2 true ↔ p < 9) := by
  have hstores : ∀ o w, offsets [st 0 4, st 3 4, st3 br 6] o w = if o = 2 ∧ w = true then [0, 1, 2, 3, 3, 4, 5, 6, 6, 7, 8] else [] := by
    intro o w
    cases br <;> cases w <;> by_cases ho : o = 2 <;> simp [offsets, st, st3, ho, store3_eq, List.range, List.range.loop] <;> omega
  have hblk : ∀ i o w, offsets [ld3 br 1 (3 * i), el 0 i, el 0 (K + i), el 0 (2 * K + i)] o w =
      if w = true then [] else if o = 1 then [3 * i, 3 * i + 1, 3 * i + 2] else if o = 0 then [i, K + i, 2 * K + i] else [] := by
    intro i o w
    cases w <;> by_cases h1 : o = 1 <;> by_cases h0 : o = 0 <;>
      simp [offsets, ld3, el, h1, h0, load3_eq] <;> omega
  unfold matmul3K3
  simp only [offsets_append, offsets_flatMap, hstores, hblk]
  refine ⟨fun p => ?_, fun p => ?_, fun p => ?_⟩
  · simp only [List.mem_append, List.mem_flatMap, List.mem_range]
    constructor
    · rintro (⟨i, hi, hp⟩ | hp)
      · simp at hp; omega
      · simp at hp
    · intro hp
      left
      by_cases h1 : p < K
      · exact ⟨p, h1, by simp⟩
      · by_cases h2 : p < 2 * K
        · exact ⟨p - K, by omega, by simp; omega⟩
        · exact ⟨p - 2 * K, by omega, by simp; omega⟩
  · simp only [List.mem_append, List.mem_flatMap, List.mem_range]
    constructor
    · rintro (⟨i, hi, hp⟩ | hp)
      · simp at hp; omega
      · simp at hp
    · intro hp
      left
      exact ⟨p / 3, by omega, by simp; omega⟩
  · simp only [List.mem_append, List.mem_flatMap, List.mem_range]
    constructor
    · rintro (⟨i, hi, hp⟩ | hp)
      · simp at hp
      · simp at hp; omega
    · intro hp
      right; simp; omega

/-- non-vacuity: with `K = 5` the kernel reads 15 elements of each operand -/
example : exactly (offsets (matmul3K3 .sse 5) 1 false) 15 = true := by decide

end K3


/-! ## footprints of the transpose / permute models (C14) and of the inverse leaf kernels (C10 model) -/

/-- **`_transpose<T,M,N>`** (plain loop or register-blocked nest with its pack buffers, any configuration, element size
    and block-size macros): nothing at or beyond `N*M` is written and every load — the vector loads of the packing
    loop included — stays inside `a[0 .. M*N)` (restated from C14.transpose_correct_cfg) -/
theorem transpose_footprint {α : Type} (cfg : Cfg) (sz nR nC : Nat) (hR : 0 < nR) (hC : 0 < nC)
    (a m : Nat → α) (g1 g2 : Nat → Nat → Nat → α) (M N : Nat) :
    (∀ p, N * M ≤ p → applyWrites (Transpose.transposeWrites cfg sz nR nC a g1 g2 M N) m p = m p) ∧
    (∀ r ∈ Transpose.transposeReads cfg sz nR nC M N, r < M * N) :=
  let h := C14.transpose_correct_cfg cfg sz nR nC hR hC a m g1 g2 M N
  ⟨h.2.1, h.2.2⟩

/-- **`permute<Index<p...>>`** (both standards, both loop skeletons): nothing at or beyond the size of the result is
    written (restated from C14.permute_correct; every stored value is `a (flat dims i)` for a multi-index `i` of the
    shape, i.e. an element of the operand) -/
theorem permute_writes_in_result {α : Type} (s : Permute.Std) (v : Permute.Variant) (p dims : List Nat) (hne : dims ≠ [])
    (hpos : ∀ d ∈ dims, 0 < d) (hp : p.Perm (List.range dims.length)) (a m : Nat → α) (pos : Nat)
    (h : Permute.prod (Permute.newDims p dims) ≤ pos) :
    applyWrites (Permute.movesWrites a (Permute.permuteMoves s v p dims)) m pos = m pos :=
  (C14.permute_correct s v p dims hne hpos hp a m).2.2.1 pos h

section InvLeaf
variable {β : Type} [Zero β] [One β] [Add β] [Sub β] [Neg β] [Mul β] [Div β]

/-- **`_inverse<T,n>`, `n ≤ 4`** (the generic scalar adjugate forms): the result depends on `src[0 .. n*n)` only — two
    sources that agree there give the same inverse, so nothing outside the operand is read -/
theorem inverse_leaf_reads_in_operand (n : Nat) (hn : 1 ≤ n ∧ n ≤ 4) (s s' : Nat → β)
    (h : ∀ k, k < n * n → s k = s' k) : Inv.leafFlat n s = Inv.leafFlat n s' := by
  obtain ⟨h1, h4⟩ := hn
  have hcases : n = 1 ∨ n = 2 ∨ n = 3 ∨ n = 4 := by omega
  rcases hcases with rfl | rfl | rfl | rfl
  · have e0 := h 0 (by omega)
    simp only [Inv.leafFlat]; unfold Inv.inv1; rw [e0]
  · have e0 := h 0 (by omega); have e1 := h 1 (by omega); have e2 := h 2 (by omega); have e3 := h 3 (by omega)
    simp only [Inv.leafFlat, Inv.inv2, e0, e1, e2, e3]
  · have e0 := h 0 (by omega); have e1 := h 1 (by omega); have e2 := h 2 (by omega); have e3 := h 3 (by omega)
    have e4 := h 4 (by omega); have e5 := h 5 (by omega); have e6 := h 6 (by omega); have e7 := h 7 (by omega)
    have e8 := h 8 (by omega)
    simp only [Inv.leafFlat, Inv.inv3, e0, e1, e2, e3, e4, e5, e6, e7, e8]
  · have e0 := h 0 (by omega); have e1 := h 1 (by omega); have e2 := h 2 (by omega); have e3 := h 3 (by omega)
    have e4 := h 4 (by omega); have e5 := h 5 (by omega); have e6 := h 6 (by omega); have e7 := h 7 (by omega)
    have e8 := h 8 (by omega); have e9 := h 9 (by omega); have e10 := h 10 (by omega); have e11 := h 11 (by omega)
    have e12 := h 12 (by omega); have e13 := h 13 (by omega); have e14 := h 14 (by omega); have e15 := h 15 (by omega)
    simp only [Inv.leafFlat, Inv.inv4, Nat.reduceMul, Nat.reduceAdd, Nat.zero_add, e0, e1, e2, e3, e4, e5, e6, e7, e8, e9, e10, e11,
      e12, e13, e14, e15]

end InvLeaf


/-! ## the `*_footprint` family for the models merged in round 3 (C04 views, C16 reductions, C19 index views, C20 layout) -/

/-- **range views, every evaluator of the flat scalar route** (C04 model, all six view classes and ranks): when the slice
    selects elements of the parent (`first_k + j_k*step_k < pdims_k` for the in-range multi-index `j`), the parent offset
    `eval_s` reads is inside the parent tensor -/
theorem views_read_footprint (v : Views.View) (hwf : v.WF) (j : List Nat) (hj : Views.InRange (Views.vdims v.axs) j)
    (hsel : Views.InRange v.pdims (List.zipWith (fun (a : Views.Ax) i => a.first + i * a.step) v.axs j)) :
    v.evalS (Views.rowMajor (Views.vdims v.axs) j) < Views.lprod v.pdims := by
  rw [C04.read_correct v hwf j hj]
  exact Views.rowMajor_lt hsel

/-- … and the vector route reads, lane by lane, what the scalar route reads at `idx + l`: the gather routes touch exactly
    the selected offsets -/
theorem views_gather_footprint (v : Views.View) (hwf : v.WF) (V idx l : Nat) (hl : l < V) :
    (v.evalV V idx)[l]? = some (v.evalS (idx + l)) := C04.evalV_lanes v hwf V idx l hl

/-- **reductions** (C16 model: unroll ladder of vector stages + scalar tail, every width and admissible ladder): the
    positions read are exactly `0 … n-1`; in particular every read is inside the operand -/
theorem reduce_footprint (n V : Nat) (us : List Nat) (hn : n < 2 ^ 64) (hg : Reduce.GoodLadder V us) (p : Nat)
    (hp : p ∈ Reduce.flat V (Reduce.vecSteps n V us) ++ Reduce.tailPos n V us) : p < n := by
  rw [C16.positions_exactly_once n V us hn hg] at hp
  exact List.mem_range.1 hp

/-- **index-tensor views** (C19 model): the lanes gathered at `i` are `it (i+l)`; with in-range indices
    (`it j < N` for `j < n`) and `i + V ≤ n` every gathered offset is inside the parent of `N` elements -/
theorem random_view_footprint (it : Nat → Nat) (n N V i : Nat) (hin : ∀ j, j < n → it j < N) (hi : i + V ≤ n)
    (x : Nat) (hx : x ∈ RandomViews.laneInds it V i) : x < N := by
  unfold RandomViews.laneInds at hx
  obtain ⟨j, hj, rfl⟩ := List.mem_map.1 hx
  obtain ⟨t, rfl, hlt⟩ := (mem_forRange (by omega : 0 < 1)).1 hj
  exact hin _ (by omega)

/-- **layout converters** (C20 model): row-major and column-major offsets of a multi-index of the shape are inside the
    `prod dims` elements of the tensor -/
theorem layout_footprint (ds is : List Nat) (h : Layout.Box ds is) :
    Layout.rowFlat ds is < Layout.prod ds ∧ Layout.colFlat ds is < Layout.prod ds :=
  ⟨Layout.rowFlat_lt h, Layout.colFlat_lt h⟩


/-- **`permute`, read side**: every source offset a move reads is inside the operand of `prod dims` elements — the C++14
    body (forward map on the output side: the source index is the loop multi-index itself) and the C++17 body (reverse map
    on the input side: the source multi-index is the loop index gathered through `permute_mapped_index`) -/
theorem permute_reads_in_operand (s : Permute.Std) (v : Permute.Variant) (p dims : List Nat) (hne : dims ≠ [])
    (hpos : ∀ d ∈ dims, 0 < d) (hp : p.Perm (List.range dims.length)) (m : Permute.Move)
    (hm : m ∈ Permute.permuteMoves s v p dims) : m.src < Permute.prod dims := by
  have hr : 0 < dims.length := List.length_pos_iff.2 hne
  cases s with
  | cxx14 =>
    simp only [Permute.permuteMoves, Permute.forwardMoves, List.mem_map] at hm
    obtain ⟨as, has, rfl⟩ := hm
    have hbox := (Permute.loopStates_mem v dims as hpos).1 has
    have hlen := hbox.length_eq
    simp only
    rw [Permute.codeIndex_eq_flat dims (List.range dims.length) as dims.length hne (by simp) (Or.inr rfl)]
    have hg : Permute.gather (List.range dims.length) as = as := by rw [← hlen]; exact Permute.gather_range as
    rw [hg]; exact Permute.flat_lt hbox
  | cxx17 =>
    have hinv := Permute.isInv_mappedIndex hr hp
    have hd := Permute.newDims_eq hp dims
    simp only [Permute.permuteMoves, Permute.reverseMoves, List.mem_map] at hm
    obtain ⟨as, has, rfl⟩ := hm
    rw [hd] at has
    have hposg : ∀ d ∈ Permute.gather p dims, 0 < d := C14.gather_pos hinv hpos
    have hbox := (Permute.loopStates_mem v (Permute.gather p dims) as hposg).1 has
    simp only
    rw [Permute.codeIndex_eq_flat dims (Permute.mappedIndex p) as dims.length hne hinv.lrev (Or.inr rfl)]
    have hb2 := Permute.gather_inBox hinv.symm (dims := Permute.gather p dims) (as := as)
      (by rw [Permute.gather_length]; exact hinv.lmi) hbox
    rw [Permute.gather_gather hinv dims rfl] at hb2
    exact Permute.flat_lt hb2


/-- a multi-index of the slice "selects an element of the parent": every `first_k + j_k*step_k` is below the parent extent -/
def Selects (v : Views.View) (j : List Nat) : Prop :=
  Views.InRange v.pdims (List.zipWith (fun (a : Views.Ax) i => a.first + i * a.step) v.axs j)

/-- **`teval_s(as)`** (the multi-index evaluator of every view class and rank) reads inside the parent -/
theorem views_teval_footprint (v : Views.View) (hwf : v.WF) (as : List Nat) (hl : v.axs.length = as.length)
    (hsel : Selects v as) : v.tevalS as < Views.lprod v.pdims := by
  rw [C04.tevalS_correct v hwf as hl]; exact Views.rowMajor_lt hsel

/-- **`teval(as)`, per-lane gather route** (last extent not a multiple of the width — the route that walks into the
    following rows): every lane that belongs to the slice (`rowMajor as + l < size`) reads the parent offset of an in-range
    multi-index of the slice, hence — when the slice selects elements of the parent — an offset inside the parent -/
theorem views_teval_gather_footprint (v : Views.View) (hwf : v.WF) (V : Nat) (as : List Nat) (hne : v.axs ≠ [])
    (has : Views.InRange (Views.vdims v.axs) as) (l : Nat) (hlV : l < V) (hr : v.route V = .gather)
    (hfit : Views.rowMajor (Views.vdims v.axs) as + l < v.size)
    (hsel : ∀ j, Views.InRange (Views.vdims v.axs) j → Selects v j) :
    ∃ x, (v.tevalV V as)[l]? = some x ∧ x < Views.lprod v.pdims := by
  obtain ⟨j, hj, _, hx⟩ := C04.tevalV_gather_route v hwf V as hne has l hlV hr hfit
  exact ⟨_, hx, Views.rowMajor_lt (hsel j hj)⟩

/-- **two-index evaluators of the 2-D views** (`eval_s(i,j)`, and lane `l` of `eval(i,j)` on both routes) -/
theorem views_eval2_footprint (cls : Views.Cls) (h2 : Views.is2D cls) (m n : Nat) (a0 a1 : Views.Ax) (V i j l : Nat) (hl : l < V)
    (hsel : Selects (Views.View.mk cls [m, n] [a0, a1]) [i, j + l]) :
    ∃ x, ((Views.View.mk cls [m, n] [a0, a1]).eval2V V i j).2[l]? = some x ∧ x < Views.lprod [m, n] := by
  obtain ⟨_, h, _⟩ := C04.eval2_correct cls h2 m n a0 a1 V i j l hl
  exact ⟨_, h, Views.rowMajor_lt hsel⟩


/-- **consumer loop `trivial_assign`** (tensor constructed from / compound-assigned with a view, every size and width):
    every store goes to a position below `size()` of the result -/
theorem views_consumer_footprint (v : Views.View) (hwf : v.WF) (V : Nat) (hV : 0 < V) (w : Nat × Nat)
    (hw : w ∈ v.trivialWrites V) : w.1 < v.size := by
  by_contra h
  have hnone := ((C04.trivial_assign_correct v hwf V hV) w.1).2 h
  exact (lastWrite_none_iff _ _).1 hnone w hw rfl


/-- **reshape / flatten / squeeze maps** (C20 model: views of the same base pointer): an element accessed through the
    reshaped map with an index of the NEW shape lies inside the wrapped extent `[base, base + prod dims)` of the original —
    given the `static_assert` of `reshape` (equal products); `flatten` and `squeeze` are instances -/
theorem map_reshape_footprint (v : MapAlias.View) (shapes idx : List Nat) (hprod : Layout.prod shapes = Layout.prod v.dims)
    (hidx : Layout.Box shapes idx) :
    (MapAlias.reshape v shapes).base + Layout.flatIndex (MapAlias.reshape v shapes).dims idx < v.base + Layout.prod v.dims := by
  unfold MapAlias.reshape
  simp only
  rw [C20.flatIndex_rowmajor shapes idx hidx.length_eq]
  have := Layout.rowFlat_lt hidx
  unfold Layout.rowOffset
  omega

theorem map_flatten_squeeze_footprint (v : MapAlias.View) :
    (∀ idx, Layout.Box (MapAlias.flatten v).dims idx →
      (MapAlias.flatten v).base + Layout.flatIndex (MapAlias.flatten v).dims idx < v.base + Layout.prod v.dims) ∧
    (∀ idx, Layout.Box (MapAlias.squeeze v).dims idx →
      (MapAlias.squeeze v).base + Layout.flatIndex (MapAlias.squeeze v).dims idx < v.base + Layout.prod v.dims) := by
  constructor
  · intro idx h
    exact map_reshape_footprint v [Layout.prod v.dims] idx (by simp [Layout.prod]) h
  · intro idx h
    exact map_reshape_footprint v (v.dims.filter (· != 1)) idx (C20.prod_filter_ne_one v.dims) h

end Fastor.C07
