import FastorModel.Proofs.Network
import FastorModel.Proofs.Einsum
/-
# C15 — einsum of three or more operands

Property: for three or more operands, einsum returns the tensor whose free indices are the
non-repeated indices in order of first appearance across the operand index lists and whose elements
equal the full Einstein sum of the operand products, whichever pairwise evaluation order the
compile-time cost model selects and whether operation minimisation is enabled or disabled.  The
result's extents and element order therefore never depend on operand sizes.

Reading of the statements (model: `Model/Network.lean`).
* `triplet A B C` / `quartet A B C D` are the cost-model metafunctions; `.variant` is the evaluation
  order they select (it depends on the extents), `.res` the index list and extents of the tensor that
  the selected chain of pairwise contractions *computes*.  `declared ops` is what the return type
  says: the free indices in order of first appearance.  `eval3`/`eval4` are the evaluations,
  `directVals` the single loop nest used with operation minimisation off.
* Hypotheses: `AtMostTwice ops` (every index name occurs at most twice over all operands),
  `WF A` (`A.idx.length = A.dims.length`), and for the value theorems `Cons ext A`
  (`A.dims = A.idx.map ext`: every occurrence of a name carries the extent `ext` gives it).

What is proved.
* N1 `pairRes_idx_count`, `pairRes_idx_nodup`, `free_set`: the index list of a pairwise result.
* N2 `triplet_res_perm`, `quartet_res_perm`: whatever the cost model selects, the computed result
  has the declared free indices *as a set with their extents* (a permutation of the declared list,
  extents travelling with the names).
* N3 `index_order_partial`: the computed result IS the declared one (same order, same extents)
  whenever the selected variant is not 1, and for variant 1 when operand 1 or operand 0 has no free
  index.  `index_order_iff`: this condition is exact.
* N4 `index_order_counterexample`: **the full index-order statement is false of the current code**:
  `einsum<Index<0,1>,Index<2,3>,Index<1,3>>` on 2x6, 3x7, 6x7 selects variant 1 and computes the
  layout (2,0) although (0,2) is declared (known finding F9).  `order_depends_on_extents`: the same
  index lists with other extents give the declared order, so the element order depends on sizes.
* N5 `associativity_v0/v1/v2`: Einstein(Einstein(X,Y),Z) = Einstein(A,B,C) for the three shapes, at
  the level of named assignments (`einsteinSum`), under `AtMostTwice`.  `eval3_value_partial`,
  `eval4_value_partial`: for every variant, the cell of the computed result addressed by the free
  names of `σ` (in the computed order) holds the full Einstein sum — *relative to* the hypothesis
  `PairwiseCorrect` (the pairwise loop nest computes the pairwise Einstein sum; that is property C03's
  loop-nest theorem restated over named assignments; it is not proved here, hence `_partial`).
* N6 `direct_order`: with operation minimisation off the result order is the declared one.
-/
namespace Fastor.C15
open Fastor.Einsum Fastor.Network

/-! ### N1: the index list of a pairwise result -/

theorem pairRes_idx_count (A B : Operand) (x : Nat) :
    x ∈ (pairRes A B).idx ↔ (A.idx ++ B.idx).count x = 1 :=
  mem_resultIdx

theorem pairRes_idx_nodup (A B : Operand) : (pairRes A B).idx.Nodup :=
  Network.resultIdx_nodup _

/-- under `AtMostTwice` an index of the pair is either free (in the result) or contracted (occurs
    exactly twice), never both -/
theorem free_set (A B : Operand) (h : AtMostTwice [A, B]) (x : Nat) :
    x ∈ (pairRes A B).idx ↔ (x ∈ A.idx ++ B.idx ∧ (A.idx ++ B.idx).count x ≠ 2) := by
  rw [pairRes_idx_count]
  have h2 := amt2_iff.1 h x
  rw [← List.count_append] at h2
  constructor
  · intro h1
    exact ⟨List.count_pos_iff.1 (by omega), by omega⟩
  · rintro ⟨h1, h3⟩
    have := List.count_pos_iff.2 h1
    omega

/-! ### N2: the computed result has the declared free indices and extents, up to order -/

/-- **N2.**  Whatever variant the cost model selects (the extents are universally quantified). -/
theorem triplet_res_perm (A B C : Operand) (hA : WF A) (hB : WF B) (hC : WF C)
    (h : AtMostTwice [A, B, C]) :
    (triplet A B C).res.idx.Perm (declared [A, B, C]).idx ∧
    ((triplet A B C).res.idx.zip (triplet A B C).res.dims).Perm
      ((declared [A, B, C]).idx.zip (declared [A, B, C]).dims) :=
  ⟨triplet_idx_perm h, triplet_zp_perm hA hB hC h⟩

/-- **N2'.**  Four operands. -/
theorem quartet_res_perm (A B C D : Operand) (hA : WF A) (hB : WF B) (hC : WF C) (hD : WF D)
    (h : AtMostTwice [A, B, C, D]) :
    (quartet A B C D).res.idx.Perm (declared [A, B, C, D]).idx ∧
    ((quartet A B C D).res.idx.zip (quartet A B C D).res.dims).Perm
      ((declared [A, B, C, D]).idx.zip (declared [A, B, C, D]).dims) :=
  ⟨quartet_idx_perm hA hB hC hD h, quartet_zp_perm hA hB hC hD h⟩

/-! ### N3: where the index order is the declared one -/

/-- **N3.**  The computed result equals the declared one — same index order, same extents — if the
    selected variant is not 1, or operand 1 has no free index, or operand 0 has no free index. -/
theorem index_order_partial (A B C : Operand) (hA : WF A) (hB : WF B) (hC : WF C)
    (h : AtMostTwice [A, B, C])
    (hv : (triplet A B C).variant ≠ 1 ∨ freeIn [A, B, C] B = [] ∨ freeIn [A, B, C] A = []) :
    (triplet A B C).res = declared [A, B, C] := by
  by_cases h0 : (triplet A B C).variant = 0
  · rw [triplet_res_v0 h0]; exact res_v0 hA hB hC h
  · by_cases h1 : (triplet A B C).variant = 1
    · rw [triplet_res_v1 h1]
      rcases hv with hv | hv
      · exact absurd h1 hv
      · exact res_v1 hA hB hC h hv
    · rw [triplet_res_v2 h0 h1]; exact res_v2 hA hB hC h

/-- the condition of `index_order_partial` is exact (index lists only; no hypothesis on extents) -/
theorem index_order_iff (A B C : Operand) (h : AtMostTwice [A, B, C]) :
    (triplet A B C).res.idx = (declared [A, B, C]).idx ↔
      ((triplet A B C).variant ≠ 1 ∨ freeIn [A, B, C] B = [] ∨ freeIn [A, B, C] A = []) := by
  by_cases h0 : (triplet A B C).variant = 0
  · rw [triplet_res_v0 h0]
    exact ⟨fun _ => Or.inl (by omega), fun _ => idx_v0 h⟩
  · by_cases h1 : (triplet A B C).variant = 1
    · rw [triplet_res_v1 h1, idx_v1_eq_iff h]
      constructor
      · exact fun hf => Or.inr hf
      · rintro (hv | hf)
        · exact absurd h1 hv
        · exact hf
    · rw [triplet_res_v2 h0 h1]
      exact ⟨fun _ => Or.inl h1, fun _ => idx_v2 h⟩

/-- in variant 1 the computed order is: free indices of operand 1, then of operand 0, then of
    operand 2 -/
theorem index_order_variant1 (A B C : Operand) (h : AtMostTwice [A, B, C])
    (hv : (triplet A B C).variant = 1) :
    (triplet A B C).res.idx = freeIn [A, B, C] B ++ freeIn [A, B, C] A ++ freeIn [A, B, C] C ∧
    (declared [A, B, C]).idx = freeIn [A, B, C] A ++ freeIn [A, B, C] B ++ freeIn [A, B, C] C := by
  rw [triplet_res_v1 hv]
  exact ⟨idx_v1 h, declared3_idx_split⟩

/-! ### N4: the full index-order statement is false of the current code -/

/-- the instance of known finding F9 -/
def exA : Operand := ⟨[0, 1], [2, 6]⟩
def exB : Operand := ⟨[2, 3], [3, 7]⟩
def exC : Operand := ⟨[1, 3], [6, 7]⟩

/-- **N4.**  Variant 1 is selected, the computed layout is `(2,0)` with extents `3x2`, the declared
    one is `(0,2)` with extents `2x3`. -/
theorem index_order_counterexample :
    (triplet exA exB exC).variant = 1 ∧
    (triplet exA exB exC).res.idx ≠ (declared [exA, exB, exC]).idx ∧
    (triplet exA exB exC).res = ⟨[2, 0], [3, 2]⟩ ∧
    declared [exA, exB, exC] = ⟨[0, 2], [2, 3]⟩ := by
  simp only [triplet, argmin4]
  decide

/-- the same index lists with other extents (names 0,1 exchanged their extents 2 and 6) select
    variant 2 and give the declared order: the computed element order depends on operand sizes -/
theorem order_depends_on_extents :
    (triplet ⟨[0, 1], [2, 6]⟩ ⟨[2, 3], [3, 7]⟩ ⟨[1, 3], [6, 7]⟩).res.idx = [2, 0] ∧
    (triplet ⟨[0, 1], [6, 2]⟩ ⟨[2, 3], [3, 7]⟩ ⟨[1, 3], [2, 7]⟩).res.idx = [0, 2] ∧
    (triplet ⟨[0, 1], [6, 2]⟩ ⟨[2, 3], [3, 7]⟩ ⟨[1, 3], [2, 7]⟩).variant = 2 := by
  simp only [triplet, argmin4]
  decide

/-! ### N5: values -/

section Values
variable {R : Type} [CommSemiring R] (ext : Nat → Nat)

/-- **N5, shape `(A·B)·C`.**  If `pv` holds the Einstein sum of `A,B` — the cell addressed by the free
    names of `τ` is the sum over all assignments of the names contracted inside the pair — then the
    Einstein sum of the pair result with `C` is the Einstein sum of the three operands: summing first
    over the names internal to the pair and then over the rest is summing over all contracted names
    at once. -/
theorem associativity_v0 (A B C : Operand) (a b c pv : List R) (h : AtMostTwice [A, B, C])
    (hpv : ∀ τ, (∀ x ∈ (pairRes A B).idx, τ x < ext x) →
      pv.getD (offset (pairRes A B) τ) 0 = einsteinSum ext [A, B] [a, b] τ)
    (σ : Nat → Nat) (hσ : ∀ x ∈ (declared [A, B, C]).idx, σ x < ext x) :
    einsteinSum ext [pairRes A B, C] [pv, c] σ = einsteinSum ext [A, B, C] [a, b, c] σ :=
  einstein_assoc_v0 ext A B C a b c pv h hpv σ hσ

/-- **N5, shape `B·(A·C)`** (variant 1) -/
theorem associativity_v1 (A B C : Operand) (a b c pv : List R) (h : AtMostTwice [A, B, C])
    (hpv : ∀ τ, (∀ x ∈ (pairRes A C).idx, τ x < ext x) →
      pv.getD (offset (pairRes A C) τ) 0 = einsteinSum ext [A, C] [a, c] τ)
    (σ : Nat → Nat) (hσ : ∀ x ∈ (declared [A, B, C]).idx, σ x < ext x) :
    einsteinSum ext [B, pairRes A C] [b, pv] σ = einsteinSum ext [A, B, C] [a, b, c] σ :=
  einstein_assoc_v1 ext A B C a b c pv h hpv σ hσ

/-- **N5, shape `A·(B·C)`** (variants 2 and 3) -/
theorem associativity_v2 (A B C : Operand) (a b c pv : List R) (h : AtMostTwice [A, B, C])
    (hpv : ∀ τ, (∀ x ∈ (pairRes B C).idx, τ x < ext x) →
      pv.getD (offset (pairRes B C) τ) 0 = einsteinSum ext [B, C] [b, c] τ)
    (σ : Nat → Nat) (hσ : ∀ x ∈ (declared [A, B, C]).idx, σ x < ext x) :
    einsteinSum ext [A, pairRes B C] [a, pv] σ = einsteinSum ext [A, B, C] [a, b, c] σ :=
  einstein_assoc_v2 ext A B C a b c pv h hpv σ hσ

/-- the order in which the contracted names are summed is irrelevant: any duplicate-free enumeration
    of the repeated names gives `einsteinSum` -/
theorem einsteinSum_any_order (ops : List Operand) (vals : List (List R)) (ns : List Nat)
    (hnd : ns.Nodup) (hns : ∀ x, x ∈ ns ↔ 2 ≤ (ops.flatMap (·.idx)).count x) (σ : Nat → Nat) :
    sumOver ext ns σ (term ops vals) = einsteinSum ext ops vals σ :=
  sumOver_of_mem_iff ext hnd (contracted_nodup _) (fun x => by rw [hns, mem_contracted]) σ _

/-- **the bridge to C03.**  `LoopnestCell R` is the cell-wise loop-nest theorem of the pairwise einsum
    (C03, `Pair.loopnest_cell`: the cell with in-range multi-index `m` holds the sum of the terms of
    all loop assignments whose free part is `m`), stated with model definitions only.  It yields the
    pairwise fact over *named* assignments: the cell of `pairVals A B a b` addressed by the free names
    of `σ` holds `einsteinSum ext [A, B] [a, b] σ`. -/
theorem pairwise_of_loopnest_cell (hcell : LoopnestCell R) : PairwiseCorrect R ext :=
  pairwiseCorrect_of_loopnestCell ext hcell

/-- **N5, executable evaluation, 3 operands (partial: relative to the pairwise loop-nest theorem).**
    For every variant the cost model can select, the cell of the computed buffer addressed — in the
    computed index order `(eval3 …).1` — by the free names of `σ` holds the full Einstein sum of the
    three operands.  The only thing missing for the unconditional statement is `hcell`, which is
    exactly the statement of C03's `Pair.loopnest_cell` (proved in the C03 development; see the note at
    the end of this file for the three-line join). -/
theorem eval3_value_partial (hcell : LoopnestCell R) (A B C : Operand)
    (hA : Cons ext A) (hB : Cons ext B) (hC : Cons ext C) (h : AtMostTwice [A, B, C])
    (a b c : List R) (σ : Nat → Nat) (hσ : ∀ x ∈ (declared [A, B, C]).idx, σ x < ext x) :
    (eval3 A B C a b c).2.getD (offset (eval3 A B C a b c).1 σ) 0
      = einsteinSum ext [A, B, C] [a, b, c] σ :=
  eval3_value_of_pairwise ext (pairwiseCorrect_of_loopnestCell ext hcell) A B C hA hB hC h a b c σ hσ

/-- **N5, executable evaluation, 4 operands (partial in the same sense).** -/
theorem eval4_value_partial (hcell : LoopnestCell R) (A B C D : Operand)
    (hA : Cons ext A) (hB : Cons ext B) (hC : Cons ext C) (hD : Cons ext D)
    (h : AtMostTwice [A, B, C, D]) (a b c d : List R) (σ : Nat → Nat)
    (hσ : ∀ x ∈ (declared [A, B, C, D]).idx, σ x < ext x) :
    (eval4 A B C D a b c d).2.getD (offset (eval4 A B C D a b c d).1 σ) 0
      = einsteinSum ext [A, B, C, D] [a, b, c, d] σ :=
  eval4_value_of_pairwise ext (pairwiseCorrect_of_loopnestCell ext hcell) A B C D hA hB hC hD h
    a b c d σ hσ

/-- the index list and extents `eval3` reports are those of the cost model's plan -/
theorem eval3_result (A B C : Operand) (a b c : List R) :
    (eval3 A B C a b c).1 = (triplet A B C).res :=
  eval3_fst A B C a b c

end Values

/-! ### N6: operation minimisation off -/

/-- **N6.**  The single loop nest produces the declared index order and extents by construction. -/
theorem direct_order {α : Type} [Zero α] [Add α] [Mul α] (ops : List Operand) (vals : List (List α)) :
    (directVals ops vals).1 = declared ops := rfl

/-! ### non-vacuity -/

/-- a decidable sufficient test for `AtMostTwice` -/
theorem atMostTwice_of_forall_mem (ops : List Operand)
    (h : ∀ x ∈ ops.flatMap (·.idx), (ops.flatMap (·.idx)).count x ≤ 2) : AtMostTwice ops := by
  intro x
  by_cases hx : x ∈ ops.flatMap (·.idx)
  · exact h x hx
  · rw [List.count_eq_zero_of_not_mem hx]; omega

/-- extents by name for the examples: names 0..4 have extents 2, 6, 3, 7, 5 -/
def exExt : Nat → Nat := fun x => [2, 6, 3, 7, 5].getD x 0
def exD : Operand := ⟨[0, 4], [2, 5]⟩

example : AtMostTwice [exA, exB] := atMostTwice_of_forall_mem _ (by decide)
example : AtMostTwice [exA, exB, exC] := atMostTwice_of_forall_mem _ (by decide)
example : AtMostTwice [exA, exB, exC, exD] := atMostTwice_of_forall_mem _ (by decide)
example : WF exA ∧ WF exB ∧ WF exC ∧ WF exD := by decide
example : Cons exExt exA ∧ Cons exExt exB ∧ Cons exExt exC ∧ Cons exExt exD := by decide
/-- the hypothesis of `index_order_partial` is met by a chain (variant 2 is selected) … -/
example : (triplet ⟨[0, 1], [2, 3]⟩ ⟨[1, 2], [3, 4]⟩ ⟨[2, 3], [4, 2]⟩).variant ≠ 1 := by
  simp only [triplet, argmin4]; decide
/-- … and by a variant-1 instance in which operand 0 has no free index -/
example : (triplet ⟨[1], [6]⟩ ⟨[2, 3], [3, 7]⟩ ⟨[1, 3], [6, 7]⟩).variant = 1 ∧
    freeIn [⟨[1], [6]⟩, ⟨[2, 3], [3, 7]⟩, ⟨[1, 3], [6, 7]⟩] ⟨[1], [6]⟩ = [] := by
  simp only [triplet, argmin4]; decide
/-- the specification computes what one expects: row 1 of `[[1,2],[3,4]]` times column 0 of
    `[[5,6],[7,8]]` is `3*5 + 4*7` -/
example : einsteinSum (R := Nat) (fun _ => 2) [⟨[0, 1], [2, 2]⟩, ⟨[1, 2], [2, 2]⟩]
    [[1, 2, 3, 4], [5, 6, 7, 8]] (fun x => if x = 0 then 1 else 0) = 43 := by decide
/-- an in-range assignment of the free names of the example network -/
example : ∀ x ∈ (declared [exA, exB, exC]).idx, (fun _ => 1) x < exExt x := by decide

/-- the pairwise loop-nest fact is the C03 theorem `Fastor.Einsum.Pair.loopnest_cell` -/
theorem loopnestCell_holds {R : Type} [CommSemiring R] : LoopnestCell R :=
  fun p hI hJ a b _ hm => Fastor.Einsum.Pair.loopnest_cell p hI hJ a b hm

/-- **C15, values, 3 operands (unconditional).**  For every variant the cost model can pick, the cell
    of the computed result addressed (in the computed index order) by the free names of `σ` holds the
    full Einstein sum of the three operands. -/
theorem eval3_value {R : Type} [CommSemiring R] (ext : Nat → Nat) (A B C : Operand)
    (hA : Cons ext A) (hB : Cons ext B) (hC : Cons ext C) (h : AtMostTwice [A, B, C])
    (a b c : List R) (σ : Nat → Nat) (hσ : ∀ x ∈ (declared [A, B, C]).idx, σ x < ext x) :
    (eval3 A B C a b c).2.getD (offset (eval3 A B C a b c).1 σ) 0
      = einsteinSum ext [A, B, C] [a, b, c] σ :=
  eval3_value_partial ext loopnestCell_holds A B C hA hB hC h a b c σ hσ

/-- **C15, values, 4 operands (unconditional).** -/
theorem eval4_value {R : Type} [CommSemiring R] (ext : Nat → Nat) (A B C D : Operand)
    (hA : Cons ext A) (hB : Cons ext B) (hC : Cons ext C) (hD : Cons ext D)
    (h : AtMostTwice [A, B, C, D]) (a b c d : List R) (σ : Nat → Nat)
    (hσ : ∀ x ∈ (declared [A, B, C, D]).idx, σ x < ext x) :
    (eval4 A B C D a b c d).2.getD (offset (eval4 A B C D a b c d).1 σ) 0
      = einsteinSum ext [A, B, C, D] [a, b, c, d] σ :=
  eval4_value_partial ext loopnestCell_holds A B C D hA hB hC hD h a b c d σ hσ

/-
(historical note) Join with C03 (to be enabled once `FastorModel/Proofs/Einsum.lean` of the C03 development is in the
tree; checked against its current version, axioms: propext, Classical.choice, Quot.sound):

  import FastorModel.Proofs.Einsum
  theorem loopnestCell_holds {R : Type} [CommSemiring R] : LoopnestCell R :=
    fun p hI hJ a b _ hm => Fastor.Einsum.Pair.loopnest_cell p hI hJ a b hm
  -- then `eval3_value_partial ext loopnestCell_holds …` and `eval4_value_partial ext loopnestCell_holds …`
  -- are the unconditional value theorems.
-/

end Fastor.C15
