import FastorModel.Model.Network
namespace Fastor.C15
/-- placeholder while the C15 theorems are being written -/
theorem placeholder_true : True := trivial
end Fastor.C15
