import Mathlib.Algebra.Ring.Defs
import Mathlib.Tactic.Ring
import FastorModel.Model.Lazy
/-
# C09 — Lazy linear-algebra operators give the same result as their eager counterparts

Property: replacing, anywhere inside an expression, a lazy operator (here: the lazy matrix product
`%`, and chains of it) by the corresponding immediately evaluating function does not change the value
assigned, for the assignment operators and for any surrounding arithmetic, including when the
destination tensor also appears as an element-wise operand on the right-hand side.

Reading of the statements.
* `LExpr` is an expression tree over named `n × n` tensors with element-wise `+ - *` and the lazy
  product `mm`; `denote n e σ` is its eager meaning in the store `σ` (every `mm` evaluated as a matrix
  product of the eager meanings of its operands).
* `assignS n op dst e σ` is the model of what `dst op= e` really does: the overload table of
  binary_arithmetic_assignment.h / binary_matmul_op.h (two-step staging `assign(dst,l); assign_op(dst,r)`,
  the alias check `does_alias(dst, r)` with its temporary, the whole-expression temporary for `*=`,
  the gemm-style accumulation of a lazy product).
* `staged_eq_denote`: over any commutative ring, for every tree, every store and `op ∈ {+=, -=, *=}`
  — with the destination allowed ANYWHERE in the tree, element-wise or inside products — the staged
  assignment leaves `op(σ dst, denote e σ)` in `dst` and changes nothing else.  For plain `=` the same
  holds when the destination does not occur in the tree, which is how the library uses it: `D = e` on an
  owning tensor first builds a temporary from `e` (`assign_via_temporary`).
* The model is the code after the two `fix:` commits in /repo (before them the alias branch used a copy
  of `dst` instead of the aliasing operand: `D += (A % B) + (D * A)` added `D`; the check found it).
-/
namespace Fastor.C09
open Fastor Fastor.Lazy

variable {R : Type} [CommRing R]

theorem upd_upd (σ : Store R) (dst : Nat) (v w : Nat → R) : upd (upd σ dst v) dst w = upd σ dst w := by
  funext x; unfold upd; split <;> rfl

theorem upd_self (σ : Store R) (dst : Nat) (v : Nat → R) : upd σ dst v dst = v := by simp [upd]

/-- the eager meaning only looks at the leaves -/
theorem denote_upd_of_not_aliases (n : Nat) (e : LExpr) (σ : Store R) (dst : Nat) (v : Nat → R)
    (h : e.aliases dst = false) : denote n e (upd σ dst v) = denote n e σ := by
  induction e with
  | leaf x =>
    simp only [LExpr.aliases, beq_eq_false_iff_ne, ne_eq] at h
    simp [denote, upd, h]
  | ew op l r ihl ihr =>
    simp only [LExpr.aliases, Bool.or_eq_false_iff] at h
    simp only [denote, ihl h.1, ihr h.2]
  | mm l r ihl ihr =>
    simp only [LExpr.aliases, Bool.or_eq_false_iff] at h
    simp only [denote, ihl h.1, ihr h.2]

theorem ewAssign_eq (op : AOp) (dst : Nat) (v : Nat → R) (σ : Store R) :
    ewAssign op dst v σ = upd σ dst (fun p => op.ap (σ dst p) (v p)) := rfl

/-- **C09 (staged = eager).** -/
theorem staged_eq_denote (n : Nat) (e : LExpr) (op : AOp) (dst : Nat) (σ : Store R)
    (hset : op = .set → e.aliases dst = false) :
    (assignS n op dst e σ).1 = upd σ dst (fun p => op.ap (σ dst p) (denote n e σ p)) := by
  induction e generalizing op σ with
  | leaf x =>
    unfold assignS
    split
    · rename_i h
      have := hset h.1
      simp [LExpr.aliases, h.2] at this
    · rfl
  | mm l r _ _ => rfl
  | ew eo l r ihl ihr =>
    unfold assignS
    split
    · rfl
    · rename_i hne
      -- staged paths
      have hstep : ∀ (x y : AOp) (hx : x ≠ .set) (hy : y ≠ .set)
          (halg : ∀ d L Rr : R, y.ap (x.ap d L) Rr = op.ap d (eo.ap L Rr)),
          (if (!r.aliases dst) = true then
              ((assignS n y dst r (assignS n x dst l σ).1).1, (assignS n x dst l σ).2 + (assignS n y dst r (assignS n x dst l σ).1).2)
            else (ewAssign y dst (denote n r σ) (assignS n x dst l σ).1, (assignS n x dst l σ).2 + 1)).1
          = upd σ dst (fun p => op.ap (σ dst p) (denote n (.ew eo l r) σ p)) := by
        intro x y hx hy halg
        split
        · rename_i hna
          have hna' : r.aliases dst = false := by simpa using hna
          simp only []
          rw [ihl x σ (fun h => absurd h hx), ihr y _ (fun h => absurd h hy), upd_upd]
          congr 1; funext p
          simp only [upd_self, denote_upd_of_not_aliases n r σ dst _ hna', denote]
          exact halg _ _ _
        · simp only []
          rw [ihl x σ (fun h => absurd h hx), ewAssign_eq, upd_upd]
          congr 1; funext p
          simp only [upd_self, denote]
          exact halg _ _ _
      have hsetstep : ∀ (y : AOp) (hy : y ≠ .set) (hop : op = .set)
          (halg : ∀ L Rr : R, y.ap L Rr = eo.ap L Rr),
          ((assignS n y dst r (assignS n .set dst l σ).1).1)
          = upd σ dst (fun p => op.ap (σ dst p) (denote n (.ew eo l r) σ p)) := by
        intro y hy hop halg
        have hal := hset hop
        simp only [LExpr.aliases, Bool.or_eq_false_iff] at hal
        rw [ihl .set σ (fun _ => hal.1), ihr y _ (fun h => absurd h hy), upd_upd]
        congr 1; funext p
        simp only [upd_self, denote_upd_of_not_aliases n r σ dst _ hal.2, denote, hop, AOp.ap]
        exact halg _ _
      cases op <;> cases eo
      · exact hsetstep .add (by decide) rfl (fun _ _ => rfl)
      · exact hsetstep .sub (by decide) rfl (fun _ _ => rfl)
      · exact hsetstep .mul (by decide) rfl (fun _ _ => rfl)
      · exact hstep .add .add (by decide) (by decide) (fun d L Rr => by simp only [AOp.ap, EOp.ap]; ring)
      · exact hstep .add .sub (by decide) (by decide) (fun d L Rr => by simp only [AOp.ap, EOp.ap]; ring)
      · rfl
      · exact hstep .sub .sub (by decide) (by decide) (fun d L Rr => by simp only [AOp.ap, EOp.ap]; ring)
      · exact hstep .sub .add (by decide) (by decide) (fun d L Rr => by simp only [AOp.ap, EOp.ap]; ring)
      · rfl
      · rfl
      · rfl
      · rfl

/-- plain `=` on an owning tensor: the expression is first evaluated into a fresh temporary `tmp`
    (a name that does not occur in `e`), which is then copied into `dst`; whatever `e` reads. -/
theorem assign_via_temporary (n : Nat) (e : LExpr) (dst tmp : Nat) (σ : Store R)
    (htmp : e.aliases tmp = false) :
    let s1 := (assignS n .set tmp e σ).1
    upd s1 dst (s1 tmp) dst = denote n e σ := by
  intro s1
  have h : s1 = upd σ tmp (fun p => denote n e σ p) := by
    have := staged_eq_denote n e .set tmp σ (fun _ => htmp)
    simpa [AOp.ap] using this
  rw [upd_self, h, upd_self]

/-- the frame: no other tensor changes -/
theorem staged_frame (n : Nat) (e : LExpr) (op : AOp) (dst x : Nat) (σ : Store R)
    (hset : op = .set → e.aliases dst = false) (hx : x ≠ dst) :
    (assignS n op dst e σ).1 x = σ x := by
  rw [staged_eq_denote n e op dst σ hset]; simp [upd, hx]

/-- non-vacuity: the pattern that exposed the defect, `D += (A % B) + (D * A)`, with D = tensor 0 -/
example : (LExpr.ew .add (.mm (.leaf 1) (.leaf 2)) (.ew .mul (.leaf 0) (.leaf 1))).aliases 0 = true ∧
    (LExpr.ew .add (.mm (.leaf 1) (.leaf 2)) (.ew .mul (.leaf 0) (.leaf 1))).needsEval = true := by decide

end Fastor.C09
