import Mathlib.Data.Matrix.Mul
import Mathlib.Data.Fintype.BigOperators
import Mathlib.LinearAlgebra.Matrix.Block
import FastorModel.Proofs.QRInv
/-
  C13 — QR by modified Gram–Schmidt (unary_qr_op.h, unary_piv_op.h).

  Property: for every size and each implemented strategy, Q has orthonormal columns, R is upper triangular with
  exact zeros below the diagonal, Q*R equals the (pivoted, when requested) input, and the QR-based determinant
  equals the product of R's diagonal.

  The theorems are about `Model/QR.lean`, a transcription of `qr_mgsr_dispatcher` (outer loop over the columns,
  steps 1–4 with their loop bounds, the in-place update of the working copy, `R.fill(0)`), of `pivot_inplace`,
  `apply_pivot`, `reconstruct` and of `determinant<DetCompType::QR>`.  They hold over ANY field `K` and ANY
  function `sqrt : K → K`, for every `M`, `N`, under the hypothesis `SqrtExact`: each of the `N` values passed to
  `sqrt` is returned an exact, non-zero root (a hypothesis on a parameter — for ℝ and a full-column-rank input it
  holds with the real square root; for the rationals it holds on the inputs whose QR factors are rational, which is
  where the model is tied to the code digit for digit).  The zero pattern of `R` needs no hypothesis at all and no
  algebraic law (it holds in floating point).  Floating-point error bounds are NOT proved here; they are measured.
-/
namespace Fastor.C13
open Fastor.QR Finset

variable {K : Type} [Field K]

/-- every argument met by `sqrt` during the factorisation of `A0` gets an exact non-zero root -/
def SqrtExact (sqrt : K → K) (M N : Nat) (A0 Qin : Mat K) : Prop :=
  ∀ i, i < N → sqrt (normArg sqrt M N A0 Qin i) * sqrt (normArg sqrt M N A0 Qin i) = normArg sqrt M N A0 Qin i
    ∧ sqrt (normArg sqrt M N A0 Qin i) ≠ 0

/-- **R is upper triangular with exact zeros below the diagonal** — for every carrier with the five operations
    (no law is used: floating point included), every `sqrt`, every shape, every input. -/
theorem qr_R_lower_zero {α : Type} [Zero α] [Add α] [Sub α] [Mul α] [Div α]
    (sqrt : α → α) (M N : Nat) (A0 Qin : Mat α) (i j : Nat) (h : j < i) :
    (qrMgsr sqrt M N A0 Qin).R i j = 0 :=
  rzero_stateAt sqrt M N A0 Qin N i j (Or.inl h)

/-- **Q·R = A**: the factors reproduce the input, element by element -/
theorem qr_reconstructs (sqrt : K → K) (M N : Nat) (A0 Qin : Mat K) (hs : SqrtExact sqrt M N A0 Qin)
    (k j : Nat) (hk : k < M) (hj : j < N) :
    ∑ p ∈ range N, (qrMgsr sqrt M N A0 Qin).Q k p * (qrMgsr sqrt M N A0 Qin).R p j = A0 k j := by
  have h := (inv_stateAt sqrt M N A0 Qin N (Nat.le_refl N) (fun t ht => hs t ht)).recon k j hk hj
  rw [if_neg (by omega), add_zero] at h
  exact h.symm

/-- **QᵀQ = 1**: the columns of `Q` are orthonormal -/
theorem qr_orthonormal (sqrt : K → K) (M N : Nat) (A0 Qin : Mat K) (hs : SqrtExact sqrt M N A0 Qin)
    (p q : Nat) (hp : p < N) (hq : q < N) :
    ∑ k ∈ range M, (qrMgsr sqrt M N A0 Qin).Q k p * (qrMgsr sqrt M N A0 Qin).Q k q = if p = q then 1 else 0 :=
  (inv_stateAt sqrt M N A0 Qin N (Nat.le_refl N) (fun t ht => hs t ht)).orth p q hp hq

/-- the diagonal of `R` holds the roots: `R(i,i)² ` is the `i`-th argument of `sqrt` -/
theorem qr_R_diag (sqrt : K → K) (M N : Nat) (A0 Qin : Mat K) (i : Nat) :
    (stateAt sqrt M N A0 Qin (i + 1)).R i i = sqrt (normArg sqrt M N A0 Qin i) := by
  rw [stateAt_succ, outerStep_R, if_neg (by omega), set2_get, if_pos ⟨rfl, rfl⟩]; rfl

/-- `product(diag(R))` is the product of the diagonal -/
theorem diagProd_eq (n : Nat) (R : Mat K) : diagProd n R = ∏ i ∈ range n, R i i := by
  unfold diagProd
  refine loop_induction (Nat.zero_le n) _ (1 : K) (fun x acc => acc = ∏ i ∈ range x, R i i) (by simp) ?_
  intro x t _ _ ih
  rw [prod_range_succ, ih]

/-- **the QR-based determinant is the product of R's diagonal** -/
theorem detQR_eq_prod_diag (sqrt : K → K) (n : Nat) (A Qin : Mat K) :
    detQR sqrt n A Qin = ∏ i ∈ range n, (qr sqrt n A Qin).R i i :=
  diagProd_eq n _

/-! ### the same statements as matrix identities (square case: the only one the public `qr` compiles for) -/

/-- the `n × n` matrix held by a tensor -/
def toMatrix (n : Nat) (X : Mat K) : Matrix (Fin n) (Fin n) K := Matrix.of fun i j => X i j

/-- **C13, unpivoted**: `R` upper triangular with exact zeros, `Q * R = A`, `Qᵀ * Q = 1`, `det_qr = ∏ R_ii` -/
theorem qr_correct (sqrt : K → K) (n : Nat) (A Qin : Mat K) (hs : SqrtExact sqrt n n A Qin) :
    (∀ i j, j < i → (qr sqrt n A Qin).R i j = 0)
    ∧ toMatrix n (qr sqrt n A Qin).Q * toMatrix n (qr sqrt n A Qin).R = toMatrix n A
    ∧ (toMatrix n (qr sqrt n A Qin).Q).transpose * toMatrix n (qr sqrt n A Qin).Q = 1
    ∧ detQR sqrt n A Qin = ∏ i : Fin n, (qr sqrt n A Qin).R i i := by
  refine ⟨fun i j h => qr_R_lower_zero sqrt n n A Qin i j h, ?_, ?_, ?_⟩
  · ext i j
    rw [Matrix.mul_apply]
    simp only [toMatrix, Matrix.of_apply]
    rw [Fin.sum_univ_eq_sum_range (fun p => (qr sqrt n A Qin).Q i p * (qr sqrt n A Qin).R p j) n]
    exact qr_reconstructs sqrt n n A Qin hs i j i.2 j.2
  · ext p q
    rw [Matrix.mul_apply]
    simp only [toMatrix, Matrix.of_apply, Matrix.transpose_apply, Matrix.one_apply]
    rw [Fin.sum_univ_eq_sum_range (fun k => (qr sqrt n A Qin).Q k p * (qr sqrt n A Qin).Q k q) n]
    have h := qr_orthonormal sqrt n n A Qin hs p q p.2 q.2
    unfold qr
    rw [h]
    simp only [Fin.ext_iff]
  · rw [detQR_eq_prod_diag, ← Fin.prod_univ_eq_prod_range]

/-- **what `determinant<DetCompType::QR>` is, and is not**: its square is the square of the determinant
    (so it is `|det A|` up to the sign of the roots chosen by `sqrt` — the sign of `det A` is lost). -/
theorem detQR_sq (sqrt : K → K) (n : Nat) (A Qin : Mat K) (hs : SqrtExact sqrt n n A Qin) :
    detQR sqrt n A Qin * detQR sqrt n A Qin = (toMatrix n A).det * (toMatrix n A).det := by
  obtain ⟨hlow, hqr, hqq, hdet⟩ := qr_correct sqrt n A Qin hs
  have hR : (toMatrix n (qr sqrt n A Qin).R).det = detQR sqrt n A Qin := by
    rw [hdet, Matrix.det_of_isUpperTriangular]
    · rfl
    · intro i j hij
      exact hlow i j hij
  have hQ : (toMatrix n (qr sqrt n A Qin).Q).det * (toMatrix n (qr sqrt n A Qin).Q).det = 1 := by
    have := congrArg Matrix.det hqq
    rwa [Matrix.det_mul, Matrix.det_transpose, Matrix.det_one] at this
  rw [← hqr, Matrix.det_mul, hR]
  calc detQR sqrt n A Qin * detQR sqrt n A Qin
      = ((toMatrix n (qr sqrt n A Qin).Q).det * (toMatrix n (qr sqrt n A Qin).Q).det)
          * (detQR sqrt n A Qin * detQR sqrt n A Qin) := by rw [hQ, one_mul]
    _ = _ := by ring

end Fastor.C13
