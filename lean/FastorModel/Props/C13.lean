import Mathlib.Data.Matrix.Mul
import Mathlib.Data.Fintype.BigOperators
import Mathlib.LinearAlgebra.Matrix.Block
import Mathlib.Analysis.Real.Sqrt
import Mathlib.Algebra.Order.Field.Basic
import FastorModel.Proofs.QRInv
import FastorModel.Proofs.QRPivot
import FastorModel.Proofs.QRFamily
import FastorModel.Proofs.QRRecon
import Mathlib.Tactic.NormNum
/-
  C13 — QR by modified Gram–Schmidt (unary_qr_op.h, unary_piv_op.h).

  Property: for every size and each implemented strategy, Q has orthonormal columns, R is upper triangular with
  exact zeros below the diagonal, Q*R equals the (pivoted, when requested) input, and the QR-based determinant
  equals the product of R's diagonal.

  The theorems are about `Model/QR.lean`, a transcription of `qr_mgsr_dispatcher` (outer loop over the columns,
  steps 1–4 with their loop bounds, the in-place update of the working copy, `R.fill(0)`), of `pivot_inplace`,
  `apply_pivot`, `reconstruct` and of `determinant<DetCompType::QR>`.  They hold over ANY field `K` and ANY
  function `sqrt : K → K`, for every `M`, `N`, under the hypothesis `SqrtExact`: each of the `N` values passed to
  `sqrt` is returned an exact, non-zero root (a hypothesis on a parameter — for ℝ and a full-column-rank input it
  holds with the real square root; for the rationals it holds on the inputs whose QR factors are rational, which is
  where the model is tied to the code digit for digit).  The zero pattern of `R` needs no hypothesis at all and no
  algebraic law (it holds in floating point).  Floating-point error bounds are NOT proved here; they are measured.
-/
namespace Fastor.C13
open Fastor.QR Finset

variable {K : Type} [Field K]

/-- every argument met by `sqrt` during the factorisation of `A0` gets an exact non-zero root -/
def SqrtExact (sqrt : K → K) (M N : Nat) (A0 Qin : Mat K) : Prop :=
  ∀ i, i < N → sqrt (normArg sqrt M N A0 Qin i) * sqrt (normArg sqrt M N A0 Qin i) = normArg sqrt M N A0 Qin i
    ∧ sqrt (normArg sqrt M N A0 Qin i) ≠ 0

/-- **R is upper triangular with exact zeros below the diagonal** — for every carrier with the five operations
    (no law is used: floating point included), every `sqrt`, every shape, every input. -/
theorem qr_R_lower_zero {α : Type} [Zero α] [Add α] [Sub α] [Mul α] [Div α]
    (sqrt : α → α) (M N : Nat) (A0 Qin : Mat α) (i j : Nat) (h : j < i) :
    (qrMgsr sqrt M N A0 Qin).R i j = 0 :=
  rzero_stateAt sqrt M N A0 Qin N i j (Or.inl h)

/-- **Q·R = A**: the factors reproduce the input, element by element -/
theorem qr_reconstructs (sqrt : K → K) (M N : Nat) (A0 Qin : Mat K) (hs : SqrtExact sqrt M N A0 Qin)
    (k j : Nat) (hk : k < M) (hj : j < N) :
    ∑ p ∈ range N, (qrMgsr sqrt M N A0 Qin).Q k p * (qrMgsr sqrt M N A0 Qin).R p j = A0 k j := by
  have h := (inv_stateAt sqrt M N A0 Qin N (Nat.le_refl N) (fun t ht => hs t ht)).recon k j hk hj
  rw [if_neg (by omega), add_zero] at h
  exact h.symm

/-- **Q·R = A needs only non-zero roots**: whatever `sqrt` returns — an inexact root, a rounded one, the floor of
    a root — as long as it is not zero, the factors reproduce the input exactly (the division of step 2 is undone by
    the multiplication with `R(i,i)`, and steps 3 and 4 cancel whatever `R(i,j)` is).  Exact roots are needed for
    orthogonality only.  (The exact-rational runs on arbitrary inputs check this on the real code.) -/
theorem qr_reconstructs_of_ne_zero (sqrt : K → K) (M N : Nat) (A0 Qin : Mat K)
    (hne : ∀ i, i < N → sqrt (normArg sqrt M N A0 Qin i) ≠ 0) (k j : Nat) (hk : k < M) (hj : j < N) :
    ∑ p ∈ range N, (qrMgsr sqrt M N A0 Qin).Q k p * (qrMgsr sqrt M N A0 Qin).R p j = A0 k j := by
  have h := recon_stateAt sqrt M N A0 Qin N (Nat.le_refl N) hne k j hk hj
  rw [if_neg (by omega), add_zero] at h
  exact h.symm

/-- **QᵀQ = 1**: the columns of `Q` are orthonormal -/
theorem qr_orthonormal (sqrt : K → K) (M N : Nat) (A0 Qin : Mat K) (hs : SqrtExact sqrt M N A0 Qin)
    (p q : Nat) (hp : p < N) (hq : q < N) :
    ∑ k ∈ range M, (qrMgsr sqrt M N A0 Qin).Q k p * (qrMgsr sqrt M N A0 Qin).Q k q = if p = q then 1 else 0 :=
  (inv_stateAt sqrt M N A0 Qin N (Nat.le_refl N) (fun t ht => hs t ht)).orth p q hp hq

/-- the diagonal of `R` holds the roots: `R(i,i)² ` is the `i`-th argument of `sqrt` -/
theorem qr_R_diag (sqrt : K → K) (M N : Nat) (A0 Qin : Mat K) (i : Nat) :
    (stateAt sqrt M N A0 Qin (i + 1)).R i i = sqrt (normArg sqrt M N A0 Qin i) := by
  rw [stateAt_succ, outerStep_R, if_neg (by omega), set2_get, if_pos ⟨rfl, rfl⟩]; rfl

/-- `product(diag(R))` is the product of the diagonal -/
theorem diagProd_eq (n : Nat) (R : Mat K) : diagProd n R = ∏ i ∈ range n, R i i := by
  unfold diagProd
  refine loop_induction (Nat.zero_le n) _ (1 : K) (fun x acc => acc = ∏ i ∈ range x, R i i) (by simp) ?_
  intro x t _ _ ih
  rw [prod_range_succ, ih]

/-- **the QR-based determinant is the product of R's diagonal** -/
theorem detQR_eq_prod_diag (sqrt : K → K) (n : Nat) (A Qin : Mat K) :
    detQR sqrt n A Qin = ∏ i ∈ range n, (qr sqrt n A Qin).R i i :=
  diagProd_eq n _

/-! ### the same statements as matrix identities (square case: the only one the public `qr` compiles for) -/

/-- the `n × n` matrix held by a tensor -/
def toMatrix (n : Nat) (X : Mat K) : Matrix (Fin n) (Fin n) K := Matrix.of fun i j => X i j

/-- **C13, unpivoted**: `R` upper triangular with exact zeros, `Q * R = A`, `Qᵀ * Q = 1`, `det_qr = ∏ R_ii` -/
theorem qr_correct (sqrt : K → K) (n : Nat) (A Qin : Mat K) (hs : SqrtExact sqrt n n A Qin) :
    (∀ i j, j < i → (qr sqrt n A Qin).R i j = 0)
    ∧ toMatrix n (qr sqrt n A Qin).Q * toMatrix n (qr sqrt n A Qin).R = toMatrix n A
    ∧ (toMatrix n (qr sqrt n A Qin).Q).transpose * toMatrix n (qr sqrt n A Qin).Q = 1
    ∧ detQR sqrt n A Qin = ∏ i : Fin n, (qr sqrt n A Qin).R i i := by
  refine ⟨fun i j h => qr_R_lower_zero sqrt n n A Qin i j h, ?_, ?_, ?_⟩
  · ext i j
    rw [Matrix.mul_apply]
    simp only [toMatrix, Matrix.of_apply]
    rw [Fin.sum_univ_eq_sum_range (fun p => (qr sqrt n A Qin).Q i p * (qr sqrt n A Qin).R p j) n]
    exact qr_reconstructs sqrt n n A Qin hs i j i.2 j.2
  · ext p q
    rw [Matrix.mul_apply]
    simp only [toMatrix, Matrix.of_apply, Matrix.transpose_apply, Matrix.one_apply]
    rw [Fin.sum_univ_eq_sum_range (fun k => (qr sqrt n A Qin).Q k p * (qr sqrt n A Qin).Q k q) n]
    have h := qr_orthonormal sqrt n n A Qin hs p q p.2 q.2
    unfold qr
    rw [h]
    simp only [Fin.ext_iff]
  · rw [detQR_eq_prod_diag, ← Fin.prod_univ_eq_prod_range]

/-- **what `determinant<DetCompType::QR>` is, and is not**: its square is the square of the determinant
    (so it is `|det A|` up to the sign of the roots chosen by `sqrt` — the sign of `det A` is lost). -/
theorem detQR_sq (sqrt : K → K) (n : Nat) (A Qin : Mat K) (hs : SqrtExact sqrt n n A Qin) :
    detQR sqrt n A Qin * detQR sqrt n A Qin = (toMatrix n A).det * (toMatrix n A).det := by
  obtain ⟨hlow, hqr, hqq, hdet⟩ := qr_correct sqrt n A Qin hs
  have hR : (toMatrix n (qr sqrt n A Qin).R).det = detQR sqrt n A Qin := by
    rw [hdet, Matrix.det_of_isUpperTriangular]
    · rfl
    · intro i j hij
      exact hlow i j hij
  have hQ : (toMatrix n (qr sqrt n A Qin).Q).det * (toMatrix n (qr sqrt n A Qin).Q).det = 1 := by
    have := congrArg Matrix.det hqq
    rwa [Matrix.det_mul, Matrix.det_transpose, Matrix.det_one] at this
  rw [← hqr, Matrix.det_mul, hR]
  calc detQR sqrt n A Qin * detQR sqrt n A Qin
      = ((toMatrix n (qr sqrt n A Qin).Q).det * (toMatrix n (qr sqrt n A Qin).Q).det)
          * (detQR sqrt n A Qin * detQR sqrt n A Qin) := by rw [hQ, one_mul]
    _ = _ := by ring



/-! ### over the reals with the real square root -/

/-- over `ℝ` with `Real.sqrt` the hypothesis `SqrtExact` says exactly that no working column vanishes when it is
    normalised (⇔ full column rank): a sum of squares is non-negative, so its real root is an exact root -/
theorem sqrtExact_real (M N : Nat) (A0 Qin : Mat ℝ)
    (hpos : ∀ i, i < N → normArg Real.sqrt M N A0 Qin i ≠ 0) : SqrtExact Real.sqrt M N A0 Qin := by
  intro i hi
  have h0 : 0 ≤ normArg Real.sqrt M N A0 Qin i := by
    unfold normArg
    rw [colNorm2_eq]
    exact sum_nonneg (fun k _ => mul_self_nonneg _)
  exact ⟨Real.mul_self_sqrt h0, (Real.sqrt_ne_zero h0).2 (hpos i hi)⟩

/-- **C13 for real matrices**: with the real square root, if no working column vanishes, then `R` is upper triangular,
    `Q * R = A`, `Qᵀ * Q = 1` and `det_qr = ∏ R_ii` — for every `n`. -/
theorem qr_correct_real (n : Nat) (A Qin : Mat ℝ)
    (hpos : ∀ i, i < n → normArg Real.sqrt n n A Qin i ≠ 0) :
    (∀ i j, j < i → (qr Real.sqrt n A Qin).R i j = 0)
    ∧ toMatrix n (qr Real.sqrt n A Qin).Q * toMatrix n (qr Real.sqrt n A Qin).R = toMatrix n A
    ∧ (toMatrix n (qr Real.sqrt n A Qin).Q).transpose * toMatrix n (qr Real.sqrt n A Qin).Q = 1
    ∧ detQR Real.sqrt n A Qin = ∏ i : Fin n, (qr Real.sqrt n A Qin).R i i :=
  qr_correct Real.sqrt n A Qin (sqrtExact_real n n A Qin hpos)

/-- non-vacuity: the 1×1 real matrix `[2]` -/
example : ∀ i, i < 1 → normArg Real.sqrt 1 1 (Mat.ofFn (fun _ _ => (2 : ℝ))) (Mat.ofFn (fun _ _ => 0)) i ≠ 0 := by
  intro i hi
  have : i = 0 := by omega
  subst this
  norm_num [normArg, stateAt, colNorm2, loop, List.range', initSt, Mat.ofFn]

/-! ### pivoted strategies (`QRCompType::MGSRPiv`)

  As implemented, the pivot is the partial-pivoting ROW permutation of `pivot_inplace` (arg-max of `|A(i,j)|`,
  `i ≥ j`, on the unreduced columns), applied to the rows before the factorisation: `Q * R = P * A`. -/

/-- the product `Q * R` as a tensor -/
def prodMat (n : Nat) (Q R : Mat K) : Mat K := Mat.ofFn (fun k j => ∑ p ∈ range n, Q k p * R p j)

/-- **C13, pivot returned as an index vector**: `P` is a permutation of `0..n-1`, `R` is upper triangular with exact
    zeros, `Q * R` is `A` with row `P(k)` moved to row `k`, `Q` has orthonormal columns, and the library's
    `reconstruct(Q*R, P)` gives back `A`. -/
theorem qr_pivV_correct (sqrt : K → K) (gt : K → K → Bool) (abs : K → K) (n : Nat) (A Qin : Mat K)
    (hs : SqrtExact sqrt n n (applyPivot n A (pivotPerm gt abs n A)) Qin) :
    IsPermBelow n (qrPivV sqrt gt abs n A Qin).2
    ∧ (∀ i j, j < i → (qrPivV sqrt gt abs n A Qin).1.R i j = 0)
    ∧ (∀ k j, k < n → j < n →
        ∑ p ∈ range n, (qrPivV sqrt gt abs n A Qin).1.Q k p * (qrPivV sqrt gt abs n A Qin).1.R p j
          = A ((qrPivV sqrt gt abs n A Qin).2 k) j)
    ∧ (∀ p q, p < n → q < n →
        ∑ k ∈ range n, (qrPivV sqrt gt abs n A Qin).1.Q k p * (qrPivV sqrt gt abs n A Qin).1.Q k q = if p = q then 1 else 0)
    ∧ (∀ k j, k < n → j < n →
        (reconstruct n (prodMat n (qrPivV sqrt gt abs n A Qin).1.Q (qrPivV sqrt gt abs n A Qin).1.R)
          (qrPivV sqrt gt abs n A Qin).2) k j = A k j) := by
  have hperm := pivotPerm_isPerm gt abs n A
  have hrec : ∀ k j, k < n → j < n →
      ∑ p ∈ range n, (qrPivV sqrt gt abs n A Qin).1.Q k p * (qrPivV sqrt gt abs n A Qin).1.R p j
        = A ((qrPivV sqrt gt abs n A Qin).2 k) j := by
    intro k j hk hj
    have h := qr_reconstructs sqrt n n _ Qin hs k j hk hj
    rw [applyPivot_get, if_pos hk] at h
    exact h
  refine ⟨hperm, fun i j h => qr_R_lower_zero sqrt n n _ Qin i j h, hrec,
    fun p q hp hq => qr_orthonormal sqrt n n _ Qin hs p q hp hq, ?_⟩
  intro k j hk hj
  exact reconstruct_of_rows n A _ _ hperm k j hk (fun i hi => hrec i j hi hj)

/-- **C13, pivot returned as a 0/1 matrix**: `P(k,c) = 1` exactly at `c = perm(k)`, the permutation is read back
    correctly by `std::find`, and the factors satisfy the same identities. -/
theorem qr_pivM_correct [DecidableEq K] (sqrt : K → K) (gt : K → K → Bool) (abs : K → K) (n : Nat) (A Qin : Mat K)
    (hs : SqrtExact sqrt n n
      (applyPivot n A (findOne n (permMatrix n (pivotPerm gt abs n A) : Mat K))) Qin) :
    (∀ k c, k < n → (qrPivM sqrt gt abs n A Qin).2 k c = if c = pivotPerm gt abs n A k then 1 else 0)
    ∧ IsPermBelow n (pivotPerm gt abs n A)
    ∧ (∀ i j, j < i → (qrPivM sqrt gt abs n A Qin).1.R i j = 0)
    ∧ (∀ k j, k < n → j < n →
        ∑ p ∈ range n, (qrPivM sqrt gt abs n A Qin).1.Q k p * (qrPivM sqrt gt abs n A Qin).1.R p j
          = A (pivotPerm gt abs n A k) j)
    ∧ (∀ p q, p < n → q < n →
        ∑ k ∈ range n, (qrPivM sqrt gt abs n A Qin).1.Q k p * (qrPivM sqrt gt abs n A Qin).1.Q k q = if p = q then 1 else 0) := by
  have hperm := pivotPerm_isPerm gt abs n A
  refine ⟨?_, hperm, fun i j h => qr_R_lower_zero sqrt n n _ Qin i j h, ?_,
    fun p q hp hq => qr_orthonormal sqrt n n _ Qin hs p q hp hq⟩
  · intro k c hk
    show (permMatrix n (pivotPerm gt abs n A) : Mat K) k c = _
    rw [permMatrix_get]
    by_cases hc : c = pivotPerm gt abs n A k
    · rw [if_pos ⟨hk, hc⟩, if_pos hc]
    · rw [if_neg (fun h => hc h.2), if_neg hc]
  · intro k j hk hj
    have h := qr_reconstructs sqrt n n _ Qin hs k j hk hj
    rw [applyPivot_get, if_pos hk, findOne_permMatrix n _ k hk (hperm.lt k hk)] at h
    exact h

/-! ### the hypotheses can be met (non-vacuity) -/

/-- the 2×2 matrix `[[3,1],[4,2]]` -/
def exA : Mat ℚ := Mat.ofFn (fun i j => if i = 0 then (if j = 0 then 3 else 1) else (if j = 0 then 4 else 2))
/-- a "square root" that is exact on the two arguments met: `25` and `4/25` -/
def exSqrt (x : ℚ) : ℚ := if x = 25 then 5 else 2 / 5

theorem ex_normArg0 : normArg exSqrt 2 2 exA exA 0 = 25 := by
  norm_num [normArg, stateAt, colNorm2, loop, List.range', initSt, exA, Mat.ofFn]

theorem ex_normArg1 : normArg exSqrt 2 2 exA exA 1 = 4 / 25 := by
  norm_num [normArg, stateAt, colNorm2, loop, List.range', initSt, exA, Mat.ofFn, outerStep, phase2, phase3, phase4,
    set2, exSqrt]

/-- `SqrtExact` holds for a concrete non-trivial instance: `[[3,1],[4,2]] = [[3/5,-4/5],[4/5,3/5]] * [[5,11/5],[0,2/5]]` -/
example : SqrtExact exSqrt 2 2 exA exA := by
  intro i hi
  have : i = 0 ∨ i = 1 := by omega
  rcases this with rfl | rfl
  · rw [ex_normArg0]; norm_num [exSqrt]
  · rw [ex_normArg1]; norm_num [exSqrt]

/-- and the pivot of that instance is a genuine swap (`|4| > |3|`): the pivoted hypotheses are about a permuted matrix -/
example : pivotPerm (fun a b : ℚ => decide (b < a)) (fun x => |x|) 2 exA 0 = 1 := by
  norm_num [pivotPerm, argMax, loop, List.range', swapAt, exA, Mat.ofFn]


/-! ### the family on which the model is tied to the code exactly -/

/-- **On `A0 = Q0 * R0`** (`Q0` with orthonormal columns, `R0` upper triangular, `sqrt (R0 i i ²) = R0 i i ≠ 0` —
    `QR.Fam`) the hypothesis `SqrtExact` holds, the `i`-th argument of `sqrt` is the square `R0 i i ²`, and the
    dispatcher returns exactly `Q0` and `R0`.  Over `ℚ` with the exact rational root this is the reason why the
    correspondence runs (harness/qr_rat.h) never meet a non-square and may demand `Q == Q0`, `R == R0`; it also shows
    that `SqrtExact` is met for every size. -/
theorem qr_on_family (sqrt : K → K) (M N : Nat) (A0 Qin Q0 R0 : Mat K) (hf : Fam M N A0 Q0 R0 sqrt) :
    SqrtExact sqrt M N A0 Qin
    ∧ (∀ i, i < N → normArg sqrt M N A0 Qin i = R0 i i * R0 i i)
    ∧ (∀ k p, k < M → p < N → (qrMgsr sqrt M N A0 Qin).Q k p = Q0 k p)
    ∧ (∀ p j, p < N → j < N → (qrMgsr sqrt M N A0 Qin).R p j = R0 p j) := by
  obtain ⟨h1, h2⟩ := finv_stateAt sqrt M N A0 Qin Q0 R0 hf N (Nat.le_refl N)
  refine ⟨?_, h2, fun k p hk hp => h1.fQ k p hk hp, fun p j hp hj => h1.fR p j hp hj⟩
  intro i hi
  rw [h2 i hi, (hf.root i hi).1]
  exact ⟨rfl, (hf.root i hi).2⟩

/-- the family is inhabited non-trivially: `[[3,1],[4,2]] = [[3/5,-4/5],[4/5,3/5]] * [[5,11/5],[0,2/5]]` -/
example : Fam 2 2 exA
    (Mat.ofFn (fun i j => if i = 0 then (if j = 0 then 3 / 5 else -4 / 5) else (if j = 0 then 4 / 5 else 3 / 5)))
    (Mat.ofFn (fun i j => if i = 0 then (if j = 0 then 5 else 11 / 5) else (if j < i then 0 else 2 / 5)))
    exSqrt where
  orth := by
    intro p q hp hq
    have : (p = 0 ∨ p = 1) ∧ (q = 0 ∨ q = 1) := by omega
    rcases this with ⟨rfl | rfl, rfl | rfl⟩ <;> norm_num [Mat.ofFn, sum_range_succ]
  upper := by
    intro p j h
    by_cases hp : p = 0
    · omega
    · simp [Mat.ofFn, hp, h]
  root := by
    intro i hi
    have : i = 0 ∨ i = 1 := by omega
    rcases this with rfl | rfl <;> norm_num [Mat.ofFn, exSqrt]
  prod := by
    intro k j hk hj
    have : (k = 0 ∨ k = 1) ∧ (j = 0 ∨ j = 1) := by omega
    rcases this with ⟨rfl | rfl, rfl | rfl⟩ <;> norm_num [Mat.ofFn, exA, sum_range_succ]

/-! ### the diagonal of R, uniqueness on the family -/

/-- row `i` of `R` is final once iteration `i` is over: later iterations write other rows only -/
theorem R_row_frozen (sqrt : K → K) (M N : Nat) (A0 Qin : Mat K) (i t : Nat) (h : i < t) (j : Nat) :
    (stateAt sqrt M N A0 Qin t).R i j = (stateAt sqrt M N A0 Qin (i + 1)).R i j := by
  induction t with
  | zero => omega
  | succ n ih =>
    by_cases hn : i = n
    · subst hn; rfl
    · rw [stateAt_succ, outerStep_R, if_neg (by omega), set2_get, if_neg (by omega)]
      exact ih (by omega)

/-- the diagonal of the returned `R` holds the values returned by `sqrt` -/
theorem qr_R_diag_eq (sqrt : K → K) (M N : Nat) (A0 Qin : Mat K) (i : Nat) (hi : i < N) :
    (qrMgsr sqrt M N A0 Qin).R i i = sqrt (normArg sqrt M N A0 Qin i) := by
  unfold qrMgsr
  rw [R_row_frozen sqrt M N A0 Qin i N hi, qr_R_diag]

/-- **R has a positive diagonal** when `sqrt` returns non-negative exact roots (ordered field) -/
theorem qr_R_diag_pos [LinearOrder K] [IsStrictOrderedRing K] (sqrt : K → K) (M N : Nat) (A0 Qin : Mat K)
    (hs : SqrtExact sqrt M N A0 Qin) (hnn : ∀ i, i < N → 0 ≤ sqrt (normArg sqrt M N A0 Qin i)) (i : Nat) (hi : i < N) :
    0 < (qrMgsr sqrt M N A0 Qin).R i i := by
  rw [qr_R_diag_eq sqrt M N A0 Qin i hi]
  exact lt_of_le_of_ne (hnn i hi) (Ne.symm (hs i hi).2)

/-- over the reals: `R i i > 0` for an input of full column rank -/
theorem qr_R_diag_pos_real (M N : Nat) (A0 Qin : Mat ℝ)
    (hpos : ∀ i, i < N → normArg Real.sqrt M N A0 Qin i ≠ 0) (i : Nat) (hi : i < N) :
    0 < (qrMgsr Real.sqrt M N A0 Qin).R i i :=
  qr_R_diag_pos Real.sqrt M N A0 Qin (sqrtExact_real M N A0 Qin hpos) (fun _ _ => Real.sqrt_nonneg _) i hi

/-- **uniqueness on the family**: two factorisations `A0 = Q0*R0 = Q1*R1` of the family kind (orthonormal columns,
    upper triangular, diagonal fixed by `sqrt`) coincide on the index range — both are what the dispatcher returns -/
theorem qr_unique_on_family (sqrt : K → K) (M N : Nat) (A0 Q0 R0 Q1 R1 : Mat K)
    (h0 : Fam M N A0 Q0 R0 sqrt) (h1 : Fam M N A0 Q1 R1 sqrt) :
    (∀ k p, k < M → p < N → Q0 k p = Q1 k p) ∧ (∀ p j, p < N → j < N → R0 p j = R1 p j) := by
  obtain ⟨_, _, hq0, hr0⟩ := qr_on_family sqrt M N A0 A0 Q0 R0 h0
  obtain ⟨_, _, hq1, hr1⟩ := qr_on_family sqrt M N A0 A0 Q1 R1 h1
  exact ⟨fun k p hk hp => (hq0 k p hk hp).symm.trans (hq1 k p hk hp),
    fun p j hp hj => (hr0 p j hp hj).symm.trans (hr1 p j hp hj)⟩

end Fastor.C13
