import FastorModel.Model.QR
/-
  C13 — QR by modified Gram–Schmidt.  (First instalment: the loop calculus; the factorisation theorems follow.)
-/
namespace Fastor.C13
open Fastor.QR

/-- a store followed by a read: `X(i,j) = v` changes exactly the element `(i,j)` -/
theorem set2_get {α : Type} (X : Mat α) (i j : Nat) (v : α) (a b : Nat) :
    (set2 X i j v) a b = if a = i ∧ b = j then v else X a b := rfl

end Fastor.C13
