import FastorModel.Proofs.SimdLanes
import FastorModel.Generated.Simd_avx2
import FastorModel.Generated.Simd_avx512
import Mathlib.Tactic.IntervalCases
import Mathlib.Tactic.SplitIfs
/-!
# C08 (kernels other properties only value-test): register transposes and outer-product kernels

Generated from `Fastor/backend/transpose/transpose_kernels.h` and `Fastor/backend/dyadic.h` (configuration avx2) by the
same translator.  Memory behind a pointer is a word array (`loadw` / `storew`); the footprint of the stores is part of
the statements (`…_footprint`): every word outside the listed range keeps its value.
-/
namespace Fastor.C08K
open Fastor.Simd Fastor.Gen

/-- `_MM_TRANSPOSE4_PD`: element (r, c) of the result is element (c, r) of the input rows (64-bit lanes) -/
theorem transpose4_pd (r0 r1 r2 r3 : Reg) (r c : Nat) (hr : r < 4) (hc : c < 4) :
    lane64 (avx2.h_MM_TRANSPOSE4_PD r0 r1 r2 r3 r) c = lane64 ([r0, r1, r2, r3].getD c setzero) r := by
  interval_cases r <;> interval_cases c <;> simp [simd, avx2.h_MM_TRANSPOSE4_PD, lane64]

/-- `_MM_TRANSPOSE8_PS`: element (r, c) of the result is element (c, r) of the input rows -/
theorem transpose8_ps (r0 r1 r2 r3 r4 r5 r6 r7 : Reg) (r c : Nat) (hr : r < 8) (hc : c < 8) :
    avx2.h_MM_TRANSPOSE8_PS r0 r1 r2 r3 r4 r5 r6 r7 r c = ([r0, r1, r2, r3, r4, r5, r6, r7].getD c setzero) r := by
  interval_cases r <;> interval_cases c <;> simp [simd, avx2.h_MM_TRANSPOSE8_PS]

/-- `_dyadic<float,2,2>`: out[2i+j] = a[i]*b[j] -/
theorem dyadic_float_2_2 (fo : FOps) (a b out : Reg) (i j : Nat) (hi : i < 2) (hj : j < 2) :
    avx2.h_dyadic_float_2_2 fo a b out (2 * i + j) = fo.mul32 (a i) (b j) := by
  interval_cases i <;> interval_cases j <;> simp [simd, avx2.h_dyadic_float_2_2]
/-- the operands are read with 64-bit loads: only `a[0..1]`, `b[0..1]` matter -/
theorem dyadic_float_2_2_reads (fo : FOps) (a a' b b' out : Reg) (ha : ∀ k, k < 2 → a' k = a k) (hb : ∀ k, k < 2 → b' k = b k) (w : Nat) (hw : w < 4) :
    avx2.h_dyadic_float_2_2 fo a' b' out w = avx2.h_dyadic_float_2_2 fo a b out w := by
  interval_cases w <;> simp [simd, avx2.h_dyadic_float_2_2, ha, hb]
theorem dyadic_float_2_2_footprint (fo : FOps) (a b out : Reg) (w : Nat) (hw : 4 ≤ w) :
    avx2.h_dyadic_float_2_2 fo a b out w = out w := by
  simp [simd, avx2.h_dyadic_float_2_2]; first | omega | (split_ifs <;> first | rfl | omega)

theorem dyadic_double_2_2 (fo : FOps) (a b out : Reg) (i j : Nat) (hi : i < 2) (hj : j < 2) :
    lane64 (avx2.h_dyadic_double_2_2 fo a b out) (2 * i + j) = fo.mul64 (lane64 a i) (lane64 b j) := by
  interval_cases i <;> interval_cases j <;> simp [simd, avx2.h_dyadic_double_2_2, lane64]

theorem dyadic_float_4_4 (fo : FOps) (a b out : Reg) (i j : Nat) (hi : i < 4) (hj : j < 4) :
    avx2.h_dyadic_float_4_4 fo a b out (4 * i + j) = fo.mul32 (a i) (b j) := by
  interval_cases i <;> interval_cases j <;> simp [simd, avx2.h_dyadic_float_4_4]
theorem dyadic_float_4_4_footprint (fo : FOps) (a b out : Reg) (w : Nat) (hw : 16 ≤ w) :
    avx2.h_dyadic_float_4_4 fo a b out w = out w := by
  simp [simd, avx2.h_dyadic_float_4_4]; first | omega | (split_ifs <;> first | rfl | omega)

theorem dyadic_double_4_4 (fo : FOps) (a b out : Reg) (i j : Nat) (hi : i < 4) (hj : j < 4) :
    lane64 (avx2.h_dyadic_double_4_4 fo a b out) (4 * i + j) = fo.mul64 (lane64 a i) (lane64 b j) := by
  interval_cases i <;> interval_cases j <;> simp [simd, avx2.h_dyadic_double_4_4, lane64]

/-- `_dyadic<float,3,3>` (after the repair of the one-element overrun, repo commit "fix: outer product of 2- and 3-element
    vectors read and wrote past the end on AVX builds"): the nine products ... -/
theorem dyadic_float_3_3 (fo : FOps) (a b out : Reg) (i j : Nat) (hi : i < 3) (hj : j < 3) :
    avx2.h_dyadic_float_3_3 fo a b out (3 * i + j) = fo.mul32 (a i) (b j) := by
  interval_cases i <;> interval_cases j <;> simp [simd, avx2.h_dyadic_float_3_3, avx2.mm_loadul3_ps, avx2.mm_storeul3_ps]
/-- ... and NOTHING ELSE is written: the last row goes through the 3-lane masked store, so every word from 9 on keeps its value -/
theorem dyadic_float_3_3_footprint (fo : FOps) (a b out : Reg) (w : Nat) (hw : 9 ≤ w) :
    avx2.h_dyadic_float_3_3 fo a b out w = out w := by
  have h : w = 9 ∨ 10 ≤ w := by omega
  rcases h with rfl | h
  · simp [simd, avx2.h_dyadic_float_3_3, avx2.mm_loadul3_ps, avx2.mm_storeul3_ps]
  · have h1 : 6 ≤ w := by omega
    have h2 : ¬ (w - 6 < 4) := by omega
    have h3 : ¬ (w < 7) := by omega
    have h4 : ¬ (w < 4) := by omega
    simp [simd, avx2.h_dyadic_float_3_3, avx2.mm_loadul3_ps, avx2.mm_storeul3_ps, h1, h2, h3, h4]
/-- only the three elements of each operand are read: the result does not depend on `a[3]`, `b[3]`, ... -/
theorem dyadic_float_3_3_reads (fo : FOps) (a a' b b' out : Reg) (ha : ∀ k, k < 3 → a' k = a k) (hb : ∀ k, k < 3 → b' k = b k) (w : Nat) (hw : w < 9) :
    avx2.h_dyadic_float_3_3 fo a' b' out w = avx2.h_dyadic_float_3_3 fo a b out w := by
  interval_cases w <;> simp [simd, avx2.h_dyadic_float_3_3, avx2.mm_loadul3_ps, avx2.mm_storeul3_ps, ha, hb]
/-- the AVX-512 build of the same kernel (mask registers instead of mask vectors) -/
theorem dyadic_float_3_3_avx512 (fo : FOps) (a b out : Reg) (i j : Nat) (hi : i < 3) (hj : j < 3) :
    avx512.h_dyadic_float_3_3 fo a b out (3 * i + j) = fo.mul32 (a i) (b j) := by
  interval_cases i <;> interval_cases j <;> simp [simd, avx512.h_dyadic_float_3_3, avx512.mm_loadul3_ps, avx512.mm_storeul3_ps]
theorem dyadic_float_3_3_avx512_footprint (fo : FOps) (a b out : Reg) (w : Nat) (hw : 9 ≤ w) :
    avx512.h_dyadic_float_3_3 fo a b out w = out w := by
  have h : w = 9 ∨ 10 ≤ w := by omega
  rcases h with rfl | h
  · simp [simd, avx512.h_dyadic_float_3_3, avx512.mm_loadul3_ps, avx512.mm_storeul3_ps]
  · have h1 : 6 ≤ w := by omega
    have h2 : ¬ (w - 6 < 4) := by omega
    have h3 : ¬ (w < 7) := by omega
    have h4 : ¬ (w < 4) := by omega
    simp [simd, avx512.h_dyadic_float_3_3, avx512.mm_loadul3_ps, avx512.mm_storeul3_ps, h1, h2, h3, h4]

theorem dyadic_double_3_3 (fo : FOps) (a b out : Reg) (i j : Nat) (hi : i < 3) (hj : j < 3) :
    lane64 (avx2.h_dyadic_double_3_3 fo a b out) (3 * i + j) = fo.mul64 (lane64 a i) (lane64 b j) := by
  interval_cases i <;> interval_cases j <;> simp [simd, avx2.h_dyadic_double_3_3, avx2.mm256_loadul3_pd, avx2.mm256_storeul3_pd, lane64]
/-- words 18.. (elements 9..) are untouched -/
theorem dyadic_double_3_3_footprint (fo : FOps) (a b out : Reg) (w : Nat) (hw : 18 ≤ w) :
    avx2.h_dyadic_double_3_3 fo a b out w = out w := by
  have h : w = 18 ∨ w = 19 ∨ 20 ≤ w := by omega
  rcases h with rfl | rfl | h
  · simp [simd, avx2.h_dyadic_double_3_3, avx2.mm256_loadul3_pd, avx2.mm256_storeul3_pd]
  · simp [simd, avx2.h_dyadic_double_3_3, avx2.mm256_loadul3_pd, avx2.mm256_storeul3_pd]
  · have h1 : 12 ≤ w := by omega
    have h2 : ¬ (w - 12 < 8) := by omega
    have h3 : ¬ (w < 14) := by omega
    have h4 : ¬ (w < 8) := by omega
    simp [simd, avx2.h_dyadic_double_3_3, avx2.mm256_loadul3_pd, avx2.mm256_storeul3_pd, h1, h2, h3, h4]

-- ------------------------------------------------------------------------------------------------ complex interleave <-> split

/-- memory image of two consecutive registers of `n` 32-bit lanes -/
def cat (n : Nat) (lo hi : Reg) : Reg := fun w => if w < n then lo w else hi (w - n)

/-- complex<float> SSE load: the two loaded registers hold (re0,im0,re1,im1 | re2,im2,re3,im3); after `arrange_from_load`
    lane k of value_r / value_i is the real / imaginary part of element k -/
theorem split_ps128 (vr vi lo hi : Reg) (k : Nat) (hk : k < 4) :
    (avx2.h_arrange_from_load vr vi lo hi).1 k = cat 4 lo hi (2 * k) ∧ (avx2.h_arrange_from_load vr vi lo hi).2 k = cat 4 lo hi (2 * k + 1) := by
  interval_cases k <;> simp [simd, avx2.h_arrange_from_load, cat]
theorem interleave_ps128 (lo hi vr vi : Reg) (w : Nat) (hw : w < 8) :
    cat 4 (avx2.h_arrange_for_store lo hi vr vi).1 (avx2.h_arrange_for_store lo hi vr vi).2 w = (if w % 2 = 0 then vr (w / 2) else vi (w / 2)) := by
  interval_cases w <;> simp [simd, avx2.h_arrange_for_store, cat]
/-- store after load is the identity on memory (round trip) -/
theorem roundtrip_ps128 (vr vi lo hi x y : Reg) (w : Nat) (hw : w < 4) :
    (avx2.h_arrange_for_store x y (avx2.h_arrange_from_load vr vi lo hi).1 (avx2.h_arrange_from_load vr vi lo hi).2).1 w = lo w ∧
    (avx2.h_arrange_for_store x y (avx2.h_arrange_from_load vr vi lo hi).1 (avx2.h_arrange_from_load vr vi lo hi).2).2 w = hi w := by
  interval_cases w <;> simp [simd, avx2.h_arrange_for_store, avx2.h_arrange_from_load]

theorem split_ps256 (vr vi lo hi : Reg) (k : Nat) (hk : k < 8) :
    (avx2.h_arrange_from_load_m256 vr vi lo hi).1 k = cat 8 lo hi (2 * k) ∧ (avx2.h_arrange_from_load_m256 vr vi lo hi).2 k = cat 8 lo hi (2 * k + 1) := by
  interval_cases k <;> simp [simd, avx2.h_arrange_from_load_m256, cat]
theorem interleave_ps256 (lo hi vr vi : Reg) (w : Nat) (hw : w < 16) :
    cat 8 (avx2.h_arrange_for_store_m256 lo hi vr vi).1 (avx2.h_arrange_for_store_m256 lo hi vr vi).2 w = (if w % 2 = 0 then vr (w / 2) else vi (w / 2)) := by
  interval_cases w <;> simp [simd, avx2.h_arrange_for_store_m256, cat]
theorem roundtrip_ps256 (vr vi lo hi x y : Reg) (w : Nat) (hw : w < 8) :
    (avx2.h_arrange_for_store_m256 x y (avx2.h_arrange_from_load_m256 vr vi lo hi).1 (avx2.h_arrange_from_load_m256 vr vi lo hi).2).1 w = lo w ∧
    (avx2.h_arrange_for_store_m256 x y (avx2.h_arrange_from_load_m256 vr vi lo hi).1 (avx2.h_arrange_from_load_m256 vr vi lo hi).2).2 w = hi w := by
  interval_cases w <;> simp [simd, avx2.h_arrange_for_store_m256, avx2.h_arrange_from_load_m256]

/-- complex<double>: 64-bit elements; word w of memory belongs to element w/2 -/
theorem split_pd128 (vr vi lo hi : Reg) (w : Nat) (hw : w < 4) :
    (avx2.h_arrange_from_load_m128d vr vi lo hi).1 w = cat 4 lo hi (4 * (w / 2) + w % 2) ∧
    (avx2.h_arrange_from_load_m128d vr vi lo hi).2 w = cat 4 lo hi (4 * (w / 2) + 2 + w % 2) := by
  interval_cases w <;> simp [simd, avx2.h_arrange_from_load_m128d, cat]
theorem roundtrip_pd128 (vr vi lo hi x y : Reg) (w : Nat) (hw : w < 4) :
    (avx2.h_arrange_for_store_m128d x y (avx2.h_arrange_from_load_m128d vr vi lo hi).1 (avx2.h_arrange_from_load_m128d vr vi lo hi).2).1 w = lo w ∧
    (avx2.h_arrange_for_store_m128d x y (avx2.h_arrange_from_load_m128d vr vi lo hi).1 (avx2.h_arrange_from_load_m128d vr vi lo hi).2).2 w = hi w := by
  interval_cases w <;> simp [simd, avx2.h_arrange_for_store_m128d, avx2.h_arrange_from_load_m128d]
theorem split_pd256 (vr vi lo hi : Reg) (w : Nat) (hw : w < 8) :
    (avx2.h_arrange_from_load_m256d vr vi lo hi).1 w = cat 8 lo hi (4 * (w / 2) + w % 2) ∧
    (avx2.h_arrange_from_load_m256d vr vi lo hi).2 w = cat 8 lo hi (4 * (w / 2) + 2 + w % 2) := by
  interval_cases w <;> simp [simd, avx2.h_arrange_from_load_m256d, cat]
theorem roundtrip_pd256 (vr vi lo hi x y : Reg) (w : Nat) (hw : w < 8) :
    (avx2.h_arrange_for_store_m256d x y (avx2.h_arrange_from_load_m256d vr vi lo hi).1 (avx2.h_arrange_from_load_m256d vr vi lo hi).2).1 w = lo w ∧
    (avx2.h_arrange_for_store_m256d x y (avx2.h_arrange_from_load_m256d vr vi lo hi).1 (avx2.h_arrange_from_load_m256d vr vi lo hi).2).2 w = hi w := by
  interval_cases w <;> simp [simd, avx2.h_arrange_for_store_m256d, avx2.h_arrange_from_load_m256d]

-- ------------------------------------------------------------------------------------------------ backend/norm.h
/-- `_norm<float,4>`: square root of the sum of squares, association ((a0²+a1²)+(a2²+a3²)) -/
theorem norm_float_4 (fo : FOps) (a : Reg) :
    avx2.h_norm_float_4 fo a = fo.sqrt32 (fo.add32 (fo.add32 (fo.mul32 (a 0) (a 0)) (fo.mul32 (a 1) (a 1))) (fo.add32 (fo.mul32 (a 2) (a 2)) (fo.mul32 (a 3) (a 3)))) := by
  simp [simd, avx2.h_norm_float_4, avx2.h_add_ps]
theorem norm_double_4 (fo : FOps) (a : Reg) :
    avx2.h_norm_double_4 fo a = fo.sqrt64 (fo.add64 (fo.add64 (fo.mul64 (lane64 a 2) (lane64 a 2)) (fo.mul64 (lane64 a 3) (lane64 a 3))) (fo.add64 (fo.mul64 (lane64 a 0) (lane64 a 0)) (fo.mul64 (lane64 a 1) (lane64 a 1)))) := by
  simp [simd, avx2.h_norm_double_4, avx2.h_add_pd_m256d, lane64]
/-- the sum-of-squares tree of an 8-lane register as computed by `_add_ps(__m256)` -/
def sq8 (fo : FOps) (a : Reg) : BitVec 32 :=
  fo.add32 (fo.add32 (fo.add32 (fo.mul32 (a 0) (a 0)) (fo.mul32 (a 1) (a 1))) (fo.add32 (fo.mul32 (a 2) (a 2)) (fo.mul32 (a 3) (a 3))))
           (fo.add32 (fo.add32 (fo.mul32 (a 4) (a 4)) (fo.mul32 (a 5) (a 5))) (fo.add32 (fo.mul32 (a 6) (a 6)) (fo.mul32 (a 7) (a 7))))
/-- `_norm<float,9>`: eight elements through the 256-bit tree, the ninth loaded alone (`_mm_load_ss`: element 8 and three
    zero lanes — exactly nine elements are read), the zero lanes squared and added as the code does -/
theorem norm_float_9 (fo : FOps) (a : Reg) :
    avx2.h_norm_float_9 fo a = fo.sqrt32 (fo.add32 (sq8 fo a)
      (fo.add32 (fo.add32 (fo.mul32 (a 8) (a 8)) (fo.mul32 0#32 0#32)) (fo.add32 (fo.mul32 0#32 0#32) (fo.mul32 0#32 0#32)))) := by
  simp [simd, sq8, avx2.h_norm_float_9, avx2.h_add_ps, avx2.h_add_ps_m256]
/-- with `0*0 = 0` and `x + 0 = x` this is the square root of the sum of the nine squares -/
theorem norm_float_9_sum (fo : FOps) (h0 : fo.mul32 0#32 0#32 = 0#32) (hadd : ∀ x, fo.add32 x 0#32 = x) (a : Reg) :
    avx2.h_norm_float_9 fo a = fo.sqrt32 (fo.add32 (sq8 fo a) (fo.mul32 (a 8) (a 8))) := by
  rw [norm_float_9]; simp [h0, hadd]
example : ∃ fo : FOps, fo.mul32 0#32 0#32 = 0#32 ∧ ∀ x, fo.add32 x 0#32 = x :=
  ⟨⟨(· + ·), (· - ·), (· * ·), (· / ·), (fun a _ => a), (fun a _ => a), id, (fun a b c => a * b + c),
    (· + ·), (· - ·), (· * ·), (· / ·), (fun a _ => a), (fun a _ => a), id, (fun a b c => a * b + c)⟩, by simp, by simp⟩

end Fastor.C08K
