import FastorModel.Proofs.SimdLanes
import FastorModel.Generated.Simd_avx2
import Mathlib.Tactic.IntervalCases
import Mathlib.Tactic.SplitIfs
/-!
# C08 (kernels other properties only value-test): register transposes and outer-product kernels

Generated from `Fastor/backend/transpose/transpose_kernels.h` and `Fastor/backend/dyadic.h` (configuration avx2) by the
same translator.  Memory behind a pointer is a word array (`loadw` / `storew`); the footprint of the stores is part of
the statements (`…_footprint`): every word outside the listed range keeps its value.
-/
namespace Fastor.C08K
open Fastor.Simd Fastor.Gen

/-- `_MM_TRANSPOSE4_PD`: element (r, c) of the result is element (c, r) of the input rows (64-bit lanes) -/
theorem transpose4_pd (r0 r1 r2 r3 : Reg) (r c : Nat) (hr : r < 4) (hc : c < 4) :
    lane64 (avx2.h_MM_TRANSPOSE4_PD r0 r1 r2 r3 r) c = lane64 ([r0, r1, r2, r3].getD c setzero) r := by
  interval_cases r <;> interval_cases c <;> simp [simd, avx2.h_MM_TRANSPOSE4_PD, lane64]

/-- `_MM_TRANSPOSE8_PS`: element (r, c) of the result is element (c, r) of the input rows -/
theorem transpose8_ps (r0 r1 r2 r3 r4 r5 r6 r7 : Reg) (r c : Nat) (hr : r < 8) (hc : c < 8) :
    avx2.h_MM_TRANSPOSE8_PS r0 r1 r2 r3 r4 r5 r6 r7 r c = ([r0, r1, r2, r3, r4, r5, r6, r7].getD c setzero) r := by
  interval_cases r <;> interval_cases c <;> simp [simd, avx2.h_MM_TRANSPOSE8_PS]

/-- `_dyadic<float,2,2>`: out[2i+j] = a[i]*b[j] -/
theorem dyadic_float_2_2 (fo : FOps) (a b out : Reg) (i j : Nat) (hi : i < 2) (hj : j < 2) :
    avx2.h_dyadic_float_2_2 fo a b out (2 * i + j) = fo.mul32 (a i) (b j) := by
  interval_cases i <;> interval_cases j <;> simp [simd, avx2.h_dyadic_float_2_2]
theorem dyadic_float_2_2_footprint (fo : FOps) (a b out : Reg) (w : Nat) (hw : 4 ≤ w) :
    avx2.h_dyadic_float_2_2 fo a b out w = out w := by
  simp [simd, avx2.h_dyadic_float_2_2]; first | omega | (split_ifs <;> first | rfl | omega)

theorem dyadic_double_2_2 (fo : FOps) (a b out : Reg) (i j : Nat) (hi : i < 2) (hj : j < 2) :
    lane64 (avx2.h_dyadic_double_2_2 fo a b out) (2 * i + j) = fo.mul64 (lane64 a i) (lane64 b j) := by
  interval_cases i <;> interval_cases j <;> simp [simd, avx2.h_dyadic_double_2_2, lane64]

theorem dyadic_float_4_4 (fo : FOps) (a b out : Reg) (i j : Nat) (hi : i < 4) (hj : j < 4) :
    avx2.h_dyadic_float_4_4 fo a b out (4 * i + j) = fo.mul32 (a i) (b j) := by
  interval_cases i <;> interval_cases j <;> simp [simd, avx2.h_dyadic_float_4_4]
theorem dyadic_float_4_4_footprint (fo : FOps) (a b out : Reg) (w : Nat) (hw : 16 ≤ w) :
    avx2.h_dyadic_float_4_4 fo a b out w = out w := by
  simp [simd, avx2.h_dyadic_float_4_4]; first | omega | (split_ifs <;> first | rfl | omega)

theorem dyadic_double_4_4 (fo : FOps) (a b out : Reg) (i j : Nat) (hi : i < 4) (hj : j < 4) :
    lane64 (avx2.h_dyadic_double_4_4 fo a b out) (4 * i + j) = fo.mul64 (lane64 a i) (lane64 b j) := by
  interval_cases i <;> interval_cases j <;> simp [simd, avx2.h_dyadic_double_4_4, lane64]

/-- `_dyadic<float,3,3>`: the nine products ... -/
theorem dyadic_float_3_3 (fo : FOps) (a b out : Reg) (i j : Nat) (hi : i < 3) (hj : j < 3) :
    avx2.h_dyadic_float_3_3 fo a b out (3 * i + j) = fo.mul32 (a i) (b j) := by
  interval_cases i <;> interval_cases j <;> simp [simd, avx2.h_dyadic_float_3_3]
/-- ... and ONE WORD PAST the 9-element result: the last 4-lane store covers words 6..9, so `out[9] = a[2]*b[3]`
    (`b[3]` is also one element past the 3-element operand).  Words from 10 on are untouched. -/
theorem dyadic_float_3_3_overrun (fo : FOps) (a b out : Reg) :
    avx2.h_dyadic_float_3_3 fo a b out 9 = fo.mul32 (a 2) (b 3) := by
  simp [simd, avx2.h_dyadic_float_3_3]
theorem dyadic_float_3_3_footprint (fo : FOps) (a b out : Reg) (w : Nat) (hw : 10 ≤ w) :
    avx2.h_dyadic_float_3_3 fo a b out w = out w := by
  simp [simd, avx2.h_dyadic_float_3_3]; first | omega | (split_ifs <;> first | rfl | omega)

theorem dyadic_double_3_3 (fo : FOps) (a b out : Reg) (i j : Nat) (hi : i < 3) (hj : j < 3) :
    lane64 (avx2.h_dyadic_double_3_3 fo a b out) (3 * i + j) = fo.mul64 (lane64 a i) (lane64 b j) := by
  interval_cases i <;> interval_cases j <;> simp [simd, avx2.h_dyadic_double_3_3, lane64]
theorem dyadic_double_3_3_overrun (fo : FOps) (a b out : Reg) :
    lane64 (avx2.h_dyadic_double_3_3 fo a b out) 9 = fo.mul64 (lane64 a 2) (lane64 b 3) := by
  simp [simd, avx2.h_dyadic_double_3_3, lane64]

end Fastor.C08K
