import FastorModel.Driver.Common
import FastorModel.Model.Footprint
import FastorModel.Model.Kern3
/- `pfoot`, `bounds`, `memidx`, `aflag` commands of the driver (C07) -/
namespace Fastor.Driver
open Fastor Fastor.Footprint

private def lanesToMask (ls : List Nat) : Nat := ls.foldl (fun c l => c ||| (1 <<< l)) 0

/-- mask array encoded as a number: bit `i` set ↔ `maska[i] == -1` -/
private def arrayOfBits (V bits : Nat) : List Int := (List.range V).map fun i => if bits.testBit i then -1 else 0

private def parseInts (s : String) : List Int := (s.splitOn ",").filterMap String.toInt?
private def parseNats (s : String) : List Nat := (s.splitOn ",").filterMap String.toNat?

def runPfoot (kv : List (String × String)) : String := Id.run do
  let some h := getS kv "h" | return "bad-op"
  let V := (getN kv "V").getD 4
  let bits := (getN kv "mask").getD 0
  let br : Branch := match getS kv "branch" with
    | some "avx512" => .avx512 | some "avx" => .avx | _ => .sse
  let lanes : Option (List Nat) := match h with
    | "load3" => some (load3 br)
    | "store3" => some (store3 br)
    | "maskloop" => some (maskLoop V (arrayOfBits V bits))
    | "maskavx" => some (maskAvx V (arrayOfBits V bits))
    | "kmask" => some (memberMask V bits)
    | "a2m" => some (memberMask V (arrayToMask V (arrayOfBits V bits)))
    | "loadfb" => some (memberMaskLoadFallback V bits)
    | "storefb" => some (memberMaskStoreFallback V bits)
    | "remainder" => some (maskLoop V (remainderMask V bits))
    | _ => none
  let some ls := lanes | return "bad-op"
  let hi := ls.foldl (fun m l => max m (l + 1)) 0
  let lo := ls.foldl (fun m l => min m l) V
  return s!"LANES={lanesToMask ls} LO={lo} HI={hi} CNT={ls.length}"

private def resStr : Res → String
  | .err => "err"
  | .ok f => toString f

def runBounds (kv : List (String × String)) : String := Id.run do
  let some d := getS kv "d" | return "bad-op"
  let some i := getS kv "i" | return "bad-op"
  let chk := (getN kv "chk").getD 1 != 0
  return s!"R={resStr (flatIndex chk (parseNats d) (parseInts i))}"

def runMemidx (kv : List (String × String)) : String := Id.run do
  let some n := getN kv "n" | return "bad-op"
  let some i := (getS kv "i").bind String.toInt? | return "bad-op"
  let chk := (getN kv "chk").getD 1 != 0
  return s!"R={resStr (memIndex chk n i)}"

/-- `aflag st=tensor|map|view da=0|1 dv=0|1 simd=0|1 n=.. V=..`: the flag and the number of aligned accesses of
    one assignment + one flagged-load loop (what `c = a + b; s = c.sum()` issues on the destination) -/
def runAflag (kv : List (String × String)) : String := Id.run do
  let st : Storage := match getS kv "st" with
    | some "tensor" => .tensor | some "map" => .tensorMap | some "fview" => .fixedView | _ => .view
  let b : Build := ⟨(getN kv "da").getD 0 != 0, (getN kv "dv").getD 0 != 0⟩
  let simd := (getN kv "simd").getD 1 != 0
  let n := (getN kv "n").getD 1
  let V := (getN kv "V").getD 1
  let flag := isAligned b simd st
  let acc := assignStores n V flag ++ flaggedLoads n V flag
  let na := (acc.filter (·.aligned)).length
  return s!"FLAG={if flag then 1 else 0} NAL={na}"

end Fastor.Driver

namespace Fastor.Driver
open Fastor Fastor.Footprint Fastor.Kern3

private def hull (ls : List Nat) : Nat × Nat := (ls.foldl (fun m l => min m l) 1000000, ls.foldl (fun m l => max m (l + 1)) 0)

/-- `kern3 k=<kernel> branch=.. avx2=0|1 K=..`: per operand the lowest offset and highest offset + 1 touched, and the set of
    result elements written -/
def runKern3 (kv : List (String × String)) : String := Id.run do
  let some name := getS kv "k" | return "bad-op"
  let br : Branch := match getS kv "branch" with
    | some "avx512" => .avx512 | some "avx" => .avx | _ => .sse
  let avx2 := (getN kv "avx2").getD 0 != 0
  let K := (getN kv "K").getD 3
  let k : Option (List KAcc) := match name with
    | "transpose33" => some (transpose33 br avx2)
    | "matmul3K3" => some (matmul3K3 br K)
    | "matmul333" => some (matmul333 br)
    | "matvec331" => some (matvec331 br)
    | "norm9f" => some norm9f | "norm9d" => some norm9d
    | "trace33f" => some trace33f | "trace33d" => some trace33d
    | "det33" => some det33
    | "dc33f" => some dc33f | "dc33d" => some dc33d
    | "transpose33d" => some (transpose33d (if br == .avx512 then 8 else if br == .avx then 4 else 2))
    | "unary4f" => some unary4f | "unary4d" => some unary4d
    | "transpose44f" => some (transpose44f (br == .avx512))
    | "dyadic33f" => some (dyadic33f br) | "dyadic33d" => some (dyadic33d br) | "dyadic22f" => some dyadic22f
    | "matmul222f" => some matmul222f | "matmul444f" => some matmul444f
    | _ => none
  let some k := k | return "bad-op"
  let (alo, ahi) := hull (offsets k 0 false)
  let (blo, bhi) := hull (offsets k 1 false)
  let (olo, ohi) := hull (offsets k 2 true)
  let wr := lanesToMask (offsets k 2 true)
  return s!"ALO={alo} AHI={ahi} BLO={blo} BHI={bhi} OLO={olo} OHI={ohi} WR={wr}"

end Fastor.Driver
