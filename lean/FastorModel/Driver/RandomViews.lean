import FastorModel.Driver.Common
import FastorModel.Model.RandomViews
import FastorModel.Model.Config
import FastorModel.Model.Views
import FastorModel.Model.ViewWrite
/- `rview` / `fview` commands of the driver: index-tensor views and boolean-mask views (C19) -/
namespace Fastor.Driver
open Fastor Fastor.Expr Fastor.RandomViews

/-- postfix encoding: `v<k>` view leaf (index-tensor view for `rview`, mask view for `fview`) of window k,
    `t<k>` tensor, `c<k>` constant, `add sub mul` -/
private def parseSrc (filter : Bool) (s : String) : Option Src :=
  let toks := s.splitOn "_"
  let st := toks.foldl (fun (st : Option (List Src)) tok =>
    match st with
    | none => none
    | some stack =>
      if tok.startsWith "v" then (tok.drop 1).toNat?.map fun k => (if filter then Src.f k else Src.v k) :: stack
      else if tok.startsWith "t" then (tok.drop 1).toNat?.map fun k => Src.t k :: stack
      else if tok.startsWith "c" then (tok.drop 1).toNat?.map fun k => Src.c k :: stack
      else
        let op? : Option BinOp := if tok == "add" then some .add else if tok == "sub" then some .sub
          else if tok == "mul" then some .mul else none
        match op?, stack with
        | some op, r :: l :: rest => some (Src.bin op l r :: rest)
        | _, _ => none) (some [])
  match st with
  | some [e] => some e
  | _ => none

private def parseNats (s : String) : List Nat :=
  if s == "-" then [] else (s.splitOn ".").filterMap String.toNat?

private def aopOf (s : String) : AOp :=
  if s == "add" then .add else if s == "sub" then .sub else if s == "mul" then .mul else .set

/-- which loops of the "vector body + scalar tail" shape run at least once -/
private def pathOf (vectorised : Bool) (n V : Nat) : String :=
  if !vectorised then "scalar-loop"
  else if n < V then "tail-only" else if n % V == 0 then "vector-only" else "vector+tail"

private def rdKeys (e : Src) (it : Nat → Nat) (mask : Nat → Bool) (ps : List Nat) (extra : Nat → List Nat) : String :=
  " ".intercalate ((List.range 5).map fun w => s!"RD{w}={hex (hashNats 0 (sortDedup (e.readsOf it mask w ps ++ extra w)))}")

def runRview (kv : List (String × String)) : String := Id.run do
  let some cfgName := getS kv "cfg" | return "bad-op"
  let some cfg := Cfg.ofName cfgName | return "bad-op"
  let some sz := getN kv "sz" | return "bad-op"
  let some vea := getN kv "vea" | return "bad-op"
  let some k := getS kv "k" | return "bad-op"
  let some r := getN kv "r" | return "bad-op"
  let some c := getN kv "c" | return "bad-op"
  let some m := getN kv "m" | return "bad-op"
  let some n := getN kv "n" | return "bad-op"
  let some i0s := getS kv "i0" | return "bad-op"
  let some i1s := getS kv "i1" | return "bad-op"
  let some num := getN kv "num" | return "bad-op"
  let some f := getN kv "f" | return "bad-op"
  let some s := getN kv "s" | return "bad-op"
  let some act := getS kv "act" | return "bad-op"
  let some ops := getS kv "op" | return "bad-op"
  let some es := getS kv "E" | return "bad-op"
  let some e := parseSrc false es | return "bad-op"
  let i0 := parseNats i0s
  let i1 := parseNats i1s
  let it0 : Nat → Nat := fun i => i0.getD i 0
  let it1 : Nat → Nat := fun i => i1.getD i 0
  let junk : Nat → Nat := fun _ => 0
  -- the index tensor the view holds
  let it? : Option (Nat → Nat) :=
    if k == "flat1" || k == "flat2" then some it0
    else if k == "ii" then some (storesTo junk (flatII c m n it0 it1))
    else if k == "in" then some (storesTo junk (flatIN c m it0 num))
    else if k == "ni" then some (storesTo junk (flatNI c m num it0))
    else if k == "if" then some (storesTo junk (flatIF c m it0 f s n))
    else if k == "fi" then some (storesTo junk (flatFI c n f s m it0))
    else none
  let some it := it? | return "bad-op"
  let vs := m * n
  let ps := r * c
  let op := aopOf ops
  let V := cfg.native.lanes sz
  let env : Nat → Nat → Fp := fun w p => Fp.ofTok w p
  let mask : Nat → Bool := fun _ => false
  let all := List.range vs
  if act == "read" then
    let dst : Nat → Fp := fun p => Fp.ofTok 0 p
    let ws := readWrites Fp.ofInt env it mask op dst e vs V
    let mem := (List.range vs).map fun p => applyWrites ws dst p
    let vh := mem.foldl (fun h x => Fp.hash h x) (0 : UInt64)
    let extra : Nat → List Nat := fun w => if w == 0 && op != .set then all else []
    return s!"route={k}:read:{pathOf true vs V} V={V} VAL={hex vh} WSEQ={hex (hashNats 0 (ws.map (·.1)))} NW={ws.length} {rdKeys e it mask all extra}"
  else
    let par : Nat → Fp := fun p => Fp.ofTok 1 p
    let ins := scatter (vea == 1) Fp.ofInt env it mask e vs V
    let fin := exec op.ap ins par
    let mem := (List.range ps).map fin
    let vh := mem.foldl (fun h x => Fp.hash h x) (0 : UInt64)
    let extra : Nat → List Nat := fun w => if w == 1 && op != .set then ins.map (·.1) else []
    return s!"route={k}:write:{pathOf (vea == 1) vs V} V={V} VAL={hex vh} WSEQ={hex (hashNats 0 (ins.map (·.1)))} NW={ins.length} {rdKeys e it mask all extra}"

def runFview (kv : List (String × String)) : String := Id.run do
  let some cfgName := getS kv "cfg" | return "bad-op"
  let some cfg := Cfg.ofName cfgName | return "bad-op"
  let some sz := getN kv "sz" | return "bad-op"
  let some n := getN kv "n" | return "bad-op"
  let some ms := getS kv "mask" | return "bad-op"
  let some act := getS kv "act" | return "bad-op"
  let some ops := getS kv "op" | return "bad-op"
  let some es := getS kv "E" | return "bad-op"
  let some e := parseSrc true es | return "bad-op"
  let bits := ms.toList.map (· == '1')
  let mask : Nat → Bool := fun i => bits.getD i false
  let it : Nat → Nat := fun i => i
  let op := aopOf ops
  let V := cfg.native.lanes sz
  let env : Nat → Nat → Fp := fun w p => Fp.ofTok w p
  let all := List.range n
  if act == "read" then
    let dst : Nat → Fp := fun p => Fp.ofTok 0 p
    let ws := readWrites Fp.ofInt env it mask op dst e n V
    let mem := (List.range n).map fun p => applyWrites ws dst p
    let vh := mem.foldl (fun h x => Fp.hash h x) (0 : UInt64)
    let extra : Nat → List Nat := fun w => if w == 0 && op != .set then all else []
    return s!"route=mask:read:{pathOf true n V} V={V} VAL={hex vh} WSEQ={hex (hashNats 0 (ws.map (·.1)))} NW={ws.length} {rdKeys e it mask all extra}"
  else
    let par : Nat → Fp := fun p => Fp.ofTok 1 p
    let ins := filterInstrs Fp.ofInt env it mask e n
    let fin := exec op.ap ins par
    let mem := (List.range n).map fin
    let vh := mem.foldl (fun h x => Fp.hash h x) (0 : UInt64)
    let sel := all.filter (fun p => mask p)
    let extra : Nat → List Nat := fun w => if w == 1 && op != .set then sel else []
    return s!"route=mask:write:scalar-loop V={V} VAL={hex vh} WSEQ={hex (hashNats 0 (ins.map (·.1)))} NW={ins.length} {rdKeys e it mask sel extra}"

private def digFp (h : UInt64) (xs : List Fp) : UInt64 := xs.foldl (fun h x => Fp.hash h x) h

/-- a per-axis index view assigned to a 2-D range view of a larger tensor, and the view's two-index members -/
def runRview2 (kv : List (String × String)) : String := Id.run do
  let some cfgName := getS kv "cfg" | return "bad-op"
  let some cfg := Cfg.ofName cfgName | return "bad-op"
  let some sz := getN kv "sz" | return "bad-op"
  let some c := getN kv "c" | return "bad-op"
  let some m := getN kv "m" | return "bad-op"
  let some n := getN kv "n" | return "bad-op"
  let some i0s := getS kv "i0" | return "bad-op"
  let some i1s := getS kv "i1" | return "bad-op"
  let i0 := parseNats i0s
  let i1 := parseNats i1s
  let it := storesTo (fun _ => 0) (flatII c m n (fun i => i0.getD i 0) (fun i => i1.getD i 0))
  let V := cfg.native.lanes sz
  let data : Nat → Fp := fun p => Fp.ofTok 1 p
  -- the consumer stores element (i,k) of its source at (i,k) of the destination view
  let bw := n + 2
  let mem := (List.range ((m + 1) * bw)).map fun q =>
    let i := q / bw; let k := q % bw
    if i < m && k < n then evalS2 data it n i k else Fp.ofTok 0 q
  let pos := (List.range m).flatMap fun i => (List.range n).map fun k => (i, k)
  let e2s := digFp 0 (pos.map fun ik => evalS2 data it n ik.1 ik.2)
  let e2v := digFp 0 (pos.flatMap fun ik => if ik.2 + V ≤ n then evalV2 data it V n ik.1 ik.2 else [])
  -- store order: C05's model of the 2-D range-view assignment loop (unit steps from the origin of B)
  let vea := (getN kv "vea").getD 0
  let its := ViewWrite.rowIters V (vea == 1) bw ⟨0, 1, m⟩ ⟨0, 1, n⟩
  let wseq := hashNats 0 (ViewWrite.writeSeq its)
  return s!"route=ii:into-2d-view:{if n < V then "no-vector-call" else "vector-call"} V={V} VAL={hex (digFp 0 mem)} WSEQ={hex wseq} NW={m * n} E2S={hex e2s} E2V={hex e2v}"

def runRview3 (kv : List (String × String)) : String := Id.run do
  let some cfgName := getS kv "cfg" | return "bad-op"
  let some cfg := Cfg.ofName cfgName | return "bad-op"
  let some sz := getN kv "sz" | return "bad-op"
  let some p0 := getN kv "p0" | return "bad-op"
  let some p1 := getN kv "p1" | return "bad-op"
  let some p2 := getN kv "p2" | return "bad-op"
  let some i0s := getS kv "i0" | return "bad-op"
  let i0 := parseNats i0s
  let it : Nat → Nat := fun i => i0.getD i 0
  let V := cfg.native.lanes sz
  let data : Nat → Fp := fun p => Fp.ofTok 1 p
  let dims := [p0, p1, p2]
  let b1 := p1 + 1; let b2 := p2 + 2
  let mem := (List.range ((p0 + 1) * b1 * b2)).map fun q =>
    let x := q / (b1 * b2); let y := q / b2 % b1; let z := q % b2
    if x < p0 && y < p1 && z < p2 then tevalS data it dims [x, y, z] else Fp.ofTok 0 q
  let pos := (List.range p0).flatMap fun x => (List.range p1).flatMap fun y => (List.range p2).map fun z => [x, y, z]
  let tes := digFp 0 (pos.map fun as => tevalS data it dims as)
  let tev := digFp 0 (pos.flatMap fun as => if as.getD 2 0 + V ≤ p2 then tevalV data it V dims as else [])
  return s!"route=flat3:into-3d-view:{if p2 < V then "no-vector-call" else "vector-call"} V={V} VAL={hex (digFp 0 mem)} NW={p0 * p1 * p2} TES={hex tes} TEV={hex tev}"

def runFview3 (kv : List (String × String)) : String := Id.run do
  let some cfgName := getS kv "cfg" | return "bad-op"
  let some cfg := Cfg.ofName cfgName | return "bad-op"
  let some sz := getN kv "sz" | return "bad-op"
  let some d0 := getN kv "d0" | return "bad-op"
  let some d1 := getN kv "d1" | return "bad-op"
  let some d2 := getN kv "d2" | return "bad-op"
  let some ms := getS kv "mask" | return "bad-op"
  let bits := ms.toList.map (· == '1')
  let mask : Nat → Bool := fun i => bits.getD i false
  let V := cfg.native.lanes sz
  let data : Nat → Fp := fun p => Fp.ofTok 1 p
  let dims := [d0, d1, d2]
  let b1 := d1 + 1; let b2 := d2 + 2
  let mem := (List.range ((d0 + 1) * b1 * b2)).map fun q =>
    let x := q / (b1 * b2); let y := q / b2 % b1; let z := q % b2
    if x < d0 && y < d1 && z < d2 then ftevalS data mask dims [x, y, z] else Fp.ofTok 0 q
  let pos := (List.range d0).flatMap fun x => (List.range d1).flatMap fun y => (List.range d2).map fun z => [x, y, z]
  let tes := digFp 0 (pos.map fun as => ftevalS data mask dims as)
  let tev := digFp 0 (pos.flatMap fun as => if as.getD 2 0 + V ≤ d2 then ftevalV data mask V dims as else [])
  return s!"route=mask:into-3d-view:{if d2 < V then "no-vector-call" else "vector-call"} V={V} VAL={hex (digFp 0 mem)} NW={d0 * d1 * d2} TES={hex tes} TEV={hex tev}"

/-- `Tensor X = A(it0,it1) + S(r0,r1)`: the two-index constructor loop (`ctor2Gen`) over the index view's two-index
    members and C04's two-index evaluators of the range view -/
def runRctor2 (kv : List (String × String)) : String := Id.run do
  let some cfgName := getS kv "cfg" | return "bad-op"
  let some cfg := Cfg.ofName cfgName | return "bad-op"
  let some sz := getN kv "sz" | return "bad-op"
  let some c := getN kv "c" | return "bad-op"
  let some m := getN kv "m" | return "bad-op"
  let some n := getN kv "n" | return "bad-op"
  let some i0s := getS kv "i0" | return "bad-op"
  let some i1s := getS kv "i1" | return "bad-op"
  let some sr := getN kv "sr" | return "bad-op"
  let some sc := getN kv "sc" | return "bad-op"
  let some f0 := getN kv "f0" | return "bad-op"
  let some s0 := getN kv "s0" | return "bad-op"
  let some f1 := getN kv "f1" | return "bad-op"
  let some s1 := getN kv "s1" | return "bad-op"
  let some dyn := getN kv "dyn" | return "bad-op"
  let i0 := parseNats i0s
  let i1 := parseNats i1s
  let it := storesTo (fun _ => 0) (flatII c m n (fun i => i0.getD i 0) (fun i => i1.getD i 0))
  let V := cfg.native.lanes sz
  let A : Nat → Fp := fun p => Fp.ofTok 1 p
  let S : Nat → Fp := fun p => Fp.ofTok 2 p
  let v : Views.View := ⟨if dyn == 1 then .dyn2 else .fix2, [sr, sc], [⟨f0, s0, m⟩, ⟨f1, s1, n⟩]⟩
  let ws := ctor2Gen V m n
    (fun i j => List.zipWith (· + ·) (evalV2 A it V n i j) ((v.eval2V V i j).2.map S))
    (fun i j => evalS2 A it n i j + S (v.eval2S i j))
  let mem := (List.range (m * n)).map fun p => applyWrites ws (fun _ => (0 : Fp)) p
  let pos := (List.range m).flatMap fun i => (List.range n).map fun k => (i, k)
  let rd1 := sortDedup (pos.map fun ik => it (ik.1 * n + ik.2))
  let rd2 := sortDedup (pos.map fun ik => v.eval2S ik.1 ik.2)
  return s!"route=ii+range:ctor2:{pathOf true n V} V={V} VAL={hex (digFp 0 mem)} WSEQ={hex (hashNats 0 (ws.map (·.1)))} NW={ws.length} RD1={hex (hashNats 0 rd1)} RD2={hex (hashNats 0 rd2)}"

/-- `A(it) op= S(range)` (1-D): the scatter loops with C04's flat evaluator of the range view as the right-hand side -/
def runRvsrc (kv : List (String × String)) : String := Id.run do
  let some cfgName := getS kv "cfg" | return "bad-op"
  let some cfg := Cfg.ofName cfgName | return "bad-op"
  let some sz := getN kv "sz" | return "bad-op"
  let some vea := getN kv "vea" | return "bad-op"
  let some c := getN kv "c" | return "bad-op"
  let some n := getN kv "n" | return "bad-op"
  let some i0s := getS kv "i0" | return "bad-op"
  let some sn := getN kv "sn" | return "bad-op"
  let some f := getN kv "f" | return "bad-op"
  let some st := getN kv "s" | return "bad-op"
  let some ops := getS kv "op" | return "bad-op"
  let some dyn := getN kv "dyn" | return "bad-op"
  let i0 := parseNats i0s
  let it : Nat → Nat := fun i => i0.getD i 0
  let V := cfg.native.lanes sz
  let op := aopOf ops
  let v : Views.View := ⟨if dyn == 1 then .dyn1 else .fix1, [sn], [⟨f, st, n⟩]⟩
  let env : Nat → Nat → Fp := fun w j => if w == 2 then Fp.ofTok 2 (v.evalS j) else Fp.ofTok w j
  let ins := scatter (vea == 1) Fp.ofInt env it (fun _ => false) (.t 2) n V
  let fin := exec op.ap ins (fun p => Fp.ofTok 1 p)
  let mem := (List.range c).map fin
  let rd1 := if op != .set then sortDedup (ins.map (·.1)) else []
  let rd2 := sortDedup ((List.range n).map v.evalS)
  return s!"route=flat1:write-from-range:{pathOf (vea == 1) n V} V={V} VAL={hex (digFp 0 mem)} WSEQ={hex (hashNats 0 (ins.map (·.1)))} NW={ins.length} RD1={hex (hashNats 0 rd1)} RD2={hex (hashNats 0 rd2)}"

/-- `A(mask) op= S(range)` (1-D) -/
def runFvsrc (kv : List (String × String)) : String := Id.run do
  let some cfgName := getS kv "cfg" | return "bad-op"
  let some cfg := Cfg.ofName cfgName | return "bad-op"
  let some sz := getN kv "sz" | return "bad-op"
  let some n := getN kv "n" | return "bad-op"
  let some ms := getS kv "mask" | return "bad-op"
  let some sn := getN kv "sn" | return "bad-op"
  let some f := getN kv "f" | return "bad-op"
  let some st := getN kv "s" | return "bad-op"
  let some ops := getS kv "op" | return "bad-op"
  let some dyn := getN kv "dyn" | return "bad-op"
  let bits := ms.toList.map (· == '1')
  let mask : Nat → Bool := fun i => bits.getD i false
  let V := cfg.native.lanes sz
  let op := aopOf ops
  let v : Views.View := ⟨if dyn == 1 then .dyn1 else .fix1, [sn], [⟨f, st, n⟩]⟩
  let env : Nat → Nat → Fp := fun w j => if w == 2 then Fp.ofTok 2 (v.evalS j) else Fp.ofTok w j
  let ins := filterInstrs Fp.ofInt env (fun i => i) mask (.t 2) n
  let fin := exec op.ap ins (fun p => Fp.ofTok 1 p)
  let mem := (List.range n).map fin
  let sel := (List.range n).filter fun p => mask p
  let rd1 := if op != .set then sel else []
  let rd2 := sortDedup (sel.map v.evalS)
  return s!"route=mask:write-from-range:scalar-loop V={V} VAL={hex (digFp 0 mem)} WSEQ={hex (hashNats 0 (ins.map (·.1)))} NW={ins.length} RD1={hex (hashNats 0 rd1)} RD2={hex (hashNats 0 rd2)}"

private def allOf (n : Nat) : List Nat := List.range n

/-- `A(it) op= <evaluating rhs>` on a 1-D parent: kind 0 `P % q`, 2 `P % q + D`, 3 `B % A` (reads the parent) -/
def runRstaged (kv : List (String × String)) : String := Id.run do
  let some cfgName := getS kv "cfg" | return "bad-op"
  let some cfg := Cfg.ofName cfgName | return "bad-op"
  let some sz := getN kv "sz" | return "bad-op"
  let some vea := getN kv "vea" | return "bad-op"
  let some c := getN kv "c" | return "bad-op"
  let some n := getN kv "n" | return "bad-op"
  let some i0s := getS kv "i0" | return "bad-op"
  let some ops := getS kv "op" | return "bad-op"
  let some kind := getN kv "kind" | return "bad-op"
  let i0 := parseNats i0s
  let it : Nat → Nat := fun i => i0.getD i 0
  let V := cfg.native.lanes sz
  let op := aopOf ops
  let tok : Nat → Nat → Fp := fun w p => Fp.ofTok w p
  let rhsOf : (Nat → Fp) → Nat → Fp := fun mem j =>
    if kind == 3 then mmAt (tok 5) mem c 1 j
    else if kind == 2 then mmAt (tok 2) (tok 3) 2 1 j + tok 4 j else mmAt (tok 2) (tok 3) 2 1 j
  let par : Nat → Fp := tok 1
  let tmp := rhsOf par
  let ins := scatter (vea == 1) Fp.ofInt (stagedEnv tok 7 tmp) it (fun _ => false) (.t 7) n V
  let fin := stagedScatter (vea == 1) op.ap Fp.ofInt tok it (fun _ => false) rhsOf n V par
  let mem := (List.range c).map fin
  let rd1 := sortDedup ((if op != .set then ins.map (·.1) else []) ++ (if kind == 3 then allOf c else []))
  let rd2 := if kind == 3 then [] else allOf (n * 2)
  return s!"route=flat1:write-staged:{pathOf (vea == 1) n V} V={V} VAL={hex (digFp 0 mem)} WSEQ={hex (hashNats 0 (ins.map (·.1)))} NW={ins.length} RD1={hex (hashNats 0 rd1)} RD2={hex (hashNats 0 rd2)}"

/-- `A(mask) op= <evaluating rhs>` on an `m x n` parent: kind 0 `P % Q`, 1 `trans(C)`, 2 `P % Q + D`, 3 `A % B` -/
def runFstaged (kv : List (String × String)) : String := Id.run do
  let some cfgName := getS kv "cfg" | return "bad-op"
  let some cfg := Cfg.ofName cfgName | return "bad-op"
  let some sz := getN kv "sz" | return "bad-op"
  let some m := getN kv "m" | return "bad-op"
  let some n := getN kv "n" | return "bad-op"
  let some ms := getS kv "mask" | return "bad-op"
  let some ops := getS kv "op" | return "bad-op"
  let some kind := getN kv "kind" | return "bad-op"
  let bits := ms.toList.map (· == '1')
  let mask : Nat → Bool := fun i => bits.getD i false
  let V := cfg.native.lanes sz
  let op := aopOf ops
  let tok : Nat → Nat → Fp := fun w p => Fp.ofTok w p
  let rhsOf : (Nat → Fp) → Nat → Fp := fun mem p =>
    if kind == 3 then mmAt mem (tok 5) n n p
    else if kind == 1 then tok 6 (p % n * m + p / n)
    else if kind == 2 then mmAt (tok 2) (tok 3) 2 n p + tok 4 p else mmAt (tok 2) (tok 3) 2 n p
  let par : Nat → Fp := tok 1
  let sz2 := m * n
  let ins := filterInstrs Fp.ofInt (stagedEnv tok 7 (rhsOf par)) (fun i => i) mask (.t 7) sz2
  let fin := stagedFilter op.ap Fp.ofInt tok (fun i => i) mask rhsOf sz2 par
  let mem := (List.range sz2).map fin
  let sel := (List.range sz2).filter fun p => mask p
  let rd1 := sortDedup ((if op != .set then sel else []) ++ (if kind == 3 then allOf sz2 else []))
  let rd2 := if kind == 0 || kind == 2 then allOf (m * 2) else []
  return s!"route=mask:write-staged:scalar-loop V={V} VAL={hex (digFp 0 mem)} WSEQ={hex (hashNats 0 (ins.map (·.1)))} NW={ins.length} RD1={hex (hashNats 0 rd1)} RD2={hex (hashNats 0 rd2)}"

end Fastor.Driver
