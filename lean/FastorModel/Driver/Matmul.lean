import FastorModel.Driver.Common
import FastorModel.Model.Matmul
import FastorModel.Model.Tmatmul
/- `matmul` and `tmatmul` commands of the driver -/
namespace Fastor.Driver
open Fastor

private def routeName : Matmul.Route → String
  | .nonPrimitive => "nonprim" | .matvec => "matvec" | .smallN => "smalln" | .base => "base"
  | .baseMasked => "basemasked" | .tiny => "tiny" | .spec => "spec"

def runMatmul (kv : List (String × String)) : String := Id.run do
  let some cfgName := getS kv "cfg" | return "bad-op"
  let some cfg0 := Cfg.ofName cfgName | return "bad-op"
  let cfg := { cfg0 with outerBlock := getN kv "ob", innerBlock := getN kv "ib" }
  let some sz := getN kv "sz" | return "bad-op"
  let some M := getN kv "M" | return "bad-op"
  let some K := getN kv "K" | return "bad-op"
  let some N := getN kv "N" | return "bad-op"
  let (rt, V, segs) := Matmul.kernel cfg sz M K N
  let a : Nat → Fp := fun k => Fp.ofTok 1 k
  let b : Nat → Fp := fun k => Fp.ofTok 2 k
  let evs := segs.flatMap Seg.events
  let mut mem : Array Fp := (Array.range (M * N)).map (fun p => Fp.ofTok 0 p)
  let mut oob := 0
  let mut wseq : UInt64 := 0
  for e in evs do
    let p := e.pos N
    wseq := hstep wseq (UInt64.ofNat p)
    if p < mem.size then mem := mem.set! p (Matmul.val a b K N e) else oob := oob + 1
  let vh := mem.foldl (fun h x => Fp.hash h x) (0 : UInt64)
  let ra := hashNats 0 (sortDedup (Matmul.readsA K segs))
  let rb := hashNats 0 (sortDedup (Matmul.readsB N segs))
  return s!"route={routeName rt} V={V} VAL={hex vh} WSEQ={hex wseq} NW={evs.length} RDA={hex ra} RDB={hex rb} OOB={oob}"

def inTri (t : Tmatmul.UpLo) (r c : Nat) : Bool :=
  match t with
  | .general => true
  | .lower => c ≤ r
  | .upper => r ≤ c

def runTmatmul (kv : List (String × String)) : String := Id.run do
  let some cfgName := getS kv "cfg" | return "bad-op"
  let some cfg0 := Cfg.ofName cfgName | return "bad-op"
  let cfg := { cfg0 with outerBlock := getN kv "ob", innerBlock := getN kv "ib" }
  let some sz := getN kv "sz" | return "bad-op"
  let some M := getN kv "M" | return "bad-op"
  let some K := getN kv "K" | return "bad-op"
  let some N := getN kv "N" | return "bad-op"
  let some lt := (getS kv "lt").bind Tmatmul.UpLo.ofName | return "bad-op"
  let some rt := (getS kv "rt").bind Tmatmul.UpLo.ofName | return "bad-op"
  let (route, V, segs) := Tmatmul.tkernel cfg lt rt sz M K N
  let a : Nat → Fp := fun k => if inTri lt (k / K) (k % K) then Fp.ofTok 1 k else 0
  let b : Nat → Fp := fun k => if inTri rt (k / N) (k % N) then Fp.ofTok 2 k else 0
  let evs := segs.flatMap Seg.events
  let mut mem : Array Fp := (Array.range (M * N)).map (fun p => Fp.ofTok 0 p)
  let mut oob := 0
  let mut wseq : UInt64 := 0
  for e in evs do
    let p := e.pos N
    wseq := hstep wseq (UInt64.ofNat p)
    if p < mem.size then mem := mem.set! p (Tmatmul.tval a b K N e) else oob := oob + 1
  let vh := mem.foldl (fun h x => Fp.hash h x) (0 : UInt64)
  let ra := hashNats 0 (sortDedup (Tmatmul.readsA K segs))
  let rb := hashNats 0 (sortDedup (Tmatmul.readsB N segs))
  let rn := match route with | .base => "base" | .baseMasked => "basemasked" | .nonPrimitive => "nonprim"
  return s!"route={rn} V={V} VAL={hex vh} WSEQ={hex wseq} NW={evs.length} RDA={hex ra} RDB={hex rb} OOB={oob}"

end Fastor.Driver
