import FastorModel.Driver.Common
import FastorModel.Driver.Expr
import FastorModel.Model.Layout
import FastorModel.Model.MapAlias
import FastorModel.Model.MapAliasWide
import FastorModel.Model.Config
/- `layout` and `mapops` commands of the driver (C20) -/
namespace Fastor.Driver
open Fastor Fastor.Expr Fastor.Layout Fastor.MapAlias

private def parseDims (s : String) : List Nat := (s.splitOn "x").filterMap String.toNat?

/-- force a memory into an array (a function-valued `def` would be re-run on every application) -/
def memArr (n : Nat) (m : Nat → Fp) : Array Fp := ((List.range n).map m).toArray

def digestMem (n : Nat) (m : Nat → Fp) : UInt64 := (List.range n).foldl (fun h p => Fp.hash h (m p)) (0 : UInt64)

def runLayout (kv : List (String × String)) : String := Id.run do
  let some fn := getS kv "fn" | return "bad-op"
  let some src := getS kv "src" | return "bad-op"
  let some ds := getS kv "dims" | return "bad-op"
  let dims := parseDims ds
  let n := prod dims
  let a : Nat → Fp := fun p => Fp.ofTok 1 p
  let zero : Nat → Fp := fun _ => 0
  let seq := List.range n
  let cmReads := (toColumnMajorMoves dims).map (·.2)
  let rmReads := (toRowMajorMoves dims).map (·.2)
  let cmW := movesWrites (toColumnMajorMoves dims) a
  let rmW := movesWrites (toRowMajorMoves dims) a
  let cmA := memArr n (applyWrites cmW zero)
  let rmA := memArr n (applyWrites rmW zero)
  let cm : Nat → Fp := fun p => cmA.getD p 0
  let rm : Nat → Fp := fun p => rmA.getD p 0
  let rtcrW := movesWrites (toRowMajorMoves dims) cm
  let rtrcW := movesWrites (toColumnMajorMoves dims) rm
  let ccW := ctorBufferWrites dims .columnMajor a zero
  let crW := ctorBufferWrites dims .rowMajor a zero
  let _ := src
  -- (result, reads of the input window, writes of the result window, reads of the result window)
  let (res, rseq, wseq, r0seq) : (Nat → Fp) × List Nat × List Nat × List Nat :=
    match fn with
    | "tocm" => (cm, cmReads, seq, [])
    | "torm" => (rm, rmReads, seq, [])
    | "rtcr" => (applyWrites rtcrW zero, cmReads, seq, [])
    | "rtrc" => (applyWrites rtrcW zero, rmReads, seq, [])
    | "ptrcm" => (applyWrites ccW zero, seq, seq ++ seq, cmReads)
    | "ptrrm" => (applyWrites crW zero, seq, seq, [])
    | "arrcm" => (applyWrites ccW zero, [], seq ++ seq, cmReads)
    | "veccm" => (applyWrites ccW zero, [], seq ++ seq, cmReads)
    | "arrrm" => (applyWrites crW zero, [], seq, [])
    | "vecrm" => (applyWrites crW zero, [], seq, [])
    | _ => (a, [], seq, [])
  if fn == "ilist" then
    -- nested initializer lists: the elements in reading order are tokens 0,1,2,…; build the nested list of the
    -- given rank and run the constructor's loops
    let ws : List (Nat × Fp) :=
      match dims with
      | [m] => (ilistWrites1 ((List.range m).map a) 0).1
      | [m, k] => (ilistWrites2 ((List.range m).map fun i => (List.range k).map fun j => a (i * k + j)) 0).1
      | [m, k, l] => (ilistWrites3 ((List.range m).map fun i => (List.range k).map fun j => (List.range l).map fun x => a ((i * k + j) * l + x)) 0).1
      | [m, k, l, q] => (ilistWrites4 ((List.range m).map fun i => (List.range k).map fun j => (List.range l).map fun x =>
          (List.range q).map fun y => a (((i * k + j) * l + x) * q + y)) 0).1
      | _ => []
    let mem := applyWrites ws zero
    return s!"VAL={hex (digestMem n mem)} WSEQ={hex (hashNats 0 (ws.map (·.1)))} NW={ws.length} route=ilist/rank{dims.length}"
  return s!"VAL={hex (digestMem n res)} RSEQ={hex (hashNats 0 rseq)} NR={rseq.length} WSEQ={hex (hashNats 0 wseq)} NW={wseq.length} R0SEQ={hex (hashNats 0 r0seq)} NR0={r0seq.length} route={fn}/{if dims.length < 2 then "copy" else if dims.length == 2 then "loop2" else "odometer"}/src-{src}"

/-- `<via>:<kind>:<arg>` -/
def parseOp (tok : String) : Option (Via × Op) :=
  match tok.splitOn ":" with
  | [v, k, arg] =>
    let via := if v == "m" then Via.map else Via.src
    let aop (s : String) : AOp := if s == "add" then .add else if s == "sub" then .sub else if s == "mul" then .mul else .set
    if k == "w" then some (via, .write ((arg.splitOn ".").filterMap String.toNat?) 0)
    else if k == "fill" then some (via, .fill 0)
    else if k == "sadd" || k == "ssub" || k == "smul" then some (via, .scal (aop (k.drop 1).toString) 0)
    else if k == "cp" then some (via, .copy)
    else if k == "rd" then (if arg == "0" then some (E.t 0) else exprOfId arg).map fun e => (via, .read e)
    else if k.startsWith "e" then (exprOfId arg).map fun e => (via, .expr (aop (k.drop 1).toString) e)
    else if k.startsWith "x" then some (via, .other (aop (k.drop 1).toString))
    else none
  | _ => none
where
  exprOfId (arg : String) : Option E :=
    let encs := ["t1", "t1_t2_add", "t1_t2_mul_t0_sub", "t0_t1_add", "t0_neg", "t0_c2_add_t2_mul", "t0_t0_mul_t1_sub", "c3_t1_sub",
                 "t0_t0_add", "t2_t0_t1_mul_sub_neg"]
    match arg.toNat? with
    | some i => if i == 0 then some (E.t 1) else (encs[i]?).bind parseExpr
    | none => none

def evAligned : Ev → Nat
  | .vload _ true => 1
  | .vstore _ true => 1
  | _ => 0

def evWrites (V : Nat) : Ev → List Nat
  | .store p _ => [p]
  | .vstore p _ => (List.range V).map (p + ·)
  | .vload _ _ => []

def runMapops (kv : List (String × String)) : String := Id.run do
  let some cfgName := getS kv "cfg" | return "bad-op"
  let some cfg := Cfg.ofName cfgName | return "bad-op"
  let some sz := getN kv "sz" | return "bad-op"
  let some kind := getS kv "kind" | return "bad-op"
  let some sds := getS kv "sdims" | return "bad-op"
  let some mds := getS kv "mdims" | return "bad-op"
  let some opss := getS kv "ops" | return "bad-op"
  let sd := parseDims sds
  let md := parseDims mds
  let n := prod sd
  let V := cfg.native.lanes sz
  let vectorised := V > 1
  -- an owning tensor reports is_aligned() = true unless FASTOR_DONT_VECTORISE; a raw-buffer "source" is itself a map
  let srcN : Name := { dims := sd, isMap := kind == "raw", aligned := kind != "raw" && vectorised }
  let mapN : Name := { dims := md, isMap := true, aligned := false }
  let some prog := (opss.splitOn ",").mapM parseOp | return "bad-op"
  let mut s : MapAlias.St Fp := { buf := fun p => Fp.ofTok 0 p, rd := fun v => match v with | .map => fun p => Fp.ofTok 5 p | .src => fun p => Fp.ofTok 6 p }
  let mut chain : UInt64 := 0
  let mut wseq : UInt64 := 0
  let mut nw := 0
  let mut alnm := 0
  let mut alns := 0
  let mut stepNo := 0
  for (via, o) in prog do
    let nm := match via with | .map => mapN | .src => srcN
    let opnd : Nat → Nat → Fp := match via with
      | .map => fun w p => Fp.ofTok w p
      | .src => fun w p => Fp.ofTok (w + 2) p
    let k := stepNo
    let (s', evs) := step Fp.ofInt (fun _ => Fp.ofTok 9 k) opnd (fun _ => 0) V nm via o s
    -- force the three memories once per step (otherwise the closures nest and every read replays the history)
    let bufA := memArr n s'.buf
    let rdM := memArr n (s'.rd .map)
    let rdS := memArr n (s'.rd .src)
    s := { buf := fun p => bufA.getD p 0, rd := fun v => match v with | .map => (fun p => rdM.getD p 0) | .src => (fun p => rdS.getD p 0) }
    let ws := evs.flatMap (evWrites V)
    wseq := hstep wseq (hashNats 0 ws)
    nw := nw + ws.length
    let al := (evs.map evAligned).foldl (· + ·) 0
    match via with
    | .map => alnm := alnm + al
    | .src => alns := alns + al
    chain := hstep chain (digestMem n s.buf)
    match o with
    | .read _ => chain := hstep chain (digestMem n (s.rd via))
    | _ => pure ()
    stepNo := stepNo + 1
  return s!"V={V} VAL={hex chain} WSEQ={hex wseq} NW={nw} ALNM={alnm} ALNS={alns} SAME=1 route=mapops/{kind}"

/-! ### `mapwide`: three names of one storage, enlarged alphabet -/

/-- the symbolic tie never divides (view writes use = += -= *=); the instance only satisfies `ViewWrite.WOp.ap` -/
private instance : Div Fp := ⟨fun a _ => a⟩

private def parseAxes (arg : String) : List ViewWrite.Ax :=
  (arg.splitOn ".").filterMap fun t =>
    match (t.splitOn "-").filterMap String.toNat? with
    | [f, st, e] => some ⟨f, st, e⟩
    | _ => none

private def parseSigned (arg : String) : List Int :=
  (arg.splitOn ".").filterMap fun t =>
    if t.startsWith "n" then (t.drop 1).toNat?.map fun k => -(k : Int) else t.toNat?.map fun k => (k : Int)

private def wop (s : String) : ViewWrite.WOp := if s == "add" then .add else if s == "sub" then .sub else if s == "mul" then .mul else .set
private def aop (s : String) : AOp := if s == "add" then .add else if s == "sub" then .sub else if s == "mul" then .mul else .set

/-- `<k>:<kind>:<arg>` -/
private def parseOp2 (tok : String) : Option (Nat × Op2) :=
  match tok.splitOn ":" with
  | [ks, kind, arg] =>
    ks.toNat?.bind fun k =>
      if kind == "ss" then some (k, .sassign 0)
      else if kind == "fill" then some (k, .base (.fill 0))
      else if kind == "eadd" then some (k, .base (.expr .add (.t 1)))
      else if kind == "wi" then some (k, .windex (parseSigned arg) 0)
      else if kind == "red" then some (k, .reduce)
      else if kind == "tr" then some (k, .staged .set 0)
      else if kind == "mx" then some (k, .staged .set 2)
      else if kind.startsWith "mm" then some (k, .staged (aop (kind.drop 2).toString) 1)
      else if kind.startsWith "vw" then
        let body := (kind.drop 2).toString
        let o := (body.take (body.length - 1)).toString
        let rhs : VRhs := if body.endsWith "s" then .scalar 0 else .tensor
        some (k, .viewW (parseAxes arg) (wop o) rhs)
      else none
  | _ => none

def runMapwide (kv : List (String × String)) : String := Id.run do
  let some cfgName := getS kv "cfg" | return "bad-op"
  let some cfg := Cfg.ofName cfgName | return "bad-op"
  let some sz := getN kv "sz" | return "bad-op"
  let some sds := getS kv "sdims" | return "bad-op"
  let some mds := getS kv "mdims" | return "bad-op"
  let some gds := getS kv "gdims" | return "bad-op"
  let some opss := getS kv "ops" | return "bad-op"
  let sd := parseDims sds
  let n := prod sd
  let V := cfg.native.lanes sz
  let names : Nat → Name := fun k =>
    if k == 0 then { dims := sd, isMap := false, aligned := V > 1 }
    else if k == 1 then { dims := parseDims mds, isMap := true, aligned := false }
    else { dims := parseDims gds, isMap := true, aligned := false }
  let some prog := (opss.splitOn ",").mapM parseOp2 | return "bad-op"
  let mut bufA : Array Fp := memArr n fun p => Fp.ofTok 0 p
  let mut chain : UInt64 := 0
  let mut stepNo := 0
  for (k, o) in prog do
    let nm := names k
    let bA := bufA
    let buf : Nat → Fp := fun p => bA.getD p 0
    let bwin := 1 + k
    let awin := 4 + k
    -- operand 1 of the step: B of this name; for a view write with a tensor right-hand side, logical element j of B(seq…)
    let opnd : Nat → Nat → Fp := match o with
      | .viewW axs _ .tensor => fun _ j => Fp.ofTok bwin (ViewWrite.posOf nm.dims axs (ViewWrite.unflat (axs.map (·.ext)) j))
      | _ => fun _ p => Fp.ofTok bwin p
    let (M, N) : Nat × Nat := match nm.dims with
      | [a, b] => (a, b)
      | _ => (1, 1)
    let stagedFn : Nat → (Nat → Fp) → Nat → Fp := fun tag cur p =>
      let i := p / N
      let j := p % N
      if tag == 0 then cur (j * M + i)
      else (List.range M).foldl (fun acc q => acc + Fp.ofTok awin (i * M + q) * (if tag == 2 then cur (q * N + j) else Fp.ofTok bwin (q * N + j))) 0
    let kk := stepNo
    let (s', _) := step2 Fp.ofInt (fun _ => Fp.ofTok 9 kk) opnd (fun _ => 0) V stagedFn nm k o
      { buf := buf, rd := fun _ _ => 0, acc := 0 }
    bufA := memArr n s'.buf
    let cur := bufA
    chain := hstep chain (digestMem n fun p => cur.getD p 0)
    match o with
    | .reduce => chain := hstep (hstep chain s'.acc.v0) s'.acc.v1
    | _ => pure ()
    stepNo := stepNo + 1
  return s!"VAL={hex chain} SAME=1 route=mapwide"

end Fastor.Driver
