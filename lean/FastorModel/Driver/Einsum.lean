import FastorModel.Driver.Common
import FastorModel.Model.Einsum
import FastorModel.Model.Matmul
import FastorModel.Model.Network
/- `einsum` command of the driver -/
namespace Fastor.Driver
open Fastor Fastor.Einsum

def parseList (s : String) : List Nat :=
  if s == "-" then [] else (s.splitOn ",").filterMap String.toNat?

def showList (l : List Nat) : String :=
  if l.isEmpty then "-" else ",".intercalate (l.map toString)

def routeStr : Route → String
  | .inner => "inner" | .dyadic => "dyadic" | .gemv => "gemv" | .gevm => "gevm" | .gemm => "gemm" | .general => "general"

def runEinsum (kv : List (String × String)) : String := Id.run do
  let some cfgName := getS kv "cfg" | return "bad-op"
  let some cfg := Cfg.ofName cfgName | return "bad-op"
  let some sz := getN kv "sz" | return "bad-op"
  let some sI := getS kv "I" | return "bad-op"
  let some sJ := getS kv "J" | return "bad-op"
  let some sdI := getS kv "dI" | return "bad-op"
  let some sdJ := getS kv "dJ" | return "bad-op"
  let p : Pair := ⟨parseList sI, parseList sJ, parseList sdI, parseList sdJ⟩
  let vectorise := cfg.native != Abi.scalar
  let stride := p.stride sz vectorise
  let rt := p.route
  let a : Nat → Fp := fun k => Fp.ofTok 1 k
  let b : Nat → Fp := fun k => Fp.ofTok 2 k
  let n := prod p.resDims
  let hdr := s!"route={routeStr rt} DIMS={showList p.resDims} V={stride}"
  match rt with
  | .general =>
    let evs := p.loopEvents stride
    let out := runAcc a b n evs
    let vh := out.foldl (fun h x => Fp.hash h x) (0 : UInt64)
    let wz := (List.range n)
    let wacc := evs.flatMap fun e => (List.range e.lanes).map (e.io + ·)
    let wseq := hashNats 0 (wz ++ wacc)
    let ra := hashNats 0 (sortDedup (evs.map (·.ia)))
    let rb := hashNats 0 (sortDedup (evs.flatMap fun e => (List.range e.lanes).map (e.ib + ·)))
    let vt := cfg.native.lanes sz
    let aln := (if vt > 1 then n / vt else 0) + (if stride > 1 && !p.resDims.isEmpty then 2 * evs.length else 0)
    return s!"{hdr} VAL={hex vh} WSEQ={hex wseq} NW={wz.length + wacc.length} RDA={hex ra} RDB={hex rb} ALN={aln}"
  | .gemv | .gevm | .gemm =>
    let (M, K, N, swapped) := p.gemmShape
    let (_, _, segs) := Matmul.kernel cfg sz M K N
    let la := if swapped then b else a
    let lb := if swapped then a else b
    let evs := segs.flatMap Seg.events
    let mut mem : Array Fp := Array.replicate (M * N) (0 : Fp)
    let mut wseq : UInt64 := 0
    for e in evs do
      let q := e.pos N
      wseq := hstep wseq (UInt64.ofNat q)
      if q < mem.size then mem := mem.set! q (Matmul.val la lb K N e)
    let vh := mem.foldl (fun h x => Fp.hash h x) (0 : UInt64)
    let rl := hashNats 0 (sortDedup (Matmul.readsA K segs))
    let rr := hashNats 0 (sortDedup (Matmul.readsB N segs))
    let (ra, rb) := if swapped then (rr, rl) else (rl, rr)
    return s!"{hdr} VAL={hex vh} WSEQ={hex wseq} NW={evs.length} RDA={hex ra} RDB={hex rb} ALN=0"
  | .inner =>
    let m := prod p.dI
    let v : Fp := (List.range m).foldl (fun acc k => a k * b k + acc) 0
    return s!"{hdr} VAL={hex (Fp.hash 0 v)}"
  | .dyadic =>
    let m := prod p.dI
    let nn := prod p.dJ
    let vh := (List.range (m * nn)).foldl (fun h q => Fp.hash h (a (q / nn) * b (q % nn))) (0 : UInt64)
    return s!"{hdr} VAL={hex vh}"

end Fastor.Driver

namespace Fastor.Driver
open Fastor Fastor.Einsum Fastor.Network

/-- `einsumn n=3 I0=.. d0=.. I1=.. d1=.. I2=.. d2=..` -/
def runEinsumN (kv : List (String × String)) : String := Id.run do
  let some n := getN kv "n" | return "bad-op"
  let mut ops : List Operand := []
  for k in List.range n do
    let some si := getS kv s!"I{k}" | return "bad-op"
    let some sd := getS kv s!"d{k}" | return "bad-op"
    ops := ops ++ [⟨parseList si, parseList sd⟩]
  let toks : Nat → List Fp := fun k => (List.range (prod (ops.getD k default).dims)).map (Fp.ofTok (k + 1))
  let decl := declared ops
  if getN kv "opmin" == some 0 then
    let (r, x) := directVals ops ((List.range n).map toks)
    let vh := x.foldl (fun h v => Fp.hash h v) (0 : UInt64)
    return s!"VAR=-1 DIMS={showList decl.dims} RIDX={showList r.idx} RDIMS={showList r.dims} VAL={hex vh}"
  match ops with
  | [A, B, C] =>
    let pl := triplet A B C
    let (r, x) := eval3 A B C (toks 0) (toks 1) (toks 2)
    let vh := x.foldl (fun h v => Fp.hash h v) (0 : UInt64)
    return s!"VAR={pl.variant} DIMS={showList decl.dims} RIDX={showList r.idx} RDIMS={showList r.dims} VAL={hex vh}"
  | [A, B, C, D] =>
    let pl := quartet A B C D
    let (r, x) := eval4 A B C D (toks 0) (toks 1) (toks 2) (toks 3)
    let vh := x.foldl (fun h v => Fp.hash h v) (0 : UInt64)
    return s!"VAR={pl.variant} DIMS={showList decl.dims} RIDX={showList r.idx} RDIMS={showList r.dims} VAL={hex vh}"
  | _ => return "bad-op"

end Fastor.Driver
