import FastorModel.Driver.Common
import FastorModel.Driver.Expr
import FastorModel.Model.Reduce
/- `reduce`, `minmax`, `pred`, `det` commands of the driver (property C16) -/
namespace Fastor.Driver
open Fastor Fastor.Expr Fastor.Reduce

private def hashOne (x : Fp) : UInt64 := Fp.hash 0 x

/-- observables shared by the vectorised reductions -/
private def loopObs (n V : Nat) (us : List Nat) (scalarCfg : Bool := false) (U : Nat := 1) : String :=
  let steps := vecSteps n V us
  let tl := tailPos n V us
  s!"DEPTH={depth n V U us} " ++
  -- with FASTOR_DONT_VECTORISE the "vector" is SIMDVector<T,simd_abi::scalar>: its loads are plain element reads
  if scalarCfg then
    s!"LV=0 NVL=0 LSEQ={hex 0} TAIL={hex (hashNats 0 (sortDedup (steps.map (·.2) ++ tl)))}"
  else
  s!"LV={if steps.isEmpty then 0 else V} NVL={steps.length} LSEQ={hex (hashNats 0 (steps.map (·.2)))} TAIL={hex (hashNats 0 tl)}"

def runReduce (kv : List (String × String)) : String := Id.run do
  let some cfgName := getS kv "cfg" | return "bad-op"
  let some cfg := Cfg.ofName cfgName | return "bad-op"
  let some sz := getN kv "sz" | return "bad-op"
  let some n := getN kv "n" | return "bad-op"
  let some k := getS kv "k" | return "bad-op"
  let some es := getS kv "E" | return "bad-op"
  let some e := parseExpr es | return "bad-op"
  let env : Nat → Nat → Fp := fun w p => Fp.ofTok w p
  let term : Nat → Fp := evalS Fp.ofInt env e
  let plain := match e with | .t _ => true | _ => false
  let Vn := cfg.native.lanes sz
  let a512 := cfg.native == .avx512
  let sc := cfg.native == .scalar
  let leaves0 := e.leaves ++ (match (getS kv "F").bind parseExpr with | some f => f.leaves | none => [])
  let rdOf (ps : List Nat) : String := " ".intercalate ((sortDedup leaves0).map fun w => s!"RD{w}={hex (hashNats 0 ps)}")
  let rdAll := rdOf (List.range n)
  match k with
  | "sum" => return s!"route=expr V={Vn} VAL={hex (hashOne (sumExpr term n Vn))} {loopObs n Vn [1] sc} {rdAll}"
  | "prod" => return s!"route=expr V={Vn} VAL={hex (hashOne (prodExpr term n Vn))} {loopObs n Vn [1] sc} {rdAll}"
  | "tsum" =>
    if n ≤ 1 then return s!"route=early V={Vn} VAL={hex (hashOne (tensorSum term n Vn))} LV=0 NVL=0 LSEQ={hex 0} TAIL={hex (hashNats 0 [0])} {rdAll}"
    else return s!"route=loops V={Vn} VAL={hex (hashOne (tensorSum term n Vn))} {loopObs n Vn [1] sc} {rdAll}"
  | "tprod" =>
    if n ≤ 1 then return s!"route=early V={Vn} VAL={hex (hashOne (tensorProd term n Vn))} LV=0 NVL=0 LSEQ={hex 0} TAIL={hex (hashNats 0 [0])} {rdAll}"
    else return s!"route=loops V={Vn} VAL={hex (hashOne (tensorProd term n Vn))} {loopObs n Vn [1] sc} {rdAll}"
  | "norm" =>
    if plain then
      let V := cfg.vsize sz n
      let (U, us) := normLadder a512
      let single := n ≤ U * V
      return s!"route={if single then "norm1" else "normU"} V={V} VAL={hex (hashOne (norm2Tensor a512 term n V))} {loopObs n V (if single then [1] else us) sc (if single then 1 else U)} {rdAll}"
    else
      return s!"route=normE V={Vn} VAL={hex (hashOne (norm2Expr a512 term n Vn))} {loopObs n Vn (normLadder a512).2 sc (normLadder a512).1} {rdAll}"
  | "inner" =>
    let some fs := getS kv "F" | return "bad-op"
    let some f := parseExpr fs | return "bad-op"
    let termB : Nat → Fp := evalS Fp.ofInt env f
    let V := cfg.vsize sz n
    let single := n ≤ 4 * V
    let plainB := match f with | .t _ => true | _ => false
    let obs := if plain && plainB then loopObs n V (if single then [1] else [4, 2, 1]) sc (if single then 1 else 4) else s!"DEPTH={depth n V (if single then 1 else 4) (if single then [1] else [4, 2, 1])}"
    return s!"route={if single then "dc1" else "dc4"} V={V} VAL={hex (hashOne (Reduce.inner term termB n V))} {obs} {rdAll}"
  | "trace" =>
    -- n is the matrix extent M
    let v := if plain then Reduce.trace term n else Reduce.traceExpr term n
    let diag := (List.range n).map fun i => i * (n + 1)
    return s!"route={if plain then "trace" else "traceE"} VAL={hex (hashOne v)} LV=0 NVL=0 TAIL={hex (hashNats 0 diag)} {rdOf diag}"
  | "det" =>
    return s!"route=det{n} VAL={hex (hashOne (detSimple n term))} {rdOf (List.range (n * n))}"
  | _ => return "bad-op"

/-- integer list `a,b,c` with `inf` / `-inf` sentinels -/
private def parseInts (s : String) : List Int :=
  (s.splitOn ",").filterMap fun t =>
    if t == "inf" then some (2 ^ 2000 : Int) else if t == "-inf" then some (-(2 ^ 2000 : Int)) else t.toInt?

/-- the value of a `numeric_limits<T>::…()` seed name for element type `T` (integer-valued data, scaled by 2 so
    that the smallest positive float `min()` has a representation: 1) -/
private def seedVal (ty nm : String) : Option Int :=
  let isF := ty == "float" || ty == "double"
  let big : Int := match ty with
    | "float" => 2 ^ 128 - 2 ^ 104
    | "double" => 2 ^ 1024 - 2 ^ 971
    | "int32" => 2 ^ 31 - 1
    | _ => 2 ^ 63 - 1
  match nm with
  | "max" => some (2 * big)
  | "lowest" => some (if isF then -(2 * big) else -(2 * big) - 2)
  | "min" => some (if isF then 1 else -(2 * big) - 2)
  | "zero" => some 0
  -- `has_infinity ? infinity() : max()` and `has_infinity ? -infinity() : lowest()`
  | "infmax" => some (if isF then 2 * (2 ^ 2000 : Int) else 2 * big)
  | "neginflowest" => some (if isF then -(2 * (2 ^ 2000 : Int)) else -(2 * big) - 2)
  | _ => none

def runMinmax (kv : List (String × String)) : String := Id.run do
  let some cfgName := getS kv "cfg" | return "bad-op"
  let some cfg := Cfg.ofName cfgName | return "bad-op"
  let some ty := getS kv "T" | return "bad-op"
  let some k := getS kv "k" | return "bad-op"
  let some seedName := getS kv "seed" | return "bad-op"
  let some xs := getS kv "x" | return "bad-op"
  let some seed := seedVal ty seedName | return "bad-op"
  let sz := if ty == "float" || ty == "int32" then 4 else 8
  let V := cfg.native.lanes sz
  let data := (parseInts xs).toArray.map (· * 2)
  let n := data.size
  let x : Nat → Int := fun i => data.getD i 0
  let better : Int → Int → Bool := if k == "min" then (fun a b => decide (a < b)) else (fun a b => decide (b < a))
  let r := minmax better seed x n V
  let show_ (r : Int) : String :=
    if r % 2 != 0 then "tiny" else
    let h := r / 2
    if h == 2 ^ 2000 then "inf" else if h == -(2 ^ 2000 : Int) then "-inf" else toString h
  return s!"route=minmax V={V} R={show_ r}"

/-- all `2^n` boolean tensors: digests of the three predicates over the masks in increasing order -/
def runPred (kv : List (String × String)) : String := Id.run do
  let some n := getN kv "n" | return "bad-op"
  let mut ha : UInt64 := 0
  let mut hy : UInt64 := 0
  let mut hn : UInt64 := 0
  for m in [0:2 ^ n] do
    let b : Nat → Bool := fun i => m.testBit i
    ha := hstep ha (if allOf b n then 1 else 0)
    hy := hstep hy (if anyOf b n then 1 else 0)
    hn := hstep hn (if noneOfCode b n then 1 else 0)
  if getS kv "what" == some "none" then return s!"route=pred NONE={hex hn}"
  return s!"route=pred ALL={hex ha} ANY={hex hy}"

/-- `determinant<QR>` = `product(diag(R))` with `R_ii = sqrts(...) >= 0`: the sign of the determinant is lost -/
def runDetQR (kv : List (String × String)) : String :=
  match getS kv "sgn" with
  | some "neg" => "route=detqr REL=abs"
  | some _ => "route=detqr REL=exact"
  | none => "bad-op"

end Fastor.Driver
