import FastorModel.Driver.Common
import FastorModel.Model.Views
import FastorModel.Model.Config
/- `view`, `sidx`, `iseq` commands of the driver (property C04) -/
namespace Fastor.Driver.ViewsCmd
open Fastor.Driver
open Fastor Fastor.Views

private def parseDims (s : String) : List Nat := (s.splitOn "x").filterMap String.toNat?

/-- `first:last:step:isint` per axis, axes separated by `,` -/
def parseSeqs (s : String) : List (Seq × Bool) :=
  (s.splitOn ",").filterMap fun t =>
    match (t.splitOn ":").map String.toInt? with
    | [some f, some l, some st, some i] => some (⟨f, l, st⟩, i != 0)
    | _ => none

def clsOfName : String → Option Cls
  | "dyn1" => some .dyn1 | "dyn2" => some .dyn2 | "dynN" => some .dynN
  | "fix1" => some .fix1 | "fix2" => some .fix2 | "fixN" => some .fixN | _ => none

private def routeName : Route → String
  | .contiguous => "c" | .strided => "s" | .gather => "g"

/-- all multi-indices below `dims`, row-major order -/
def multiIdx : List Nat → List (List Nat)
  | [] => [[]]
  | d :: ds => (List.range d).flatMap fun i => (multiIdx ds).map fun r => i :: r

def hashToks (win : Nat) (h : UInt64) (offs : List Nat) : UInt64 :=
  offs.foldl (fun h o => Fp.hash h (Fp.ofTok win o)) h

def runMem (n : Nat) (ws : List (Nat × Nat)) : Array (Option Nat) :=
  ws.foldl (fun (m : Array (Option Nat)) w => if w.1 < m.size then m.set! w.1 (some w.2) else m) (Array.replicate n none)

/-- digest of the result tensor: element = sum over the operand windows (window, coefficient) of
    coefficient * parent element at the offset -/
def valDigestC (wins : List (Nat × Int)) (n : Nat) (ws : List (Nat × Nat)) : UInt64 :=
  (runMem n ws).foldl (fun h o =>
    match o with
    | none => Fp.hash h 0
    | some off => Fp.hash h (wins.foldl (fun (acc : Fp) w => acc + Fp.ofInt w.2 * Fp.ofTok w.1 off) 0)) 0

def valDigest (wins : List Nat) (n : Nat) (ws : List (Nat × Nat)) : UInt64 :=
  valDigestC (wins.map fun w => (w, 1)) n ws

def consumerObs (tag : String) (wins : List (Nat × Int)) (n : Nat) (r : Run) : String :=
  let rd := hashNats 0 (sortDedup (r.writes.map (·.2)))
  s!"C{tag}={hex (valDigestC wins n r.writes)} W{tag}={hex (hashNats 0 (r.writes.map (·.1)))} N{tag}={r.writes.length} L{tag}={r.loads * wins.length} R{tag}={hex rd}"

def runView (kv : List (String × String)) : String := Id.run do
  let some cfgName := getS kv "cfg" | return "bad-op"
  let some cfg := Cfg.ofName cfgName | return "bad-op"
  let some sz := getN kv "sz" | return "bad-op"
  let some cls := (getS kv "cls").bind clsOfName | return "bad-op"
  let some ck := getS kv "ck" | return "bad-op"
  let some pd := (getS kv "D").map parseDims | return "bad-op"
  let some ss := (getS kv "S").map parseSeqs | return "bad-op"
  if ss.length != pd.length || pd.isEmpty then return "bad-op"
  -- a 16-byte carrier stands for complex<double>: its vectors have the lane count of double
  let V := cfg.native.lanes (if sz == 16 then 8 else sz)
  -- what the user wrote -> seq -> the class' normaliser
  let nsq := (ss.zip pd).map fun (sb, d) =>
    let s := if sb.2 then Seq.ofInt sb.1.first else sb.1
    cls.norm (d : Int) s
  let wellFormed := (nsq.zip pd).all fun (s, d) => decide (0 ≤ s.first) && decide (s.first < s.last) && decide (s.last ≤ (d : Int)) && decide (0 < s.step)
  if !wellFormed then return "ADM=0"
  let axs := nsq.map Ax.ofSeq
  let v : View := ⟨cls, pd, axs⟩
  let n := v.size
  let dims := vdims axs
  let rank := pd.length
  let es := (List.range n).map v.evalS
  let evIdx := (List.range (n + 1 - V))
  let ev := evIdx.flatMap (v.evalV V)
  -- (i,j) probes
  let pairs : List (Nat × Nat) :=
    match cls, dims with
    | .dyn2, [d0, d1] => (List.range d0).flatMap fun i => (List.range d1).map fun j => (i, j)
    | .fix2, [d0, d1] => (List.range d0).flatMap fun i => (List.range d1).map fun j => (i, j)
    | _, _ =>
      let dl := dims.getLast?.getD 1
      (forRange 0 n dl).flatMap fun i => (List.range dl).map fun j => (i, j)
  let is2 := cls == .dyn2 || cls == .fix2
  let dl := dims.getLast?.getD 1
  let e2s := pairs.map fun (i, j) => v.eval2S i j
  let pairsV := pairs.filter fun (i, j) => if is2 then j + V ≤ dl else i + j + V ≤ n
  let e2v := pairsV.map fun (i, j) => v.eval2V V i j
  let mi := multiIdx dims
  let ts := mi.map v.tevalS
  let rt := v.route V
  let miV := mi.filter fun as =>
    match rt with
    | .gather => (unflatPos dims as) + V ≤ n
    | _ => as.getLast?.getD 0 + V ≤ dl
  let tv := miV.map (v.tevalV V)
  let nlt := if rt == .contiguous then miV.length else 0
  let nl2 := (e2v.filter (·.1)).length
  let allReads := es ++ ev ++ e2s ++ (e2v.flatMap (·.2)) ++ ts ++ tv.flatten
  let probe := s!"ADM=1 V={V} SZ={n} DM={"x".intercalate (dims.map toString)} ES={hex (hashToks 1 0 es)} EV={hex (hashToks 1 0 ev)} E2S={hex (hashToks 1 0 e2s)} E2V={hex (hashToks 1 0 (e2v.flatMap (·.2)))} TS={hex (hashToks 1 0 ts)} TV={hex (hashToks 1 0 tv.flatten)} NLT={nlt} NL2={nl2} route={routeName rt} RDP={hex (hashNats 0 (sortDedup allReads))}"
  -- consumers
  let isConst := ck == "c"
  -- views of a TensorMap are not recognised by `has_tensor_view`: every consumer is `trivial_assign`
  let isMap := getS kv "par" == some "map"
  let c1 : Run :=
    if rank == 1 || isMap then v.trivialAssign V
    else if is2 then v.ctor2 V (dims.getD 0 0) (dims.getD 1 0)
    else v.ctorN V (!isConst) dims
  let c2 : Run := v.trivialAssign V
  let c3 : Run :=
    if rank == 1 || isMap then v.trivialAssign V
    else if is2 then v.ctor2 V (dims.getD 0 0) (dims.getD 1 0)
    else v.ctorN V false dims
  return s!"{probe} {consumerObs "1" [(1, 1)] n c1} {consumerObs "2" [(1, 1)] n c2} {consumerObs "3" [(1, 2), (2, 1)] n c3}"
where
  unflatPos (dims as : List Nat) : Nat := (dims.zip as).foldl (fun acc (d, a) => acc * d + a) 0

/-- scalar indexing: `sidx D=3x4 I=-1,2 chk=0` -/
def runSidx (kv : List (String × String)) : String := Id.run do
  let some pd := (getS kv "D").map parseDims | return "bad-op"
  let some is := (getS kv "I").map (fun s => (s.splitOn ",").filterMap String.toInt?) | return "bad-op"
  let chk := (getN kv "chk").getD 0 != 0
  match scalarIndex chk pd is with
  | none => return "OFF=assert"
  | some o => return s!"OFF={o}"

/-- immediate sequences: `iseq D=5x6 S=0:4:2,1:6:3` -/
def runIseq (kv : List (String × String)) : String := Id.run do
  let some pd := (getS kv "D").map parseDims | return "bad-op"
  let some ss := (getS kv "S").map parseSeqs | return "bad-op"
  if ss.length != pd.length then return "bad-op"
  let tr := ss.map fun (s, _) => (s.first.toNat, s.last.toNat, s.step.toNat)
  let rd := ss.map fun (s, _) => s.size.toNat
  let ws := iseqLoop pd rd tr
  let n := lprod rd
  return s!"DM={"x".intercalate (rd.map toString)} C1={hex (valDigest [1] n ws)} W1={hex (hashNats 0 (ws.map (·.1)))} N1={ws.length} R1={hex (hashNats 0 (sortDedup (ws.map (·.2))))}"

/-- diagonal views `diag(A)` of an `n × n` tensor: `eval_s(i) = A(i,i)`, `eval(i)` gathers `inds[j] = (i+j)*N + (i+j)`,
    consumer `trivial_assign`.  The offsets are those of a 1-D view of the flattened parent with first 0 and step `n+1`. -/
def diagView (n : Nat) : View := ⟨.dyn1, [n * n], [⟨0, n + 1, n⟩]⟩

def runDiag (kv : List (String × String)) : String := Id.run do
  let some cfgName := getS kv "cfg" | return "bad-op"
  let some cfg := Cfg.ofName cfgName | return "bad-op"
  let some sz := getN kv "sz" | return "bad-op"
  let some n := getN kv "n" | return "bad-op"
  -- a 16-byte carrier stands for complex<double>: its vectors have the lane count of double
  let V := cfg.native.lanes (if sz == 16 then 8 else sz)
  let v := diagView n
  let es := (List.range n).map v.evalS
  let ev := (List.range (n + 1 - V)).flatMap (v.evalV V)
  let c := v.trivialAssign V
  return s!"V={V} SZ={n} ES={hex (hashToks 1 0 es)} EV={hex (hashToks 1 0 ev)} RDP={hex (hashNats 0 (sortDedup (es ++ ev)))} {consumerObs "1" [(1, 1)] n c} {consumerObs "2" [(1, 1)] n c}"

end Fastor.Driver.ViewsCmd
