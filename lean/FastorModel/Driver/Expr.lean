import FastorModel.Driver.Common
import FastorModel.Model.Expr
import FastorModel.Model.Config
/- `expr` command of the driver: element-wise expression assignment -/
namespace Fastor.Driver
open Fastor Fastor.Expr

/-- postfix encoding: tokens separated by `_`: `t<k>` tensor of window k, `c<k>` / `cm<k>` constants
    k / -k, `add sub mul` binary, `neg` unary -/
def parseExpr (s : String) : Option E :=
  let toks := s.splitOn "_"
  let st := toks.foldl (fun (st : Option (List E)) tok =>
    match st with
    | none => none
    | some stack =>
      if tok.startsWith "t" then (tok.drop 1).toNat?.map fun k => E.t k :: stack
      else if tok.startsWith "cm" then (tok.drop 2).toNat?.map fun k => E.c (-(k : Int)) :: stack
      else if tok.startsWith "c" then (tok.drop 1).toNat?.map fun k => E.c k :: stack
      else if tok == "neg" then
        match stack with
        | e :: rest => some (E.neg e :: rest)
        | _ => none
      else
        let op? : Option BinOp := if tok == "add" then some .add else if tok == "sub" then some .sub
          else if tok == "mul" then some .mul else none
        match op?, stack with
        | some op, r :: l :: rest => some (E.bin op l r :: rest)
        | _, _ => none) (some [])
  match st with
  | some [e] => some e
  | _ => none

def runExpr (kv : List (String × String)) : String := Id.run do
  let some cfgName := getS kv "cfg" | return "bad-op"
  let some cfg := Cfg.ofName cfgName | return "bad-op"
  let some sz := getN kv "sz" | return "bad-op"
  let some n := getN kv "n" | return "bad-op"
  let some es := getS kv "E" | return "bad-op"
  let some e := parseExpr es | return "bad-op"
  let some ops := getS kv "op" | return "bad-op"
  let op : AOp := if ops == "add" then .add else if ops == "sub" then .sub else if ops == "mul" then .mul else .set
  let V := cfg.native.lanes sz
  let env : Nat → Nat → Fp := fun w p => Fp.ofTok w p
  let dst : Nat → Fp := fun p => Fp.ofTok 0 p
  let ws := assignWrites Fp.ofInt env op dst e n V
  let mem := (List.range n).map fun p => applyWrites ws dst p
  let vh := mem.foldl (fun h x => Fp.hash h x) (0 : UInt64)
  let wseq := hashNats 0 (ws.map (·.1))
  let leaves := sortDedup e.leaves
  let rd := hashNats 0 (List.range n)
  let rds := " ".intercalate (leaves.map fun w => s!"RD{w}={hex rd}")
  let nvec := if V > 1 then roundDown n V / V else 0
  -- plain `=` on an owning tensor materialises a temporary and copies it element by element
  let aln := if op == .set then 0 else nvec * 2
  return s!"V={V} VAL={hex vh} WSEQ={hex wseq} NW={ws.length} ALN={aln} {rds}"

end Fastor.Driver
