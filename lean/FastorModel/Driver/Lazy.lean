import FastorModel.Driver.Common
import FastorModel.Model.Lazy
/- `lazy` command: staged assignment of expressions with lazy matrix products -/
namespace Fastor.Driver
open Fastor Fastor.Lazy

/-- postfix: `t<k>` tensor k (0 = destination), `add sub mul` element-wise, `mm` lazy product -/
def parseLExpr (s : String) : Option LExpr :=
  let st := (s.splitOn "_").foldl (fun (st : Option (List LExpr)) tok =>
    match st with
    | none => none
    | some stack =>
      if tok.startsWith "t" then (tok.drop 1).toNat?.map fun k => LExpr.leaf k :: stack
      else
        match tok, stack with
        | "add", r :: l :: rest => some (LExpr.ew .add l r :: rest)
        | "sub", r :: l :: rest => some (LExpr.ew .sub l r :: rest)
        | "mul", r :: l :: rest => some (LExpr.ew .mul l r :: rest)
        | "mm", r :: l :: rest => some (LExpr.mm l r :: rest)
        | _, _ => none) (some [])
  match st with
  | some [e] => some e
  | _ => none

def runLazy (kv : List (String × String)) : String := Id.run do
  let some n := getN kv "n" | return "bad-op"
  let some es := getS kv "E" | return "bad-op"
  let some e := parseLExpr es | return "bad-op"
  let some ops := getS kv "op" | return "bad-op"
  let op : AOp := if ops == "add" then .add else if ops == "sub" then .sub else if ops == "mul" then .mul else .set
  let σ : Store Fp := fun x p => Fp.ofTok x p
  -- plain `=` on an owning tensor first builds a temporary (name 99) from the expression, then copies it
  let (s, passes) :=
    if op == .set then
      let (s1, _) := assignS n .set 99 e (upd σ 99 (fun _ => 0))
      (upd s1 0 (s1 99), 1)
    else assignS n op 0 e σ
  let vh := (List.range (n * n)).foldl (fun h p => Fp.hash h (s 0 p)) (0 : UInt64)
  return s!"VAL={hex vh} PASSES={passes}"

end Fastor.Driver
