import FastorModel.Driver.Common
import FastorModel.Generated.Simd_sse2
import FastorModel.Generated.Simd_avx2
import FastorModel.Generated.Simd_avx512
import FastorModel.Generated.C16Spec_avx2
import FastorModel.Generated.C16Spec_avx512
import FastorModel.Generated.C16Hadd_avx2
import FastorModel.Generated.C16Hadd_avx512
/- `hstep` command of the driver (C16): the horizontal helpers of extintrin.h, EXECUTED from the definitions that
   vlib/xlate_simd.py generates from the current source for the build configuration of the case.  The uninterpreted
   floating-point operations are instantiated by integer arithmetic on the lane bit patterns (the harness uses
   integer-valued lanes for which every association is exact), so the data movement of the generated code decides the result. -/
namespace Fastor.Driver.C16H
open Fastor Fastor.Simd Fastor.Driver

/-- integer instance of the lane operations (two's complement) -/
def intFO : FOps where
  add32 := (· + ·)
  sub32 := (· - ·)
  mul32 := (· * ·)
  div32 := fun a _ => a
  min32 := smin32
  max32 := smax32
  sqrt32 := id
  fma32 := fun a b c => a * b + c
  add64 := (· + ·)
  sub64 := (· - ·)
  mul64 := (· * ·)
  div64 := fun a _ => a
  min64 := smin64
  max64 := smax64
  sqrt64 := id
  fma64 := fun a b c => a * b + c

private def reg32 (xs : Array Int) : Reg := fun l => BitVec.ofInt 32 (xs.getD l 0)
private def reg64 (xs : Array Int) : Reg := of64 fun j => BitVec.ofInt 64 (xs.getD j 0)

/-- result of helper `fn` under configuration `cfg` (`sse2`: Gen.sse2; `avx2`, `avx`, `sse42`: Gen.avx2; `avx512`: Gen.avx512) -/
private def evalHelper (cfg fn : String) (xs : Array Int) : Option Int :=
  let a32 := reg32 xs
  let a64 := reg64 xs
  let i32 (x : BitVec 32) : Option Int := some x.toInt
  let i64 (x : BitVec 64) : Option Int := some x.toInt
  match cfg with
  | "sse2" =>
    match fn with
    | "hmax_ps" => i32 (Gen.sse2.mm_hmax_ps intFO a32) | "hmin_ps" => i32 (Gen.sse2.mm_hmin_ps intFO a32)
    | "hmax_pd" => i64 (Gen.sse2.mm_hmax_pd intFO a64) | "hmin_pd" => i64 (Gen.sse2.mm_hmin_pd intFO a64)
    | "sum_ps" => i32 (Gen.sse2.mm_sum_ps intFO a32) | "prod_ps" => i32 (Gen.sse2.mm_prod_ps intFO a32)
    | "sum_pd" => i64 (Gen.sse2.mm_sum_pd intFO a64) | "prod_pd" => i64 (Gen.sse2.mm_prod_pd intFO a64)
    | "sum_epi32" => i32 (Gen.sse2.mm_sum_epi32 a32) | "prod_epi32" => i32 (Gen.sse2.mm_prod_epi32 a32)
    | _ => none
  | "avx512" =>
    match fn with
    | "hmax_ps" => i32 (Gen.avx512.mm_hmax_ps intFO a32) | "hmin_ps" => i32 (Gen.avx512.mm_hmin_ps intFO a32)
    | "hmax_pd" => i64 (Gen.avx512.mm_hmax_pd intFO a64) | "hmin_pd" => i64 (Gen.avx512.mm_hmin_pd intFO a64)
    | "sum_ps" => i32 (Gen.avx512.mm_sum_ps intFO a32) | "prod_ps" => i32 (Gen.avx512.mm_prod_ps intFO a32)
    | "sum_pd" => i64 (Gen.avx512.mm_sum_pd intFO a64) | "prod_pd" => i64 (Gen.avx512.mm_prod_pd intFO a64)
    | "sum_epi32" => i32 (Gen.avx512.mm_sum_epi32 a32) | "prod_epi32" => i32 (Gen.avx512.mm_prod_epi32 a32)
    | "hmax256_ps" => i32 (Gen.avx512.mm256_hmax_ps intFO a32) | "hmin256_ps" => i32 (Gen.avx512.mm256_hmin_ps intFO a32)
    | "hmax256_pd" => i64 (Gen.avx512.mm256_hmax_pd intFO a64) | "hmin256_pd" => i64 (Gen.avx512.mm256_hmin_pd intFO a64)
    | "sum256_ps" => i32 (Gen.avx512.mm256_sum_ps intFO a32) | "prod256_ps" => i32 (Gen.avx512.mm256_prod_ps intFO a32)
    | "sum256_pd" => i64 (Gen.avx512.mm256_sum_pd intFO a64) | "prod256_pd" => i64 (Gen.avx512.mm256_prod_pd intFO a64)
    | _ => none
  | _ =>
    match fn with
    | "hmax_ps" => i32 (Gen.avx2.mm_hmax_ps intFO a32) | "hmin_ps" => i32 (Gen.avx2.mm_hmin_ps intFO a32)
    | "hmax_pd" => i64 (Gen.avx2.mm_hmax_pd intFO a64) | "hmin_pd" => i64 (Gen.avx2.mm_hmin_pd intFO a64)
    | "sum_ps" => i32 (Gen.avx2.mm_sum_ps intFO a32) | "prod_ps" => i32 (Gen.avx2.mm_prod_ps intFO a32)
    | "sum_pd" => i64 (Gen.avx2.mm_sum_pd intFO a64) | "prod_pd" => i64 (Gen.avx2.mm_prod_pd intFO a64)
    | "sum_epi32" => i32 (Gen.avx2.mm_sum_epi32 a32) | "prod_epi32" => i32 (Gen.avx2.mm_prod_epi32 a32)
    | "hmax256_ps" => i32 (Gen.avx2.mm256_hmax_ps intFO a32) | "hmin256_ps" => i32 (Gen.avx2.mm256_hmin_ps intFO a32)
    | "hmax256_pd" => i64 (Gen.avx2.mm256_hmax_pd intFO a64) | "hmin256_pd" => i64 (Gen.avx2.mm256_hmin_pd intFO a64)
    | "sum256_ps" => i32 (Gen.avx2.mm256_sum_ps intFO a32) | "prod256_ps" => i32 (Gen.avx2.mm256_prod_ps intFO a32)
    | "sum256_pd" => i64 (Gen.avx2.mm256_sum_pd intFO a64) | "prod256_pd" => i64 (Gen.avx2.mm256_prod_pd intFO a64)
    | _ => none

/-- `cfg=<isa>-hadd` (the harness was compiled with -DFASTOR_USE_HADD): the four sums have a second body, generated into
    Generated/C16Hadd_<isa>.lean; every other helper is the one of the plain configuration -/
private def evalHelperCfg (cfg fn : String) (xs : Array Int) : Option Int :=
  if cfg.endsWith "-hadd" then
    let isa := (cfg.dropRight 5)
    let a32 := reg32 xs
    let a64 := reg64 xs
    let sse3 := isa != "sse2" && isa != "scalar"
    match isa == "avx512", fn with
    | true, "sum_ps" => some (Gen.avx512.hadd.mm_sum_ps intFO a32).toInt
    | true, "sum_pd" => some (Gen.avx512.hadd.mm_sum_pd intFO a64).toInt
    | true, "sum256_ps" => some (Gen.avx512.hadd.mm256_sum_ps intFO a32).toInt
    | true, "sum256_pd" => some (Gen.avx512.hadd.mm256_sum_pd intFO a64).toInt
    | false, "sum_ps" => if sse3 then some (Gen.avx2.hadd.mm_sum_ps intFO a32).toInt else evalHelper isa fn xs
    | false, "sum_pd" => if sse3 then some (Gen.avx2.hadd.mm_sum_pd intFO a64).toInt else evalHelper isa fn xs
    | false, "sum256_ps" => some (Gen.avx2.hadd.mm256_sum_ps intFO a32).toInt
    | false, "sum256_pd" => some (Gen.avx2.hadd.mm256_sum_pd intFO a64).toInt
    | _, _ => evalHelper isa fn xs
  else evalHelper cfg fn xs

def runHstep (kv : List (String × String)) : String := Id.run do
  let some cfg := getS kv "cfg" | return "bad-op"
  let some fn := getS kv "fn" | return "bad-op"
  let some xs := getS kv "x" | return "bad-op"
  let data := ((xs.splitOn ",").filterMap String.toInt?).toArray
  match evalHelperCfg cfg fn data with
  | some r => return s!"route=hstep R={r}"
  | none => return "bad-op"

/-- `hspec`: the intrinsic specialisations of the reduction back ends, executed from Generated/C16Spec_<isa>.lean
    (square root = identity, so `_norm` yields the radicand) -/
private def evalSpec (cfg fn : String) (xs ys : Array Int) : Option Int :=
  let fo : FOps := { intFO with sqrt32 := id, sqrt64 := id }
  -- memory behind the pointers: 32-bit words (a double element is two words)
  let m32 : Reg := reg32 xs
  let m64 : Reg := reg64 xs
  let n32 : Reg := reg32 ys
  let n64 : Reg := reg64 ys
  match cfg with
  | "avx512-hadd" =>
    match fn with
    | "norm_float_4" => some (Gen.avx512.hadd.norm_float_4 fo m32).toInt
    | "norm_float_9" => some (Gen.avx512.hadd.norm_float_9 fo m32).toInt
    | "trace_float_2x2" => some (Gen.avx512.hadd.trace_float_2x2 fo m32).toInt
    | "trace_float_3x3" => some (Gen.avx512.hadd.trace_float_3x3 fo m32).toInt
    | "det_float_2" => some (Gen.avx512.hadd.det_float_2 fo m32).toInt
    | "det_float_3" => some (Gen.avx512.hadd.det_float_3 fo m32).toInt
    | "norm_double_4" => some (Gen.avx512.hadd.norm_double_4 fo m64).toInt
    | "norm_double_9" => some (Gen.avx512.hadd.norm_double_9 fo m64).toInt
    | "trace_double_2x2" => some (Gen.avx512.hadd.trace_double_2x2 fo m64).toInt
    | "trace_double_3x3" => some (Gen.avx512.hadd.trace_double_3x3 fo m64).toInt
    | "det_double_2" => some (Gen.avx512.hadd.det_double_2 fo m64).toInt
    | "det_double_3" => some (Gen.avx512.hadd.det_double_3 fo m64).toInt
    | "doublecontract_float_2x2" => some (Gen.avx512.hadd.doublecontract_float_2x2 fo m32 n32).toInt
    | "doublecontract_float_3x3" => some (Gen.avx512.hadd.doublecontract_float_3x3 fo m32 n32).toInt
    | "doublecontract_double_2x2" => some (Gen.avx512.hadd.doublecontract_double_2x2 fo m64 n64).toInt
    | "doublecontract_double_3x3" => some (Gen.avx512.hadd.doublecontract_double_3x3 fo m64 n64).toInt
    | _ => none
  | "avx512" =>
    match fn with
    | "norm_float_4" => some (Gen.avx512.spec.norm_float_4 fo m32).toInt
    | "norm_float_9" => some (Gen.avx512.spec.norm_float_9 fo m32).toInt
    | "trace_float_2x2" => some (Gen.avx512.spec.trace_float_2x2 fo m32).toInt
    | "trace_float_3x3" => some (Gen.avx512.spec.trace_float_3x3 fo m32).toInt
    | "det_float_2" => some (Gen.avx512.spec.det_float_2 fo m32).toInt
    | "det_float_3" => some (Gen.avx512.spec.det_float_3 fo m32).toInt
    | "norm_double_4" => some (Gen.avx512.spec.norm_double_4 fo m64).toInt
    | "norm_double_9" => some (Gen.avx512.spec.norm_double_9 fo m64).toInt
    | "trace_double_2x2" => some (Gen.avx512.spec.trace_double_2x2 fo m64).toInt
    | "trace_double_3x3" => some (Gen.avx512.spec.trace_double_3x3 fo m64).toInt
    | "det_double_2" => some (Gen.avx512.spec.det_double_2 fo m64).toInt
    | "det_double_3" => some (Gen.avx512.spec.det_double_3 fo m64).toInt
    | "doublecontract_float_2x2" => some (Gen.avx512.spec.doublecontract_float_2x2 fo m32 n32).toInt
    | "doublecontract_float_3x3" => some (Gen.avx512.spec.doublecontract_float_3x3 fo m32 n32).toInt
    | "doublecontract_double_2x2" => some (Gen.avx512.spec.doublecontract_double_2x2 fo m64 n64).toInt
    | "doublecontract_double_3x3" => some (Gen.avx512.spec.doublecontract_double_3x3 fo m64 n64).toInt
    | _ => none
  | _ =>
    if cfg.endsWith "-hadd" then
      match fn with
      | "norm_float_4" => some (Gen.avx2.hadd.norm_float_4 fo m32).toInt
      | "norm_float_9" => some (Gen.avx2.hadd.norm_float_9 fo m32).toInt
      | "trace_float_2x2" => some (Gen.avx2.hadd.trace_float_2x2 fo m32).toInt
      | "trace_float_3x3" => some (Gen.avx2.hadd.trace_float_3x3 fo m32).toInt
      | "det_float_2" => some (Gen.avx2.hadd.det_float_2 fo m32).toInt
      | "det_float_3" => some (Gen.avx2.hadd.det_float_3 fo m32).toInt
      | "norm_double_4" => some (Gen.avx2.hadd.norm_double_4 fo m64).toInt
      | "norm_double_9" => some (Gen.avx2.hadd.norm_double_9 fo m64).toInt
      | "trace_double_2x2" => some (Gen.avx2.hadd.trace_double_2x2 fo m64).toInt
      | "trace_double_3x3" => some (Gen.avx2.hadd.trace_double_3x3 fo m64).toInt
      | "det_double_2" => some (Gen.avx2.hadd.det_double_2 fo m64).toInt
      | "det_double_3" => some (Gen.avx2.hadd.det_double_3 fo m64).toInt
      | "doublecontract_float_2x2" => some (Gen.avx2.hadd.doublecontract_float_2x2 fo m32 n32).toInt
      | "doublecontract_float_3x3" => some (Gen.avx2.hadd.doublecontract_float_3x3 fo m32 n32).toInt
      | "doublecontract_double_2x2" => some (Gen.avx2.hadd.doublecontract_double_2x2 fo m64 n64).toInt
      | "doublecontract_double_3x3" => some (Gen.avx2.hadd.doublecontract_double_3x3 fo m64 n64).toInt
      | _ => none
    else
    match fn with
    | "norm_float_4" => some (Gen.avx2.spec.norm_float_4 fo m32).toInt
    | "norm_float_9" => some (Gen.avx2.spec.norm_float_9 fo m32).toInt
    | "trace_float_2x2" => some (Gen.avx2.spec.trace_float_2x2 fo m32).toInt
    | "trace_float_3x3" => some (Gen.avx2.spec.trace_float_3x3 fo m32).toInt
    | "det_float_2" => some (Gen.avx2.spec.det_float_2 fo m32).toInt
    | "det_float_3" => some (Gen.avx2.spec.det_float_3 fo m32).toInt
    | "norm_double_4" => some (Gen.avx2.spec.norm_double_4 fo m64).toInt
    | "norm_double_9" => some (Gen.avx2.spec.norm_double_9 fo m64).toInt
    | "trace_double_2x2" => some (Gen.avx2.spec.trace_double_2x2 fo m64).toInt
    | "trace_double_3x3" => some (Gen.avx2.spec.trace_double_3x3 fo m64).toInt
    | "det_double_2" => some (Gen.avx2.spec.det_double_2 fo m64).toInt
    | "det_double_3" => some (Gen.avx2.spec.det_double_3 fo m64).toInt
    | "doublecontract_float_2x2" => some (Gen.avx2.spec.doublecontract_float_2x2 fo m32 n32).toInt
    | "doublecontract_float_3x3" => some (Gen.avx2.spec.doublecontract_float_3x3 fo m32 n32).toInt
    | "doublecontract_double_2x2" => some (Gen.avx2.spec.doublecontract_double_2x2 fo m64 n64).toInt
    | "doublecontract_double_3x3" => some (Gen.avx2.spec.doublecontract_double_3x3 fo m64 n64).toInt
    | _ => none

def runHspec (kv : List (String × String)) : String := Id.run do
  let some cfg := getS kv "cfg" | return "bad-op"
  let some fn := getS kv "fn" | return "bad-op"
  let some xs := getS kv "x" | return "bad-op"
  let data := ((xs.splitOn ",").filterMap String.toInt?).toArray
  let data2 := ((((getS kv "y").getD "").splitOn ",").filterMap String.toInt?).toArray
  match evalSpec cfg fn data data2 with
  | some r => return s!"route=hspec R={r}"
  | none => return "bad-op"

end Fastor.Driver.C16H
