import FastorModel.Driver.Common
import FastorModel.Model.Horizontal
/- `hstep` command of the driver: the horizontal helpers of extintrin.h with the immediates read from the source (C16) -/
namespace Fastor.Driver
open Fastor Fastor.Horizontal

def runHstep (kv : List (String × String)) : String := Id.run do
  let some cfg := getS kv "cfg" | return "bad-op"
  let some fn := getS kv "fn" | return "bad-op"
  let some xs := getS kv "x" | return "bad-op"
  let imms := ((getS kv "imm").getD "").splitOn "," |>.filterMap String.toNat?
  let data := ((xs.splitOn ",").filterMap String.toInt?).toArray
  let a : Reg Int := fun l => data.getD l 0
  let i (k : Nat) : Nat := imms.getD k 0
  let sse3 := cfg != "sse2" && cfg != "scalar"
  let add : Int → Int → Int := (· + ·)
  let mul : Int → Int → Int := (· * ·)
  let r? : Option Int := match fn with
    | "hmax_ps" => some (hPs max (i 0) (i 1) a)
    | "hmin_ps" => some (hPs min (i 0) (i 1) a)
    | "hmax_pd" => some (hPd max (i 0) a)
    | "hmin_pd" => some (hPd min (i 0) a)
    | "hmax256_ps" => some (h256Ps max (i 0) (i 1) (i 2) (i 3) a)
    | "hmin256_ps" => some (h256Ps min (i 0) (i 1) (i 2) (i 3) a)
    | "hmax256_pd" => some (h256Pd max (i 0) (i 1) (i 2) a)
    | "hmin256_pd" => some (h256Pd min (i 0) (i 1) (i 2) a)
    | "sum_ps" => some (hsumPs add sse3 (i 0) a)
    | "prod_ps" => some (hsumPs mul sse3 (i 0) a)
    | "sum_pd" => some (hsumPd add a)
    | "prod_pd" => some (hsumPd mul a)
    | "sum256_ps" => some (hsum256Ps add sse3 (i 0) (i 1) a)
    | "prod256_ps" => some (hprod256Ps mul sse3 (i 0) (i 1) a)
    | "sum256_pd" => some (hsum256Pd add (i 0) (i 1) a)
    | "prod256_pd" => some (hprod256Pd mul (i 0) (i 1) a)
    | _ => none
  match r? with
  | some r => return s!"route=hstep STRUCT=ok IMMS=theorem R={r}"
  | none => return "bad-op"

end Fastor.Driver
