import FastorModel.Driver.QR
/- `qrf` command of the driver: the C13 model executed over IEEE doubles / floats (`Float`, `Float32`), bit patterns
   in and out.  Same definitions (`outerStep`, `pivotPerm`, `applyPivot`, `permMatrix`, `findOne`) as the exact runs. -/
namespace Fastor.Driver
open Fastor Fastor.QR

def hexVal (s : String) : Nat :=
  s.foldl (fun acc c => acc * 16 + (if c.isDigit then c.toNat - 48 else if c.toNat ≥ 97 then c.toNat - 87 else c.toNat - 55)) 0

def hexDigits (width : Nat) (v : Nat) : String :=
  let ds := (Nat.toDigits 16 v)
  String.ofList (List.replicate (width - ds.length) '0' ++ ds)

section gen
variable {α : Type} [Zero α] [One α] [Add α] [Sub α] [Mul α] [Div α] [DecidableEq α]

def freezeG (n : Nat) (X : Mat α) : Mat α :=
  let a := (Array.range (n * n)).map (fun p => X (p / n) (p % n))
  ⟨fun i j => a.getD (i * n + j) 0, X.stores⟩

/-- the run of one `qr<...>` entry point over the carrier `α`; returns (Q, R, perm) -/
def runQRG (sqrt abs : α → α) (gt : α → α → Bool) (n : Nat) (strat : String) (A : Mat α) : Mat α × Mat α × Array Nat :=
  let piv := strat.startsWith "piv"
  let pmat := strat.startsWith "pivm"
  let perm : Nat → Nat :=
    if !piv then (fun x => x)
    else if pmat then findOne n (permMatrix n (pivotPerm gt abs n A) : Mat α)
    else pivotPerm gt abs n A
  let permA := (Array.range n).map perm
  let Ap : Mat α := if piv then freezeG n (applyPivot n A (fun i => permA.getD i 0)) else A
  let s := (List.range n).foldl (fun (s : St α) i =>
      let s' := outerStep sqrt n n i s
      { W := freezeG n s'.W, Q := freezeG n s'.Q, R := freezeG n s'.R }) (initSt Ap (Mat.ofFn (fun _ _ => 0)))
  (s.Q, s.R, permA)
end gen

def runQRF (kv : List (String × String)) : String := Id.run do
  let some n := getN kv "n" | return "bad-op"
  let some strat := getS kv "strat" | return "bad-op"
  let some ty := getS kv "T" | return "bad-op"
  let some atxt := getS kv "A" | return "bad-op"
  let ents := (atxt.splitOn ",").toArray.map hexVal
  if ents.size ≠ n * n then return "bad-op"
  if !(strat.startsWith "piv" || strat.startsWith "mgsr") then return "bad-op"
  let ptxt (p : Array Nat) := ",".intercalate (p.toList.map toString)
  let arg := if strat.endsWith "_expr" then "expr" else if strat.endsWith "_sum" then "sum" else if strat.endsWith "_trans" then "trans" else "tensor"
  let route := "bits-" ++ ty ++ "-" ++ arg ++ "-"
    ++ (if strat.startsWith "pivm" then "pivm" else if strat.startsWith "piv" then "pivv" else "nopiv")
  let idx := List.range (n * n)
  if ty == "double" then
    let A : Mat Float := ⟨fun i j => Float.ofBits (UInt64.ofNat (ents.getD (i * n + j) 0)), 0⟩
    let (Q, R, p) := runQRG Float.sqrt Float.abs (fun a b => a > b) n strat A
    let h (X : Mat Float) := ",".intercalate (idx.map (fun q => hexDigits 16 (X (q / n) (q % n)).toBits.toNat))
    return s!"route={route} Q={h Q} R={h R} P={ptxt p}"
  else if ty == "float" then
    let A : Mat Float32 := ⟨fun i j => Float32.ofBits (UInt32.ofNat (ents.getD (i * n + j) 0)), 0⟩
    let (Q, R, p) := runQRG Float32.sqrt Float32.abs (fun a b => a > b) n strat A
    let h (X : Mat Float32) := ",".intercalate (idx.map (fun q => hexDigits 8 (X (q / n) (q % n)).toBits.toNat))
    return s!"route={route} Q={h Q} R={h R} P={ptxt p}"
  else return "bad-op"

end Fastor.Driver

