import FastorModel.Driver.Common
import FastorModel.Model.QR
/- `qr` command of the driver: the C13 model executed over `Rat` with an exact square root -/
namespace Fastor.Driver
open Fastor Fastor.QR

/-- exact square root on perfect rational squares; on anything else the floor of the root of numerator and
    denominator (what `vf::rsqrt_exact` of harness/common/rat.h returns), flagged by `isRatSquare` -/
def ratSqrt (x : Rat) : Rat :=
  if x.num < 0 then 0 else mkRat (Int.ofNat (Nat.sqrt x.num.toNat)) (Nat.sqrt x.den)

def isRatSquare (x : Rat) : Bool :=
  decide (0 ≤ x.num) && Nat.sqrt x.num.toNat * Nat.sqrt x.num.toNat == x.num.toNat && Nat.sqrt x.den * Nat.sqrt x.den == x.den

private def ratAbs (x : Rat) : Rat := if x < 0 then -x else x
private def ratGt (a b : Rat) : Bool := decide (b < a)

private def parseRat (s : String) : Option Rat :=
  match s.splitOn "/" with
  | [a] => a.toInt?.map (fun n => (n : Rat))
  | [a, b] => do let n ← a.toInt?; let d ← b.toNat?; if d = 0 then none else some (mkRat n d)
  | _ => none

private def showRat (x : Rat) : String := if x.den = 1 then toString x.num else s!"{x.num}/{x.den}"

private def showMat (n : Nat) (X : Mat Rat) : String :=
  ",".intercalate ((List.range (n * n)).map (fun p => showRat (X (p / n) (p % n))))

/-- a matrix given by its row-major entries, frozen into an array so that reads are O(1) -/
def matOfArray (n : Nat) (a : Array Rat) (st : Nat := 0) : Mat Rat := ⟨fun i j => a.getD (i * n + j) 0, st⟩

def freeze (n : Nat) (X : Mat Rat) : Mat Rat :=
  matOfArray n ((Array.range (n * n)).map (fun p => X (p / n) (p % n))) X.stores

/-- the outer loop of `qr_mgsr_dispatcher`, one `outerStep` at a time so that the sqrt arguments can be
    inspected; the tensors are frozen into arrays between iterations (same values, O(1) reads).  The fold
    IS `qrMgsr ratSqrt n n A Qin` (definition of `loop`). Returns (state, non-square arguments, calls) -/
def foldQR (n : Nat) (A Qin : Mat Rat) : St Rat × Nat × Nat := Id.run do
  let mut s : St Rat := initSt A Qin
  let mut nsq := 0
  let mut sqc := 0
  for i in List.range n do
    let arg := colNorm2 n s.W i
    sqc := sqc + 1
    if !isRatSquare arg then nsq := nsq + 1
    let s' := outerStep ratSqrt n n i s
    s := { W := freeze n s'.W, Q := freeze n s'.Q, R := freeze n s'.R }
  return (s, nsq, sqc)

/-- length of the longest cycle of the permutation `p` of `0..n-1` (1 = identity) -/
private def maxCycle (n : Nat) (p : Array Nat) : Nat :=
  (List.range n).foldl (fun best i =>
    let len := (List.range n).foldl (fun (acc : Nat × Nat × Bool) _ =>
      let (x, l, done) := acc
      if done then acc else
        let y := p.getD x 0
        if y == i then (y, l + 1, true) else (y, l + 1, false)) (i, 0, false)
    if len.2.1 > best then len.2.1 else best) 0

/-- does the pivot search of some column meet a tie for the maximal |A(i,j)|, i ≥ j ? -/
private def hasTie (n : Nat) (A : Mat Rat) : Bool :=
  (List.range n).any fun j =>
    let col := ((List.range n).filter (fun i => j ≤ i)).map (fun i => ratAbs (A i j))
    let m := col.foldl (fun a b => if a < b then b else a) 0
    (col.filter (fun x => x == m)).length ≥ 2

private def routeOf (strat : String) : String :=
  let arg := if strat.endsWith "_expr" then "expr" else if strat.endsWith "_sum" then "sum" else if strat.endsWith "_trans" then "trans" else "tensor"
  arg ++ "-" ++ (if strat.startsWith "pivm" then "pivm" else if strat.startsWith "piv" then "pivv" else "nopiv")

def runQR (kv : List (String × String)) : String := Id.run do
  let some n := getN kv "n" | return "bad-op"
  let some strat := getS kv "strat" | return "bad-op"
  let some atxt := getS kv "A" | return "bad-op"
  let some ents := (atxt.splitOn ",").mapM parseRat | return "bad-op"
  if ents.length ≠ n * n then return "bad-op"
  let A : Mat Rat := matOfArray n ents.toArray
  let Qin : Mat Rat := Mat.ofFn (fun _ _ => 77)        -- the harness pre-fills the outputs with 77
  let piv := strat.startsWith "piv"
  let pmat := strat.startsWith "pivm"
  if !(piv || strat.startsWith "mgsr") then return "bad-op"
  -- the permutation, and the matrix handed to the dispatcher
  let perm : Nat → Nat :=
    if !piv then (fun x => x)
    else if pmat then findOne n (permMatrix n (pivotPerm ratGt ratAbs n A) : Mat Rat)
    else pivotPerm ratGt ratAbs n A
  let permA := (Array.range n).map perm
  let Ap : Mat Rat := if piv then freeze n (applyPivot n A (fun i => permA.getD i 0)) else A
  let (s, nsq, sqc) := foldQR n Ap Qin
  -- determinant<QR>(A) factorises the unpivoted matrix again
  let (sd, nsqd, _) := if piv then foldQR n A Qin else (s, nsq, sqc)
  let det := diagProd n sd.R
  let ptxt := ",".intercalate (permA.toList.map toString)
  let route := routeOf strat
  let pc := if piv then maxCycle n permA else 1
  let tie := if piv && hasTie n A then 1 else 0
  return s!"route={route} PCYC={pc} TIE={tie} Q={showMat n s.Q} R={showMat n s.R} P={ptxt} DET={showRat det} NSQ={nsq + nsqd} SQC={sqc} NST={s.W.stores},{s.Q.stores},{s.R.stores}"

end Fastor.Driver
