import FastorModel.Core.Fp
/- helpers shared by the `fmodel` command handlers -/
namespace Fastor.Driver

def parseKV (toks : List String) : List (String × String) :=
  toks.filterMap fun t =>
    match t.splitOn "=" with
    | [k, v] => some (k, v)
    | _ => none

def getS (kv : List (String × String)) (k : String) : Option String := (kv.find? (·.1 == k)).map (·.2)
def getN (kv : List (String × String)) (k : String) : Option Nat := (getS kv k).bind String.toNat?

def sortDedup (xs : List Nat) : List Nat :=
  let a := xs.toArray.qsort (· < ·)
  let r := a.foldl (fun (acc : Array Nat) x => if acc.size > 0 && acc.back! == x then acc else acc.push x) #[]
  r.toList

end Fastor.Driver
