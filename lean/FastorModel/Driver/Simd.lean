import FastorModel.Driver.Common
import FastorModel.Model.SimdIntrinsics
/-
  C08 driver command `intrin`: evaluates one modelled intrinsic of Model/SimdIntrinsics.lean on concrete lanes, so that
  the check can compare the model with the real instruction executed by harness/simd_intrin.h on the same values.
    intrin f=<model name> w=<32-bit lanes printed> imm=<n> a=<hex,hex,..> b=.. c=..   ->   r=<hex,..>
  Floating-point operations are executed with Lean's Float32 / Float (IEEE, round to nearest); NaN results are printed
  canonically (7fc00000 / 7ff8000000000000) on both sides.
-/
namespace Fastor.Driver
open Fastor.Simd

def hexDigit (c : Char) : Nat :=
  if '0' ≤ c ∧ c ≤ '9' then c.toNat - '0'.toNat else if 'a' ≤ c ∧ c ≤ 'f' then c.toNat - 'a'.toNat + 10 else 0
def parseHex (s : String) : Nat := s.foldl (fun n c => n * 16 + hexDigit c) 0
def parseLanes (s : String) : Reg :=
  let xs := (s.splitOn ",").map fun t => BitVec.ofNat 32 (parseHex t)
  fun k => xs.getD k 0
def toHex (n : Nat) : String := String.ofList (Nat.toDigits 16 n)

def f32 (x : BitVec 32) : Float32 := Float32.ofBits x.toNat.toUInt32
def b32 (x : Float32) : BitVec 32 := if x.isNaN then 0x7fc00000#32 else BitVec.ofNat 32 x.toBits.toNat
def f64 (x : BitVec 64) : Float := Float.ofBits x.toNat.toUInt64
def b64 (x : Float) : BitVec 64 := if x.isNaN then 0x7ff8000000000000#64 else BitVec.ofNat 64 x.toBits.toNat

/-- the hardware operations: IEEE arithmetic; min/max with the SSE rule (second operand unless a < b resp. a > b) -/
def hwOps : FOps where
  add32 a b := b32 (f32 a + f32 b)
  sub32 a b := b32 (f32 a - f32 b)
  mul32 a b := b32 (f32 a * f32 b)
  div32 a b := b32 (f32 a / f32 b)
  min32 a b := if f32 a < f32 b then a else b
  max32 a b := if f32 a > f32 b then a else b
  sqrt32 a := b32 (f32 a).sqrt
  fma32 a b c := b32 (f32 a * f32 b + f32 c)
  add64 a b := b64 (f64 a + f64 b)
  sub64 a b := b64 (f64 a - f64 b)
  mul64 a b := b64 (f64 a * f64 b)
  div64 a b := b64 (f64 a / f64 b)
  min64 a b := if f64 a < f64 b then a else b
  max64 a b := if f64 a > f64 b then a else b
  sqrt64 a := b64 (f64 a).sqrt
  fma64 a b c := b64 (f64 a * f64 b + f64 c)

def canon32 (x : BitVec 32) : BitVec 32 := if (f32 x).isNaN then 0x7fc00000#32 else x
def canon64 (a : Reg) : Reg := of64 fun j => if (f64 (lane64 a j)).isNaN then 0x7ff8000000000000#64 else lane64 a j

def evalIntrin (f : String) (a b c : Reg) (imm : Nat) : Option Reg :=
  let fo := hwOps
  match f with
  | "add_epi32" => some (add_epi32 a b) | "sub_epi32" => some (sub_epi32 a b) | "mullo_epi32" => some (mullo_epi32 a b)
  | "add_epi64" => some (add_epi64 a b) | "sub_epi64" => some (sub_epi64 a b) | "mullo_epi64" => some (mullo_epi64 a b)
  | "mul_epu32" => some (mul_epu32 a b) | "mul_epi32" => some (mul_epi32 a b)
  | "and_si" => some (and_si a b) | "or_si" => some (or_si a b) | "xor_si" => some (xor_si a b) | "andnot_si" => some (andnot_si a b)
  | "srai_epi32" => some (srai_epi32 a imm) | "srli_epi32" => some (srli_epi32 a imm) | "slli_epi32" => some (slli_epi32 a imm)
  | "slli_si128" => some (slli_si128 a imm)
  | "abs_epi32" => some (abs_epi32 a) | "abs_epi64" => some (abs_epi64 a)
  | "min_epi32" => some (min_epi32 a b) | "max_epi32" => some (max_epi32 a b) | "min_epi64" => some (min_epi64 a b) | "max_epi64" => some (max_epi64 a b)
  | "shuffle_epi32" => some (shuffle_epi32 a imm) | "shuffle_ps" => some (shuffle_ps a b imm) | "shuffle_pd" => some (shuffle_pd a b imm)
  | "unpacklo_epi32" => some (unpacklo_epi32 a b) | "unpackhi_epi32" => some (unpackhi_epi32 a b)
  | "unpacklo_epi64" => some (unpacklo_epi64 a b) | "unpackhi_epi64" => some (unpackhi_epi64 a b)
  | "movehl_ps" => some (movehl_ps a b) | "movelh_ps" => some (movelh_ps a b) | "movehdup_ps" => some (movehdup_ps a)
  | "blend_ps" => some (blend_ps a b imm) | "extractf128" => some (extractf128 a imm) | "insertf128" => some (insertf128 a b imm)
  | "permute2f128" => some (permute2f128 a b imm) | "permute4x64" => some (permute4x64 a imm)
  | "permutex2var32" => some (permutex2var32 a b c) | "permutex2var64" => some (permutex2var64 a b c)
  | "permutexvar32" => some (permutexvar32 a b) | "permutexvar64" => some (permutexvar64 a b)
  | "hadd_ps" => some (map32 canon32 (hadd_ps fo a b)) | "hadd_pd" => some (canon64 (hadd_pd fo a b))
  | "add_ps" => some (map32 canon32 (add_ps fo a b)) | "sub_ps" => some (map32 canon32 (sub_ps fo a b))
  | "mul_ps" => some (map32 canon32 (mul_ps fo a b)) | "div_ps" => some (map32 canon32 (div_ps fo a b))
  | "min_ps" => some (map32 canon32 (min_ps fo a b)) | "max_ps" => some (map32 canon32 (max_ps fo a b))
  | "sqrt_ps" => some (map32 canon32 (sqrt_ps fo a))
  | "add_pd" => some (canon64 (add_pd fo a b)) | "sub_pd" => some (canon64 (sub_pd fo a b))
  | "mul_pd" => some (canon64 (mul_pd fo a b)) | "div_pd" => some (canon64 (div_pd fo a b))
  | "min_pd" => some (canon64 (min_pd fo a b)) | "max_pd" => some (canon64 (max_pd fo a b))
  | "sqrt_pd" => some (canon64 (sqrt_pd fo a))
  | "add_ss" => some (map32 canon32 (add_ss fo a b)) | "mul_ss" => some (map32 canon32 (mul_ss fo a b)) | "sub_ss" => some (map32 canon32 (sub_ss fo a b))
  | "add_sd" => some (canon64 (add_sd fo a b)) | "mul_sd" => some (canon64 (mul_sd fo a b)) | "sub_sd" => some (canon64 (sub_sd fo a b))
  | "set1_32" => some (set1_32 (a 0)) | "set1_64" => some (set1_64 (lane64 a 0))
  | "set32_4" => some (set32 [a 0, a 1, a 2, a 3]) | "setr32_4" => some (setr32 [a 0, a 1, a 2, a 3])
  | "set64_2" => some (set64 [lane64 a 0, lane64 a 1]) | "setr64_2" => some (setr64 [lane64 a 0, lane64 a 1])
  | "set32_8" => some (set32 ((List.range 8).map a)) | "set64_4" => some (set64 ((List.range 4).map (lane64 a)))
  | "set32_16" => some (set32 ((List.range 16).map a)) | "setr32_16" => some (setr32 ((List.range 16).map a))
  | "set64_8" => some (set64 ((List.range 8).map (lane64 a))) | "setr64_8" => some (setr64 ((List.range 8).map (lane64 a)))
  | "cvt32" => some (fun k => if k = 0 then cvt32 a else 0) | "cvt64" => some (of64 fun _ => cvt64 a)
  | "reduce_add_epi32" => some (fun k => if k = 0 then reduce_add_epi32 a else 0)
  | "reduce_add_epi64" => some (of64 fun _ => reduce_add_epi64 a)
  | "cast128_256" => some (cast128_256 a)
  | _ => none

def runIntrin (kv : List (String × String)) : String :=
  let f := (getS kv "f").getD ""
  let w := (getN kv "w").getD 4
  let imm := (getN kv "imm").getD 0
  let a := parseLanes ((getS kv "a").getD "0")
  let b := parseLanes ((getS kv "b").getD "0")
  let c := parseLanes ((getS kv "c").getD "0")
  match evalIntrin f a b c imm with
  | none => "bad-op"
  | some r => "r=" ++ ",".intercalate ((List.range w).map fun k => toHex (r k).toNat)

end Fastor.Driver
