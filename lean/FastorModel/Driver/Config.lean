import FastorModel.Driver.Common
import FastorModel.Model.ConfigLadder
/- `config` command: the configuration ladder evaluated on a set of compiler predefines -/
namespace Fastor.Driver
open Fastor

private def flag (kv : List (String × String)) (k : String) : Bool := getN kv k == some 1

def abiName : Abi → String
  | .scalar => "scalar" | .sse => "sse" | .avx => "avx" | .avx512 => "avx512"

def runConfig (kv : List (String × String)) : String :=
  let p : Predef := ⟨flag kv "sse2", flag kv "sse3", flag kv "ssse3", flag kv "sse41", flag kv "sse42", flag kv "avx",
                     flag kv "avx2", flag kv "fma", flag kv "f", flag kv "cd", flag kv "bw", flag kv "dq", flag kv "vl",
                     flag kv "novec"⟩
  let c := p.toCfg
  let row (sz : Nat) : String := ",".intercalate ((List.range 40).map fun n => toString (c.vsize sz (n + 1)))
  s!"ABI={abiName p.native} ALIGN={p.alignment} MASKS={if p.masks then 1 else 0} AVX2={if p.avx2 then 1 else 0} " ++
  s!"L4={p.native.lanes 4} L8={p.native.lanes 8} VSF={row 4} VSD={row 8} VSI={row 4} VSL={row 8}"

end Fastor.Driver
