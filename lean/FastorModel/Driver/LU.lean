import FastorModel.Driver.Common
import FastorModel.Model.LU
/-
  `fmodel` command `lu`: runs the C11 model over core `Rat` on the matrix of the case line.
    lu n=<n> strat=block|simple|blockpiv|simplepiv enc=n|v|m A=<row-major, comma separated, p or p/q>
  prints  route= L= U= P= R=   (entries in the same textual form as vf::Rat::str()).
-/
namespace Fastor.Driver
open Fastor.LU

def parseInt (s : String) : Int :=
  if s.startsWith "-" then - ((s.drop 1).toNat?.getD 0 : Nat) else (s.toNat?.getD 0 : Nat)

def parseRat (s : String) : Rat :=
  match s.splitOn "/" with
  | [p] => (parseInt p : Rat)
  | [p, q] => (parseInt p : Rat) / (parseInt q : Rat)
  | _ => 0

def showRat (q : Rat) : String :=
  if q.den == 1 then toString q.num else toString q.num ++ "/" ++ toString q.den

def parseMat (r c : Nat) (s : String) : Mat Rat :=
  let xs := (s.splitOn ",").toArray.map parseRat
  Mat.ofFn r c fun i j => xs.getD (i * c + j) 0

def showMat (r c : Nat) (M : Mat Rat) : String :=
  ",".intercalate ((List.range r).flatMap fun i => (List.range c).map fun j => showRat (M.get i j))

def ratAbs (a : Rat) : Rat := if a < 0 then -a else a
def ratGt (a b : Rat) : Bool := decide (ratAbs b < ratAbs a)
def ratIsOne (a : Rat) : Bool := a == 1

def parseStrategy (s : String) : Strategy :=
  match s with
  | "block" => .block
  | "simple" => .simple
  | "blockpiv" => .blockPiv
  | _ => .simplePiv

def runLU (kv : List (String × String)) : String :=
  let n := (getN kv "n").getD 1
  let s := parseStrategy ((getS kv "strat").getD "block")
  let enc := (getS kv "enc").getD "n"
  let A := parseMat n n ((getS kv "A").getD "")
  let ops : InvOps Rat := execOps
  let res := if enc == "m" then luPublicM ops ratGt ratIsOne s n A else luPublicV ops ratGt s n A
  let blocked := s == .block || s == .blockPiv
  let route := if blocked then blockRoute n else (if n ≤ 8 then s!"u{n}" else s!"s{n}")
  let pstr := if enc == "v" then ",".intercalate ((List.range n).map fun i => toString (res.perm.getD i 0))
              else if enc == "m" then showMat n n res.P else "-"
  let R := if enc == "v" then reconstructV n res.L res.U res.perm
           else if enc == "m" then reconstructM ratIsOne n res.L res.U res.P
           else Mat.mul n n n res.L res.U
  let dstr := if (getS kv "det").getD "0" == "1" then showRat (detLU ops ratGt n A) else "-"
  s!"route={route} L={showMat n n res.L} U={showMat n n res.U} P={pstr} R={showMat n n R} D={dstr}"

end Fastor.Driver
