import FastorModel.Driver.Common
import FastorModel.Model.ViewWrite
import FastorModel.Model.ViewAlias
import FastorModel.Model.ScalarWrite
import FastorModel.Model.Config
/- `vw` command of the driver: sequences of writes through views of one parent tensor (C05, C18) -/
namespace Fastor.Driver
open Fastor Fastor.ViewWrite Fastor.ViewAlias

/-- modular inverse by Fermat (the symbolic carrier has no division; only used if a script asks for it) -/
def fpPow (a : UInt64) (e : Nat) : UInt64 := Id.run do
  let mut r : UInt64 := 1
  let mut b := a % fpP
  let mut k := e
  while k > 0 do
    if k % 2 == 1 then r := (r * b) % fpP
    b := (b * b) % fpP
    k := k / 2
  return r
instance : Div Fp := ⟨fun a b => ⟨(a.v0 * fpPow b.v0 4294967289) % fpP, (a.v1 * fpPow b.v1 4294967289) % fpP⟩⟩

private def parseInt (s : String) : Option Int :=
  if s.startsWith "-" then (s.drop 1).toNat?.map fun k => -(k : Int) else s.toNat?.map fun k => (k : Int)

def parseRanges (s : String) : Option (List Seq) :=
  if s.isEmpty then some [] else
  (s.splitOn ",").mapM fun ax =>
    match (ax.splitOn "_").mapM parseInt with
    | some [f, l, st] => some ⟨f, l, st⟩
    | _ => none

private def parseDims (s : String) : Option (List Nat) := (s.splitOn "x").mapM String.toNat?

structure WSpec where
  op : WOp
  na : Bool
  keep : Bool
  rk : String
  c : Int
  dst : List Seq
  src : List Seq
  src2 : List Seq

def parseWrite (w : String) : Option WSpec := do
  let f := w.splitOn "."
  let o ← f[0]?
  let suffix := o.toList.reverse.takeWhile (fun ch => ch == 'n' || ch == 'k')
  let na := suffix.contains 'n'
  let keep := suffix.contains 'k'
  let o := String.ofList (o.toList.take (o.length - suffix.length))
  let op ← (match o with
    | "set" => some WOp.set | "add" => some .add | "sub" => some .sub | "mul" => some .mul | "div" => some .div | _ => none)
  let rk ← f[1]?
  let c ← (f[2]?).bind parseInt
  let dst ← (f[3]?).bind parseRanges
  let src ← parseRanges (f[4]?.getD "")
  let src2 ← parseRanges (f[5]?.getD "")
  return ⟨op, na, keep, rk, c, dst, src, src2⟩

def clsOf (fixed : Bool) (rank : Nat) : Cls :=
  match fixed, rank with
  | false, 1 => .dyn1 | false, 2 => .dyn2 | false, _ => .dynN
  | true, 1 => .fix1 | true, 2 => .fix2 | true, _ => .fixN

/-- `exec` of the model with the memory materialised after every iteration (the model's memories are
    functions; composing them unevaluated makes every read re-run all earlier iterations).  Each step
    is the model's own `execIter`. -/
def execArr (op : WOp) (rhs : (Nat → Fp) → Nat → Fp) (its : List Iter) (a : Array Fp) : Array Fp :=
  its.foldl (fun a it =>
    let m : Nat → Fp := fun p => a[p]?.getD 0
    let m' := execIter op rhs m it
    (Array.range a.size).map m') a

/-- `assign` of the model on materialised memory -/
def assignArr (op : WOp) (its : List Iter) (r : Rhs Fp) (a : Array Fp) (nel : Nat) : Array Fp :=
  if r.needsEval then
    let tmp := (Array.range nel).map (r.val fun p => a[p]?.getD 0)
    execArr op (fun _ j => tmp[j]?.getD 0) its a
  else execArr op r.val its a

def runVw (kv : List (String × String)) : String := Id.run do
  let some cfgName := getS kv "cfg" | return "bad-op"
  let some cfg := Cfg.ofName cfgName | return "bad-op"
  let some sz := getN kv "sz" | return "bad-op"
  let some clsName := getS kv "cls" | return "bad-op"
  let vea := (getN kv "vea").getD 0 == 1
  let some dims := (getS kv "dims").bind parseDims | return "bad-op"
  let some rdims := (getS kv "rd").bind parseDims | return "bad-op"
  let some script := getS kv "W" | return "bad-op"
  let some ws := (script.splitOn "/").mapM parseWrite | return "bad-op"
  let V := cfg.native.lanes sz
  -- slices of a TensorMap are always the generic n-D view classes, whatever the rank
  let cls := if clsName == "mapdyn" then Cls.dynN else if clsName == "mapfix" then Cls.fixN else clsOf (clsName == "fix") dims.length
  let isDiag := clsName == "diag"
  -- FASTOR_NO_ALIAS=1 compiles the guard out of every view class: the flag is stored but never tested
  let nal := (getN kv "nal").getD 0 == 1
  let NA := dims.prod
  let env : Nat → Nat → Fp := fun w p => Fp.ofTok w p
  let mut mem : Array Fp := (Array.range NA).map fun p => Fp.ofTok 0 p
  let mut val : UInt64 := 0
  let mut wseq : UInt64 := 0
  let mut rd0 : UInt64 := 0
  let mut nw := 0
  let mut nvs := 0
  let mut routes : List String := []
  let mut flag := false      -- `_does_alias` of the stored view object
  let mut first := true
  for w in ws do
    -- diag(A) of an N x N parent: the 1-D run 0, N+1, 2(N+1), … written by a plain scalar loop
    let axs := if isDiag then [(⟨0, dims.headD 0 + 1, dims.headD 0⟩ : Ax)] else axesOf cls dims w.dst
    let exts := axs.map (·.ext)
    let saxs := axesOf cls dims w.src
    let saxs2 := axesOf cls dims w.src2
    let spos : Nat → Nat := fun j => posOf dims saxs (unflat exts j)
    let spos2 : Nat → Nat := fun j => posOf dims saxs2 (unflat exts j)
    let dpos : Nat → Nat := if isDiag then (fun j => j * (dims.headD 0 + 1)) else fun j => posOf dims axs (unflat exts j)
    let c := Fp.ofInt w.c
    let e1 := rdims.getLastD 1
    let rhs : Rhs Fp := match w.rk with
      | "s" => ⟨false, fun _ _ => c⟩
      | "v" => ⟨false, fun _ j => env 1 (spos j)⟩
      | "e" => ⟨false, fun _ j => env 1 (spos j) + env 2 (spos2 j) * c⟩
      | "t" => ⟨false, fun _ j => env 3 j⟩
      | "x" => ⟨false, fun _ j => env 3 j * c - env 4 j⟩
      | "f" => ⟨false, fun _ j => env 5 j⟩
      | "m" => if rdims.length == 1 then ⟨true, fun _ j => env 6 (j * 2) * env 7 0 + env 6 (j * 2 + 1) * env 7 1⟩
               else ⟨true, fun _ j => env 6 (j / e1 * 2) * env 7 (j % e1) + env 6 (j / e1 * 2 + 1) * env 7 (e1 + j % e1)⟩
      | "a" => ⟨false, fun m j => m (spos j)⟩
      | _ => ⟨false, fun m j => m (spos j) * c + m (spos2 j)⟩
    -- the view object: a fresh one per write unless the script keeps the previous one
    let obj : ViewObj := ⟨!nal, (if w.keep && !first then flag else false)⟩
    let obj := if w.na then obj.noalias else obj
    let guarded := obj.takesGuardedPath (w.rk == "s")
    flag := (obj.after (w.rk == "s")).flag
    first := false
    let flatRhs := w.rk == "f" && dims.length > 1
    let cstep := if w.rk == "s" then 1 else V
    let its := if isDiag then linIters V false (axs.headD default) else itersOf cls V vea dims axs flatRhs cstep
    let m0 : Nat → Fp := let a := mem; fun p => a[p]?.getD 0
    let nel := exts.prod
    -- the alias flag: guarded path through a copy of the parent (every slice view class honours it)
    let its' := if guarded && !isDiag then itersOf cls V vea dims axs false V else its
    mem :=
      if guarded then
        let tmp := (Array.range nel).map (rhs.val m0)
        let cpy := execArr .set (fun _ j => tmp[j]?.getD 0) its mem
        execArr w.op (fun _ j => cpy[dpos j]?.getD 0) its' mem
      else assignArr w.op its rhs mem nel
    val := hstep val (mem.foldl (fun h x => Fp.hash h x) (0 : UInt64))
    let wl := writeSeq its'
    wseq := hstep wseq (hashNats 0 wl)
    nw := nw + wl.length
    -- a `SIMDVector<T,scalar>` store is a plain element assignment in the trace
    nvs := nvs + (if V > 1 then (its'.filter fun it => it.kind == .vstore).length else 0)
    -- positions of A read by the statement
    let rdA : List Nat :=
      if guarded then List.range NA
      else (if w.op == .set then [] else wl) ++
           (if w.rk == "a" then (List.range exts.prod).map spos else if w.rk == "b" then (List.range exts.prod).map spos ++ (List.range exts.prod).map spos2 else [])
    rd0 := hstep rd0 (hashNats 0 (sortDedup rdA))
    let has := fun (k : IKind) => its'.any fun it => it.kind == k
    routes := routes ++ [(if has .vstore then "v" else "") ++ (if has .scatter then "g" else "") ++ (if has .rmw then "r" else "") ++ (if has .scalar then "s" else "")]
  let route := s!"{clsName}{dims.length}{if nal then "-nal" else ""}:" ++ "+".intercalate routes
  return s!"V={V} VAL={hex val} WSEQ={hex wseq} NW={nw} NVS={nvs} RD0={hex rd0} route={route}"

/-- `sw`: a sequence of scalar element assignments `op.c.i_j_k/...` on one tensor -/
def runSw (kv : List (String × String)) : String := Id.run do
  let some dims := (getS kv "dims").bind parseDims | return "bad-op"
  let some script := getS kv "W" | return "bad-op"
  let NA := dims.prod
  let mut mem : Array Fp := (Array.range NA).map fun p => Fp.ofTok 0 p
  let mut val : UInt64 := 0
  let mut wseq : UInt64 := 0
  let mut nw := 0
  let mut asserts := 0
  for w in script.splitOn "/" do
    let f := w.splitOn "."
    let some o := f[0]? | return "bad-op"
    let op : WOp := match o with | "set" => .set | "add" => .add | "sub" => .sub | "mul" => .mul | _ => .div
    let some c := (f[1]?).bind parseInt | return "bad-op"
    let some args := ((f[2]?.getD "").splitOn "_").mapM parseInt | return "bad-op"
    let m0 : Nat → Fp := let a := mem; fun p => a[p]?.getD 0
    -- FASTOR_BOUNDS_CHECK is on in the harness builds (no NDEBUG)
    let m1 := scalarWrite true dims args op (Fp.ofInt c) m0
    mem := (Array.range NA).map m1
    val := hstep val (mem.foldl (fun h x => Fp.hash h x) (0 : UInt64))
    match scalarWritePos true dims args with
    | some p => wseq := hstep wseq (hashNats 0 [p]); nw := nw + 1
    | none => wseq := hstep wseq (hashNats 0 []); asserts := asserts + 1
  return s!"VAL={hex val} WSEQ={hex wseq} NW={nw} route=scalar{dims.length}" ++ (if asserts > 0 then s!" ASSERT={asserts}" else "")

end Fastor.Driver
