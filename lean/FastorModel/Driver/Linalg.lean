import FastorModel.Driver.Common
import FastorModel.Model.Inverse
/- `inv` command of the driver: the inverse models of Model/Inverse.lean run over exact rationals (core `Rat`).
   input : inv strat=<simple|simplepiv|simplelu|blocklu|simplelupiv|blocklupiv|ut|lut|batched> n=<n> [nb=<batch>] a=<ints,comma separated>
   output: DEF=<0|1> X=<digest of the entries as canonical strings> DIVS=<digest of the divisor sequence> LEAVES=<sizes> -/
namespace Fastor.Driver
open Fastor Fastor.Inv

private def ratStr (q : Rat) : String := if q.den == 1 then toString q.num else s!"{q.num}/{q.den}"

private def fnv1a (h : UInt64) (s : String) : UInt64 :=
  s.foldl (fun h c => (h ^^^ UInt64.ofNat c.toNat) * 1099511628211) h

private def fnvInit : UInt64 := 14695981039346656037

private def digestRats (xs : List Rat) : String :=
  hex (xs.foldl (fun h q => fnv1a (fnv1a h (ratStr q)) ";") fnvInit)

private def parseInts (s : String) : Array Int :=
  (s.splitOn ",").foldl (fun acc t => match t.toInt? with | some v => acc.push v | none => acc) #[]

/-- `q = ± 2^k` (numerator and denominator powers of two): dividing by it is exact in binary floating point -/
private def isPow2Nat (n : Nat) : Bool := n != 0 && (n &&& (n - 1)) == 0
private def dyadicUnit (q : Rat) : Bool := isPow2Nat q.num.natAbs && isPow2Nat q.den
private def bitLen (n : Nat) : Nat := if n == 0 then 0 else Nat.log2 n + 1
/-- ` DY=<all divisors are ± powers of two> XBITS=<bit length of the largest numerator/denominator of X>` -/
private def exactInfo (divs : List Rat) (xs : List Rat) : String :=
  let dy := divs.all dyadicUnit
  let xb := xs.foldl (fun m q => max m (max (bitLen q.num.natAbs) (bitLen q.den))) 0
  s!" DY={if dy then 1 else 0} XBITS={xb}"

private def ratGt (x y : Rat) : Bool := decide (y.abs < x.abs)

private def entries (n : Nat) (X : Mat Rat) : List Rat :=
  (List.range (n * n)).map fun k => X (k / n) (k % n)

def runInv (kv : List (String × String)) : String := Id.run do
  let some strat := getS kv "strat" | return "bad-op"
  let some n := getN kv "n" | return "bad-op"
  let some as := getS kv "a" | return "bad-op"
  let ints := parseInts as
  if strat == "batched" then
    let some nb := getN kv "nb" | return "bad-op"
    if ints.size != nb * n * n then return "bad-op"
    let a : Nat → Rat := fun k => ((ints.getD k 0 : Int) : Rat)
    let divs := (List.range nb).map fun b => leafDet n (fun q => a (b * (n * n) + q))
    let defd := divs.all (· != 0)
    if !defd then return "DEF=0"
    let X := memoV (nb * n * n) (batchedInverse n a)
    let xs := (List.range (nb * n * n)).map X.get
    return s!"DEF=1 X={digestRats xs} DIVS={digestRats divs}{exactInfo divs xs}"
  if ints.size != n * n then return "bad-op"
  let A : Mat Rat := memo n n { get := fun i j => ((ints.getD (i * n + j) 0 : Int) : Rat) }
  let p := pivotVec ratGt n A
  let PA := memo n n (applyPivot A p)
  let pstr := ",".intercalate ((List.range n).map fun i => toString (p i))
  match strat with
  | "simple" =>
    let divs := invDivs n A
    if !(divs.all (· != 0)) then return "DEF=0"
    let xs := entries n (inverseSimple n A)
    return s!"DEF=1 X={digestRats xs} DIVS={digestRats divs} LEAVES={",".intercalate ((leafSizes n).map toString)}{exactInfo divs xs}"
  | "simplepiv" =>
    let divs := invDivs n PA
    if !(divs.all (· != 0)) then return s!"DEF=0 P={pstr}"
    let xs := entries n (inverseSimplePiv ratGt n A)
    return s!"DEF=1 X={digestRats xs} DIVS={digestRats divs} P={pstr}{exactInfo divs xs}"
  | "ut" =>
    let divs := utDivs n A
    if !(divs.all (· != 0)) then return "DEF=0"
    let xs := entries n (tinverseUpper n A)
    return s!"DEF=1 X={digestRats xs} DIVS={digestRats divs}{exactInfo divs xs}"
  | "lut" =>
    let xs := entries n (tinverseUniLower n A)
    return s!"DEF=1 X={digestRats xs}{exactInfo [] xs}"
  | "simplelu" | "blocklu" =>
    let pv := luPivots n A
    if !(pv.all (· != 0)) then return "DEF=0"
    let xs := entries n (inverseLU ratGt false n A)
    return s!"DEF=1 X={digestRats xs}{exactInfo pv xs}"
  | "simplelupiv" | "blocklupiv" =>
    let pv := luPivots n PA
    if !(pv.all (· != 0)) then return s!"DEF=0 P={pstr}"
    let xs := entries n (inverseLU ratGt true n A)
    return s!"DEF=1 X={digestRats xs} P={pstr}{exactInfo pv xs}"
  | _ => return "bad-op"

end Fastor.Driver
