import FastorModel.Driver.Common
import FastorModel.Model.Permute
import FastorModel.Model.Transpose
/- `permute`, `pmeta` and `transpose` commands of the driver (C14) -/
namespace Fastor.Driver
open Fastor

private def parseNats (s : String) : List Nat := (s.splitOn ",").filterMap String.toNat?

private def showNats (l : List Nat) : String := ",".intercalate (l.map toString)

/-- run a list of stores on a buffer of `n` cells initialised with `init`; returns (buffer, out-of-range stores, WSEQ) -/
private def runStores14 (n : Nat) (init : Nat → Fp) (ws : List (Nat × Fp)) : Array Fp × Nat × UInt64 := Id.run do
  let mut mem : Array Fp := (Array.range n).map init
  let mut oob := 0
  let mut wseq : UInt64 := 0
  for w in ws do
    wseq := hstep wseq (UInt64.ofNat w.1)
    if w.1 < mem.size then mem := mem.set! w.1 w.2 else oob := oob + 1
  return (mem, oob, wseq)

private def digest14 (mem : Array Fp) : UInt64 := mem.foldl (fun h x => Fp.hash h x) (0 : UInt64)

def runPermute (kv : List (String × String)) : String := Id.run do
  let some std := getN kv "std" | return "bad-op"
  let some co := getS kv "co" | return "bad-op"
  let some kind := getS kv "kind" | return "bad-op"
  let some ex := getN kv "ex" | return "bad-op"
  let some ps := getS kv "p" | return "bad-op"
  let some ds := getS kv "dims" | return "bad-op"
  let p := parseNats ps
  let dims := parseNats ds
  let variant : Permute.Variant := if co == "-1" then .odometer else .recursive
  let s : Permute.Std := if std ≥ 17 then .cxx17 else .cxx14
  let a : Nat → Fp := fun k => if ex == 0 then Fp.ofTok 1 k else Fp.ofTok 1 k + Fp.ofTok 2 k
  let legacy := kind == "legacy"
  let odims := if legacy then Permute.legacyDims p dims else Permute.newDims p dims
  let req := if legacy then Permute.legacyRequires p dims else Permute.newRequires p dims
  let n := Permute.prod odims
  if !req then
    let mem : Array Fp := (Array.range n).map a
    return s!"route=copy ODIMS={showNats odims} VAL={hex (digest14 mem)}"
  let moves := if legacy then Permute.legacyMoves variant p dims else Permute.permuteMoves s variant p dims
  let (mem, oob, _) := runStores14 n (fun _ => 0) (Permute.movesWrites a moves)
  let rseq := hashNats 0 (moves.map (·.src))
  let vn := match variant with | .odometer => "odometer" | .recursive => "recursive"
  let dn := if legacy then "fwd" else match s with | .cxx14 => "fwd" | .cxx17 => "rev"
  return s!"route={vn}-{dn} ODIMS={showNats odims} VAL={hex (digest14 mem)} RSEQ={hex rseq} NR={moves.length} MOOB={oob}"

def runPmeta (kv : List (String × String)) : String := Id.run do
  let some std := getN kv "std" | return "bad-op"
  let some ps := getS kv "p" | return "bad-op"
  let some ds := getS kv "dims" | return "bad-op"
  let p := parseNats ps
  let dims := parseNats ds
  let b (x : Bool) : String := if x then "1" else "0"
  let base := s!"NDIMS={showNats (Permute.newDims p dims)} NIDX={showNats (Permute.newIdx p)} NREQ={b (Permute.newRequires p dims)} " ++
    s!"LIDX={showNats (Permute.legacyIdx p)} LDIMS={showNats (Permute.legacyDims p dims)} LREQ={b (Permute.legacyRequires p dims)} " ++
    s!"PA={showNats (Permute.nprods dims)} PO={showNats (Permute.nprods (Permute.newDims p dims))}"
  if std ≥ 17 then
    return base ++ s!" REV={showNats (Permute.mappedIndex p)}"
  return base

def runPmeta2 (kv : List (String × String)) : String := Id.run do
  let some rs := getS kv "R" | return "bad-op"
  let some os := getS kv "O" | return "bad-op"
  return s!"REV={showNats (Permute.mappedIndex2 (parseNats rs) (parseNats os))}"

def runTranspose (kv : List (String × String)) : String := Id.run do
  let some cfgName := getS kv "cfg" | return "bad-op"
  let some cfg := Cfg.ofName cfgName | return "bad-op"
  let some sz := getN kv "sz" | return "bad-op"
  let some M := getN kv "M" | return "bad-op"
  let some N := getN kv "N" | return "bad-op"
  let nR := (getN kv "nr").getD 1
  let nC := (getN kv "nc").getD 1
  let ex := (getN kv "ex").getD 0
  let a : Nat → Fp := fun k => if ex == 0 then Fp.ofTok 1 k else Fp.ofTok 1 k + Fp.ofTok 2 k
  let staged := (getS kv "api") == some "mapassign"
  let ws := if staged then Transpose.mapAssignWrites cfg sz nR nC a (fun _ _ _ => 0) (fun _ _ _ => 0) (fun _ => 0) M N
            else Transpose.transposeWrites cfg sz nR nC a (fun _ _ _ => 0) (fun _ _ _ => 0) M N
  let rd := Transpose.transposeReads cfg sz nR nC M N
  let (mem, oob, wseq) := runStores14 (M * N) (fun p => Fp.ofTok 0 p) ws
  let roob := (rd.filter (fun r => r ≥ M * N)).length
  let (rn, V) := match Transpose.route cfg with
    | .plain => ("plain", 1)
    | .blocked => ("blocked", cfg.native.lanes sz)
  let rn := if staged then rn ++ "+copy" else rn
  -- the public entry points go through the generic assignment machinery (owned by other properties): for them only the
  -- placement, the number of stores, the read set and the width are compared, not the order of stores and loads
  let viaApi := match getS kv "api" with | some "raw" => false | none => false | _ => true
  if viaApi then
    return s!"route={rn} V={V} VAL={hex (digest14 mem)} NW={ws.length} RDA={hex (hashNats 0 (sortDedup rd))} MOOB={oob + roob}"
  return s!"route={rn} V={V} VAL={hex (digest14 mem)} WSEQ={hex wseq} NW={ws.length} RDA={hex (hashNats 0 (sortDedup rd))} RSEQ={hex (hashNats 0 rd)} MOOB={oob + roob}"

end Fastor.Driver
