import FastorModel.Driver.Simd
import FastorModel.Generated.SimdTable_sse2
import FastorModel.Generated.SimdTable_avx2
import FastorModel.Generated.SimdTable_avx512
/-
  C08 driver command `gen`: evaluates a GENERATED definition (Generated/Simd_<isa>.lean, through the dispatch tables
  Generated/SimdTable_<isa>.lean) on concrete lanes; the generated C++ harness of vlib/xlate_validate.py calls the real
  function the definition was translated from on the same lanes.
    gen f=<isa>/<definition> k=<int|f32|f64> r0=<hex lanes> r1=.. s0=<hex> ..   ->   o0=<16 hex lanes> .. so0=<hex> ..
-/
namespace Fastor.Driver
open Fastor.Simd

def canonS (k : String) (x : BitVec 64) : BitVec 64 :=
  if k == "f32" then (canon32 (x.setWidth 32)).setWidth 64
  else if k == "f64" then (if (f64 x).isNaN then 0x7ff8000000000000#64 else x) else x

def runGen (kv : List (String × String)) : String :=
  let f := (getS kv "f").getD ""
  let k := (getS kv "k").getD "int"
  match f.splitOn "/" with
  | [isa, name] =>
    let tab := if isa == "sse2" then Fastor.Gen.sse2.table else if isa == "avx2" then Fastor.Gen.avx2.table else if isa == "avx512" then Fastor.Gen.avx512.table else []
    match tab.find? (·.1 == name) with
    | none => "bad-op"
    | some (_, g) =>
      let rs : Nat → Reg := fun i => parseLanes ((getS kv s!"r{i}").getD "0")
      let ss : Nat → BitVec 64 := fun i => BitVec.ofNat 64 (parseHex ((getS kv s!"s{i}").getD "0"))
      let (ro, so) := g hwOps rs ss
      let ro := ro.map fun r => if k == "f32" then map32 canon32 r else if k == "f64" then canon64 r else r
      let a := ro.zipIdx.map fun (r, i) => s!"o{i}=" ++ ",".intercalate ((List.range 16).map fun j => toHex (r j).toNat)
      let b := so.zipIdx.map fun (x, i) => s!"so{i}=" ++ toHex (canonS k x).toNat
      " ".intercalate (a ++ b)
  | _ => "bad-op"

end Fastor.Driver
