import FastorModel.Driver.LU
import FastorModel.Model.Solve
/-
  `fmodel` commands of C12 (core `Rat`):
    solve n= c= strat=inv|invpiv|block|blockpiv|simple|simplepiv A=<n*n> B=<n*c>      -> X=
    fsub  n= c= p=<perm or -> L=<n*n> B=<n*c>                                          -> X=   (forward_subs)
    bsub  n= c= U=<n*n> B=<n*c>                                                        -> X=   (backward_subs)
-/
namespace Fastor.Driver
open Fastor.LU

def parseSolveStrategy (s : String) : SolveStrategy :=
  match s with
  | "inv" => .simpleInv
  | "invpiv" => .simpleInvPiv
  | "block" => .blockLU
  | "blockpiv" => .blockLUPiv
  | "simple" => .simpleLU
  | _ => .simpleLUPiv

def runSolve (kv : List (String × String)) : String :=
  let n := (getN kv "n").getD 1
  let c := (getN kv "c").getD 1
  let A := parseMat n n ((getS kv "A").getD "")
  let B := parseMat n c ((getS kv "B").getD "")
  let s := parseSolveStrategy ((getS kv "strat").getD "inv")
  let X := solve (execOps : InvOps Rat) invViaLU ratGt s n c A B
  let strat := (getS kv "strat").getD "inv"
  let cls := if strat == "block" || strat == "blockpiv" then blockRoute n
             else if strat == "simple" || strat == "simplepiv" then (if n ≤ 8 then s!"u{n}" else s!"s{n}") else s!"i{n}"
  let rhs := if (getS kv "vec").getD "0" == "1" then "vec" else s!"c{c}"
  s!"route={strat}/{cls}/{rhs}/form{(getS kv "form").getD "0"} X={showMat n c X}"

def runFsub (kv : List (String × String)) : String :=
  let n := (getN kv "n").getD 1
  let c := (getN kv "c").getD 1
  let L := parseMat n n ((getS kv "L").getD "")
  let B := parseMat n c ((getS kv "B").getD "")
  let ps := (getS kv "p").getD "-"
  let p : Nat → Nat := if ps == "-" then id else
    let xs := (ps.splitOn ",").toArray.map (fun t => t.toNat?.getD 0)
    fun i => xs.getD i 0
  let rhs := if (getS kv "vec").getD "0" == "1" then "vec" else s!"c{c}"
  s!"route=fsub{if ps == "-" then "" else "-piv"}/{rhs} X={showMat n c (forwardSubs n c L B p)}"

def runBsub (kv : List (String × String)) : String :=
  let n := (getN kv "n").getD 1
  let c := (getN kv "c").getD 1
  let U := parseMat n n ((getS kv "U").getD "")
  let B := parseMat n c ((getS kv "B").getD "")
  let rhs := if (getS kv "vec").getD "0" == "1" then "vec" else s!"c{c}"
  s!"route=bsub/{rhs} X={showMat n c (backwardSubs n c U B)}"

end Fastor.Driver
