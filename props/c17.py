"""C17 — triangular matrix product.  Proof: Props/C17.lean (krange_sufficient for all unroll factors,
tmatmul_exact).  Ties: K2 real _tmatmul over the symbolic carrier with literal zeros outside the
triangle (values, store order, clipped read sets), K4 real types."""
import random
from vlib import core, symrun, flow, shapes
from vlib import shapes as shapes_mod

PID = "C17"
TAGS = {"g": "Fastor::UpLoType::General", "l": "Fastor::UpLoType::Lower", "u": "Fastor::UpLoType::Upper"}

def sym_groups(tier, seed):
    rng = random.Random(seed * 6007 + 3)
    isas = core.QUICK_ISAS if tier == "quick" else core.ALL_ISAS
    groups = []
    pairs = [(a, b) for a in "glu" for b in "glu"]
    for isa in isas:
        for sz in (4, 8):
            shapes = set()
            bound = 13 if tier == "quick" else 21
            nshape = 10 if tier == "quick" else 60
            for _ in range(nshape):
                shapes.add((rng.randint(1, bound), rng.randint(1, bound), rng.randint(1, bound + 8)))
            shapes |= {(5, 5, 5), (13, 13, 13), (12, 9, 24), (9, 7, 11), (4, 4, 4), (1, 1, 1), (3, 4, 2)}
            calls = []
            # the masked kernel with every row part and every column part present (M0 > 0, M0 < M1 < M, N0 > 0, masked remainder):
            # its interior blocks are called WITHOUT the triangle tags in the library, only the two hand-written column loops of the
            # second row loop clip k — a model of that kernel has to be tied on a shape where all of these parts exist
            V = shapes_mod.vsize(isa, sz, 64) if isa != "scalar" else 1
            if V >= 4:
                for (a, b) in [("u", "g"), ("u", "l"), ("g", "u"), ("l", "u")] if tier == "quick" else pairs:
                    calls.append("run_tmatmul<Sym%d,%d,%d,%d,%s,%s>();" % (sz, 2 * V + 5, V + 3, 2 * V + 3, TAGS[a], TAGS[b]))
            for (m, k, n) in sorted(shapes):
                ps = pairs if tier == "thorough" else rng.sample(pairs, 4)
                for (a, b) in ps:
                    calls.append("run_tmatmul<Sym%d,%d,%d,%d,%s,%s>();" % (sz, m, k, n, TAGS[a], TAGS[b]))
            groups.append({"key": "%s/sz%d" % (isa, sz), "header": "matmul_sym.h", "isa": isa, "calls": calls})
    for b in ((5,) if tier == "quick" else (1, 3, 5)):
        calls = ["run_tmatmul<Sym4,%d,%d,%d,%s,%s>();" % (m, k, n, TAGS[a], TAGS[c])
                 for (m, k, n) in [(9, 9, 45), (13, 7, 83), (24, 24, 41)] for (a, c) in [("l", "u"), ("u", "l"), ("l", "l"), ("u", "g")]]
        groups.append({"key": "avx2/sz4/IB%d" % b, "header": "matmul_sym.h", "isa": "avx2", "defs": ["-DFASTOR_MATMUL_INNER_BLOCK_SIZE=%d" % b], "calls": calls})
    return groups

def real_groups(tier, seed):
    """one representative of every (row part, column part) class pair of _tmatmul_base / _tmatmul_base_masked per
    (ISA, element type) — see vlib/shapes.py — with seeded tags and K (quick), every tag pair (thorough)"""
    rng = random.Random(seed * 911 + 9)
    isas = core.QUICK_ISAS if tier == "quick" else core.ALL_ISAS
    groups = []
    pairs = [(a, b) for a in "glu" for b in "glu"]
    T = lambda x: TAGS[x].replace("Fastor::", "")
    for isa in isas:
        for t in ["float", "double", "int32_t", "int64_t"]:
            sz = 4 if t in ("float", "int32_t") else 8
            mn = shapes.covering_mn(isa, sz, rng)
            if tier == "quick" and t.startswith("int"):
                mn = rng.sample(mn, max(len(mn) * 2 // 5, 1))
            calls = []
            for i, (m, n) in enumerate(mn):
                for (a, b) in (pairs if tier == "thorough" else [rng.choice(pairs)]):
                    k = rng.choice([1, 2, m, n, rng.randint(1, max(m, n) + 2), rng.randint(1, max(m, n) + 2)])
                    calls.append("run_treal<%s,%d,%d,%d,%s,%s>(%du);" % (t, m, k, n, T(a), T(b), seed * 17 + i))
            for i in range(6 if tier == "quick" else 30):     # small random shapes as before
                m, k, n = rng.randint(1, 14), rng.randint(1, 14), rng.randint(1, 20)
                a, b = rng.choice(pairs)
                calls.append("run_treal<%s,%d,%d,%d,%s,%s>(%du);" % (t, m, k, n, T(a), T(b), seed * 17 + 1000 + i))
            groups.append({"key": "%s/%s" % (isa, t), "header": "tmatmul_real.h", "isa": isa, "opt": "-O2", "calls": calls,
                           "pre": "static bool g_verbose=false;"})
    return groups

def run(tier, seed):
    return flow.standard_run(
        PID, tier, seed, "Fastor.C17.tmatmul_exact", "FastorModel.Model.Tmatmul", sym_groups, real_groups,
        assumptions=["operands are exactly zero outside the tagged triangle (hypotheses TriA/TriB of the theorem; the harness stores literal zeros)",
                     "integer-valued data for the real-type runs (exact)"],
        rule="symbolic cases: (cfg, sizeof T, tags, M, K, N) instantiations of the real _tmatmul over the symbolic carrier, zeros outside the triangles; "
             "compared with the Lean model on values, store order and the clipped read sets; non-trivial = at least one tag is not General",
        nontrivial=lambda inp, mo: "lt=g rt=g" not in inp)

def sym_call_of(inp):
    d = symrun.kv(inp)
    defs = []
    if "ob" in d: defs.append("-DFASTOR_MATMUL_OUTER_BLOCK_SIZE=" + d["ob"])
    if "ib" in d: defs.append("-DFASTOR_MATMUL_INNER_BLOCK_SIZE=" + d["ib"])
    return {"key": "replay", "header": "matmul_sym.h", "isa": d["cfg"], "defs": defs,
            "calls": ["run_tmatmul<Sym%s,%s,%s,%s,%s,%s>();" % (d["sz"], d["M"], d["K"], d["N"], TAGS[d["lt"]], TAGS[d["rt"]])]}

def replay(path):
    return flow.standard_replay(path, sym_call_of)
