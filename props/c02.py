"""C02 — element-wise expression evaluation.  Proof: Props/C02.lean (lanes_of_evalV, assign_correct).
Ties: generated expression trees assigned with = += -= *= over the symbolic carrier vs the Lean model
(values, store order, read sets, aligned-access count, width); real-type value runs bit for bit
against the same generic lambda evaluated on scalars."""
import random
from vlib import core, symrun, flow

PID = "C02"
BIN = [("add", "+"), ("sub", "-"), ("mul", "*")]

def gen_tree(rng, depth):
    """returns (postfix encoding, C++ text)"""
    if depth == 0 or rng.random() < 0.25:
        r = rng.random()
        if r < 0.75:
            k = rng.choice([1, 2, 3]); return "t%d" % k, "ABC"[k - 1]
        c = rng.choice([2, 3, 5, -1, -4])
        return ("c%d" % c if c >= 0 else "cm%d" % (-c)), "kk(A,%d)" % c
    if rng.random() < 0.15:
        e, t = gen_tree(rng, depth - 1)
        if e.startswith("c"):       # the library has no unary minus on a bare scalar operand
            return e, t
        return e + "_neg", "(-(%s))" % t
    name, sym = rng.choice(BIN)
    l = gen_tree(rng, depth - 1); r = gen_tree(rng, depth - 1)
    if l[0].startswith("c") and r[0].startswith("c") and "_" not in l[0] and "_" not in r[0]:
        r = ("t2", "B")             # scalar (op) scalar is not a tensor expression
    return l[0] + "_" + r[0] + "_" + name, "(%s %s %s)" % (l[1], sym, r[1])

def has_tensor(enc):
    return any(tok.startswith("t") for tok in enc.split("_"))

def trees(rng, count, maxdepth):
    out = {}
    tries = 0
    while len(out) < count and tries < count * 20:
        tries += 1
        e, t = gen_tree(rng, rng.randint(1, maxdepth))
        if has_tensor(e) and "_" in e:
            out[e] = t
    return sorted(out.items())

def sym_groups(tier, seed):
    rng = random.Random(seed * 2741 + 3)
    isas = core.QUICK_ISAS + ["scalar"] if tier == "quick" else core.ALL_ISAS
    groups = []
    for isa in isas:
        for sz in (4, 8):
            V = max({"scalar": 1, "sse2": 16, "sse42": 16, "avx": 32, "avx2": 32, "avx512": 64}[isa] // sz, 1)
            ts = trees(rng, 12 if tier == "quick" else 60, 3 if tier == "quick" else 4)
            sizes = sorted(set([1, V - 1, V, V + 1, 2 * V, 2 * V + 3] + ([rng.randint(1, 2 * V + 3)] if tier == "quick" else list(range(1, 2 * V + 4)))) - {0})
            calls = []
            for (enc, txt) in ts:
                for n in (rng.sample(sizes, 2) if tier == "quick" else rng.sample(sizes, min(6, len(sizes)))):
                    op = rng.randint(0, 3)
                    calls.append('EXPR_CASE(Sym%d, %d, %d, "%s", %s);' % (sz, n, op, enc, txt))
            groups.append({"key": "%s/sz%d" % (isa, sz), "header": "expr_sym.h", "isa": isa, "calls": calls})
    return groups

RTXT = ["A + B", "A - B * C", "(A * B) + (C - A)", "-A + B", "kk(A,3) * A - B", "A * kk(A,2) + C * C", "-(A * B) - C", "(A + B) * (A - C)"]
FTXT = ["A / B", "sqrt(abs(A)) + B", "abs(A - B)", "A / kk(A,3) + C", "(A + B) / (abs(C) + kk(A,1))"]

def real_groups(tier, seed):
    rng = random.Random(seed * 677 + 1)
    isas = core.QUICK_ISAS if tier == "quick" else core.ALL_ISAS
    groups = []
    for isa in isas:
        for t in ["float", "double", "int32_t", "int64_t"]:
            V = {"scalar": 1, "sse2": 16, "sse42": 16, "avx": 32, "avx2": 32, "avx512": 64}[isa] // (4 if t in ("float", "int32_t") else 8)
            calls = []
            exprs = list(enumerate(RTXT)) + ([(100 + i, x) for i, x in enumerate(FTXT)] if t in ("float", "double") else [])
            for (i, txt) in exprs:
                for n in rng.sample([1, V - 1 or 1, V, V + 1, 2 * V + 1, 3 * V + 2], 2 if tier == "quick" else 5):
                    for op in (rng.sample([0, 1, 2, 3], 2) if tier == "quick" else [0, 1, 2, 3]):
                        calls.append('REXPR_CASE(%s, %d, %d, "e%d", %du, %s);' % (t, n, op, i, seed * 13 + i, txt))
            groups.append({"key": "%s/%s" % (isa, t), "header": "expr_real.h", "isa": isa, "opt": "-O2", "calls": calls,
                           "defs": ["-ffp-contract=off"], "pre": "static bool g_verbose=false;\n#include <cmath>\nusing std::sqrt; using std::abs;"})
    return groups

# second family (harness/expr_real2.h): division forms, math functions, comparisons / logical operators, D /= scalar
PRE2 = ("static bool g_verbose=false;\n#include <cmath>\n"
        + "".join("using std::%s; " % f for f in
                  ("sqrt abs sin cos tan exp exp2 expm1 log log10 log2 log1p cbrt asin acos atan sinh cosh tanh asinh acosh atanh erf tgamma lgamma "
                   "ceil round floor trunc pow atan2 hypot isnan isinf isfinite").split()))
UNARY = "cbrt exp exp2 expm1 log log10 log2 log1p sin cos tan asin acos atan sinh cosh tanh asinh acosh atanh erf tgamma lgamma ceil round floor trunc".split()
DIVX = [("dv0", 4, 7, "A*A + kk(A,1)", "all"), ("dv1", 0, 7, "kk(A,7) / (A*A + kk(A,1))", "all"), ("dv2", 0, 7, "A / kk(A,3)", "all"),
        ("dv3", 0, 7, "kk(A,3) - A", "all"), ("dv4", 1, 7, "(A - B) / (C*C + kk(A,2))", "all"), ("dv5", 4, 7, "abs(B) + kk(A,2)", "fp"),
        ("dv6", 2, 7, "kk(A,2) * A / (abs(B) + kk(A,1))", "fp"), ("dv7", 3, 7, "kk(A,5) + B * kk(A,-2)", "all")]
BIN2 = [("mn", 5, "mn(A,B)"), ("mx", 5, "mx(A,B)"), ("mnx", 5, "mn(A + B, C) - mx(A, B * C)"), ("pow", 7, "pow(A,B)"), ("atan2", 7, "atan2(A,B)"),
        ("hypot", 7, "hypot(A,B)"), ("pow2", 5, "pow(abs(A) + kk(A,1), kk(A,2) - B)")]
BOOLX = [("lt", "A < B", "all"), ("le", "A <= B", "all"), ("gt", "A > B", "all"), ("ge", "A >= B", "all"), ("eq", "A == B", "all"), ("ne", "A != B", "all"),
         ("and", "(A <= B) && (B != C)", "all"), ("or", "(A < B) || (A > C)", "all"), ("not", "!(A == B)", "all"), ("lts", "A < kk(A,1)", "all"),
         ("sle", "kk(A,0) <= B", "all"), ("cmpx", "(A + B) >= (C - A)", "all"), ("isnan", "isnan(A)", "fp"), ("isinf", "isinf(A - B)", "fp"),
         ("isfin", "isfinite(A * B)", "fp"), ("andor", "((A < B) && (B < C)) || (A == C)", "all")]

def real2_groups(tier, seed):
    rng = random.Random(seed * 911 + 5)
    isas = core.QUICK_ISAS if tier == "quick" else core.ALL_ISAS
    groups = []
    for isa in isas:
        for t in ["float", "double", "int32_t", "int64_t"]:
            fp = t in ("float", "double")
            V = {"scalar": 1, "sse2": 16, "sse42": 16, "avx": 32, "avx2": 32, "avx512": 64}[isa] // (4 if t in ("float", "int32_t") else 8)
            sizes = sorted(set([1, V - 1 or 1, V, V + 1, 2 * V + 1, 3 * V + 2]))
            pick = (lambda k: rng.sample(sizes, min(k, len(sizes))))
            calls = []
            for (nm, op, modes, txt, dom) in DIVX:
                if dom == "fp" and not fp: continue
                for n in pick(2 if tier == "quick" else 5):
                    calls.append('REXPR2_CASE(%s, %d, %d, %d, "%s", %du, %s);' % (t, n, op, modes, nm, seed * 13 + len(calls), txt))
            for (nm, txt, dom) in BOOLX:
                if dom == "fp" and not fp: continue
                for n in pick(1 if tier == "quick" else 4):
                    calls.append('RBOOL_CASE(%s, %d, 7, "%s", %du, %s);' % (t, n, nm, seed * 13 + len(calls), txt))
            for n in pick(2 if tier == "quick" else 5):
                calls.append("run_rdivs<%s,%d>(%du, %d);" % (t, n, seed * 7 + n, rng.choice([2, 3, 7, 10])))
            if fp:
                fns = UNARY      # every function in both tiers (one size each in quick)
                for fn in fns:
                    for n in pick(1 if tier == "quick" else 3):
                        calls.append('REXPR2_CASE(%s, %d, %d, 7, "%s", %du, %s(A));' % (t, n, rng.randint(0, 3), fn, seed * 13 + len(calls), fn))
                calls.append('REXPR2_CASE(%s, %d, 1, 7, "sinx", %du, sin(A + B) * C - exp(kk(A,-1) * abs(B)));' % (t, rng.choice(sizes), seed))
                for (nm, modes, txt) in BIN2:
                    for n in pick(1 if tier == "quick" else 3):
                        calls.append('REXPR2_CASE(%s, %d, %d, %d, "%s", %du, %s);' % (t, n, rng.randint(0, 3), modes, nm, seed * 13 + len(calls), txt))
            groups.append({"key": "%s/%s/x" % (isa, t), "header": "expr_real2.h", "isa": isa, "opt": "-O2", "calls": calls,
                           "defs": ["-ffp-contract=off"], "pre": PRE2})
    return groups

def all_real_groups(tier, seed):
    return real_groups(tier, seed) + real2_groups(tier, seed)

def run(tier, seed):
    return flow.standard_run(
        PID, tier, seed, "Fastor.C02.assign_correct", "FastorModel.Model.Expr", sym_groups, all_real_groups,
        assumptions=["vector primitives are lane-wise (property C08) — C02 is proved relative to it",
                     "division (tensor/tensor, scalar/tensor, tensor/scalar, /=), the 27 element-wise math functions, min/max/pow/atan2/hypot, comparisons, logical operators and "
                     "isnan/isinf/isfinite are covered by the real-type value runs only (bit for bit against the same std:: function applied per element); "
                     "D /= scalar (documented reciprocal-multiply) is tested within 2 ulp of the true quotient",
                     "real-type runs are compiled with -ffp-contract=off so that the scalar reference has defined rounding; integer references wrap around"],
        rule="seeded random expression trees (depth <= 3, quick; <= 4 thorough) over {tensor, scalar, + - *, unary minus} assigned with = += -= *= to tensors of "
             "sizes around multiples of the vector width; non-trivial = size not a multiple of the width or compound operator",
        nontrivial=lambda inp, mo: True, per_tu=30)

def sym_call_of(inp):
    d = symrun.kv(inp)
    # rebuild the C++ text from the postfix encoding
    st = []
    for tok in d["E"].split("_"):
        if tok.startswith("t"): st.append("ABC"[int(tok[1:]) - 1])
        elif tok.startswith("cm"): st.append("kk(A,-%s)" % tok[2:])
        elif tok.startswith("c"): st.append("kk(A,%s)" % tok[1:])
        elif tok == "neg": st.append("(-(%s))" % st.pop())
        else:
            r = st.pop(); l = st.pop(); st.append("(%s %s %s)" % (l, {"add": "+", "sub": "-", "mul": "*"}[tok], r))
    op = {"set": 0, "add": 1, "sub": 2, "mul": 3}[d["op"]]
    return {"key": "replay", "header": "expr_sym.h", "isa": d["cfg"],
            "calls": ['EXPR_CASE(Sym%s, %s, %d, "%s", %s);' % (d["sz"], d["n"], op, d["E"], st[0])]}

def replay(path):
    return flow.standard_replay(path, sym_call_of)
