"""C10 — matrix inverse: six strategies, triangular inversion, batched inverse.

Proof : Props/C10.lean (closed forms n<=4, Schur-complement block recursion for every size by strong induction,
        triangular dispatchers, pivot vector is a permutation + column-wise reconstruction, LU based inverse given
        the LU postcondition) about Model/Inverse.lean.
Tie   : the REAL templates run over an exact rational carrier (harness/inverse_rat.h) on integer matrices, compared
        entry by entry (digest of the canonical rational strings) with the Lean model run over core `Rat` through
        `fmodel`, plus the sequence of divisors (one determinant per leaf of the recursion: pins the split points),
        the pivot vector, the definedness flag, and an in-harness oracle X*A == I, A*X == I (exact).
Test  : float / double per ISA: residuals against c*n*eps*cond (harness/inverse_real.h) — measured, not proved.
"""
import json, os, random, time
from vlib import core, symrun

PID = "C10"
STRATS = ["simple", "simplepiv", "simplelu", "simplelupiv", "blocklu", "blocklupiv", "ut", "lut"]
PIV = {"simplepiv", "simplelupiv", "blocklupiv"}
LU = {"simplelu", "simplelupiv", "blocklu", "blocklupiv"}
# ways of requesting the inverse that are compared with the model of a base strategy (harness/inverse_calls.h)
VARIANT_BASE = {"lazy": "simple", "lazyadd": "simple", "lazysub": "simple", "lazymul": "simple", "lazymull": "simple",
                "expr": "simple", "utexpr": "ut", "lutexpr": "lut", "lazymuleq": "simple"}
def base_of(s): return VARIANT_BASE.get(s, s)
THEOREM = "Fastor.C10.inverse_correct"
MODEL = "FastorModel.Model.Inverse"

# ------------------------------------------------------------------------------------------------
# size classes (mirrors Model/Inverse.lean splitPoint; only used to GENERATE split-sensitive matrices — if it
# were wrong the unchanged tree would show DEF=0 cases, never a false alarm)
def split_point(M):
    if M <= 8: return 4
    if M <= 16: return 8
    if M <= 32: return (M // 8 * 8) // 2
    if M <= 64: return (M // 16 * 16) // 2
    if M <= 128: return (M // 32 * 32) // 2
    return (M // 64 * 64) // 2

def leaf_sizes(M):
    if M <= 4: return [M]
    N = split_point(M)
    return leaf_sizes(N) + leaf_sizes(M - N)

def size_class(M):
    for i, b in enumerate((4, 8, 16, 32, 64, 128, 256)):
        if M <= b: return "<=%d" % b
    return ">256"

# ------------------------------------------------------------------------------------------------
# integer matrix families (lists of rows)
def matmul_i(A, B):
    n, k, m = len(A), len(B), len(B[0])
    return [[sum(A[i][l] * B[l][j] for l in range(k)) for j in range(m)] for i in range(n)]

def fam_dd(n, rng, lo=-3, hi=3):
    """dense strictly (row) diagonally dominant, for small n"""
    A = [[rng.randint(lo, hi) if i != j else 0 for j in range(n)] for i in range(n)]
    for i in range(n):
        A[i][i] = (sum(abs(x) for x in A[i]) + rng.randint(1, 2)) * rng.choice((-1, 1))
    return A

def fam_bdd(n, rng, forced=()):
    """block diagonal of small dense diagonally dominant blocks (block boundaries unrelated to the split points of
    the recursion) plus a few couplings; strictly row diagonally dominant with |diag| >= 3 > |off-diagonal| <= 2.
    forced: positions (p,q) that must hold an entry of magnitude 2"""
    A = [[0] * n for _ in range(n)]
    i = 0; blocks = []
    while i < n:
        s = min(n - i, rng.randint(1, 4)); blocks.append((i, s)); i += s
    for (o, s) in blocks:
        for r in range(s):
            for c in range(s):
                if r != c and rng.random() < 0.7: A[o + r][o + c] = rng.randint(-2, 2)
    for _ in range(max(1, len(blocks) // 3)):
        r, c = rng.randrange(n), rng.randrange(n)
        if r != c: A[r][c] = rng.choice((-1, 1))
    for (p, q) in forced:
        A[p][q] = rng.choice((-2, 2))
    for i in range(n):
        A[i][i] = 0
        A[i][i] = max(3, sum(abs(x) for x in A[i]) + 1) * rng.choice((-1, 1))
    return A

def fam_ldu(n, leaves, rng, dens=2.0):
    """A = L*D*U, L unit lower / U unit upper (sparse, entries +-1), D = blockdiag(+-J_s) over the given leaf sizes
    (J_s the exchange matrix).  The leading k x k minor of A is non-zero exactly when k is a partial sum of `leaves`:
    the recursion is defined with the true split points and meets a singular block with any other split.  det = +-1,
    so every intermediate quantity is an integer."""
    L = [[0] * n for _ in range(n)]; U = [[0] * n for _ in range(n)]; D = [[0] * n for _ in range(n)]
    pr = min(1.0, dens / max(1, n))
    for i in range(n):
        L[i][i] = 1; U[i][i] = 1
        for j in range(i):
            if rng.random() < pr: L[i][j] = rng.choice((-1, 1))
            if rng.random() < pr: U[j][i] = rng.choice((-1, 1))
    o = 0
    for s in leaves:
        sg = rng.choice((-1, 1))
        for r in range(s): D[o + r][o + s - 1 - r] = sg
        o += s
    return matmul_i(matmul_i(L, D), U)

def fam_ut(n, rng):
    A = [[0] * n for _ in range(n)]
    pr = min(1.0, 2.5 / max(1, n)); twos = 0
    for i in range(n):
        A[i][i] = rng.choice((-1, 1))
        if twos < 6 and rng.random() < 0.3: A[i][i] *= 2; twos += 1
        for j in range(i + 1, n):
            if rng.random() < pr or j == i + 1 and rng.random() < 0.5: A[i][j] = rng.randint(-2, 2)
    return A

def fam_lut(n, rng):
    A = [[0] * n for _ in range(n)]
    pr = min(1.0, 2.5 / max(1, n))
    for i in range(n):
        A[i][i] = 1
        for j in range(i):
            if rng.random() < pr or j == i - 1 and rng.random() < 0.5: A[i][j] = rng.randint(-2, 2)
    return A

def involution(n, rng, npairs):
    idx = list(range(n)); rng.shuffle(idx)
    pairs = []
    for k in range(min(npairs, n // 2)):
        p, q = sorted((idx[2 * k], idx[2 * k + 1])); pairs.append((p, q))
    return pairs

def permute_rows(B, pairs):
    A = [row[:] for row in B]
    for (p, q) in pairs: A[p], A[q] = B[q], B[p]
    return A

def sorted_cycles(n, rng):
    """disjoint cycles c0<c1<...<ck -> p(c_t)=c_{t+1}, p(c_k)=c0 (length >= 3 when n allows) as a list p, plus the
    entries (c_{k-1},c_k) that must carry the largest off-diagonal magnitude for pivot_inplace to return p"""
    p = list(range(n)); forced = []
    idx = list(range(n)); rng.shuffle(idx)
    pos = 0
    while n - pos >= 2:
        k = min(n - pos, rng.randint(3, 5))
        c = sorted(idx[pos:pos + k]); pos += k
        for t in range(len(c) - 1): p[c[t]] = c[t + 1]
        p[c[-1]] = c[0]
        forced.append((c[-2], c[-1]))
        if rng.random() < 0.5: break
    return p, forced

def apply_rows(B, p):
    """A with A(p(i),:) = B(i,:)  (so that apply_pivot(A,p) = B)"""
    A = [None] * len(B)
    for i, r in enumerate(p): A[r] = B[i][:]
    return A

def max_cycle(pstr):
    try: p = [int(x) for x in pstr.split(",")]
    except ValueError: return 0
    seen = set(); best = 0
    for i in range(len(p)):
        l = 0; j = i
        while j not in seen and j < len(p): seen.add(j); j = p[j]; l += 1
        best = max(best, l)
    return best

def cases_for(strat, n, rng, count):
    """list of (tag, matrix) for one (strategy, size)"""
    out = []
    if strat == "ut":
        return [("ut%d" % k, fam_ut(n, rng)) for k in range(count)]
    if strat == "lut":
        return [("lut%d" % k, fam_lut(n, rng)) for k in range(count)]
    leaves = [1] * n if strat in LU else leaf_sizes(n)
    for k in range(count):
        if strat in PIV:
            pairs = involution(n, rng, rng.randint(1, max(1, n // 3)))
            if n == 1: pairs = []
            kind = k % 4 if n >= 3 else k % 3
            if kind == 3:
                # the pivot permutes >= 3 rows in a cycle: rows of a dominant B moved along sorted cycles; the entry
                # B(c_{k-1},c_k) has the largest off-diagonal magnitude of its column, so the swap loop returns p
                p, forced = sorted_cycles(n, rng)
                if n > 6: B = fam_bdd(n, rng, forced=forced)
                else:
                    B = fam_dd(n, rng, -2, 2)
                    for (a, b) in forced: B[a][b] = rng.choice((-2, 2))
                    for i in range(n):
                        B[i][i] = 0; B[i][i] = max(3, sum(abs(x) for x in B[i]) + 1) * rng.choice((-1, 1))
                out.append(("rpcyc%d" % k, apply_rows(B, p)))
            elif kind == 0 or n <= 2:
                # needs pivoting by construction: rows of a diagonally dominant B exchanged pairwise; the entries
                # B(p,q) have the largest off-diagonal magnitude, so pivot_inplace recovers exactly the exchange
                B = fam_bdd(n, rng, forced=pairs) if n > 6 else None
                if B is None:
                    B = fam_dd(n, rng, -2, 2)
                    for (p, q) in pairs:
                        B[p][q] = rng.choice((-2, 2))
                    for i in range(n):
                        B[i][i] = 0; B[i][i] = max(3, sum(abs(x) for x in B[i]) + 1) * rng.choice((-1, 1))
                out.append(("rpdd%d" % k, permute_rows(B, pairs)))
            elif kind == 1:
                # zero on the diagonal (undefined without pivoting), split-sensitive after pivoting when the pivot
                # search happens to recover the exchange; otherwise the model decides definedness
                out.append(("rpldu%d" % k, permute_rows(fam_ldu(n, leaves, rng), pairs)))
            else:
                out.append(("bdd%d" % k, fam_bdd(n, rng)))
        else:
            kind = k % 3
            if kind == 0:
                out.append(("ldu%d" % k, fam_ldu(n, leaves, rng)))
            elif kind == 1 and n <= 8:
                out.append(("dd%d" % k, fam_dd(n, rng)))
            else:
                out.append(("bdd%d" % k, fam_bdd(n, rng)))
    if n <= 9 and n >= 2:
        # DENSE unimodular matrices (unit triangular factors with most entries +-1): every term of every unrolled formula
        # (_lufact<T,1..8>, the closed forms) is non-trivial, and all intermediate values are integers, so the rational
        # carrier never leaves its range (dense dominant matrices do at n >= 7 for the LU based strategies)
        for k in range(4):
            A = fam_ldu(n, leaves, rng, dens=0.8 * n)
            if strat in PIV:
                if n >= 3 and k % 2 == 0: p, _ = sorted_cycles(n, rng)
                else:
                    p = list(range(n))
                    for (a, b) in involution(n, rng, 1): p[a], p[b] = b, a
                A = apply_rows(A, p)
            out.append(("ldud%d" % k, A))
    return out

def case_line(strat, n, tag, A):
    return "inv strat=%s n=%d id=%s a=%s" % (strat, n, tag, ",".join(str(x) for row in A for x in row))

def batched_line(nb, J, tag, rng):
    flat = []
    for b in range(nb):
        A = fam_dd(J, rng)
        flat += [x for row in A for x in row]
    return "inv strat=batched n=%d nb=%d id=%s a=%s" % (J, nb, tag, ",".join(map(str, flat)))

# ------------------------------------------------------------------------------------------------
# plan: translation units of the exact (rational) run.  Compile time grows quickly with n (every block size is
# its own instantiation of matmul / views), so the quick tier takes all sizes 1..9, every class boundary that is
# affordable, and one representative of every size class of every dispatcher.
LAZYV = ["lazy", "lazyadd", "lazysub", "lazymul", "lazymull", "expr", "lazymuleq"]

def rat_plan(tier):
    allS = STRATS
    if tier == "quick":
        # both sides of every class boundary of every dispatcher: 4|5 and 8|9 for all eight variants; 16|17, 32|33,
        # 64|65 for the direct / pivoted / triangular dispatchers; 8|9 and 32|33 for the block LU (its classes are
        # <=8, 9..32, 33..64, >64; 64|65 is in the thorough tier only: minutes of compile time); the lazy and
        # generic-expression entry points on both sides of 4|5 and at 9
        tus = [
            [(s, n) for n in (1, 2, 3, 4, 5) for s in allS] + [("batched", (3, J)) for J in (1, 2, 3, 4)]
              + [("batched4", (2, 2, J)) for J in (2, 3, 4)] + [("batched", (4, J)) for J in ()],
            [(s, n) for n in (4, 5) for s in LAZYV + ["utexpr", "lutexpr"]] + [(s, 9) for s in ("lazy", "lazymul", "expr", "utexpr", "lutexpr")],
            [(s, n) for n in (6, 7, 8) for s in allS],
            [(s, n) for n in (9,) for s in allS] + [(s, 12) for s in ("simple", "ut", "lut")],
            [(s, n) for n in (16, 17) for s in ("simple", "simplepiv", "ut", "lut")],
            [(s, 17) for s in ("simplelu", "blocklupiv")] + [(s, 16) for s in ("blocklu", "simplelupiv")],
            [(s, n) for n in (32, 33) for s in ("simple", "simplepiv")],
            [(s, n) for n in (32, 33) for s in ("ut", "lut")],
            [(s, n) for n in (64, 65) for s in ("simple", "simplepiv")],
            [(s, n) for n in (64, 65) for s in ("ut", "lut")],
            [("blocklu", 32), ("blocklu", 33)],
        ]
    else:
        tus = []
        for n in range(1, 21):
            tus.append([(s, n) for s in allS])
        tus[0] += [("batched", (nb, J)) for J in (1, 2, 3, 4) for nb in (1, 3, 4, 5)] + [("batched4", (2, 2, J)) for J in (1, 2, 3, 4)]
        tus.append([(s, n) for n in (1, 2, 3, 4, 5, 8, 9) for s in LAZYV + ["utexpr", "lutexpr"]])
        tus.append([(s, n) for n in (16, 17, 33) for s in ("lazy", "lazymul", "expr", "utexpr", "lutexpr")])
        for n in (24, 31, 32, 33, 40, 48):
            tus.append([(s, n) for s in ("simple", "simplepiv")])
            tus.append([(s, n) for s in ("ut", "lut")])
            tus.append([(s, n) for s in ("simplelu", "simplelupiv")])
        for n in (32, 33):
            tus.append([(s, n) for s in ("blocklu", "blocklupiv")])   # block LU above 32: tinverse<UniLower>/<Upper> on real LU factors
        for n in (64, 65):
            tus.append([("simple", n), ("simplepiv", n)])
            tus.append([("ut", n), ("lut", n)])
            tus.append([("blocklu", n)])
        tus.append([("simplelu", 64)])
        tus.append([("simple", 128)]); tus.append([("simple", 129)])
    return tus

def tu_source(pairs):
    regs = []
    for (s, n) in pairs:
        if s == "batched": regs.append("    REG_BATCH(%d, %d);" % n)
        elif s == "batched4": regs.append("    REG_BATCH4(%d, %d, %d);" % n)
        else: regs.append("    REG_INV(%s, %d);" % (s.upper(), n))
    return '#include "inverse_rat.h"\nint main(int argc, char** argv) {\n%s\n    return c10::run_file(argv[1]);\n}\n' % "\n".join(regs)

def rat_cases(tier, seed, plan):
    rng = random.Random(seed * 7919 + 11)
    lines = []
    pairs = set()
    for tu in plan:
        for (s, n) in tu:
            if s == "batched4": pairs.add(("batched", (n[0] * n[1], n[2])))
            else: pairs.add((base_of(s), n))
    pairs = sorted(pairs, key=str)
    for (s, n) in pairs:
        if s == "batched":
            nb, J = n
            for k in range(2 if tier == "quick" else 5):
                lines.append(batched_line(nb, J, "b%d" % k, rng))
            continue
        count = (8 if n <= 9 else 4) if tier == "quick" else (12 if n <= 20 else 4)
        for tag, A in cases_for(s, n, rng, count):
            lines.append(case_line(s, n, tag, A))
    return lines

def short(inp):
    d = symrun.kv(inp)
    return "strat=%s n=%s%s id=%s%s%s%s" % (d.get("strat"), d.get("n"), (" nb=" + d["nb"]) if "nb" in d else "", d.get("id"),
                                          (" via=" + d["via"]) if "via" in d else "", (" T=" + d["T"]) if "T" in d else "", (" cfg=" + d["cfg"]) if "cfg" in d else "")

def run_rat(v, tier, seed, wd, plan=None, lines=None, verbose=False):
    plan = plan or rat_plan(tier)
    lines_given = lines
    lines = lines if lines is not None else rat_cases(tier, seed, plan)
    per_pair = {}
    cfile = os.path.join(wd, "cases.txt")
    with open(cfile, "w") as fh:
        fh.write("\n".join(lines) + "\n")
    jobs = [{"name": "rat_%d" % i, "source_text": tu_source(tu), "isa": "sse2", "opt": "-O0", "args": [cfile]} for i, tu in enumerate(plan)]
    t0 = time.time()
    res = core.build_and_run(jobs, wd, timeout=3000)
    stats = {"cases": 0, "defined": 0, "undefined_both": 0, "inconclusive_overflow": 0, "mismatch": 0, "oracle_fail": 0,
             "compile_s": {k: round(r.get("compile_s", 0), 1) for k, r in res.items()}, "wall_s": round(time.time() - t0, 1),
             "by_strategy": {}, "size_classes": {}, "sizes": {}, "needs_pivot": 0, "split_sensitive": 0, "pivot_cycle_ge3": 0}
    inputs = []; impl = []
    for name, r in sorted(res.items()):
        if r["rc_compile"] != 0 or r["rc_run"] != 0:
            v.violation("harness-failure rat %s" % name, {"kind": "harness-failure", "what": "compile" if r["rc_compile"] else "run rc=%s" % r["rc_run"],
                        "out": (r["compile_out"][-3000:] if r["rc_compile"] else r.get("err", "")[-1500:])}, nofail=True)
            continue
        for line in r["out"].split("\n"):
            if " | " in line:
                inp, obs = line.split(" | ", 1)
                inputs.append(inp.strip()); impl.append(obs.strip())
    model = core.fmodel(inputs) if inputs else []
    samples = []
    for inp, obs, mo in zip(inputs, impl, model):
        io = symrun.kv(obs); mk = symrun.kv(mo); d = symrun.kv(inp)
        stats["cases"] += 1
        if verbose: print(short(inp), "| impl:", obs, "| model:", mo)
        if len(samples) < 3: samples.append({"input": short(inp), "impl": obs, "model": mo})
        if mo.strip() == "bad-op" or io.get("ERR") == "badcase":
            v.violation("correspondence " + short(inp) + " fields=bad-op", {"kind": "correspondence", "line": inp, "impl": obs, "model": mo}, nofail=True)
            continue
        if io.get("ERR") == "overflow":
            stats["inconclusive_overflow"] += 1; continue
        if mk.get("DEF") == "0" and io.get("DEF") == "0":
            stats["undefined_both"] += 1; continue
        if mk.get("DEF") == "1" and io.get("DEF") == "0":
            stats["oracle_fail"] += 1
            v.violation("rat-divzero " + short(inp), {"kind": "rat-oracle", "line": inp, "impl": obs, "model": mo,
                        "note": "the strategy is defined on this matrix (every block met by the modelled recursion is invertible) but the implementation divided by zero"})
            continue
        bad = [k for k in mk if k in io and io[k] != mk[k]]
        if io.get("ORACLE") != "ok":
            stats["oracle_fail"] += 1
            v.violation("rat-oracle " + short(inp), {"kind": "rat-oracle", "line": inp, "impl": obs, "model": mo,
                        "note": "exact arithmetic: the returned X does not satisfy %s = I" % io.get("ORACLE")})
            continue
        if bad:
            stats["mismatch"] += 1
            v.violation("correspondence " + short(inp) + " fields=" + ",".join(bad),
                        {"kind": "correspondence", "line": inp, "impl": obs, "model": mo, "fields": bad,
                         "broken": "model %s (theorem %s is about it) no longer describes the code" % (MODEL, THEOREM)}, nofail=True)
            continue
        stats["defined"] += 1
        s = d.get("via", d.get("strat")); n = int(d.get("n"))
        if s in ("rank3", "rank4"): s = "batched-" + s
        if "P" in mk and max_cycle(mk["P"]) >= 3: stats["pivot_cycle_ge3"] += 1
        stats["by_strategy"][s] = stats["by_strategy"].get(s, 0) + 1
        per_pair[(s, n)] = per_pair.get((s, n), 0) + 1
        stats["sizes"].setdefault(s, set()).add(n)
        if not s.startswith("batched"):
            stats["size_classes"].setdefault(s, set()).add(size_class(n))
        tag = d.get("id", "")
        if tag.startswith("rp"): stats["needs_pivot"] += 1
        if "ldu" in tag: stats["split_sensitive"] += 1
    # every (entry point, size) of the plan must have been judged on at least two defined, conclusive cases
    holes = []
    for tu in plan:
        for (s_, n_) in tu:
            if s_.startswith("batched"): continue
            if per_pair.get((s_, n_), 0) < (2 if lines_given is None else 1): holes.append("%s/%d:%d" % (s_, n_, per_pair.get((s_, n_), 0)))
    stats["coverage_holes"] = holes
    if holes and not any(nf is False for _, nf, _ in v.violations) and not v.violations:
        v.violation("coverage-hole rat " + ",".join(holes[:8]), {"kind": "harness-failure", "what": "coverage hole",
                    "note": "fewer than two defined conclusive exact cases for these (entry point, size) pairs: " + ", ".join(holes)}, nofail=True)
    stats["sizes"] = {k: sorted(x) for k, x in stats["sizes"].items()}
    stats["size_classes"] = {k: sorted(x) for k, x in stats["size_classes"].items()}
    return stats, samples

# ------------------------------------------------------------------------------------------------
# float / double per ISA:  (1) EXACT runs on integer matrices all of whose divisors are +-2^k (bit-for-bit against the
# rational model: this is what reaches the SSE/AVX intrinsic leaf kernels), (2) residual TEST against c*n*eps*cond.
def real_plan(tier):
    """list of buckets; each bucket = (residual pairs, exact pairs incl. variants and batched)"""
    if tier == "quick":
        resid = [(s, n) for n in (2, 3, 4, 5, 8, 9) for s in ("simple", "simplepiv")] + [("simple", 17)]
        resid += [("simplelu", 3), ("simplelu", 7), ("blocklupiv", 9), ("blocklu", 9), ("simplelupiv", 6)]
        resid += [(s, n) for n in (4, 9) for s in ("ut", "lut")] + [(s, 8) for s in ("simplelu", "blocklu", "simplelupiv", "blocklupiv")]
        # the intrinsic leaf kernels (n = 2, 4; float and double) and what is built from them (5..9), every entry point
        exact = list(resid) + [(s, n) for n in (1, 2, 3, 4) for s in ("simple", "simplepiv", "ut", "lut")]
        exact += [(s, n) for n in (6, 7) for s in ("simple", "simplepiv")]
        # the eight hand-unrolled _lufact<T,1..8> kernels and the first loop / recursive size, all four LU strategies
        exact += [(s, n) for n in range(1, 10) for s in ("simplelu", "blocklu", "simplelupiv", "blocklupiv")]
        exact += [(s, n) for n in (4, 5) for s in ("lazy", "lazyadd", "lazymul", "expr")] + [("lazy", 2), ("lazysub", 4), ("lazymull", 4), ("lazymuleq", 4)]
        exact += [("utexpr", 4), ("lutexpr", 4)]
        exact += [("batched", (3, 2)), ("batched", (2, 3)), ("batched", (4, 4)), ("batched4", (2, 2, 2)), ("batched4", (2, 2, 4)), ("batched4", (2, 2, 3))]
        # block LU in the 33..64 class with halves that are not multiples of the vector width (n = 42: N = 20, M-N = 22): the
        # masked remainder paths of tmatmul / matmul under avx2 and avx512 (exact float AND double); own translation units
        return [(resid, sorted(set(exact), key=str)), ([], [("blocklu", 42)], "avx-isas")]
    buckets = []
    for lo, hi in ((1, 5), (6, 9), (10, 12)):
        resid = [(s, n) for n in range(lo, hi + 1) for s in STRATS]
        exact = list(resid)
        if lo == 1:
            exact += [(s, n) for n in (1, 2, 3, 4, 5) for s in LAZYV + ["utexpr", "lutexpr"]]
            exact += [("batched", (nb, J)) for J in (1, 2, 3, 4) for nb in (3, 4)] + [("batched4", (2, 2, J)) for J in (1, 2, 3, 4)]
        if lo == 6: exact += [(s, n) for n in (8, 9) for s in LAZYV + ["utexpr", "lutexpr"]]
        buckets.append((resid, exact))
    # larger sizes: only on the ISAs of the quick tier (marked by the third component)
    buckets.append(([(s, n) for n in (16, 17) for s in STRATS], [(s, n) for n in (16, 17) for s in STRATS + ["lazy"]], "main-isas"))
    buckets.append(([(s, n) for n in (32, 33) for s in ("simple", "simplepiv", "ut", "lut")],
                    [(s, n) for n in (32, 33) for s in ("simple", "simplepiv", "ut", "lut", "lazy")], "main-isas"))
    buckets.append(([("simple", 64), ("simple", 65), ("simplepiv", 65)], [("simple", 64), ("simple", 65), ("simplepiv", 65), ("ut", 65), ("lut", 65)], "main-isas"))
    for n in (40, 42, 57):
        buckets.append(([("blocklu", n)], [("blocklu", n)], "avx-isas"))
    return buckets

BIGDENS = 4.0

def exact_real_cases(tier, seed, buckets):
    """candidate integer matrices whose divisors are +-2^k; the model (fmodel) filters: DEF=1, DY=1, few bits.
    returns (lines, model_by_line)"""
    rng = random.Random(seed * 15485863 + 7)
    pairs = set()
    for bk in buckets:
        for (s, n) in bk[1]:
            if s == "batched": pairs.add(("batched", n))
            elif s == "batched4": pairs.add(("batched", (n[0] * n[1], n[2])))
            else: pairs.add((base_of(s), n))
    cand = []
    want = 4 if tier == "quick" else 6
    for (s, n) in sorted(pairs, key=str):
        if s == "batched":
            nb, J = n
            for k in range(want):
                flat = []
                for b in range(nb):
                    A = fam_ldu(J, [J], rng, dens=3.0)
                    if rng.random() < 0.5: A = [[2 * x for x in A[0]]] + A[1:]
                    flat += [x for row in A for x in row]
                cand.append(("batched", n, "inv strat=batched n=%d nb=%d id=xb%d a=%s" % (J, nb, k, ",".join(map(str, flat)))))
            continue
        leaves = [1] * n if s in LU else leaf_sizes(n)
        tries = want if s not in PIV else 12 * want
        for k in range(tries):
            if s == "ut": A = fam_ut(n, rng)
            elif s == "lut": A = fam_lut(n, rng)
            else:
                A = fam_ldu(n, leaves, rng, dens=(0.7 * n if k % 2 else 3.0) if n <= 9 else (BIGDENS if s in ("blocklu", "blocklupiv") and n > 33 else 2.0))
                if rng.random() < 0.4:      # a row scaled by 2: determinants +-2 instead of +-1
                    r = rng.randrange(n); A[r] = [2 * x for x in A[r]]
                if s in PIV and n >= 2:
                    if n >= 3 and k % 2 == 0: p, _ = sorted_cycles(n, rng)
                    else:
                        p = list(range(n))
                        for (a, b) in involution(n, rng, rng.randint(1, max(1, n // 3))): p[a], p[b] = b, a
                    A = apply_rows(A, p)
            cand.append((s, n, case_line(s, n, "x%s%d" % (s[:2], k), A)))
    model = core.fmodel([c[2] for c in cand]) if cand else []
    keep = {}; per = {}
    for (s, n, line), mo in zip(cand, model):
        mk = symrun.kv(mo)
        # float has 24 mantissa bits: products of two partial inverses summed over n terms must stay exact
        # (2*XBITS + log2 n <= 24); the same cases are used for double
        if mk.get("DEF") != "1" or mk.get("DY") != "1" or int(mk.get("XBITS", "99")) > (10 if (n if isinstance(n, int) else n[1]) <= 9 else 8): continue
        if s in PIV and "P" in mk and max_cycle(mk["P"]) < 2 and n >= 2: continue     # the pivot must really permute
        if per.get((s, n), 0) >= want: continue
        per[(s, n)] = per.get((s, n), 0) + 1
        keep[line] = mo
    return list(keep.keys()), keep

def real_groups(tier, seed, cfile):
    isas = core.QUICK_ISAS if tier == "quick" else core.ALL_ISAS
    rng = random.Random(seed * 104729 + 5)
    groups = []
    buckets = real_plan(tier)
    for isa in isas:
        for t in ("float", "double"):
            for bi, bk in enumerate(buckets):
                resid, exact = bk[0], bk[1]
                if len(bk) > 2 and bk[2] == "main-isas" and isa not in core.QUICK_ISAS: continue
                if len(bk) > 2 and bk[2] == "avx-isas" and isa not in ("avx2", "avx512"): continue
                calls = []
                for (s, n) in resid:
                    # family 1 (symmetric positive definite, prescribed condition number) keeps every leading block and Schur
                    # complement well conditioned only WITHOUT row exchanges: Fastor's pivot vector (column maxima of the
                    # original matrix) can turn it into a matrix with badly conditioned leading blocks, which is outside the
                    # property's hypothesis — pivoted strategies get the families whose pre-pivoted form is dominant
                    fams = (0, 2) if s in PIV else ((0, 1) if s not in ("ut", "lut") else (0,))
                    for f in fams:
                        calls.append("run_real<%s,c10r::%s,%d>(%d,%du);" % (t, s.upper(), n, f, rng.randrange(1, 1 << 30)))
                if bi == 0 and resid:
                    calls += ["run_real_batched<%s,%d,%d>(%du);" % (t, nb, J, rng.randrange(1, 1 << 30)) for (nb, J) in ((3, 2), (2, 3), (4, 4))]
                for (s, n) in exact:
                    if s == "batched": calls.append("REG_XB(%s, %d, %d);" % ((t,) + n))
                    elif s == "batched4": calls.append("REG_XB4(%s, %d, %d, %d);" % ((t,) + n))
                    else: calls.append("REG_X(%s, %s, %d);" % (t, s.upper(), n))
                calls.append('c10r::run_exact_file("%s");' % cfile)
                groups.append({"key": "%s/%s%s" % (isa, t, ("/b%d" % bi) if len(buckets) > 1 else ""), "header": "inverse_real.h", "isa": isa,
                               "opt": "-O2", "calls": calls, "pre": "static bool g_verbose=false;"})
    return groups

def run_real(v, tier, seed, wd, only=None):
    buckets = real_plan(tier)
    xlines, xmodel = exact_real_cases(tier, seed, buckets)
    cfile = os.path.join(wd, "exact_cases.txt")
    with open(cfile, "w") as fh:
        fh.write("\n".join(xlines) + "\n")
    groups = real_groups(tier, seed, cfile)
    if only: groups = [g for g in groups if only in g["key"]]
    res = symrun.run_groups(groups, wd, per_tu=100000, bisect=False)
    st = {"residual_cases": 0, "residual_failures": 0, "worst_ratio": 0.0, "exact_candidates_kept": len(xlines), "exact_cases": 0,
          "exact_failures": 0, "exact_by_variant": {}, "exact_pivot_cycle_ge3": 0, "configs": sorted(set(g["key"] for g in groups)),
          "compile_s": {}}
    samples = []
    for r in res:
        rr = r["res"]; g = r["group"]
        st["compile_s"][g["key"]] = round(rr.get("compile_s", 0), 1)
        if rr["rc_compile"] != 0 or rr["rc_run"] != 0:
            v.violation("harness-failure real %s" % g["key"], {"kind": "harness-failure", "what": "compile" if rr["rc_compile"] else "run rc=%s" % rr["rc_run"],
                        "out": (rr["compile_out"][-3000:] if rr["rc_compile"] else (rr.get("out", "")[-500:] + rr.get("err", "")[-1000:]))}, nofail=True)
            continue
        for line in rr["out"].split("\n"):
            if " | " not in line: continue
            inp, obs = line.split(" | ", 1)
            if inp.startswith("real "):
                st["residual_cases"] += 1
                m = [t for t in obs.split() if t.startswith("ratio=")]
                if m:
                    try: st["worst_ratio"] = max(st["worst_ratio"], float(m[0][6:]))
                    except ValueError: pass
                if len(samples) < 2: samples.append(line)
                if not obs.startswith("ok"):
                    st["residual_failures"] += 1
                    call = None
                    d = symrun.kv(inp)
                    if d.get("strat") != "batched":
                        call = "run_real<%s,c10r::%s,%s>(%s,%su);" % (d["T"], d["strat"].upper(), d["n"], d["fam"], d["seed"])
                    v.violation("real " + inp.strip(), {"kind": "real-oracle", "group": g["key"], "isa": g["isa"], "opt": "-O2", "header": g["header"],
                                "pre": g.get("pre", ""), "line": line, "call": call, "note": "floating-point residual above c*n*eps*cond (test, not proof)"})
                continue
            # exact line
            base = inp[:inp.index(" via=")]
            mo = xmodel.get(base)
            if mo is None: continue
            io = symrun.kv(obs); mk = symrun.kv(mo); d = symrun.kv(inp)
            st["exact_cases"] += 1
            via = d.get("via", "?")
            st["exact_by_variant"][via] = st["exact_by_variant"].get(via, 0) + 1
            if "P" in mk and max_cycle(mk["P"]) >= 3: st["exact_pivot_cycle_ge3"] += 1
            if len(samples) < 4 and via in ("simple", "lazy"): samples.append(short(inp) + " | " + obs + " | model " + mo)
            bad = [k for k in ("X", "P") if k in mk and k in io and io[k] != mk[k]]
            if io.get("ORACLE") != "ok" or bad:
                st["exact_failures"] += 1
                v.violation("real-exact " + short(inp), {"kind": "real-exact", "line": base, "via": via, "T": d.get("T"), "isa": g["isa"],
                            "impl": obs, "model": mo, "fields": bad,
                            "note": "float/double run that is exact by construction (every divisor is +-2^k, all values are small dyadic rationals): "
                                    "the result differs from the exact inverse" + ("" if io.get("ORACLE") == "ok" else " and %s != I" % io.get("ORACLE"))})
    return st, samples

# ------------------------------------------------------------------------------------------------
def run(tier, seed):
    v = core.Verdict(PID, tier, seed)
    v.assumptions = [
        "exact arithmetic (a field) for the proved part; floating-point residual bounds are measured, not proved",
        "matmul / tmatmul / fixed views compute the mathematical product / sub-block (properties C01, C17, C04)",
        "InvDefined: every leaf block and Schur complement met by the recursion is invertible (decidable predicate of the model; DEF flag in the tie)",
        "triangular inversion: the operand is exactly triangular (unit lower for UniLower)",
        "LU based strategies: theorem assumes the LU postcondition (C11) — L unit lower, U upper with non-zero diagonal, L*U = P*A",
    ]
    ok, info = core.proof_stage(v, PID, thorough=(tier == "thorough"))
    v.cov["proof"] = {k: info.get(k) for k in ("build_ok", "problems", "failed_modules", "errors", "leanchecker", "log")}
    if not info.get("build_ok"):
        v.violation("lean-build-failed " + ",".join(info.get("failed_modules", [])),
                    {"kind": "proof-obligation", "detail": info, "note": "lake build failed; no correspondence was run"}, nofail=True)
        return v.finish()
    with core.Scratch() as wd:
        stats, samples = run_rat(v, tier, seed, wd)
        rst, rsamples = run_real(v, tier, seed, wd)
    if not ok:
        v.violation("audit " + "; ".join(info.get("problems", []))[:200], {"kind": "audit", "detail": info.get("problems")}, nofail=True)
    if stats["cases"] and stats["inconclusive_overflow"] * 5 > stats["cases"]:
        v.notes.append("more than 20%% of the exact cases left the safe range of the rational carrier (%d of %d)" % (stats["inconclusive_overflow"], stats["cases"]))
    v.cov.update({
        "evaluations": stats["cases"] + rst["residual_cases"] + rst["exact_cases"],
        "distinct_nontrivial": stats["defined"] + rst["exact_cases"] - rst["exact_failures"],
        "rule": "exact cases: (strategy, n, integer matrix) run through the real templates over the rational carrier and through the Lean model; "
                "non-trivial = the strategy is defined on the matrix (model and code agree on DEF=1), X digests equal, divisor sequence equal, "
                "pivot vector equal, X*A == I and A*X == I exactly.  real cases: float/double residual test per ISA",
        "samples": samples + rsamples, "exact": stats, "real": rst,
        "route_hits": {"size-class " + s + " " + c: 1 for s, cs in stats["size_classes"].items() for c in cs},
        "configs": ["rat/sse2/-O0"] + rst["configs"],
        "not_proved": "the floating-point bound ||AX-I|| <= c*n*eps*cond(A) is measured (test); LU factorisation itself is C11",
    })
    return v.finish()

def replay(path):
    obj = json.load(open(path))
    print(json.dumps({k: (val if k != "line" else val[:400]) for k, val in obj.items()}, indent=1)[:3000])
    kind = obj.get("kind")
    if kind in ("rat-oracle", "correspondence") and "line" in obj:
        d = symrun.kv(obj["line"])
        s = d["strat"]; n = int(d["n"]); via = d.get("via", s)
        if s == "batched":
            nb = int(d["nb"])
            pair = ("batched4", (2, nb // 2, n)) if via == "rank4" and nb % 2 == 0 else ("batched", (nb, n))
        else:
            pair = (via, n)
        line = obj["line"].split(" via=")[0]
        v = core.Verdict(PID + "-replay", "quick", 0)
        with core.Scratch() as wd:
            stats, _ = run_rat(v, "quick", 0, wd, plan=[[pair]], lines=[line], verbose=True)
        bad = len(v.violations)
        print("replay:", "FAIL" if bad else "ok", stats["cases"], "case(s)")
        return 1 if bad else 0
    if kind == "real-exact" and "line" in obj:
        d = symrun.kv(obj["line"]); s = d["strat"]; n = int(d["n"]); via = obj.get("via", s); t = obj.get("T", "float")
        if s == "batched":
            nb = int(d["nb"])
            reg = ("REG_XB4(%s, 2, %d, %d);" % (t, nb // 2, n)) if via == "rank4" else ("REG_XB(%s, %d, %d);" % (t, nb, n))
        else:
            reg = "REG_X(%s, %s, %d);" % (t, via.upper(), n)
        with core.Scratch() as wd:
            cfile = os.path.join(wd, "exact_cases.txt")
            open(cfile, "w").write(obj["line"] + "\n")
            g = {"key": "replay", "header": "inverse_real.h", "isa": obj.get("isa", "sse2"), "opt": "-O2", "pre": "static bool g_verbose=false;",
                 "calls": [reg, 'c10r::run_exact_file("%s");' % cfile]}
            res = symrun.run_groups([g], wd, per_tu=1000, bisect=False)
            mo = core.fmodel([obj["line"]])[0]
            bad = True
            for r in res:
                out = r["res"]["compile_out"][-2000:] if r["res"]["rc_compile"] else r["res"]["out"]
                for l in out.split("\n"):
                    if " | " in l:
                        io = symrun.kv(l.split(" | ", 1)[1]); mk = symrun.kv(mo)
                        print("impl :", l.split(" | ", 1)[1]); print("model:", mo)
                        bad = io.get("ORACLE") != "ok" or any(k in io and io[k] != mk[k] for k in ("X", "P") if k in mk)
            print("replay:", "FAIL" if bad else "ok")
            return 1 if bad else 0
    if kind == "real-oracle":
        from vlib import flow
        return flow.standard_replay(path)
    print("replay: nothing executable in this replay file (kind=%s)" % kind)
    return 1
