"""C10 — matrix inverse: six strategies, triangular inversion, batched inverse.

Proof : Props/C10.lean (closed forms n<=4, Schur-complement block recursion for every size by strong induction,
        triangular dispatchers, pivot vector is a permutation + column-wise reconstruction, LU based inverse given
        the LU postcondition) about Model/Inverse.lean.
Tie   : the REAL templates run over an exact rational carrier (harness/inverse_rat.h) on integer matrices, compared
        entry by entry (digest of the canonical rational strings) with the Lean model run over core `Rat` through
        `fmodel`, plus the sequence of divisors (one determinant per leaf of the recursion: pins the split points),
        the pivot vector, the definedness flag, and an in-harness oracle X*A == I, A*X == I (exact).
Test  : float / double per ISA: residuals against c*n*eps*cond (harness/inverse_real.h) — measured, not proved.
"""
import json, os, random, time
from vlib import core, symrun

PID = "C10"
STRATS = ["simple", "simplepiv", "simplelu", "simplelupiv", "blocklu", "blocklupiv", "ut", "lut"]
PIV = {"simplepiv", "simplelupiv", "blocklupiv"}
LU = {"simplelu", "simplelupiv", "blocklu", "blocklupiv"}
THEOREM = "Fastor.C10.inverse_correct"
MODEL = "FastorModel.Model.Inverse"

# ------------------------------------------------------------------------------------------------
# size classes (mirrors Model/Inverse.lean splitPoint; only used to GENERATE split-sensitive matrices — if it
# were wrong the unchanged tree would show DEF=0 cases, never a false alarm)
def split_point(M):
    if M <= 8: return 4
    if M <= 16: return 8
    if M <= 32: return (M // 8 * 8) // 2
    if M <= 64: return (M // 16 * 16) // 2
    if M <= 128: return (M // 32 * 32) // 2
    return (M // 64 * 64) // 2

def leaf_sizes(M):
    if M <= 4: return [M]
    N = split_point(M)
    return leaf_sizes(N) + leaf_sizes(M - N)

def size_class(M):
    for i, b in enumerate((4, 8, 16, 32, 64, 128, 256)):
        if M <= b: return "<=%d" % b
    return ">256"

# ------------------------------------------------------------------------------------------------
# integer matrix families (lists of rows)
def matmul_i(A, B):
    n, k, m = len(A), len(B), len(B[0])
    return [[sum(A[i][l] * B[l][j] for l in range(k)) for j in range(m)] for i in range(n)]

def fam_dd(n, rng, lo=-3, hi=3):
    """dense strictly (row) diagonally dominant, for small n"""
    A = [[rng.randint(lo, hi) if i != j else 0 for j in range(n)] for i in range(n)]
    for i in range(n):
        A[i][i] = (sum(abs(x) for x in A[i]) + rng.randint(1, 2)) * rng.choice((-1, 1))
    return A

def fam_bdd(n, rng, forced=()):
    """block diagonal of small dense diagonally dominant blocks (block boundaries unrelated to the split points of
    the recursion) plus a few couplings; strictly row diagonally dominant with |diag| >= 3 > |off-diagonal| <= 2.
    forced: positions (p,q) that must hold an entry of magnitude 2"""
    A = [[0] * n for _ in range(n)]
    i = 0; blocks = []
    while i < n:
        s = min(n - i, rng.randint(1, 4)); blocks.append((i, s)); i += s
    for (o, s) in blocks:
        for r in range(s):
            for c in range(s):
                if r != c and rng.random() < 0.7: A[o + r][o + c] = rng.randint(-2, 2)
    for _ in range(max(1, len(blocks) // 3)):
        r, c = rng.randrange(n), rng.randrange(n)
        if r != c: A[r][c] = rng.choice((-1, 1))
    for (p, q) in forced:
        A[p][q] = rng.choice((-2, 2))
    for i in range(n):
        A[i][i] = 0
        A[i][i] = max(3, sum(abs(x) for x in A[i]) + 1) * rng.choice((-1, 1))
    return A

def fam_ldu(n, leaves, rng, dens=2.0):
    """A = L*D*U, L unit lower / U unit upper (sparse, entries +-1), D = blockdiag(+-J_s) over the given leaf sizes
    (J_s the exchange matrix).  The leading k x k minor of A is non-zero exactly when k is a partial sum of `leaves`:
    the recursion is defined with the true split points and meets a singular block with any other split.  det = +-1,
    so every intermediate quantity is an integer."""
    L = [[0] * n for _ in range(n)]; U = [[0] * n for _ in range(n)]; D = [[0] * n for _ in range(n)]
    pr = min(1.0, dens / max(1, n))
    for i in range(n):
        L[i][i] = 1; U[i][i] = 1
        for j in range(i):
            if rng.random() < pr: L[i][j] = rng.choice((-1, 1))
            if rng.random() < pr: U[j][i] = rng.choice((-1, 1))
    o = 0
    for s in leaves:
        sg = rng.choice((-1, 1))
        for r in range(s): D[o + r][o + s - 1 - r] = sg
        o += s
    return matmul_i(matmul_i(L, D), U)

def fam_ut(n, rng):
    A = [[0] * n for _ in range(n)]
    pr = min(1.0, 2.5 / max(1, n)); twos = 0
    for i in range(n):
        A[i][i] = rng.choice((-1, 1))
        if twos < 6 and rng.random() < 0.3: A[i][i] *= 2; twos += 1
        for j in range(i + 1, n):
            if rng.random() < pr or j == i + 1 and rng.random() < 0.5: A[i][j] = rng.randint(-2, 2)
    return A

def fam_lut(n, rng):
    A = [[0] * n for _ in range(n)]
    pr = min(1.0, 2.5 / max(1, n))
    for i in range(n):
        A[i][i] = 1
        for j in range(i):
            if rng.random() < pr or j == i - 1 and rng.random() < 0.5: A[i][j] = rng.randint(-2, 2)
    return A

def involution(n, rng, npairs):
    idx = list(range(n)); rng.shuffle(idx)
    pairs = []
    for k in range(min(npairs, n // 2)):
        p, q = sorted((idx[2 * k], idx[2 * k + 1])); pairs.append((p, q))
    return pairs

def permute_rows(B, pairs):
    A = [row[:] for row in B]
    for (p, q) in pairs: A[p], A[q] = B[q], B[p]
    return A

def cases_for(strat, n, rng, count):
    """list of (tag, matrix) for one (strategy, size)"""
    out = []
    if strat == "ut":
        return [("ut%d" % k, fam_ut(n, rng)) for k in range(count)]
    if strat == "lut":
        return [("lut%d" % k, fam_lut(n, rng)) for k in range(count)]
    leaves = [1] * n if strat in LU else leaf_sizes(n)
    for k in range(count):
        if strat in PIV:
            pairs = involution(n, rng, rng.randint(1, max(1, n // 3)))
            if n == 1: pairs = []
            kind = k % 3
            if kind == 0 or n <= 2:
                # needs pivoting by construction: rows of a diagonally dominant B exchanged pairwise; the entries
                # B(p,q) have the largest off-diagonal magnitude, so pivot_inplace recovers exactly the exchange
                B = fam_bdd(n, rng, forced=pairs) if n > 6 else None
                if B is None:
                    B = fam_dd(n, rng, -2, 2)
                    for (p, q) in pairs:
                        B[p][q] = rng.choice((-2, 2))
                    for i in range(n):
                        B[i][i] = 0; B[i][i] = max(3, sum(abs(x) for x in B[i]) + 1) * rng.choice((-1, 1))
                out.append(("rpdd%d" % k, permute_rows(B, pairs)))
            elif kind == 1:
                # zero on the diagonal (undefined without pivoting), split-sensitive after pivoting when the pivot
                # search happens to recover the exchange; otherwise the model decides definedness
                out.append(("rpldu%d" % k, permute_rows(fam_ldu(n, leaves, rng), pairs)))
            else:
                out.append(("bdd%d" % k, fam_bdd(n, rng)))
        else:
            kind = k % 3
            if kind == 0:
                out.append(("ldu%d" % k, fam_ldu(n, leaves, rng)))
            elif kind == 1 and n <= 8:
                out.append(("dd%d" % k, fam_dd(n, rng)))
            else:
                out.append(("bdd%d" % k, fam_bdd(n, rng)))
    return out

def case_line(strat, n, tag, A):
    return "inv strat=%s n=%d id=%s a=%s" % (strat, n, tag, ",".join(str(x) for row in A for x in row))

def batched_line(nb, J, tag, rng):
    flat = []
    for b in range(nb):
        A = fam_dd(J, rng)
        flat += [x for row in A for x in row]
    return "inv strat=batched n=%d nb=%d id=%s a=%s" % (J, nb, tag, ",".join(map(str, flat)))

# ------------------------------------------------------------------------------------------------
# plan: translation units of the exact (rational) run.  Compile time grows quickly with n (every block size is
# its own instantiation of matmul / views), so the quick tier takes all sizes 1..9, every class boundary that is
# affordable, and one representative of every size class of every dispatcher.
def rat_plan(tier):
    allS = STRATS
    if tier == "quick":
        tus = [
            [(s, n) for n in (1, 2, 3, 4, 5) for s in allS] + [("batched", (3, J)) for J in (1, 2, 3, 4)],
            [(s, n) for n in (6, 7, 8) for s in allS],
            [(s, n) for n in (9,) for s in allS] + [(s, 12) for s in ("simple", "ut", "lut")],
            [(s, n) for n in (16, 17) for s in ("simple", "simplepiv", "ut", "lut")],
            [(s, 17) for s in ("simplelu", "blocklupiv")] + [(s, 16) for s in ("blocklu", "simplelupiv")],
            [(s, n) for n in (32, 33) for s in ("simple",)] + [("simplepiv", 33)],
            [(s, 33) for s in ("ut", "lut")] + [("ut", 32), ("lut", 32)],
            [("simple", 65)],
        ]
    else:
        tus = []
        for n in range(1, 21):
            tus.append([(s, n) for s in allS])
        tus[0] += [("batched", (nb, J)) for J in (1, 2, 3, 4) for nb in (1, 3, 5)]
        for n in (24, 31, 32, 33, 40, 48):
            tus.append([(s, n) for s in ("simple", "simplepiv")])
            tus.append([(s, n) for s in ("ut", "lut")])
            tus.append([(s, n) for s in ("simplelu", "simplelupiv")])
        for n in (32, 33):
            tus.append([(s, n) for s in ("blocklu", "blocklupiv")])   # block LU above 32: tinverse<UniLower>/<Upper> on real LU factors
        for n in (64, 65):
            tus.append([("simple", n), ("simplepiv", n)])
            tus.append([("ut", n), ("lut", n)])
        tus.append([("simplelu", 64)]); tus.append([("blocklu", 65)])
        tus.append([("simple", 129)])
    return tus

def tu_source(pairs):
    regs = []
    for (s, n) in pairs:
        if s == "batched": regs.append("    REG_BATCH(%d, %d);" % n)
        else: regs.append("    REG_INV(%s, %d);" % (s.upper(), n))
    return '#include "inverse_rat.h"\nint main(int argc, char** argv) {\n%s\n    return c10::run_file(argv[1]);\n}\n' % "\n".join(regs)

def rat_cases(tier, seed, plan):
    rng = random.Random(seed * 7919 + 11)
    lines = []
    pairs = sorted(set(p for tu in plan for p in tu), key=str)
    for (s, n) in pairs:
        if s == "batched":
            nb, J = n
            for k in range(2 if tier == "quick" else 5):
                lines.append(batched_line(nb, J, "b%d" % k, rng))
            continue
        count = (6 if n <= 9 else 3) if tier == "quick" else (12 if n <= 20 else 4)
        for tag, A in cases_for(s, n, rng, count):
            lines.append(case_line(s, n, tag, A))
    return lines

def short(inp):
    d = symrun.kv(inp)
    return "strat=%s n=%s%s id=%s" % (d.get("strat"), d.get("n"), (" nb=" + d["nb"]) if "nb" in d else "", d.get("id"))

def run_rat(v, tier, seed, wd, plan=None, lines=None, verbose=False):
    plan = plan or rat_plan(tier)
    lines = lines if lines is not None else rat_cases(tier, seed, plan)
    cfile = os.path.join(wd, "cases.txt")
    with open(cfile, "w") as fh:
        fh.write("\n".join(lines) + "\n")
    jobs = [{"name": "rat_%d" % i, "source_text": tu_source(tu), "isa": "sse2", "opt": "-O0", "args": [cfile]} for i, tu in enumerate(plan)]
    t0 = time.time()
    res = core.build_and_run(jobs, wd, timeout=3000)
    stats = {"cases": 0, "defined": 0, "undefined_both": 0, "inconclusive_overflow": 0, "mismatch": 0, "oracle_fail": 0,
             "compile_s": {k: round(r.get("compile_s", 0), 1) for k, r in res.items()}, "wall_s": round(time.time() - t0, 1),
             "by_strategy": {}, "size_classes": {}, "sizes": {}, "needs_pivot": 0, "split_sensitive": 0}
    inputs = []; impl = []
    for name, r in sorted(res.items()):
        if r["rc_compile"] != 0 or r["rc_run"] != 0:
            v.violation("harness-failure rat %s" % name, {"kind": "harness-failure", "what": "compile" if r["rc_compile"] else "run rc=%s" % r["rc_run"],
                        "out": (r["compile_out"][-3000:] if r["rc_compile"] else r.get("err", "")[-1500:])}, nofail=True)
            continue
        for line in r["out"].split("\n"):
            if " | " in line:
                inp, obs = line.split(" | ", 1)
                inputs.append(inp.strip()); impl.append(obs.strip())
    model = core.fmodel(inputs) if inputs else []
    samples = []
    for inp, obs, mo in zip(inputs, impl, model):
        io = symrun.kv(obs); mk = symrun.kv(mo); d = symrun.kv(inp)
        stats["cases"] += 1
        if verbose: print(short(inp), "| impl:", obs, "| model:", mo)
        if len(samples) < 3: samples.append({"input": short(inp), "impl": obs, "model": mo})
        if mo.strip() == "bad-op" or io.get("ERR") == "badcase":
            v.violation("correspondence " + short(inp) + " fields=bad-op", {"kind": "correspondence", "line": inp, "impl": obs, "model": mo}, nofail=True)
            continue
        if io.get("ERR") == "overflow":
            stats["inconclusive_overflow"] += 1; continue
        if mk.get("DEF") == "0" and io.get("DEF") == "0":
            stats["undefined_both"] += 1; continue
        if mk.get("DEF") == "1" and io.get("DEF") == "0":
            stats["oracle_fail"] += 1
            v.violation("rat-divzero " + short(inp), {"kind": "rat-oracle", "line": inp, "impl": obs, "model": mo,
                        "note": "the strategy is defined on this matrix (every block met by the modelled recursion is invertible) but the implementation divided by zero"})
            continue
        bad = [k for k in mk if k in io and io[k] != mk[k]]
        if io.get("ORACLE") != "ok":
            stats["oracle_fail"] += 1
            v.violation("rat-oracle " + short(inp), {"kind": "rat-oracle", "line": inp, "impl": obs, "model": mo,
                        "note": "exact arithmetic: the returned X does not satisfy %s = I" % io.get("ORACLE")})
            continue
        if bad:
            stats["mismatch"] += 1
            v.violation("correspondence " + short(inp) + " fields=" + ",".join(bad),
                        {"kind": "correspondence", "line": inp, "impl": obs, "model": mo, "fields": bad,
                         "broken": "model %s (theorem %s is about it) no longer describes the code" % (MODEL, THEOREM)}, nofail=True)
            continue
        stats["defined"] += 1
        s = d.get("strat"); n = int(d.get("n"))
        stats["by_strategy"][s] = stats["by_strategy"].get(s, 0) + 1
        stats["sizes"].setdefault(s, set()).add(n)
        if s != "batched":
            stats["size_classes"].setdefault(s, set()).add(size_class(n))
        tag = d.get("id", "")
        if tag.startswith("rp"): stats["needs_pivot"] += 1
        if "ldu" in tag: stats["split_sensitive"] += 1
    stats["sizes"] = {k: sorted(x) for k, x in stats["sizes"].items()}
    stats["size_classes"] = {k: sorted(x) for k, x in stats["size_classes"].items()}
    return stats, samples

# ------------------------------------------------------------------------------------------------
# floating point residual test (per ISA) — a TEST, not a proof
def real_groups(tier, seed):
    isas = core.QUICK_ISAS if tier == "quick" else core.ALL_ISAS
    rng = random.Random(seed * 104729 + 5)
    groups = []
    S = {"simple": "SIMPLE", "simplepiv": "SIMPLEPIV", "simplelu": "SIMPLELU", "simplelupiv": "SIMPLELUPIV",
         "blocklu": "BLOCKLU", "blocklupiv": "BLOCKLUPIV", "ut": "UT", "lut": "LUT"}
    for isa in isas:
        for t in ("float", "double"):
            calls = []
            if tier == "quick":
                sizes = [(s, n) for n in (2, 3, 4, 5, 8, 9) for s in ("simple", "simplepiv")] + [("simple", 17)]
                sizes += [("simplelu", 3), ("simplelu", 7), ("blocklupiv", 9), ("blocklu", 9), ("simplelupiv", 6)]
                sizes += [(s, n) for n in (4, 9) for s in ("ut", "lut")]
            else:
                sizes = [(s, n) for n in list(range(1, 21)) + [32, 33] for s in STRATS] + [("simple", 64), ("simple", 65), ("simplepiv", 65)]
            for (s, n) in sizes:
                # family 1 (symmetric positive definite, prescribed condition number) keeps every leading block and Schur
                # complement well conditioned only WITHOUT row exchanges: Fastor's pivot vector (column maxima of the
                # original matrix) can turn it into a matrix with badly conditioned leading blocks, which is outside the
                # property's hypothesis — pivoted strategies get the families whose pre-pivoted form is dominant
                fams = (0, 2) if s in PIV else ((0, 1) if s not in ("ut", "lut") else (0,))
                for f in fams:
                    calls.append("run_real<%s,c10r::%s,%d>(%d,%du);" % (t, S[s], n, f, rng.randrange(1, 1 << 30)))
            if tier != "quick" or True:
                calls += ["run_real_batched<%s,%d,%d>(%du);" % (t, nb, J, rng.randrange(1, 1 << 30)) for (nb, J) in ((3, 2), (2, 3), (4, 4))]
            groups.append({"key": "%s/%s" % (isa, t), "header": "inverse_real.h", "isa": isa, "opt": "-O2", "calls": calls,
                           "pre": "static bool g_verbose=false;"})
    return groups

def run_real(v, tier, seed, wd):
    from vlib import flow
    groups = real_groups(tier, seed)
    n, fails, infra, samples = flow.run_oracle_groups(groups, wd, per_tu=(400 if tier == "quick" else 40))
    flow.report_infra(v, infra)
    worst = {}
    for g in groups: pass
    for g, line, call in fails:
        v.violation("real " + line.split("|")[0].strip(),
                    {"kind": "real-oracle", "group": g["key"], "isa": g["isa"], "opt": g.get("opt", "-O2"), "header": g["header"],
                     "pre": g.get("pre", ""), "line": line, "call": call,
                     "note": "floating-point residual above c*n*eps*cond (test, not proof)"})
    return n, len(fails), samples, sorted(set(g["key"] for g in groups))

# ------------------------------------------------------------------------------------------------
def run(tier, seed):
    v = core.Verdict(PID, tier, seed)
    v.assumptions = [
        "exact arithmetic (a field) for the proved part; floating-point residual bounds are measured, not proved",
        "matmul / tmatmul / fixed views compute the mathematical product / sub-block (properties C01, C17, C04)",
        "InvDefined: every leaf block and Schur complement met by the recursion is invertible (decidable predicate of the model; DEF flag in the tie)",
        "triangular inversion: the operand is exactly triangular (unit lower for UniLower)",
        "LU based strategies: theorem assumes the LU postcondition (C11) — L unit lower, U upper with non-zero diagonal, L*U = P*A",
    ]
    ok, info = core.proof_stage(v, PID, thorough=(tier == "thorough"))
    v.cov["proof"] = {k: info.get(k) for k in ("build_ok", "problems", "failed_modules", "errors", "leanchecker", "log")}
    if not info.get("build_ok"):
        v.violation("lean-build-failed " + ",".join(info.get("failed_modules", [])),
                    {"kind": "proof-obligation", "detail": info, "note": "lake build failed; no correspondence was run"}, nofail=True)
        return v.finish()
    with core.Scratch() as wd:
        stats, samples = run_rat(v, tier, seed, wd)
        nreal, nrfail, rsamples, rkeys = run_real(v, tier, seed, wd) if os.path.exists(os.path.join(core.VERIF, "harness", "inverse_real.h")) else (0, 0, [], [])
    if not ok:
        v.violation("audit " + "; ".join(info.get("problems", []))[:200], {"kind": "audit", "detail": info.get("problems")}, nofail=True)
    if stats["cases"] and stats["inconclusive_overflow"] * 5 > stats["cases"]:
        v.notes.append("more than 20%% of the exact cases left the safe range of the rational carrier (%d of %d)" % (stats["inconclusive_overflow"], stats["cases"]))
    v.cov.update({
        "evaluations": stats["cases"] + nreal,
        "distinct_nontrivial": stats["defined"],
        "rule": "exact cases: (strategy, n, integer matrix) run through the real templates over the rational carrier and through the Lean model; "
                "non-trivial = the strategy is defined on the matrix (model and code agree on DEF=1), X digests equal, divisor sequence equal, "
                "pivot vector equal, X*A == I and A*X == I exactly.  real cases: float/double residual test per ISA",
        "samples": samples + rsamples, "exact": stats, "real_cases": nreal, "real_failures": nrfail, "real_configs": rkeys,
        "route_hits": {"size-class " + s + " " + c: 1 for s, cs in stats["size_classes"].items() for c in cs},
        "configs": ["rat/sse2/-O0"] + rkeys,
        "not_proved": "the floating-point bound ||AX-I|| <= c*n*eps*cond(A) is measured (test); LU factorisation itself is C11",
    })
    return v.finish()

def replay(path):
    obj = json.load(open(path))
    print(json.dumps({k: (val if k != "line" else val[:400]) for k, val in obj.items()}, indent=1)[:3000])
    kind = obj.get("kind")
    if kind in ("rat-oracle", "correspondence") and "line" in obj:
        d = symrun.kv(obj["line"])
        s = d["strat"]; n = int(d["n"])
        pair = ("batched", (int(d["nb"]), n)) if s == "batched" else (s, n)
        v = core.Verdict(PID + "-replay", "quick", 0)
        with core.Scratch() as wd:
            stats, _ = run_rat(v, "quick", 0, wd, plan=[[pair]], lines=[obj["line"]], verbose=True)
        bad = len(v.violations)
        print("replay:", "FAIL" if bad else "ok", stats["cases"], "case(s)")
        return 1 if bad else 0
    if kind == "real-oracle":
        from vlib import flow
        return flow.standard_replay(path)
    print("replay: nothing executable in this replay file (kind=%s)" % kind)
    return 1
