"""C16: Lean definitions of the intrinsic SPECIALISATIONS of the reduction back ends, generated from the current repo tree:
`_norm<float|double,4|9>` (translated by C08's translator itself: aliased here), `_trace<float|double,2,2|3,3>`, the AVX `_det`
2x2 / 3x3 for float and double and `_doublecontract<float|double,2,2|3,3>` (backend/trace.h, determinant.h, doublecontract.h).

This is a thin layer over the C08 translator (vlib/xlate_simd.py), using only its public entry points `preprocess`, `scan`,
`translate`: the source text of the target functions is appended to the translator's own preprocessed input under names it
selects (`_norm<c16_...>`), with two local rewrites it does not do (brace-initialised registers -> `_mm_setr_ps/_mm256_setr_pd`,
the template parameter `T` of the AVX `_det` overloads -> float / double), and the translated blocks are cut out of its output.
Helper calls (`_add_ps`, `_mm_sum_ps`, ...) therefore resolve to exactly the definitions of Generated/Simd_<isa>.lean.

Output: lean/FastorModel/Generated/C16Spec_<isa>.lean, namespace Fastor.Gen.<isa>.spec, memory = `Reg` (32-bit words).

SAFETY: the file is imported by the driver.  After writing it the module is test-built; if it does not compile (or a function is
untranslated) the affected definitions are replaced by typed stubs (`-- UNTRANSLATED ...` + a constant 0), so `fmodel` always
links; the stubs make the `spec_*` theorems of Props/C16.lean and the `hspec` correspondence fail in the C16 check only."""
import os, re, subprocess
from vlib import core, xlate_simd as X

ISAS = ["avx2", "avx512"]
HEADERS = ["Fastor/backend/norm.h", "Fastor/backend/trace.h", "Fastor/backend/determinant.h", "Fastor/backend/doublecontract.h"]
# name -> (element type, number of pointer arguments)
TARGETS = {}
for _t in ("float", "double"):
    for _n in (4, 9): TARGETS["norm_%s_%d" % (_t, _n)] = (_t, 1)
    for _m in (2, 3):
        TARGETS["trace_%s_%dx%d" % (_t, _m, _m)] = (_t, 1)
        TARGETS["det_%s_%d" % (_t, _m)] = (_t, 1)
        TARGETS["doublecontract_%s_%dx%d" % (_t, _m, _m)] = (_t, 2)


def preprocess_backends(isa, repo=None):
    repo = repo or core.REPO
    src = "".join('#include "%s"\n' % h for h in HEADERS)
    cmd = ["g++", "-std=c++14", "-E", "-P", "-O2", "-DFASTOR_VERIF"] + core.ISA_FLAGS[isa] + ["-I" + repo, "-x", "c++", "-"]
    p = subprocess.run(cmd, input=src, stdout=subprocess.PIPE, stderr=subprocess.PIPE, text=True, timeout=600)
    if p.returncode != 0:
        raise RuntimeError("preprocessing failed for %s: %s" % (isa, p.stderr[-800:]))
    return p.stdout


def target_of(f, text):
    """-> (our name, element type) for the functions we add, else None"""
    nm = f["name"]
    m = re.match(r"^_(trace|doublecontract)<(float|double),(\d+),(\d+)>$", nm)
    if m:
        return "%s_%s_%sx%s" % (m.group(1), m.group(2), m.group(3), m.group(4)), m.group(2)
    if nm == "_det" and "__m" in f["body"]:
        # the enable_if that selects the overload is in the template header, which precedes the function text
        pos = text.find(f["body"]); head = text[max(0, pos - 700):pos] if pos >= 0 else ""
        k = head.rfind("template<")
        sig = re.sub(r"\s+", "", head[k:] if k >= 0 else "")
        m = re.search(r"M==(\d)&&N==\d", sig)
        isf = "!std::is_same<T,double>::value&&std::is_same<T,float>::value" in sig
        isd = "std::is_same<T,double>::value&&!std::is_same<T,float>::value" in sig
        if m and isf != isd:
            return "det_%s_%s" % ("float" if isf else "double", m.group(1)), ("float" if isf else "double")
    return None


def appended_sources(isa, repo):
    ext = preprocess_backends(isa, repo)
    out = []; seen = set()
    for f in X.scan(ext):
        t = target_of(f, ext)
        if not t or t[0] in seen: continue
        name, ety = t; seen.add(name)
        body = re.sub(r"//[^\n]*", "", f["body"])
        body = re.sub(r"(__m128)\s+(\w+)\s*=\s*\{([^}]*)\}", r"\1 \2 = _mm_setr_ps(\3)", body)      # lane 0 first
        body = re.sub(r"(__m256d)\s+(\w+)\s*=\s*\{([^}]*)\}", r"\1 \2 = _mm256_setr_pd(\3)", body)
        params = re.sub(r"\bT\b", ety, f["params"])
        out.append("%s %s _norm<c16_%s>(%s) {%s}" % (X.MARK, ety, name, params, body))
    return "\n".join(out)


def lean_sig(name):
    ety, nptr = TARGETS[name]
    args = " ".join("(%s : Reg)" % n for n in ("a", "b")[:nptr])
    return "(fo : FOps) %s : BitVec %d" % (args, 32 if ety == "float" else 64)


def stub(name, why):
    ety, _ = TARGETS[name]
    return "-- UNTRANSLATED %s: %s\ndef %s %s := 0" % (name, why, name, lean_sig(name))


def translate(isa, repo=None):
    """-> ({name: lean text of the definition}, report)"""
    repo = repo or core.REPO
    base = X.preprocess(isa, repo)
    extra = appended_sources(isa, repo)
    orig = X.preprocess
    try:
        X.preprocess = lambda i, r=None: base + "\nnamespace Fastor {\n" + extra + "\n}\n"
        full, rep = X.translate(isa, repo)
    finally:
        X.preprocess = orig
    defs = {}; missing = {}
    for name, (ety, nptr) in TARGETS.items():
        if name.startswith("norm_"):
            # translated by the C08 translator into Simd_<isa>.lean: alias it, provided it is there with the expected shape
            if re.search(r"^def h_%s \(fo : FOps\) \(a : Reg\) : BitVec %d :=" % (name, 32 if ety == "float" else 64), full, re.M):
                defs[name] = "-- _norm (definition of Generated/Simd_%s.lean)\ndef %s %s := h_%s fo a" % (isa, name, lean_sig(name), name)
            else:
                missing[name] = "h_%s is not in Generated/Simd_%s.lean" % (name, isa)
            continue
        m = re.search(r"^-- (_norm<c16_%s>\([^\n]*)\n(def h_norm_c16_%s .*?)(?=\n\n|\Z)" % (name, name), full, re.M | re.S)
        if not m:
            u = re.search(r"^-- UNTRANSLATED _norm<c16_%s>[^\n]*?: ([^\n]*)" % name, full, re.M)
            missing[name] = u.group(1) if u else "not found in the source (specialisation removed?)"
            continue
        txt = m.group(2).replace("def h_norm_c16_%s" % name, "def %s" % name, 1)
        head = txt.split(":=")[0]
        want = "def %s %s " % (name, lean_sig(name))
        if " ".join(head.split()) != " ".join(want.split()):
            if "(fo : FOps)" not in head:       # a body without floating-point operations: keep the driver's calling convention
                txt = txt.replace("def %s " % name, "def %s (fo : FOps) " % name, 1); head = txt.split(":=")[0]
            if " ".join(head.split()) != " ".join(want.split()):
                missing[name] = "unexpected signature %r" % " ".join(head.split())[:120]
                continue
        defs[name] = "-- %s\n%s" % (m.group(1).replace("_norm<c16_%s>" % name, name), txt)
    return defs, {"translated": sorted(defs), "untranslated": sorted(missing.items())}


def file_text(isa, defs, missing, note=""):
    head = ("import FastorModel.Generated.Simd_%s\n"
            "/-! GENERATED by props/c16_xlate.py (C16) through the C08 translator from the preprocessed backend/norm.h, trace.h, determinant.h,\n"
            "    doublecontract.h, configuration `%s`: the intrinsic specialisations of the reduction back ends.  Regenerated by every check\n"
            "    (vlib/core.regen_generated) from the current repo tree; do not edit.  A definition that could not be translated or did not\n"
            "    type-check is a stub (`-- UNTRANSLATED`, constant 0) so that the driver always links.%s -/\n"
            "set_option linter.unusedVariables false\n"
            "namespace Fastor.Gen.%s.spec\nopen Fastor.Simd Fastor.Gen.%s\n\n" % (isa, isa, note, isa, isa))
    blocks = []
    for name in TARGETS:
        blocks.append(defs[name] if name in defs else stub(name, missing.get(name, "missing")))
    return head + "\n\n".join(blocks) + "\n\nend Fastor.Gen.%s.spec\n" % isa


def builds(isa):
    """test-build the generated module (and what it imports); -> (ok, output tail)"""
    rc, out = core.run(["lake", "build", "FastorModel.Generated.C16Spec_%s" % isa], cwd=core.LEAN, timeout=3600)
    return rc == 0, out[-1500:]


def regenerate(repo=None, log=None):
    """writes Generated/C16Spec_<isa>.lean (only when the text changed) and guarantees that the written file compiles"""
    reports = {}
    os.makedirs(X.GEN_DIR, exist_ok=True)
    for isa in ISAS:
        p = os.path.join(X.GEN_DIR, "C16Spec_%s.lean" % isa)
        old = open(p).read() if os.path.exists(p) else None
        try:
            defs, rep = translate(isa, repo)
            missing = dict(rep["untranslated"])
        except Exception as e:
            defs, missing = {}, {n: "translator error %s: %s" % (type(e).__name__, str(e)[:120]) for n in TARGETS}
            rep = {"translated": [], "untranslated": sorted(missing.items())}
        txt = file_text(isa, defs, missing)
        rep["changed"] = old != txt
        rep["stubs"] = sorted(missing)
        if old != txt:
            with open(p, "w") as fh: fh.write(txt)
            ok, out = builds(isa)
            if not ok:
                # find the definitions that do not type-check: stub them one by one (cheap: the file is small), else stub everything
                bad = sorted(set(re.findall(r"C16Spec_%s\.lean:(\d+):" % isa, out)))
                lines = txt.split("\n")
                culprits = set()
                for ln in bad:
                    for name in TARGETS:
                        k = next((i for i, l in enumerate(lines) if l.startswith("def %s " % name)), None)
                        if k is not None and k <= int(ln) - 1 and all(not l.startswith("def ") for l in lines[k + 1:int(ln)]):
                            culprits.add(name)
                for name in (culprits or set(defs)):
                    defs.pop(name, None); missing[name] = "generated text did not type-check"
                txt2 = file_text(isa, defs, missing)
                with open(p, "w") as fh: fh.write(txt2)
                ok2, out2 = builds(isa)
                if not ok2:
                    missing = {n: "generated text did not type-check" for n in TARGETS}
                    with open(p, "w") as fh: fh.write(file_text(isa, {}, missing))
                    builds(isa)
                rep["stubs"] = sorted(missing); rep["build_error"] = out[-600:]
        reports[isa] = rep
        if log is not None:
            log.append("c16_xlate %s: %d translated, %d stubs%s%s" % (isa, len(TARGETS) - len(rep["stubs"]), len(rep["stubs"]),
                       " (file rewritten)" if rep["changed"] else "", (" STUBBED: " + ",".join(rep["stubs"])) if rep["stubs"] else ""))
    try:
        for isa, r in regenerate_hadd(repo, log).items():
            reports["hadd_" + isa] = r
    except Exception as e:
        if log is not None: log.append("c16_xlate hadd: %s: %s" % (type(e).__name__, str(e)[:200]))
    return reports


# ------------------------------------------------------------------------------------------------------------------------------
# FASTOR_USE_HADD (config/macros.h: a documented tuning macro): the horizontal helpers `_mm_sum_ps`, `_mm_sum_pd`, `_mm256_sum_ps`,
# `_mm256_sum_pd` and `_add_pd(__m256d)` have a second, macro-selected body.  The same translation is run a second time with
# -DFASTOR_USE_HADD and the definitions that matter here — the four helpers, the `_add_*` helpers and the 16 specialisations, with
# everything they call — are written to Generated/C16Hadd_<isa>.lean in namespace Fastor.Gen.<isa>.hadd (self-contained: it
# does not open Fastor.Gen.<isa>).  Same safety rule: test-built, typed stubs otherwise.
HADD_HELPERS = {"mm_sum_ps": ("(fo : FOps) (a : Reg) : BitVec 32"), "mm_sum_pd": ("(fo : FOps) (a : Reg) : BitVec 64"),
                "mm256_sum_ps": ("(fo : FOps) (a : Reg) : BitVec 32"), "mm256_sum_pd": ("(fo : FOps) (a : Reg) : BitVec 64")}


def translate_hadd(isa, repo=None):
    """-> (ordered list of (name, lean text)), missing dict"""
    repo = repo or core.REPO
    flags = core.ISA_FLAGS[isa]
    try:
        core.ISA_FLAGS[isa] = list(flags) + ["-DFASTOR_USE_HADD"]
        base = X.preprocess(isa, repo)
        extra = appended_sources(isa, repo)
    finally:
        core.ISA_FLAGS[isa] = flags
    # `float s; ... _mm_store_ss(&s, E); return s;` (the HADD bodies of _mm_sum_ps / _mm_sum_pd) is `return _mm_cvtss_f32(E);`:
    # the store writes lane 0 of E to the local that is returned (stores through pointers are outside the translator's grammar)
    base = re.sub(r"\b(float|double)\s+(\w+)\s*;((?:(?!\breturn\b)[^{}]){0,400}?)_mm_store_(ss|sd)\(\s*&\2\s*,(.*?)\);\s*return\s+\2\s*;",
                  lambda m: "%sreturn %s(%s);" % (m.group(3), "_mm_cvtss_f32" if m.group(4) == "ss" else "_mm_cvtsd_f64", m.group(5)), base, flags=re.S)
    orig = X.preprocess
    try:
        X.preprocess = lambda i, r=None: base + "\nnamespace Fastor {\n" + extra + "\n}\n"
        full, rep = X.translate(isa, repo)
    finally:
        X.preprocess = orig
    # all definitions of the file, in order
    blocks = []
    for m in re.finditer(r"^(?:-- [^\n]*\n)?def (\S+) [^\n]*:=\n(?:  [^\n]*\n?)*", full, re.M):
        blocks.append((m.group(1), m.group(0).rstrip("\n")))
    names = {n for n, _ in blocks}
    body_of = dict(blocks)
    want = list(HADD_HELPERS) + ["h_add_ps", "h_add_pd", "h_add_ps_m256", "h_add_pd_m256d"]
    rename = {}
    for name in TARGETS:
        src = ("h_" + name) if name.startswith("norm_") else ("h_norm_c16_" + name)
        rename[src] = name; want.append(src)
    need = set(); stack = [w for w in want if w in names]
    while stack:
        n = stack.pop()
        if n in need: continue
        need.add(n)
        for tok in set(re.findall(r"[A-Za-z_][\w.]*", body_of[n].split(":=", 1)[1])):
            if tok in names and tok not in need: stack.append(tok)
    out = []; missing = {}
    for n, txt in blocks:
        if n not in need: continue
        for src, dst in rename.items():
            txt = re.sub(r"(?<![\w.])%s(?![\w.])" % re.escape(src), dst, txt)
        out.append((rename.get(n, n), txt))
    have = {n for n, _ in out}
    for name in list(TARGETS) + list(HADD_HELPERS):
        if name not in have: missing[name] = "not translated with -DFASTOR_USE_HADD"
    return out, missing


def hadd_sig(name):
    return HADD_HELPERS[name] if name in HADD_HELPERS else lean_sig(name)


def hadd_file_text(isa, defs, missing):
    head = ("import FastorModel.Model.SimdIntrinsics\n"
            "/-! GENERATED by props/c16_xlate.py (C16) through the C08 translator with -DFASTOR_USE_HADD, configuration `%s`: the macro-selected\n"
            "    bodies of the horizontal helpers and the intrinsic specialisations of the reduction back ends that call them.  Regenerated by\n"
            "    every check; do not edit.  Stubs (`-- UNTRANSLATED`, constant 0) where translation or type-checking failed. -/\n"
            "set_option linter.unusedVariables false\n"
            "namespace Fastor.Gen.%s.hadd\nopen Fastor.Simd\n\n" % (isa, isa))
    blocks = [txt for _, txt in defs]
    for name, why in missing.items():
        blocks.append("-- UNTRANSLATED %s: %s\ndef %s %s := 0" % (name, why, name, hadd_sig(name)))
    return head + "\n\n".join(blocks) + "\n\nend Fastor.Gen.%s.hadd\n" % isa


def regenerate_hadd(repo=None, log=None):
    reports = {}
    for isa in ISAS:
        p = os.path.join(X.GEN_DIR, "C16Hadd_%s.lean" % isa)
        old = open(p).read() if os.path.exists(p) else None
        allnames = list(TARGETS) + list(HADD_HELPERS)
        try:
            defs, missing = translate_hadd(isa, repo)
        except Exception as e:
            defs, missing = [], {n: "translator error %s: %s" % (type(e).__name__, str(e)[:120]) for n in allnames}
        txt = hadd_file_text(isa, defs, missing)
        rep = {"changed": old != txt, "stubs": sorted(missing), "translated": len(defs)}
        if old != txt:
            with open(p, "w") as fh: fh.write(txt)
            rc, out = core.run(["lake", "build", "FastorModel.Generated.C16Hadd_%s" % isa], cwd=core.LEAN, timeout=3600)
            if rc != 0:
                missing = {n: "generated text did not type-check" for n in allnames}
                with open(p, "w") as fh: fh.write(hadd_file_text(isa, [], missing))
                core.run(["lake", "build", "FastorModel.Generated.C16Hadd_%s" % isa], cwd=core.LEAN, timeout=3600)
                rep["stubs"] = sorted(missing); rep["build_error"] = out[-600:]
        reports[isa] = rep
        if log is not None:
            log.append("c16_xlate hadd %s: %d definitions, %d stubs%s" % (isa, rep["translated"], len(rep["stubs"]), " (file rewritten)" if rep["changed"] else ""))
    return reports


if __name__ == "__main__":
    for isa in ISAS:
        defs, rep = translate(isa)
        print(file_text(isa, defs, dict(rep["untranslated"]))); print(rep)
