"""C16 — reductions, predicates and scalar-valued functions agree with their definitions.
Proof: Props/C16.lean (reduce_correct for every unroll ladder / width / size, minmax_in_input, predicates,
closed-form determinants = Leibniz, det via LU).  Ties: X1 the min/max seeds are read from the source text and
handed to the model; K2 the real sum/product/norm/inner/trace/determinant templates over the symbolic carrier
(exact polynomial, ordered vector loads, tail read set, width); K4 real element types on the property's sign
patterns for min/max (through the model) and exact integer-valued sums/products/norms; K3 determinants against
exact rational elimination for every DetCompType; predicates on all 2^n boolean tensors."""
import os, random, re
from vlib import core, symrun, flow

PID = "C16"
TYPES = ["float", "double", "int32_t", "int64_t"]
SZ = {"float": 4, "double": 8, "int32_t": 4, "int64_t": 8}
BITS = {"scalar": 0, "sse2": 128, "sse42": 128, "avx": 256, "avx2": 256, "avx512": 512}

def lanes(isa, sz):
    return max(1, BITS[isa] // (8 * sz)) if BITS[isa] else 1

def extract_seeds():
    """X1: the seeds of min()/max() as written in AbstractTensorFunctions.h (second, non-evaluating overloads)"""
    src = open(os.path.join(core.REPO, "Fastor/tensor/AbstractTensorFunctions.h")).read()
    out = {}
    for fn in ("min", "max"):
        m = re.search(r"scalar_type %s\(const AbstractTensor<Derived,DIMS> &_src\) \{\s*\n\s*const Derived &src = _src\.self\(\);\s*\n\s*using T[^\n]*\n\s*using V[^\n]*\n(.*?)\n\}" % fn, src, re.S)
        name = "unknown"
        if m:
            s = re.search(r"T\s+_scal\s*=\s*([^;]+);", m.group(1))
            if s:
                e = s.group(1).replace(" ", "")
                name = {"std::numeric_limits<T>::has_infinity?std::numeric_limits<T>::infinity():std::numeric_limits<T>::max()": "infmax",
                        "std::numeric_limits<T>::has_infinity?-std::numeric_limits<T>::infinity():std::numeric_limits<T>::lowest()": "neginflowest",
                        "std::numeric_limits<T>::max()": "max", "std::numeric_limits<T>::lowest()": "lowest",
                        "std::numeric_limits<T>::min()": "min", "0": "zero", "T(0)": "zero"}.get(e, "unknown")
        out[fn] = name
    return out

EXPRS = [  # (encoding, C++ text, monomial-valued?)
    ("t1", "A", True), ("t1_t2_add", "A + B", False), ("c2_t1_mul", "2 * A", True), ("t1_t2_mul", "A * B", True),
    ("t1_neg", "-A", True), ("t1_t2_sub_t3_mul", "(A - B) * C", False), ("t1_c3_add", "A + 3", False),
    ("t1_t2_t3_mul_add", "A + B * C", False),
]

def size_list(V, tier, rng, upto_mult=2):
    full = list(range(1, upto_mult * V + 4))
    if tier == "thorough":
        return full
    return sorted(set(x for x in (1, V, V + 1, 2 * V + 3) if x >= 1))

def ladder_sizes(V, tier, rng):
    """sizes hitting every stage of the 8,4,2,1 / 4,2,1 unroll ladders (each stage entered, with and without a scalar tail)
    and both _norm / _doublecontract overloads; the tail of the 8x stage (>= 8V + tail) included"""
    s = {4 * V, 4 * V + 1, 7 * V + 3, 8 * V + 1, 15 * V + 3, 16 * V + 5}
    if tier == "thorough":
        s |= {4 * V - 1, 5 * V + 2, 6 * V + 1, 8 * V, 9 * V + 1, 11 * V + 2, 12 * V + 1}
        s |= set(range(2 * V + 4, 17 * V + 2, max(1, V // 2) if V > 1 else 1))
    return sorted(s)

KINDS = ["SUM", "PROD", "TSUM", "TPROD", "NORM", "INNER"]

def red_call(T, n, K, enc="t1", txt="A"):
    if K == "INNER":
        return "rs::run_inner<%s,%d,0>();" % (T, n)
    return 'RED_CASE(%s, %d, %s, "%s", %s);' % (T, n, K, enc, txt)

def sym_groups(tier, seed):
    rng = random.Random(seed * 7717 + 16)
    seeds = extract_seeds()
    quick = tier == "quick"
    isas = (["scalar"] + core.QUICK_ISAS) if quick else core.ALL_ISAS
    groups = []
    for isa in isas:
        for sz in (4, 8):
            V = lanes(isa, sz)
            T = "Sym%d" % sz
            calls = []
            boundary = size_list(V, tier, rng)
            for n in boundary:
                # class boundaries: plain tensor through every entry point, one lazy expression per entry point
                for K in KINDS:
                    calls.append(red_call(T, n, K))
                for enc, txt, mono in (EXPRS[1:] if not quick else [rng.choice(EXPRS[1:])]):
                    calls.append(red_call(T, n, "SUM", enc, txt))
                for enc, txt, mono in (EXPRS[1:] if not quick else [rng.choice([e for e in EXPRS[1:] if e[2] or n <= 6])]):
                    if mono or n <= 6:
                        calls.append(red_call(T, n, "PROD", enc, txt))
                enc, txt, _ = rng.choice(EXPRS[1:])
                calls.append(red_call(T, n, "NORM", enc, txt))
                calls.append("rs::run_inner<%s,%d,%d>();" % (T, n, rng.randint(1, 3)))
            if quick:
                # every residue modulo V is hit by some entry point: the remaining sizes 1..2V+3 get one entry point each
                for n in range(1, 2 * V + 4):
                    if n not in boundary:
                        calls.append(red_call(T, n, KINDS[(n + seed) % len(KINDS)]))
            for n in ladder_sizes(V, tier, rng):
                if n in boundary:
                    continue
                calls.append(red_call(T, n, "NORM"))
                enc, txt, _ = rng.choice(EXPRS[1:])
                calls.append(red_call(T, n, "NORM", enc, txt))
                calls.append(red_call(T, n, "INNER"))
                # the single-accumulator expression overloads of sum / product over a long argument (monomial-valued for product)
                calls.append(red_call(T, n, "SUM", "t1_t2_add", "A + B"))
                calls.append(red_call(T, n, "PROD", "t1_t2_mul", "A * B"))
            for m in range(1, 5 if quick else 10):
                calls.append('TRACE_CASE(%s, %d, "t1", A);' % (T, m))
                enc, txt, _ = rng.choice(EXPRS[1:])
                calls.append('TRACE_CASE(%s, %d, "%s", %s);' % (T, m, enc, txt))
            for m in (1, 2, 3, 4):
                calls.append("rs::run_det<%s,%d>();" % (T, m))
            groups.append({"key": "%s/sz%d" % (isa, sz), "header": "reduce_sym.h", "isa": isa, "opt": "-O0", "calls": calls})
    # real element types through the model: min / max on the sign patterns, predicates, QR determinants
    ds = seed * 13 + 5
    risas = core.QUICK_ISAS if quick else core.ALL_ISAS
    for isa in risas:
        for t in TYPES:
            V = lanes(isa, SZ[t])
            sizes = size_list(V, tier, rng)
            if quick:
                sizes = sorted(set([1, V + 1, 2 * V + 3, rng.randint(2, 2 * V + 2)]))
            calls = ['rr::run_minmax<%s,%d>("%s", "%s", %du, %d);' % (t, n, seeds["min"], seeds["max"], ds + n, 0 if quick else 1) for n in sizes]
            groups.append({"key": "%s/minmax/%s" % (isa, t), "header": "reduce_real.h", "isa": isa, "opt": "-O2", "calls": calls})
        calls = []
        for n in ((1, 2, 3, 5, 8) if quick else range(1, 11)):
            calls += ["rr::run_pred<%d,0>();" % n, "rr::run_pred<%d,1>();" % n]
        for m in (((1, 2, 3, 5, 8) if quick else range(1, 9)) if (not quick or isa == "sse2") else []):
            calls.append("rr::run_detqr_rat<%d>(%du);" % (m, ds))
        for m in (range(2, 9) if not quick else rng.sample(range(2, 9), 2)):
            calls.append("rr::run_detqr_real<%s,%d>(%du);" % (rng.choice(["float", "double"]), m, ds))
        groups.append({"key": "%s/pred-qr" % isa, "header": "reduce_real.h", "isa": isa, "opt": "-O2", "calls": calls})
        if isa != "scalar":
            groups.append(hstep_group(isa, ds))
    # FASTOR_USE_HADD (config/macros.h): the second, macro-selected bodies of _mm_sum_ps/_pd, _mm256_sum_ps/_pd, _add_pd(__m256d)
    for isa in (HADD_ISAS if quick else HADD_ISAS + ["avx"]):
        g = hstep_group(isa, ds)
        g.update({"key": "%s/hadd/hstep" % isa, "defs": ["-DFASTOR_USE_HADD"]})
        groups.append(g)
        calls = ['rr::run_minmax<%s,%d>("%s", "%s", %du, 0);' % (t, n, seeds["min"], seeds["max"], ds + n) for t in ("float", "double") for n in (3, lanes(isa, SZ[t]) + 1)]
        groups.append({"key": "%s/hadd/minmax" % isa, "header": "reduce_real.h", "isa": isa, "opt": "-O2", "defs": ["-DFASTOR_USE_HADD"], "calls": calls})
    return groups

def hadd_real_group(isa, ds):
    # the same real-type runs with -DFASTOR_USE_HADD: the small specialised sizes 2,3,4,8,9,16 and generic sizes through
    # sum / product / norm / inner / trace / determinant (float and double go through _add_ps/_add_pd, _mm*_sum_*)
    calls = []
    for t in ("float", "double"):
        V = lanes(isa, SZ[t])
        for n in sorted(set([2, 3, 4, 8, 9, 16, V + 1, 2 * V + 3, 8 * V + 1])):
            calls.append("rr::run_rsum<%s,%d>(%du);" % (t, n, ds + n))
        for m in (1, 2, 3, 4):
            calls.append("rr::run_rmat<%s,%d>(%du);" % (t, m, ds + m))
        for m in (1, 2, 3, 4, 5):
            calls.append("rr::run_detreal<%s,%d,0>(%du);" % (t, m, ds + m))
        calls.append("rr::run_detreal<%s,%d,1>(%du);" % (t, 6, ds))
        calls.append("rr::run_rbatch<%s,2,3>(%du);" % (t, ds))
        calls.append("rr::run_fbound<%s,%d>(%du);" % (t, 2 * V + 3, ds))
        calls.append("rr::run_cplx<%s,%d>(%du);" % (t, 5, ds))
    abis = {"sse2": ["sse"], "sse42": ["sse"], "avx": ["sse", "avx"], "avx2": ["sse", "avx"], "avx512": ["sse", "avx", "avx512"]}.get(isa, [])
    calls += ['rr::run_hvec<%s,Fastor::simd_abi::%s>("%s", %du);' % (t, a, a, ds) for a in abis for t in ("float", "double")]
    return ({"key": "%s/hadd/real" % isa, "header": "reduce_real.h", "isa": isa, "opt": "-O2", "defs": ["-DFASTOR_USE_HADD"], "calls": calls})

def real_groups(tier, seed):
    rng = random.Random(seed * 911 + 16)
    quick = tier == "quick"
    isas = core.QUICK_ISAS if quick else core.ALL_ISAS
    ds = seed * 17 + 3
    groups = []
    for isa in isas:
        for t in TYPES:
            V = lanes(isa, SZ[t])
            fp = t in ("float", "double")
            calls = []
            if quick:
                # 4 and 9: the intrinsic specialisations _norm<float,4>, _norm<float,9>, _norm<double,4>, _norm<double,9>;
                # 8V+1 / 16V+5: the unroll ladders of _norm / _doublecontract on the real vectors
                sizes = sorted(set([1, 4, 9, V + 1, 2 * V + 3, 8 * V + 1 if isa != "avx512" else 16 * V + 5]))
            else:
                sizes = size_list(V, tier, rng) + ladder_sizes(V, tier, rng)
            for n in sizes:
                calls.append("rr::run_rsum<%s,%d>(%du);" % (t, n, ds + n))
            for m in range(1, 5 if quick else 9):
                calls.append("rr::run_rmat<%s,%d>(%du);" % (t, m, ds + m))
            # reductions over views and over comparison / classification expressions (tensor, expression, requires-evaluation)
            for n in (sorted(set([1, V + 2, 2 * V + 3])) if quick else sorted(set([1, 2, V, V + 2, 2 * V + 3, 4 * V + 1]))):
                calls.append("rr::run_rview<%s,%d>(%du);" % (t, n, ds + n))
            calls.append("rr::run_rview2<%s,%d,%d>(%du);" % (t, 3, 2 * V + 1, ds))
            for (m, n) in ([(2, V + 1)] if quick else [(1, 1), (2, V + 1), (3, 3), (V, 2)]):
                calls.append("rr::run_rbool<%s,%d,%d>(%du);" % (t, m, n, ds))
            if fp:
                for (b, m) in [(2, 2), (2, 3), (3, 4)]:
                    calls.append("rr::run_rbatch<%s,%d,%d>(%du);" % (t, b, m, ds))
                for m in range(1, 6):
                    calls.append("rr::run_detreal<%s,%d,0>(%du);" % (t, m, ds + m))
                for m in (range(1, 9) if not quick else sorted(set([2, rng.randint(5, 8)]))):
                    calls.append("rr::run_detreal<%s,%d,1>(%du);" % (t, m, ds + m))
                for n in (sizes if not quick else [sizes[-1], rng.choice(sizes[1:-1])]):
                    calls.append("rr::run_fbound<%s,%d>(%du);" % (t, n, ds + n))
            groups.append({"key": "%s/real/%s" % (isa, t), "header": "reduce_real.h", "isa": isa, "opt": "-O2", "calls": calls})
        # complex element types (sum / product / inner exact on Gaussian integers; norm: known finding CNORM)
        calls = ["rr::run_cplx<%s,%d>(%du);" % (r, n, ds) for r in ("float", "double") for n in ((1, 5, 2 * lanes(isa, 4) + 1) if quick else (1, 2, 3, 5, 9, 17, 35))]
        groups.append({"key": "%s/cplx" % isa, "header": "reduce_real.h", "isa": isa, "opt": "-O2", "calls": calls})
        # the real horizontal steps of every SIMDVector<T,ABI> that exists under this ISA, lane by lane
        abis = {"scalar": [], "sse2": ["sse"], "sse42": ["sse"], "avx": ["sse", "avx"], "avx2": ["sse", "avx"], "avx512": ["sse", "avx", "avx512"]}[isa]
        calls = ['rr::run_hvec<%s,Fastor::simd_abi::%s>("%s", %du);' % (t, a, a, ds) for a in abis + ["scalar"] for t in TYPES]
        groups.append({"key": "%s/hvec" % isa, "header": "reduce_real.h", "isa": isa, "opt": "-O2", "calls": calls})
        if not quick or isa == "avx2":
            calls = []
            for m in range(1, 9):
                if not quick or m <= 5:
                    calls.append("rr::run_detrat<%d,0>(%du);" % (m, ds + m))
                if not quick or m in (1, 2, 3, 5, 8):
                    calls.append("rr::run_detrat<%d,1>(%du);" % (m, ds + m))
            groups.append({"key": "%s/detrat" % isa, "header": "reduce_real.h", "isa": isa, "opt": "-O2", "calls": calls})
    for isa in (HADD_ISAS if quick else [i for i in core.ALL_ISAS if i != "scalar"]):
        groups.append(hadd_real_group(isa, ds))
    return groups

# ---- horizontal helpers of extintrin.h: executed by the driver from the definitions generated by vlib/xlate_simd.py ------
HADD_ISAS = ["sse42", "avx2", "avx512"]     # sse2 has no SSE3: FASTOR_USE_HADD selects nothing there (sse2/hadd/real still runs in the thorough tier)
HSTEP_FNS = ["hmax_ps", "hmin_ps", "hmax_pd", "hmin_pd", "sum_ps", "prod_ps", "sum_pd", "prod_pd", "sum_epi32", "prod_epi32",
             "hmax256_ps", "hmin256_ps", "hmax256_pd", "hmin256_pd", "sum256_ps", "prod256_ps", "sum256_pd", "prod256_pd"]

HSPEC_FNS = ["norm_float_4", "norm_float_9", "norm_double_4", "norm_double_9", "trace_float_2x2", "trace_float_3x3", "trace_double_2x2", "trace_double_3x3",
             "det_float_2", "det_float_3", "det_double_2", "det_double_3", "doublecontract_float_2x2", "doublecontract_float_3x3",
             "doublecontract_double_2x2", "doublecontract_double_3x3"]

def hstep_group(isa, ds):
    calls = ["hs_%s(%du);" % (name, ds) for name in HSTEP_FNS if not ("256" in name and isa in ("sse2", "sse42"))]
    if isa in ("avx", "avx2", "avx512"):
        # the intrinsic specialisations of _norm / _trace / _det / _doublecontract exist under AVX
        calls += ["hp_%s(%du);" % (name, ds) for name in HSPEC_FNS]
    return {"key": "%s/hstep" % isa, "header": "reduce_hstep.h", "isa": isa, "opt": "-O2", "calls": calls}

def _filtered(fn):
    """developer aid for the mutation self-test: C16_FILTER=<regex on group keys> runs a subset of the same groups"""
    flt = os.environ.get("C16_FILTER")
    if not flt:
        return fn
    return lambda tier, seed: [g for g in fn(tier, seed) if re.search(flt, g["key"])]

def ofail_key(f):
    """violation keys for the two recorded defects; everything else keeps the default key"""
    inp, impl = f["input"], f["impl"]
    if inp.startswith("pred ") and "what=none" in inp and "pattern=equals-any_of" in impl:
        return "F5 none_of returns any_of: " + inp
    if inp.startswith("detqr ") and "sgn=neg" in inp and "REL=abs" in impl:
        return "QRSIGN determinant<QR> returns |det|: " + inp
    return None

def static_coverage(tier, seed):
    """what the generated box contains: per (isa, element size) the sizes per entry point, the residues n mod V hit, the
    unroll-ladder stages entered, the helper functions and the ISAs / element types of the real-type runs"""
    cov = {}
    for g in _filtered(sym_groups)(tier, seed):
        if g["header"] != "reduce_sym.h":
            continue
        isa, szs = g["key"].split("/"); sz = int(szs[2:]); V = lanes(isa, sz)
        kinds = {}
        for c in g["calls"]:
            m = re.match(r"RED_CASE\(Sym\d, (\d+), (\w+),", c) or re.match(r"rs::run_(inner)<Sym\d,(\d+),", c)
            if not m:
                continue
            n, k = (int(m.group(1)), m.group(2)) if c.startswith("RED") else (int(m.group(2)), "INNER")
            kinds.setdefault(k, set()).add(n)
        allsizes = set().union(*kinds.values()) if kinds else set()
        stages = sorted(set(u for n in kinds.get("NORM", ()) for u in ((8, 4, 2, 1) if isa == "avx512" else (4, 2, 1)) if n >= u * V))
        cov[g["key"]] = {"V": V, "sizes_per_kind": {k: len(v) for k, v in kinds.items()}, "max_size": max(allsizes) if allsizes else 0,
                         "residues_mod_V_hit": len(set(n % V for n in allsizes)), "residues_mod_V_total": V,
                         "norm_ladder_stages_entered": stages,
                         "single_vs_ladder_overloads": {"norm_single": sum(1 for n in kinds.get("NORM", ()) if n <= 4 * V),
                                                        "norm_ladder": sum(1 for n in kinds.get("NORM", ()) if n > 8 * V),
                                                        "inner_single": sum(1 for n in kinds.get("INNER", ()) if n <= 4 * V),
                                                        "inner_ladder": sum(1 for n in kinds.get("INNER", ()) if n > 4 * V)}}
    return cov

ASSUMPTIONS = [
    "vector primitives of the model are lane-wise by definition (real SIMDVector specialisations: C08; expression eval: C02 lanes_of_evalV)",
    "the symbolic carrier's SIMDVector is the ideal lane-wise vector of harness/common/simd_sym.h; the real horizontal steps are covered by "
    "the theorems about the definitions GENERATED from the source (vlib/xlate_simd.py, regenerated by this check) and by the hstep / hvec runs",
    "Model/SimdIntrinsics.lean (semantics of the Intel intrinsics, validated against the CPU by C08) is trusted; the decoding hypotheses "
    "Decodes32/64 (the FPU's lane max/min is the order's max/min on non-NaN values) and the commutative-monoid laws for exact data are hypotheses of the generated-code theorems",
    "AVX-512 float/double sum/min/max are single compiler sequence intrinsics (_mm512_reduce_*), not library code: value-tested lane by lane (hvec)",
    "integer-valued data for the exact real-type runs; integer arithmetic wraps",
    "determinant<LU> / Simple for n>4 only on matrices for which the statically pre-pivoted LU exists (diagonally dominant, their row permutations, pivot ties)",
    "floating-point error: the bound ((1+u)^depth - 1) sum|x_i| is a THEOREM about the modelled tree over the rounding model |fl(x)-x| <= u|x| "
    "(sum_error_bound); that the FPU satisfies the rounding model is measured (fbound lines), not proved",
    "different-rank inner(a,b) and trace of a non-square matrix are rejected at compile time (not in the box)",
]

def run(tier, seed):
    """the standard flow (vlib/flow.py) with two changes: the SIMD helper definitions are REGENERATED from the repo before the
    Lean build, and a build failure confined to this property's theorems does not stop the correspondence / oracle runs"""
    from vlib import xlate_simd
    seeds = extract_seeds()
    v = core.Verdict(PID, tier, seed)
    v.assumptions = ASSUMPTIONS + ["seeds read from the source (X1): min -> %s, max -> %s" % (seeds["min"], seeds["max"])]
    regen_reports = {}
    def regen(log):
        # core.regen_generated has just regenerated Simd_<isa>.lean and C16Spec_<isa>.lean; collect the reports (nothing is rewritten twice)
        from props import c16_xlate
        regen_reports.update(xlate_simd.regenerate(xlate_simd.ISAS, core.REPO, None))
        for isa, r in c16_xlate.regenerate(core.REPO, None).items():
            regen_reports["spec_" + isa] = r
    ok, info = core.proof_stage(v, PID, thorough=(tier == "thorough"), regen=regen)
    v.cov["proof"] = {k: info.get(k) for k in ("build_ok", "problems", "failed_modules", "errors", "leanchecker", "log")}
    if info.get("build_ok"):
        # the theorems about the FASTOR_USE_HADD bodies live in Props/C16Hadd.lean (built by proof_stage): audit them too
        thms2 = core.prop_theorems("C16Hadd")
        res2, prob2 = core.audit_axioms("C16Hadd")
        v.cov["obligations"] += len(thms2)
        v.cov["discharged"] += len([t for t in thms2 if t in res2 and all(a in core.ALLOWED_AXIOMS for a in res2[t])])
        v.cov.setdefault("theorems", []).extend({"name": t, "axioms": res2.get(t)} for t in thms2)
        if prob2:
            info.setdefault("problems", []).extend(prob2); ok = False
    cnt = lambda x: x if isinstance(x, int) else len(x or ())
    v.cov["generated"] = {isa: {"translated": cnt(r.get("translated", ())), "untranslated": cnt(r.get("untranslated", ())), "stubs": list(r.get("stubs", ())), "rewritten": bool(r.get("changed"))}
                          for isa, r in regen_reports.items()}
    have_model = True
    if not info.get("build_ok"):
        mods = info.get("failed_modules", [])
        v.violation("lean-build-failed " + ",".join(mods),
                    {"kind": "proof-obligation", "detail": info,
                     "note": "lake build failed after regenerating Generated/Simd_<isa>.lean from the repo: a theorem of Props/C16.lean about the "
                             "generated helper definitions (or another module) no longer holds; the oracle runs below look for a failing input"}, nofail=True)
        okm, _ = core.lake_build(targets=["fmodel"])
        have_model = okm
    sgf, rgf = _filtered(sym_groups), _filtered(real_groups)
    with core.Scratch() as wd:
        sg = sgf(tier, seed)
        res = symrun.run_groups(sg, wd, per_tu=PER_TU)
        if have_model:
            n, mism, ofail, infra, lines = symrun.compare_with_model(res, v)
        else:
            n, mism, ofail, infra, lines = oracle_only(res)
        og = rgf(tier, seed)
        real_n, real_fail, rinfra, rsamples = flow.run_oracle_groups(og, wd, PER_TU)
        flow.report_infra(v, infra + rinfra)
        for f in ofail:
            v.violation(ofail_key(f) or ("sym " + f["input"]), {"kind": "sym-oracle", "group": f["group"], "input": f["input"], "impl": f["impl"], "model": f["model"]})
        for g, line, call in real_fail:
            v.violation("real " + line.split("|")[0].strip(),
                        {"kind": "real-oracle", "group": g["key"], "isa": g["isa"], "defs": list(g.get("defs", ())), "std": g.get("std", "c++14"),
                         "opt": g.get("opt", "-O1"), "header": g["header"], "pre": g.get("pre", ""), "line": line, "call": call})
        ofail_inputs = set(f["input"] for f in ofail)
        mism = [m for m in mism if m["input"] not in ofail_inputs]
        if mism:
            keys = sorted(set(m["group"] for m in mism))
            groups = [g for g in sgf("thorough", seed + 17) if g["key"] in keys]
            res2 = symrun.run_groups(groups, wd, per_tu=PER_TU)
            nn, mm2, of2, infra2, _ = symrun.compare_with_model(res2, v)
            v.cov["search_evaluations"] = nn
            if of2:
                for f in of2[:5]:
                    v.violation(ofail_key(f) or ("sym " + f["input"]), {"kind": "sym-oracle", "group": f["group"], "input": f["input"], "impl": f["impl"], "model": f["model"]})
            else:
                m0 = mism[0]
                v.violation("correspondence " + m0["input"] + " fields=" + ",".join(m0["fields"]),
                            {"kind": "correspondence", "broken": "model FastorModel.Model.Reduce (theorem Fastor.C16.reduce_correct is about this model) no longer "
                             "describes the code: the observables listed in `fields` differ", "first": m0, "count": len(mism),
                             "searched": nn, "others": [m["input"] for m in mism[1:10]]}, nofail=True)
        if not ok and info.get("build_ok"):
            v.violation("audit " + "; ".join(info.get("problems", []))[:200], {"kind": "audit", "detail": info.get("problems")}, nofail=True)
    routes = {}
    for inp, obs, mo in lines:
        r = symrun.kv(mo).get("route", "-")
        routes[r] = routes.get(r, 0) + 1
    nontrivial = lambda inp, mo: ("LV=0" not in mo) or not inp.startswith("reduce") or "k=det" in inp
    v.cov.update({"evaluations": n + real_n, "distinct_nontrivial": len(set(inp for inp, obs, mo in lines if nontrivial(inp, mo))),
                  "rule": "symbolic cases: (cfg, sizeof T, kind, n, expression) instantiations of the real sum/product/Tensor::sum/Tensor::product/norm/inner/trace/determinant "
                          "templates over the exact polynomial carrier, compared with the Lean model on value, width, ordered vector loads, tail read set, read sets, tree depth; "
                          "minmax cases: (cfg, T, op, form, seed, data vector) on the real element types compared with the model's result; pred: all 2^n masks; hstep: the real "
                          "extintrin.h helpers vs the generated Lean definitions executed on the same lanes; non-trivial = the vector body runs at least once or the case is a "
                          "min/max/predicate/determinant/helper case",
                  "samples": [{"input": l[0], "impl": l[1], "model": l[2]} for l in lines[:3]] + rsamples,
                  "route_hits": routes, "sym_cases": n, "oracle_cases": real_n, "mismatches": len(mism),
                  "oracle_failures": len(ofail) + len(real_fail), "configs": sorted(set(g["key"] for g in sg) | set(g["key"] for g in og)),
                  "seeds_from_source": seeds, "box": static_coverage(tier, seed),
                  "oracle_line_kinds": line_kinds(og)})
    if symrun.REJECTED:
        v.cov["compile_rejected"] = {"count": len(symrun.REJECTED), "examples": symrun.REJECTED[:8]}
    return v.finish()

PER_TU = 50

def oracle_only(results):
    """when fmodel cannot be built: judge the symbolic / model-routed lines on their in-harness ORACLE field only"""
    n = 0; ofail = []; infra = []; lines = []
    for r in results:
        res = r["res"]; g = r["group"]
        if res.get("rejected"):
            continue
        if res["rc_compile"] != 0:
            infra.append({"group": g["key"], "what": "compile", "calls": r["calls"][:3], "out": res["compile_out"][-3000:]}); continue
        for line in res["out"].split("\n"):
            if "|" not in line:
                continue
            inp, obs = line.split("|", 1); n += 1
            io = symrun.kv(obs)
            lines.append((inp.strip(), obs.strip(), ""))
            if io.get("ORACLE", "ok") != "ok" or io.get("OOB", "0") != "0":
                ofail.append({"group": g["key"], "input": inp.strip(), "impl": obs.strip(), "model": "(fmodel not built)"})
    return n, [], ofail, infra, lines

def line_kinds(groups):
    kinds = {}
    for g in groups:
        for c in g["calls"]:
            m = re.match(r"rr::run_(\w+)<", c)
            if m:
                kinds[m.group(1)] = kinds.get(m.group(1), 0) + 1
    return kinds

def sym_call_of(inp):
    d = symrun.kv(inp)
    cmd = inp.split()[0]
    if cmd == "reduce":
        T = "Sym%s" % d["sz"]; n = d["n"]; k = d["k"]
        enc = d.get("E", "t1")
        txt = dict((e, t) for e, t, _ in EXPRS).get(enc, "A")
        if k == "inner":
            mode = {("t1", "t2"): 0, ("t1_t3_add", "t2"): 1, ("t1", "t2_t3_mul"): 2, ("t1_t3_add", "t2_t3_sub"): 3}[(enc, d["F"])]
            call = "rs::run_inner<%s,%s,%d>();" % (T, n, mode)
        elif k == "trace":
            call = 'TRACE_CASE(%s, %s, "%s", %s);' % (T, n, enc, txt)
        elif k == "det":
            call = "rs::run_det<%s,%s>();" % (T, n)
        else:
            call = 'RED_CASE(%s, %s, %s, "%s", %s);' % (T, n, k.upper(), enc, txt)
        return {"key": "replay", "header": "reduce_sym.h", "isa": d["cfg"], "calls": [call]}
    if cmd == "minmax":
        t = {"int32": "int32_t", "int64": "int64_t"}.get(d["T"], d["T"])
        seeds = extract_seeds()
        n = len(d["x"].split(","))
        pre = "#define C16_REPLAY_X \"%s\"\n" % d["x"]
        call = 'rr::replay_minmax<%s,%d>("%s", %d, %s, C16_REPLAY_X);' % (t, n, d["seed"], 0 if d["k"] == "min" else 1, d["form"])
        return {"key": "replay", "header": "reduce_real.h", "isa": d["cfg"], "opt": "-O2", "calls": [call], "pre": pre}
    if cmd == "pred":
        return {"key": "replay", "header": "reduce_real.h", "isa": d["cfg"], "opt": "-O2",
                "calls": ["rr::run_pred<%s,%d>();" % (d["n"], 1 if d["form"] == "expr" else 0)]}
    if cmd == "detqr":
        if d["T"] == "rat":
            call = "rr::run_detqr_rat<%s>(%su);" % (d["n"], d["ds"])
        else:
            call = "rr::run_detqr_real<%s,%s>(%su);" % (d["T"], d["n"], d["ds"])
        return {"key": "replay", "header": "reduce_real.h", "isa": d["cfg"], "opt": "-O2", "calls": [call]}
    if cmd == "hstep":
        return {"key": "replay", "header": "reduce_hstep.h", "isa": d["cfg"], "opt": "-O2",
                "calls": ["hs_%s(%su);" % (d["fn"], d["ds"])]}
    if cmd == "hspec":
        return {"key": "replay", "header": "reduce_hstep.h", "isa": d["cfg"], "opt": "-O2", "calls": ["hp_%s(%su);" % (d["fn"], d["ds"])]}
    raise ValueError("cannot rebuild " + inp)

def replay(path):
    """re-run the stored case; a call that prints several cases (pred, detqr, hstep, minmax groups) is judged on the
    stored input line only, so that the lines of the two known findings do not decide an unrelated replay"""
    import json
    obj = json.load(open(path))
    kind = obj.get("kind")
    if kind not in ("sym-oracle", "correspondence"):
        return flow.standard_replay(path, sym_call_of)
    print(json.dumps(obj, indent=1)[:3000])
    first = obj if kind == "sym-oracle" else obj["first"]
    want = first["input"].strip()
    with core.Scratch() as wd:
        res = symrun.run_groups([sym_call_of(want)], wd, verbose=True)
        for r in res:
            if r["res"]["rc_compile"]:
                print(r["res"]["compile_out"][-2000:]); return 1
            keep = [l for l in r["res"]["out"].split("\n") if "|" in l and l.split("|", 1)[0].strip() == want]
            if keep:
                r["res"]["out"] = "\n".join(keep) + "\n"
            print(r["res"]["out"])
        n, mism, ofail, infra, lines = symrun.compare_with_model(res, None)
        for l in lines:
            print("model:", l[2])
        return 1 if (mism or ofail or infra or n == 0) else 0
