"""C16 — reductions, predicates and scalar-valued functions agree with their definitions.
Proof: Props/C16.lean (reduce_correct for every unroll ladder / width / size, minmax_in_input, predicates,
closed-form determinants = Leibniz, det via LU).  Ties: X1 the min/max seeds are read from the source text and
handed to the model; K2 the real sum/product/norm/inner/trace/determinant templates over the symbolic carrier
(exact polynomial, ordered vector loads, tail read set, width); K4 real element types on the property's sign
patterns for min/max (through the model) and exact integer-valued sums/products/norms; K3 determinants against
exact rational elimination for every DetCompType; predicates on all 2^n boolean tensors."""
import os, random, re
from vlib import core, symrun, flow

PID = "C16"
TYPES = ["float", "double", "int32_t", "int64_t"]
SZ = {"float": 4, "double": 8, "int32_t": 4, "int64_t": 8}
BITS = {"scalar": 0, "sse2": 128, "sse42": 128, "avx": 256, "avx2": 256, "avx512": 512}

def lanes(isa, sz):
    return max(1, BITS[isa] // (8 * sz)) if BITS[isa] else 1

def extract_seeds():
    """X1: the seeds of min()/max() as written in AbstractTensorFunctions.h (second, non-evaluating overloads)"""
    src = open(os.path.join(core.REPO, "Fastor/tensor/AbstractTensorFunctions.h")).read()
    out = {}
    for fn in ("min", "max"):
        m = re.search(r"scalar_type %s\(const AbstractTensor<Derived,DIMS> &_src\) \{\s*\n\s*const Derived &src = _src\.self\(\);\s*\n\s*using T[^\n]*\n\s*using V[^\n]*\n(.*?)\n\}" % fn, src, re.S)
        name = "unknown"
        if m:
            s = re.search(r"T\s+_scal\s*=\s*([^;]+);", m.group(1))
            if s:
                e = s.group(1).replace(" ", "")
                name = {"std::numeric_limits<T>::has_infinity?std::numeric_limits<T>::infinity():std::numeric_limits<T>::max()": "infmax",
                        "std::numeric_limits<T>::has_infinity?-std::numeric_limits<T>::infinity():std::numeric_limits<T>::lowest()": "neginflowest",
                        "std::numeric_limits<T>::max()": "max", "std::numeric_limits<T>::lowest()": "lowest",
                        "std::numeric_limits<T>::min()": "min", "0": "zero", "T(0)": "zero"}.get(e, "unknown")
        out[fn] = name
    return out

EXPRS = [  # (encoding, C++ text, monomial-valued?)
    ("t1", "A", True), ("t1_t2_add", "A + B", False), ("c2_t1_mul", "2 * A", True), ("t1_t2_mul", "A * B", True),
    ("t1_neg", "-A", True), ("t1_t2_sub_t3_mul", "(A - B) * C", False), ("t1_c3_add", "A + 3", False),
    ("t1_t2_t3_mul_add", "A + B * C", False),
]

def size_list(V, tier, rng, upto_mult=2):
    full = list(range(1, upto_mult * V + 4))
    if tier == "thorough":
        return full
    base = {1, 2, 3, V - 1, V, V + 1, 2 * V - 1, 2 * V, 2 * V + 1, 2 * V + 3}
    base |= set(rng.sample(full, min(3, len(full))))
    return sorted(x for x in base if x >= 1)

def ladder_sizes(V, tier, rng):
    """sizes hitting every stage of the 8,4,2,1 / 4,2,1 unroll ladders and both _norm / _doublecontract overloads"""
    s = {4 * V - 1, 4 * V, 4 * V + 1, 5 * V + 2, 6 * V + 1, 7 * V + 3, 8 * V, 8 * V + 1, 9 * V + 1, 11 * V + 2, 12 * V + 1, 15 * V + 3, 16 * V + 5}
    if tier == "thorough":
        s |= set(range(2 * V + 4, 17 * V + 2, max(1, V // 2) if V > 1 else 1))
    else:
        s |= set(rng.sample(range(2 * V + 4, 17 * V), 3))
    return sorted(s)

def sym_groups(tier, seed):
    rng = random.Random(seed * 7717 + 16)
    seeds = extract_seeds()
    quick = tier == "quick"
    isas = (["scalar"] + core.QUICK_ISAS) if quick else core.ALL_ISAS
    groups = []
    for isa in isas:
        for sz in (4, 8):
            V = lanes(isa, sz)
            T = "Sym%d" % sz
            calls = []
            for n in size_list(V, tier, rng):
                # every size: plain tensor through every entry point
                for K in ("SUM", "PROD", "TSUM", "TPROD", "NORM"):
                    calls.append('RED_CASE(%s, %d, %s, "t1", A);' % (T, n, K))
                calls.append("rs::run_inner<%s,%d,0>();" % (T, n))
                # lazy expressions: one per size and entry point (all of them in the thorough tier)
                for enc, txt, mono in (EXPRS[1:] if not quick else [rng.choice(EXPRS[1:])]):
                    calls.append('RED_CASE(%s, %d, SUM, "%s", %s);' % (T, n, enc, txt))
                for enc, txt, mono in (EXPRS[1:] if not quick else [rng.choice([e for e in EXPRS[1:] if e[2] or n <= 6])]):
                    if mono or n <= 6:
                        calls.append('RED_CASE(%s, %d, PROD, "%s", %s);' % (T, n, enc, txt))
                if not quick or rng.random() < 0.5:
                    enc, txt, _ = rng.choice(EXPRS[1:])
                    calls.append('RED_CASE(%s, %d, NORM, "%s", %s);' % (T, n, enc, txt))
                    calls.append("rs::run_inner<%s,%d,%d>();" % (T, n, rng.randint(1, 3)))
            if quick:
                # every residue modulo V is hit by some entry point: the sizes 1..2V+3 not in the boundary list get one kind each
                kinds = ["SUM", "PROD", "TSUM", "TPROD", "NORM", "INNER"]
                listed = set(int(re.search(r", (\d+),", c).group(1)) for c in calls if c.startswith("RED_CASE"))
                for n in range(1, 2 * V + 4):
                    if n not in listed:
                        K = kinds[(n + seed) % len(kinds)]
                        calls.append("rs::run_inner<%s,%d,0>();" % (T, n) if K == "INNER" else 'RED_CASE(%s, %d, %s, "t1", A);' % (T, n, K))
            for n in ladder_sizes(V, tier, rng):
                calls.append('RED_CASE(%s, %d, NORM, "t1", A);' % (T, n))
                enc, txt, _ = rng.choice(EXPRS[1:])
                calls.append('RED_CASE(%s, %d, NORM, "%s", %s);' % (T, n, enc, txt))
                calls.append("rs::run_inner<%s,%d,0>();" % (T, n))
                if not quick:
                    calls.append('RED_CASE(%s, %d, SUM, "t1_t2_add", A + B);' % (T, n))
            for m in range(1, 6 if quick else 10):
                calls.append('TRACE_CASE(%s, %d, "t1", A);' % (T, m))
                enc, txt, _ = rng.choice(EXPRS[1:])
                calls.append('TRACE_CASE(%s, %d, "%s", %s);' % (T, m, enc, txt))
            for m in (1, 2, 3, 4):
                calls.append("rs::run_det<%s,%d>();" % (T, m))
            groups.append({"key": "%s/sz%d" % (isa, sz), "header": "reduce_sym.h", "isa": isa, "opt": "-O0", "calls": calls})
    # real element types through the model: min / max on the sign patterns, predicates, QR determinants
    ds = seed * 13 + 5
    risas = core.QUICK_ISAS if quick else core.ALL_ISAS
    for isa in risas:
        for t in TYPES:
            V = lanes(isa, SZ[t])
            calls = []
            sizes = size_list(V, tier, rng)
            if quick:
                sizes = sorted(set([1, V + 1, 2 * V + 3] + rng.sample(sizes, min(4, len(sizes)))))
            for n in sizes:
                calls.append('rr::run_minmax<%s,%d>("%s", "%s", %du, %d);' % (t, n, seeds["min"], seeds["max"], ds + n, 0 if quick else 1))
            groups.append({"key": "%s/minmax/%s" % (isa, t), "header": "reduce_real.h", "isa": isa, "opt": "-O2", "calls": calls})
        calls = []
        for n in range(1, 9 if quick else 11):
            calls += ["rr::run_pred<%d,0>();" % n, "rr::run_pred<%d,1>();" % n]
        for m in (range(1, 9) if (not quick or isa == "sse2") else []):
            calls.append("rr::run_detqr_rat<%d>(%du);" % (m, ds))
        for m in (range(2, 9) if not quick else rng.sample(range(2, 9), 2)):
            calls.append("rr::run_detqr_real<%s,%d>(%du);" % (rng.choice(["float", "double"]), m, ds))
        groups.append({"key": "%s/pred-qr" % isa, "header": "reduce_real.h", "isa": isa, "opt": "-O2", "calls": calls})
        if isa != "scalar":
            groups.append(hstep_group(isa, ds))
    return groups

def real_groups(tier, seed):
    rng = random.Random(seed * 911 + 16)
    quick = tier == "quick"
    isas = core.QUICK_ISAS if quick else core.ALL_ISAS
    ds = seed * 17 + 3
    groups = []
    for isa in isas:
        for t in TYPES:
            V = lanes(isa, SZ[t])
            fp = t in ("float", "double")
            calls = []
            sizes = size_list(V, tier, rng) + ladder_sizes(V, tier, rng)[:: (1 if not quick else 4)]
            if quick:
                # 4 and 9: the intrinsic specialisations _norm<float,4>, _norm<float,9>, _norm<double,4>, _norm<double,9>
                sizes = sorted(set([1, 4, 9, V + 1, 2 * V + 3, sizes[-1]] + rng.sample(sizes, 2)))
            for n in sizes:
                calls.append("rr::run_rsum<%s,%d>(%du);" % (t, n, ds + n))
            for m in range(1, 5 if quick else 9):
                calls.append("rr::run_rmat<%s,%d>(%du);" % (t, m, ds + m))
            if fp:
                for m in range(1, 6):
                    calls.append("rr::run_detreal<%s,%d,0>(%du);" % (t, m, ds + m))
                for m in (range(1, 9) if not quick else sorted(set([2, 8, rng.randint(3, 7)]))):
                    calls.append("rr::run_detreal<%s,%d,1>(%du);" % (t, m, ds + m))
                for n in (sizes if not quick else rng.sample(sizes, 3)):
                    calls.append("rr::run_fbound<%s,%d>(%du);" % (t, n, ds + n))
            groups.append({"key": "%s/real/%s" % (isa, t), "header": "reduce_real.h", "isa": isa, "opt": "-O2", "calls": calls})
        # the real horizontal steps of every SIMDVector<T,ABI> that exists under this ISA, lane by lane
        abis = {"scalar": [], "sse2": ["sse"], "sse42": ["sse"], "avx": ["sse", "avx"], "avx2": ["sse", "avx"], "avx512": ["sse", "avx", "avx512"]}[isa]
        calls = ['rr::run_hvec<%s,Fastor::simd_abi::%s>("%s", %du);' % (t, a, a, ds) for a in abis + ["scalar"] for t in TYPES]
        groups.append({"key": "%s/hvec" % isa, "header": "reduce_real.h", "isa": isa, "opt": "-O2", "calls": calls})
        if not quick or isa == "avx2":
            calls = []
            for m in range(1, 9):
                calls += ["rr::run_detrat<%d,0>(%du);" % (m, ds + m), "rr::run_detrat<%d,1>(%du);" % (m, ds + m)]
            groups.append({"key": "%s/detrat" % isa, "header": "reduce_real.h", "isa": isa, "opt": "-O2", "calls": calls})
    return groups


# ---- horizontal helpers of extintrin.h (X2-lite): normalised body text + shuffle immediates ------------------------
HFUNCS = ['_mm_reverse_ps', '_mm_reverse_pd', '_mm256_reverse_pd', '_mm_hmax_ps', '_mm_hmax_pd', '_mm256_hmax_ps', '_mm256_hmax_pd', '_mm_hmin_ps', '_mm_hmin_pd', '_mm256_hmin_ps', '_mm256_hmin_pd', '_mm_sum_ps', '_mm_sum_pd', '_mm_prod_ps', '_mm_prod_pd', '_mm256_sum_ps', '_mm256_sum_pd', '_mm256_prod_ps', '_mm256_prod_pd']
# sha1[:12] of the normalised body text and the immediates the model (Model/Horizontal.lean) and the theorems
# (hmax_ps_correct ... hprod256_pd_tree) were written for
HEXPECT = {
    '_mm_reverse_ps': ('c53a58af73e4', [27]),
    '_mm_reverse_pd': ('7baaae9a8632', [1]),
    '_mm256_reverse_pd': ('7dd3671c19f6', [1, 5]),
    '_mm_hmax_ps': ('b53b570659d9', [1]),
    '_mm_hmax_pd': ('1c5063cbee7c', []),
    '_mm256_hmax_ps': ('8909aa8d341e', [1, 1, 1]),
    '_mm256_hmax_pd': ('01445fcc01b5', [1]),
    '_mm_hmin_ps': ('f68fe487d97b', [1]),
    '_mm_hmin_pd': ('39d983e9fa6d', []),
    '_mm256_hmin_ps': ('4c7c11a8fd09', [1, 1, 1]),
    '_mm256_hmin_pd': ('42963aa7b55e', [1]),
    '_mm_sum_ps': ('758d1d6b12be', [245]),
    '_mm_sum_pd': ('1613d4b68f42', []),
    '_mm_prod_ps': ('d52857a4ca6d', [245]),
    '_mm_prod_pd': ('f7a5b7274ab5', []),
    '_mm256_sum_ps': ('8d271ed972eb', [1, 1]),
    '_mm256_sum_pd': ('c9aa6a235ddb', [5, 1]),
    '_mm256_prod_ps': ('2546cbd360bc', [1]),
    '_mm256_prod_pd': ('c1576bd842ac', [5, 1]),
}

def extract_helpers():
    """body text of each straight-line helper (last definition in the file), comments and white space removed, the
    shuffle immediates replaced by '#' and returned separately"""
    import hashlib
    src = open(os.path.join(core.REPO, "Fastor/simd_vector/extintrin.h")).read()
    out = {}
    for fn in HFUNCS:
        ms = list(re.finditer(r"FASTOR_INLINE\s+\w+\s+%s\(([^)]*)\)\s*\{(.*?)\n\}" % re.escape(fn), src, re.S))
        if not ms:
            out[fn] = {"sha": "missing", "imms": []}; continue
        body = ms[-1].group(2)
        body = re.sub(r"//[^\n]*", "", body)
        body = re.sub(r"/\*.*?\*/", "", body, flags=re.S)
        body = re.sub(r"\s+", "", body)
        imms = []
        def sh(m):
            z, y, x, w = (int(g) for g in m.groups()); imms.append(z * 64 + y * 16 + x * 4 + w); return "#"
        body = re.sub(r"_MM_SHUFFLE\((\d),(\d),(\d),(\d)\)", sh, body)
        def lit(m):
            imms.append(int(m.group(1), 0)); return ",#)"
        body = re.sub(r",(0x[0-9a-fA-F]+|\d+)\)", lit, body)
        out[fn] = {"sha": hashlib.sha1(body.encode()).hexdigest()[:12], "imms": imms}
    return out

# helper -> (source functions it is built from, how the model's immediate list is assembled from theirs)
HSTEPS = {
    "hmax_ps": (["_mm_hmax_ps", "_mm_reverse_ps"], lambda h: h["_mm_reverse_ps"] + h["_mm_hmax_ps"]),
    "hmin_ps": (["_mm_hmin_ps", "_mm_reverse_ps"], lambda h: h["_mm_reverse_ps"] + h["_mm_hmin_ps"]),
    "hmax_pd": (["_mm_hmax_pd", "_mm_reverse_pd"], lambda h: h["_mm_reverse_pd"]),
    "hmin_pd": (["_mm_hmin_pd", "_mm_reverse_pd"], lambda h: h["_mm_reverse_pd"]),
    "sum_ps": (["_mm_sum_ps"], lambda h: h["_mm_sum_ps"]),
    "prod_ps": (["_mm_prod_ps"], lambda h: h["_mm_prod_ps"]),
    "sum_pd": (["_mm_sum_pd"], lambda h: []),
    "prod_pd": (["_mm_prod_pd"], lambda h: []),
    "hmax256_ps": (["_mm256_hmax_ps", "_mm_reverse_ps"], lambda h: h["_mm_reverse_ps"] + h["_mm256_hmax_ps"]),
    "hmin256_ps": (["_mm256_hmin_ps", "_mm_reverse_ps"], lambda h: h["_mm_reverse_ps"] + h["_mm256_hmin_ps"]),
    "hmax256_pd": (["_mm256_hmax_pd", "_mm256_reverse_pd"], lambda h: h["_mm256_reverse_pd"] + h["_mm256_hmax_pd"]),
    "hmin256_pd": (["_mm256_hmin_pd", "_mm256_reverse_pd"], lambda h: h["_mm256_reverse_pd"] + h["_mm256_hmin_pd"]),
    "sum256_ps": (["_mm256_sum_ps", "_mm_sum_ps"], lambda h: h["_mm_sum_ps"] + h["_mm256_sum_ps"][1:2]),
    "prod256_ps": (["_mm256_prod_ps", "_mm_prod_ps"], lambda h: h["_mm_prod_ps"] + h["_mm256_prod_ps"]),
    "sum256_pd": (["_mm256_sum_pd"], lambda h: h["_mm256_sum_pd"]),
    "prod256_pd": (["_mm256_prod_pd"], lambda h: h["_mm256_prod_pd"]),
}

def hstep_group(isa, ds):
    got = extract_helpers()
    calls = []
    for name, (deps, mk) in HSTEPS.items():
        if "256" in name and isa in ("sse2", "sse42"):
            continue
        st = "ok" if all(got[d]["sha"] == HEXPECT[d][0] for d in deps) else "changed"
        ims = "theorem" if all(got[d]["imms"] == HEXPECT[d][1] for d in deps) else "changed"
        try:
            imm = ",".join(str(v) for v in mk({d: got[d]["imms"] for d in deps}))
        except Exception:
            imm = ""
        calls.append('hs_%s("%s", "%s", "%s", %du);' % (name, imm, st, ims, ds))
    return {"key": "%s/hstep" % isa, "header": "reduce_hstep.h", "isa": isa, "opt": "-O2", "calls": calls}

def _filtered(fn):
    """developer aid for the mutation self-test: C16_FILTER=<regex on group keys> runs a subset of the same groups"""
    flt = os.environ.get("C16_FILTER")
    if not flt:
        return fn
    return lambda tier, seed: [g for g in fn(tier, seed) if re.search(flt, g["key"])]

def ofail_key(f):
    """violation keys for the two recorded defects; everything else keeps the default key"""
    inp, impl = f["input"], f["impl"]
    if inp.startswith("pred ") and "what=none" in inp and "pattern=equals-any_of" in impl:
        return "F5 none_of returns any_of: " + inp
    if inp.startswith("detqr ") and "sgn=neg" in inp and "REL=abs" in impl:
        return "QRSIGN determinant<QR> returns |det|: " + inp
    return None

def static_coverage(tier, seed):
    """what the generated box contains: per (isa, element size) the sizes per entry point, the residues n mod V hit, the
    unroll-ladder stages entered, the helper functions and the ISAs / element types of the real-type runs"""
    cov = {}
    for g in _filtered(sym_groups)(tier, seed):
        if g["header"] != "reduce_sym.h":
            continue
        isa, szs = g["key"].split("/"); sz = int(szs[2:]); V = lanes(isa, sz)
        kinds = {}
        for c in g["calls"]:
            m = re.match(r"RED_CASE\(Sym\d, (\d+), (\w+),", c) or re.match(r"rs::run_(inner)<Sym\d,(\d+),", c)
            if not m:
                continue
            n, k = (int(m.group(1)), m.group(2)) if c.startswith("RED") else (int(m.group(2)), "INNER")
            kinds.setdefault(k, set()).add(n)
        allsizes = set().union(*kinds.values()) if kinds else set()
        stages = sorted(set(u for n in kinds.get("NORM", ()) for u in ((8, 4, 2, 1) if isa == "avx512" else (4, 2, 1)) if n >= u * V))
        cov[g["key"]] = {"V": V, "sizes_per_kind": {k: len(v) for k, v in kinds.items()}, "max_size": max(allsizes) if allsizes else 0,
                         "residues_mod_V_hit": len(set(n % V for n in allsizes)), "residues_mod_V_total": V,
                         "norm_ladder_stages_entered": stages,
                         "single_vs_ladder_overloads": {"norm_single": sum(1 for n in kinds.get("NORM", ()) if n <= 4 * V),
                                                        "norm_ladder": sum(1 for n in kinds.get("NORM", ()) if n > 8 * V),
                                                        "inner_single": sum(1 for n in kinds.get("INNER", ()) if n <= 4 * V),
                                                        "inner_ladder": sum(1 for n in kinds.get("INNER", ()) if n > 4 * V)}}
    return cov

def run(tier, seed):
    seeds = extract_seeds()
    return flow.standard_run(
        PID, tier, seed, "Fastor.C16.reduce_correct", "FastorModel.Model.Reduce", _filtered(sym_groups), _filtered(real_groups),
        assumptions=["vector primitives of the model are lane-wise by definition (real SIMDVector specialisations: C08; expression eval: C02 lanes_of_evalV)",
                     "the symbolic carrier's SIMDVector is the ideal lane-wise vector of harness/common/simd_sym.h; the real horizontal "
                     "sum/product/minimum/maximum of each (T,ABI) are exercised by the real-type value runs only",
                     "integer-valued data for the exact real-type runs; integer arithmetic wraps",
                     "determinant<LU> / Simple for n>4 only on matrices for which the statically pre-pivoted LU exists (diagonally dominant and their row permutations)",
                     "floating-point error bounds are measured (fbound lines), not proved",
                     "the float/double SSE and AVX horizontal helpers of extintrin.h are modelled (Model/Horizontal.lean) with the shuffle immediates read from the source; "
                     "the integer, AVX-512 (_mm512_reduce_*) and generic-vector horizontal steps are value-tested lane by lane (hvec lines) only",
                     "seeds read from the source (X1): min -> %s, max -> %s" % (seeds["min"], seeds["max"])],
        rule="symbolic cases: (cfg, sizeof T, kind, n, expression) instantiations of the real sum/product/Tensor::sum/Tensor::product/norm/inner/trace/determinant "
             "templates over the exact polynomial carrier, compared with the Lean model on value, width, ordered vector loads, tail read set, read sets; "
             "minmax cases: (cfg, T, op, form, seed, data vector) on the real element types compared with the model's result; pred: all 2^n masks; "
             "non-trivial = the vector body runs at least once or the case is a min/max/predicate/determinant case",
        nontrivial=lambda inp, mo: ("LV=0" not in mo) or not inp.startswith("reduce") or "k=det" in inp,
        extra_cov={"seeds_from_source": seeds, "box": static_coverage(tier, seed),
                   "horizontal_helpers": {k: v for k, v in extract_helpers().items()}},
        ofail_key=ofail_key, per_tu=60)

def sym_call_of(inp):
    d = symrun.kv(inp)
    cmd = inp.split()[0]
    if cmd == "reduce":
        T = "Sym%s" % d["sz"]; n = d["n"]; k = d["k"]
        enc = d.get("E", "t1")
        txt = dict((e, t) for e, t, _ in EXPRS).get(enc, "A")
        if k == "inner":
            mode = {("t1", "t2"): 0, ("t1_t3_add", "t2"): 1, ("t1", "t2_t3_mul"): 2, ("t1_t3_add", "t2_t3_sub"): 3}[(enc, d["F"])]
            call = "rs::run_inner<%s,%s,%d>();" % (T, n, mode)
        elif k == "trace":
            call = 'TRACE_CASE(%s, %s, "%s", %s);' % (T, n, enc, txt)
        elif k == "det":
            call = "rs::run_det<%s,%s>();" % (T, n)
        else:
            call = 'RED_CASE(%s, %s, %s, "%s", %s);' % (T, n, k.upper(), enc, txt)
        return {"key": "replay", "header": "reduce_sym.h", "isa": d["cfg"], "calls": [call]}
    if cmd == "minmax":
        t = {"int32": "int32_t", "int64": "int64_t"}.get(d["T"], d["T"])
        seeds = extract_seeds()
        n = len(d["x"].split(","))
        pre = "#define C16_REPLAY_X \"%s\"\n" % d["x"]
        call = 'rr::replay_minmax<%s,%d>("%s", %d, %s, C16_REPLAY_X);' % (t, n, d["seed"], 0 if d["k"] == "min" else 1, d["form"])
        return {"key": "replay", "header": "reduce_real.h", "isa": d["cfg"], "opt": "-O2", "calls": [call], "pre": pre}
    if cmd == "pred":
        return {"key": "replay", "header": "reduce_real.h", "isa": d["cfg"], "opt": "-O2",
                "calls": ["rr::run_pred<%s,%d>();" % (d["n"], 1 if d["form"] == "expr" else 0)]}
    if cmd == "detqr":
        if d["T"] == "rat":
            call = "rr::run_detqr_rat<%s>(%su);" % (d["n"], d["ds"])
        else:
            call = "rr::run_detqr_real<%s,%s>(%su);" % (d["T"], d["n"], d["ds"])
        return {"key": "replay", "header": "reduce_real.h", "isa": d["cfg"], "opt": "-O2", "calls": [call]}
    if cmd == "hstep":
        return {"key": "replay", "header": "reduce_hstep.h", "isa": d["cfg"], "opt": "-O2",
                "calls": ['hs_%s("%s", "%s", "%s", %su);' % (d["fn"], d.get("imm", ""), d["struct"], d["imms"], d["ds"])]}
    raise ValueError("cannot rebuild " + inp)

def replay(path):
    """re-run the stored case; a call that prints several cases (pred, detqr, hstep, minmax groups) is judged on the
    stored input line only, so that the lines of the two known findings do not decide an unrelated replay"""
    import json
    obj = json.load(open(path))
    kind = obj.get("kind")
    if kind not in ("sym-oracle", "correspondence"):
        return flow.standard_replay(path, sym_call_of)
    print(json.dumps(obj, indent=1)[:3000])
    first = obj if kind == "sym-oracle" else obj["first"]
    want = first["input"].strip()
    with core.Scratch() as wd:
        res = symrun.run_groups([sym_call_of(want)], wd, verbose=True)
        for r in res:
            if r["res"]["rc_compile"]:
                print(r["res"]["compile_out"][-2000:]); return 1
            keep = [l for l in r["res"]["out"].split("\n") if "|" in l and l.split("|", 1)[0].strip() == want]
            if keep:
                r["res"]["out"] = "\n".join(keep) + "\n"
            print(r["res"]["out"])
        n, mism, ofail, infra, lines = symrun.compare_with_model(res, None)
        for l in lines:
            print("model:", l[2])
        return 1 if (mism or ofail or infra or n == 0) else 0
