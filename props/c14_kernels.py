"""C14, tie X2: translate the straight-line intrinsic transposition kernels of
Fastor/backend/transpose/transpose.h and transpose_kernels.h (as selected by the conditional compilation of each
ISA configuration) into Lean definitions over the lane semantics of Model/Intrinsics.lean, together with the
theorems "the stores leave exactly the transposed matrix in out[0..n*n), touch nothing else, and every load is
inside a[0..n*n)", each proved by evaluation (`rfl` / `decide`) for an arbitrary element type.

The translation is re-done from the current tree on every run and compared with the committed snapshot
lean/FastorModel/Generated/C14Kernels.lean; if the text differs the fresh file is checked on its own."""
import os, re, subprocess, hashlib

CFGS = ["sse2", "avx", "avx2", "avx512"]
KERNELS = [("float", 2), ("float", 3), ("float", 4), ("float", 8), ("float", 16),
           ("double", 2), ("double", 3), ("double", 4), ("double", 8)]
HELPERS = ["_MM_TRANSPOSE4_PD", "_MM_TRANSPOSE8_PS", "_MM_TRANSPOSE8_PD"]


class Untranslatable(Exception):
    pass


def defined_macros(repo, flags):
    p = subprocess.run(["g++", "-std=c++14", "-dM", "-E", "-x", "c++"] + flags + ["-I" + repo, "-"],
                       input='#include "Fastor/config/config.h"\n', stdout=subprocess.PIPE, stderr=subprocess.PIPE, text=True)
    if p.returncode != 0:
        raise Untranslatable("cannot preprocess config.h: " + p.stderr[-300:])
    return set(m.group(1) for m in re.finditer(r"^#define (\w+)", p.stdout, flags=re.M))


def strip_comments(s):
    s = re.sub(r"/\*.*?\*/", " ", s, flags=re.S)
    return re.sub(r"//[^\n]*", "", s)


def cond_value(expr, defined):
    e = re.sub(r"defined\s*\(\s*(\w+)\s*\)", lambda m: " True " if m.group(1) in defined else " False ", expr)
    e = re.sub(r"defined\s+(\w+)", lambda m: " True " if m.group(1) in defined else " False ", e)
    e = e.replace("&&", " and ").replace("||", " or ").replace("!", " not ")
    if not re.fullmatch(r"[\sA-Za-z0-9()]*", e):
        raise Untranslatable("condition " + expr)
    e = re.sub(r"\b(?!True\b|False\b|and\b|or\b|not\b)([A-Za-z_]\w*)\b", "False", e)
    return bool(eval(e))


def preprocess(text, defined):
    """resolve #if/#ifdef/#ifndef/#elif/#else/#endif; drop the other directives"""
    out = []; stack = []   # entries: [parent_active, taken_already, active_now]
    for line in text.split("\n"):
        s = line.strip()
        if s.startswith("#"):
            d = s[1:].strip()
            act = all(f[2] for f in stack)
            if d.startswith("ifdef"):
                v = d.split()[1] in defined; stack.append([act, v, v])
            elif d.startswith("ifndef"):
                v = d.split()[1] not in defined; stack.append([act, v, v])
            elif d.startswith("if"):
                v = cond_value(d[2:], defined); stack.append([act, v, v])
            elif d.startswith("elif"):
                f = stack[-1]
                if f[1]: f[2] = False
                else:
                    v = cond_value(d[4:], defined); f[1] = v; f[2] = v
            elif d.startswith("else"):
                f = stack[-1]; f[2] = not f[1]; f[1] = True
            elif d.startswith("endif"):
                stack.pop()
            continue
        if all(f[2] for f in stack):
            out.append(line)
    return "\n".join(out)


def body_after(text, start):
    i = text.index("{", start); depth = 0; j = i
    while True:
        if text[j] == "{": depth += 1
        elif text[j] == "}":
            depth -= 1
            if depth == 0:
                return text[i + 1:j]
        j += 1


def find_function(text, pattern):
    """returns (parameter text, body) of the first definition matching the regex `pattern` (which ends before '(')"""
    m = re.search(pattern + r"\s*\(([^)]*)\)\s*\{", text)
    if not m:
        return None
    return m.group(1), body_after(text, m.end() - 1)


TOK = re.compile(r"\s*(0[xX][0-9a-fA-F]+|\d+|[A-Za-z_][\w:]*|<<|[()\[\]{},+*&<>=|])")

def tokenize(s):
    toks = []; i = 0; s = s.strip()
    while i < len(s):
        m = TOK.match(s, i)
        if not m:
            raise Untranslatable("token at: " + s[i:i + 30])
        toks.append(m.group(1)); i = m.end()
    return toks


REG_TYPES = {"__m128", "__m128d", "__m128i", "__m256", "__m256d", "__m256i", "__m512", "__m512d", "__m512i"}
TYPE_WORDS = REG_TYPES | {"const", "int", "constexpr", "FASTOR_ARCH_ALIGN", "int64_t", "int32_t", "size_t"}


class Kernel:
    def __init__(self, name, elem, n, src, dst):
        self.name = name; self.w = 2 if elem == "float" else 1
        self.n = n; self.src = src; self.dst = dst
        self.ints = {}; self.tables = {}; self.regs = set()
        self.lines = []; self.reads = []; self.nstore = 0

    # ---- expressions
    def parse(self, toks):
        self.t = toks; self.p = 0
        e = self.expr()
        if self.p != len(self.t):
            raise Untranslatable("trailing tokens " + " ".join(self.t[self.p:]))
        return e

    def peek(self): return self.t[self.p] if self.p < len(self.t) else None
    def eat(self, x=None):
        tk = self.peek()
        if x is not None and tk != x: raise Untranslatable("expected %s got %s" % (x, tk))
        self.p += 1; return tk

    def expr(self):           # | << + *  (integers and pointer arithmetic)
        v = self.add()
        while self.peek() == "|":
            self.eat(); r = self.add(); v = ("int", self.ival(v) | self.ival(r))
        return v
    def add(self):
        v = self.shift()
        while self.peek() == "+":
            self.eat(); r = self.shift()
            if v[0] == "ptr": v = ("ptr", v[1], v[2] + self.ival(r))
            elif r[0] == "ptr": v = ("ptr", r[1], r[2] + self.ival(v))
            else: v = ("int", self.ival(v) + self.ival(r))
        return v
    def shift(self):
        v = self.mul()
        while self.peek() == "<<":
            self.eat(); r = self.mul(); v = ("int", self.ival(v) << self.ival(r))
        return v
    def mul(self):
        v = self.term()
        while self.peek() == "*":
            self.eat(); r = self.term(); v = ("int", self.ival(v) * self.ival(r))
        return v
    def ival(self, v):
        if v[0] != "int": raise Untranslatable("integer expected: %r" % (v,))
        return v[1]

    def term(self):
        tk = self.peek()
        if tk is None: raise Untranslatable("unexpected end")
        if re.fullmatch(r"0[xX][0-9a-fA-F]+|\d+", tk):
            self.eat(); return ("int", int(tk, 0))
        if tk == "&":
            self.eat(); base = self.eat(); self.eat("["); off = self.expr(); self.eat("]")
            return ("ptr", base, self.ival(off))
        if tk == "(":
            # cast or parenthesis
            j = self.p + 1; depth = 1
            while depth:
                if self.t[j] == "(": depth += 1
                if self.t[j] == ")": depth -= 1
                j += 1
            inner = self.t[self.p + 1:j - 1]
            if inner and all(x in TYPE_WORDS or x in ("*", "__mmask8", "__mmask16", "__m64", "double", "float") for x in inner):
                self.p = j; return self.term()
            self.eat("("); v = self.expr(); self.eat(")"); return v
        if tk == "reinterpret_cast":
            self.eat(); self.eat("<")
            while self.peek() != ">": self.eat()
            self.eat(">"); self.eat("("); v = self.expr(); self.eat(")"); return v
        name = self.eat().replace("internal::", "")
        if self.peek() == "(":
            self.eat("("); args = []
            if self.peek() != ")":
                args.append(self.expr())
                while self.peek() == ",":
                    self.eat(); args.append(self.expr())
            self.eat(")")
            return self.call(name, args)
        if name in (self.src, self.dst): return ("ptr", name, 0)
        if name in self.ints: return ("int", self.ints[name])
        if name in self.tables: return ("idx", self.tables[name])
        if name in self.regs: return ("reg", "v_" + name)
        raise Untranslatable("unknown name " + name)

    def reg(self, v):
        if v[0] != "reg": raise Untranslatable("register expected: %r" % (v,))
        return v[1]
    def idx(self, v):
        if v[0] != "idx": raise Untranslatable("index table expected: %r" % (v,))
        return "[" + ", ".join(map(str, v[1])) + "]"
    def srcptr(self, v, n):
        if v[0] != "ptr" or v[1] != self.src: raise Untranslatable("load from non-source %r" % (v,))
        self.reads += list(range(v[2], v[2] + n)); return v[2]

    def call(self, f, a):
        R = self.reg; I = self.ival; w = self.w
        def r(s): return ("reg", "(" + s + ")")
        loads = {"_mm_loadu_ps": 4, "_mm_loadu_pd": 2, "_mm256_loadu_ps": 8, "_mm256_loadu_pd": 4, "_mm512_loadu_ps": 16, "_mm512_loadu_pd": 8}
        if f in loads: return r("Intr.load a %d %d" % (self.srcptr(a[0], loads[f]), loads[f]))
        if f == "_mm_load_ss": return r("Intr.load_ss z a %d" % self.srcptr(a[0], 1))
        if f == "_mm_load_sd": return r("Intr.load_sd z a %d" % self.srcptr(a[0], 1))
        if f == "_mm_loadl_pi": return r("Intr.loadl_pi z %s a %d" % (R(a[0]), self.srcptr(a[1], 2)))
        if f == "_mm_setzero_ps": return r("Intr.setzero z 4")
        if f == "_MM_SHUFFLE": return ("int", (I(a[0]) << 6) | (I(a[1]) << 4) | (I(a[2]) << 2) | I(a[3]))
        two = {"_mm_unpacklo_ps": "unpacklo_ps", "_mm_unpackhi_ps": "unpackhi_ps", "_mm_movelh_ps": "movelh_ps", "_mm_movehl_ps": "movehl_ps",
               "_mm256_unpacklo_ps": "unpacklo_ps256", "_mm256_unpackhi_ps": "unpackhi_ps256"}
        if f in two: return r("Intr.%s z %s %s" % (two[f], R(a[0]), R(a[1])))
        imm3 = {"_mm_shuffle_ps": "shuffle_ps", "_mm_shuffle_pd": "shuffle_pd", "_mm256_shuffle_ps": "shuffle_ps256", "_mm256_shuffle_pd": "shuffle_pd256",
                "_mm256_insertf128_pd": "insertf128_pd"}
        if f in imm3: return r("Intr.%s z %s %s %d" % (imm3[f], R(a[0]), R(a[1]), I(a[2])))
        if f == "_mm256_permute2f128_ps": return r("Intr.permute2f128 z %s %s %d 4" % (R(a[0]), R(a[1]), I(a[2])))
        if f == "_mm256_permute2f128_pd": return r("Intr.permute2f128 z %s %s %d 2" % (R(a[0]), R(a[1]), I(a[2])))
        if f in ("_mm256_setr_epi32", "_mm512_setr_epi32", "_mm512_setr_epi64"): return ("idx", [I(x) for x in a])
        if f in ("_mm512_load_epi64", "_mm512_load_epi32"): return ("idx", a[0][1]) if a[0][0] == "idx" else self.idx(a[0])
        if f == "_mm256_permutevar8x32_ps": return r("Intr.permutevar8x32 z %s %s" % (R(a[0]), self.idx(a[1])))
        if f == "_mm256_castpd256_pd128": return r("Intr.cast256_128 %s" % R(a[0]))
        if f == "_mm256_extractf128_pd": return r("Intr.extractf128_pd z %s %d" % (R(a[0]), I(a[1])))
        if f == "_mm256_castpd128_pd256": return r("Intr.cast128_256 z %s" % R(a[0]))
        if f == "_mm512_permutexvar_ps": return r("Intr.permutexvar z %s %s" % (self.idx(a[0]), R(a[1])))
        if f == "_mm512_permutexvar_pd": return r("Intr.permutexvar_pd z %s %s %d" % (self.idx(a[0]), R(a[1]), w))
        if f == "_mm512_permutex2var_pd": return r("Intr.permutex2var_pd z %s %s %s %d" % (R(a[0]), self.idx(a[1]), R(a[2]), w))
        if f == "_mm512_insertf64x4": return r("Intr.insert256 z %s %s %d %d" % (R(a[0]), R(a[1]), I(a[2]), 4 * w))
        if f == "_mm512_castpd512_pd256": return r("Intr.cast512_256 %s %d" % (R(a[0]), 4 * w))
        if f == "_mm512_insertf32x8": return r("Intr.insert256 z %s %s %d 8" % (R(a[0]), R(a[1]), I(a[2])))
        if f == "_mm512_castps256_ps512": return r("Intr.cast256_512 z %s 8" % R(a[0]))
        if f in ("_mm512_castpd_ps", "_mm512_castps_pd"): return a[0]
        if f == "_mm512_mask_permutexvar_pd":
            return r("Intr.mask_permutexvar_pd z %s %d %s %s %d" % (R(a[0]), I(a[1]), self.idx(a[2]), R(a[3]), w))
        if f == "_mm512_mask_permutexvar_ps":
            return r("Intr.mask_permutexvar_ps z %s %d %s %s" % (R(a[0]), I(a[1]), self.idx(a[2]), R(a[3])))
        raise Untranslatable("intrinsic " + f)

    # ---- statements
    def bind(self, name, v):
        if v[0] == "int": self.ints[name] = v[1]
        elif v[0] == "idx": self.tables[name] = v[1]
        elif v[0] == "reg":
            self.lines.append("  let v_%s := %s" % (name, v[1])); self.regs.add(name)
        else: raise Untranslatable("cannot bind %s to %r" % (name, v))

    def store(self, ptr, n, reg):
        if ptr[0] != "ptr" or ptr[1] != self.dst: raise Untranslatable("store to non-destination %r" % (ptr,))
        self.lines.append("  let s%d := s%d ++ Intr.store z %d %d %s" % (self.nstore + 1, self.nstore, ptr[2], n, self.reg(reg)))
        self.nstore += 1

    def statement(self, st, helpers):
        toks = tokenize(st)
        if not toks: return
        # table:  [FASTOR_ARCH_ALIGN] constexpr intNN_t name [ k ] = { ... }
        if "{" in toks and "=" in toks:
            eq = toks.index("="); name = toks[toks.index("[") - 1]
            vals = [int(x, 0) for x in toks[eq + 1:] if re.fullmatch(r"0[xX][0-9a-fA-F]+|\d+", x)]
            self.tables[name] = vals; return
        stores = {"_mm_storeu_ps": 4, "_mm_storeu_pd": 2, "_mm256_storeu_ps": 8, "_mm256_storeu_pd": 4, "_mm512_storeu_ps": 16, "_mm512_storeu_pd": 8,
                  "_mm_store_ss": 1, "_mm_store_sd": 1, "_mm_storel_pi": 2}
        head = toks[0].replace("internal::", "")
        if head in stores and toks[1] == "(":
            self.t = toks; self.p = 2
            ptr = self.expr(); self.eat(","); reg = self.expr(); self.eat(")")
            self.store(ptr, stores[head], reg); return
        if head == "_MM_TRANSPOSE4_PS" or head in helpers:
            args = [x for x in toks[2:-1] if x != ","]
            for x in args:
                if x not in self.regs: raise Untranslatable("helper argument " + x)
            fn = "Intr.MM_TRANSPOSE4_PS z" if head == "_MM_TRANSPOSE4_PS" else "%s z" % helpers[head]
            self.lines.append("  let (%s) := %s %s" % (", ".join("v_" + x for x in args), fn, " ".join("v_" + x for x in args)))
            return
        if "=" in toks:
            eq = toks.index("="); lhs = toks[:eq]; name = lhs[-1]
            self.bind(name, self.parse(toks[eq + 1:])); return
        if all(x in TYPE_WORDS or x == "," or re.fullmatch(r"[A-Za-z_]\w*", x) for x in toks) and toks[0] in TYPE_WORDS:
            return    # declaration without initialiser
        raise Untranslatable("statement: " + st.strip()[:80])


def split_statements(body):
    body = body.replace("{", " ").replace("}", " ; ")
    # a table initialiser contains braces: protect it first
    return [s for s in body.split(";") if s.strip()]


def split_body(body):
    """statements of a body; `{ … }` blocks are flattened, table initialisers `= { … }` kept whole"""
    out = []; cur = ""; depth_init = 0; i = 0
    while i < len(body):
        c = body[i]
        if c == "{":
            if cur.rstrip().endswith("="):
                j = body.index("}", i); cur += body[i:j + 1]; i = j + 1; continue
            i += 1; continue
        if c == "}":
            i += 1; continue
        if c == ";":
            if cur.strip(): out.append(cur)
            cur = ""; i += 1; continue
        cur += c; i += 1
    if cur.strip(): out.append(cur)
    return out


def translate_helper(text, hname, lname, elem):
    got = find_function(text, r"void\s+" + hname)
    if not got: return None
    params, body = got
    names = [p.split("&")[-1].strip() for p in params.split(",")]
    k = Kernel(lname, elem, 0, "_none", "_none")
    k.regs |= set(names)
    for st in split_body(body):
        k.statement(st, {})
    ret = "(" + ", ".join("v_" + n for n in names) + ")"
    ty = " × ".join(["List α"] * len(names))
    return ("def %s {α : Type} (z : α) %s : %s :=\n%s\n  %s\n" %
            (lname, " ".join("(v_%s : List α)" % n for n in names), ty, "\n".join(k.lines), ret))


def translate_kernel(text, elem, n, cfg, helpers):
    lname = "k_%s%d_%s" % (elem, n, cfg)
    got = find_function(text, r"void\s+_transpose<%s,%d,%d>" % (elem, n, n))
    if not got: return None
    params, body = got
    src, dst = "a", "out"
    m = re.fullmatch(r"\s*(?:internal::)?(_MM_TRANSPOSE16_PS)\s*\(\s*a\s*,\s*out\s*\)\s*;?\s*", body)
    if m:
        got2 = find_function(text, r"void\s+_MM_TRANSPOSE16_PS")
        if not got2: raise Untranslatable("_MM_TRANSPOSE16_PS not found")
        body = got2[1]; src, dst = "mat", "matT"
    k = Kernel(lname, elem, n, src, dst)
    k.lines.append("  let s0 : List (Nat × α) := []")
    for st in split_body(body):
        k.statement(st, helpers)
    k.lines.append("  s%d" % k.nstore)
    nn = n * n
    out = ["def %s {α : Type} (z : α) (a : Nat → α) : List (Nat × α) :=\n%s\n" % (lname, "\n".join(k.lines)),
           "def %s_reads : List Nat := [%s]\n" % (lname, ", ".join(map(str, k.reads))),
           "/-- `_transpose<%s,%d,%d>` under %s, run on lane tokens (cell `k` of the source holds the token `k`, a zeroed lane holds `%d`):\n    the stores leave exactly the transposed matrix in `out[0..%d)`.  The kernel is one polymorphic definition that only\n    moves lanes, so its lane map does not depend on the element type. -/" % (elem, n, n, cfg, nn, nn),
           "theorem %s_correct : Intr.finalCells (%s %d id) %d = Intr.transposed id %d := by decide\n" % (lname, lname, nn, nn, n),
           "theorem %s_stores_inside : Intr.allBelow ((%s %d id).map (·.1)) %d = true := by decide\n" % (lname, lname, nn, nn),
           "theorem %s_reads_inside : Intr.allBelow %s_reads %d = true := by decide\n" % (lname, lname, nn)]
    return lname, "\n".join(out)


def generate(repo, isa_flags):
    """returns (lean text, list of kernel names, list of problems)"""
    src = strip_comments(open(os.path.join(repo, "Fastor/backend/transpose/transpose_kernels.h")).read()) + "\n" + \
          strip_comments(open(os.path.join(repo, "Fastor/backend/transpose/transpose.h")).read())
    parts = ["import FastorModel.Model.Intrinsics",
             "/-  GENERATED by props/c14_kernels.py from Fastor/backend/transpose/{transpose.h,transpose_kernels.h} — do not edit.",
             "    One definition per intrinsic transposition kernel and ISA configuration (conditional compilation resolved with",
             "    the macros config.h defines under that configuration's compiler flags), statement by statement. -/",
             "set_option maxRecDepth 100000", "namespace Fastor.C14K", "open Fastor", ""]
    names = []; problems = []; seen = {}
    for cfg in CFGS:
        try:
            text = preprocess(src, defined_macros(repo, isa_flags[cfg]))
        except Untranslatable as e:
            problems.append("%s: %s" % (cfg, e)); continue
        helpers = {}
        for h in HELPERS:
            elem = "double" if h.endswith("PD") else "float"
            try:
                lean = translate_helper(text, h, "h%s_%s" % (h, cfg), elem)
            except Untranslatable as e:
                problems.append("%s %s: %s" % (cfg, h, e)); continue
            if lean:
                helpers[h] = "h%s_%s" % (h, cfg); parts.append(lean)
        for (elem, n) in KERNELS:
            try:
                got = translate_kernel(text, elem, n, cfg, helpers)
            except Untranslatable as e:
                problems.append("%s _transpose<%s,%d,%d>: %s" % (cfg, elem, n, n, e)); continue
            if got:
                names.append(got[0]); parts.append(got[1])
    if names:
        parts.append("/-- every translated kernel, under every configuration, realises the transposition lane map, stores only\n"
                     "    inside the result and loads only inside the source -/")
        parts.append("def AllKernels : Prop :=\n    " + " ∧\n    ".join(
            "(Intr.finalCells (%s %d id) %d = Intr.transposed id %d ∧ Intr.allBelow ((%s %d id).map (·.1)) %d = true ∧ Intr.allBelow %s_reads %d = true)"
            % (nm, nn, nn, n, nm, nn, nn, nm, nn) for nm, n, nn in [(x, int(re.search(r"(\d+)_", x).group(1)), int(re.search(r"(\d+)_", x).group(1)) ** 2) for x in names]) + "\n\ntheorem all_kernels : AllKernels :=\n  ⟨" +
            ", ".join("⟨%s_correct, %s_stores_inside, %s_reads_inside⟩" % (x, x, x) for x in names) + "⟩\n")
    parts.append("end Fastor.C14K\n")
    return "\n".join(parts), names, problems


SNAPSHOT = os.path.join("FastorModel", "Generated", "C14Kernels.lean")

def check_against_snapshot(repo, isa_flags, lean_dir, scratch):
    """re-translate from `repo`; returns dict(status, kernels, problems, failed) where status is
    'identical' (the committed, proved snapshot is the translation of the current tree), 'changed-proved',
    'changed-failed' (some kernel theorem no longer holds) or 'untranslatable'"""
    text, names, problems = generate(repo, isa_flags)
    res = {"kernels": names, "problems": problems, "failed": []}
    snap = open(os.path.join(lean_dir, SNAPSHOT)).read()
    if problems:
        res["status"] = "untranslatable"; return res
    if text == snap:
        res["status"] = "identical"; return res
    f = os.path.join(scratch, "C14KernelsFresh.lean")
    with open(f, "w") as fh:
        fh.write(text)
    p = subprocess.run(["lake", "env", "lean", f], cwd=lean_dir, stdout=subprocess.PIPE, stderr=subprocess.STDOUT, text=True, timeout=3600)
    lines = text.split("\n")
    failed = []
    for m in re.finditer(r"C14KernelsFresh\.lean:(\d+):\d+: error", p.stdout):
        ln = int(m.group(1))
        for k in range(ln - 1, -1, -1):
            mm = re.match(r"(?:theorem|def)\s+(\S+)", lines[k])
            if mm:
                if mm.group(1) not in failed: failed.append(mm.group(1))
                break
    res["failed"] = failed; res["output"] = p.stdout[-1500:]
    res["status"] = "changed-failed" if (p.returncode != 0 or failed) else "changed-proved"
    return res
