"""C20 — maps / reshapes are true aliases; layout conversions are exact inverses; constructors store row-major.
Proof: Props/C20.lean.  Ties: (K1) the real `tocolumnmajor` / `torowmajor` / constructors over the symbolic carrier on
ALL shapes of rank 1-4 with extents <= 4 (+ seeded rank 5): destination image, read order, store order vs the Lean
model and a plain-loop oracle; random operation sequences issued alternately through a map (TensorMap, reshape,
flatten, squeeze, raw misaligned buffer) and its source: buffer after every step (read back through the OTHER name)
vs the model's state machine and a plain-array oracle, store order, aligned-access counts (0 through maps);
(K4) real element types: maps over buffers at every misalignment 0..63 bytes, constructors, converters."""
import itertools, os, random, re
from vlib import core, symrun, flow

PID = "C20"
FN = {"tocm": 0, "torm": 1, "rtcr": 2, "rtrc": 3, "ptrcm": 4, "ptrrm": 5, "arrcm": 6, "arrrm": 7, "veccm": 8, "vecrm": 9}
KIND = {"map": 0, "reshape": 1, "flatten": 2, "squeeze": 3, "raw": 4}
NEXPR = 10
LAYOUT_TU, MAPOPS_TU, REAL_TU = 35, 12, 5        # calls per translation unit (each ~10 s of compile time)
READS_X = {2, 3, 4, 5, 6, 8, 9}          # expressions of the menu that read the destination itself

def prod(d):
    p = 1
    for x in d: p *= x
    return p

def all_shapes(maxrank, maxext):
    return [s for r in range(1, maxrank + 1) for s in itertools.product(range(1, maxext + 1), repeat=r)]

def factorisations(n, maxrank=4, maxext=8):
    """all shapes of rank 1..maxrank with product n (extents >= 1, <= max(n, maxext))"""
    out = set()
    def rec(rem, acc):
        if len(acc) >= 1 and rem == 1: out.add(tuple(acc))
        if len(acc) == maxrank: return
        for f in range(1, rem + 1):
            if rem % f == 0 and (f > 1 or acc.count(1) < 2):
                rec(rem // f, acc + [f])
    rec(n, [])
    return sorted(s for s in out if prod(s) == n)

def layout_call(sz, fn, src, dims):
    return "run_layout<Sym%d,%d,%d,%s>();" % (sz, FN[fn], 1 if src == "m" else 0, ",".join(map(str, dims)))

def nested(dims, k0=0):
    if len(dims) == 1:
        return "{" + ",".join("TK(%d)" % (k0 + i) for i in range(dims[0])) + "}", dims[0]
    parts = []; k = k0
    for _ in range(dims[0]):
        t, c = nested(dims[1:], k); parts.append(t); k += c
    return "{" + ",".join(parts) + "}", k - k0

def ilist_call(sz, dims):
    txt, _ = nested(list(dims))
    ds = ",".join(map(str, dims))
    return "run_ilist<Sym%d,%s>([](void* mem){ using T = Sym%d; return new (mem) Fastor::Tensor<T,%s>%s; });" % (sz, ds, sz, ds, txt)

def gen_ops(rng, sd, md, length, mask_ids):
    ops = []
    for k in range(length):
        via = "ms"[(k + rng.randint(0, 1)) % 2] if rng.random() < 0.8 else rng.choice("ms")
        dims = md if via == "m" else sd
        r = rng.random()
        if r < 0.14:
            p = rng.randrange(prod(dims)); idx = []
            for e in reversed(dims): idx.append(p % e); p //= e
            ops.append("%s:w:%s" % (via, ".".join(map(str, reversed(idx)))))
        elif r < 0.22: ops.append("%s:fill:0" % via)
        elif r < 0.36: ops.append("%s:%s:0" % (via, rng.choice(["sadd", "ssub", "smul"])))
        elif r < 0.70: ops.append("%s:%s:%d" % (via, rng.choice(["eset", "eset", "eadd", "esub", "emul"]), rng.choice(mask_ids)))
        elif r < 0.80: ops.append("%s:%s:0" % (via, rng.choice(["xset", "xadd", "xsub", "xmul"])))
        elif r < 0.88: ops.append("%s:cp:0" % via)
        else: ops.append("%s:rd:%d" % (via, rng.choice(mask_ids)))
    return ",".join(ops)

def mapops_call(sz, kind, mis, mask_ids, sd, md, ops):
    mask = 0
    for i in mask_ids: mask |= 1 << i
    return 'run_mapops<Sym%d,%d,%d,0x%x,IX<%s>,IX<%s>>("%s");' % (sz, KIND[kind], mis, mask, ",".join(map(str, sd)), ",".join(map(str, md)), ops)


def gen_wide_ops(rng, names, length):
    """names: the three shapes (0 owning, 1 map, 2 map).  Every op kind the shape admits."""
    ops = []
    for _ in range(length):
        k = rng.randrange(3); d = names[k]
        kinds = ["ss", "fill", "eadd", "wi", "vws", "vws", "vwt", "vwt", "red"]
        if len(d) == 2: kinds += ["mm", "mm", "mx"] + (["tr", "tr"] if d[0] == d[1] else [])
        kind = rng.choice(kinds)
        if kind == "wi":
            idx = [rng.randrange(-e, e) for e in d]
            ops.append("%d:wi:%s" % (k, ".".join(("n%d" % -i) if i < 0 else str(i) for i in idx)))
        elif kind in ("vws", "vwt"):
            axs = []
            for e in d:
                st = rng.choice([1, 1, 2, 3]); f = rng.randrange(e); ext = rng.randint(1, (e - 1 - f) // st + 1)
                axs.append("%d-%d-%d" % (f, st, ext))
            ops.append("%d:vw%s%s:%s" % (k, rng.choice(["set", "add", "sub", "mul"]), kind[2], ".".join(axs)))
        elif kind == "mm": ops.append("%d:mm%s:0" % (k, rng.choice(["set", "add", "sub", "mul"])))
        else: ops.append("%d:%s:0" % (k, kind))
    return ",".join(ops)

def mapwide_call(sz, sd, md, gd, ops):
    ix = lambda d: "IX<%s>" % ",".join(map(str, d))
    return 'run_mapwide<Sym%d,%s,%s,%s>("%s");' % (sz, ix(sd), ix(md), ix(gd), ops)

WIDE_SHAPES = [((4, 5), (20,), (5, 4)), ((3, 3), (3, 3), (9,)), ((2, 3, 4), (4, 6), (24,)), ((4, 4), (2, 8), (4, 4)), ((6,), (2, 3), (3, 2)),
               ((2, 2, 3), (3, 4), (2, 6)), ((5, 5), (25,), (5, 5)), ((3, 4), (4, 3), (2, 3, 2)), ((8,), (2, 4), (2, 2, 2)), ((2, 9), (3, 6), (18,))]

def lanes(isa, sz):
    return max({"scalar": sz, "sse2": 16, "sse42": 16, "avx": 32, "avx2": 32, "avx512": 64}[isa] // sz, 1)

def map_cases(rng, isa, sz, count, maxn):
    """(kind, mis, sd, md) choices: every kind, sizes around multiples of the vector width"""
    V = lanes(isa, sz)
    cases = []
    kinds = ["map", "reshape", "flatten", "squeeze", "raw"]
    sizes = sorted(set(x for x in [1, 2, 3, V - 1, V, V + 1, 2 * V, 2 * V + 1, 3 * V - 1, 12, 24, 36, 16, 27, 64] if 1 <= x <= maxn))
    for i in range(count):
        kind = kinds[i % len(kinds)]
        for _ in range(50):
            n = rng.choice(sizes)
            fs = factorisations(n)
            sd = rng.choice(fs)
            if kind == "squeeze":
                if 1 not in sd or all(x == 1 for x in sd): continue
                md = tuple(x for x in sd if x != 1)
            elif kind == "flatten": md = (n,)
            else: md = rng.choice(fs)
            if kind in ("map", "raw") and rng.random() < 0.3: md = sd
            break
        else:
            continue
        mis = rng.choice(range(0, 64, sz)) if kind == "raw" else 0
        cases.append((kind, mis, sd, md))
    return cases

def sym_groups(tier, seed):
    rng = random.Random(seed * 9173 + 20)
    quick = tier == "quick"
    isas = (core.QUICK_ISAS + ["scalar"]) if quick else core.ALL_ISAS
    groups = []
    # ---- layout converters on all shapes: the index arithmetic does not depend on the ISA or the element size, so the full sweep
    #      runs under one (seed-rotated) configuration and a sample under the others
    full_cfg = (isas[seed % 3], (4, 8)[(seed // 3) % 2])
    for isa in isas:
        for sz in (4, 8):
            calls = []
            if (isa, sz) == full_cfg:
                every = all_shapes(4, 4)
                shapes = every
                for s in shapes:
                    calls.append(layout_call(sz, "tocm", "t", s)); calls.append(layout_call(sz, "torm", "t", s))
                for s in rng.sample(shapes, 30 if quick else 200):
                    calls.append(layout_call(sz, rng.choice(["rtcr", "rtrc"]), "t", s))
                for s in rng.sample(shapes, 15 if quick else 150):
                    calls.append(layout_call(sz, rng.choice(["ptrcm", "arrcm", "veccm"]), "m", s))
                    calls.append(layout_call(sz, rng.choice(["ptrrm", "arrrm", "vecrm"]), "m", s))
                for s in rng.sample(shapes, 12 if quick else 80):
                    calls.append(layout_call(sz, rng.choice(["tocm", "torm", "rtcr", "rtrc"]), "m", s))
                for _ in range(4 if quick else 24):
                    s = tuple(rng.randint(1, 3) for _ in range(5))
                    calls.append(layout_call(sz, "tocm", "t", s)); calls.append(layout_call(sz, "torm", "t", s))
                    calls.append(layout_call(sz, rng.choice(["rtcr", "rtrc", "ptrcm"]), "m", s))
                calls += [layout_call(sz, "tocm", "t", (2, 3, 2, 2, 2, 2)), layout_call(sz, "torm", "t", (3, 1, 2, 2, 1, 3))]
                # nested lists and buffer constructors stratified by rank (non-square rank 2 included for every constructor)
                for r, k in ((1, 3), (2, 6), (3, 5), (4, 4)) if quick else ((1, 4), (2, 16), (3, 40), (4, 40)):
                    cand = [x for x in shapes if len(x) == r and prod(x) <= 64 and (r != 2 or x[0] != x[1] or rng.random() < 0.2)]
                    for s in rng.sample(cand, min(k, len(cand))):
                        calls.append(ilist_call(sz, s))
                for fn in ("ptrcm", "arrcm", "veccm", "ptrrm", "arrrm", "vecrm"):
                    calls.append(layout_call(sz, fn, "m", rng.choice([(2, 3), (3, 2), (4, 3), (1, 4), (3, 4)])))
                    calls.append(layout_call(sz, fn, "m", rng.choice([(2, 3, 4), (4, 1, 3), (3, 2, 2)])))
                    calls.append(layout_call(sz, fn, "m", (rng.randint(2, 4),)))
                for ch in symrun.chunk(calls, LAYOUT_TU):
                    groups.append({"key": "%s/sz%d/layout" % (isa, sz), "header": "map_sym.h", "isa": isa, "calls": ch})
                calls = []
            else:
                shapes = rng.sample(all_shapes(4, 4), 5 if quick else 30) + [tuple(rng.randint(2, 5) for _ in range(rng.randint(2, 4)))]
                for s in shapes:
                    calls.append(layout_call(sz, rng.choice(["tocm", "torm"]), rng.choice("tm"), s))
                    calls.append(layout_call(sz, rng.choice(["rtcr", "rtrc", "ptrcm", "arrcm", "veccm", "ptrrm"]), "m", s))
                for n in (1, lanes(isa, sz) + 1, 2 * lanes(isa, sz) + 3):     # rank 1 through a map: the copy is a vector loop
                    calls.append(layout_call(sz, rng.choice(["tocm", "torm"]), "m", (n,)))
                calls.append(ilist_call(sz, rng.choice([s for s in all_shapes(4, 3) if prod(s) <= 40])))
            if calls:
                groups.append({"key": "%s/sz%d" % (isa, sz), "header": "map_sym.h", "isa": isa, "calls": calls})
            calls = []
            # ---- operation sequences through maps and sources
            ncase = (12 if isa != "scalar" else 6) if quick else 40
            for (kind, mis, sd, md) in map_cases(rng, isa, sz, ncase, 40 if quick else 72):
                ids = sorted(rng.sample(range(NEXPR), 2) if quick else rng.sample(range(NEXPR), 3))
                if not (set(ids) & READS_X): ids[0] = rng.choice(sorted(READS_X - set(ids)))
                ids = sorted(set(ids))
                for _ in range(4):
                    calls.append(mapops_call(sz, kind, mis, ids, sd, md, gen_ops(rng, sd, md, rng.randint(1, 6), ids)))
            for ch in symrun.chunk(calls, MAPOPS_TU):      # 4 consecutive calls share one instantiation
                groups.append({"key": "%s/sz%d" % (isa, sz), "header": "map_sym.h", "isa": isa, "calls": ch})
            # ---- enlarged alphabet over three names of one storage (views, scalar assignment, reductions, staged right-hand sides)
            if isa != "scalar":
                for sh in (rng.sample(WIDE_SHAPES, 2) if quick else WIDE_SHAPES):
                    calls = [mapwide_call(sz, sh[0], sh[1], sh[2], gen_wide_ops(rng, sh, rng.randint(3, 9))) for _ in range(4 if quick else 8)]
                    groups.append({"key": "%s/sz%d/wide" % (isa, sz), "header": "map_sym2.h", "isa": isa, "calls": calls})
    return groups

def rnested(dims, k0=1):
    if len(dims) == 1:
        return "{" + ",".join(str(k0 + i) for i in range(dims[0])) + "}", dims[0]
    parts = []; k = k0
    for _ in range(dims[0]):
        t, c = rnested(dims[1:], k); parts.append(t); k += c
    return "{" + ",".join(parts) + "}", k - k0

# which ranks each element type covers, so that every ISA sees every rank (3 and >= 4 separately) with some type
RCTOR_RANKS = {"float": (2, 3), "double": (3, 4), "int32_t": (2, 5), "int64_t": (1, 4)}
RILIST_RANKS = {"float": (1, 3), "double": (2, 4), "int32_t": (3, 4), "int64_t": (1, 2)}
UNIT_SHAPES = [(1, 3, 1, 4), (3, 1, 1, 4), (3, 4, 1, 1), (1, 1, 3, 4), (1, 3, 4, 1), (3, 1, 4, 1), (1, 5), (5, 1), (2, 1, 3), (1, 2, 3), (2, 3, 1), (1, 1, 6), (2, 3), (4, 1, 1, 1)]

def shape_of_rank(rng, r, quick=True):
    """never all extents equal, never a palindrome (a missing reversal must show), last two extents distinct and > 1 (a swap of
    the innermost loops / extents must show)"""
    if r == 1: return (rng.randint(2, 9),)
    while True:
        s = tuple(rng.randint(1, 4) for _ in range(r))
        if s != s[::-1] and s[-1] != s[-2] and min(s[-2:]) > 1 and 1 < prod(s) <= 96 and (r < 3 or sum(x > 1 for x in s) >= 3): return s

def real_groups(tier, seed):
    rng = random.Random(seed * 733 + 5)
    quick = tier == "quick"
    isas = core.QUICK_ISAS if quick else core.ALL_ISAS
    groups = []
    for isa in isas:
        for ti, t in enumerate(["float", "double", "int32_t", "int64_t"]):
            V = lanes(isa, 4 if t in ("float", "int32_t") else 8)
            calls = []
            sizes = sorted(set([V - 1 or 1, V, V + 1, 2 * V + 1, 3 * V, rng.randint(1, 3 * V)]))
            for n in (rng.sample(sizes, 2) if quick else sizes):
                s = rng.choice(factorisations(n))
                calls.append("run_rmap<%s,%s>(%du);" % (t, ",".join(map(str, s)), seed * 31 + n))
            reps = 1 if quick else 2
            for _ in range(reps):
                for r in RCTOR_RANKS[t] if quick else (1, 2, 3, 4, 5):
                    calls.append("run_rctor<%s,%s>(0u);" % (t, ",".join(map(str, shape_of_rank(rng, r)))))
                for r in RILIST_RANKS[t] if quick else (1, 2, 3, 4):
                    sh = shape_of_rank(rng, r); ds = ",".join(map(str, sh))
                    calls.append("run_rilist<%s,%s>([]{ return Tensor<%s,%s>%s; });" % (t, ds, t, ds, rnested(list(sh))[0]))
            for n in (rng.sample([2, 3, 4, 5, 8], 1) if quick else [2, 3, 4, 5, 7, 8]):
                calls.append("run_rstaged<%s,%d,false>(%du);" % (t, n, seed * 17 + n))
                calls.append("run_rstaged<%s,%d,true>(%du);" % (t, n, seed * 19 + n))
            # wider alphabet: views / reductions / scalar assignment / other-shape maps; linear algebra through maps; shapes
            for k in range(1 if quick else 4):
                M = rng.choice([2, 3, 4, 5]); N = rng.choice([V - 1 if V > 2 else 3, V + 1, 2 * V + 1, 5, 3])
                calls.append("run_rwide<%s,%d,%d,%d>(%du);" % (t, (ti + k + seed) % 2, M, max(N, 2), seed * 23 + k))
            for n in (rng.sample([2, 3, 4, 5, 8], 1) if quick else [2, 3, 4, 5, 8, 9]):
                calls.append("run_rlin<%s,%d>(%du);" % (t, n, seed * 29 + n))
                calls.append("run_rconst<%s,%d>(%du);" % (t, n, seed * 41 + n))
            k0 = (ti * 3 + seed) % len(UNIT_SHAPES)
            for sh in ([UNIT_SHAPES[(k0 + j * 5) % len(UNIT_SHAPES)] for j in range(3)] if quick else UNIT_SHAPES):
                calls.append("run_rshape<%s,%s>(%du);" % (t, ",".join(map(str, sh)), seed * 37 + len(sh)))
            for ch in symrun.chunk(calls, REAL_TU):
                groups.append({"key": "%s/%s" % (isa, t), "header": "map_wide.h", "isa": isa, "opt": "-O2", "calls": ch,
                               "pre": "static bool g_verbose=false;"})
    return groups

def nontrivial(inp, mo):
    d = symrun.kv(inp)
    if inp.startswith("layout"):
        return len(d["dims"].split("x")) >= 2
    return "," in d.get("ops", "")

def _only(fn):
    # development aid (mutation self-test): C20_GROUPS=<regex on the group key> restricts the box; unset in normal use
    flt = os.environ.get("C20_GROUPS")
    if not flt: return fn
    return lambda tier, seed: [g for g in fn(tier, seed) if re.search(flt, g["key"])]

def run(tier, seed):
    return flow.standard_run(
        PID, tier, seed, "Fastor.C20.map_is_alias_wide", "FastorModel.Model.MapAlias / MapAliasWide / Layout", _only(sym_groups), _only(real_groups),
        assumptions=["vector primitives are lane-wise (C08); element-wise expression evaluation is C02's model (imported, with is_aligned = false for maps)",
                     "operations through maps that are modelled: element write, fill, compound assignment with a scalar / a tensor / an expression, plain assignment of an "
                     "element-wise expression, assignment from the other name, same-type copy assignment, reading into an owning tensor; views, reductions, scalar "
                     "assignment, products / transposes / permute / einsum / inverse with a map as argument or destination, compound lazy products, const maps, "
                     "squeeze / reshape / flatten of maps are value-tested on the real types against a plain-array oracle (harness/map_wide.h), not in the Lean model",
                     "real-type runs use small integer values (exact in float/double, no integer overflow)"],
        rule="layout: every shape of rank 1-4 with extents <= 4 x {tocolumnmajor, torowmajor} + sampled "
             "round trips / constructors / map sources / nested initializer lists / seeded rank 5-6; mapops: seeded (kind, source shape, map shape of equal size, "
             "operation sequence of length 1-6 alternating between the names) per (ISA, element size); real types per (ISA, type): misalignment sweep, constructors / converters / "
             "lists with ranks stratified over the types (every ISA sees ranks 1-5), staged right-hand sides, 16-statement view/reduction program through map and source, "
             "19 linear-algebra statements, squeeze/reshape/flatten shapes with unit extents in every position; non-trivial = rank >= 2 resp. at least two operations",
        nontrivial=nontrivial, per_tu=80)

def sym_call_of(inp):
    d = symrun.kv(inp)
    sz = int(d["sz"])
    if inp.startswith("mapwide"):
        tup = lambda k: tuple(int(x) for x in d[k].split("x"))
        return {"key": "replay", "header": "map_sym2.h", "isa": d["cfg"], "calls": [mapwide_call(sz, tup("sdims"), tup("mdims"), tup("gdims"), d["ops"])]}
    if inp.startswith("layout"):
        dims = tuple(int(x) for x in d["dims"].split("x"))
        call = ilist_call(sz, dims) if d["fn"] == "ilist" else layout_call(sz, d["fn"], d["src"], dims)
    else:
        ids = sorted(set(int(t.split(":")[2]) for t in d["ops"].split(",") if t.split(":")[1][0] == "e" or t.split(":")[1] == "rd"))
        ids = [i for i in ids if i < NEXPR] or [0]
        call = mapops_call(sz, d["kind"], int(d["mis"]), ids, tuple(int(x) for x in d["sdims"].split("x")), tuple(int(x) for x in d["mdims"].split("x")), d["ops"])
    return {"key": "replay", "header": "map_sym.h", "isa": d["cfg"], "calls": [call]}

def replay(path):
    return flow.standard_replay(path, sym_call_of)
