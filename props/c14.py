"""C14 — permute<Index<p...>>, legacy permutation<>, transpose / trans / ctrans move every element to its
permuted position.  Proof: Props/C14.lean (metafunctions, both loop skeletons, C++14 forward map and C++17
reverse map, legacy function, blocked transpose with packing and edge loops, round trip).
Ties: K1 real permute / permutation / _transpose / transpose / trans over the symbolic carrier (which source
token lands where, read order, store order, read sets, out-of-window accesses) for all permutations of ranks
2-4 (sampled 5-6) with pairwise distinct extents, tensors and unevaluated expressions, C++14 and C++17,
CONTRACT_OPT default and -1, block-size macros 1..3 x V in {4,8,16} (+ the plain loop); K5 metafunction dump
for all permutations of ranks 2-5; K4 real element types per ISA (intrinsic leaf kernels, guard pages)."""
import itertools, random, re
from vlib import core, symrun, flow

PID = "C14"
HDR = "permute_sym.h"

SHAPES = {
    2: [(3, 5), (4, 8), (2, 7), (8, 3), (16, 5), (5, 4)],
    3: [(2, 3, 4), (4, 3, 5), (3, 8, 2), (5, 2, 4), (8, 5, 3)],
    4: [(2, 3, 4, 5), (3, 2, 5, 4), (4, 5, 2, 3), (2, 8, 3, 4)],
    5: [(2, 3, 4, 5, 6), (3, 2, 4, 6, 5), (4, 2, 3, 6, 5)],
    6: [(2, 3, 4, 5, 6, 7), (3, 2, 5, 4, 7, 6)],
}

def inv(p):
    q = [0] * len(p)
    for k, x in enumerate(p):
        q[x] = k
    return tuple(q)

def idx(p):
    return "Fastor::Index<%s>" % ",".join(map(str, p))

def perm_call(sz, kind, ex, p, dims):
    return "run_perm<Sym%d,%d,%d,%s,%s>();" % (sz, kind, ex, idx(p), ",".join(map(str, dims)))

def rt_call(sz, kind, ex, p, dims):
    return "run_roundtrip<Sym%d,%d,%d,%s,%s,%s>();" % (sz, kind, ex, idx(p), idx(inv(p)), ",".join(map(str, dims)))

def meta_call(p, dims):
    return "run_pmeta<%s,%s>();" % (idx(p), ",".join(map(str, dims)))

# (isa, std, CONTRACT_OPT, [(kind, ex) code paths exercised exhaustively in this configuration])
PERM_CFGS = [
    ("sse2", "c++14", None, [(0, 0), (0, 1), (1, 0), (1, 1)]),
    ("avx2", "c++17", None, [(0, 0), (0, 1)]),
    ("avx512", "c++14", "-1", [(0, 0), (1, 0)]),
    ("avx2", "c++17", "-1", [(0, 0)]),
]
ALL_PATHS = [(0, 0), (0, 1), (1, 0), (1, 1)]

def cfg_key(isa, std, co):
    return "perm/%s/%s/co%s" % (isa, std, co or "d")

def cfg_defs(co):
    return ["-DCONTRACT_OPT=%s" % co] if co else []

def perms_of(rank, rng, nsample):
    ps = list(itertools.permutations(range(rank)))
    if nsample is None or nsample >= len(ps):
        return ps
    return rng.sample(ps, nsample)

def perm_groups(tier, seed):
    rng = random.Random(seed * 7919 + 14)
    groups = []
    cfgs = PERM_CFGS if tier == "quick" else [(i, s, c, ALL_PATHS) for i in (core.ALL_ISAS if tier == "thorough" else core.QUICK_ISAS)
                                               for s in ("c++14", "c++17") for c in (None, "-1")]
    if tier == "thorough":
        # every ISA x both standards x both variants is 24 configurations; the loops are scalar, so the ISA only
        # matters through the expression evaluator: all ISAs for the default variant, three for the odometer
        cfgs = [c for c in cfgs if c[2] is None or c[0] in ("sse2", "avx2", "avx512")]
    for ci, (isa, std, co, paths) in enumerate(cfgs):
        calls = []
        for rank in (2, 3, 4, 5, 6):
            if tier == "quick":
                ns = {2: None, 3: None, 4: None, 5: 3, 6: 1}[rank]
            else:
                ns = {2: None, 3: None, 4: None, 5: 30 if ci % 4 == 0 else 8, 6: 4 if ci % 4 == 0 else 1}[rank]
            if tier == "quick" and rank >= 5:
                # one permutation of rank 5 and one of rank 6 on every code path this configuration reaches
                for (kind, ex) in paths:
                    p = tuple(rng.sample(range(rank), rank))
                    calls.append(perm_call(rng.choice((4, 8)), kind, ex, p, rng.choice(SHAPES[rank])))
                continue
            for p in perms_of(rank, rng, ns):
                dims = rng.choice(SHAPES[rank])
                use = paths if rank <= 4 else [rng.choice(paths)]
                for (kind, ex) in use:
                    calls.append(perm_call(rng.choice((4, 8)), kind, ex, p, dims))
        groups.append({"key": cfg_key(isa, std, co), "header": HDR, "isa": isa, "std": std, "defs": cfg_defs(co), "calls": calls})
    return groups

def meta_groups(tier, seed):
    rng = random.Random(seed * 104729 + 5)
    groups = []
    for std in ("c++14", "c++17"):
        calls = []
        for rank in (2, 3, 4, 5):
            for p in perms_of(rank, rng, 40 if (tier == "quick" and rank == 5) else None):
                calls.append(meta_call(p, rng.choice(SHAPES[rank])))
        for p in perms_of(6, rng, 4 if tier == "quick" else 60):
            calls.append(meta_call(p, rng.choice(SHAPES[6])))
        if std == "c++17":
            # permute_mapped_index_t on arbitrary label packs (the explicit-output einsum calls it with the labels of the
            # contraction result and of the requested output)
            for _ in range(30 if tier == "quick" else 200):
                rank = rng.randint(2, 6); labels = rng.sample(range(0, 15), rank); o = rng.sample(labels, rank)
                calls.append("run_pmeta2<%s,%s>();" % (idx(labels), idx(o)))
        groups.append({"key": "meta/%s" % std, "header": HDR, "isa": "sse2", "std": std, "calls": calls})
    return groups

# transposes: (isa, sizeof carrier) -> V
TRANS_CFGS = [("avx2", 4, 8), ("avx2", 8, 4), ("avx512", 4, 16), ("avx512", 8, 8), ("sse2", 4, 1), ("scalar", 8, 1), ("avx", 4, 8)]

def size_classes(b, extra, rng):
    """extents around the block size b: below, equal, one above, two blocks, two blocks + remainder"""
    s = {1, max(1, b - 1), b, b + 1, 2 * b, 2 * b + 3}
    if b == 1:
        s |= {3, 4, 7, 9}
    for _ in range(extra):
        s.add(rng.randint(1, 2 * b + 3))
    return sorted(s)

def trans_groups(tier, seed):
    rng = random.Random(seed * 31337 + 41)
    groups = []
    for (isa, sz, V) in TRANS_CFGS:
        if tier == "quick" and isa in ("scalar", "avx"):
            continue
        blocks = [(1, 1)] if V == 1 else [(r, c) for r in (1, 2, 3) for c in (1, 2, 3)]
        if tier == "quick" and V != 1:
            # every block-size pair at least once across the four vectorised configurations
            # the default pair under every vector width; five other pairs (each macro at 2 and at 3, equal and unequal)
            # spread over the four vectorised configurations — all nine pairs per width in the thorough tier
            ci = [c[:2] for c in TRANS_CFGS].index((isa, sz))
            blocks = [(1, 1)] + [[(1, 2), (3, 2)], [(2, 1)], [(2, 3)], [(3, 3)]][ci]
        for (nr, nc) in blocks:
            ib, ob = V * nc, V * nr
            calls = []
            if tier == "thorough":
                cap = 2 * max(ib, ob) + 3
                full = (nr, nc) == (1, 1) or V <= 4
                Ms = range(1, min(2 * ib + 3, cap) + 1) if full else size_classes(ib, 4, rng)
                Ns = range(1, min(2 * ob + 3, cap) + 1) if full else size_classes(ob, 4, rng)
                shapes = [(m, n) for m in Ms for n in Ns]
            elif (nr, nc) == (1, 1):
                shapes = [(m, n) for m in size_classes(ib, 1, rng) for n in size_classes(ob, 1, rng)]
            else:
                ms, ns = size_classes(ib, 0, rng), size_classes(ob, 0, rng)
                shapes = sorted(set([(rng.choice(ms), n) for n in ns] + [(m, rng.choice(ns)) for m in ms] + [(2 * ib + 3, 2 * ob + 3), (ib, ob)]))
            for (m, n) in shapes:
                calls.append("run_trans_raw<Sym%d,%d,%d>();" % (sz, m, n))
            # the public entry points on a few shapes (same kernel behind them)
            rect = [sh for sh in shapes if sh[0] != sh[1] and sh[0] > 1 and sh[1] > 1] or shapes
            for (m, n) in rng.sample(rect, min(len(rect), 3 if tier == "quick" else 10)):
                for api in (1, 2, 3, 4):
                    calls.append("run_trans_api<Sym%d,%d,%d,%d>();" % (sz, m, n, api))
            defs = []
            if V != 1:
                defs = ["-DFASTOR_TRANS_OUTER_BLOCK_SIZE=%d" % nr, "-DFASTOR_TRANS_INNER_BLOCK_SIZE=%d" % nc]
            if (nr, nc) == (1, 1) and sz == 4:
                defs = []   # the default build, macros undefined
            groups.append({"key": "trans/%s/sz%d/b%dx%d" % (isa, sz, nr, nc), "header": HDR, "isa": isa,
                           "std": "c++17" if (nr + nc) % 2 else "c++14", "defs": defs, "calls": calls})
    return groups

def sym_groups(tier, seed):
    return perm_groups(tier, seed) + meta_groups(tier, seed) + trans_groups(tier, seed)

def oracle_groups(tier, seed):
    rng = random.Random(seed * 271 + 77)
    groups = []
    # permute followed by the inverse permutation is the identity, token for token
    rt_cfgs = [("sse2", "c++14", None), ("avx2", "c++17", "-1")] if tier == "quick" else \
              [("sse2", "c++14", None), ("avx2", "c++17", None), ("avx512", "c++17", "-1"), ("avx2", "c++14", "-1")]
    for (isa, std, co) in rt_cfgs:
        calls = []
        for rank in (2, 3, 4, 5):
            ns = None if (rank <= 3 or tier == "thorough") else (8 if rank == 4 else 2)
            for p in perms_of(rank, rng, ns):
                kind, ex = rng.choice(ALL_PATHS)
                calls.append(rt_call(rng.choice((4, 8)), kind, ex, p, rng.choice(SHAPES[rank])))
        groups.append({"key": "roundtrip/%s/%s/co%s" % (isa, std, co or "d"), "header": HDR, "isa": isa, "std": std,
                       "defs": cfg_defs(co), "calls": calls})
    return groups + real_groups(tier, seed)

RTYPES = ["float", "double", "int32_t", "int64_t", "std::complex<double>", "std::complex<float>"]
LEAF = {"float": [(2, 2), (3, 3), (4, 4), (8, 8), (16, 16)], "double": [(2, 2), (3, 3), (4, 4), (8, 8), (16, 16)]}
RHDR = "permute_real.h"

def real_groups(tier, seed):
    """K4: real element types per ISA — intrinsic leaf kernels, blocked nest with edges, public entry points,
    fenced buffers; plus the two build configurations in which the float leaf dispatch used to be ill-formed"""
    rng = random.Random(seed * 613 + 8)
    groups = []
    isas = ["sse2", "avx", "avx2", "avx512"] if tier == "quick" else core.ALL_ISAS
    variants = [(isa, [], "") for isa in isas]
    variants += [("avx512", ["-mno-avx512dq", '-DVR_TAG="-nodq"'], "-nodq"),
                 ("avx2", ["-DFASTOR_TRANS_OUTER_BLOCK_SIZE=2", "-DFASTOR_TRANS_INNER_BLOCK_SIZE=2", '-DVR_TAG="-b2x2"'], "-b2x2"),
                 ("avx512", ["-DFASTOR_TRANS_OUTER_BLOCK_SIZE=3", "-DFASTOR_TRANS_INNER_BLOCK_SIZE=2", '-DVR_TAG="-b3x2"'], "-b3x2")]
    if tier != "quick":
        variants += [("avx", ["-DFASTOR_TRANS_OUTER_BLOCK_SIZE=2", "-DFASTOR_TRANS_INNER_BLOCK_SIZE=2", '-DVR_TAG="-b2x2"'], "-b2x2"),
                     ("avx2", ["-DFASTOR_TRANS_OUTER_BLOCK_SIZE=1", "-DFASTOR_TRANS_INNER_BLOCK_SIZE=3", '-DVR_TAG="-b1x3"'], "-b1x3")]
    nrand = 3 if tier == "quick" else 14
    for vi, (isa, defs, tag) in enumerate(variants):
        calls = []
        sd = seed * 10 + vi
        # quick tier: the full call set under sse2 / avx2 / avx512; under avx (its own 3x3 float and 8x8 double kernels) and
        # under the two re-dispatch configurations only the kernels and the blocked nest
        lean = tier == "quick" and (isa == "avx" or tag != "")
        std17 = isa in ("avx2", "avx512", "sse42") and tag != "-nodq"
        mb = re.match(r"-b(\d)x(\d)", tag)
        if mb:
            # non-square shapes around twice the block (2*nC*V x 2*nR*V) for float, double and both complex types
            nr_, nc_ = int(mb.group(1)), int(mb.group(2))
            vbits = 512 if isa == "avx512" else 256
            for t, esz in (("float", 4), ("double", 8), ("std::complex<float>", 8), ("std::complex<double>", 16)):
                V = vbits // 8 // esz
                for (m, n) in [(2 * V * nc_ + 1, 2 * V * nr_ - 1), (2 * V * nc_ - 1, 2 * V * nr_ + 3), (V * nc_, 2 * V * nr_), (2 * V * nc_ + 3, V * nr_ + 1)]:
                    calls.append("run_treal<%s,%d,%d>(%du,%d);" % (t, m, n, sd, (m + n) % 2))
        for t in ("float", "double"):
            for (m, n) in LEAF[t]:
                for place in (0, 1):
                    calls.append("run_treal<%s,%d,%d>(%du,%d);" % (t, m, n, sd, place))
            shapes = {(8, 16), (17, 9), (5, 33), (24, 16), (33, 18)}
            while len(shapes) < 5 + nrand:
                shapes.add((rng.randint(1, 40), rng.randint(1, 40)))
            for (m, n) in sorted(shapes):
                calls.append("run_treal<%s,%d,%d>(%du,%d);" % (t, m, n, sd, (m + n) % 2))
            for api in ((6,) if lean else (1, 2, 3, 6)):
                for (m, n) in [(3, 3), rng.choice(sorted(shapes))]:
                    calls.append("run_tapi<%s,%d,%d,%d>(%du);" % (t, m, n, api, sd))
            if lean:
                continue
            calls.append("run_tbatch<%s,%d,%d>(%du);" % (t, rng.randint(2, 4), rng.choice((2, 3, 4, 8)), sd))
            for api in (7, 8, 9):
                calls.append("run_tapi<%s,%d,%d,%d>(%du);" % (t, rng.randint(2, 12), rng.randint(2, 12), api, sd))
            for kind in (0, 1):
                calls.append("run_peval<%s,%d,%d,%d>(%du);" % (t, kind, rng.randint(2, 9), rng.randint(2, 9), sd))
        for t in (() if lean else ("int32_t", "int64_t", "std::complex<double>", "std::complex<float>")):
            for _ in range(2 if tier == "quick" else 6):
                calls.append("run_treal<%s,%d,%d>(%du,%d);" % (t, rng.randint(1, 20), rng.randint(1, 20), sd, rng.randint(0, 1)))
            calls.append("run_tapi<%s,%d,%d,%d>(%du);" % (t, rng.randint(1, 9), rng.randint(1, 9), rng.choice((1, 2, 3)), sd))
        for t in (() if lean else ("std::complex<double>", "std::complex<float>")):
            for api in (4, 5, 10, 11, 12):
                calls.append("run_tapi<%s,%d,%d,%d>(%du);" % (t, rng.randint(1, 9), rng.randint(1, 9), api, sd))
            calls.append("run_ctbatch<%s,%d,%d>(%du);" % (t, rng.randint(2, 3), rng.randint(2, 5), sd))
        if not tag and not lean:
            for t in ("float", "double", "int32_t", "std::complex<double>"):
                rank = rng.choice((3, 4)); p = tuple(rng.sample(range(rank), rank))
                calls.append("run_pexpr<%s,%d,%s,%s>(%du);" % (t, rng.randint(0, 1), idx(p), ",".join(map(str, rng.choice(SHAPES[rank]))), sd))
                calls.append("run_pview<%s,%d,%d>(%du);" % (t, rng.randint(2, 9), rng.randint(2, 9), sd))
                calls.append("run_tbatch4<%s,%d,%d,%d>(%du);" % (t, rng.randint(1, 3), rng.randint(2, 3), rng.choice((2, 3, 4, 8)), sd))
                if std17:
                    # explicit-output einsum: one pure relabelling with non-contiguous labels, one transposed product
                    rank = rng.choice((3, 4)); labels = rng.sample(range(1, 12), rank); o = rng.sample(labels, rank)
                    while o == labels: o = rng.sample(labels, rank)
                    calls.append("run_einsum_o1<%s,%s,Fastor::OIndex<%s>,%s>(%du);" % (t, idx(labels), ",".join(map(str, o)), ",".join(map(str, rng.choice(SHAPES[rank]))), sd))
                    if t != "std::complex<double>":
                        calls.append("run_einsum_o2<%s,%d,%d,%d>(%du);" % (t, rng.randint(2, 7), rng.randint(2, 7), rng.randint(2, 7), sd))
            for t in RTYPES:
                for _ in range(2 if tier == "quick" else 8):
                    rank = rng.choice((2, 3, 3, 4))
                    p = tuple(rng.sample(range(rank), rank))
                    kind, ex = rng.choice(ALL_PATHS)
                    calls.append("run_preal<%s,%d,%d,%s,%s,%s>(%du);" % (t, kind, ex, idx(p), idx(inv(p)), ",".join(map(str, rng.choice(SHAPES[rank]))), sd))
        groups.append({"key": "real/%s%s" % (isa, tag), "header": RHDR, "isa": isa, "std": "c++17" if std17 else "c++14",
                       "opt": "-O2", "defs": defs, "calls": calls})
        if tag in ("-nodq", "-b2x2"):
            # compile acceptance of the float leaf dispatch: a unit with float transposes only (a unit in which every
            # call is rejected by the compiler is reported, single rejected calls of a mixed unit are only noted)
            groups.append({"key": "accept/%s%s" % (isa, tag), "header": RHDR, "isa": isa, "std": "c++14", "opt": "-O1", "defs": defs,
                           "calls": ["run_treal<float,%d,%d>(%du,0);" % (m, n, sd) for (m, n) in [(16, 16), (17, 35), (33, 18)]]})
    return groups

def nontrivial(inp, mo):
    d = symrun.kv(inp)
    if inp.startswith("pmeta2"):
        return d.get("R") != d.get("O")
    if inp.startswith("permute") or inp.startswith("pmeta"):
        p = d.get("p", "").split(",")
        return p != sorted(p, key=int)
    return d.get("M") != "1" and d.get("N") != "1"

def box_summary(tier, seed):
    """what the generated box contains (the same generators the run uses), for the evidence file"""
    import re
    perms = {}; blocks = {}; real = {}
    for g in sym_groups(tier, seed):
        for c in g["calls"]:
            m = re.match(r"run_perm<Sym\d,(\d),(\d),Fastor::Index<([\d,]+)>", c)
            if m:
                k = "%s/%s/%s/rank%d" % (g["key"].split("/", 1)[1], "legacy" if m.group(1) == "1" else "new",
                                         "expr" if m.group(2) == "1" else "tensor", len(m.group(3).split(",")))
                perms[k] = perms.get(k, 0) + 1
            elif c.startswith("run_trans"):
                blocks[g["key"]] = blocks.get(g["key"], 0) + 1
    for g in oracle_groups(tier, seed):
        real[g["key"]] = len(g["calls"])
    return {"permute_cases_by_config_path_rank": perms, "transpose_cases_by_config_block": blocks, "oracle_cases_by_group": real,
            "leaf_kernels_run_on_fenced_buffers": {t: ["%dx%d" % mn for mn in LEAF[t]] for t in LEAF},
            "element_types": RTYPES}

def kernel_stage(v):
    """X2: the intrinsic leaf kernels of the current tree, translated to Lean, must be the proved snapshot (or prove afresh)"""
    from props import c14_kernels
    with core.Scratch() as wd:
        try:
            r = c14_kernels.check_against_snapshot(core.REPO, core.ISA_FLAGS, core.LEAN, wd)
        except Exception as e:       # a source the translator cannot even read
            r = {"status": "untranslatable", "problems": [repr(e)[:300]], "kernels": [], "failed": []}
    v.cov["kernel_translation"] = {"status": r["status"], "kernels": len(r["kernels"]), "names": r["kernels"],
                                   "failed": r["failed"], "problems": r["problems"][:5]}
    v.cov["kernel_translation"]["bad_lanes"] = r.get("bad_lanes", {})
    if r["status"] == "changed-failed":
        bad = r.get("bad_lanes", {})
        v.violation("kernel-proof " + ",".join(r["failed"])[:160],
                    {"kind": "kernel-lanes", "failed": r["failed"], "bad_lanes": bad, "output": r.get("output", ""),
                     "note": "the intrinsic transposition kernel(s) named here, translated from the current source, no longer realise the "
                             "transposition lane map / stay inside the matrices.  bad_lanes: per kernel ([(cell of the n x n result, source cell found "
                             "there (n*n = zeroed lane, none = never stored), source cell expected)], [stores outside the result]); the real-type "
                             "runs of this check show the same cells on the CPU"}, nofail=not bad)
    elif r["status"] == "untranslatable":
        # the theorems do not speak about the current kernel source; whether the kernels still transpose is decided by the
        # real-type runs on fenced buffers (every leaf size, both placements, every ISA) — no alarm from here
        v.notes.append("kernel translation: the current source contains a form the translator does not cover (%s); the intrinsic kernel "
                       "theorems are not tied to this tree, the kernels are value-tested only in this run" % "; ".join(r["problems"])[:300])
    elif r["status"] == "changed-proved":
        v.notes.append("kernel translation: the kernel source differs from the proved snapshot; the regenerated definitions were re-checked "
                       "and every kernel theorem holds for them")

def run(tier, seed):
    orig = core.proof_stage
    def staged(v, pid, thorough=False, regen=None):
        ok, info = orig(v, pid, thorough=thorough, regen=regen)
        if info.get("build_ok"):
            kernel_stage(v)
        return ok, info
    core.proof_stage = staged
    try:
        return run_inner(tier, seed)
    finally:
        core.proof_stage = orig

def run_inner(tier, seed):
    return flow.standard_run(
        PID, tier, seed, "Fastor.C14.permute_correct", "FastorModel.Model.Permute / FastorModel.Model.Transpose", sym_groups, oracle_groups,
        assumptions=["the index pack of permute/permutation is a permutation of 0..rank-1 (hypothesis of the theorems; the harness only generates such packs)",
                     "extents are positive"],
        rule="symbolic cases: one instantiation of the real permute / permutation / _transpose / transpose / trans over the symbolic carrier "
             "(or one metafunction dump) per (configuration, entry point, argument kind, permutation, shape); compared with the Lean model on the "
             "final placement of every source token, the order in which the source is read, the order of stores (transpose), read sets, chosen "
             "width and declared result extents; non-trivial = the permutation is not the identity / the matrix is not a vector",
        nontrivial=nontrivial, per_tu=100, extra_cov={"box": box_summary(tier, seed)})

def sym_call_of(inp):
    d = symrun.kv(inp)
    cmd = inp.split()[0]
    std = "c++17" if d.get("std") == "17" else "c++14"
    if cmd == "permute":
        p = tuple(int(x) for x in d["p"].split(","))
        dims = tuple(int(x) for x in d["dims"].split(","))
        co = None if d["co"] == "d" else d["co"]
        return {"key": "replay", "header": HDR, "isa": d["cfg"], "std": std, "defs": cfg_defs(co),
                "calls": [perm_call(int(d["sz"]), 1 if d["kind"] == "legacy" else 0, int(d["ex"]), p, dims)]}
    if cmd == "pmeta2":
        return {"key": "replay", "header": HDR, "isa": d["cfg"], "std": "c++17",
                "calls": ["run_pmeta2<%s,%s>();" % (idx(d["R"].split(",")), idx(d["O"].split(",")))]}
    if cmd == "pmeta":
        p = tuple(int(x) for x in d["p"].split(","))
        dims = tuple(int(x) for x in d["dims"].split(","))
        return {"key": "replay", "header": HDR, "isa": d["cfg"], "std": std, "calls": [meta_call(p, dims)]}
    defs = ["-DFASTOR_TRANS_OUTER_BLOCK_SIZE=" + d["nr"], "-DFASTOR_TRANS_INNER_BLOCK_SIZE=" + d["nc"]]
    api = {"raw": 0, "tensor": 1, "mapassign": 2, "exprfn": 3, "exprnode": 4}[d["api"]]
    call = ("run_trans_raw<Sym%s,%s,%s>();" % (d["sz"], d["M"], d["N"])) if api == 0 else \
           ("run_trans_api<Sym%s,%s,%s,%d>();" % (d["sz"], d["M"], d["N"], api))
    return {"key": "replay", "header": HDR, "isa": d["cfg"], "std": std, "defs": defs, "calls": [call]}

def replay(path):
    return flow.standard_replay(path, sym_call_of)
