"""C08 — every SIMDVector<T,ABI> operation is lane-wise the scalar operation; horizontal operations are folds.

Proof : Props/C08.lean — lane theorems about definitions GENERATED on every run by the translator vlib/xlate_simd.py
        from the preprocessed headers of the current repo tree (lean/FastorModel/Generated/Simd_<isa>.lean), over the
        intrinsic semantics of Model/SimdIntrinsics.lean.
Ties  : X2 translator (a changed immediate / swapped operand regenerates a different definition; the lane theorem fails
        to build -> proof obligation broken -> failing-input search on the real code);
        K4 harness/simd_real.h: every operation of every (T, ABI) available under each ISA build against plain scalar
        code, bit patterns compared; harness/simd_intrin.h + `intrin` driver command: the modelled intrinsics against
        the CPU on the same lane values.
"""
import json, os, re, random, time
from vlib import core, symrun, xlate_simd, xlate_validate

PID = "C08"
PROP_MODULES = ["C08", "C08Kernels", "C08Ops_sse2", "C08Ops_avx2", "C08Ops_avx512"]
TYPES = {"float": "float", "double": "double", "int32_t": "int32_t", "int64_t": "int64_t",
         "cfloat": "std::complex<float>", "cdouble": "std::complex<double>"}
REAL_T = ["float", "double", "int32_t", "int64_t"]
ALL_T = REAL_T + ["cfloat", "cdouble"]
ABIS = ["scalar", "sse", "avx", "avx512"]
# native width of each configuration
NATIVE = {"scalar": [], "sse2": ["sse"], "sse42": ["sse"], "avx": ["sse", "avx"], "avx2": ["sse", "avx"], "avx512": ["sse", "avx", "avx512"]}


def quick_plan():
    """(cfg, opt, T, abi): every specialised class of every ISA family at least once at -O2 (strict aliasing defects
    show at -O2 only), the T[N] fallback class with 1/2/4/8/16 lanes, the scalar ABI, one -O0 and several -O1 builds."""
    P = []
    for t in ALL_T: P.append(("sse2", "O2", t, "sse"))
    P += [("sse2", "O2", "float", "avx512"), ("sse2", "O1", "int32_t", "avx"), ("sse2", "O1", "double", "scalar"), ("sse2", "O0", "int64_t", "sse")]
    P += [("sse42", "O1", "int32_t", "sse"), ("sse42", "O2", "float", "sse")]
    P += [("avx", "O2", "float", "avx"), ("avx", "O2", "double", "avx"), ("avx", "O1", "cfloat", "avx"), ("avx", "O2", "int32_t", "avx"), ("avx", "O1", "int64_t", "avx512")]
    for t in ALL_T: P.append(("avx2", "O2", t, "avx"))
    P += [("avx2", "O2", "int32_t", "sse"), ("avx2", "O2", "int64_t", "sse"), ("avx2", "O0", "float", "avx"), ("avx2", "O1", "int32_t", "avx512")]
    for t in ALL_T: P.append(("avx512", "O2", t, "avx512"))
    P += [("avx512", "O2", "cfloat", "sse"), ("avx512", "O2", "cdouble", "avx"), ("avx512", "O1", "cfloat", "avx"), ("avx512", "O1", "cdouble", "sse")]
    P += [("avx2", "O1", "cfloat", "sse"), ("avx2", "O1", "cdouble", "sse"), ("sse42", "O2", "int64_t", "sse"), ("avx512", "O2", "int64_t", "avx")]
    P += [("avx512", "O2", "int32_t", "avx"), ("avx512", "O2", "int64_t", "sse"), ("avx512", "O1", "float", "sse"), ("avx512", "O2", "double", "avx"), ("avx512", "O1", "int64_t", "avx")]
    P += [("sse2", "O2", "kernels", "kernel"), ("avx", "O1", "kernels", "kernel"), ("avx2", "O2", "kernels", "kernel"), ("avx512", "O2", "kernels", "kernel")]
    P += [("scalar", "O1", "float", "sse"), ("scalar", "O2", "int64_t", "scalar"), ("scalar", "O1", "int32_t", "avx512"), ("scalar", "O2", "float", "scalar")]
    return P


def thorough_plan():
    P = []
    for cfg in core.ALL_ISAS:
        for t in ALL_T:
            for abi in ABIS:
                if t in ("cfloat", "cdouble") and abi == "scalar":
                    continue        # SIMDVector<std::complex<T>,scalar> does not compile (see docs/DESIGN_C08.md)
                if t in ("cfloat", "cdouble") and abi not in NATIVE[cfg]:
                    # the T[N] class over std::complex: once per configuration is enough
                    if abi != "avx512":
                        continue
                for opt in ("O2", "O1"):
                    P.append((cfg, opt, t, abi))
    P += [(cfg, opt, "kernels", "kernel") for cfg in core.ALL_ISAS for opt in ("O1", "O2")]
    P += [("sse2", "O0", t, "sse") for t in ALL_T] + [("avx2", "O0", t, "avx") for t in ALL_T] + [("avx512", "O0", t, "avx512") for t in ALL_T]
    return P


def groups_of(plan, seed, nrand):
    gs = []
    for (cfg, opt, t, abi) in plan:
        call = ("run_kernels(%du);" % seed) if t == "kernels" else "run_simd<%s,Fastor::simd_abi::%s>(%du,%du);" % (TYPES[t], abi, seed, nrand)
        gs.append({"key": "%s/%s/%s/%s" % (cfg, opt, t, abi), "header": "simd_real.h", "isa": cfg, "opt": "-" + opt,
                   "defs": ["-DOPTNAME=\"%s\"" % opt], "calls": [call], "plan": (cfg, opt, t, abi)})
    return gs


def run_harness(groups, wd):
    res = symrun.run_groups(groups, wd, per_tu=1, bisect=False)
    lines = []; infra = []
    for r in res:
        rr = r["res"]; g = r["group"]
        if rr["rc_compile"] != 0:
            infra.append({"group": g["key"], "what": "compile", "out": rr["compile_out"][-2500:]}); continue
        if rr["rc_run"] != 0:
            infra.append({"group": g["key"], "what": "run rc=%s" % rr["rc_run"], "out": (rr.get("out", "")[-600:] + rr.get("err", ""))})
        for l in rr["out"].split("\n"):
            if "|" in l and l.startswith("simd "):
                lines.append((g, l))
    return lines, infra


def key_of(line):
    d = symrun.kv(line.split("|")[0])
    return "simd op=%s T=%s abi=%s cls=%s cfg=%s opt=%s" % (d.get("op"), d.get("T"), d.get("abi"), d.get("cls"), d.get("cfg"), d.get("opt"))


def report_lines(v, lines, stats):
    for g, l in lines:
        head, obs = l.split("|", 1)
        d = symrun.kv(head)
        m = re.search(r"\bn=(\d+)", obs)
        n = int(m.group(1)) if m else 0
        stats["evals"] += n
        stats["cases"].add((d.get("cfg"), d.get("opt"), d.get("T"), d.get("abi"), d.get("op")))
        stats["classes"].add((d.get("cfg"), d.get("T"), d.get("abi"), d.get("cls"), d.get("N")))
        stats["ops"].add(d.get("op"))
        if obs.strip().startswith("ok"):
            continue
        cfg, opt, t, abi = g["plan"]
        v.violation(key_of(l), {"kind": "simd-lanes", "plan": [cfg, opt, t, abi], "seed": int(d.get("seed", "1")), "line": l.strip()[:3000],
                                "note": "real SIMDVector operation differs from the scalar operation on the listed lanes (hex bit patterns)"})


# ---------------------------------------------------------------------------------------------------------------------
def theorem_lines(mod="C08"):
    """[(first line, last line, name)] of the theorems of Props/<mod>.lean (to map build errors to obligations)"""
    p = os.path.join(core.LEAN, "FastorModel", "Props", mod + ".lean")
    src = open(p).read().split("\n")
    starts = [(i + 1, re.match(r"^theorem\s+(\S+)", l).group(1)) for i, l in enumerate(src) if re.match(r"^theorem\s+\S+", l)]
    out = []
    for k, (ln, nm) in enumerate(starts):
        end = starts[k + 1][0] - 1 if k + 1 < len(starts) else len(src)
        out.append((ln, end, nm))
    return out


def all_theorems():
    """{module: [fully qualified theorem names]}"""
    out = {}
    for mod in PROP_MODULES:
        p = os.path.join(core.LEAN, "FastorModel", "Props", mod + ".lean")
        src = core.strip_lean_comments(open(p).read())
        ns = re.findall(r"^namespace\s+(\S+)", src, flags=re.M)
        pre = (ns[0] + ".") if ns else ""
        out[mod] = [pre + m for m in re.findall(r"^theorem\s+(\S+)", src, flags=re.M)]
    return out


def audit_all():
    """#print axioms for every theorem of every C08 Props module -> ({name: axioms}, problems)"""
    thms = all_theorems(); results = {}; problems = []
    with core.Scratch() as d:
        f = os.path.join(d, "Audit.lean")
        with open(f, "w") as fh:
            for mod in PROP_MODULES: fh.write("import FastorModel.Props.%s\n" % mod)
            for mod in PROP_MODULES:
                for t in thms[mod]: fh.write("#print axioms %s\n" % t)
        rc, out = core.run(["lake", "env", "lean", f], cwd=core.LEAN, timeout=1800)
    text = out.replace("\n  ", " ")
    for m in re.finditer(r"'([^']+)' (depends on axioms: \[([^\]]*)\]|does not depend on any axioms)", text):
        axs = [a.strip() for a in (m.group(3) or "").split(",") if a.strip()]
        results[m.group(1)] = axs
        bad = [a for a in axs if a not in core.ALLOWED_AXIOMS]
        if bad: problems.append("theorem %s depends on disallowed axioms %s" % (m.group(1), bad))
    for mod in PROP_MODULES:
        for t in thms[mod]:
            if t not in results: problems.append("theorem %s: no axiom report" % t)
    return thms, results, problems


def theorem_coverage(reports):
    """which generated definitions are mentioned by a theorem statement (not only unfolded in a proof)"""
    stmts = ""
    for mod in PROP_MODULES:
        src = core.strip_lean_comments(open(os.path.join(core.LEAN, "FastorModel", "Props", mod + ".lean")).read())
        for m in re.finditer(r"^theorem\s+\S+(.*?):=\s*by", src, flags=re.M | re.S):
            stmts += m.group(1) + "\n"
    cov = {}
    for isa, r in reports.items():
        with_t = []; without = []
        for meta in r["metas"]:
            nm = meta["lean"]
            member = meta["owner"] is not None
            if re.search(r"\b%s\.%s\b" % (isa, re.escape(nm)), stmts): with_t.append(nm)
            elif member: without.append(nm)
        helpers = [m["lean"] for m in r["metas"] if m["owner"] is None]
        cov[isa] = {"generated": len(r["metas"]), "members": len([m for m in r["metas"] if m["owner"] is not None]), "helpers": len(helpers),
                    "with_theorem": len(with_t), "members_without_theorem": sorted(without),
                    "note": "helpers (extintrin.h functions) are covered through the members that call them unless they have an own theorem"}
    return cov



def ops_of_theorem(name):
    """theorem name <isa>_<T>_<op...> -> (cfg, T, abi guess, op prefix) used to aim the failing-input search"""
    m = re.match(r"^(sse2|avx2|avx512)[_.](int32|int64|float|double|[a-z0-9_]+?)_", name)
    return m.groups() if m else (None, None)


def untied_info(broken, reports):
    """for every broken theorem: the generated definitions it mentions that the translator no longer produces, with the C
    function they came from (label in the committed Generated file) and the construct that is outside the grammar now"""
    prev = {}
    for isa in reports:
        try:
            rc, out = core.run(["git", "show", "HEAD:lean/FastorModel/Generated/Simd_%s.lean" % isa], cwd=core.VERIF, timeout=60)
        except Exception:
            rc, out = 1, ""
        if rc == 0:
            for m in re.finditer(r"^-- (.*)\ndef (\S+)", out, flags=re.M): prev[(isa, m.group(2))] = m.group(1)
    now = {isa: set(r["translated"]) for isa, r in reports.items()}
    why = {isa: dict(r["untranslated"]) for isa, r in reports.items()}
    info = {}
    for mod in PROP_MODULES:
        path = os.path.join(core.LEAN, "FastorModel", "Props", mod + ".lean")
        src = open(path).read().split("\n")
        for (a, b, nm) in theorem_lines(mod):
            tag = nm if mod in ("C08", "C08Kernels") else "%s.%s" % (mod.replace("C08Ops_", ""), nm)
            if tag not in broken: continue
            text = "\n".join(src[a - 1:b])
            gone = []
            for isa, d in set(re.findall(r"\b(sse2|avx2|avx512)\.([A-Za-z_][\w.]*)", text)):
                d = d.rstrip(".")
                if isa in now and d not in now[isa]:
                    label = prev.get((isa, d))
                    gone.append({"definition": "%s.%s" % (isa, d), "function": label or "?", "outside_grammar": why[isa].get(label, "not produced by the translator any more") if label else "?"})
            info[tag] = gone
    return info


def run(tier, seed):
    v = core.Verdict(PID, tier, seed)
    v.assumptions = [
        "IEEE rounding of one hardware floating-point instruction equals the scalar operation (uninterpreted `fo.*` in the theorems; the harness compares bit patterns against scalar C++ compiled by the same g++)",
        "NaN payloads are not compared; min/max may return either operand for NaN operands and for (+0,-0) (the instruction's choice)",
        "fused multiply-add: either the single-rounding fma or the two-rounding a*b+c is accepted as the scalar operation",
        "integer overflow on the T[N] fallback class is undefined in C++ (signed scalars): those cases are excluded there, wrap-around is required of the intrinsic classes",
        "floating-point horizontal sums/products are tested on values for which every association is exact; the theorems fix the association tree and prove equality with the fold under the commutative-monoid laws",
        "rcp/rsqrt: relative error <= 1.5*2^-12 is a TEST on seeded inputs, not a proof",
    ]
    log = []
    t0 = time.time()
    reports = xlate_simd.regenerate(xlate_simd.ISAS, core.REPO, log)
    xlate_validate.write_tables(reports, log)
    for isa, r in reports.items():
        if r.get("error"):
            v.violation("translator-failed " + isa, {"kind": "harness-failure", "detail": r["error"],
                        "note": "the headers of configuration %s could not be preprocessed / translated; the previous generated file was kept, the theorems are about stale definitions" % isa}, nofail=True)
    # only C08's own modules and the driver: a change that breaks another property's proofs must not alarm here
    ok_all, out = core.lake_build(targets=["FastorModel.Props.%s" % m for m in PROP_MODULES] + ["fmodel"], log=log)
    thms_by_mod = all_theorems()
    thms = [t for m in PROP_MODULES for t in thms_by_mod[m]]
    v.cov["obligations"] = len(thms); v.cov["discharged"] = 0
    broken = []            # names of theorems whose proof no longer builds
    proof_info = {"log": log, "build_ok": ok_all}
    fmodel_ok = ok_all
    if not ok_all:
        mods, errs = core.failed_modules(out)
        proof_info["failed_modules"] = mods
        proof_info["errors"] = ["%s:%s: %s" % (e[0], e[1], e[3]) for e in errs][:30]
        mine = [m for m in mods if m.startswith("FastorModel.Props.C08") or m.startswith("FastorModel.Generated.Simd")]
        other = [m for m in mods if m not in mine]
        if other or not mods:
            v.violation("lean-build-failed " + ",".join(other or ["?"]), {"kind": "proof-obligation", "detail": proof_info, "tail": out[-3000:],
                        "note": "lake build failed outside C08's modules; nothing can be concluded"}, nofail=True)
        for mod in PROP_MODULES:
            tl = theorem_lines(mod)
            for (f, ln, col, msg) in errs:
                if f.endswith("Props/%s.lean" % mod):
                    for (a, b, nm) in tl:
                        tag = nm if mod == "C08" else "%s.%s" % (mod.replace("C08Ops_", ""), nm)
                        if a <= int(ln) <= b and tag not in broken: broken.append(tag)
        if any(m.startswith("FastorModel.Generated.Simd_") for m in mods):
            broken.append("generated-definitions-do-not-compile")
        # the driver does not depend on Props: build it alone for the rest of the check
        fmodel_ok, out2 = core.lake_build(targets=["fmodel"], log=log)
    else:
        hits = core.grep_forbidden()
        _, results, problems = audit_all()
        problems = hits + problems
        proof_info["problems"] = problems
        v.cov["discharged"] = len([t for t in thms if t in results and all(a in core.ALLOWED_AXIOMS for a in results[t])]) if not hits else 0
        v.cov["theorems"] = [{"name": t, "axioms": results.get(t)} for t in thms_by_mod["C08"] + thms_by_mod["C08Kernels"]]
        v.cov["generated_theorems"] = {m: len(thms_by_mod[m]) for m in PROP_MODULES if m.startswith("C08Ops")}
        v.cov["axioms_used"] = sorted(set(a for t in thms for a in (results.get(t) or [])))
        if problems:
            v.violation("audit " + "; ".join(problems)[:200], {"kind": "audit", "detail": problems}, nofail=True)
        if tier == "thorough" and not problems:
            okc, outc = core.leanchecker("FastorModel.Props." + PID)
            proof_info["leanchecker"] = "ok" if okc else outc
            if not okc: v.violation("leanchecker failed", {"kind": "audit", "detail": outc}, nofail=True)
    v.cov["proof"] = proof_info
    v.cov["theorem_coverage"] = theorem_coverage(reports)
    v.cov["translator"] = {isa: {"translated": len(r["translated"]), "untranslated": len(r["untranslated"]), "file_rewritten": r["changed"],
                                 "untranslated_by_reason": _by_reason(r["untranslated"]), "translated_names": r["translated"]} for isa, r in reports.items()}
    v.cov["notes_compile_time"] = [
        "_mm256_div_epi32x (extintrin.h) stores the zero register over the computed quotients; no SIMDVector member calls it (dead code, probed by run_helpers() of harness/simd_real.h)",
        "minimum()/maximum() are declared without a body for SIMDVector<complex<float>,sse|avx|avx512> and SIMDVector<complex<double>,avx|avx512>: calling them does not compile; the harness calls them for complex<double>,sse only",
        "SIMDVector<std::complex<T>,simd_abi::scalar> does not compile when instantiated (several ill-formed members); excluded from the plan"]

    stats = {"evals": 0, "cases": set(), "classes": set(), "ops": set()}
    nrand = 16 if tier == "quick" else 200
    plan = quick_plan() if tier == "quick" else thorough_plan()
    with core.Scratch() as wd:
        lines, infra = run_harness(groups_of(plan, seed, nrand), wd)
        before = len(v.violations)
        report_lines(v, lines, stats)
        for e in infra:
            v.violation("harness-failure %s %s" % (e["group"], e["what"]), {"kind": "harness-failure", "detail": e,
                        "note": "the harness for this configuration did not compile or crashed; the property is not shown for it"}, nofail=True)
        if fmodel_ok:
            from props import c08_intrin, c08_gen
            c08_intrin.run(v, wd, tier, seed, stats)
            c08_gen.run(v, wd, reports, tier, seed, stats)
        if broken:
            # failing-input search: the enlarged box (more seeds, all optimisation levels) on the configurations the broken theorems are about
            found = len(v.violations) > before        # (known findings do not count: they fail on the unchanged tree too)
            if not found:
                cfgs = sorted(set(ops_of_theorem(b)[0] or "avx2" for b in broken))
                p2 = [(c, o, t, a) for (c, o, t, a) in thorough_plan() if c in cfgs and (a in NATIVE[c] or t == "kernels")]
                for s2 in (seed + 101, seed + 202):
                    l2, _ = run_harness(groups_of(p2, s2, 400), wd)
                    b2 = len(v.violations)
                    report_lines(v, l2, stats)
                    if len(v.violations) > b2: found = True; break
            gone = untied_info(broken, reports)
            for b in broken:
                g = gone.get(b, [])
                if g:
                    v.notes.append("theorem %s is no longer tied to the code: %s" % (b, "; ".join("%s [%s] is UNTRANSLATED now (%s)" % (x["definition"], x["function"][:90], x["outside_grammar"][:120]) for x in g)))
                    note = ("the theorem can no longer be stated about the code: the function(s) listed in `no_longer_translated` were rewritten with a construct outside the translator's grammar. "
                            "This is NOT evidence of a defect by itself; the real functions were run lane by lane against the scalar / specification oracle on boundary and seeded values. ")
                else:
                    v.notes.append("theorem %s no longer builds against the definitions generated from the current tree (the code's intrinsic sequence changed)" % b)
                    note = "the lane theorem about the definition generated from the current repo tree no longer builds: the code's straight-line intrinsic sequence changed. "
                v.violation("proof-obligation " + b, {"kind": "proof-obligation", "theorem": b, "no_longer_translated": g, "errors": [e for e in (proof_info.get("errors") or []) if True][:30],
                            "note": note + ("Failing inputs on the real code are reported in the other replay files." if found else "The search on the real code (quick plan + the enlarged plan, incl. the kernel oracles) found no failing input.")},
                            nofail=not found)
    v.cov.update({"evaluations": stats["evals"], "distinct_nontrivial": len(stats["cases"]),
                  "rule": "one case = (configuration, optimisation level, T, ABI, operation); each runs the boundary cross product (|pool|^2 lane-rotated operand pairs) plus seeded random lanes "
                          "through the real SIMDVector member and compares every lane's bit pattern with scalar C++; evaluations = lanes compared; non-trivial = all (none is a fixed constant case)",
                  "configs": sorted(set("%s/%s" % (c, o) for (c, o, t, a) in plan)),
                  "classes_hit": sorted("%s:%s/%s:%s:N=%s" % c for c in stats["classes"]),
                  "operations": sorted(o for o in stats["ops"] if o), "plan_size": len(plan),
                  "samples": [l for _, l in lines[:3]]})
    return v.finish()


def _by_reason(untranslated):
    d = {}
    for label, why in untranslated:
        w = re.sub(r"'[^']*'|\S*::\S*|_mm\w+", "_", why)[:60]
        d[w] = d.get(w, 0) + 1
    return d


def replay(path):
    obj = json.load(open(path))
    print(json.dumps(obj, indent=1)[:3000])
    if obj.get("kind") == "simd-lanes":
        cfg, opt, t, abi = obj["plan"]
        with core.Scratch() as wd:
            lines, infra = run_harness(groups_of([(cfg, opt, t, abi)], obj.get("seed", 1), 16), wd)
        want = symrun.kv(obj["line"].split("|")[0]).get("op")
        bad = False
        for g, l in lines:
            if symrun.kv(l.split("|")[0]).get("op") == want:
                print(l); bad = bad or "FAIL" in l
        for e in infra: print(e); bad = True
        return 1 if bad else 0
    if obj.get("kind") == "intrinsic-model":
        from props import c08_intrin
        return c08_intrin.replay(obj)
    if obj.get("kind") == "translator-validation":
        out = core.fmodel([obj["input"]])
        print("generated definition now:", out[0][:600]); print("real code then:        ", obj["real_code"][:600])
        return 1
    if obj.get("kind") == "proof-obligation":
        log = []
        xlate_simd.regenerate(xlate_simd.ISAS, core.REPO, log)
        ok, out = core.lake_build(targets=["FastorModel.Props.C08"], log=log)
        print("\n".join(log)); print(out[-1500:] if not ok else "Props/C08.lean builds")
        return 0 if ok else 1
    print("replay: nothing executable in this replay file (kind=%s)" % obj.get("kind"))
    return 1
