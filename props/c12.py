"""C12 — solve(A,b): inverse-based, block / simple LU and their pivoted forms, vector and multi-column right-hand sides,
tensor and expression (lazy) operands, and the substitution helpers forward_subs / backward_subs.
Proof: Props/C12.lean about Model/Solve.lean (+ Model/LU.lean).  Ties: (K3) the REAL solve<...> overloads and
internal::forward_subs / backward_subs over the exact rational carrier: X compared entry by entry with the Lean model over core Rat,
and A*X == B checked exactly by an in-harness oracle; (K4) float/double per ISA: residual measured against the property's bound (a test)."""
import os, random, re
from vlib import core, symrun, flow

PID = "C12"
SSTRAT = {"inv": 0, "invpiv": 1, "block": 2, "blockpiv": 3, "simple": 4, "simplepiv": 5}

def solve_calls(n, rng, seeds, cols, forms=(0,), strats=range(6)):
    cs = []
    for s in strats:
        for c in cols:
            for form in forms:
                for k, sd in enumerate(seeds):
                    fams = (0, 1) if n <= 10 else (1,)
                    for fam in fams:
                        if fam == 0 and k > 0:
                            continue
                        cs.append("run_solve<%d,%d,%d,%d>(%du,%d);" % (n, c, s, form, sd, fam))
    return cs

def rat_groups(tier, seed):
    rng = random.Random(seed * 9001 + 5)
    seeds = [seed * 211 + 1, seed * 211 + 2] if tier == "quick" else [seed * 211 + k for k in range(1, 5)]
    groups = []
    def g(key, calls, isa="sse2"):
        groups.append({"key": key, "header": "solve_rat.h", "isa": isa, "opt": "-O0", "calls": calls})
    def cols_for(n, k):
        # vector right-hand side (0), one column, and k seed-dependent widths out of 2..8
        return [0, 1] + sorted(rng.sample(range(2, 9), k))
    if tier == "quick":
        for key, sizes in (("rat/n1-3", [1, 2, 3]), ("rat/n4-5", [4, 5]), ("rat/n6-7", [6, 7]), ("rat/n8-9", [8, 9])):
            calls = []
            for n in sizes:
                calls += solve_calls(n, rng, seeds, [0, rng.randrange(1, 9)])
                calls += solve_calls(n, rng, seeds[:1], [rng.choice([0, 3])], forms=(rng.randrange(1, 5),), strats=(rng.randrange(6),))
                calls += ["run_subs<%d,%d>(%du);" % (n, c, seeds[0]) for c in (0, 1, rng.randrange(2, 9))]
            g(key, calls)
        # forward/backward substitution and get_lu_solve have no size classes (compile-time recursion for every n); the LU / inverse
        # underneath have (C10, C11): one size of the recursive class on each side of 16|17 plus a seed-dependent one, and 33
        mids = [12, 17, rng.choice([10, 11, 13, 14, 15, 16, 18, 19, 20])]
        for n in mids:
            calls = solve_calls(n, rng, seeds[:1], [0, rng.randrange(1, 9)])
            calls += ["run_subs<%d,%d>(%du);" % (n, c, seeds[0]) for c in (0, rng.randrange(1, 9))]
            g("rat/n%d" % n, calls)
        g("rat/b33", solve_calls(33, rng, seeds[:1], [0, 3], strats=(3,)) + solve_calls(33, rng, seeds[:1], [2], strats=(0,))
          + ["run_subs<33,0>(%du);" % seeds[0], "run_subs<33,2>(%du);" % seeds[0]])
    else:
        # one size per translation unit (a unit with two sizes x all widths x all forms exceeded the compile timeout on a loaded machine)
        for n in range(1, 21):
            calls = solve_calls(n, rng, seeds[:2], [0, 1, rng.randrange(2, 9)])
            calls += solve_calls(n, rng, seeds[:1], [rng.choice([0, 3])], forms=(1, 2, 3, 4), strats=(rng.randrange(6), rng.randrange(6)))
            calls += ["run_subs<%d,%d>(%du);" % (n, c, sd) for c in range(0, 9) for sd in seeds[:2]]
            g("rat/n%d" % n, calls)
        g("rat/b32", solve_calls(32, rng, seeds[:1], [0, 5], strats=(0, 1, 2, 3)))
        g("rat/b33", solve_calls(33, rng, seeds[:2], [0, 1, 5]) + ["run_subs<33,%d>(%du);" % (c, seeds[0]) for c in (0, 1, 4)])
        g("rat/b65", solve_calls(65, rng, seeds[:1], [0, 2], strats=(1, 3)))
    return groups

def measured_groups(tier, seed):
    """float/double on rounded data: residual MEASURED against the bound (a test)"""
    combos = [(i, t) for i in core.ALL_ISAS for t in ("float", "double")]
    if tier == "quick":
        ts = ("double", "float")
        combos = [(isa, ts[(k + seed) % 2]) for k, isa in enumerate(core.QUICK_ISAS)]
    sizes = [3, 9, 17] if tier == "quick" else [1, 2, 3, 4, 5, 7, 8, 9, 12, 17, 20, 33]
    groups = []
    for isa, t in combos:
        calls = []
        for n in sizes:
            for s in range(6):
                if tier == "quick" and n > 9 and s not in (1, 3):
                    continue
                for c in ((0, 3) if tier == "quick" else (0, 1, 2, 5, 8)):
                    for k in range(2 if tier == "quick" else 4):
                        calls.append("run_solvereal<%s,%d,%d,%d>(%du);" % (t, n, c, s, seed * 89 + k))
        groups.append({"key": "real/%s/%s" % (isa, t), "header": "solve_real.h", "isa": isa, "opt": "-O2", "calls": calls})
    return groups

def exact_groups(tier, seed):
    """float/double with integer solutions and exactly representable intermediates: X must be bit for bit the exact solution.
    Every strategy x every size class of the LU / inverse underneath x vector and multi-column (columns != n) x every ISA x both types,
    tensor, expression and trans() operand forms."""
    rng = random.Random(seed * 6007 + 31)
    isas = core.QUICK_ISAS if tier == "quick" else core.ALL_ISAS
    seeds = [seed * 43 + 1, seed * 43 + 2] if tier == "quick" else [seed * 43 + k for k in range(1, 5)]
    groups = []
    for k, isa in enumerate(isas):
        for t in ("float", "double"):
            # quick: per ISA one type gets the full plan (rotating with the seed), the other a reduced one
            full = ("float", "double")[(k + seed) % 2] == t
            calls = []
            def add(n, strats, cols, forms=(0,), sds=seeds):
                for s in strats:
                    if t == "float" and s in (0, 1):
                        # the explicit inverse needs more than 24 significant bits even on these inputs: not exact in float, so the
                        # inverse-based strategies are run exactly in double only (and measured in float by solve_real.h)
                        continue
                    for c in cols:
                        for f in forms:
                            for sd in sds:
                                calls.append("run_solveexact<%s,%d,%d,%d,%d>(%du);" % (t, n, c, s, f, sd))
            if tier == "quick":
                small = [3, 8, rng.choice([2, 4, 5, 6, 7])] if full else [4]
                mid = [9, rng.choice([16, 17])] if full else [rng.choice([8, 9]), 17]
            else:
                small = [1, 2, 3, 4, 5, 6, 7, 8] if full else [2, 4, 7]
                mid = [9, 10, 12, 16, 17, 20] if full else [9, 16]
            for n in small + mid:
                wide = rng.choice([c for c in range(2, 9) if c != n])
                add(n, range(6), [0, wide], sds=seeds if full else seeds[:1])
                if full:
                    add(n, [rng.randrange(2, 6)], [rng.choice([0, wide])], forms=(1, 2, 3, 4), sds=seeds[:1])
            if full:
                add(33, [1, 3], [0, 3], sds=seeds[:1]); add(33, [0, 2, 5], [2], sds=seeds[:1])
            else:
                add(33, [3], [2], sds=seeds[:1])
            if tier == "thorough":
                add(32, [0, 3], [0, 5], sds=seeds[:1]); add(65, [1, 3], [0, 2], sds=seeds[:1])
            groups.append({"key": "exact/%s/%s" % (isa, t), "header": "lu_exact.h", "isa": isa, "opt": "-O2", "calls": calls})
    return groups

def real_groups(tier, seed):
    return exact_groups(tier, seed) + measured_groups(tier, seed)

def _only(fn):
    """VERIF_GROUPS=<regex> restricts a run to the matching translation units (used for mutation experiments only)"""
    pat = os.environ.get("VERIF_GROUPS")
    if not pat:
        return fn
    return lambda tier, seed: [g for g in fn(tier, seed) if re.search(pat, g["key"])]

def short_key(f):
    d = symrun.kv(f["input"]); o = symrun.kv(f["impl"])
    op = f["input"].split()[0]
    if op == "solve":
        return "rat solve n=%s c=%s vec=%s strat=%s form=%s fam=%s seed=%s %s" % (d.get("n"), d.get("c"), d.get("vec"), d.get("strat"), d.get("form"), d.get("fam"), d.get("seed"), o.get("ORACLE", "?"))
    return "rat %s n=%s c=%s vec=%s p=%s seed=%s %s" % (op, d.get("n"), d.get("c"), d.get("vec"), "perm" if d.get("p", "-") != "-" else "-", d.get("seed"), o.get("ORACLE", "?"))

def run(tier, seed):
    return flow.standard_run(
        PID, tier, seed, "Fastor.C12.solve_lu_correct", "FastorModel.Model.Solve", _only(rat_groups), _only(real_groups),
        assumptions=["the strategy is defined on A (non-zero pivots as met by the strategy; C10/C11); the harness screens its seeded matrices",
                     "inverse / matmul return the exact inverse / product over the field (C10, C01)",
                     "floating point: the residual bound 8*n*eps*(|A||X|+|B|) is measured, not proved; ill-conditioned cases (growth > 1e3) are counted, not judged"],
        rule="exact cases: (n, columns incl. the vector overload, strategy, operand form tensor/expression, family, seed) -> the real solve overloads over vf::Rat, "
             "X compared entry by entry with the Lean model over Rat and A*X == B checked exactly; forward_subs (plain and pivoted) and backward_subs on their own "
             "for 0..8 columns; every case non-trivial; real cases: float/double x ISA, residual vs bound",
        nontrivial=lambda inp, mo: True, per_tu=100000, ofail_key=short_key)

def sym_call_of(inp):
    d = symrun.kv(inp); op = inp.split()[0]
    C = 0 if d.get("vec") == "1" else int(d["c"])
    if op == "solve":
        call = "run_solve<%s,%d,%d,%s>(%su,%s);" % (d["n"], C, SSTRAT[d["strat"]], d["form"], d["seed"], d["fam"])
    else:
        call = "run_subs<%s,%d>(%su);" % (d["n"], C, d["seed"])
    return {"key": "replay", "header": "solve_rat.h", "isa": "sse2", "opt": "-O0", "calls": [call]}

def replay(path):
    return flow.standard_replay(path, sym_call_of)
