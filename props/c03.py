"""C03 — pairwise einsum.  Proof: Props/C03.lean.  Ties: real einsum<Index<I>,Index<J>> over the
symbolic carrier vs the Lean model (result extents, values, store order incl. zero-fill, read sets,
vector stride, aligned-access count), every index pattern of small ranks."""
import random, itertools
from vlib import core, symrun, flow

PID = "C03"

def patterns(ra, rb):
    """all labelings of ra+rb positions (restricted growth strings) in which no label occurs more than twice"""
    n = ra + rb
    out = []
    def rec(pref, mx):
        if len(pref) == n:
            out.append((tuple(pref[:ra]), tuple(pref[ra:])))
            return
        for lab in range(mx + 2):
            if pref.count(lab) < 2:
                rec(pref + [lab], max(mx, lab))
    rec([], -1)
    return out

def extent_choices(I, J, rng, V):
    names = sorted(set(I) | set(J))
    res = []
    for variant in range(2):
        ext = {nm: rng.choice([2, 3, 4, 5]) for nm in names}
        if variant == 1 and J:
            ext[J[-1]] = rng.choice([V, 2 * V]) if V <= 8 else V     # vectorisable last extent of the 2nd operand
        res.append(ext)
    return res

def call(sz, I, J, ext):
    cs = lambda t: " VFC ".join(str(x) for x in t)
    return "EINSUM_CASE(Sym%d, %s, %s, %s, %s);" % (sz, cs(I), cs(J), cs([ext[i] for i in I]), cs([ext[j] for j in J]))

def sym_groups(tier, seed):
    rng = random.Random(seed * 9176 + 11)
    isas = core.QUICK_ISAS if tier == "quick" else core.ALL_ISAS
    pats = []
    for ra, rb in [(1, 1), (1, 2), (2, 1), (2, 2)]:
        pats += patterns(ra, rb)
    big = []
    for ra, rb in [(1, 3), (3, 1), (2, 3), (3, 2), (3, 3)] + ([(4, 2), (2, 4), (4, 3), (3, 4)] if tier == "thorough" else []):
        big += patterns(ra, rb)
    groups = []
    for isa in isas:
        for sz in (4, 8):
            V = 16 // sz
            sel = list(pats) + rng.sample(big, min(len(big), 40 if tier == "quick" else 400))
            calls = []
            for (I, J) in sel:
                for ext in extent_choices(I, J, rng, V)[: (2 if tier == "thorough" or len(I) + len(J) <= 4 else 1)]:
                    total = 1
                    for nm in set(I) | set(J): total *= ext[nm]
                    if total <= 2000:
                        calls.append(call(sz, I, J, ext))
            groups.append({"key": "%s/sz%d" % (isa, sz), "header": "einsum_sym.h", "isa": isa, "calls": calls})
    groups.append({"key": "sse2/sz4/c++17", "header": "einsum_sym.h", "isa": "sse2", "std": "c++17",
                   "calls": [call(4, I, J, extent_choices(I, J, rng, 4)[1]) for (I, J) in rng.sample(pats + big, 25)]})
    return groups

def run(tier, seed):
    return flow.standard_run(
        PID, tier, seed, "Fastor.C03.loopnest_correct", "FastorModel.Model.Einsum", sym_groups, None,
        assumptions=["no index occurs more than twice in the concatenated index lists (the property's precondition)",
                     "exact symbolic data; the rounding clause of the property is not a theorem",
                     "Voigt overloads and CONTRACT_OPT variants other than the default are not modelled"],
        rule="every labelling of ranks (1,1),(1,2),(2,1),(2,2) with each label at most twice (all ways of identifying indices between and within the "
             "operands) and a seeded sample of ranks up to (3,3) [(4,3) thorough], two extent assignments each (one with a vectorisable last extent); "
             "non-trivial = dispatches to the general loop nest or a gemm-type re-route",
        nontrivial=lambda inp, mo: symrun.kv(mo).get("route") in ("general", "gemm", "gemv", "gevm"), per_tu=30)

def sym_call_of(inp):
    d = symrun.kv(inp)
    lst = lambda s: [] if s == "-" else [int(x) for x in s.split(",")]
    I, J, dI, dJ = lst(d["I"]), lst(d["J"]), lst(d["dI"]), lst(d["dJ"])
    cs = lambda t: " VFC ".join(str(x) for x in t)
    return {"key": "replay", "header": "einsum_sym.h", "isa": d["cfg"],
            "calls": ["EINSUM_CASE(Sym%s, %s, %s, %s, %s);" % (d["sz"], cs(I), cs(J), cs(dI), cs(dJ))]}

def replay(path):
    return flow.standard_replay(path, sym_call_of)
