"""C03 — pairwise einsum.  Proof: Props/C03.lean.  Ties: real einsum<Index<I>,Index<J>> over the
symbolic carrier vs the Lean model (result extents, values, store order incl. zero-fill, read sets,
vector stride, aligned-access count), every index pattern of small ranks."""
import random, itertools
from vlib import core, symrun, flow

PID = "C03"

def patterns(ra, rb):
    """all labelings of ra+rb positions (restricted growth strings) in which no label occurs more than twice"""
    n = ra + rb
    out = []
    def rec(pref, mx):
        if len(pref) == n:
            out.append((tuple(pref[:ra]), tuple(pref[ra:])))
            return
        for lab in range(mx + 2):
            if pref.count(lab) < 2:
                rec(pref + [lab], max(mx, lab))
    rec([], -1)
    return out

def extent_choices(I, J, rng, V):
    names = sorted(set(I) | set(J))
    res = []
    for variant in range(2):
        ext = {nm: rng.choice([2, 3, 4, 5]) for nm in names}
        if variant == 1 and J:
            ext[J[-1]] = rng.choice([V, 2 * V]) if V <= 8 else V     # vectorisable last extent of the 2nd operand
        res.append(ext)
    return res

def call(sz, I, J, ext):
    cs = lambda t: " VFC ".join(str(x) for x in t)
    return "EINSUM_CASE(Sym%d, %s, %s, %s, %s);" % (sz, cs(I), cs(J), cs([ext[i] for i in I]), cs([ext[j] for j in J]))

def sym_groups(tier, seed):
    rng = random.Random(seed * 9176 + 11)
    isas = core.QUICK_ISAS if tier == "quick" else core.ALL_ISAS
    pats = []
    for ra, rb in [(1, 1), (1, 2), (2, 1), (2, 2)]:
        pats += patterns(ra, rb)
    big = []
    for ra, rb in [(1, 3), (3, 1), (2, 3), (3, 2), (3, 3)] + ([(4, 2), (2, 4), (4, 3), (3, 4)] if tier == "thorough" else []):
        big += patterns(ra, rb)
    groups = []
    for isa in isas:
        for sz in (4, 8):
            V = 16 // sz
            sel = list(pats) + rng.sample(big, min(len(big), 40 if tier == "quick" else 400))
            calls = []
            for (I, J) in sel:
                for ext in extent_choices(I, J, rng, V)[: (2 if tier == "thorough" or len(I) + len(J) <= 4 else 1)]:
                    total = 1
                    for nm in set(I) | set(J): total *= ext[nm]
                    if total <= 2000:
                        calls.append(call(sz, I, J, ext))
            groups.append({"key": "%s/sz%d" % (isa, sz), "header": "einsum_sym.h", "isa": isa, "calls": calls})
    groups.append({"key": "sse2/sz4/c++17", "header": "einsum_sym.h", "isa": "sse2", "std": "c++17",
                   "calls": [call(4, I, J, extent_choices(I, J, rng, 4)[1]) for (I, J) in rng.sample(pats + big, 25)]})
    return groups

# ---------------------------------------------------------------------------------------------------
# real element types (harness/einsum_real.h): the float / double / integer specialisations of is_vectorisable (SIMD
# stride per element type), the intrinsic back ends (_dyadic, _inner, _matmul per ISA), the CONTRACT_OPT loop variants
# and the C++14 / C++17 index tables are only reachable with the real types; exact small-integer data against a naive
# Einstein sum.
RP_GENERAL = [((0, 1), (2, 1, 3)), ((0, 1, 2), (0, 1, 3)), ((1, 0), (1, 2)), ((0, 1), (0, 2)), ((0, 1, 2), (3, 1, 4)), ((0,), (1, 0, 2)),
              ((0, 1), (2, 3)), ((0,), (1, 2)), ((0, 1), (2,)), ((0, 1, 2), (2, 3)), ((0, 1), (2, 0, 1, 3)), ((0, 1, 2), (1, 3)), ((0, 1), (1, 2, 3)),
              ((0, 0), (1,)), ((0,), (1, 1, 2)), ((0, 1, 1), (2, 0)), ((0, 1, 2, 3), (1, 3, 4))]
RP_REDUCE = [((0, 1), (2, 1)), ((0, 1, 2), (3, 2)), ((0, 1), (0, 1)), ((0, 1, 2), (0, 1, 2)), ((0, 1), (1, 0)), ((0, 1, 2), (1, 2)), ((0, 1, 2), (2, 1)),
             ((0,), (0,)), ((0, 1), (1,)), ((0,), (0, 1)), ((0, 1), (0,)), ((0,), (1, 0)), ((0, 1), (1, 2)), ((0, 1, 2), (2, 3, 4)), ((0, 1, 2), (1, 2, 3))]
LASTS = {"float": [2, 3, 4, 5, 6, 8, 12, 16, 20], "double": [2, 3, 4, 5, 6, 8, 10, 12], "int32_t": [2, 3, 4, 6, 8, 9, 16], "int64_t": [2, 3, 4, 6, 8]}

def real_cells(tier):
    if tier == "quick":
        return [("sse2", "c++14", None), ("avx2", "c++17", -1), ("avx512", "c++14", 1), ("avx2", "c++14", None), ("sse2", "c++17", -1), ("avx512", "c++17", None)]
    # CONTRACT_OPT=1/-1 together with FASTOR_DONT_VECTORISE (the "scalar" flag set) does not compile in the library (two tuning macros at once:
    # outside the one-at-a-time quantification of the properties; noted in DESIGN.md 10.5), so the scalar flag set runs the default loop nest only
    return [(isa, std, co) for isa in ("scalar", "sse2", "avx2", "avx512") for std in ("c++14", "c++17") for co in (None, 1, -1) if not (isa == "scalar" and co is not None)] + \
           [(isa, "c++14", None) for isa in ("sse42", "avx")]

def real_groups(tier, seed):
    rng = random.Random(seed * 4099 + 7)
    cs = lambda t: " VFC ".join(str(x) for x in t)
    groups = []
    for ci, (isa, std, co) in enumerate(real_cells(tier)):
        types = ["float", "double"] + (["int32_t", "int64_t"] if (tier != "quick" or ci % 3 == 0) else [])
        for t in types:
            calls = []
            def add(I, J, ext):
                tot = 1
                for nm in set(I) | set(J): tot *= ext[nm]
                if tot <= 4000:
                    calls.append("EINSUM_REAL(%s, %s, %s, %s, %s, %du);" % (t, cs(I), cs(J), cs([ext[i] for i in I]), cs([ext[j] for j in J]), seed * 31 + len(calls)))
            lasts = LASTS[t]
            npat = 6 if tier == "quick" else len(RP_GENERAL)
            for (I, J) in rng.sample(RP_GENERAL, npat):
                for L in (rng.sample(lasts, 3) if tier == "quick" else rng.sample(lasts, 5)):
                    ext = {nm: rng.choice([2, 3, 4, 5]) for nm in set(I) | set(J)}
                    ext[J[-1]] = L                      # the extent that decides the SIMD type / stride of the loop nest
                    if rng.random() < 0.5: ext[I[-1]] = ext.get(I[-1]) if I[-1] == J[-1] else rng.choice(lasts)
                    add(I, J, ext)
            for (I, J) in (rng.sample(RP_REDUCE, 5) if tier == "quick" else RP_REDUCE):
                for rep in range(1 if tier == "quick" else 3):
                    ext = {nm: rng.choice([2, 3, 4, 5, 8]) for nm in set(I) | set(J)}
                    ext[J[-1]] = rng.choice(lasts)
                    add(I, J, ext)
            # intrinsic back ends with size-specific kernels: _dyadic (1,2,3,4 per side), inner, outer of matrices
            for n in ([1, 2, 3, 4] if tier != "quick" else rng.sample([1, 2, 3, 4], 2)):
                calls.append("EINSUM_REAL(%s, 0, 1, %d, %d, %du);" % (t, n, n, seed + n))
                if n > 1:       # outer(Tensor<T,1>,Tensor<T,1>) is an ambiguous overload in the library (rejected at compile time)
                    calls.append("OUTER_REAL(%s, %d, %d, %du);" % (t, n, n, seed + n))
            for (da, db) in ([(2, 3), (3, 2), (4, 2), (5, 7)] if tier != "quick" else [rng.choice([(2, 3), (3, 2), (4, 2), (5, 7)])]):
                calls.append("OUTER_REAL(%s, %d, %d, %du);" % (t, da, db, seed))
            for m in ([2, 3] if tier != "quick" else [rng.choice([2, 3])]):
                calls.append("OUTER_REAL(%s, %d VFC %d, %d VFC %d, %du);" % (t, m, m, m, m, seed))
            for n in (rng.sample(range(1, 20), 3) if tier == "quick" else range(1, 36)):
                calls.append("INNER_REAL(%s, %d, %du);" % (t, n, seed + n))
            calls.append("INNER_REAL(%s, %d VFC %d, %du);" % (t, rng.choice([2, 3, 4]), rng.choice([2, 3, 4, 5]), seed))
            L = rng.choice(lasts)
            calls.append("EINSUM1_REAL(%s, 0 VFC 0 VFC 1, 3 VFC 3 VFC %d, %du);" % (t, L, seed))
            calls.append("EINSUM1_REAL(%s, 0 VFC 1 VFC 0, 3 VFC %d VFC 3, %du);" % (t, L, seed))
            calls.append("EINSUM1_REAL(%s, 0 VFC 0, %d VFC %d, %du);" % (t, L, L, seed))
            if std == "c++17":      # the explicit-output form is a C++17 feature of the library (it does not compile as C++14)
                calls.append("EINSUMX_REAL(%s, 0 VFC 1, 1 VFC 2, 2 VFC 0, 3 VFC 4, 4 VFC %d, %du);" % (t, L, seed))
                calls.append("EINSUMX_REAL(%s, 0 VFC 1, 2 VFC 1 VFC 3, 3 VFC 0 VFC 2, 3 VFC 4, 5 VFC 4 VFC %d, %du);" % (t, L, seed))
                calls.append("EINSUMX_REAL(%s, 0 VFC 1 VFC 2, 3 VFC 1, 0 VFC 3 VFC 2, 2 VFC 3 VFC %d, 5 VFC 3, %du);" % (t, L, seed))
            defs = ["-DCONTRACT_OPT=%d" % co] if co is not None else []
            groups.append({"key": "%s/%s/co%s/%s" % (isa, std, co, t), "header": "einsum_real.h", "isa": isa, "std": std, "opt": "-O2", "defs": defs, "calls": calls})
    return groups

def run(tier, seed):
    return flow.standard_run(
        PID, tier, seed, "Fastor.C03.loopnest_correct", "FastorModel.Model.Einsum", sym_groups, real_groups,
        assumptions=["no index occurs more than twice in the concatenated index lists (the property's precondition)",
                     "exact symbolic data; the rounding clause of the property is not a theorem",
                     "Voigt overloads are not covered; CONTRACT_OPT variants other than the default, single-tensor einsum, explicit-output einsum, outer and inner "
                     "are not modelled in Lean: they are covered by exact real-type value runs against a naive Einstein sum (every ISA family x C++14/17 x CONTRACT_OPT in {unset,1,-1})"],
        rule="every labelling of ranks (1,1),(1,2),(2,1),(2,2) with each label at most twice (all ways of identifying indices between and within the "
             "operands) and a seeded sample of ranks up to (3,3) [(4,3) thorough], two extent assignments each (one with a vectorisable last extent); "
             "non-trivial = dispatches to the general loop nest or a gemm-type re-route",
        nontrivial=lambda inp, mo: symrun.kv(mo).get("route") in ("general", "gemm", "gemv", "gevm"), per_tu=30)

def sym_call_of(inp):
    d = symrun.kv(inp)
    lst = lambda s: [] if s == "-" else [int(x) for x in s.split(",")]
    I, J, dI, dJ = lst(d["I"]), lst(d["J"]), lst(d["dI"]), lst(d["dJ"])
    cs = lambda t: " VFC ".join(str(x) for x in t)
    return {"key": "replay", "header": "einsum_sym.h", "isa": d["cfg"],
            "calls": ["EINSUM_CASE(Sym%s, %s, %s, %s, %s);" % (d["sz"], cs(I), cs(J), cs(dI), cs(dJ))]}

def replay(path):
    return flow.standard_replay(path, sym_call_of)
