"""C13 — QR by modified Gram-Schmidt (with and without pivoting) and the QR-based determinant.
Proof: Props/C13.lean about Model/QR.lean (a transcription of qr_mgsr_dispatcher, pivot_inplace, apply_pivot,
determinant<QR>), over any field with a square-root function that is exact on the arguments met.
Ties: K3 the real `qr` templates over exact rationals with a trapping exact square root on the family
A = Q0*R0 (Q0 rational orthogonal, R0 rational upper triangular, positive diagonal), compared digit for digit
with the Lean model over `Rat` and with an in-harness oracle (Q == P.Q0, R == R0, Q^T Q == I, QR == P.A exactly);
K4 float/double per ISA on matrices of prescribed condition number against n*eps(*cond) bounds (a test)."""
import random, os, json
from vlib import core, symrun, flow

PID = "C13"
STRATS = ["mgsr", "mgsr_expr", "pivv", "pivv_expr", "pivm", "pivm_expr", "mgsr_sum", "mgsr_trans", "pivv_sum", "pivm_trans"]
NOPIV = [0, 1, 6, 7]; PIVV = [2, 3, 8]; PIVM = [4, 5, 9]
VBITS = {"scalar": 0, "sse2": 128, "sse42": 128, "avx": 256, "avx2": 256, "avx512": 512}

def vsizes(isa, t):
    """row lengths around the multiples of the vector width V of (isa, element type): V-1, V, V+1, 2V+1, 3V+2"""
    v = max(1, VBITS[isa] // (32 if t == "float" else 64))
    return sorted(set(x for x in (v - 1, v, v + 1, 2 * v + 1, 3 * v + 2) if x >= 1))

def pick(rng, k):
    """k entry points, at least one unpivoted, one index-vector pivot, one matrix pivot when k >= 3"""
    base = [rng.choice(NOPIV), rng.choice(PIVV), rng.choice(PIVM)]
    rest = [x for x in range(10) if x not in base]
    rng.shuffle(rest)
    return sorted((base + rest)[:k]) if k >= 3 else sorted(rng.sample(base, k))

def rat_groups(tier, seed):
    rng = random.Random(seed * 7331 + 13)
    groups = []
    thorough = tier == "thorough"
    isas = core.QUICK_ISAS if not thorough else core.ALL_ISAS
    for isa in isas:
        calls = []
        full = isa == "sse2" or (thorough and isa == "avx512")
        if full:
            sizes = list(range(1, 13)) + ([14, 16, 20] if thorough else [16])
        else:
            sizes = [1, 2, 3, 5, 8, 12]
        for n in sizes:
            if n <= 12 and full and (thorough or n <= 4):
                strats = list(range(10))
            elif n <= 12 and full:
                strats = pick(rng, 4)
            elif n <= 12:
                strats = pick(rng, 3)
            else:
                strats = pick(rng, 3)
            for s in strats:
                # the four kinds of rational orthogonal factor are selected by seed % 4
                nseeds = (8 if thorough else 2) if n > 1 else 2
                base = rng.randrange(1, 1 << 20) * 4
                kinds = rng.sample(range(4), min(4, nseeds)) if nseeds <= 4 else [k % 4 for k in range(nseeds)]
                for t, k in enumerate(kinds):
                    calls.append("run_qr<%d,%d>(%du);" % (n, s, base + 4 * t * 977 + k))
        # arbitrary rational inputs (inexact pseudo-roots): Q*R == P*A, zero pattern, pivot, and the model digit for digit
        for n in ([2, 3, 4] if not thorough else [2, 3, 4, 5]):
            for s in (pick(rng, 6) if (full and n <= 4) else pick(rng, 2)):
                for t in range(2 if not thorough else 5):
                    calls.append("run_qr_free<%d,%d>(%du);" % (n, s, rng.randrange(1, 1 << 20)))
        groups.append({"key": "rat/%s" % isa, "header": "qr_rat.h", "isa": isa, "opt": "-O1", "calls": calls})
    # the optimisation level the pinned tests use, and C++17
    extra = [("sse2", "-O2", "c++14"), ("avx2", "-O2", "c++17")] if not thorough else \
            [(i, o, sd) for i in ("sse2", "avx2", "avx512") for o in ("-O0", "-O2", "-O3") for sd in ("c++14", "c++17")
             if (i, sd) in (("sse2", "c++14"), ("avx2", "c++17"), ("avx512", "c++17"))]
    for isa, opt, std in extra:
        calls = []
        for n in ([3, 7] if not thorough else [2, 4, 7, 12]):
            for s in ([0, 3, 9] if not thorough else [0, 7, 3, 4, 8]):
                calls.append("run_qr<%d,%d>(%du);" % (n, s, rng.randrange(1, 1 << 22)))
        groups.append({"key": "rat/%s/%s/%s" % (isa, opt, std), "header": "qr_rat.h", "isa": isa, "opt": opt, "std": std, "calls": calls})
    return groups

def bits_groups(tier, seed):
    """double/float bit for bit against the model over Float/Float32 (no FMA contraction)"""
    rng = random.Random(seed * 15485863 + 11)
    thorough = tier == "thorough"
    isas = core.QUICK_ISAS if not thorough else core.ALL_ISAS
    groups = []
    for isa in isas:
        for t in ("double", "float"):
            lcs = [0, 10, 30, 60, 80] if t == "double" else [0, 10, 20, 30]
            sizes = vsizes(isa, t) if not thorough else sorted(set(vsizes(isa, t) + list(range(1, 13)) + [16, 20]))
            calls = []
            for n in sizes:
                strats = pick(rng, 2) if not thorough else pick(rng, 3)
                for s in strats:
                    for r in range(2 if not thorough else 3):
                        calls.append("run_qrbits<%s,%d,%d>(%du,%d);" % (t, n, s, rng.randrange(1, 1 << 24), rng.choice(lcs)))
            groups.append({"key": "bits/%s/%s" % (isa, t), "header": "qr_bits.h", "isa": isa, "opt": "-O2", "defs": ["-ffp-contract=off"], "calls": calls})
    if thorough:
        for opt in ("-O0", "-O1", "-O3"):
            calls = ["run_qrbits<%s,%d,%d>(%du,%d);" % (t, n, s, rng.randrange(1, 1 << 24), 30) for t in ("double", "float") for n in (3, 8, 13) for s in (0, 3, 9, 6)]
            groups.append({"key": "bits/avx2/%s" % opt, "header": "qr_bits.h", "isa": "avx2", "opt": opt, "std": "c++17", "defs": ["-ffp-contract=off"], "calls": calls})
    return groups

_sym_calls = [0]

def sym_groups(tier, seed):
    """first call of a run: the tier's box.  A second call is flow.standard_run's failing-input search after a
    model/implementation mismatch: a box twice the quick one with fresh seeds and the same group keys (the full
    thorough box would cost tens of minutes and the bounds test / oracle already name concrete inputs)."""
    _sym_calls[0] += 1
    if _sym_calls[0] == 1:
        return rat_groups(tier, seed) + bits_groups(tier, seed)
    gs = {}
    for sd in (seed, seed + 1):
        for g in rat_groups("quick", sd) + bits_groups("quick", sd):
            if g["key"] in gs: gs[g["key"]]["calls"] += g["calls"]
            else: gs[g["key"]] = g
    return list(gs.values())

def real_groups(tier, seed):
    rng = random.Random(seed * 104729 + 5)
    thorough = tier == "thorough"
    isas = core.QUICK_ISAS if not thorough else core.ALL_ISAS
    groups = []
    for isa in isas:
        for t in ("float", "double"):
            lcs = ([0, 10, 30] if t == "float" else [0, 30, 60]) if not thorough else \
                  ([0, 5, 10, 20, 30, 35] if t == "float" else [0, 10, 30, 50, 60, 80])
            sizes = ([1, 3, 5, 8, 16] if not thorough else sorted(set(list(range(1, 17)) + [20, 24, 32] + vsizes(isa, t))))
            calls = []
            for n in sizes:
                strats = pick(rng, 2) if not thorough else pick(rng, 3)
                for s in strats:
                    for r in range(3 if not thorough else 4):
                        calls.append("run_qrreal<%s,%d,%d>(%du,%d);" % (t, n, s, rng.randrange(1, 1 << 24), rng.choice(lcs)))
            groups.append({"key": "real/%s/%s" % (isa, t), "header": "qr_real.h", "isa": isa, "opt": "-O2", "calls": calls})
    return groups

ACCEPT_SRC = r'''
#include <Fastor/Fastor.h>
using namespace Fastor;
int main() {
    Tensor<double,%d,%d> A; A.iota(1); Tensor<double,%d,%d> Q; Tensor<double,%d,%d> R;
    qr(A, Q, R);
    return 0;
}
'''

def acceptance_probe():
    """which shapes does the public qr accept?  (recorded, not judged: the property quantifies over what exists)"""
    shapes = {"square 3x3": (3, 3, 3, 3, 3, 3), "tall 4x3 (Q 4x3, R 3x4 as the signature asks)": (4, 3, 4, 3, 3, 4),
              "tall 4x3 (Q 4x3, R 4x3 as the dispatcher asks)": (4, 3, 4, 3, 4, 3)}
    jobs = [{"name": "acc%d" % i, "source_text": ACCEPT_SRC % v, "isa": "sse2", "opt": "-O0"} for i, v in enumerate(shapes.values())]
    out = {}
    with core.Scratch() as wd:
        res = core.build_and_run(jobs, wd)
    for i, k in enumerate(shapes):
        r = res["acc%d" % i]
        out[k] = "accepted" if r["rc_compile"] == 0 else "rejected by the compiler: " + symrun.first_error(r["compile_out"])[-160:]
    return out

def ofail_key(f):
    d = symrun.kv(f["input"]); o = symrun.kv(f["impl"])
    if f["input"].startswith("qrf"):
        return "bits cfg=%s T=%s n=%s strat=%s lc=%s seed=%s ORACLE=%s" % (d.get("cfg"), d.get("T"), d.get("n"), d.get("strat"), d.get("lc"), d.get("seed"), o.get("ORACLE"))
    return "rat cfg=%s n=%s strat=%s seed=%s free=%s ORACLE=%s" % (d.get("cfg"), d.get("n"), d.get("strat"), d.get("seed"), d.get("free"), o.get("ORACLE"))

def run(tier, seed):
    acc = acceptance_probe()
    # coverage of what hides easily: negative determinants, pivots that are not involutions, ties in the pivot search,
    # row lengths around the vector widths.  (Mutable containers: the flow reads them after all lines were classified.)
    counts = {"negative_determinant_cases": 0, "positive_determinant_cases": 0, "pivots_with_a_cycle_of_length_ge_3": 0,
              "pivot_searches_with_a_tie": 0}
    stats = {"counts": counts, "negative_determinant_sizes": [], "exact_sizes": [], "bit_exact_sizes": {}}
    def add(lst, x):
        if x not in lst:
            lst.append(x); lst.sort()
    def nontrivial(inp, mo):
        d = symrun.kv(inp); m = symrun.kv(mo)
        n = int(d.get("n", 0))
        if inp.startswith("qrf"):
            add(stats["bit_exact_sizes"].setdefault("%s/%s" % (d.get("cfg"), d.get("T")), []), n)
        else:
            add(stats["exact_sizes"], n)
            if d.get("dsign") == "-1":
                counts["negative_determinant_cases"] += 1; add(stats["negative_determinant_sizes"], n)
            elif d.get("dsign") == "1":
                counts["positive_determinant_cases"] += 1
            if m.get("PCYC", "1").isdigit() and int(m["PCYC"]) >= 3: counts["pivots_with_a_cycle_of_length_ge_3"] += 1
            if m.get("TIE") == "1": counts["pivot_searches_with_a_tie"] += 1
        return n != 1
    return flow.standard_run(
        PID, tier, seed, "Fastor.C13.qr_correct", "FastorModel.Model.QR", sym_groups, real_groups,
        assumptions=[
            "the square-root function returns an exact, non-zero root of every argument met (hypothesis of the theorems; "
            "in the exact runs: the inputs are A = Q0*R0 with Q0 rational orthogonal and R0 rational upper triangular with positive "
            "diagonal, where every argument is a perfect rational square — the harness counts non-squares and requires 0)",
            "floating point: orthogonality and reconstruction are MEASURED (float, double; every ISA flag set) on matrices of prescribed "
            "condition number against rec <= 4 n eps, orth <= 4 n eps cond — a test; no floating-point bound is proved",
            "pivoting as implemented permutes ROWS by the partial-pivot arg-max of the unreduced columns (unary_piv_op.h): Q*R = P*A; "
            "the property text says column-pivoted — the check judges the permuted reconstruction the code defines (reconstruct(Q*R,P) == A)"],
        rule="exact cases: (flag set, n, entry point/strategy, family member | arbitrary rational matrix) runs of the real qr<...> over exact rationals; compared with the Lean model "
             "on Q, R, P, det, number of sqrt calls and of non-square sqrt arguments (digit for digit) and with the in-harness oracle; "
             "bit cases: (flag set, float|double, n, entry point, matrix of prescribed condition number) runs of the real qr<...> compiled with -ffp-contract=off, "
             "Q, R (IEEE bit patterns) and P compared with the Lean model over Float/Float32; "
             "non-trivial = n >= 2; real cases: float/double runs judged by the in-harness bounds",
        nontrivial=nontrivial,
        extra_cov={"public_qr_accepts": acc, "pivot_and_determinant_coverage": stats}, per_tu=14, ofail_key=ofail_key)

def sym_call_of(inp):
    d = symrun.kv(inp)
    if inp.startswith("qrf"):
        return {"key": "replay", "header": "qr_bits.h", "isa": d.get("cfg", "sse2"), "opt": "-O2", "defs": ["-ffp-contract=off"],
                "calls": ["run_qrbits<%s,%s,%d>(%su,%s);" % (d["T"], d["n"], STRATS.index(d["strat"]), d["seed"], d["lc"])]}
    fn = "run_qr_free" if d.get("free") == "1" else "run_qr"
    return {"key": "replay", "header": "qr_rat.h", "isa": d.get("cfg", "sse2"),
            "calls": ["%s<%s,%d>(%su);" % (fn, d["n"], STRATS.index(d["strat"]), d["seed"])]}

def replay(path):
    return flow.standard_replay(path, sym_call_of)
