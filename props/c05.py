"""C05 — writing through a slice changes exactly the selected elements and nothing else.
Proof: Props/C05.lean (write_correct: selected positions hold op(old, rhs_j), FRAME: every other position
unchanged, for every view class / rank / extents / ranges / V / operator / rhs kind; vector_route_no_spill;
writes_seq).  Tie: scripts of 1-4 writes `A(ranges) op= rhs` run on the real view templates over the
symbolic carrier vs the Lean model: the WHOLE parent tensor after every write, the ordered sequence of
stored positions, the number of vector stores, the set of positions of A read, no access outside the
registered windows, and the arena bytes around A unchanged; real element types per ISA with sentinel
margins against an in-harness reference loop (this is also where /= is exercised)."""
import random
from vlib import core, symrun, flow
from props import vwgen as G

PID = "C05"
SYM_CFGS = [("sse2", 4), ("sse2", 8), ("avx2", 4), ("avx2", 8), ("avx512", 4), ("avx512", 8), ("scalar", 4)]
ALL_CFGS = [(i, s) for i in core.ALL_ISAS for s in (4, 8)]

def only_filter(groups):
    """development aid: VERIF_ONLY=sub1,sub2 keeps the groups whose key contains one of the substrings"""
    import os
    only = os.environ.get("VERIF_ONLY")
    if not only:
        return groups
    subs = [x for x in only.split(",") if x]
    return [g for g in groups if any(x in g["key"] for x in subs)]

def tup(t):
    return "(" + ",".join(str(x) for x in t) + ")"

def dyn_scripts(dims, rd, V, rng, n_single, n_rd, n_seq, exhaustive1d, ops=None):
    rks = "svetxfm"
    OPSL = ops or G.OPS
    out = []
    if len(dims) == 1 and exhaustive1d:
        n = dims[0]
        tri = G.all_triples(n, (1, 2, 3))
        if len(tri) > n_single:
            tri = rng.sample(tri, n_single)
        for (f, l, s) in tri:
            dst = [G.encode(f, l, s, n, rng, True)]
            out.append(G.rand_write(dims, rd, V, rng, rks, dst=dst, ops=ops))
    else:
        for _ in range(n_single):
            out.append(G.rand_write(dims, rd, V, rng, rks, ops=ops))
    for k in range(n_rd):
        avail = "txfm" if len(dims) == 2 else ("txm" if len(dims) == 1 else "txf")
        out.append(G.rand_write(dims, rd, V, rng, avail[k % len(avail)] , op=OPSL[(k // len(avail)) % len(OPSL)], force_rd=True))
    for _ in range(n_seq):
        k = rng.randint(2, 4)
        out.append("/".join(G.rand_write(dims, rd, V, rng, rks, force_rd=(rng.random() < 0.3), ops=ops) for _ in range(k)))
    return out

def dyn_shapes(V, seed, which):
    """(dims, rd) of the dynamic-view instantiation `which` for vector width V"""
    if which == "d1":
        return (2 * V + 3,), ([V + 1, V, 2 * V + 1][seed % 3],)
    if which == "d2":
        # 2V+1 columns: a strided (step 2) row can still hold V+1 elements, so the data_setter route is reachable for every V
        return (4, 2 * V + 1), (2, [V, V + 1, V + 2][seed % 3])
    if which == "d3":
        return (2, 3, 2 * V), (2, 2, V)
    return (2, 2, 2, V + 1), (1, 2, 2, V)

def fixed_family(V):
    """(name, dims, fseqs, vea) — one instantiation each; rd = the extents of the view"""
    return [
        ("f1a", (2 * V + 3,), [(1, V + 2, 1)], 0),
        ("f1b", (2 * V + 5,), [(0, -1, 2)], 1),
        ("f2a", (4, V + 3), [(1, 4, 2), (1, V + 2, 1)], 0),
        ("f2b", (3, 2 * V + 1), [(0, -1, 1), (0, -1, 2)], 1),
        ("f3a", (2, 3, 2 * V), [(0, -1, 1), (1, 3, 1), (V, -1, 1)], 0),
        ("f3b", (2, 3, V + 2), [(1, 2, 1), (0, -1, 2), (1, -1, 1)], 0),
        ("f1c", (2 * V + 3,), [(2, 2 * V + 2, 1)], 1),
        ("f2c", (3, 2 * V + 2), [(-3, -1, 1), (2, 2 * V + 2, 1)], 1),
        ("f2d", (4, V + 3), [(1, 4, 2), (0, V + 2, 3)], 0),
        ("f3c", (2, 2, 2 * V + 1), [(0, 1, 1), (0, -1, 1), (1, -1, 2)], 0),
    ]

def fixed_scripts(dims, fseqs, V, rng, count, ops=None):
    rd = [G.ext_of(t, n) for t, n in zip(fseqs, dims)]
    rks = "svetxfm"
    out = []
    for k in range(count):
        n = 1 if k < count * 2 // 3 else rng.randint(2, 4)
        ws = []
        for _ in range(n):
            ws.append(G.rand_write(dims, rd, V, rng, rks, dst=list(fseqs), ops=ops))
        out.append("/".join(ws))
    # every operator x every rhs kind at least once
    for op in (ops or G.OPS):
        for rk in rks:
            if (rk == "m" and len(dims) > 2) or (rk == "f" and len(dims) < 2):
                continue
            out.append(G.rand_write(dims, rd, V, rng, rk, op=op, dst=list(fseqs)))
    return rd, out

def sym_groups(tier, seed):
    rng = random.Random(seed * 7919 + 5)
    quick = tier == "quick"
    cfgs = SYM_CFGS if quick else ALL_CFGS
    groups = []
    for ci, (isa, sz) in enumerate(cfgs):
        V = G.vwidth(isa, sz)
        for which in (("d1", "d2", "d3") if quick else ("d1", "d2", "d3", "d4")):
            veas = [(ci + seed) % 2] if quick else [0, 1]
            if which in ("d3", "d4"):
                veas = [0]
            for vea in veas:
                dims, rd = dyn_shapes(V, seed, which)
                r2 = random.Random(rng.random())
                if quick:
                    sc = dyn_scripts(dims, rd, V, r2, {"d1": 260, "d2": 160, "d3": 90}.get(which, 60), 32, 40, True)
                else:
                    sc = dyn_scripts(dims, rd, V, r2, {"d1": 4000, "d2": 1500, "d3": 700, "d4": 400}[which], 96, 300, True)
                calls = ['VW(Sym%d, %s, %s, "%s");' % (sz, tup(rd), tup(dims), s) for s in sc]
                groups.append({"key": "%s/sz%d/vea%d/%s" % (isa, sz, vea, which), "header": "view_write_sym.h", "isa": isa, "opt": "-O0",
                               "defs": ["-DFASTOR_USE_VECTORISED_EXPR_ASSIGN"] if vea else [], "calls": calls})
        # fixed views: quick = two members of the family per configuration, rotating with the seed
        fam = fixed_family(V)
        pick = [fam[(2 * ci + seed + k) % 6] for k in range(1)] if quick else [fam[(ci + k) % len(fam)] for k in range(0, 10, 2)]
        if quick and ci < 3:
            pick.append(fam[(2 * ci + seed + 3) % 6])
        for (name, dims, fseqs, vea) in pick:
            r2 = random.Random(rng.random())
            rd, sc = fixed_scripts(dims, fseqs, V, r2, 24 if quick else 150)
            fs = "(" + ", ".join("fseq<%d,%d,%d>" % t for t in fseqs) + ")"
            calls = ['VWF(Sym%d, %s, %s, %s, "%s");' % (sz, tup(rd), tup(dims), fs, s) for s in sc]
            groups.append({"key": "%s/sz%d/vea%d/%s" % (isa, sz, vea, name), "header": "view_write_sym.h", "isa": isa, "opt": "-O0",
                           "defs": ["-DFASTOR_USE_VECTORISED_EXPR_ASSIGN"] if vea else [], "calls": calls})
        # the writable diagonal view diag(A): quick = two configurations
        if not quick or ci in (seed % 7, (seed + 3) % 7):
            M = V + 1
            r2 = random.Random(rng.random())
            sc = diag_scripts(M, r2, 16 if quick else 80, G.OPS)
            calls = ['VWD(Sym%d, (%d), (%d,%d), "%s");' % (sz, M, M, M, s) for s in sc]
            groups.append({"key": "%s/sz%d/vea0/diag" % (isa, sz), "header": "view_write_sym.h", "isa": isa, "opt": "-O0", "defs": [], "calls": calls})
    # TensorMap parents (slices of a map are always the generic n-D view classes): rank rotating over four configurations
    for ci, (isa, sz) in enumerate(cfgs):
        if quick and ci % 2 != seed % 2:
            continue
        V = G.vwidth(isa, sz)
        for which in ([("d1", "d2", "d3")[(ci // 2 + seed) % 3]] if quick else ["d1", "d2", "d3"]):
            dims, rd = dyn_shapes(V, seed, which)
            r2 = random.Random(rng.random())
            sc = dyn_scripts(dims, rd, V, r2, 120 if quick else 800, 28 if quick else 96, 30 if quick else 200, True)
            calls = ['VWP(Sym%d, %s, %s, "%s");' % (sz, tup(rd), tup(dims), s) for s in sc]
            groups.append({"key": "%s/sz%d/vea0/map-%s" % (isa, sz, which), "header": "view_write_sym.h", "isa": isa, "opt": "-O0", "defs": [], "calls": calls})
    groups.append(scalar_sym_group(tier, seed, random.Random(seed * 31 + 7)))
    return only_filter(groups)

SW_DIMS = {1: (5,), 2: (3, 4), 3: (2, 3, 4), 4: (2, 3, 4, 5), 5: (2, 3, 4, 5, 6)}     # pairwise distinct extents

def scalar_scripts(dims, rng, ops, cap, per_line=48):
    """every index tuple in [-d, d) on every axis (sampled above `cap`), packed `per_line` writes to a script"""
    import itertools
    tuples = list(itertools.product(*[range(-d, d) for d in dims]))
    if len(tuples) > cap:
        # keep every tuple with a negative index on the last axes (the wrap of each axis), sample the rest
        tuples = rng.sample(tuples, cap)
    rng.shuffle(tuples)
    ws = []
    for k, t in enumerate(tuples):
        op = ops[k % len(ops)]
        c = rng.choice([2, 4, -2]) if op == "div" else rng.choice([2, 3, 5, -1, 7])
        ws.append("%s.%d.%s" % (op, c, "_".join(str(x) for x in t)))
    return ["/".join(ws[i:i + per_line]) for i in range(0, len(ws), per_line)]

def scalar_sym_group(tier, seed, rng):
    quick = tier == "quick"
    calls = []
    for rank, dims in SW_DIMS.items():
        for cont, sz in (("SW", 4), ("SWM", 8)) if (rank + seed) % 2 else (("SWM", 4), ("SW", 8)):
            cap = {1: 10**6, 2: 10**6, 3: 10**6, 4: 700, 5: 900}[rank] if quick else 10**6
            for s in scalar_scripts(dims, rng, ["set", "add", "sub", "set"], cap):   # `mul` would only grow the polynomials
                calls.append('%s(Sym%d, %s, "%s");' % (cont, sz, tup(dims), s))
    return {"key": "sse2/elemwrite", "header": "scalar_write.h", "isa": "sse2", "opt": "-O0", "defs": ["-DSW_SYM"], "calls": calls}

def scalar_real_groups(tier, seed, rng):
    quick = tier == "quick"
    groups = []
    for gi, isa in enumerate(["sse2", "avx512"] if quick else core.ALL_ISAS):
        calls = []
        for ti, (t, _) in enumerate(REAL_TYPES):
            for rank, dims in SW_DIMS.items():
                cont = "SWR" if (rank + ti + gi + seed) % 2 else "SWRM"
                if not quick:
                    conts = ["SWR", "SWRM"]
                else:
                    conts = [cont]
                for cont in conts:
                    cap = {1: 10**6, 2: 10**6, 3: 10**6, 4: 500, 5: 600}[rank] if quick else 10**6
                    for k, s in enumerate(scalar_scripts(dims, rng, G.OPS5, cap)):
                        calls.append('%s(%s, %s, %du, "%s");' % (cont, t, tup(dims), seed * 100 + k, s))
        groups.append({"key": "real/%s/elemwrite" % isa, "header": "scalar_write.h", "isa": isa, "opt": "-O2",
                       "defs": ["-ffp-contract=off"], "pre": "", "calls": calls})
    return groups

def diag_scripts(M, rng, count, ops):
    dst = "0_%d_1,0_%d_1" % (M, M)          # ignored by the diagonal view; kept for the line format
    out = []
    for k in range(count):
        ws = []
        for _ in range(1 if k < count // 2 else rng.randint(2, 4)):
            op = rng.choice(ops); rk = rng.choice("sstxm")
            c = rng.choice([2, 4, -2]) if op == "div" else rng.choice([2, 3, 5, -1, -4, 7])
            ws.append("%s.%s.%d.%s" % (op, rk, c, dst))
        out.append("/".join(ws))
    return out

REAL_TYPES = [("float", 4), ("double", 8), ("int32_t", 4), ("int64_t", 8)]

def real_groups(tier, seed):
    """real element types between sentinel margins, all FIVE operators, reversed ranges included, -O2"""
    rng = random.Random(seed * 3571 + 9)
    quick = tier == "quick"
    isas = core.QUICK_ISAS if quick else core.ALL_ISAS
    groups = []
    ci = 0
    G.REVERSED_P[0] = 0.15
    try:
        for isa in isas:
            for (t, sz) in REAL_TYPES:
                ci += 1
                V = G.vwidth(isa, sz)
                whichs = [("d1", "d2", "d3")[(ci + seed) % 3]] if quick else ["d1", "d2", "d3"]
                for wi, which in enumerate(whichs):
                    for vea in ([(ci + seed) % 2] if quick else [(ci + wi) % 2]):
                        dims, rd = dyn_shapes(V, seed + ci, which)
                        r2 = random.Random(rng.random())
                        sc = dyn_scripts(dims, rd, V, r2, 60 if quick else 600, 30 if quick else 120, 30 if quick else 200, False, ops=G.OPS5)
                        calls = ['VWR(%s, %s, %s, %du, "%s");' % (t, tup(rd), tup(dims), seed * 1000 + k, s) for k, s in enumerate(sc)]
                        groups.append({"key": "real/%s/%s/vea%d/%s" % (isa, t, vea, which), "header": "view_write_real.h", "isa": isa, "opt": "-O2",
                                       "defs": ["-ffp-contract=off"] + (["-DFASTOR_USE_VECTORISED_EXPR_ASSIGN"] if vea else []),
                                       "pre": "", "calls": calls})
                fam = fixed_family(V)
                pick = ([fam[(ci + seed) % len(fam)]] if (ci + seed) % 2 == 0 else []) if quick else [fam[(ci + k) % len(fam)] for k in (0, 3, 6)]
                for (name, dims, fseqs, vea) in pick:
                    r2 = random.Random(rng.random())
                    G.REVERSED_P[0] = 0.0
                    rd0 = [G.ext_of(x, n) for x, n in zip(fseqs, dims)]
                    G.REVERSED_P[0] = 0.15
                    rd, sc = fixed_scripts(dims, fseqs, V, r2, 20 if quick else 120, ops=G.OPS5)
                    fs = "(" + ", ".join("fseq<%d,%d,%d>" % x for x in fseqs) + ")"
                    calls = ['VWRF(%s, %s, %s, %s, %du, "%s");' % (t, tup(rd), tup(dims), fs, seed * 1000 + k, s) for k, s in enumerate(sc)]
                    groups.append({"key": "real/%s/%s/vea%d/%s" % (isa, t, vea, name), "header": "view_write_real.h", "isa": isa, "opt": "-O2",
                                   "defs": ["-ffp-contract=off"] + (["-DFASTOR_USE_VECTORISED_EXPR_ASSIGN"] if vea else []),
                                   "pre": "", "calls": calls})
        # diag(A) on the real types: one cell per ISA (quick), all (thorough)
        ci = 0
        for isa in isas:
            for (t, sz) in REAL_TYPES:
                ci += 1
                if quick and (ci + seed + (ci - 1) // 4) % 4:
                    continue
                M = G.vwidth(isa, sz) + 1
                r2 = random.Random(rng.random())
                sc = diag_scripts(M, r2, 20 if quick else 100, G.OPS5)
                calls = ['VWRD(%s, (%d), (%d,%d), %du, "%s");' % (t, M, M, M, seed * 1000 + k, s) for k, s in enumerate(sc)]
                groups.append({"key": "real/%s/%s/vea0/diag" % (isa, t), "header": "view_write_real.h", "isa": isa, "opt": "-O2",
                               "defs": ["-ffp-contract=off"], "pre": "", "calls": calls})
        # TensorMap parents on the real types: one cell per ISA (quick)
        ci = 0
        for isa in isas:
            for (t, sz) in REAL_TYPES:
                ci += 1
                if quick and (ci + seed + (ci - 1) // 4) % 4 != 2:
                    continue
                V = G.vwidth(isa, sz)
                which = ("d1", "d2", "d3")[(ci + seed) % 3]
                dims, rd = dyn_shapes(V, seed + ci, which)
                r2 = random.Random(rng.random())
                sc = dyn_scripts(dims, rd, V, r2, 60 if quick else 400, 30 if quick else 100, 30 if quick else 150, False, ops=G.OPS5)
                calls = ['VWRP(%s, %s, %s, %du, "%s");' % (t, tup(rd), tup(dims), seed * 1000 + k, s) for k, s in enumerate(sc)]
                groups.append({"key": "real/%s/%s/vea0/map-%s" % (isa, t, which), "header": "view_write_real.h", "isa": isa, "opt": "-O2",
                               "defs": ["-ffp-contract=off"], "pre": "", "calls": calls})
        groups += scalar_real_groups(tier, seed, random.Random(seed * 37 + 5))
    finally:
        G.REVERSED_P[0] = 0.0
    return only_filter(groups)

def run(tier, seed):
    return flow.standard_run(
        PID, tier, seed, "Fastor.C05.write_correct", "FastorModel.Model.ViewWrite", sym_groups, real_groups,
        assumptions=["vector primitives are lane-wise (property C08); the symbolic carrier is a free commutative ring, so /= is exercised by the real-type runs only",
                     "ranges are the admissible encodings of C04 (0 <= first < last <= n with positive step, `last`-relative ends, both ends from the end, integer -1)",
                     "right-hand sides do not refer to the destination tensor (aliasing is property C18)"],
        rule="scripts of 1-4 writes A(ranges) op= rhs; rank 1: every (first,last,step<=3) on an axis of 2V+3 elements (sampled above the cap), "
             "ranks 2-4 seeded with the last-axis extent drawn from {V-1,V,V+1,2V,2V+1,1,random}; operator and rhs kind "
             "(scalar, slice of another tensor, expression of slices, tensor, expression of tensors, tensor of other rank, evaluation-requiring product) "
             "drawn per write; fixed views from a family of fseq packs; every case is non-trivial (at least one element is stored)",
        nontrivial=lambda inp, mo: True, per_tu=100000)

def sym_call_of(inp):
    d = symrun.kv(inp)
    if inp.startswith("sw "):
        dims = tuple(int(x) for x in d["dims"].split("x"))
        return {"key": "replay", "header": "scalar_write.h", "isa": d["cfg"], "opt": "-O0", "defs": ["-DSW_SYM"],
                "calls": ['%s(Sym%s, %s, "%s");' % ("SWM" if d["cont"] == "map" else "SW", d["sz"], tup(dims), d["W"])]}
    dims = tuple(int(x) for x in d["dims"].split("x")); rd = tuple(int(x) for x in d["rd"].split("x"))
    g = {"key": "replay", "header": "view_write_sym.h", "isa": d["cfg"], "opt": "-O0",
         "defs": (["-DFASTOR_USE_VECTORISED_EXPR_ASSIGN"] if d.get("vea") == "1" else []) + (["-DFASTOR_NO_ALIAS=1"] if d.get("nal") == "1" else [])}
    if d["cls"] == "mapdyn":
        g["calls"] = ['VWP(Sym%s, %s, %s, "%s");' % (d["sz"], tup(rd), tup(dims), d["W"])]
    elif d["cls"] == "mapfix":
        dst = d["W"].split("/")[0].split(".")[3]
        fs = "(" + ", ".join("fseq<%s>" % ax.replace("_", ",") for ax in dst.split(",")) + ")"
        g["calls"] = ['VWPF(Sym%s, %s, %s, %s, "%s");' % (d["sz"], tup(rd), tup(dims), fs, d["W"])]
    elif d["cls"] == "diag":
        g["calls"] = ['VWD(Sym%s, %s, %s, "%s");' % (d["sz"], tup(rd), tup(dims), d["W"])]
    elif d["cls"] == "fix":
        dst = d["W"].split("/")[0].split(".")[3]
        fs = "(" + ", ".join("fseq<%s>" % ax.replace("_", ",") for ax in dst.split(",")) + ")"
        g["calls"] = ['VWF(Sym%s, %s, %s, %s, "%s");' % (d["sz"], tup(rd), tup(dims), fs, d["W"])]
    else:
        g["calls"] = ['VW(Sym%s, %s, %s, "%s");' % (d["sz"], tup(rd), tup(dims), d["W"])]
    return g

def replay(path):
    return flow.standard_replay(path, sym_call_of)
