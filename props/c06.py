"""C06 — results do not depend on the SIMD instruction set, C++ level or tuning macros.

Proof: Props/C06.lean (the configuration ladder: native vector fits the alignment value, every selected
width is a power of two that divides it; and, for every operation with a kernel model, the corollary
`op cfg = op cfg'` of the owning property's model = specification theorem).
Ties: (X4) the ladder model is compared with the real macros / choose_best_simd_t table printed by a probe
compiled under every flag set; (K4 matrix) one corpus of small programs is compiled under a matrix of
configurations and the per-case result digests are compared across configurations (bit-identical for
exact cases, within a rounding tolerance for the rounded ones — a test), every case also against a
plain-loop oracle; the compile status of every program under every configuration is compared."""
import json, os, random, re, math
from vlib import core, symrun

PID = "C06"
AVX512 = core.ISA_FLAGS["avx512"]
FLAGSETS = dict(core.ISA_FLAGS)
FLAGSETS.update({"avx512f": ["-mavx512f"], "avx512fvl": ["-mavx512f", "-mavx512vl"], "sse3": ["-msse3"], "ssse3": ["-mssse3"],
                 "sse41": ["-msse4.1"], "avx2nofma": ["-mavx2"], "fmaonly": ["-mfma"],
                 "avx2novec": ["-mavx2", "-mfma", "-DFASTOR_DONT_VECTORISE"], "avx512novec": AVX512 + ["-DFASTOR_DONT_VECTORISE"]})
CHECKS_ON = ["-UNDEBUG", "-DFASTOR_ENABLE_RUNTIME_CHECKS=1"]
REF = ("sse2", "c++14", "-O2", ())          # the configuration of the pinned test-suite

def cname(c):
    return "%s/%s/%s%s" % (c[0], c[1], c[2], "".join("/" + d.replace("-DFASTOR_", "").replace("-D", "") for d in c[3]))

def configs(tier):
    cs = [REF,
          ("scalar", "c++14", "-O2", ()),
          ("sse2", "c++17", "-O0", tuple(CHECKS_ON)),
          ("sse42", "c++14", "-O3", ()),
          ("avx", "c++17", "-O1", ()),
          ("avx2", "c++14", "-O2", ()),
          ("avx2", "c++17", "-O3", ("-DFASTOR_USE_HADD",)),
          ("avx512", "c++14", "-O2", ()),
          ("avx512", "c++17", "-O1", ("-DFASTOR_USE_VECTORISED_EXPR_ASSIGN",)),
          ("avx2", "c++14", "-O2", ("-DFASTOR_MATMUL_OUTER_BLOCK_SIZE=3", "-DFASTOR_MATMUL_INNER_BLOCK_SIZE=5",
                                     "-DFASTOR_TRANS_OUTER_BLOCK_SIZE=2", "-DFASTOR_TRANS_INNER_BLOCK_SIZE=2")),
          ("sse2", "c++14", "-O2", ("-DFASTOR_DONT_PERFORM_OP_MIN",)),
          ("avx512f", "c++14", "-O2", ())]
    if tier == "thorough":
        for isa in ["scalar", "sse2", "sse42", "avx", "avx2", "avx512f", "avx512"]:
            for std in ["c++14", "c++17"]:
                for opt in ["-O0", "-O1", "-O2", "-O3"]:
                    cs.append((isa, std, opt, ()))
        one = ["-DFASTOR_USE_HADD", "-DFASTOR_USE_VECTORISED_EXPR_ASSIGN", "-DFASTOR_DONT_PERFORM_OP_MIN", "-DFASTOR_ZERO_INITIALISE",
               "-DCONTRACT_OPT=1", "-DCONTRACT_OPT=-1"]
        # not varied: FASTOR_COPY_EXPR, FASTOR_USE_OLD_NDVIEWS, FASTOR_DISABLE_SPECIALISED_CTR — internal switches that appear only as
        # commented-out lines in macros.h; the property quantifies over the documented tuning macros
        for isa in ["sse2", "avx2", "avx512"]:
            for d in one:
                cs.append((isa, "c++14", "-O2", (d,)))
            for b in (1, 2, 3, 4, 5):
                cs.append((isa, "c++14", "-O2", ("-DFASTOR_MATMUL_OUTER_BLOCK_SIZE=%d" % b,)))
                cs.append((isa, "c++14", "-O2", ("-DFASTOR_MATMUL_INNER_BLOCK_SIZE=%d" % b,)))
            for b in (1, 2):
                cs.append((isa, "c++14", "-O2", ("-DFASTOR_TRANS_OUTER_BLOCK_SIZE=%d" % b, "-DFASTOR_TRANS_INNER_BLOCK_SIZE=%d" % (3 - b))))
            cs.append((isa, "c++17", "-O2", tuple(CHECKS_ON)))
    out = []; seen = set()
    for c in cs:
        if c not in seen:
            seen.add(c); out.append(c)
    return out

TYPES = ["float", "double", "int32_t", "int64_t"]
FTYPES = ["float", "double"]

def corpus(tier, seed):
    """list of C++ statements, each printing one or more `cfgcase` lines"""
    rng = random.Random(seed * 7919 + 6)
    calls = []
    def sd(): return rng.randint(1, 10 ** 6)
    nm = 3 if tier == "quick" else 10
    # matmul: shapes around the width multiples of every ISA + fixed boundary shapes
    shapes = [(5, 3, 7), (4, 9, 13), (9, 2, 1), (17, 5, 18), (1, 7, 1), (8, 3, 23), (2, 2, 2), (3, 3, 3), (12, 4, 33)]
    for t in TYPES:
        ss = rng.sample(shapes, min(nm, len(shapes))) + [(rng.randint(1, 12), rng.randint(1, 9), rng.randint(1, 35)) for _ in range(nm)]
        for (m, k, n) in ss:
            calls.append("c_mm<%s,%d,%d,%d>(%du);" % (t, m, k, n, sd()))
    tags = {"l": "UpLoType::Lower", "u": "UpLoType::Upper", "g": "UpLoType::General"}
    for t in TYPES:
        for _ in range(2 if tier == "quick" else 8):
            a, b = rng.choice("lug"), rng.choice("lug")
            m, k, n = rng.randint(2, 11), rng.randint(2, 11), rng.randint(2, 19)
            calls.append('c_tmm<%s,%d,%d,%d,%s,%s>(%du,"%s%s");' % (t, m, k, n, tags[a], tags[b], sd(), a, b))
    for t in TYPES:
        for n in rng.sample(range(1, 40), 3 if tier == "quick" else 12):
            calls.append("c_ew<%s,%d>(%du);" % (t, n, sd()))
            calls.append("c_red<%s,%d>(%du);" % (t, n, sd()))
        for (m, n) in [(3, 5), (4, 4), (2, 9)][:2 if tier == "quick" else 3]:
            calls.append("c_cmp<%s,%d,%d>(%du);" % (t, m, n, sd()))
    for t in FTYPES:
        for n in rng.sample(range(2, 24), 2 if tier == "quick" else 8):
            calls.append("c_ewf<%s,%d>(%du);" % (t, n, sd()))
            calls.append("c_redf<%s,%d>(%du);" % (t, n, sd()))
    for t in TYPES:
        ext = [(3, 4, 5), (2, 3, 8), (4, 2, 4), (2, 5, 16), (3, 3, 3)]
        for (a, b, c) in rng.sample(ext, 2 if tier == "quick" else 5):
            calls.append("c_es<%s,%d,%d,%d>(%du);" % (t, a, b, c, sd()))
        for (a, b, c) in rng.sample(ext, 2 if tier == "quick" else 5):
            calls.append("c_perm<%s,%d,%d,%d>(%du);" % (t, a, b, c, sd()))
        for (a, b, c) in rng.sample(ext, 1 if tier == "quick" else 4):
            calls.append("c_misc<%s,%d,%d,%d>(%du);" % (t, a, b, c, sd()))
        for (m, n) in rng.sample([(5, 9), (4, 8), (6, 7), (3, 17), (9, 4)], 2 if tier == "quick" else 5):
            calls.append("c_views<%s,%d,%d>(%du);" % (t, m, n, sd()))
    for t in FTYPES:
        for n in ([2, 3, 4, 5, 9] if tier == "quick" else [1, 2, 3, 4, 5, 6, 7, 8, 9, 12, 16, 17, 33]):
            calls.append("c_linalg<%s,%d>(%du);" % (t, n, sd()))
    for (m, k, n) in [(2, 2, 2), (3, 5, 7)] + ([] if tier == "quick" else [(4, 4, 4), (1, 3, 9), (6, 2, 11)]):
        calls.append("c_nonprim<%d,%d,%d>(%du);" % (m, k, n, sd()))
    for t in (["double"] if tier == "quick" else TYPES):
        for (a, b, c) in ([(2, 3, 4)] if tier == "quick" else [(2, 3, 4), (4, 3, 2), (3, 3, 3), (2, 5, 3)]):
            calls.append("c_es5<%s,%d,%d,%d>(%du);" % (t, a, b, c, sd()))
            calls.append("c_es4<%s,%d,%d,%d>(%du);" % (t, a, b, c, sd()))
    if tier == "quick":
        # stratified sample: every case template at least twice, every element type
        by = {}
        for c in calls:
            by.setdefault(c.split("<")[0], []).append(c)
        pick = []
        for k in sorted(by):
            lst = by[k]; rng.shuffle(lst)
            seen_t = set(); n = 0
            for c in lst:
                t = c.split("<")[1].split(",")[0] if k != "c_nonprim" else c
                if t not in seen_t and n < (4 if k in ("c_mm", "c_ew", "c_red") else 2):
                    seen_t.add(t); pick.append(c); n += 1
        # sizes with hand-written intrinsic kernels of their own are always in (norm / inner of 4 and 9 elements, 2x2 / 3x3 / 4x4
        # determinant, inverse, solve): they are where the ISA- and macro-specific code (e.g. the FASTOR_USE_HADD variants) lives
        must = ["c_mm<%s,%d,%d,%d>(%du);" % (t, m, k, n, seed * 11 + n) for t in FTYPES for (m, k, n) in ((12, 2, 82), (24, 3, 43), (16, 2, 41))] + \
               ["c_redf<%s,%d>(%du);" % (t, n, seed * 3 + n) for t in FTYPES for n in (4, 9, 16)] + \
               ["c_linalg<%s,%d>(%du);" % (t, n, seed * 5 + n) for t in FTYPES for n in (2, 3, 4)] + \
               ["c_red<%s,%d>(%du);" % (t, n, seed * 7 + n) for t in ("int32_t", "int64_t") for n in (4, 8, 9)]
        have = set(c.split("(")[0] for c in pick)
        calls = pick + [c for c in must if c.split("(")[0] not in have]
    return calls

def parse_cases(out):
    res = {}
    for line in out.split("\n"):
        if not line.startswith("cfgcase ") or "|" not in line:
            continue
        inp, obs = line.split("|", 1)
        res[symrun.kv(inp)["id"]] = symrun.kv(obs)
    return res

def fromhex(s):
    try:
        return float.fromhex(s)
    except ValueError:
        return float("nan")

def approx_close(a, b):
    """a, b: kv dicts of KIND=approx lines.  Returns (ok, worst ratio)"""
    eps = 2.0 ** -23 if a.get("EPS") == "f32" else 2.0 ** -52
    va = [fromhex(x) for x in a["V"].split(",")]; vb = [fromhex(x) for x in b["V"].split(",")]
    if len(va) != len(vb):
        return False, float("inf")
    scale = max(fromhex(a["SCALE"]), 1e-300)
    tol = 64.0 * eps * scale * max(1.0, math.sqrt(len(va)))
    worst = 0.0
    for x, y in zip(va, vb):
        if x == y:
            continue        # also equal infinities (an overflowing determinant overflows in every configuration)
        if x != x or y != y or math.isinf(x) or math.isinf(y):
            return False, float("inf")
        worst = max(worst, abs(x - y) / tol)
    return worst <= 1.0, worst

def job(name, c, header, calls):
    isa, std, opt, defs = c
    base = isa if isa in core.ISA_FLAGS else "sse2"
    extra = [] if isa in core.ISA_FLAGS else FLAGSETS[isa]
    return {"name": name, "source_text": symrun.make_tu(header, calls, False, ""), "isa": base, "std": std, "opt": opt,
            "defs": list(defs), "extra": extra}

def run_probe(v, wd, tier):
    sets = ["scalar", "sse2", "sse42", "avx", "avx2", "avx512f", "avx512"]
    if tier == "thorough" or True:
        sets += ["sse3", "ssse3", "sse41", "avx2nofma", "fmaonly", "avx512fvl", "avx2novec", "avx512novec"]
    jobs = []
    for s in sets:
        base = s if s in core.ISA_FLAGS else "sse2"
        jobs.append({"name": "probe_" + s, "source_text": symrun.make_tu("cfg_probe.h", ["run_probe();"]), "isa": base,
                     "extra": [] if s in core.ISA_FLAGS else FLAGSETS[s], "opt": "-O0"})
    res = core.build_and_run(jobs, wd)
    inputs = []; impl = []; names = []
    for s in sets:
        r = res["probe_" + s]
        if r["rc_compile"] != 0 or r["rc_run"] != 0 or "|" not in r["out"]:
            v.violation("harness-failure probe %s" % s, {"kind": "harness-failure", "detail": (r["compile_out"] or r.get("err", ""))[-1500:]}, nofail=True)
            continue
        inp, obs = r["out"].strip().split("|", 1)
        inputs.append(inp.strip()); impl.append(obs.strip()); names.append(s)
    model = core.fmodel(inputs) if inputs else []
    mism = 0
    for s, inp, obs, mo in zip(names, inputs, impl, model):
        io = symrun.kv(obs); mk = symrun.kv(mo)
        bad = [k for k in mk if io.get(k) != mk[k]]
        if bad or mo.strip() == "bad-op" or io.get("TALIGN") != "1":
            mism += 1
            v.violation("config-table %s fields=%s" % (s, ",".join(bad) or "TALIGN"),
                        {"kind": "correspondence", "broken": "model FastorModel.Model.ConfigLadder / Model.Config (theorems Fastor.C06.native_vector_fits_alignment, "
                         "vsize_dvd_alignment, and the Cfg every kernel model takes) no longer describes config.h / macros.h / simd_vector_abi.h",
                         "flagset": s, "flags": FLAGSETS[s], "input": inp, "impl": obs, "model": mo, "fields": bad}, nofail=True)
    return len(inputs), mism, list(zip(names, inputs, impl, model))[:2]


# ---------------------------------------------------------------------------------------------------
# Cross-property stage: the oracle programs of the OTHER properties (their real-type groups: each case is judged inside
# the harness against a plain-loop / exact reference) are rebuilt under configurations their own checks do not use —
# other C++ level, other optimisation level, runtime checks off, every documented tuning macro — keeping the ISA flag
# set of the group.  A case that is right under its home configuration and wrong, rejected by the compiler or crashing
# under the alternative one is a configuration dependence (C06), reported with the concrete call and both flag sets.
# -O3 is deliberately not among the alternatives of this stage: with g++ 12.2 -O3 and the AVX-512 flags the SLP vectoriser
# miscompiles plain element-by-element code of a HARNESS (a symmetric fill `S(i,j)=A(i,j); S(j,i)=A(i,j)` through
# Tensor::operator() loses one store; correct with -fno-tree-slp-vectorize, with clang++ -O3 and under ASan/UBSan), which would be
# reported as a configuration dependence of the library although no library kernel is involved (see DESIGN.md 10.5).  -O3 stays in the
# configuration matrix of the corpus above, whose cases do not build their inputs that way.
ALTS = [
    ("c++17/-O1", dict(std="c++17", opt="-O1", defs=[])),
    ("c++14/-O0", dict(std="c++14", opt="-O0", defs=[])),
    ("c++17/-O1/NDEBUG", dict(std="c++17", opt="-O1", defs=["-DNDEBUG"])),
    ("USE_HADD", dict(defs=["-DFASTOR_USE_HADD"])),
    ("MATMUL_BLOCKS_3x2", dict(defs=["-DFASTOR_MATMUL_INNER_BLOCK_SIZE=3", "-DFASTOR_MATMUL_OUTER_BLOCK_SIZE=2"])),
    ("TRANS_BLOCKS_2x2", dict(defs=["-DFASTOR_TRANS_OUTER_BLOCK_SIZE=2", "-DFASTOR_TRANS_INNER_BLOCK_SIZE=2"])),
    ("DONT_PERFORM_OP_MIN", dict(defs=["-DFASTOR_DONT_PERFORM_OP_MIN"])),
    ("USE_VECTORISED_EXPR_ASSIGN", dict(defs=["-DFASTOR_USE_VECTORISED_EXPR_ASSIGN"])),
    ("DONT_VECTORISE", dict(defs=["-DFASTOR_DONT_VECTORISE"])),
    ("c++17/ZERO_INITIALISE", dict(std="c++17", defs=["-DFASTOR_ZERO_INITIALISE"])),
]
CROSS_MODULES = [("C01", "c01", "real_groups"), ("C02", "c02", "all_real_groups"), ("C03", "c03", "real_groups"), ("C04", "c04", "real_groups"),
                 ("C05", "c05", "real_groups"), ("C09", "c09", "real_groups"), ("C14", "c14", "oracle_groups"), ("C15", "c15", "real_groups"),
                 ("C16", "c16", "real_groups"), ("C17", "c17", "real_groups"), ("C19", "c19", "real_groups"), ("C20", "c20", "real_groups")]

def cross_groups(tier, seed):
    import importlib
    rng = random.Random(seed * 6151 + 29)
    budget = 70 if tier == "quick" else 400          # calls per property
    out = []; skipped = []
    for pid, modname, fn in CROSS_MODULES:
        try:
            mod = importlib.import_module("props." + modname)
            groups = getattr(mod, fn)("quick", seed)
        except Exception as e:
            skipped.append("%s: %s" % (pid, str(e)[:120])); continue
        groups = [g for g in groups if g.get("calls")]
        if not groups:
            continue
        per = max(budget // len(groups), 2)
        for gi, g in enumerate(groups):
            name, alt = ALTS[(gi * 3 + seed + int(pid[1:])) % len(ALTS)]
            calls = rng.sample(g["calls"], min(per, len(g["calls"])))
            # a macro given twice with different values does not compile: the alternative wins
            keys = set(d.split("=")[0] for d in alt.get("defs", []))
            defs = [d for d in g.get("defs", ()) if d.split("=")[0] not in keys] + list(alt.get("defs", []))
            ng = dict(g); ng.update({"key": "%s:%s @ %s" % (pid, g["key"], name), "calls": calls, "defs": defs,
                                     # the language level is only ever raised: features the library guards with FASTOR_CXX_VERSION >= 2017
                                     # (explicit-output einsum) are legitimately absent under C++14
                                     "std": max(alt.get("std", "c++14"), g.get("std", "c++14")), "opt": alt.get("opt", g.get("opt", "-O2")),
                                     "home": {"std": g.get("std", "c++14"), "opt": g.get("opt", "-O1"), "defs": list(g.get("defs", ()))}, "pid": pid, "alt": name})
            out.append(ng)
    return out, skipped

def cross_stage(v, wd, tier, seed):
    from vlib import flow
    groups, skipped = cross_groups(tier, seed)
    nrej0 = len(symrun.REJECTED)
    n, fails, infra, samples = flow.run_oracle_groups(groups, wd, per_tu=25)
    bykey = {g["key"]: g for g in groups}
    # wrong values under the alternative configuration: is the same call right at home?  (if it is wrong there too it is
    # the owning property's violation, reported by its own check; here only the configuration dependence is judged)
    recheck = {}
    for g, line, call in fails:
        if call: recheck.setdefault(g["key"], []).append((line, call))
    rejected = [r for r in symrun.REJECTED[nrej0:]]
    for r in rejected:
        recheck.setdefault(r["group"], []).append((None, r["call"]))
    crashed = [e for e in infra if e.get("crashed_single")]
    for e in crashed:
        recheck.setdefault(e["group"], []).append((None, e["calls"][0]))
    home_groups = []
    for key, items in recheck.items():
        g = bykey[key]; h = g["home"]
        hg = dict(g); hg.update({"key": key + " [home]", "calls": sorted(set(c for _, c in items)), "std": h["std"], "opt": h["opt"], "defs": h["defs"]})
        home_groups.append(hg)
    home_ok = set()
    if home_groups:
        nrej1 = len(symrun.REJECTED)
        hres = symrun.run_groups(home_groups, wd, per_tu=1)
        for r in hres:
            rr = r["res"]
            if rr.get("rejected") or rr["rc_compile"] != 0 or rr["rc_run"] != 0: continue
            lines = [l for l in rr["out"].split("\n") if "|" in l]
            if lines and all(l.split("|", 1)[1].strip().startswith("ok") for l in lines):
                home_ok.add((r["group"]["key"][:-7], r["calls"][0]))
        del symrun.REJECTED[nrej1:]
    del symrun.REJECTED[nrej0:]
    # failures that occur at home too: wrong everywhere (the owning property's business) or only under this ISA flag set?
    ref_groups = []
    for key, items in recheck.items():
        g = bykey[key]
        calls = sorted(set(c for _, c in items if (key, c) not in home_ok))
        if calls and g["isa"] != REF[0]:
            rg = dict(g); rg.update({"key": key + " [ref]", "calls": calls, "isa": REF[0], "std": g["home"]["std"], "opt": g["home"]["opt"], "defs": g["home"]["defs"]})
            ref_groups.append(rg)
    ref_ok = set()
    if ref_groups:
        nrej2 = len(symrun.REJECTED)
        for r in symrun.run_groups(ref_groups, wd, per_tu=1):
            rr = r["res"]
            if rr.get("rejected") or rr["rc_compile"] != 0 or rr["rc_run"] != 0: continue
            lines = [l for l in rr["out"].split("\n") if "|" in l]
            if lines and all(l.split("|", 1)[1].strip().startswith("ok") for l in lines):
                ref_ok.add((r["group"]["key"][:-6], r["calls"][0]))
        del symrun.REJECTED[nrej2:]
    nv = 0
    def rep(kind, g, call, detail):
        v.violation("cross %s %s %s" % (kind, g["key"], call),
                    {"kind": "cross-" + kind, "property_of_case": g["pid"], "call": call, "header": g["header"], "isa": g["isa"], "pre": g.get("pre", ""),
                     "alternative": {"std": g["std"], "opt": g["opt"], "defs": g["defs"]}, "home": g["home"], "detail": detail,
                     "note": "the same call is judged ok under the home configuration and %s under the alternative one" % kind})
    for g, line, call in fails:
        if call and (g["key"], call) in home_ok:
            rep("wrong-value", g, call, line); nv += 1
        elif call and (g["key"], call) in ref_ok:
            rep("wrong-value-under-this-isa (ok under %s)" % REF[0], g, call, line); nv += 1
    for r in rejected:
        g = bykey[r["group"]]
        if (g["key"], r["call"]) not in home_ok and (g["key"], r["call"]) in ref_ok:
            rep("compile-rejected-under-this-isa (accepted under %s)" % REF[0], g, r["call"], r["why"]); nv += 1
    for e in crashed:
        g = bykey[e["group"]]
        if (g["key"], e["calls"][0]) not in home_ok and (g["key"], e["calls"][0]) in ref_ok:
            rep("crash-under-this-isa (ok under %s)" % REF[0], g, e["calls"][0], e["what"]); nv += 1
    for r in rejected:
        g = bykey[r["group"]]
        if (g["key"], r["call"]) in home_ok:
            sig = "einsum-dimension-mismatch" if "throw-expression" in r["why"] else "other"
            rep("compile-rejected sig=%s" % sig, g, r["call"], r["why"]); nv += 1
    for e in crashed:
        g = bykey[e["group"]]
        if (g["key"], e["calls"][0]) in home_ok:
            rep("crash", g, e["calls"][0], e["what"] + " " + e.get("out", "")[-300:]); nv += 1
    other_infra = [e for e in infra if not e.get("crashed_single")]
    for e in other_infra[:5]:
        v.notes.append("cross stage: unit of %s did not build/run as a whole and could not be bisected: %s" % (e["group"], e["what"]))
    per = {}
    for g in groups: per[g["pid"]] = per.get(g["pid"], 0) + len(g["calls"])
    return {"cross_cases": n, "cross_calls_per_property": per, "cross_alternatives": sorted(set(g["alt"] for g in groups)), "cross_failures_alt_only": nv,
            "cross_failures_also_at_home": len(fails) + len(rejected) + len(crashed) - nv, "cross_skipped_modules": skipped, "cross_samples": samples[:2]}

def run(tier, seed):
    v = core.Verdict(PID, tier, seed)
    v.assumptions = ["exact cases use integer-valued data small enough to be exact in every element type, so float results must be bit-identical too "
                     "(+0.0 and -0.0 are identified)",
                     "rounded cases (division by a scalar, sqrt chains, norm, inverse, solve, lu, qr, det) are compared within 64*eps*scale*sqrt(n) of the "
                     "reference configuration sse2/c++14/-O2: this clause of the property is tested, not proved",
                     "compile acceptance and the effect of -O levels are observed on this corpus, not proved"]
    ok, info = core.proof_stage(v, PID, thorough=(tier == "thorough"))
    v.cov["proof"] = {k: info.get(k) for k in ("build_ok", "problems", "failed_modules", "errors", "leanchecker", "log")}
    if not info.get("build_ok"):
        v.violation("lean-build-failed " + ",".join(info.get("failed_modules", [])), {"kind": "proof-obligation", "detail": info}, nofail=True)
        return v.finish()
    if not ok:
        v.violation("audit " + "; ".join(info.get("problems", []))[:200], {"kind": "audit", "detail": info.get("problems")}, nofail=True)
    cfgs = configs(tier)
    calls = corpus(tier, seed)
    per_tu = 9 if tier == "quick" else 12
    tus = symrun.chunk(calls, per_tu)
    # which translation units are built under which configuration: the quick tier builds its whole (small) corpus under
    # its 12 covering configurations; the thorough tier builds the small corpus under the full grid and every macro cell,
    # and the large corpus under the 12 covering configurations (the full product would be ~3000 compiler runs)
    ncover = len(configs("quick"))
    small = set(corpus("quick", seed))
    if tier == "thorough":
        calls = calls + [c for c in corpus("quick", seed) if c not in set(calls)]
    def wanted(ci, ti):
        if tier == "quick" or ci < ncover:
            return True
        return any(c in small for c in tus[ti])
    if tier == "thorough":
        # regroup so that the small corpus sits in its own translation units
        big = [c for c in calls if c not in small]
        tus = symrun.chunk([c for c in calls if c in small], per_tu) + symrun.chunk(big, per_tu)
    with core.Scratch() as wd:
        nprobe, pmism, psamples = run_probe(v, wd, tier)
        jobs = []; meta = {}
        for ci, c in enumerate(cfgs):
            for ti, cs in enumerate(tus):
                if not wanted(ci, ti):
                    continue
                name = "c%d_t%d" % (ci, ti)
                jobs.append(job(name, c, "cfg_corpus.h", cs)); meta[name] = (ci, ti)
        res = core.build_and_run(jobs, wd)
        # ---- compile acceptance
        status = {}     # (ci, ti) -> bool
        for name, r in res.items():
            status[meta[name]] = (r["rc_compile"] == 0)
        rejected = []   # (config, call, error)
        retry = []; rmeta = {}
        for ti, cs in enumerate(tus):
            oks = [ci for ci in range(len(cfgs)) if status.get((ci, ti)) is True]
            bad = [ci for ci in range(len(cfgs)) if status.get((ci, ti)) is False]
            if bad:
                for ci in bad:
                    for k, call in enumerate(cs):
                        name = "r%d_t%d_%d" % (ci, ti, k)
                        retry.append(job(name, cfgs[ci], "cfg_corpus.h", [call])); rmeta[name] = (ci, ti, call)
                if not oks:   # rejected everywhere: also find out whether single calls compile in the reference configuration
                    for k, call in enumerate(cs):
                        name = "q_t%d_%d" % (ti, k)
                        retry.append(job(name, REF, "cfg_corpus.h", [call])); rmeta[name] = (-1, ti, call)
        single = {}
        if retry:
            res2 = core.build_and_run(retry, wd)
            for name, r in res2.items():
                ci, ti, call = rmeta[name]
                single.setdefault(call, {})[ci] = r
        cases = {}      # id -> {config name: kv}
        crashed = []
        def absorb(cfg, r, where):
            if r["rc_run"] != 0:
                crashed.append((cname(cfg), where, r["rc_run"], (r.get("err") or "")[-300:]))
            for cid, kvs in parse_cases(r["out"]).items():
                cases.setdefault(cid, {})[cname(cfg)] = kvs
        for name, r in res.items():
            ci, ti = meta[name]
            if r["rc_compile"] == 0:
                absorb(cfgs[ci], r, "tu%d" % ti)
        for call, d in single.items():
            ref_ok = (-1 not in d) or d[-1]["rc_compile"] == 0
            for ci, r in d.items():
                if ci < 0:
                    continue
                if r["rc_compile"] == 0:
                    absorb(cfgs[ci], r, call)
                elif ref_ok:
                    rejected.append((cname(cfgs[ci]), call, symrun.first_error(r["compile_out"])))
            if not ref_ok:
                v.violation("harness-failure corpus call does not compile in the reference configuration: " + call,
                            {"kind": "harness-failure", "call": call, "out": d[-1]["compile_out"][-1500:]}, nofail=True)
        for cfgn, call, err in rejected:
            v.violation("compile %s rejected-under %s" % (call, cfgn),
                        {"kind": "cfg-compile", "call": call, "config": cfgn, "error": err, "header": "cfg_corpus.h",
                         "note": "the program is accepted under the reference configuration %s but rejected by the compiler under this one" % cname(REF)})
        for cfgn, where, rc, err in crashed:
            v.violation("crash %s %s rc=%s" % (cfgn, where, rc), {"kind": "cfg-crash", "config": cfgn, "where": where, "rc": rc, "err": err})
        # ---- digest matrix
        refn = cname(REF)
        nexact = napprox = 0; worst = 0.0; pairs = 0; multi = 0
        for cid in sorted(cases):
            d = cases[cid]
            pairs += len(d)
            isas = set(k.split("/")[0] for k in d)
            if len(isas) >= 3: multi += 1
            for cfgn, kvs in d.items():
                if kvs.get("KIND") == "exact" and kvs.get("ORACLE") != "ok":
                    v.violation("oracle %s under %s" % (cid, cfgn), {"kind": "cfg-oracle", "case": cid, "config": cfgn, "line": kvs,
                                                                      "note": "the result differs from the plain-loop reference inside the harness"})
            if refn not in d:
                continue
            r0 = d[refn]
            if r0.get("KIND") == "exact":
                nexact += 1
                diff = sorted(k for k in d if d[k].get("D") != r0.get("D"))
                for k in diff[:3]:
                    v.violation("digest %s %s != %s" % (cid, k, refn),
                                {"kind": "cfg-digest", "case": cid, "config": k, "reference": refn, "got": d[k], "ref": r0,
                                 "oracle_says": {"config": d[k].get("ORACLE"), "reference": r0.get("ORACLE")}})
            else:
                napprox += 1
                for k in sorted(d):
                    okc, w = approx_close(r0, d[k])
                    worst = max(worst, w if w != float("inf") else 1e9)
                    if not okc:
                        v.violation("approx %s %s vs %s" % (cid, k, refn),
                                    {"kind": "cfg-approx", "case": cid, "config": k, "reference": refn, "got": d[k], "ref": r0, "ratio_to_tolerance": w})
        cross = cross_stage(v, wd, tier, seed)
    v.cov.update(cross)
    v.cov.update({
        "evaluations": pairs + nprobe + cross["cross_cases"], "distinct_nontrivial": multi,
        "rule": "one evaluation = one corpus case under one configuration (plus one per flag set of the configuration-table probe); "
                "non-trivial = a case that ran under at least three different instruction-set flag sets",
        "configs": [cname(c) for c in cfgs], "n_configs": len(cfgs), "compiler_runs": len(jobs), "corpus_calls": len(calls), "cases": len(cases),
        "exact_cases": nexact, "approx_cases": napprox, "approx_worst_ratio_to_tolerance": round(worst, 4),
        "probe_flagsets": nprobe, "probe_mismatches": pmism, "compile_rejections": len(rejected), "crashes": len(crashed),
        "samples": [{"flagset": s[0], "input": s[1], "impl": s[2][:300], "model": s[3][:300]} for s in psamples] +
                   [{"case": cid, "per_config": {k: cases[cid][k].get("D", cases[cid][k].get("V", ""))[:40] for k in sorted(cases[cid])[:4]}} for cid in sorted(cases)[:2]],
    })
    return v.finish()

def replay(path):
    obj = json.load(open(path))
    print(json.dumps(obj, indent=1)[:3000])
    print("replay: rebuild the corpus call under the two configurations named above with `./check C06 --tier quick`; "
          "the case id encodes the template arguments (harness/cfg_corpus.h).")
    if obj.get("kind") == "cfg-compile":
        with core.Scratch() as wd:
            cn = obj["config"].split("/")
            c = (cn[0], cn[1], cn[2], tuple("-DFASTOR_" + d if not d.startswith("CONTRACT") and not d.startswith("UNDEBUG") else "-D" + d for d in cn[3:]))
            r = core.build_and_run([job("replay", c, obj["header"], [obj["call"]])], wd)["replay"]
            print(r["compile_out"][-2000:])
            return 0 if r["rc_compile"] == 0 else 1
    return 1
