"""C08: validation of the intrinsic semantics (Model/SimdIntrinsics.lean, trusted base of the lane theorems) against the
CPU: harness/simd_intrin.h executes each modelled intrinsic on boundary + seeded lanes, `fmodel intrin` evaluates the
model on the same lanes, the result lanes must be identical (NaN canonicalised)."""
from vlib import core, symrun

def groups(tier, seed):
    n = 24 if tier == "quick" else 300
    return [{"key": "intrin/" + isa, "header": "simd_intrin.h", "isa": isa, "opt": "-O1", "calls": ["run_intrin(%du,%d);" % (seed, n + 8)]}
            for isa in (["sse2", "avx2", "avx512"] if tier == "quick" else ["sse2", "sse42", "avx", "avx2", "avx512"])]

def compare(v, res, stats):
    inputs = []; impl = []
    for r in res:
        rr = r["res"]; g = r["group"]
        if rr["rc_compile"] != 0 or rr["rc_run"] != 0:
            if v is not None:
                v.violation("harness-failure %s" % g["key"], {"kind": "harness-failure", "detail": (rr["compile_out"][-1500:] if rr["rc_compile"] else rr.get("err", ""))}, nofail=True)
            continue
        for line in rr["out"].split("\n"):
            if line.startswith("intrin ") and "|" in line:
                a, b = line.split("|", 1); inputs.append(a.strip()); impl.append((g, b.strip()))
    model = core.fmodel(inputs) if inputs else []
    bad = 0; names = set()
    for inp, (g, obs), mo in zip(inputs, impl, model):
        d = symrun.kv(inp); names.add(d["f"])
        if mo.strip() != obs:
            bad += 1
            if v is not None:
                v.violation("intrinsic-model f=%s imm=%s cfg=%s" % (d["f"], d.get("imm"), g["isa"]),
                            {"kind": "intrinsic-model", "isa": g["isa"], "input": inp, "cpu": obs, "model": mo,
                             "note": "Model/SimdIntrinsics.lean disagrees with the instruction executed on this CPU: the trusted base of the lane theorems is wrong"})
            else:
                print("MISMATCH", inp, "cpu:", obs, "model:", mo)
    if stats is not None:
        stats["evals"] += len(inputs); stats.setdefault("intrinsics", set()).update(names)
    return len(inputs), bad, names

def run(v, wd, tier, seed, stats):
    res = symrun.run_groups(groups(tier, seed), wd, per_tu=1, bisect=False)
    n, bad, names = compare(v, res, stats)
    v.cov["intrinsic_validation"] = {"cases": n, "mismatches": bad, "intrinsics": sorted(names)}

def replay(obj):
    out = core.fmodel([obj["input"]])
    print("model now:", out[0], " cpu then:", obj["cpu"])
    return 0 if out[0].strip() == obj["cpu"] else 1
