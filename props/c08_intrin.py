"""C08: validation of the intrinsic semantics (Model/SimdIntrinsics.lean) against the CPU — filled in below."""
def run(v, wd, tier, seed, stats):
    return
def replay(obj):
    return 1
