"""C01 — matrix product.  Proof: lean/FastorModel/Props/C01.lean.  Ties: K2 (real _matmul templates
over the symbolic carrier vs the Lean model: values, store order, read sets, chosen width), K4 (real
element types on exact integer data vs a naive triple loop, all ISAs, immediate / lazy / raw)."""
import random
from vlib import core, symrun, flow, shapes

PID = "C01"

def lanes(isa, sz):
    return max({"scalar": 1, "sse2": 16 // sz, "sse42": 16 // sz, "avx": 32 // sz, "avx2": 32 // sz, "avx512": 64 // sz}[isa], 1)

def shapes_for(isa, sz, tier, rng):
    V = lanes(isa, sz)
    Ns = set([1, 2, 3])
    for m in range(1, 7):
        for d in (-1, 0, 1, 2):
            n = m * V + d
            if n >= 1:
                Ns.add(n)
    Ns.add(V // 2 if V >= 2 else 1); Ns.add(max(V // 4, 1))
    Ms = [1, 2, 3, 4, 5, 7, 8, 9, 10, 11, 12, 13, 16, 17, 21, 24, 25]
    Ks = [1, 2, 3, 5]
    shapes = set()
    if tier == "quick":
        for n in sorted(Ns):
            for m in rng.sample(Ms, 3) + [rng.choice([12, 24]), rng.choice([5, 9, 13])]:
                shapes.add((m, rng.choice(Ks), n))
        for _ in range(30):
            shapes.add((rng.randint(1, 26), rng.randint(1, 6), rng.randint(1, 6 * V + 3)))
    else:
        for n in sorted(Ns) + [31, 32, 33, 63, 64, 65]:
            for m in Ms:
                for k in Ks[:3] if n > 3 * V else Ks:
                    shapes.add((m, k, n))
        for _ in range(300):
            shapes.add((rng.randint(1, 34), rng.randint(1, 9), rng.randint(1, 6 * V + 3)))
    return sorted(shapes)

def sym_groups(tier, seed):
    rng = random.Random(seed * 7919 + 1)
    isas = core.QUICK_ISAS if tier == "quick" else core.ALL_ISAS
    groups = []
    for isa in isas:
        for sz in (4, 8):
            calls = ["run_matmul<Sym%d,%d,%d,%d>();" % (sz, m, k, n) for (m, k, n) in shapes_for(isa, sz, tier, rng)]
            groups.append({"key": "%s/sz%d" % (isa, sz), "header": "matmul_sym.h", "isa": isa, "calls": calls})
    macro_cells = [("avx2", 4, ["-DFASTOR_MATMUL_INNER_BLOCK_SIZE=%d" % b]) for b in ((1, 3, 5) if tier == "quick" else (1, 2, 3, 4, 5))]
    macro_cells += [("sse2", 8, ["-DFASTOR_MATMUL_OUTER_BLOCK_SIZE=%d" % b]) for b in ((1,) if tier == "quick" else (1, 2, 3, 4, 5))]
    for isa, sz, defs in macro_cells:
        V = lanes(isa, sz)
        shp = [(m, k, n) for m in (5, 9, 13, 24) for k in (2, 3) for n in (5 * V + 1, 6 * V + 2, 6 * V + 3, 7 * V, 10 * V, 11 * V + 3)]
        calls = ["run_matmul<Sym%d,%d,%d,%d>();" % (sz, m, k, n) for (m, k, n) in shp]
        groups.append({"key": "%s/sz%d/%s" % (isa, sz, defs[0]), "header": "matmul_sym.h", "isa": isa, "defs": defs, "calls": calls})
    groups.append({"key": "sse2/sz4/c++17-O0", "header": "matmul_sym.h", "isa": "sse2", "std": "c++17", "opt": "-O0",
                   "calls": ["run_matmul<Sym4,%d,%d,%d>();" % s for s in [(5, 3, 7), (13, 2, 18), (4, 4, 4), (9, 5, 1), (2, 2, 3), (12, 3, 25)]]})
    return groups

def real_groups(tier, seed):
    rng = random.Random(seed * 104729 + 5)
    isas = core.QUICK_ISAS if tier == "quick" else core.ALL_ISAS
    types = ["float", "double", "int32_t", "int64_t", "std::complex<float>", "std::complex<double>"]
    groups = []
    for isa in isas:
        for t in types:
            shp = set([(2, 3, 2), (3, 5, 3), (4, 2, 4), (8, 3, 8), (3, 3, 3), (4, 4, 4), (1, 5, 1), (1, 1, 1), (5, 1, 6), (1, 4, 7), (6, 5, 1)])
            n_rand = 10 if tier == "quick" else 60
            for _ in range(n_rand):
                shp.add((rng.randint(1, 20), rng.randint(1, 7), rng.randint(1, 36)))
            for n in (15, 16, 17, 31, 33):
                shp.add((rng.choice([4, 5, 9]), rng.choice([2, 3]), n))
            # one representative of every (row part, column part) class pair of the base / masked-base kernels
            # (vlib/shapes.py), and every small-N overload (N <= 5V+1) with two row-remainder classes
            sz = {"float": 4, "int32_t": 4, "double": 8, "int64_t": 8, "std::complex<float>": 8, "std::complex<double>": 16}[t]
            if sz <= 8 and not (tier == "quick" and t.startswith("std::complex")):
                mn = shapes.covering_mn(isa, sz, rng)
                if tier == "quick" and t not in ("float", "double"):
                    mn = rng.sample(mn, max(len(mn) // 4, 1))
                for (m, n) in mn:
                    shp.add((m, rng.choice([1, 2, 3, 5]), n))
                W = shapes.lanes(shapes.NATIVE_BITS[isa], sz) if shapes.NATIVE_BITS[isa] else 1
                for n in range(1, 5 * W + 2):
                    for m in rng.sample([1, 2, 3, 4, 5, 7, 8, 9, 12, 13, 16, 17], (1 if tier == "quick" else 12)):
                        shp.add((m, rng.choice([1, 2, 3, 4]), n))
            calls = ["run_real<%s,%d,%d,%d>(%du);" % (t, m, k, n, seed * 131 + i) for i, (m, k, n) in enumerate(sorted(shp))]
            groups.append({"key": "%s/%s" % (isa, t), "header": "matmul_real.h", "isa": isa, "opt": "-O2", "calls": calls,
                           "pre": "static bool g_verbose=false;"})
    for b in ((5,) if tier == "quick" else (1, 2, 3, 4, 5)):
        groups.append({"key": "avx2/double/IB%d" % b, "header": "matmul_real.h", "isa": "avx2", "opt": "-O2",
                       "defs": ["-DFASTOR_MATMUL_INNER_BLOCK_SIZE=%d" % b], "pre": "static bool g_verbose=false;",
                       "calls": ["run_real<double,%d,%d,%d>(%du);" % (m, k, n, seed + m) for (m, k, n) in [(8, 3, 23), (5, 2, 21), (12, 3, 44), (9, 4, 26)]]})
    return groups

# --- intrinsic kernels of matmul_specialisations_kernels.h (added by the C08 builder): theorems Props/C01Kernels_<isa>.lean about
# the definitions the C08 translator generates from the current tree.  (a) they are counted in the evidence; (b) when one
# of them no longer builds, the real-type oracle cases run_real<T,M,K,N> of exactly those shapes are run.
KERNEL_MODULES = ["C01Kernels_sse2", "C01Kernels_avx2", "C01Kernels_avx512"]

def kernel_theorems():
    import os, re
    out = {}
    for mod in KERNEL_MODULES:
        p = os.path.join(core.LEAN, "FastorModel", "Props", mod + ".lean")
        if not os.path.exists(p): continue
        src = open(p).read().split("\n")
        starts = [(i + 1, re.match(r"^theorem\s+(\S+)", l).group(1)) for i, l in enumerate(src) if re.match(r"^theorem\s+\S+", l)]
        out[mod] = [(ln, starts[k + 1][0] - 1 if k + 1 < len(starts) else len(src), nm) for k, (ln, nm) in enumerate(starts)]
    return out

def kernel_stage(tier, seed):
    """-> (extra coverage dict, None) when the kernel theorems build, else (None, exit code) after reporting"""
    import re
    log = []
    core.regen_generated(log)
    ok, out = core.lake_build(targets=["FastorModel.Props." + m for m in KERNEL_MODULES], log=log)
    thms = kernel_theorems()
    n = sum(len(t) for t in thms.values())
    if ok:
        return {"kernel_theorems": {"modules": {m: len(t) for m, t in thms.items()}, "total": n, "log": log,
                                    "what": "value (out[i*N+j] = sum_k a[i*K+k]*b[k*N+j] under the ring laws used) and footprint theorems for the intrinsic "
                                            "_matmul specialisations / generic-K families as translated from the current tree (Generated/Simd_<isa>.lean)"}}, None
    mods, errs = core.failed_modules(out)
    if not any(m.startswith("FastorModel.Props.C01Kernels") for m in mods):
        return {"kernel_theorems": {"total": n, "build": "failed outside the kernel modules", "log": log}}, None
    v = core.Verdict(PID, tier, seed)
    broken = []
    for mod, tl in thms.items():
        for (f, ln, col, msg) in errs:
            if f.endswith("Props/%s.lean" % mod):
                for (a, b, nm) in tl:
                    if a <= int(ln) <= b and (mod, nm) not in broken: broken.append((mod, nm))
    calls = {}
    for mod, nm in broken:
        m = re.match(r"^matmul(?:8k8_(?:float|double))?_(float|double)_(\d+)_(\d+)_(\d+)", nm)
        if m: calls.setdefault(mod.split("_")[1], set()).add("run_real<%s,%s,%s,%s>(%du);" % (m.group(1), m.group(2), m.group(3), m.group(4), seed * 131 + 7))
    groups = [{"key": "%s/kernels" % isa, "header": "matmul_real.h", "isa": isa, "opt": o, "calls": sorted(cs), "pre": "static bool g_verbose=false;"}
              for isa, cs in calls.items() for o in ("-O2", "-O1")]
    with core.Scratch() as wd:
        real_n, real_fail, rinfra, _ = flow.run_oracle_groups(groups, wd)
        flow.report_infra(v, rinfra)
        for g, line, call in real_fail:
            v.violation("real " + line.split("|")[0].strip(), {"kind": "real-oracle", "group": g["key"], "isa": g["isa"], "defs": [], "std": "c++14", "opt": g.get("opt", "-O2"),
                        "header": g["header"], "pre": g.get("pre", ""), "line": line, "call": call})
    for mod, nm in broken:
        v.violation("proof-obligation %s.%s" % (mod, nm), {"kind": "proof-obligation", "theorem": "%s.%s" % (mod, nm), "errors": ["%s:%s: %s" % (e[0], e[1], e[3][:300]) for e in errs][:20],
                    "note": "the kernel theorem about the definition generated from the current tree no longer builds (the intrinsic sequence of the kernel changed, or it left the translator's grammar — see ./check C08); "
                            "the real-type oracle run_real<T,M,K,N> of this shape was run: " + ("failing cases are in the other replay files" if real_fail else "no failing input found")},
                    nofail=not real_fail)
    v.cov.update({"obligations": n, "discharged": n - len(broken), "evaluations": real_n, "rule": "kernel theorem(s) broken: real-type oracle cases of exactly those shapes", "kernel_theorems_broken": ["%s.%s" % b for b in broken]})
    return None, v.finish()

def run(tier, seed):
    extra, rc = kernel_stage(tier, seed)
    if extra is None:
        return rc
    return flow.standard_run(
        PID, tier, seed, "Fastor.C01.matmul_exact", "FastorModel.Model.Matmul", sym_groups, real_groups,
        assumptions=["extents and indices do not overflow size_t (N < 2^64 is a hypothesis of the theorem)",
                     "the floating-point rounding bound of the property is not a theorem here: exactness over a commutative semiring is proved; "
                     "float/double/complex runs use integer-valued data so that every intermediate is exact",
                     "MKL / LIBXSMM back ends are not built"],
        rule="symbolic cases: (cfg, sizeof T, M, K, N) instantiations of the real _matmul template over the free-commutative-ring carrier, compared "
             "with the Lean model on values, ordered store positions, read sets and vector width; non-trivial = dispatches to a vectorised kernel "
             "(base/basemasked/smalln/matvec). oracle cases: 6 element types x ISAs on integer data vs naive loop (immediate, lazy, raw + sentinels)",
        nontrivial=lambda inp, mo: symrun.kv(mo).get("route") not in ("tiny", "nonprim"), extra_cov=extra)

def sym_call_of(inp):
    d = symrun.kv(inp)
    defs = []
    if "ob" in d: defs.append("-DFASTOR_MATMUL_OUTER_BLOCK_SIZE=" + d["ob"])
    if "ib" in d: defs.append("-DFASTOR_MATMUL_INNER_BLOCK_SIZE=" + d["ib"])
    return {"key": "replay", "header": "matmul_sym.h", "isa": d["cfg"], "defs": defs,
            "calls": ["run_matmul<Sym%s,%s,%s,%s>();" % (d["sz"], d["M"], d["K"], d["N"])]}

def replay(path):
    return flow.standard_replay(path, sym_call_of)
