"""C01 — matrix product.  Proof: lean/FastorModel/Props/C01.lean.  Ties: K2 (real _matmul templates
over the symbolic carrier vs the Lean model: values, store order, read sets, chosen width), K4 (real
element types on exact integer data vs a naive triple loop, all ISAs, immediate / lazy / raw)."""
import os, random, json
from vlib import core, symrun

PID = "C01"

def vsize(isa, sz, N):
    # only used to pick interesting shapes; the authoritative value is printed by the harness
    lanes = {"scalar": 1, "sse2": 16 // sz, "sse42": 16 // sz, "avx": 32 // sz, "avx2": 32 // sz, "avx512": 64 // sz}[isa]
    return max(lanes, 1)

def shapes_for(isa, sz, tier, rng):
    V = vsize(isa, sz, 0)
    Ns = set([1, 2, 3])
    for m in range(1, 7):
        for d in (-1, 0, 1, 2):
            n = m * V + d
            if n >= 1:
                Ns.add(n)
    Ns.add(V // 2 if V >= 2 else 1); Ns.add(max(V // 4, 1))
    Ms = [1, 2, 3, 4, 5, 7, 8, 9, 10, 11, 12, 13, 16, 17, 21, 24, 25]
    Ks = [1, 2, 3, 5]
    shapes = set()
    if tier == "quick":
        # boundary part: every N class with a few M covering the row-remainder classes
        for n in sorted(Ns):
            for m in rng.sample(Ms, 3) + [rng.choice([12, 24]), rng.choice([5, 9, 13])]:
                shapes.add((m, rng.choice(Ks), n))
        for _ in range(30):
            shapes.add((rng.randint(1, 26), rng.randint(1, 6), rng.randint(1, 6 * V + 3)))
    else:
        for n in sorted(Ns) + [31, 32, 33, 63, 64, 65]:
            for m in Ms:
                for k in Ks[:3] if n > 3 * V else Ks:
                    shapes.add((m, k, n))
        for _ in range(300):
            shapes.add((rng.randint(1, 34), rng.randint(1, 9), rng.randint(1, 6 * V + 3)))
    return sorted(shapes)

def sym_groups(tier, seed):
    rng = random.Random(seed * 7919 + 1)
    isas = core.QUICK_ISAS if tier == "quick" else core.ALL_ISAS
    groups = []
    for isa in isas:
        for sz in (4, 8):
            calls = ["run_matmul<Sym%d,%d,%d,%d>();" % (sz, m, k, n) for (m, k, n) in shapes_for(isa, sz, tier, rng)]
            groups.append({"key": "%s/sz%d" % (isa, sz), "header": "matmul_sym.h", "isa": isa, "calls": calls})
    # block-size macros (one at a time); c++17 cell
    macro_cells = [("avx2", 4, ["-DFASTOR_MATMUL_INNER_BLOCK_SIZE=%d" % b]) for b in ((1, 3) if tier == "quick" else (1, 2, 3, 4))]
    macro_cells += [("sse2", 8, ["-DFASTOR_MATMUL_OUTER_BLOCK_SIZE=%d" % b]) for b in ((1,) if tier == "quick" else (1, 2, 3, 4, 5))]
    for isa, sz, defs in macro_cells:
        V = vsize(isa, sz, 0)
        shp = [(m, k, n) for m in (5, 9, 13, 24) for k in (2, 3) for n in (5 * V + 1, 6 * V + 2, 6 * V + 3, 7 * V)]
        calls = ["run_matmul<Sym%d,%d,%d,%d>();" % (sz, m, k, n) for (m, k, n) in shp]
        groups.append({"key": "%s/sz%d/%s" % (isa, sz, defs[0]), "header": "matmul_sym.h", "isa": isa, "defs": defs, "calls": calls})
    groups.append({"key": "sse2/sz4/c++17-O0", "header": "matmul_sym.h", "isa": "sse2", "std": "c++17", "opt": "-O0",
                   "calls": ["run_matmul<Sym4,%d,%d,%d>();" % s for s in [(5, 3, 7), (13, 2, 18), (4, 4, 4), (9, 5, 1), (2, 2, 3), (12, 3, 25)]]})
    return groups

def real_groups(tier, seed):
    rng = random.Random(seed * 104729 + 5)
    isas = core.QUICK_ISAS if tier == "quick" else core.ALL_ISAS
    types = ["float", "double", "int32_t", "int64_t", "std::complex<float>", "std::complex<double>"]
    groups = []
    for isa in isas:
        for t in types:
            shp = set([(2, 3, 2), (3, 5, 3), (4, 2, 4), (8, 3, 8), (3, 3, 3), (4, 4, 4), (1, 5, 1), (1, 1, 1), (5, 1, 6), (1, 4, 7), (6, 5, 1)])
            n_rand = 10 if tier == "quick" else 60
            for _ in range(n_rand):
                shp.add((rng.randint(1, 20), rng.randint(1, 7), rng.randint(1, 36)))
            for n in (15, 16, 17, 31, 33):
                shp.add((rng.choice([4, 5, 9]), rng.choice([2, 3]), n))
            calls = ["run_real<%s,%d,%d,%d>(%du);" % (t, m, k, n, seed * 131 + i) for i, (m, k, n) in enumerate(sorted(shp))]
            groups.append({"key": "%s/%s" % (isa, t), "header": "matmul_real.h", "isa": isa, "opt": "-O2", "calls": calls,
                           "pre": "static bool g_verbose=false;"})
    # documented tuning macros on real types
    for b in ((5,) if tier == "quick" else (1, 2, 3, 4, 5)):
        groups.append({"key": "avx2/double/IB%d" % b, "header": "matmul_real.h", "isa": "avx2", "opt": "-O2",
                       "defs": ["-DFASTOR_MATMUL_INNER_BLOCK_SIZE=%d" % b], "pre": "static bool g_verbose=false;",
                       "calls": ["run_real<double,%d,%d,%d>(%du);" % (m, k, n, seed + m) for (m, k, n) in [(8, 3, 23), (5, 2, 21), (12, 3, 44), (9, 4, 26)]]})
    return groups

def report_infra(v, infra):
    for e in infra:
        v.violation("harness-failure %s %s" % (e["group"], e["what"]),
                    {"kind": "harness-failure", "detail": e,
                     "note": "the harness for this configuration did not compile or crashed; the property is not shown for it"},
                    nofail=True)

def search_failing_input(v, mism, tier, seed, workdir):
    """correspondence broke (model and implementation differ structurally) but the oracle agreed on
    the compared cases: enlarge the box around the disagreeing configurations and ask the oracle."""
    keys = sorted(set(m["group"] for m in mism))
    groups = [g for g in sym_groups("thorough", seed + 17) if g["key"] in keys]
    res = symrun.run_groups(groups, workdir, per_tu=80)
    n, mm, ofail, infra, _ = symrun.compare_with_model(res, v)
    return n, ofail

def run(tier, seed):
    v = core.Verdict(PID, tier, seed)
    v.assumptions = ["extents and indices do not overflow size_t (N < 2^64 is a hypothesis of the theorem)",
                     "floating-point rounding bound of the property is not a theorem here: exactness over a commutative semiring is proved, "
                     "the forward error of float/double runs on non-integer data is outside this check",
                     "MKL / LIBXSMM back ends are not built"]
    ok, info = core.proof_stage(v, PID, thorough=(tier == "thorough"))
    v.cov["proof"] = {k: info.get(k) for k in ("build_ok", "problems", "failed_modules", "errors", "leanchecker", "log")}
    if not info.get("build_ok"):
        v.violation("lean-build-failed " + ",".join(info.get("failed_modules", [])),
                    {"kind": "proof-obligation", "detail": info,
                     "note": "lake build failed, so neither the theorems nor the driver can be used; no correspondence was run"}, nofail=True)
        return v.finish()
    with core.Scratch() as wd:
        sg = sym_groups(tier, seed)
        res = symrun.run_groups(sg, wd, per_tu=40)
        n, mism, ofail, infra, lines = symrun.compare_with_model(res, v)
        rg = real_groups(tier, seed)
        rres = symrun.run_groups(rg, wd, per_tu=40)
        real_n = 0; real_fail = []
        rinfra = []
        for r in rres:
            rr = r["res"]
            if rr["rc_compile"] != 0 or rr["rc_run"] != 0:
                rinfra.append({"group": r["group"]["key"], "what": "compile" if rr["rc_compile"] else "run rc=%s" % rr["rc_run"],
                               "calls": r["calls"][:3], "out": (rr["compile_out"][-2000:] if rr["rc_compile"] else rr.get("err", ""))})
            for line in rr["out"].split("\n"):
                if "|" in line:
                    real_n += 1
                    if not line.split("|", 1)[1].strip().startswith("ok"):
                        real_fail.append((r["group"], line))
        # verdicts
        report_infra(v, infra + rinfra)
        for f in ofail:
            v.violation("sym " + f["input"], {"kind": "sym-oracle", "group": f["group"], "input": f["input"], "impl": f["impl"],
                                               "model": f["model"], "replay": "./check C01 --replay <this file>"})
        for g, line in real_fail:
            v.violation("real " + line.split("|")[0].strip(), {"kind": "real-oracle", "group": g["key"], "isa": g["isa"], "defs": list(g.get("defs", ())),
                                                                  "line": line, "call": None})
        if mism and not ofail:
            nn, of2 = search_failing_input(v, mism, tier, seed, wd)
            v.cov["search_evaluations"] = nn
            if of2:
                for f in of2[:5]:
                    v.violation("sym " + f["input"], {"kind": "sym-oracle", "group": f["group"], "input": f["input"], "impl": f["impl"], "model": f["model"]})
            else:
                m0 = mism[0]
                v.violation("correspondence " + m0["input"] + " fields=" + ",".join(m0["fields"]),
                            {"kind": "correspondence", "broken": "model FastorModel.Model.Matmul (theorem Fastor.C01.matmul_exact is about this model) no longer "
                             "describes the code: store order / read sets / width differ", "first": m0, "count": len(mism),
                             "searched": nn}, nofail=True)
        if not ok and info.get("build_ok"):
            v.violation("audit " + "; ".join(info.get("problems", []))[:200], {"kind": "audit", "detail": info.get("problems")}, nofail=True)
    routes = {}
    for inp, obs, mo in lines:
        r = symrun.kv(mo).get("route", "?")
        routes[r] = routes.get(r, 0) + 1
    nontrivial = len(set(inp for inp, obs, mo in lines if symrun.kv(mo).get("route") not in ("tiny", "nonprim")))
    v.cov.update({"evaluations": n + real_n, "distinct_nontrivial": nontrivial,
                  "rule": "symbolic cases: (cfg, sizeof T, M, K, N) instantiations of the real _matmul template over the free-commutative-ring carrier, "
                          "compared with the Lean model on values, ordered store positions, read sets and vector width; non-trivial = dispatches to a "
                          "vectorised kernel (base/basemasked/smalln/matvec). real cases: 6 element types x ISAs on integer data vs naive loop",
                  "samples": [{"input": l[0], "impl": l[1], "model": l[2]} for l in lines[:3]] + [l for _, l in real_fail[:2]],
                  "route_hits": routes, "sym_cases": n, "real_cases": real_n, "mismatches": len(mism), "oracle_failures": len(ofail) + len(real_fail),
                  "configs": sorted(set(g["key"] for g in sg))})
    return v.finish()

def replay(path):
    obj = json.load(open(path))
    print(json.dumps(obj, indent=1)[:4000])
    kind = obj.get("kind")
    with core.Scratch() as wd:
        if kind in ("sym-oracle", "correspondence"):
            first = obj if kind == "sym-oracle" else obj["first"]
            d = symrun.kv(first["input"])
            defs = []
            if "ob" in d: defs.append("-DFASTOR_MATMUL_OUTER_BLOCK_SIZE=" + d["ob"])
            if "ib" in d: defs.append("-DFASTOR_MATMUL_INNER_BLOCK_SIZE=" + d["ib"])
            g = {"key": "replay", "header": "matmul_sym.h", "isa": d["cfg"], "defs": defs,
                 "calls": ["run_matmul<Sym%s,%s,%s,%s>();" % (d["sz"], d["M"], d["K"], d["N"])]}
            res = symrun.run_groups([g], wd, verbose=True)
            for r in res:
                print(r["res"]["compile_out"][-2000:] if r["res"]["rc_compile"] else r["res"]["out"])
            n, mism, ofail, infra, lines = symrun.compare_with_model(res, None)
            for l in lines: print("model:", l[2])
            return 1 if (mism or ofail or infra) else 0
        if kind == "real-oracle":
            line = obj["line"]; d = symrun.kv(line.split("|")[0])
            tmap = {"float": "float", "double": "double", "int32": "int32_t", "int64": "int64_t", "cfloat": "std::complex<float>", "cdouble": "std::complex<double>"}
            calls = ["run_real<%s,%s,%s,%s>(%du);" % (tmap[d["T"]], d["M"], d["K"], d["N"], s) for s in range(1, 6)]
            g = {"key": "replay", "header": "matmul_real.h", "isa": obj["isa"], "defs": obj.get("defs", []), "opt": "-O2", "calls": calls,
                 "pre": "static bool g_verbose=false;"}
            res = symrun.run_groups([g], wd)
            bad = False
            for r in res:
                out = r["res"]["compile_out"][-2000:] if r["res"]["rc_compile"] else r["res"]["out"]
                print(out); bad = bad or "FAIL" in out or r["res"]["rc_compile"] != 0
            return 1 if bad else 0
    print("replay: nothing executable in this replay file (kind=%s)" % kind)
    return 1
