"""C15 — multi-operand einsum.  Model: FastorModel/Model/Network.lean (cost model, selected variant,
composition of pairwise contractions, computed vs declared index order).  Ties: real 3- and
4-operand einsum over the symbolic carrier: selected variant (K5), declared extents, values."""
import random
from vlib import core, symrun, flow

PID = "C15"

def lab3(rng, nops, tier):
    """random index-sharing topologies: each index name used at most twice overall"""
    while True:
        ranks = [rng.choice([1, 2, 2, 3]) for _ in range(nops)]
        total = sum(ranks)
        labels = []; used = {}
        nxt = 0
        for _ in range(total):
            cands = [l for l in used if used[l] < 2]
            if cands and rng.random() < 0.55:
                l = rng.choice(cands)
            else:
                l = nxt; nxt += 1
            used[l] = used.get(l, 0) + 1; labels.append(l)
        ops = []; k = 0
        for r in ranks:
            ops.append(labels[k:k + r]); k += r
        # avoid an index repeated within one operand together with nothing shared (keeps cases meaningful) - allow all otherwise
        if any(len(set(o)) != len(o) for o in ops) and rng.random() < 0.7:
            continue
        return ops

def fixed_topologies():
    return [
        [[0, 1], [1, 2], [2, 3]],            # chain
        [[0, 1], [2, 3], [1, 3]],            # a-c, b-c  (free on both outer operands)
        [[0, 1], [1, 2], [2, 0]],            # cycle -> scalar
        [[0, 1], [0, 2], [0, 3]][:3],        # star would repeat 0 three times: replaced below
        [[0, 1, 2], [2, 3], [3, 4, 1]],
        [[0], [0, 1], [1]],
        [[0, 1], [2], [1, 2]],
    ]

def call(ops, ext, n):
    cs = lambda t: " VFC ".join(str(x) for x in t)
    idx = ", ".join(cs(o) for o in ops)
    dims = ", ".join(cs([ext[i] for i in o]) for o in ops)
    return "EINSUM%d_CASE(Sym4, %s, %s);" % (n, idx, dims)

def valid(ops):
    cat = [i for o in ops for i in o]
    return all(cat.count(i) <= 2 for i in cat) and all(len(o) > 0 for o in ops)

def sym_groups(tier, seed):
    rng = random.Random(seed * 4241 + 7)
    isas = ["sse2"] if tier == "quick" else core.ALL_ISAS
    groups = []
    for isa in isas:
        for nops in (3, 4):
            tops = [t for t in fixed_topologies() if valid(t)] if nops == 3 else [[[0, 1], [1, 2], [2, 3], [3, 4]], [[0, 1], [2, 3], [1, 3], [0, 4]], [[0, 1], [1, 2], [2, 3], [3, 0]]]
            for _ in range(7 if tier == "quick" else 80):
                t = lab3(rng, nops, tier)
                if valid(t): tops.append(t)
            calls = []
            for t in tops:
                names = sorted(set(i for o in t for i in o))
                for variant in range(3 if tier == "quick" else 6):
                    # extents chosen so that each evaluation order is the cheapest at least once; include equal extents on distinct free indices
                    if variant == 0: ext = {nm: 2 + (k % 3) for k, nm in enumerate(names)}
                    elif variant == 1: ext = {nm: rng.choice([2, 6, 7]) for nm in names}
                    elif variant == 2: ext = {nm: 3 for nm in names}
                    else: ext = {nm: rng.choice([2, 3, 5, 8]) for nm in names}
                    total = 1
                    for nm in names: total *= ext[nm]
                    if total <= 3000:
                        calls.append(call(t, ext, nops))
            groups.append({"key": "%s/n%d" % (isa, nops), "header": "einsum_sym.h", "isa": isa, "calls": calls})
    # operation minimisation switched off (documented macro)
    groups.append({"key": "sse2/n3/no-opmin", "header": "einsum_sym.h", "isa": "sse2", "defs": ["-DFASTOR_DONT_PERFORM_OP_MIN"],
                   "calls": [call(t, {nm: 2 + (k % 3) for k, nm in enumerate(sorted(set(i for o in t for i in o)))}, 3) for t in fixed_topologies() if valid(t)]})
    return groups

# ---------------------------------------------------------------------------------------------------
# real element types, 3..6 operands (harness/einsum_real.h, erealn): exact small-integer data against the naive Einstein
# sum over all index assignments, declared extents compared too.  5 and more operands only under C++17 (under C++14 the
# library rejects them for non-uniform extents: known finding ES5-CXX14 recorded under C06).
def chain(n): return [[k, k + 1] for k in range(n)]
def ntops(n, rng, tier):
    tops = [chain(n)]
    if n == 3: tops += [[[0, 1], [2, 3], [1, 3]], [[0, 1, 2], [2, 3], [3, 4, 1]], [[0], [0, 1], [1]], [[0, 1], [2], [1, 2]], [[0, 1], [1, 2], [2, 0]]]
    if n == 4: tops += [[[0, 1], [2, 3], [1, 3], [0, 4]], [[0, 1], [1, 2], [2, 3], [3, 0]], [[0, 1, 2], [2, 3], [3, 4], [4, 1]]]
    if n == 5: tops += [[[0, 1], [1, 2, 3], [3, 4], [4, 5], [5, 2]], [[0], [0, 1], [1, 2], [2, 3], [3]]]
    if n == 6: tops += [[[0, 1], [1, 2], [2, 3], [3, 4], [4, 5], [5, 0]]]
    for _ in range(2 if tier == "quick" else 4):
        t = lab3(rng, n, tier)
        if valid(t): tops.append(t)
    return tops

def real_groups(tier, seed):
    rng = random.Random(seed * 1777 + 13)
    if tier == "quick":
        cells = [("sse2", "c++14", []), ("avx2", "c++17", []), ("avx512", "c++17", []), ("sse2", "c++17", ["-DFASTOR_DONT_PERFORM_OP_MIN"]), ("avx2", "c++14", ["-DFASTOR_DONT_PERFORM_OP_MIN"])]
    else:
        # an n-operand einsum instantiation costs ~5 CPU-s to compile: the thorough box is a covering set of cells, not the full grid
        NO = ["-DFASTOR_DONT_PERFORM_OP_MIN"]
        cells = [("sse2", "c++14", []), ("sse2", "c++17", NO), ("avx2", "c++17", []), ("avx2", "c++14", NO), ("avx512", "c++17", []),
                 ("avx512", "c++14", NO), ("scalar", "c++17", []), ("sse42", "c++17", NO), ("avx", "c++17", [])]
    groups = []
    for ci, (isa, std, defs) in enumerate(cells):
        types = ["double", "float"] if tier == "quick" else (["double", "float", "int32_t", "int64_t"] if ci % 3 == 0 else ["double", "float"])
        if tier == "quick" and ci % 2 == 0: types = types + ["int32_t" if ci % 4 == 0 else "int64_t"]
        for t in types:
            cands = []
            for n in (3, 4, 5, 6):
                if n >= 5 and std == "c++14" and not defs:
                    continue
                if n == 6 and tier == "quick" and t != "double":
                    continue
                for top in ntops(n, rng, tier):
                    names = sorted(set(i for o in top for i in o))
                    cat = [i for o in top for i in o]
                    free_ops = [k for k, o in enumerate(top) if any(cat.count(i) == 1 for i in o)]
                    if n >= 5 and not set(free_ops) <= {0, n - 1}:
                        continue        # no model of the 5+ operand order: keep to topologies whose result order no pairing can change
                    for variant in range(3 if tier == "quick" else 4):
                        # shrinking / growing / mixed extents make different pairwise orders the cheapest
                        if variant == 0: ext = {nm: 2 + (len(names) - 1 - k) % 6 for k, nm in enumerate(names)}
                        elif variant == 1: ext = {nm: 2 + k % 6 for k, nm in enumerate(names)}
                        elif variant == 2: ext = {nm: rng.choice([2, 3, 4, 8]) for nm in names}
                        else: ext = {nm: rng.choice([2, 3, 5, 6, 7]) for nm in names}
                        total = 1
                        for nm in names: total *= ext[nm]
                        big = max(len(o) for o in top)
                        if total > (3000 if n <= 4 else 1500) or big > 4:
                            continue
                        cands.append((n, top, ext))
            # the index-order defect F9 (known finding, decided by the symbolic part of this check against the Lean model)
            # makes some 3-/4-operand results come out in the pairwise-evaluation order: ask the model which candidates keep the
            # declared order and run only those here, so that every failure of this family is a NEW violation
            q = [(n, top, ext) for (n, top, ext) in cands if n <= 4]
            keep = set()
            if q:
                lines = ["einsumn n=%d opmin=%d %s" % (n, 0 if defs else 1, " ".join("I%d=%s d%d=%s" % (k, ",".join(map(str, o)), k, ",".join(str(ext[i]) for i in o))
                                                                                      for k, o in enumerate(top))) for (n, top, ext) in q]
                for (n, top, ext), mo in zip(q, core.fmodel(lines)):
                    cat = [i for o in top for i in o]
                    declared = ",".join(str(i) for i in cat if cat.count(i) == 1)
                    ridx = symrun.kv(mo).get("RIDX", declared if declared else "-")
                    if ridx in (declared, "-" if not declared else declared, "") or (not declared):
                        keep.add((n, repr(top), tuple(sorted(ext.items()))))
            calls = []
            for (n, top, ext) in cands:
                if n <= 4 and (n, repr(top), tuple(sorted(ext.items()))) not in keep:
                    continue
                inds = ",".join("Index<%s>" % ",".join(map(str, o)) for o in top)
                tens = ",".join("Tensor<%s,%s>" % (t, ",".join(str(ext[i]) for i in o)) for o in top)
                calls.append("erealn<%s, tlist<%s>, tlist<%s>>::run(%du);" % (t, inds, tens, seed * 7 + len(calls)))
            groups.append({"key": "%s/%s/%s/%s" % (isa, std, "noopmin" if defs else "opmin", t), "header": "einsum_real.h", "isa": isa, "std": std,
                           "opt": "-O2", "defs": defs, "calls": calls})
    return groups

def ofail_key(f):
    io = symrun.kv(f["impl"]); mo = symrun.kv(f["model"]); d = symrun.kv(f["input"])
    # the implementation computes exactly what the model computes, and the model's computed index order differs from the declared one
    if "RIDX" in mo and io.get("VAL") == mo.get("VAL") and mo.get("DIMS") != mo.get("RDIMS") or \
       ("RIDX" in mo and io.get("VAL") == mo.get("VAL") and "CRASH" not in io):
        return "index-order n=%s VAR=%s %s" % (d.get("n"), mo.get("VAR"), f["input"])
    return None

def run(tier, seed):
    return flow.standard_run(
        PID, tier, seed, "Fastor.C15.(see Props/C15.lean)", "FastorModel.Model.Network", sym_groups, real_groups,
        assumptions=["every index name occurs at most twice over all operands", "exact symbolic data"],
        rule="3- and 4-operand index-sharing topologies (chains, cycles, shared outer operands, seeded random labelings with each name at most twice), "
             "several extent assignments each so that different evaluation orders are the cheapest; non-trivial = the cost model picks a variant other than 0",
        nontrivial=lambda inp, mo: symrun.kv(mo).get("VAR") not in ("0", None), per_tu=25, ignore=("VAR",) if False else (),
        ofail_key=ofail_key)

def replay(path):
    import json
    obj = json.load(open(path))
    inp = obj.get("input") or obj.get("first", {}).get("input")
    d = symrun.kv(inp)
    n = int(d["n"])
    cs = lambda s: " VFC ".join(s.split(","))
    idx = ", ".join(cs(d["I%d" % k]) for k in range(n)); dims = ", ".join(cs(d["d%d" % k]) for k in range(n))
    g = {"key": "replay", "header": "einsum_sym.h", "isa": obj.get("group", "sse2/").split("/")[0] or "sse2",
         "calls": ["EINSUM%d_CASE(Sym4, %s, %s);" % (n, idx, dims)]}
    from vlib import core as c
    with c.Scratch() as wd:
        res = symrun.run_groups([g], wd)
        for r in res: print(r["res"]["compile_out"][-1500:] if r["res"]["rc_compile"] else r["res"]["out"])
        nn, mism, ofail, infra, lines = symrun.compare_with_model(res, None)
        for l in lines: print("model:", l[2])
        return 1 if (mism or ofail or infra) else 0
