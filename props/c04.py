"""C04 — reading through a scalar index or a slice.  Proof: Props/C04.lean (normalisers, size, scalar indexing,
read routes and consumer loops of Model/Views.lean).  Ties: K1 the real view classes over the symbolic carrier
(every evaluator probed directly + three consumers; values, store order, read sets, vector loads, route),
K4 real element types per ISA against an explicit multi-index loop."""
import random
from vlib import core, symrun, flow

PID = "C04"
BITS = {"scalar": 0, "sse2": 128, "sse42": 128, "avx": 256, "avx2": 256, "avx512": 512}
TSIZE = {"float": 4, "double": 8, "int32_t": 4, "int64_t": 8, "std::complex<double>": 8, "std::complex<float>": 4}   # lanes of complex<U> = lanes of U
RTYPES = ["float", "double", "int32_t", "int64_t", "std::complex<double>", "std::complex<float>"]

def tname(t):
    return t.replace('std::complex<double>', 'cdouble').replace('std::complex<float>', 'cfloat')

def lanes(isa, sz):
    return max(1, BITS[isa] // (8 * sz))

def dims(t):
    return "DIMS(%s)" % ",".join(str(x) for x in t)

def kinds(t):
    return "KINDS(%s)" % ",".join(str(x) for x in t)

def dyn_family(V, rng, tier):
    """(kinds, parent extents, result extents) triples covering the size / remainder / route classes for width V"""
    small = max(1, V - 1)
    fam = []
    # rank 1: n < V, n = V, V < n < 2V, 2V, 2V+1 (vector body + scalar tail of trivial_assign)
    for d in [small, V, V + 1, 2 * V, 2 * V + 1]:
        fam.append(((0,), (max(2 * d, d + 3),), (d,)))
    # rank 2: row remainder classes of the two-index loop; integer / `all` mixtures
    for (r0, r1) in [(2, small), (3, V), (2, V + 1), (1, 2 * V + 1)]:
        fam.append(((0, 0), (2 * r0, 2 * r1 + 1), (r0, r1)))
    fam.append(((0, 1), (4, V + 2), (2, 1)))
    fam.append(((1, 0), (3, 2 * V + 3), (1, V + 1)))
    fam.append(((2, 0), (3, 2 * V + 1), (3, V)))
    fam.append(((0, 2), (4, V + 1), (2, V + 1)))
    fam.append(((2, 1), (V + 1, 3), (V + 1, 1)))
    # rank 3 / 4: contiguous | strided | gather routes of teval, odometer constructors
    fam.append(((0, 0, 0), (3, 4, 2 * V + 1), (2, 2, V)))
    fam.append(((0, 0, 0), (3, 4, 2 * V + 3), (2, 3, V + 1)))
    fam.append(((0, 1, 2), (3, 4, V), (2, 1, V)))
    fam.append(((1, 0, 0), (2, 4, 4 * V), (1, 2, 2 * V)))
    fam.append(((2, 0, 1), (3, 4, 3), (3, 2, 1)))
    fam.append(((0, 0, 1, 0), (2, 3, 2, V + 2), (2, 2, 1, V)))
    fam.append(((1, 2), (3, V + 1), (1, V + 1)))                                    # A(i, all)
    if tier == "thorough":
        fam.append(((0, 0, 1, 0, 0), (2, 2, 2, 3, V + 2), (1, 2, 1, 2, V)))       # rank 5
        fam.append(((0, 2, 0, 1, 0), (2, 2, 3, 2, 2 * V + 1), (2, 2, 2, 1, V + 1)))
        for _ in range(10):
            rk = rng.choice([1, 2, 2, 3, 3, 4])
            res = [rng.randint(1, 3) for _ in range(rk - 1)] + [rng.choice([1, small, V, V + 1, 2 * V, 3 * V + 1])]
            ks = [rng.choice([0, 0, 0, 1, 2]) for _ in range(rk)]
            if all(k == 1 for k in ks) or all(k == 2 for k in ks): ks[-1] = 0
            res = [1 if k == 1 else r for k, r in zip(ks, res)]
            par = [r if k == 2 else r * rng.randint(1, 2) + rng.randint(0, 2) for k, r in zip(ks, res)]
            fam.append((tuple(ks), tuple(par), tuple(res)))
    return fam

# quick tier: the classes every group runs, and the ones that rotate over the groups / seeds (indices into the families)
DYN_ALWAYS = [0, 1, 4, 6, 7, 8, 9, 11, 14, 15, 16, 18]
DYN_ROTATE = [[2, 3], [5, 10, 12, 13], [17, 19, 20]]
FIX_ALWAYS = [0, 4, 7, 8, 9]
FIX_ROTATE = [[1, 2], [3, 5, 6, 10]]

def pick_quick(fam, always, rotate, tier, k):
    if tier != "quick": return fam
    idx = sorted(always + [r[k % len(r)] for r in rotate])
    return [fam[i] for i in idx]

def const_rejected(ks, ck):
    """a const 2-D tensor indexed with one `all` and one seq is not accepted by the library (no matching
    TensorConstViewExpr constructor): compile acceptance is not part of C04, the combination is run non-const"""
    return False   # repaired on fix/c04: the const 2-D overloads for one fixed and one dynamic range were added

def spell(rng, f, l, s, D):
    w = rng.randint(0, 2)
    if w == 0: return (f, l, s)
    if w == 1: return (f, l - (D + 1), s)
    return (f - (D + 1), l - (D + 1), s)

def fix_family(V, rng, tier):
    """(parent extents, [(F,L,S)...]) for the fixed views; never the whole tensor (that overload returns the tensor itself)"""
    fam = []
    def axis(D, n, s, f=None):
        f = rng.randint(0, D - ((n - 1) * s + 1)) if f is None else f
        l = min(D, f + (n - 1) * s + rng.randint(1, s))
        return spell(rng, f, l, s, D)
    D1 = 4 * V + 2
    fam.append(((D1,), [axis(D1, 2 * V + 1, 1)]))
    fam.append(((D1,), [axis(D1, V + 1, 2)]))
    fam.append(((D1,), [axis(D1, V, 3)]))
    Dc = 2 * V + 3
    fam.append(((4, Dc), [axis(4, 2, 2), axis(Dc, V, 1)]))
    fam.append(((4, Dc), [axis(4, 3, 1), axis(Dc, V + 1, 2)]))
    fam.append(((4, Dc), [(-1, 0, 1), axis(Dc, 2 * V + 1, 1)]))
    fam.append(((4, Dc), [(0, -1, 1), axis(Dc, max(1, V - 1), 1)]))
    Dl = 2 * V + 1
    fam.append(((3, 4, Dl), [axis(3, 2, 1), axis(4, 2, 2), axis(Dl, V, 1)]))
    fam.append(((3, 4, Dl), [(0, -1, 1), axis(4, 1, 1), axis(Dl, V, 2)]))
    fam.append(((3, 4, Dl), [axis(3, 2, 2), (-1, 0, 1), axis(Dl, 3, 1)]))
    fam.append(((2, 3, 2, Dl), [(0, -1, 1), axis(3, 2, 1), (1, 2, 1), axis(Dl, V, 1)]))
    if tier == "thorough":
        for _ in range(12):
            rk = rng.choice([1, 2, 3, 3, 4])
            par = [rng.randint(2, 4) for _ in range(rk - 1)] + [rng.choice([V + 1, 2 * V + 1, 3 * V + 2])]
            sq = []
            for k, D in enumerate(par):
                s = rng.randint(1, 3); n = rng.randint(1, max(1, (D - 1) // s))
                if k == rk - 1: n = rng.choice([x for x in [1, V - 1, V, V + 1, 2 * V] if 1 <= x and (x - 1) * s + 1 <= D and x < D] or [1])
                sq.append(axis(D, n, s))
            fam.append((tuple(par), sq))
    return fam

def fix_call(fn, t, ck, par, sq):
    return "%s<%s,%d,%s,%s>();" % (fn, t, ck, dims(par), ",".join("Fastor::fseq<%d,%d,%d>" % q for q in sq))

def sym_groups(tier, seed):
    rng = random.Random(seed * 7001 + 4)
    isas = core.QUICK_ISAS if tier == "quick" else [i for i in core.ALL_ISAS if i != "scalar"]
    smax, cap = (3, 10) if tier == "quick" else (4, 150)
    groups = []; gi = 0
    for isa in isas:
        for sz in (4, 8):
            V = lanes(isa, sz)
            calls = []
            for n, (ks, par, res) in enumerate(pick_quick(dyn_family(V, rng, tier), DYN_ALWAYS, DYN_ROTATE, tier, seed + gi)):
                for ck in ((n + seed + gi) % 2,) if tier == "quick" else (0, 1):
                    if const_rejected(ks, ck): ck = 0
                    calls.append("run_view<Sym%d,%d,%s,%s,%s>(%d,%d,%du);" % (sz, ck, kinds(ks), dims(par), dims(res), smax, cap, seed * 31 + n))
            for n, (par, sq) in enumerate(pick_quick(fix_family(V, rng, tier), FIX_ALWAYS, FIX_ROTATE, tier, seed + gi)):
                for ck in ((n + seed + gi + 1) % 2,) if tier == "quick" else (0, 1):
                    calls.append(fix_call("run_fix", "Sym%d" % sz, ck, par, sq))
            # fixed integers fix<k>, k < 0 counted from the end, next to fseq axes
            Dc = 2 * V + 3; rr = random.Random(seed * 101 + gi)
            for n, (par, k, rest) in enumerate([((4, Dc), -2 - rr.randint(0, 2), [(1, 1 + V, 1)]), ((3, 4, 2 * V + 1), -1 - rr.randint(0, 2), [(0, -1, 1), (0, 2 * V, 2)])]
                                               + ([((5, Dc), rr.randint(0, 4), [(0, -1, 1)]), ((5, 3, V + 1), -5, [(1, 3, 1), (0, -1, 1)])] if tier == "thorough" else [])):
                calls.append("run_fixi<Sym%d,%d,%s,%d,%s>();" % (sz, (n + seed) % 2, dims(par), k, ",".join("Fastor::fseq<%d,%d,%d>" % q for q in rest)))
            # TensorMap parents: the generic n-D view class at ranks 1, 2, 3 (vectorisable / strided / gather last axis)
            for n, (ks, par, res) in enumerate([((0,), (4 * V + 2,), (2 * V + 1,)), ((0, 0), (4, 2 * V + 1), (2, V)), ((0, 1, 0), (2, 3, 2 * V + 3), (2, 1, V + 1))]
                                               + ([((2, 0), (3, 3 * V), (3, V)), ((0,), (3 * V,), (V,))] if tier == "thorough" else [])):
                calls.append("run_mview<Sym%d,%s,%s,%s>(%d,%d,%du);" % (sz, kinds(ks), dims(par), dims(res), smax, cap, seed * 13 + n))
            calls = list(dict.fromkeys(calls)); gi += 1
            groups.append({"key": "%s/sz%d" % (isa, sz), "header": "views_sym.h", "isa": isa, "opt": "-O0", "calls": calls})
    # 16-byte carrier (complex<double>-sized): the 16-byte overloads of the gather helpers, strided and index-array form
    for ii, isa in enumerate(isas):
        V = lanes(isa, 8); rr = random.Random(seed * 77 + ii)
        df = dyn_family(V, rr, "quick"); ff = fix_family(V, rr, "quick")
        calls = []
        for n, i in enumerate([4, 6 + (seed + ii) % 2, 14, 15] + ([1, 8, 10, 16, 19] if tier == "thorough" else [])):
            ks, par, res = df[i]
            calls.append("run_view<Sym16,%d,%s,%s,%s>(%d,%d,%du);" % ((n + seed + ii) % 2, kinds(ks), dims(par), dims(res), smax, cap, seed * 19 + n))
        for n, i in enumerate([1, 4, 8] + ([0, 5, 7, 9] if tier == "thorough" else [])):
            calls.append(fix_call("run_fix", "Sym16", (n + seed + ii + 1) % 2, ff[i][0], ff[i][1]))
        calls.append("run_mview<Sym16,%s,%s,%s>(%d,%d,%du);" % (kinds((0, 0)), dims((4, 2 * V + 1)), dims((2, V)), smax, cap, seed))
        groups.append({"key": "%s/sz16" % isa, "header": "views_sym.h", "isa": isa, "opt": "-O0", "calls": calls})
    if tier == "thorough":
        # the C++17 branches (if constexpr in the fixed views): one group again under -std=c++17
        for g in [g for g in groups if g["key"] in ("avx2/sz4", "avx512/sz8")]:
            groups.append(dict(g, key=g["key"] + "/cxx17", std="c++17"))
    # diagonal views (flat evaluators + trivial_assign), one unit per ISA
    for isa in isas:
        calls = []
        for sz in (4, 8):
            V = lanes(isa, sz)
            for n in sorted(set([max(2, V - 1), V, 2 * V + 1] + ([V + 1, 3 * V] if tier == "thorough" else []))):
                calls.append("run_diag<Sym%d,%d>();" % (sz, n))
        groups.append({"key": "%s/diag" % isa, "header": "views_diag.h", "isa": isa, "opt": "-O0", "calls": calls})
    # scalar indexing (all ranks: 1..4 written out, >= 5 the generic loop) with and without the bounds assertion; iseq
    capi = 300 if tier == "quick" else 3000
    sidx = []
    for n, d in enumerate([(7,), (3, 4), (2, 3, 4), (2, 3, 2, 3), (2, 3, 2, 3, 2), (2, 1, 2, 3, 2, 2)] + ([(1,), (5, 1), (4, 4, 4), (3, 2, 2, 2, 2, 2, 2)] if tier == "thorough" else [])):
        for ck in (0, 1):
            sidx.append("run_sidx<Sym4,%d,%s>(%d,%du);" % (ck, ",".join(map(str, d)), capi, seed + n))
    iseqs = [((9,), [(1, 8, 3)]), ((9,), [(0, 9, 1)]), ((5, 6), [(0, 4, 2), (1, 6, 3)]), ((5, 6), [(4, 5, 1), (0, 6, 2)]),
             ((3, 4, 5), [(0, 3, 2), (1, 4, 1), (0, 5, 2)]), ((3, 4, 5, 2), [(0, 3, 2), (1, 4, 1), (0, 5, 2), (1, 2, 1)])]
    if tier == "thorough":
        for _ in range(20):
            par = [rng.randint(1, 6) for _ in range(rng.randint(1, 4))]
            sq = []
            for D in par:
                f = rng.randint(0, D - 1); l = rng.randint(f + 1, D); sq.append((f, l, rng.randint(1, 3)))
            iseqs.append((tuple(par), sq))
    icalls = ["run_iseq<Sym4,%s,%s>();" % (dims(par), ",".join("Fastor::iseq<%d,%d,%d>" % q for q in sq)) for par, sq in iseqs]
    groups.append({"key": "sse2/idx", "header": "views_sym.h", "isa": "sse2", "opt": "-O0", "calls": sidx + icalls})
    groups.append({"key": "sse2/idx-ndebug", "header": "views_sym.h", "isa": "sse2", "opt": "-O0", "defs": ["-DNDEBUG"], "calls": sidx})
    return groups

def real_groups(tier, seed):
    rng = random.Random(seed * 433 + 11)
    isas = core.QUICK_ISAS if tier == "quick" else core.ALL_ISAS
    smax, cap = (3, 40) if tier == "quick" else (4, 400)
    groups = []; gi = 0
    for isa in isas:
        for t in RTYPES:
            gi += 1
            V = lanes(isa, TSIZE[t])
            dfam = dyn_family(V, rng, tier); ffam = fix_family(V, rng, tier)
            if tier == "quick":
                # one representative per class: rank-1 with tail, 2-D with row remainder, integer mixture, both n-D routes
                pick = [4, 7, 9, 14 + (seed + gi) % 5]
                dfam = [dfam[i] for i in pick]; ffam = [ffam[i] for i in (3 + (seed + gi) % 4, 7 + (seed + gi) % 3)]
            calls = []
            for n, (ks, par, res) in enumerate(dfam):
                ck = (n + seed + gi) % 2
                calls.append("run_rview<%s,%d,%s,%s,%s>(%d,%d,%du);" % (t, ck, kinds(ks), dims(par), dims(res), smax, cap, seed * 17 + n))
            for n, (par, sq) in enumerate(ffam):
                calls.append(fix_call("run_rfix", t, (n + seed + gi + 1) % 2, par, sq))
            groups.append({"key": "%s/%s" % (isa, tname(t)), "header": "views_real.h", "isa": isa, "opt": "-O2", "calls": calls})
            if tier == "thorough" and isa in ("sse2", "avx2", "avx512"):
                groups.append({"key": "%s/%s/ndebug" % (isa, tname(t)), "header": "views_real.h", "isa": isa, "opt": "-O2", "defs": ["-DNDEBUG"], "calls": calls,
                               "std": "c++17"})
    # use sites: compound assignment, comparisons, reductions, linear algebra, mixed forms, TensorMap — per type the
    # last extent is vector-only (V), vector + tail (V+1, 2V+1) and tail-only (V-1)
    for ii, isa in enumerate(isas):
        calls = []
        for ti, t in enumerate(["float", "double", "int32_t", "int64_t"]):
            V = lanes(isa, TSIZE[t])
            sizes = [V, (V + 1 if (seed + ii + ti) % 2 else 2 * V + 1), max(1, V - 1)] + ([3 * V, V + 2, 1] if tier == "thorough" else [])
            for k, nl in enumerate(sorted(set(sizes))):
                calls.append("run_use<%s,%d,%d>();" % (t, 2 + (k + ti + seed) % 2, nl))
        if isa == "sse2":
            calls += ["run_dynres<double>();", "run_dynres<int32_t>();"]
        groups.append({"key": "%s/use" % isa, "header": "views_use_real.h", "isa": isa, "opt": "-O1", "calls": calls})
        if tier == "thorough" and isa in ("sse2", "avx512"):
            groups.append({"key": "%s/use/ndebug17" % isa, "header": "views_use_real.h", "isa": isa, "opt": "-O2", "std": "c++17", "defs": ["-DNDEBUG"], "calls": calls})
    for isa in isas:
        calls = []
        for t in RTYPES:
            V = lanes(isa, TSIZE[t])
            for n in sorted(set([V, 2 * V + 1] + ([max(2, V - 1), 3 * V] if tier == "thorough" else []))):
                calls.append("run_rdiag<%s,%d>();" % (t, n))
        groups.append({"key": "%s/diag" % isa, "header": "views_diag.h", "isa": isa, "opt": "-O2", "calls": calls, "pre": "#define VW_DIAG_REAL"})
    return groups

def nontrivial(inp, mo):
    d = symrun.kv(inp)
    if inp.startswith("diag"):
        return True
    if inp.startswith("sidx"):
        return any(int(x) < 0 for x in d.get("I", "0").split(","))
    for ax in d.get("S", "").split(","):
        q = ax.split(":")
        if len(q) == 4 and (q[0] != "0" or q[2] != "1" or q[3] == "1" or int(q[1]) < 0):
            return True
    return False

def coverage_summary(tier, seed):
    sg = sym_groups(tier, seed); rg = real_groups(tier, seed)
    def count(groups, prefix): return sum(1 for g in groups for c in g["calls"] if c.startswith(prefix))
    return {"instantiations": {"dynamic views (Tensor parent)": count(sg, "run_view<"), "dynamic views (TensorMap parent)": count(sg, "run_mview<"),
                               "fixed views": count(sg, "run_fix<"), "fixed views with fix<k> integers": count(sg, "run_fixi<"),
                               "scalar indexing shapes": count(sg, "run_sidx<"), "iseq": count(sg, "run_iseq<"), "diagonal views": count(sg, "run_diag<") + count(rg, "run_rdiag<"),
                               "real-type dynamic": count(rg, "run_rview<"), "real-type fixed": count(rg, "run_rfix<"),
                               "real-type use sites (x ~45 forms each)": count(rg, "run_use<")},
            "vector_widths": sorted(set(lanes(g["isa"], 8 if g["key"].endswith("sz16") else int(g["key"].split("/sz")[1][0])) for g in sg if "/sz" in g["key"])),
            "carrier_sizes": [4, 8, 16],
            "size_classes": "per width V: rank-1 extents V-1,V,V+1,2V,2V+1; 2-D last extents <V,V,V+1,2V+1 with steps 1..3; n-D last extents V (contiguous, strided), V+1 and 1 (gather/scalar); rank 4; "
                            "integers (also negative) and `all` mixtures; const and non-const",
            "real_type_configs": sorted(g["key"] for g in rg),
            "evaluators_probed": ["size", "dimension", "eval_s(i)", "eval(i)", "eval_s(i,j)", "eval(i,j)", "teval_s(as)", "teval(as)"],
            "consumers": ["Tensor r(view)", "r += view", "Tensor r(2*viewA + viewB)", "r = view (real types)"]}

def run(tier, seed):
    return flow.standard_run(
        PID, tier, seed, "Fastor.C04.read_correct", "FastorModel.Model.Views", sym_groups, real_groups,
        assumptions=["admissible ranges only (0 <= first < last <= extent after the documented reading of negative / last-relative bounds, step >= 1); "
                     "other spellings are not judged",
                     "vector primitives (load/store/set) are lane-wise: the symbolic runs use an ideal SIMDVector, the real ones are C08 + the K4 runs here",
                     "integer-valued data for the real-type runs (exact)"],
        rule="symbolic cases: one line per (cfg, sizeof T, view class, constness, parent extents, ranges as written) — every evaluator of the real view "
             "class (eval_s, eval, the two-index forms, teval_s, teval) probed at every position and three consumers (constructor, +=, sum of two views) "
             "over the token carrier, compared with the Lean model on values, store order, read sets, vector-load counts, extents and route; scalar-index "
             "lines: one per index tuple; non-trivial = some axis has first != 0, step != 1, a negative / last-relative spelling or an integer "
             "(scalar indexing: some negative index)",
        nontrivial=nontrivial, per_tu=11, extra_cov=coverage_summary(tier, seed))

def vsize(q, D, is1d=False):
    f, l, s, i = q
    if i: return 1
    if f == -1 and l == 0 and not is1d: f, l = D - 1, D
    else:
        if f < 0: f += D + 1
        if l < 0: l += D + 1
    return (l - f + s - 1) // s

def sym_call_of(inp):
    d = symrun.kv(inp)
    g = {"key": "replay", "header": "views_sym.h", "isa": d["cfg"], "opt": "-O0"}
    if inp.startswith("diag"):
        g["header"] = "views_diag.h"; g["calls"] = ["run_diag<Sym%s,%s>();" % (d["sz"], d["n"])]
        return g
    if inp.startswith("sidx"):
        g["calls"] = ["run_sidx<Sym4,%d,%s>(100000,1u);" % (1 if d["ck"] == "c" else 0, d["D"].replace("x", ","))]
        if d.get("chk") == "0": g["defs"] = ["-DNDEBUG"]
        return g
    par = [int(x) for x in d["D"].split("x")]
    qs = [tuple(int(x) for x in ax.split(":")) for ax in d["S"].split(",")]
    if inp.startswith("iseq"):
        g["calls"] = ["run_iseq<Sym%s,%s,%s>();" % (d["sz"], dims(par), ",".join("Fastor::iseq<%d,%d,%d>" % q[:3] for q in qs))]
        return g
    ck = 1 if d["ck"] == "c" else 0
    if d["cls"].startswith("fix") and "I0" in d:
        g["calls"] = ["run_fixi<Sym%s,%d,%s,%s,%s>();" % (d["sz"], ck, dims(par), d["I0"], ",".join("Fastor::fseq<%d,%d,%d>" % q[:3] for q in qs[1:]))]
    elif d["cls"].startswith("fix"):
        g["calls"] = [fix_call("run_fix", "Sym" + d["sz"], ck, par, [q[:3] for q in qs])]
    else:
        ks = [int(x) for x in d["K"].split("x")]
        res = [vsize(q, D, len(par) == 1) for q, D in zip(qs, par)]
        if d.get("par") == "map":
            g["calls"] = ['run_mview_one<Sym%s,%s,%s,%s>("%s");' % (d["sz"], kinds(ks), dims(par), dims(res), d["S"])]
        else:
            g["calls"] = ['run_view_one<Sym%s,%d,%s,%s,%s>("%s");' % (d["sz"], ck, kinds(ks), dims(par), dims(res), d["S"])]
    return g

def replay(path):
    return flow.standard_replay(path, sym_call_of)
