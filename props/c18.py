"""C18 — overlapping slice assignment with noalias() acts on a snapshot of the source.
Proof: Props/C18.lean (noalias_snapshot, perfect_overlap_no_flag, perfect_overlap_eq_guarded, flag_one_shot, ...).
Tie: the C05 harness with right-hand sides that are slices of the destination tensor itself (`a`: A(r2),
`b`: A(r2)*c + A(r3)), with and without noalias(), fresh and STORED view objects (`k`), all operators, per ISA.
The Lean model executes the in-order path reading the current memory, so for an unguarded overlap it predicts
the traversal-dependent outcome exactly (whole tensor compared); the in-harness reference demands snapshot
semantics whenever the guard is taken or source and destination coincide exactly."""
import random
from vlib import core, symrun, flow
from props import vwgen as G
from props import c05

PID = "C18"

def alias_write(dims, V, rng, op=None, dst=None, src=None, na=False, keep=False, rk=None, perfect=False, ops=None):
    rank1 = len(dims) == 1
    if dst is None:
        dst = []
        for k, n in enumerate(dims):
            if k == len(dims) - 1:
                opts = [e for e in (V, 2 * V, V + 1, V - 1, 1, rng.randint(1, n)) if 1 <= e <= n]
                dst.append(G.rand_range(n, rng, rank1, rng.choice(opts)))
            else:
                dst.append(G.rand_range(n, rng, rank1))
    exts = [G.ext_of(t, n) for t, n in zip(dst, dims)]
    rk = rk or rng.choice("aaab")
    def other():
        if perfect:
            return list(dst)
        return [G.range_with_ext(n, e, rng, rank1) for n, e in zip(dims, exts)]
    src = src or other()
    src2 = other() if rk == "b" else None
    op = op or rng.choice(ops or G.OPS)
    if rk == "s":
        return G.write_txt(op + ("n" if na else "") + ("k" if keep else ""), "s", rng.choice([2, 4, -2]) if op == "div" else rng.choice([2, 3, -1]), dst)
    return G.write_txt(op + ("n" if na else "") + ("k" if keep else ""), rk, rng.choice([2, 3, -1, 5]), dst, src, src2)

def cap_mul(script, keep=1):
    """the symbolic carrier squares its polynomials on every aliased `mul`: keep at most `keep` of them per script
    (the others become `sub`), otherwise the harness itself needs gigabytes"""
    ws = script.split("/"); seen = 0
    for i, w in enumerate(ws):
        f = w.split(".")
        # an UNGUARDED `mul` by A(r2)*c + A(r3) over overlapping ranges chains through the elements in traversal
        # order and doubles the number of polynomial terms per element (2^extent): not run on the symbolic carrier
        if f[0].startswith("mul") and f[1] == "b" and "n" not in f[0][3:]:
            f[0] = "sub" + f[0][3:]
            ws[i] = ".".join(f)
            continue
        if f[0].startswith("mul") and f[1] in "ab":
            seen += 1
            if seen > keep:
                f[0] = "sub" + f[0][3:]
                ws[i] = ".".join(f)
    return "/".join(ws)

def scripts(dims, V, rng, quick):
    return [cap_mul(s) for s in scripts0(dims, V, rng, quick)]

def scripts0(dims, V, rng, quick):
    out = []
    n = dims[0]
    if len(dims) == 1:
        tri = G.all_triples(n, (1, 2, 3))
        pairs = []
        for d in tri:
            e = G.ext_of(d, n)
            for s in tri:
                if G.ext_of(s, n) == e:
                    pairs.append((d, s))
        cap = 240 if quick else 3000
        if len(pairs) > cap:
            pairs = rng.sample(pairs, cap)
        for i, (d, s) in enumerate(pairs):
            for na in ((rng.random() < 0.5,) if quick else (False, True)):
                out.append(alias_write(dims, V, rng, op=G.OPS[i % 4], dst=[d], src=[s], na=na, rk="a"))
    cnt = (60 if quick else 600) if len(dims) == 1 else (140 if quick else 1500)
    for _ in range(cnt):
        out.append(alias_write(dims, V, rng, na=rng.random() < 0.5))
    # exact coincidence without the flag, and g(A(r)) forms
    for _ in range(30 if quick else 200):
        out.append(alias_write(dims, V, rng, na=False, perfect=True))
    # histories on a stored view object: noalias() once, then repeated application
    for _ in range(40 if quick else 400):
        first = alias_write(dims, V, rng, na=True, rk=rng.choice("asab"))
        dst = first.split(".")[3]
        dstr = [tuple(int(x) for x in ax.split("_")) for ax in dst.split(",")]
        ws = [first]
        for _ in range(rng.randint(1, 3)):
            ws.append(alias_write(dims, V, rng, dst=dstr, na=rng.random() < 0.2, keep=True, rk=rng.choice("aasb")))
        out.append("/".join(ws))
    return out

def shapes(V, which):
    return {"a1": (max(9, 2 * V + 1),), "a2": (4, 2 * V + 1), "a3": (2, 3, 2 * V)}[which]

def sym_groups(tier, seed):
    rng = random.Random(seed * 104729 + 11)
    quick = tier == "quick"
    cfgs = c05.SYM_CFGS if quick else c05.ALL_CFGS
    groups = []
    for ci, (isa, sz) in enumerate(cfgs):
        V = G.vwidth(isa, sz)
        for which in ("a1", "a2", "a3"):
            if quick and which == "a3" and (ci + seed) % 2:
                continue
            vea = 0 if which == "a3" else (ci + seed) % 2
            dims = shapes(V, which)
            r2 = random.Random(rng.random())
            sc = scripts(dims, V, r2, quick)
            rd = tuple(1 for _ in dims)
            calls = ['VW(Sym%d, %s, %s, "%s");' % (sz, c05.tup(rd), c05.tup(dims), s) for s in sc]
            groups.append({"key": "%s/sz%d/vea%d/%s" % (isa, sz, vea, which), "header": "view_write_sym.h", "isa": isa, "opt": "-O0",
                           "defs": ["-DFASTOR_USE_VECTORISED_EXPR_ASSIGN"] if vea else [], "calls": calls})
        # fixed views with the flag: one per configuration
        fam = [("g1", (2 * V + 3,), [(1, V + 2, 1)], 0), ("g2", (4, V + 3), [(1, 4, 2), (1, V + 2, 1)], 1),
               ("g3", (2, 3, 2 * V), [(0, 1, 1), (1, 3, 1), (0, V, 1)], 0), ("g1s", (2 * V + 5,), [(0, -1, 2)], 1)]
        pick = [fam[(ci + seed) % 4]] if quick else fam
        for (name, dims, fseqs, vea) in pick:
            r2 = random.Random(rng.random())
            sc = []
            for _ in range(40 if quick else 300):
                ws = [alias_write(dims, V, r2, dst=list(fseqs), na=r2.random() < 0.6)]
                for _ in range(r2.randint(0, 2)):
                    ws.append(alias_write(dims, V, r2, dst=list(fseqs), na=r2.random() < 0.2, keep=True, rk=r2.choice("aasb")))
                sc.append(cap_mul("/".join(ws)))
            rd = tuple(G.ext_of(t, n) for t, n in zip(fseqs, dims))
            fs = "(" + ", ".join("fseq<%d,%d,%d>" % t for t in fseqs) + ")"
            calls = ['VWF(Sym%d, %s, %s, %s, "%s");' % (sz, c05.tup(rd), c05.tup(dims), fs, s) for s in sc]
            groups.append({"key": "%s/sz%d/vea%d/%s" % (isa, sz, vea, name), "header": "view_write_sym.h", "isa": isa, "opt": "-O0",
                           "defs": ["-DFASTOR_USE_VECTORISED_EXPR_ASSIGN"] if vea else [], "calls": calls})
    # TensorMap parents (a map over the storage of A; its slices are always the generic n-D view classes): one dynamic
    # group per configuration with the rank rotating, fixed views on three configurations
    for ci, (isa, sz) in enumerate(cfgs):
        V = G.vwidth(isa, sz)
        for which in (([("a1", "a2", "a3")[(ci // 2 + seed) % 3]] if ci % 2 != seed % 2 else []) if quick else ["a1", "a2", "a3"]):
            dims = shapes(V, which)
            r2 = random.Random(rng.random())
            sc = scripts(dims, V, r2, quick)
            if quick:
                sc = r2.sample(sc, min(len(sc), 160))
            rd = tuple(1 for _ in dims)
            calls = ['VWP(Sym%d, %s, %s, "%s");' % (sz, c05.tup(rd), c05.tup(dims), s) for s in sc]
            groups.append({"key": "%s/sz%d/vea0/map-%s" % (isa, sz, which), "header": "view_write_sym.h", "isa": isa, "opt": "-O0", "defs": [], "calls": calls})
        if not quick or ci % 2 == seed % 2:
            fam = [("g1", (2 * V + 3,), [(1, V + 2, 1)]), ("g2", (4, V + 3), [(1, 4, 2), (1, V + 2, 1)]),
                   ("g3", (2, 3, 2 * V), [(0, 1, 1), (1, 3, 1), (0, V, 1)]), ("g1s", (2 * V + 5,), [(0, -1, 2)])]
            for (name, dims, fseqs) in ([fam[(ci // 2 + seed) % 4]] if quick else fam):
                r2 = random.Random(rng.random())
                sc = []
                for _ in range(40 if quick else 300):
                    ws = [alias_write(dims, V, r2, dst=list(fseqs), na=r2.random() < 0.6)]
                    for _ in range(r2.randint(0, 2)):
                        ws.append(alias_write(dims, V, r2, dst=list(fseqs), na=r2.random() < 0.2, keep=True, rk=r2.choice("aasb")))
                    sc.append(cap_mul("/".join(ws)))
                rd = tuple(G.ext_of(t, n) for t, n in zip(fseqs, dims))
                fs = "(" + ", ".join("fseq<%d,%d,%d>" % t for t in fseqs) + ")"
                calls = ['VWPF(Sym%d, %s, %s, %s, "%s");' % (sz, c05.tup(rd), c05.tup(dims), fs, s) for s in sc]
                groups.append({"key": "%s/sz%d/vea0/map-%s" % (isa, sz, name), "header": "view_write_sym.h", "isa": isa, "opt": "-O0", "defs": [], "calls": calls})
    # the FASTOR_NO_ALIAS=1 cell (documented: "no aliasing is assumed", the guard is compiled out): the flag is stored
    # and never tested, so every aliased statement takes the in-order path; recorded separately (route …-nal)
    for (isa, sz) in ([("avx2", 4)] if quick else [("sse2", 8), ("avx2", 4), ("avx512", 4)]):
        V = G.vwidth(isa, sz)
        for which in (["a1"] if quick else ["a1", "a2", "a3"]):
            dims = shapes(V, which)
            r2 = random.Random(rng.random())
            sc = [alias_write(dims, V, r2, na=True) for _ in range(60 if quick else 400)]
            sc += [alias_write(dims, V, r2, na=True, perfect=True) for _ in range(20 if quick else 100)]
            sc = [x.replace("muln.b.", "subn.b.") for x in sc]       # the flag has no effect in this cell: same hazard
            rd = tuple(1 for _ in dims)
            calls = ['VW(Sym%d, %s, %s, "%s");' % (sz, c05.tup(rd), c05.tup(dims), s) for s in sc]
            groups.append({"key": "%s/sz%d/vea0/nal-%s" % (isa, sz, which), "header": "view_write_sym.h", "isa": isa, "opt": "-O0",
                           "defs": ["-DFASTOR_NO_ALIAS=1"], "calls": calls})
    return c05.only_filter(groups)

def real_groups(tier, seed):
    """overlap patterns on the real element types, all five operators, guarded or exactly coinciding cases judged"""
    rng = random.Random(seed * 7727 + 3)
    quick = tier == "quick"
    isas = core.QUICK_ISAS if quick else core.ALL_ISAS
    groups = []
    ci = 0
    G.REVERSED_P[0] = 0.1
    try:
        for isa in isas:
            for (t, sz) in c05.REAL_TYPES:
                ci += 1
                V = G.vwidth(isa, sz)
                for wi, which in enumerate([("a1", "a2", "a3")[(ci + seed) % 3]] if quick else ["a1", "a2", "a3"]):
                    for vea in ([(ci + seed) % 2] if quick else [(ci + wi) % 2]):
                        dims = shapes(V, which)
                        r2 = random.Random(rng.random())
                        sc = []
                        for k in range(120 if quick else 1200):
                            na = r2.random() < 0.7
                            ws = [alias_write(dims, V, r2, na=na, perfect=(not na and r2.random() < 0.6), ops=G.OPS5)]
                            if r2.random() < 0.3:
                                dstr = [tuple(int(x) for x in ax.split("_")) for ax in ws[0].split(".")[3].split(",")]
                                for _ in range(r2.randint(1, 2)):
                                    ws.append(alias_write(dims, V, r2, dst=dstr, na=r2.random() < 0.5, keep=True, rk=r2.choice("aasb"), ops=G.OPS5))
                            sc.append("/".join(ws))
                        rd = tuple(1 for _ in dims)
                        calls = ['VWR(%s, %s, %s, %du, "%s");' % (t, c05.tup(rd), c05.tup(dims), seed * 1000 + k, s) for k, s in enumerate(sc)]
                        groups.append({"key": "real/%s/%s/vea%d/%s" % (isa, t, vea, which), "header": "view_write_real.h", "isa": isa, "opt": "-O2",
                                       "defs": ["-ffp-contract=off"] + (["-DFASTOR_USE_VECTORISED_EXPR_ASSIGN"] if vea else []), "pre": "", "calls": calls})
                # a TensorMap parent on the real types: dynamic view on every other cell (quick), fixed on the remaining ones
                if not quick or (ci + seed) % 3 == 1:
                    which = ("a1", "a2", "a3")[(ci // 3 + seed) % 3]
                    dims = shapes(V, which)
                    r2 = random.Random(rng.random())
                    sc = []
                    for k in range(100 if quick else 800):
                        na = r2.random() < 0.75
                        sc.append(alias_write(dims, V, r2, na=na, perfect=(not na and r2.random() < 0.6), ops=G.OPS5))
                    rd = tuple(1 for _ in dims)
                    calls = ['VWRP(%s, %s, %s, %du, "%s");' % (t, c05.tup(rd), c05.tup(dims), seed * 1000 + k, s) for k, s in enumerate(sc)]
                    groups.append({"key": "real/%s/%s/vea0/map-%s" % (isa, t, which), "header": "view_write_real.h", "isa": isa, "opt": "-O2",
                                   "defs": ["-ffp-contract=off"], "pre": "", "calls": calls})
                # a fixed view with the flag on real types: every other cell
                if not quick or (ci + seed) % 3 == 0:
                    fam = [("g1", (2 * V + 3,), [(1, V + 2, 1)], 0), ("g2", (4, V + 3), [(1, 4, 2), (1, V + 2, 1)], 1),
                           ("g1s", (2 * V + 5,), [(0, -1, 2)], 1), ("g2s", (3, 2 * V + 1), [(0, -1, 1), (0, -1, 2)], 0),
                           ("g3", (2, 3, 2 * V), [(0, 1, 1), (1, 3, 1), (0, V, 1)], 0), ("g3s", (2, 3, V + 2), [(0, -1, 1), (0, -1, 2), (1, -1, 1)], 0)]
                    for (name, dims, fseqs, vea) in ([fam[(ci // 2 + seed) % 6]] if quick else [fam[ci % 6], fam[(ci + 2) % 6], fam[(ci + 4) % 6]]):
                        r2 = random.Random(rng.random())
                        sc = []
                        for k in range(40 if quick else 300):
                            ws = [alias_write(dims, V, r2, dst=list(fseqs), na=r2.random() < 0.8, ops=G.OPS5)]
                            if r2.random() < 0.3:
                                ws.append(alias_write(dims, V, r2, dst=list(fseqs), na=r2.random() < 0.5, keep=True, rk=r2.choice("aasb"), ops=G.OPS5))
                            sc.append("/".join(ws))
                        G.REVERSED_P[0] = 0.0
                        rd = tuple(G.ext_of(x, n) for x, n in zip(fseqs, dims))
                        G.REVERSED_P[0] = 0.1
                        fs = "(" + ", ".join("fseq<%d,%d,%d>" % x for x in fseqs) + ")"
                        usemap = (ci // 2) % 2 == 1
                        calls = ['%s(%s, %s, %s, %s, %du, "%s");' % ("VWRPF" if usemap else "VWRF", t, c05.tup(rd), c05.tup(dims), fs, seed * 1000 + k, s) for k, s in enumerate(sc)]
                        groups.append({"key": "real/%s/%s/vea%d/%s%s" % (isa, t, vea, "map-" if usemap else "", name), "header": "view_write_real.h", "isa": isa, "opt": "-O2",
                                       "defs": ["-ffp-contract=off"] + (["-DFASTOR_USE_VECTORISED_EXPR_ASSIGN"] if vea else []), "pre": "", "calls": calls})
    finally:
        G.REVERSED_P[0] = 0.0
    return c05.only_filter(groups)

def nontrivial(inp, mo):
    # a case is non-trivial when some write reads the destination tensor (kinds a / b)
    w = symrun.kv(inp).get("W", "")
    return any(x.split(".")[1] in "ab" for x in w.split("/"))

def run(tier, seed):
    return flow.standard_run(
        PID, tier, seed, "Fastor.C18.noalias_snapshot", "FastorModel.Model.ViewAlias", sym_groups, real_groups,
        assumptions=["vector primitives are lane-wise (property C08)",
                     "index-tensor and boolean-mask views are covered by property C19's machinery, not here; the model records that mask views never test the flag",
                     "ranges have positive steps (seq documents no negative step); FASTOR_NO_ALIAS is not defined"],
        rule="rank 1: every pair of equal-extent (first,last,step<=3) ranges on an axis of max(9,2V+1) elements (sampled above the cap), "
             "ranks 2-3 seeded; operators rotate over = += -= *=; each with and without noalias(); exact coincidence without the flag; "
             "histories of 2-4 statements on a STORED view object with noalias() called before the first (and sometimes again); "
             "non-trivial = at least one right-hand side reads the destination tensor",
        nontrivial=nontrivial, per_tu=100000)

def replay(path):
    return flow.standard_replay(path, c05.sym_call_of)
