"""C19 — index-tensor views and boolean-mask views select and update exactly the indexed items.
Proof: Props/C19.lean (flat_index_correct for every per-axis overload, random_read, random_write with frame,
filter_write).  Ties: the real view classes over the symbolic carrier against the Lean model
(whole parent tensor, store order, read sets, width, out-of-window accesses) — every index vector of
length <= 3 over parents of <= 5 elements, all 2^n masks for n <= 10, seeded longer index tensors of every
overload around multiples of the vector width; real element types against plain loops."""
import os, random, re
from vlib import core, symrun, flow

PID = "C19"
HDR = "random_views_sym.h"
TREES = ["v1", "v1_v4_add", "v1_t2_mul", "c3_v1_mul_v4_sub", "c7", "t2", "t2_t3_add", "t2_t3_mul", "v4"]
OPS = ["set", "add", "sub", "mul"]
LANES = {"scalar": 0, "sse2": 16, "sse42": 16, "avx": 32, "avx2": 32, "avx512": 64}
ITY = {"i32": "int", "i64": "long", "u64": "unsigned long", "ll": "long long"}

def load_vars():
    """the variant table (act, op, tree, cst) is read from the harness so that the two cannot drift apart"""
    src = open(os.path.join(core.VERIF, "harness", HDR)).read()
    m = re.search(r"static constexpr Var VARS\[\] = \{(.*?)\};", src, flags=re.S)
    return [tuple(int(x) for x in t.split(",")) for t in re.findall(r"\{([0-9, ]+)\}", m.group(1))]

VARS = load_vars()
NV = len(VARS)
READS = [i for i, v in enumerate(VARS) if v[0] == 0]
WRITES = [i for i, v in enumerate(VARS) if v[0] == 1]
NOCST = [i for i, v in enumerate(VARS) if v[3] == 0]

def vset(ids):
    return "%dul" % sum(1 << i for i in set(ids))

class Rot:
    """hands out variants in rotation so that, within a group, every write overload (operator x operand kind) and every read
    variant of the pool is instantiated — nothing is left to chance"""
    def __init__(self, rng, pool):
        self.r = [i for i in pool if i in READS]; self.w = [i for i in pool if i in WRITES]
        self.ri = rng.randrange(max(len(self.r), 1)); self.wi = rng.randrange(max(len(self.w), 1))
    def take(self, k):
        nr = min(len(self.r), 1 if k <= 3 else 2)
        out = []
        for _ in range(nr):
            out.append(self.r[self.ri % len(self.r)]); self.ri += 1
        for _ in range(min(k - nr, len(self.w))):
            out.append(self.w[self.wi % len(self.w)]); self.wi += 1
        return out

def vlanes(isa, sz):
    return max(LANES[isa] // sz, 1)

def idx_str(xs):
    return ".".join(str(x) for x in xs) if xs else "-"

def pick_indices(rng, length, bound, mode):
    """mode 0: duplicate-free arbitrary order (needs length <= bound), 1: with repeats, 2: descending duplicate-free"""
    if mode != 1 and length <= bound:
        xs = rng.sample(range(bound), length)
        if mode == 2: xs.sort(reverse=True)
        return xs
    return [rng.randrange(bound) for _ in range(length)]

def sizes_around(V, rng, k):
    base = sorted(set(x for x in [1, V - 1, V, V + 1, 2 * V - 1, 2 * V, 2 * V + 1, 3 * V + 2] if x >= 1))
    must = [x for x in (V, V + 1, 2 * V + 1) if x in base]
    rest = [x for x in base if x not in must]
    return (must + rng.sample(rest, min(len(rest), max(0, k - len(must)))))[:max(k, len(must))]

def dims_for(cls, V, rng):
    """(a, b) with a*b in the size class: vo = multiple of V, vt = above V and not a multiple, to = below V"""
    if V == 1:
        return rng.choice([(2, 3), (3, 2), (1, 4)])
    if cls == "vo":
        return rng.choice([(2, V), (V, 2), (1, V), (V, 1)] if V > 2 else [(2, 2), (3, 2), (2, 3)])
    if cls == "vt":
        return rng.choice([(3, V + 1), (V + 1, 3)] if V != 3 else [(2, 5), (5, 2)]) if rng.random() < 0.7 else rng.choice([(1, V + 1), (2 * V + 1, 1)])
    return rng.choice([(1, V - 1), (V - 1, 1)] + ([(2, (V - 1) // 2), ((V - 1) // 2, 2)] if V >= 5 else []))

def single_calls(rng, isa, sz, tier, writes_only=False, gi=0):
    """seeded longer index tensors: for every overload x size class (vector-only / vector+tail / tail-only) one read and one
    write instantiation, each serving several index vectors (duplicate-free arbitrary order, with repeats, descending)"""
    V = vlanes(isa, sz)
    T = "Sym%d" % sz
    calls = []
    nrep = 2 if tier == "quick" else 4
    rounds = 1 if tier == "quick" else 3
    itys = list(ITY.values())
    rots = {True: Rot(rng, list(range(NV))), False: Rot(rng, list(range(NV)))}    # 1-D view class / n-D view class
    rc = {"c": rng.randrange(8), "n": rng.randrange(8), "k": 0}
    READS_C = [i for i in READS if VARS[i][3] == 1]; READS_N = [i for i in READS if VARS[i][3] == 0]
    def variants(one_d=False, want_const=None):
        """one read and one write variant; the read goes through the const-parent overload when want_const"""
        r = rots[one_d]
        w = r.w[r.wi % len(r.w)]; r.wi += 1
        if writes_only: return [w]
        if want_const is None:
            rd = r.r[r.ri % len(r.r)]; r.ri += 1
        elif want_const:
            rd = READS_C[rc["c"] % len(READS_C)]; rc["c"] += 1
        else:
            rd = READS_N[rc["n"] % len(READS_N)]; rc["n"] += 1
        return [rd, w]
    def combo(kind_index, ci):
        """(index type, const parent) of the read instantiation: the 8 combinations are enumerated cyclically over
        size classes and groups, so every overload meets every combination within two groups"""
        return (gi * 3 + ci + kind_index) % 8
    def ity_of(kind_index, ci, vi, shift=0):
        q = combo(kind_index, ci)
        return itys[(q + shift + (0 if vi in READS else 1 + ci)) % len(itys)]
    def cst_of(kind_index, ci):
        return combo(kind_index, ci) >= 4
    def other(lo, avoid):
        x = lo + rng.randint(0, 3)
        while x in avoid: x += 1
        return x
    classes = ["vo", "vt", "to"] if V > 1 else ["vo"]
    for rnd in range(rounds):
        for ci0, cls in enumerate(classes):
            ci = ci0 + rnd
            # flat1
            a, b = dims_for(cls, V, rng); M = a * b
            N = other(M + 1, {M})
            for vi in variants(True, cst_of(0, ci % 3)):
                for rep in range(nrep):
                    calls.append('rv::flat1<%s,%s,%d,%d,%d>("%s");' % (T, ity_of(0, ci, vi), N, M, vi, idx_str(pick_indices(rng, M, N, rep % 3))))
            # flat2
            P, Q = dims_for(cls, V, rng)
            R = rng.randint(2, 5); C = other((P * Q + R - 1) // R + 1, {R, P, Q})
            for vi in variants(False, cst_of(1, ci % 3)):
                for rep in range(nrep):
                    calls.append('rv::flat2<%s,%s,%d,%d,%d,%d,%d>("%s");' % (T, ity_of(1, ci, vi), R, C, P, Q, vi, idx_str(pick_indices(rng, P * Q, R * C, rep % 3))))
            # index x index
            M, N = dims_for(cls, V, rng)
            R = other(max(M, 2), {M, N}); C = other(max(N, 2), {R, M, N, 1})
            for vi in variants(False, cst_of(2, ci % 3)):
                i0t, i1t = ity_of(2, ci, vi), ity_of(2, ci, vi, 1 + ci % 3)
                for rep in range(nrep):
                    x = pick_indices(rng, M, R, rep % 3); y = pick_indices(rng, N, C, (rep + (rep > 1)) % 3)
                    calls.append('rv::ii<%s,%s,%s,%d,%d,%d,%d,%d>("%s","%s");' % (T, i0t, i1t, R, C, M, N, vi, idx_str(x), idx_str(y)))
            # index x integer, integer x index
            for swap in (0, 1):
                a, b = dims_for(cls, V, rng); M = a * b
                if not swap: R = other(max(M, 2), {M}); C = other(2, {R, M, 1})
                else: C = other(max(M, 2), {M, 1}); R = other(2, {C, M})
                nums = ["int", "long", "unsigned long", "short", "long long"]
                for vi in variants(False, cst_of(3 + swap, ci % 3)):
                    i0t = ity_of(3 + swap, ci, vi); i1t = nums[(rc["k"]) % len(nums)]; rc["k"] += 1
                    for rep in range(nrep):
                        x = pick_indices(rng, M, C if swap else R, rep % 3); hi = R if swap else C
                        num = hi - 1 if rep == 0 else rng.randrange(1, hi)
                        calls.append('rv::in_<%s,%s,%s,%d,%d,%d,%d,%d>("%s",%d);' % (T, i0t, i1t, R, C, M, swap, vi, idx_str(x), num))
            # index x fseq, fseq x index
            for kind in ("if_", "fi"):
                K, fsz = dims_for(cls, V, rng)
                F = rng.randint(0, 2); S = rng.randint(1, 3)
                end = F + (fsz - 1) * S + 1                 # smallest `last` giving fsz elements
                D = end + rng.choice([0, 0, 1, 2]); L = -1 if (D - F + S - 1) // S == fsz and rng.random() < 0.6 else end
                O = other(max(K, 2), {K, D, fsz, 1})
                R, C = (O, D) if kind == "if_" else (D, O); kix = 5 if kind == "if_" else 6
                for vi in variants(False, cst_of(kix, ci % 3)):
                    for rep in range(nrep):
                        calls.append('rv::%s<%s,%s,%d,%d,%d,%d,%d,%d,%d>("%s");' % (kind, T, ity_of(kix, ci, vi), R, C, K, F, L, S, vi, idx_str(pick_indices(rng, K, O, rep % 3))))
    if not writes_only:
        # the view as the source of an assignment to a 2-D / 3-D range view (two-index and multi-index members)
        for q in range(3 if tier == "quick" else 8):
            N = [V + 1, 2 * V + 1, 3][q % 3] if q < 3 else rng.randint(2, 2 * V + 2)
            M = rng.randint(2, 3)
            R = other(M, {M, N}); C = other(N, {R, M, N})
            dyn, cst = q % 2, (q // 2) % 2
            for rep in range(nrep):
                x = pick_indices(rng, M, R, rep % 3); y = pick_indices(rng, N, C, (rep + 1) % 3)
                calls.append('rv::to2d<%s,%s,%s,%d,%d,%d,%d,%d,%d>("%s","%s");' % (T, rng.choice(itys[:2]), itys[q % 3], R, C, M, N, dyn, cst, idx_str(x), idx_str(y)))
        for q in range(2 if tier == "quick" else 6):
            P2 = [V, V + 1][q % 2] if q < 2 else rng.randint(1, V + 2)
            P0, P1 = rng.randint(1, 3), rng.randint(2, 3)
            D0, D1, D2 = other(P0, {P0}), other(P1, {P1}), other(P2, {P2})
            for rep in range(nrep):
                x = pick_indices(rng, P0 * P1 * P2, D0 * D1 * D2, rep % 3)
                calls.append('rv::to3d<%s,%s,%d,%d,%d,%d,%d,%d,%d,%d>("%s");' % (T, itys[q % 3], D0, D1, D2, P0, P1, P2, 1 - q % 2, q % 2, idx_str(x)))
        # joint cases with the range views: X = A(it0,it1) + S(r0,r1) (two-index constructor loop); A(it) op= S(range)
        for q in range(3 if tier == "quick" else 9):
            N = [V + 1, 2 * V, max(V - 1, 2)][q % 3] if q < 3 else rng.randint(2, 2 * V + 2)
            M = rng.randint(2, 3)
            R = other(M, {M, N}); C = other(N, {R, M, N})
            F0, S0, F1, S1 = rng.randint(0, 2), rng.randint(1, 2), rng.randint(0, 2), [1, 2, 1][q % 3]
            SR = F0 + (M - 1) * S0 + 1 + rng.randint(0, 1); SC = other(F1 + (N - 1) * S1 + 1, {SR, C})
            for rep in range(nrep):
                x = pick_indices(rng, M, R, rep % 3); y = pick_indices(rng, N, C, (rep + 1) % 3)
                calls.append('rv::ctor2<%s,%s,%s,%d,%d,%d,%d,%d,%d,%d,%d,%d,%d,%d>("%s","%s");' % (T, itys[q % 4], itys[(q + 2) % 4], R, C, M, N, SR, SC, F0, S0, F1, S1, q % 2, idx_str(x), idx_str(y)))
    # (also in the vectorised-assign groups)
    for q in range(3 if tier == "quick" else 9):
        M = [V + 1, 2 * V, max(V - 1, 1)][q % 3] if q < 3 else rng.randint(1, 2 * V + 2)
        N = other(M + 1, {M}); F, St = rng.randint(0, 2), [1, 2, 3][q % 3]
        SN = F + (M - 1) * St + 1 + rng.randint(0, 2); OP = (q + (1 if writes_only else 0)) % 4
        for rep in range(nrep):
            calls.append('rv::vsrc<%s,%s,%d,%d,%d,%d,%d,%d,%d>("%s");' % (T, itys[(q + 1) % 4], N, M, SN, F, St, OP, q % 2, idx_str(pick_indices(rng, M, N, rep % 3))))
    # right-hand sides that are evaluated into a temporary first (the evaluating overload of each operator): the 1-D index view ...
    for q in range(4 if tier == "quick" else 12):
        M = [V + 1, 2 * V, max(V - 1, 2), 2 * V + 1][q % 4]; N = other(M + 1, {M})
        kind = [0, 2, 3][(q + gi) % 3]
        for rep in range(nrep):
            calls.append('rv::staged1<%s,%s,%d,%d,%d,%d>("%s");' % (T, itys[(q + gi) % 4], N, M, q % 4, kind, idx_str(pick_indices(rng, M, N, rep % 3))))
    if not writes_only:
        # ... and the mask view (all four kinds: P%Q, trans(C), P%Q+D, a product reading the parent)
        for q in range(4 if tier == "quick" else 16):
            m_, n_ = [(2, 3), (3, 2), (2, V + 1), (3, 3)][(q + gi) % 4]
            calls.append("rv::fstaged_seeded<%s,%d,%d,%d,%d>(%d,%du);" % (T, m_, n_, (q + gi + q // 4) % 4, q % 4, 4 if tier == "quick" else 10, rng.randrange(1 << 16)))
    if not writes_only:
        for q in range(2 if tier == "quick" else 6):
            N = [2 * V + 1, V][q % 2] if q < 2 else rng.randint(1, 2 * V + 3)
            F, St = rng.randint(0, 2), 1 + q % 2
            SN = F + (N - 1) * St + 1 + rng.randint(0, 2)
            calls.append("rv::fsrc_seeded<%s,%d,%d,%d,%d,%d,%d>(%d,%du);" % (T, N, SN, F, St, (q + gi) % 4, (q + 1) % 2, 4 if tier == "quick" else 12, rng.randrange(1 << 16)))
    return calls

def exhaustive_calls(rng, isa, sz, tier, writes_only=False):
    T = "Sym%d" % sz
    calls = []
    pool = WRITES if writes_only else list(range(NV))
    itys = list(ITY.values())
    nvar = 4 if tier == "quick" else 10
    per = 2 if tier == "quick" else 4
    rot1, rot2 = Rot(rng, pool), Rot(rng, pool)       # 1-D view class, n-D view class
    for N in range(1, 6):
        for M in range(1, 4):
            calls.append("rv::flat1_all<%s,%s,%d,%d,%s>(%d,%du);" % (T, itys[(N + M) % len(itys)], N, M, vset(rot1.take(nvar if N == 5 or tier != "quick" else 2)), per, rng.randrange(NV)))
    shapes = [(2, 3, 3, 2), (3, 2, 2, 3), (2, 3, 2, 3), (3, 2, 1, 3), (1, 5, 1, 3), (5, 1, 3, 1), (2, 2, 3, 3), (2, 3, 3, 1)]
    for (R, C, M, N) in (shapes[:2] + rng.sample(shapes[2:], 2) if tier == "quick" else shapes):
        calls.append("rv::ii_all<%s,%s,%s,%d,%d,%d,%d,%s>(%d,%du);" % (T, rng.choice(itys), rng.choice(itys), R, C, M, N, vset(rot2.take(nvar)), 1 if tier == "quick" else 3, rng.randrange(NV)))
    return calls

def vea_extra_calls(rng, isa, sz):
    """vectorised-assign groups: every write variant once for the 1-D view class and once for the n-D class with a length that
    runs the vector loop and the tail"""
    V = vlanes(isa, sz); T = "Sym%d" % sz
    calls = []
    itys = list(ITY.values())
    for k, vi in enumerate(WRITES):
        M = [V + 1, 2 * V + 1, 2 * V][k % 3]; N = M + 1 + k % 3
        calls.append('rv::flat1<%s,%s,%d,%d,%d>("%s");' % (T, itys[k % 3], N, M, vi, idx_str(pick_indices(rng, M, N, 0))))
        a, b = [(3, V + 1), (V + 1, 3), (2, V)][k % 3]
        R, C = a + 1 + k % 2, b + 2
        if R == C: C += 1
        calls.append('rv::ii<%s,%s,%s,%d,%d,%d,%d,%d>("%s","%s");' % (T, itys[k % 3], itys[(k + 1) % 3], R, C, a, b, vi, idx_str(pick_indices(rng, a, R, 0)), idx_str(pick_indices(rng, b, C, 2))))
    return calls

def filter_calls(rng, isa_index, isa, tier, seed):
    calls = {4: [], 8: []}
    nmax = 10 if tier == "quick" else 12
    frot = Rot(rng, NOCST)
    for n in range(1, nmax + 1):
        sz = 4 if (n + isa_index) % 2 == 0 else 8
        ids = frot.take(4 if tier == "quick" else 9)
        per = (2 if n < 9 else 1) if tier == "quick" else (4 if n < 11 else 2)
        calls[sz].append("rv::filt_all<Sym%d,%s,%d>(%d,%du,0,0u);" % (sz, vset(ids), n, per, rng.randrange(NV)))
    V4, V8 = vlanes(isa, 4), vlanes(isa, 8)
    seeded = ((4, (3, 4)), (8, (2, 3, 3)), (4, (2, 2, 5)), (8, (5, 3)), (4, (2 * V4 + 1,)), (8, (3 * V8 + 2,)), (4, (V4, 3)))
    for sz, dims in (seeded[1:6] if tier == "quick" else seeded):
        ids = frot.take(4 if tier == "quick" else 9)
        calls[sz].append("rv::filt_all<Sym%d,%s,%s>(1,%du,%d,%du);" % (sz, vset(ids), ",".join(map(str, dims)), rng.randrange(NV),
                                                                         12 if tier == "quick" else 60, seed * 31 + len(calls[sz])))
    # a mask view as the source of a 3-D range view (teval / teval_s of the mask view)
    for q, sz in enumerate((4, 8)):
        V = vlanes(isa, sz)
        for (d2, dyn) in ((V, q), (2 * V, 1 - q), (V + 1, q)):
            calls[sz].append("rv::filt3_seeded<Sym%d,2,%d,%d,%d>(%d,%du);" % (sz, 2 + q, d2, dyn, 4 if tier == "quick" else 16, seed * 7 + d2))
    return calls

def sym_groups(tier, seed):
    rng = random.Random(seed * 9176 + 19)
    isas = core.QUICK_ISAS if tier == "quick" else [i for i in core.ALL_ISAS if i != "scalar"]
    groups = []
    VEA = ["-DFASTOR_USE_VECTORISED_EXPR_ASSIGN"]
    for ii, isa in enumerate(isas):
        fc = filter_calls(rng, ii, isa, tier, seed)
        for sz in (4, 8):
            calls = exhaustive_calls(rng, isa, sz, tier) + single_calls(rng, isa, sz, tier, gi=2 * ii + sz // 8 + seed) + fc[sz]
            groups.append({"key": "%s/sz%d" % (isa, sz), "header": HDR, "isa": isa, "calls": calls})
        # the vectorised assignment paths of the views (writes only)
        for sz in ((4, 8) if tier == "thorough" else ((4,) if ii % 2 == 0 else (8,))):
            calls = single_calls(rng, isa, sz, tier, writes_only=True)
            ex = exhaustive_calls(rng, isa, sz, tier, writes_only=True)
            calls += ex if tier == "thorough" else [c for c in ex if ",5,3," in c or ",5,2," in c or ",3,2," in c or ",4,3," in c or "ii_all" in c][:6]
            calls += vea_extra_calls(rng, isa, sz)
            groups.append({"key": "%s/sz%d/vea" % (isa, sz), "header": HDR, "isa": isa, "defs": VEA, "calls": calls})
    # FASTOR_DONT_VECTORISE: width 1
    calls = [c for c in exhaustive_calls(rng, "scalar", 4, tier) if ",3,2," in c or ",5,3," in c or "ii_all" in c][:4] + single_calls(rng, "scalar", 8, "quick")[:12]
    calls += ["rv::filt_all<Sym4,%s,5>(2,3u,0,0u);" % vset(Rot(rng, NOCST).take(5))]
    groups.append({"key": "scalar", "header": HDR, "isa": "scalar", "calls": calls})
    only = os.environ.get("VERIF_C19_ONLY")          # development aid: restrict to the groups whose key matches
    if only:
        groups = [g for g in groups if re.search(only, g["key"])]
    return groups

def real_groups(tier, seed):
    """real element types per ISA against plain loops (the gather helper is dispatched on sizeof(T) and the ISA): in every
    (ISA, element type) group every overload once, with the index element type rotating so that each overload meets
    int / long / size_t / long long on every ISA; all five operators incl. division, const and non-const parents"""
    rng = random.Random(seed * 5407 + 7)
    isas = core.QUICK_ISAS if tier == "quick" else core.ALL_ISAS
    groups = []
    itys = ["int", "long", "unsigned long", "long long"]
    nums = ["int", "long", "short", "unsigned long", "long long"]
    cnt = 3 if tier == "quick" else 6
    PRE = "static bool g_verbose=false;"
    def other(lo, avoid):
        x = lo + rng.randint(0, 3)
        while x in avoid: x += 1
        return x
    for ix, isa in enumerate(isas):
        for ti, t in enumerate(["float", "double", "int32_t", "int64_t"]):
            V = max(LANES[isa] // (4 if t in ("float", "int32_t") else 8), 1)
            def ity(k): return itys[(ti + k + seed + ix) % 4]
            sd = lambda: rng.randrange(1 << 20)
            calls = []
            ms = sorted(set([V, 2 * V + 1])) if tier == "quick" else sizes_around(V, rng, 6)
            for q, M in enumerate(ms):
                calls.append("rr::flat1<%s,%s,%d,%d>(%du,%d);" % (t, ity(q), other(M + 1, {M}), M, sd(), cnt))
            # quick: float/int64 get {ii, in, if}, double/int32 get {flat2, ni, fi}: every overload once per element size per ISA
            half = (ti in (0, 3))
            want = lambda name: tier != "quick" or (name in ("ii", "in", "if")) == half
            for _ in range((1 if want("ii") else 0) if tier == "quick" else 4):
                M, N = dims_for(rng.choice(["vt", "vo"]), V, rng)
                R = other(max(M, 2), {M, N}); C = other(max(N, 2), {R, M, N})
                calls.append("rr::ii<%s,%s,%s,%d,%d,%d,%d>(%du,%d);" % (t, ity(2), ity(3), R, C, M, N, sd(), cnt))
            if want("flat2"):
                P, Q = dims_for("vt", V, rng)
                R = rng.randint(2, 5); C = other((P * Q + R - 1) // R + 1, {R, P, Q})
                calls.append("rr::flat2<%s,%s,%d,%d,%d,%d>(%du,%d);" % (t, ity(1), R, C, P, Q, sd(), cnt - 1))
            for sw in (0, 1):
                if not want("in" if sw == 0 else "ni"): continue
                M = ms[(sw + ti) % len(ms)]
                if not sw: R = other(max(M, 2), {M}); C = other(3, {R, M})
                else: C = other(max(M, 2), {M}); R = other(3, {C, M})
                calls.append("rr::in_<%s,%s,%s,%d,%d,%d,%d>(%du,%d);" % (t, ity(3 + sw), nums[(ti + sw + ix) % 5], R, C, M, sw, sd(), cnt - 1))
            for sw in (0, 1):
                if not want("if" if sw == 0 else "fi"): continue
                K, fsz = dims_for(["vt", "vo"][(sw + ti) % 2], V, rng)
                F = rng.randint(1, 2); S = rng.randint(1, 2)
                end = F + (fsz - 1) * S + 1
                D = end + rng.choice([0, 1]); L = -1 if D == end and rng.random() < 0.6 else end
                O = other(max(K, 2), {K, D, fsz})
                R, C = (O, D) if not sw else (D, O)
                calls.append("rr::fs<%s,%s,%d,%d,%d,%d,%d,%d,%d>(%du,%d);" % (t, ity(5 + sw), R, C, K, F, L, S, sw, sd(), cnt - 1))
            calls.append("rr::filt<%s,%d>(%du,%d);" % (t, 2 * V + 3, sd(), cnt + 2))
            if tier == "thorough" or ti == (ix + seed) % 4:
                calls.append("rr::filt<%s,3,%d>(%du,%d);" % (t, V + 1, sd(), cnt + 1))
            groups.append({"key": "%s/%s" % (isa, t), "header": "random_views_real.h", "isa": isa, "opt": "-O2", "calls": calls, "pre": PRE})
            if tier == "thorough" or (ti + ix) % 4 == 0:
                groups.append({"key": "%s/%s/vea" % (isa, t), "header": "random_views_real.h", "isa": isa, "opt": "-O2", "calls": calls[:4],
                               "defs": ["-DFASTOR_USE_VECTORISED_EXPR_ASSIGN"], "pre": PRE})
    # exact rationals: division (and the other operators) without rounding; width 1, so the ISA does not matter
    calls = ["rr::flat1<vf::Rat,%s,7,5>(%du,3);" % (itys[seed % 4], seed), "rr::ii<vf::Rat,%s,%s,4,5,3,2>(%du,3);" % (itys[(seed + 1) % 4], itys[(seed + 2) % 4], seed + 1),
             "rr::in_<vf::Rat,int,long,4,3,2,0>(%du,2);" % (seed + 2), "rr::in_<vf::Rat,long,int,3,5,3,1>(%du,2);" % (seed + 3),
             "rr::fs<vf::Rat,int,4,6,3,1,-1,2,0>(%du,2);" % (seed + 4), "rr::fs<vf::Rat,long,6,4,3,1,5,2,1>(%du,2);" % (seed + 5),
             "rr::flat2<vf::Rat,int,3,4,2,3>(%du,2);" % (seed + 6), "rr::filt<vf::Rat,9>(%du,5);" % (seed + 7), "rr::filt<vf::Rat,2,3>(%du,4);" % (seed + 8)]
    groups.append({"key": "rat", "header": "random_views_rat.h", "isa": "sse2", "opt": "-O1", "calls": calls, "pre": PRE})
    groups.append({"key": "rat/vea", "header": "random_views_rat.h", "isa": "avx2", "opt": "-O1", "calls": calls[:2], "defs": ["-DFASTOR_USE_VECTORISED_EXPR_ASSIGN"], "pre": PRE})
    only = os.environ.get("VERIF_C19_ONLY")
    if only:
        groups = [g for g in groups if re.search(only, g["key"])]
    return groups

def nontrivial(inp, mo):
    d = symrun.kv(inp)
    if inp.startswith("fv"):
        return "1" in d["mask"] and "0" in d["mask"]
    return True

def run(tier, seed):
    return flow.standard_run(
        PID, tier, seed, "Fastor.C19.random_write", "FastorModel.Model.RandomViews", sym_groups, real_groups,
        assumptions=["indices are in range and fit `int` (the gather narrows every index to int); index arithmetic is modelled in N",
                     "the vector primitives are lane-wise (C08): the symbolic runs use an ideal lane-wise SIMDVector; the real-type runs use the real ones",
                     "the right-hand side does not alias the parent of the view (aliasing is C05)",
                     "writes through index tensors with repeated positions are only tied to the model (sequential semantics); the property constrains duplicate-free indices"],
        rule="a case = (overload, parent extents, index data / mask, operator, other operand tree, const-ness, width, vectorised-assign switch) on the real view classes "
             "over the symbolic carrier; exhaustive: every index vector of length <= 3 over parents of <= 5 elements and every pair of per-axis index vectors on small 2-D parents, "
             "all 2^n masks n <= 10 (quick) / 12 (thorough); seeded: lengths around multiples of the vector width for all seven overloads; "
             "non-trivial = every index-view case, and mask cases whose mask is neither all-true nor all-false",
        nontrivial=nontrivial, per_tu=36,
        extra_cov={"oracle_configs": sorted(set(g["key"] for g in real_groups(tier, seed))),
                   "variants": ["%s %s %s%s" % ("read" if a == 0 else "write", OPS[o], TREES[t], " const-parent" if c else "") for (a, o, t, c) in VARS],
                   "overloads": ["flat1 (1-D parent, one index tensor)", "flat2 (n-D parent, one index tensor of flat positions)", "ii (index x index)",
                                 "in (index x integer)", "ni (integer x index)", "if (index x fseq)", "fi (fseq x index)", "mask (boolean-mask view)",
                                 "ii:into-2d-view / flat3:into-3d-view / mask:into-3d-view (view as source of a range view)"],
                   "index_types": ["int", "long", "unsigned long (size_t)", "long long", "short (integer argument only)"],
                   "rhs_kinds": "scalar, tensor, element-wise expression, view, and expressions that require evaluation (P%Q, trans(C), P%Q+D, a product reading the parent of the view) for the 1-D index view and the mask view, all five operators (division on real / rational types)",
                   "size_classes": "route = overload:action:{vector-only, vector+tail, tail-only, scalar-loop}; every overload x action x class is generated deterministically per group",
                   "widths": "V = 1 (FASTOR_DONT_VECTORISE), 2, 4 (sse2 / avx2 x 8-byte, sse2 x 4-byte), 8, 16 (avx2 / avx512)"})

def sym_call_of(inp):
    d = symrun.kv(inp)
    T = "Sym" + d["sz"]
    if inp.startswith("rstaged"):
        call = 'rv::staged1<%s,%s,%s,%s,%d,%s>("%s");' % (T, ITY[d["ity"]], d["c"], d["n"], OPS.index(d["op"]), d["kind"], d["i0"])
        return {"key": "replay", "header": HDR, "isa": d["cfg"], "defs": ["-DFASTOR_USE_VECTORISED_EXPR_ASSIGN"] if d.get("vea") == "1" else [], "calls": [call]}
    if inp.startswith("fstaged"):
        call = 'rv::fstaged<%s,%s,%s,%d,%s>("%s");' % (T, d["m"], d["n"], OPS.index(d["op"]), d["kind"], d["mask"])
        return {"key": "replay", "header": HDR, "isa": d["cfg"], "calls": [call]}
    if inp.startswith("rctor2"):
        ity = [ITY.get(x, "short") for x in d["ity"].split("/")]
        call = 'rv::ctor2<%s,%s,%s,%s,%s,%s,%s,%s,%s,%s,%s,%s,%s,%s>("%s","%s");' % (T, ity[0], ity[1], d["r"], d["c"], d["m"], d["n"], d["sr"], d["sc"], d["f0"], d["s0"], d["f1"], d["s1"], d["dyn"], d["i0"], d["i1"])
        return {"key": "replay", "header": HDR, "isa": d["cfg"], "calls": [call]}
    if inp.startswith("rvsrc"):
        call = 'rv::vsrc<%s,%s,%s,%s,%s,%s,%s,%d,%s>("%s");' % (T, ITY[d["ity"]], d["c"], d["n"], d["sn"], d["f"], d["s"], OPS.index(d["op"]), d["dyn"], d["i0"])
        return {"key": "replay", "header": HDR, "isa": d["cfg"], "defs": ["-DFASTOR_USE_VECTORISED_EXPR_ASSIGN"] if d.get("vea") == "1" else [], "calls": [call]}
    if inp.startswith("fvsrc"):
        call = 'rv::fsrc<%s,%s,%s,%s,%s,%d,%s>("%s");' % (T, d["n"], d["sn"], d["f"], d["s"], OPS.index(d["op"]), d["dyn"], d["mask"])
        return {"key": "replay", "header": HDR, "isa": d["cfg"], "calls": [call]}
    if inp.startswith("fview3"):
        call = 'rv::filt3<%s,%s,%s,%s,%s>("%s");' % (T, d["d0"], d["d1"], d["d2"], d["dyn"], d["mask"])
        return {"key": "replay", "header": HDR, "isa": d["cfg"], "calls": [call]}
    if inp.startswith("rview2") or inp.startswith("rview3"):
        ity = [ITY.get(x, "short") for x in d["ity"].split("/")]
        if inp.startswith("rview2"):
            call = 'rv::to2d<%s,%s,%s,%s,%s,%s,%s,%s,%s>("%s","%s");' % (T, ity[0], ity[1], d["r"], d["c"], d["m"], d["n"], d["dyn"], d["cst"], d["i0"], d["i1"])
            return {"key": "replay", "header": HDR, "isa": d["cfg"], "defs": ["-DFASTOR_USE_VECTORISED_EXPR_ASSIGN"] if d.get("vea") == "1" else [], "calls": [call]}
        else:
            call = 'rv::to3d<%s,%s,%s,%s,%s,%s,%s,%s,%s,%s>("%s");' % (T, ity[0], d["d0"], d["d1"], d["d2"], d["p0"], d["p1"], d["p2"], d["dyn"], d["cst"], d["i0"])
        return {"key": "replay", "header": HDR, "isa": d["cfg"], "calls": [call]}
    act = 0 if d["act"] == "read" else 1
    want = (act, OPS.index(d["op"]), TREES.index(d["E"]), int(d.get("cst", "0")))
    vi = VARS.index(want)
    if inp.startswith("fview"):
        call = 'rv::filt<%s,%d,%s>("%s");' % (T, vi, d["n"], d["mask"])      # replayed as rank 1 (the loops are flat)
        return {"key": "replay", "header": HDR, "isa": d["cfg"], "calls": [call]}
    ity = [ITY.get(x, "short") for x in d["ity"].split("/")]
    k = d["k"]
    if k == "flat1": call = 'rv::flat1<%s,%s,%s,%s,%d>("%s");' % (T, ity[0], d["c"], d["n"], vi, d["i0"])
    elif k == "flat2": call = 'rv::flat2<%s,%s,%s,%s,%s,%s,%d>("%s");' % (T, ity[0], d["r"], d["c"], d["m"], d["n"], vi, d["i0"])
    elif k == "ii": call = 'rv::ii<%s,%s,%s,%s,%s,%s,%s,%d>("%s","%s");' % (T, ity[0], ity[1], d["r"], d["c"], d["m"], d["n"], vi, d["i0"], d["i1"])
    elif k in ("in", "ni"): call = 'rv::in_<%s,%s,%s,%s,%s,%s,%d,%d>("%s",%s);' % (T, ity[0], ity[1], d["r"], d["c"], d["m"], 1 if k == "ni" else 0, vi, d["i0"], d["num"])
    else:
        F, L, S = d["fseq"].split(":")
        K = d["m"] if k == "if" else d["n"]
        call = 'rv::%s<%s,%s,%s,%s,%s,%s,%s,%s,%d>("%s");' % ("if_" if k == "if" else "fi", T, ity[0], d["r"], d["c"], K, F, L, S, vi, d["i0"])
    return {"key": "replay", "header": HDR, "isa": d["cfg"], "defs": ["-DFASTOR_USE_VECTORISED_EXPR_ASSIGN"] if d.get("vea") == "1" else [], "calls": [call]}

def replay(path):
    return flow.standard_replay(path, sym_call_of)
