"""C11 — LU factorisation (block, simple, pivoted forms, permutation as vector or matrix), pivot / apply_pivot / reconstruct.
Proof: Props/C11.lean about Model/LU.lean.  Ties: (K3) the REAL lu<...>/reconstruct templates over the exact rational
carrier vf::Rat, every entry of L, U, P and reconstruct(L,U,P) compared with the Lean model run over core Rat on the same
matrix, plus an independent in-harness oracle of the property itself; (K4) float/double under every ISA: structure judged
exactly, backward error measured against the property's bound (a test)."""
import os, random, re
from vlib import core, symrun, flow

PID = "C11"
VARIANTS = [(0, 0), (1, 0), (2, 1), (2, 2), (3, 1), (3, 2)]      # (strategy, permutation encoding)
STRAT = {"block": 0, "simple": 1, "blockpiv": 2, "simplepiv": 3}
ENC = {"n": 0, "v": 1, "m": 2}

def calls_for(n, seeds, variants=VARIANTS, forms=True):
    cs = []
    for (s, e) in variants:
        for k, sd in enumerate(seeds):
            fams = (0, 1) if n <= 10 else (1,)
            for fam in fams:
                if fam == 0 and k > 0 and n > 6:
                    continue
                cs.append("run_lu<%d,%d,%d>(%du,%d);" % (n, s, e, sd, fam))
    if forms and n <= 20:
        # the !is_tensor_v overloads (expression argument: evaluate, pivot_inplace, apply_pivot_inplace): two variants per size
        for (s, e) in [VARIANTS[(n + 2) % 6], VARIANTS[(n + 5) % 6]]:
            cs.append("run_lu<%d,%d,%d,1>(%du,%d);" % (n, s, e, seeds[0], 1))
    return cs

def rat_groups(tier, seed):
    """one translation unit per group (template instantiations of the recursive kernels are shared inside a unit)"""
    rng = random.Random(seed * 7001 + 11)
    seeds = [seed * 131 + 1, seed * 131 + 2] if tier == "quick" else [seed * 131 + k for k in range(1, 6)]
    groups = []
    def g(key, sizes, seeds=seeds, variants=VARIANTS, isa="sse2", std="c++14"):
        calls = []
        for n in sizes:
            calls += calls_for(n, seeds, variants)
        groups.append({"key": key, "header": "lu_rat.h", "isa": isa, "opt": "-O0", "std": std, "calls": calls})
    g("rat/n1-4", [1, 2, 3, 4]); g("rat/n5-6", [5, 6]); g("rat/n7-8", [7, 8])
    big = [(0, 0), (2, 1), (2, 2)]
    if tier == "quick":
        # every size class and both sides of every class boundary; all n <= 12; 16|17, 20 and two seed-dependent sizes of the rest
        extra = sorted(rng.sample([13, 14, 15, 18, 19], 2))
        g("rat/n9-10", [9, 10]); g("rat/n11-12", [11, 12]); g("rat/n16-17", [16, 17])
        g("rat/n20+", [20] + extra)
        g("rat/b32-33", [32, 33], seeds[:1], big + [(1, 0), (3, 1)])
        g("rat/b64-65", [64, 65], seeds[:1], [(0, 0), (2, 1)])
        # 129 = 64 + 65: the only size class whose sub-dispatch takes BOTH branches of useless::lu_block_simple_dispatcher
        # (lu_block_dispatcher for 64, plain recursive_lu_dispatcher for 65)
        g("rat/b129", [129], seeds[:1], [(0, 0)])
    else:
        for a in range(9, 21, 2):
            g("rat/n%d-%d" % (a, a + 1), [a, a + 1])
        g("rat/b32-33", [32, 33], seeds[:3], VARIANTS)
        g("rat/b64-65", [64, 65], seeds[:2], VARIANTS)
        g("rat/b40-63", [40, 47, 63], seeds[:2], big)
        g("rat/b72-129", [72, 96, 129], seeds[:1], big)
        g("rat/n21-31", [21, 24, 27, 31], seeds[:2], VARIANTS)
        g("rat/avx512/n8-9-33", [8, 9, 33], seeds[:2], VARIANTS, isa="avx512")
        g("rat/b144", [144], seeds[:1], [(0, 0)])
    return groups

def measured_groups(tier, seed):
    """float/double on rounded data: structure exact, backward error MEASURED against the bound (a test)"""
    combos = [(i, t) for i in core.ALL_ISAS for t in ("float", "double")]
    if tier == "quick":
        ts = ("float", "double")
        combos = [(isa, ts[(k + seed) % 2]) for k, isa in enumerate(core.QUICK_ISAS)]
    sizes = [5, 9, 33] if tier == "quick" else [1, 2, 3, 4, 5, 8, 9, 12, 17, 20, 33, 65]
    groups = []
    for isa, t in combos:
        calls = []
        for n in sizes:
            for (s, e) in VARIANTS:
                if n > 20 and (s, e) not in (((0, 0), (2, 2)) if tier == "quick" else ((0, 0), (2, 1), (2, 2))):
                    continue
                for k in range(2 if tier == "quick" else 5):
                    calls.append("run_lureal<%s,%d,%d,%d>(%du);" % (t, n, s, e, seed * 97 + k))
        groups.append({"key": "real/%s/%s" % (isa, t), "header": "lu_real.h", "isa": isa, "opt": "-O2", "calls": calls})
    return groups

def exact_groups(tier, seed):
    """float/double on inputs whose every intermediate is exactly representable: the result must be bit for bit the exact one.
    Every strategy x every size class (1..8 | 9..32 | 33..64 | > 64, both sides of each boundary) x every ISA x both types."""
    rng = random.Random(seed * 5003 + 29)
    isas = core.QUICK_ISAS if tier == "quick" else core.ALL_ISAS
    seeds = [seed * 41 + 1, seed * 41 + 2] if tier == "quick" else [seed * 41 + k for k in range(1, 6)]
    groups = []
    for isa in isas:
        for t in ("float", "double"):
            calls = []
            def add(n, variants, forms=(0,), sds=seeds):
                for (s, e) in variants:
                    for f in forms:
                        for sd in sds:
                            calls.append("run_luexact<%s,%d,%d,%d,%d>(%du);" % (t, n, s, e, f, sd))
            small = [2, 3, 4, 8, rng.choice([5, 6, 7])] if tier == "quick" else list(range(1, 9))
            mid = [9, rng.choice([16, 17])] if tier == "quick" else [9, 10, 12, 16, 17, 20, 31]
            for n in small + mid:
                add(n, VARIANTS)
                add(n, [VARIANTS[(n + 1) % 6], VARIANTS[(n + 4) % 6]], forms=(1,), sds=seeds[:1])
            add(32, [(0, 0), (2, 1)], sds=seeds[:1])
            add(33, [(0, 0), (1, 0), (2, 1), (2, 2), (3, 2)], sds=seeds[:1])
            add(33, [(2, 1)], forms=(1,), sds=seeds[:1])
            if tier == "quick":
                # one size of the 33..64 class whose halves are not multiples of the vector width (masked / remainder paths of the
                # tmatmul and matmul kernels inside the block step)
                add(rng.choice([40, 41, 42, 43, 56, 57, 58, 59]), [(0, 0)] if t == "float" else [(2, 1)], sds=seeds[:1])
                add(65, [(0, 0), (2, 2)] if t == "float" else [(0, 0), (2, 1)], sds=seeds[:1])
                if t == "double":
                    add(64, [(0, 0)], sds=seeds[:1])
            else:
                add(64, [(0, 0), (2, 1)], sds=seeds[:1]); add(65, [(0, 0), (2, 1), (2, 2)], sds=seeds[:1]); add(40, [(0, 0), (2, 2)], sds=seeds[:1])
            for n in ([2, 3, 5, 8, 9, 12] if tier == "quick" else [1, 2, 3, 4, 5, 6, 7, 8, 9, 12, 17, 20]):
                for sd in seeds:
                    calls.append("run_detexact<%s,%d>(%du);" % (t, n, sd))
            groups.append({"key": "exact/%s/%s" % (isa, t), "header": "lu_exact.h", "isa": isa, "opt": "-O2", "calls": calls})
    if tier == "thorough":
        groups.append({"key": "exact/avx2/double/129", "header": "lu_exact.h", "isa": "avx2", "opt": "-O2",
                       "calls": ["run_luexact<double,129,0,0,0>(%du);" % seeds[0], "run_luexact<double,129,2,1,0>(%du);" % seeds[0]]})
    return groups

def real_groups(tier, seed):
    return exact_groups(tier, seed) + measured_groups(tier, seed)

def _only(fn):
    """VERIF_GROUPS=<regex> restricts a run to the matching translation units (used for mutation experiments only)"""
    pat = os.environ.get("VERIF_GROUPS")
    if not pat:
        return fn
    return lambda tier, seed: [g for g in fn(tier, seed) if re.search(pat, g["key"])]

def short_key(f):
    d = symrun.kv(f["input"]); o = symrun.kv(f["impl"])
    return "rat lu n=%s strat=%s enc=%s form=%s fam=%s seed=%s %s" % (d.get("n"), d.get("strat"), d.get("enc"), d.get("form", "0"), d.get("fam"), d.get("seed"), o.get("ORACLE", "?"))

def cyc_stats(lines):
    return {}

def run(tier, seed):
    return flow.standard_run(
        PID, tier, seed, "Fastor.C11.lu_correct", "FastorModel.Model.LU", _only(rat_groups), _only(real_groups),
        assumptions=["the strategy is defined on the input: every pivot met by the strategy is non-zero (hypothesis LUDefined of the theorems; "
                     "the harness screens its seeded matrices with an independent exact elimination)",
                     "tinverse / tmatmul / matmul return the exact inverse / product over the field (properties C10, C17, C01)",
                     "floating point: the backward-error bound 8*n*eps*max(|L||U|) is measured, not proved; cases with growth > 1e3 are counted, not judged"],
        rule="exact cases: (n, strategy, permutation encoding, matrix family, seed) -> the real lu/reconstruct templates over vf::Rat, all of L, U, P, "
             "reconstruct(L,U,P) compared entry by entry with the Lean model over Rat and checked by an in-harness oracle (unit lower / upper with exact zeros, "
             "P a permutation, L*U == P*A, reconstruct == A); outputs pre-filled with junk; every case is non-trivial (n >= 1, A not triangular for n >= 2); "
             "real cases: float/double x ISA, structure exact, backward error vs bound",
        nontrivial=lambda inp, mo: True, per_tu=100000, ofail_key=short_key)

def sym_call_of(inp):
    d = symrun.kv(inp)
    return {"key": "replay", "header": "lu_rat.h", "isa": "sse2", "opt": "-O0",
            "calls": ["run_lu<%s,%d,%d,%s>(%su,%s);" % (d["n"], STRAT[d["strat"]], ENC[d["enc"]], d.get("form", "0"), d["seed"], d["fam"])]}

def replay(path):
    return flow.standard_replay(path, sym_call_of)
