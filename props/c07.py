"""C07 — no operation touches memory outside its operands, for any shape or alignment.

PROVED (Props/C07.lean): read/write footprints of the kernel models (matmul, tmatmul, expression assignment, einsum)
stay inside the operand / result extents for all shapes and widths; footprints of the partial load/store helpers
(exactly the enabled lanes); the aligned-flag logic (aligned accesses only with is_aligned(), only owning storage
reports it, offsets are multiples of the width and the width fits the alignment value); the bounds-check model
(out of range after negative wrap => error branch, in range => the flat index is inside the extent).
TIED by correspondence lines `pfoot` (helper footprints measured on the real intrinsics by guard-page probing and
canaries), `bounds` (real Tensor / TensorMap indexing with checks on) and by the trace observables of C01/C02/C03/C17.
OBSERVED (K7, not proved): faults at guard pages at every misalignment, canary halos, read-only inputs, placement
independence, allocation counts, sanitizer builds."""
import json, os, random, re
from vlib import core, symrun, flow

PID = "C07"
TYPES = ["float", "double", "int32_t", "int64_t"]
FTYPES = ["float", "double"]
CPLX = ["std::complex<float>", "std::complex<double>"]
SIZEOF = {"float": 4, "double": 8, "int32_t": 4, "int64_t": 8, "std::complex<float>": 8, "std::complex<double>": 16}
BITS = {"scalar": 0, "sse2": 128, "sse42": 128, "avx": 256, "avx2": 256, "avx512": 512}

def lanes(isa, t):
    if isa == "scalar":
        return 1
    b = BITS[isa]
    if isa == "avx" and t in ("int32_t", "int64_t"):
        b = 128
    return max(1, b // 8 // SIZEOF[t])

def pick(rng, lo, hi, k, must=()):
    """k distinct values of lo..hi containing `must` (clipped)"""
    vals = set(x for x in must if lo <= x <= hi)
    pool = [x for x in range(lo, hi + 1) if x not in vals]
    rng.shuffle(pool)
    while len(vals) < k and pool:
        vals.add(pool.pop())
    return sorted(vals)

def k7_calls(isa, t, tier, rng, half=None):
    """operation instances for one (isa, element type): every extent class 1..2V+3 is hit by several families"""
    V = lanes(isa, t)
    top = 2 * V + 3
    full = tier == "thorough"
    isf = t in FTYPES
    isc = t in CPLX
    calls = []
    def sizes(k, must=()):
        return list(range(1, top + 1)) if full else pick(rng, 1, top, k, must)
    # the remainder classes that matter: 1, V-1, V, V+1, 2V-1, 2V, 2V+1, 2V+3 and the 3-wide / 9-element idioms
    edge = [1, 2, 3, V - 1, V, V + 1, 2 * V - 1, 2 * V, 2 * V + 1, top]
    every = list(range(1, top + 1))
    rng.shuffle(every)
    # 1-D families: between them every extent 1..2V+3 is used (round-robin), plus random extras
    fam1 = ["g_expr_arith", "g_reduce_map", "g_inner_map", "g_methods_map", "g_methods_tensor", "g_view1d", "g_expr_mixed", "g_reduce_expr"]
    if isf:
        fam1 += ["g_expr_math", "g_norm_raw"]
    if not isc:
        fam1 += ["g_minmax_map"]
    for i, f in enumerate(fam1):
        ns = set(n for n in every[i::len(fam1)] if half is None or n % 2 == half)
        if full:
            ns = set(range(1, top + 1))
        if f == "g_norm_raw":
            ns |= {4, 9} | ({16} if full else set())
        # the families whose back ends have a vector body + scalar remainder always get the extents one short of a
        # multiple of the width (a body that runs one vector too far shows only there)
        if f in ("g_norm_raw", "g_inner_map", "g_reduce_map", "g_minmax_map", "g_expr_arith", "g_methods_map"):
            ns |= {x for x in (V - 1, 2 * V - 1) if x >= 1 and (half is None or f in ("g_norm_raw", "g_inner_map") or x % 2 == half or True)}
        for n in sorted(ns):
            if n >= 1:
                calls.append("%s<%s,%d>();" % (f, t, n))
    # matmul: N sweeps every extent over the three entry points; M, K random (K small keeps compile time down)
    mm = ["g_matmul_raw", "g_matmul_map", "g_matmul_expr"]
    for i, n in enumerate(range(1, top + 1)):
        if half is not None and n % 2 != half:
            continue
        if half is not None and n not in (V - 1, V + 1, 2 * V + 1) and (t in ("int32_t", "int64_t") or (n // 2) % 2 == 1):
            continue        # quick tier: a thinned N sweep (C01 sweeps matmul in depth); the integer types keep the edge extents only
        fs = mm if full else [mm[i % 3]]
        for f in fs:
            m = rng.choice([1, 2, 3, 4, 5, 7, 8, 9, V + 1, 2 * V + 1])
            k = rng.choice([1, 2, 3, 4, 5, V, V + 1])
            calls.append("%s<%s,%d,%d,%d>();" % (f, t, m, k, n))
    # N >= 5V: the blocked kernels (_matmul_base, and _matmul_base_masked when N % V > 1 on AVX2 / AVX-512 builds) - the small-N
    # kernels take every N < 5V, so the extent sweep above never reaches them
    if V > 1 and not isc:
        for (m, k, n) in [(5, 2, 5 * V + 2), (9, 3, 5 * V + V - 1)] + ([(4, 1, 6 * V + 1), (13, 2, 7 * V + 3)] if full else []):
            calls.append("g_matmul_raw<%s,%d,%d,%d>();" % (t, m, k, n))
        calls.append("g_matmul_map<%s,%d,%d,%d>();" % (t, 6, 2, 5 * V + 3))
    if isf:     # the intrinsic M x K x M and 2x2, 3x3, 4x4 specialisations
        for (m, k, n) in [(2, 2, 2), (3, 3, 3), (4, 4, 4), (8, 8, 8), (3, 4, 3), (3, 3, 1), (8, 3, 8)] + ([(2, 3, 2), (4, 5, 4), (2, 2, 1), (4, 4, 1), (3, 5, 3)] if full else []):
            calls.append("g_matmul_raw<%s,%d,%d,%d>();" % (t, m, k, n))
            if full or (m, k) in ((3, 3), (8, 8)):
                calls.append("g_matmul_map<%s,%d,%d,%d>();" % (t, m, k, n))
    if not isc:
        tags = {"l": "UpLoType::Lower", "u": "UpLoType::Upper", "g": "UpLoType::General"}
        for n in sizes(4, [V + 1, top]):
            a, b = rng.choice("lug"), rng.choice("lug")
            m, k = rng.randint(1, 9), rng.randint(1, 9)
            calls.append('g_tmatmul_raw<%s,%d,%d,%d,%s,%s>("%s%s");' % (t, m, k, n, tags[a], tags[b], a, b))
    # transpose: square specialisations and rectangular with remainders in both directions
    sq = ([2, 3, 4, 8] + ([V, 2 * V] if V > 1 else [])) if full else ([3, 4] + ([V] if V > 4 else []))
    for m in sorted(set(sq)):
        calls.append("g_transpose_raw<%s,%d,%d>();" % (t, m, m))
        if full or m in (3, V):
            calls.append("g_transpose_map<%s,%d,%d>();" % (t, m, m))
    for n in sizes(4, [V + 1, 2 * V + 1]):
        m = rng.choice([1, 2, 3, V, V + 1, 2 * V + 1, top])
        calls.append("g_transpose_raw<%s,%d,%d>();" % (t, m, n))
        calls.append("g_trans_expr<%s,%d,%d>();" % (t, n, m))
    # 2-D element-wise, views, norm, outer
    for n in sizes(3, [rng.choice(edge)]):
        m = rng.choice([1, 2, 3, 5])
        calls.append("g_expr_arith2d<%s,%d,%d>();" % (t, m, n))
        calls.append("g_view2d<%s,%d,%d>();" % (t, m, n))
    for n in sizes(3, [rng.choice(edge)]):
        m = rng.choice([1, 2, 3, 4])
        if (m, n) != (1, 1):        # outer(Tensor<T,1>, Tensor<T,1>) is an ambiguous overload: does not compile
            calls.append("g_outer_map<%s,%d,%d>();" % (t, m, n))
        calls.append("g_outer_raw<%s,%d,%d>();" % (t, n, m))
    if isf:
        for (m, n) in [(2, 2), (3, 3), (1, 4), (1, 9), (4, 4)] + [(rng.randint(1, 4), n) for n in sizes(2)]:
            calls.append("g_norm_map<%s,%d,%d>();" % (t, m, n))
    # square matrices
    if isf:
        for m in [1, 2, 3, 4]:
            calls.append("g_inverse_raw<%s,%d>();" % (t, m))
            calls.append("g_det_raw<%s,%d>();" % (t, m))
        for m in [2, 3, 4, 5, 8] + ([6, 7, 9, 16] if full else []):
            calls.append("g_inverse_map<%s,%d>();" % (t, m))
        for m in [2, 3, 4, 5] + ([6, 8] if full else []):
            calls.append("g_det_map<%s,%d>();" % (t, m))
            calls.append("g_solve_map<%s,%d>();" % (t, m))
        calls.append("g_inv_expr<%s,3>();" % t)
        for m in [2, 3, 4]:
            calls.append("g_adjcof_raw<%s,%d>();" % (t, m))
    if not isc:
        for m in ([1, 2, 3, 4, 5, 8, V + 1] if full else [2, 3, V + 1]):
            calls.append("g_trace_raw<%s,%d>();" % (t, m))
            if full or m in (2, 3):
                calls.append("g_trace_map<%s,%d>();" % (t, m))
        for (m, n) in [(2, 2), (3, 3), (rng.randint(1, 4), rng.choice(edge)), (rng.randint(1, 4), rng.randint(1, top))]:
            if n >= 1:
                calls.append("g_doublecontract_raw<%s,%d,%d>();" % (t, m, n))
        calls.append("g_cross_map<%s>();" % t)
    # einsum / permutation
    for _ in range(2 if not full else 8):
        a, b, c = rng.randint(1, 4), rng.randint(1, 4), rng.choice(edge + [rng.randint(1, top)])
        if c < 1: c = 1
        calls.append("g_einsum_ijjk<%s,%d,%d,%d>();" % (t, a, b, c))
        calls.append("g_einsum_ijj<%s,%d,%d>();" % (t, a, c))
        calls.append("g_einsum_ijk_jkl<%s,%d,%d,%d>();" % (t, rng.randint(1, 3), rng.randint(1, 3), min(c, 9)))
        calls.append("g_einsum_outer3<%s,%d,%d,%d>();" % (t, rng.randint(1, 3), rng.randint(1, 3), c))
        calls.append("g_permute_map<%s,%d,%d,%d>();" % (t, rng.randint(1, 3), rng.randint(1, 4), c))
        calls.append("g_view3d<%s,%d,%d,%d>();" % (t, rng.randint(1, 3), rng.randint(1, 3), c))
    # public-API routes into the fixed-size kernels: assignment of a transpose to a map, batches of small matrices in
    # owning tensors (the batched kernels walk through the storage one matrix at a time), fourth-order outer products
    special = []
    for (m, n) in ([(2, 2), (3, 3), (4, 4), (8, 8), (3, 5), (V + 1, 3)] if full else ([(3, 3), (4, 4), (V + 1, 3)] if isf else [(3, 3)])):
        special.append("g_trans_assign<%s,%d,%d>();" % (t, m, n))
    if not isc:
        for (b, m) in ([(4, 3), (2, 3), (3, 2), (2, 4), (5, 3), (3, 8), (7, 3)] if full else ([(4, 3), (3, 2)] if isf else [(4, 3)])):
            special.append("g_own_batch<%s,%d,%d>();" % (t, b, m))
            if isf and m <= 4:      # batched determinant / inverse exist for matrices up to 4x4 (larger: `_det` asserts)
                special.append("g_own_batch_la<%s,%d,%d>();" % (t, b, m))
        for n in sorted(set([V + 1] + ([3, 5, 7, 9, V, 2 * V, 2 * V + 1, top] if full else []))):
            special.append("g_own_1d<%s,%d>();" % (t, n))
        for (m, n) in ([(2, 2), (3, 3), (2, 3)] if full else ([(2, 2), (3, 3)] if isf else [])):
            special.append("g_outer22_map<%s,%d,%d>();" % (t, m, n))
    # public routes into the kernels with hard-wired aligned accesses (ALIGNREQ when called raw): _matmul<float,8,K,8>,
    # _dyadic<float,4,4>, _norm<float,4>, _det 2x2 - through maps, expressions of maps, einsum, batches
    if t == "float":
        special += ["g_matmul_map<float,8,8,8>();", "g_matmul_map<float,8,3,8>();", "g_matmul_expr<float,8,8,8>();", "g_matmul_expr<float,8,5,8>();",
                    "g_einsum_ijjk<float,8,3,8>();", "g_outer_map<float,4,4>();", "g_matmul_map<float,4,1,4>();", "g_outer22_map<float,2,2>();",
                    "g_norm_map<float,1,4>();", "g_norm_map<float,2,2>();", "g_norm_map<float,4,1>();"]
    if isf:
        # the fixed-size outer-product kernels (2, 3, 4 element vectors) raw and through maps
        special += ["g_outer_raw<%s,3,3>();" % t, "g_outer_raw<%s,2,2>();" % t, "g_outer_raw<%s,4,4>();" % t, "g_outer_map<%s,3,3>();" % t,
                    "g_matmul_map<%s,3,1,3>();" % t]
        special += ["g_det_map<%s,2>();" % t, "g_own_batch_la<%s,5,2>();" % t,
                    "g_heap_new<%s,9>();" % t] + (["g_heap_new<%s,64>();" % t] if full else [])
    # round 3: index / mask views, layout (reshape, flatten, converters), reductions over views, LU / QR / pivoted inverse on maps.
    # Sizes: one extent per residue class mod V is spread over the families (r3 = residues 0..V-1 shifted past V)
    res = [V + r for r in range(V)] if V > 1 else [1, 2, 3]
    if not full:
        res = [x for i, x in enumerate(res) if half is None or i % 2 == half] or res[:1]
        if len(res) > 4:
            res = res[::(len(res) + 3) // 4]
    r3 = []
    if not isc:
        for n in sorted(set(x for x in (V - 1, V, V + 1, 2 * V + 1) if x >= 1)):
            r3.append("g_assign_ops<%s,%d>();" % (t, n))
        for i, n in enumerate(res):
            r3.append("g_reduce_view<%s,%d>();" % (t, n))
            if full or i % 2 == 0 or len(res) == 1:
                r3.append("g_randview<%s,%d>();" % (t, n))
                r3.append("g_layout_map<%s,%d,%d>();" % (t, 1 + i % 3, n))
            if full or i % 2 == 1 or len(res) == 1:
                r3.append("g_filterview<%s,%d>();" % (t, n))
                r3.append("g_randview2d<%s,%d,%d>();" % (t, 2 + i % 2, n))
        if isf:
            for m in ([2, 3, 4, 5, 8, 9] if full else [3, 5, 9]):
                r3.append("g_lu_map<%s,%d>();" % (t, m))
            for m in ([2, 3, 4, 5, 8] if full else [3, 5]):
                r3.append("g_qr_map<%s,%d>();" % (t, m))
            r3 += ["g_dyn_trans<%s,4,4>();" % t, "g_dyn_inner<%s,%d>();" % (t, 4 * V if V > 1 else 8), "g_heap_vec<%s,9>();" % t]
    special += r3
    nspecial = len(special)
    calls = special + calls
    # de-duplicate, drop non-positive extents
    out = []; seen = set()
    for c in calls:
        if re.search(r"[<,]0[,>]|-\d", c) or c in seen:
            continue
        seen.add(c); out.append(c)
    return out

KEEP = re.compile(r"g_(assign_ops|reduce_view|randview|randview2d|layout_map|filterview|lu_map|qr_map|dyn_trans|dyn_inner|heap_vec|outer_raw<\w+,[234],[234]>|trans_assign|own_batch|own_batch_la|heap_new|outer22_map|own_1d|expr_arith|reduce_map|inner_map|methods_map|methods_tensor|view1d|expr_mixed|reduce_expr|expr_math|norm_raw|minmax_map|matmul_raw|matmul_map|matmul_expr)<")

def thin(calls, stride, seed):
    """quick tier: the families that carry the `every extent 1..2V+3` sweep and the public-API specials are kept, the
    other families are sampled with the given stride (the phase depends on the seed)"""
    keep = [c for c in calls if KEEP.match(c)]
    rest = [c for c in calls if not KEEP.match(c)]
    if stride > 3:
        keep = keep[seed % 2::2]
    return keep + rest[seed % stride::stride]

def k7_groups(tier, seed):
    rng = random.Random(seed * 7001 + 7)
    isas = ["scalar", "sse2", "avx2", "avx512"] if tier == "quick" else core.ALL_ISAS
    groups = []
    for isa in isas:
        types = TYPES if tier == "quick" else (TYPES + CPLX if isa in ("sse2", "avx2", "avx512") else ["float", "int32_t"])
        for t in types:
            # quick tier: the two element types of equal size share the `every extent` sweeps (odd / even extents)
            half = None if tier != "quick" else ((seed + (1 if t in ("int32_t", "int64_t") else 0)) % 2)
            # thorough: every extent of every family under sse2 / avx2 / avx512; the other flag sets (same kernels, other widths or
            # helper branches) get the un-thinned sampled corpus
            gen_tier = tier if (tier == "quick" or (isa in ("sse2", "avx2", "avx512") and t in FTYPES)) else "quick"
            calls = k7_calls(isa, t, gen_tier, rng, half)
            if tier == "quick":
                calls = thin(calls, 6 if isa == "scalar" else 4, seed)
            groups.append({"key": "k7/%s/%s" % (isa, t), "header": "guard_ops.h", "isa": isa, "opt": "-O2", "calls": calls, "defs": ["-DNDEBUG"],
                           "pre": "#define VG_SEED %du" % (seed & 0xffff)})
    if tier == "quick":     # one configuration of the remaining families and the complex types
        for isa, t in [("avx", "float"), ("avx", "int32_t"), ("sse42", "float"), ("avx2", "std::complex<double>"), ("sse2", "std::complex<float>"),
                       ("avx512", "std::complex<double>")]:
            calls = thin(k7_calls(isa, t, tier, rng, seed % 2), 8, seed)
            groups.append({"key": "k7/%s/%s" % (isa, t), "header": "guard_ops.h", "isa": isa, "opt": "-O2", "calls": calls, "defs": ["-DNDEBUG"],
                           "pre": "#define VG_SEED %du" % (seed & 0xffff)})
    return groups

def guard_key(line):
    """canonical key of a failing K7 line: the case description plus what failed first"""
    case = line.split("|")[0].strip()
    m = re.search(r"first:what=(\w+)", line)
    return "%s what=%s" % (case, m.group(1) if m else "CRASH")

# ------------------------------------------------------------------------------------------------------------------
# correspondence groups (model <-> code): helper footprints, bounds checks, aligned flag
CHECKS_ON = ["-DFASTOR_ENABLE_RUNTIME_CHECKS=1"]

def corr_groups(tier, seed):
    isas = ["sse2", "avx2", "avx512"] if tier == "quick" else ["sse2", "sse42", "avx", "avx2", "avx512"]
    groups = []
    for isa in isas:
        groups.append({"key": "foot/%s" % isa, "header": "foot_probe.h", "isa": isa, "opt": "-O2", "calls": ["run_helpers();", "run_aflags();"]})
    for isa in ["sse2", "avx", "avx2", "avx512"] + (["sse42"] if tier != "quick" else []):
        groups.append({"key": "kern3/%s" % isa, "header": "foot_probe.h", "isa": isa, "opt": "-O2", "calls": ["run_kern3();"]})
    if tier != "quick":
        groups.append({"key": "kern3/avx2-O0", "header": "foot_probe.h", "isa": "avx2", "opt": "-O0", "calls": ["run_kern3();"]})
    groups.append({"key": "aflag/scalar", "header": "foot_probe.h", "isa": "scalar", "opt": "-O2", "calls": ["run_aflags();"]})
    groups.append({"key": "aflag/dontalign", "header": "foot_probe.h", "isa": "avx2", "opt": "-O2", "defs": ["-DFASTOR_DONT_ALIGN"], "calls": ["run_aflags();"]})
    n = 40 if tier == "quick" else 400
    s = seed & 0xffff
    bcalls = ["run_bounds1<5>(%du,%d);" % (s, n), "run_bounds1<1>(%du,%d);" % (s + 1, n // 2), "run_bounds2<3,4>(%du,%d);" % (s + 2, n),
              "run_bounds2<1,7>(%du,%d);" % (s + 3, n // 2), "run_bounds3<2,3,4>(%du,%d);" % (s + 4, n), "run_bounds4<2,3,2,3>(%du,%d);" % (s + 5, n),
              "run_bounds5<2,2,3,2,2>(%du,%d);" % (s + 6, n)]
    # checks on: debug build (assertions active by default) and NDEBUG + FASTOR_ENABLE_RUNTIME_CHECKS; checks off: only in-range indices
    groups.append({"key": "bounds/debug", "header": "foot_probe.h", "isa": "sse2", "opt": "-O0", "defs": ["-UNDEBUG"], "calls": bcalls})
    groups.append({"key": "bounds/checks", "header": "foot_probe.h", "isa": "avx2", "opt": "-O2", "defs": ["-DNDEBUG"] + CHECKS_ON, "calls": bcalls})
    groups.append({"key": "bounds/off", "header": "foot_probe.h", "isa": "avx2", "opt": "-O2", "defs": ["-DNDEBUG"], "calls": bcalls})
    return groups

def mmflush_groups(tier, seed):
    """the small-N row-remainder kernels of matmul_mk_smalln.h (ten remainders x AVX-512-mask / int-array-mask branches, `uptosimd` N < V and
    `upto2simd` V < N < 2V ... families), the masked last column group of _matmul_base_masked, matvec and _tmatmul_base_masked: a, b and out each end
    exactly at a guard page (placement F) and start at one (placement H).  One translation unit chunk per (ISA, type)."""
    groups = []
    pre = "#define VG_SEED %du" % (seed & 0xffff)
    tags = {"l": "UpLoType::Lower", "u": "UpLoType::Upper", "g": "UpLoType::General"}
    for isa in ["avx2", "avx512"] + (["avx", "sse2"] if tier != "quick" else []):
        for t in FTYPES + (["int32_t", "int64_t"] if tier != "quick" else []):
            V = lanes(isa, t)
            ns = [n for n in range(1, 2 * V) if n != V]
            if tier == "quick" and len(ns) > 14:      # avx512 float: every residue class of both families, not every N
                ns = sorted(set([1, 2, 3, 5, 7, V - 1, V + 1, V + 2, V + 3, V + 5, V + 7, 2 * V - 1] + [n for n in ns if n % 8 == (seed % 8)]))[:14]
            calls = []
            for n in ns:
                for r in range(10):
                    if tier == "quick" and n > V and (r >= 5 or (n + r + seed) % 2):      # the upto2simd family unrolls by 5: r and r+5 share a kernel
                        continue
                    m = 10 + r if (n + r) % 2 == 0 else (r if r > 0 else 10)
                    k = 2 + (n + r) % 2
                    calls.append("g_mmflush<%s,%d,%d,%d>();" % (t, m, k, n))
                calls.append("g_mmflush<%s,%d,1,%d>();" % (t, 3 + n % 7, n))
            # matvec (N = 1): K around the width, M around the row unroll 8
            for k in sorted(set([1, V - 1, V + 1, 2 * V + 3])):
                for m in [1, 7, 8, 9]:
                    if k >= 1:
                        calls.append("g_mmflush<%s,%d,%d,1>();" % (t, m, k))
            # masked last column group of the blocked kernel (N >= 5V, N % V > 1), row remainders 0..3
            for (m, n) in [(4, 5 * V + 2), (5, 5 * V + V - 1), (7, 6 * V + 3), (9, 5 * V + 3)]:
                calls.append("g_mmflush<%s,%d,2,%d>();" % (t, m, n))
            for (m, k, n, a, b) in [(5, 5, V + 3, "l", "u"), (7, 4, 2 * V + 2, "u", "l"), (4, 6, V + 2, "l", "l"), (9, 3, V - 1 if V > 2 else 3, "u", "g")]:
                calls.append('g_tmatmul_raw<%s,%d,%d,%d,%s,%s>("%s%s");' % (t, m, k, n, tags[a], tags[b], a, b))
            groups.append({"key": "k7-mmflush/%s/%s" % (isa, t), "header": "guard_ops.h", "isa": isa, "opt": "-O1", "defs": ["-DNDEBUG"], "calls": calls, "pre": pre})
    return groups

def extra_k7_groups(tier, seed):
    """unoptimised build (keeps every aligned access the source asks for), runtime checks on, sanitizers (thorough)"""
    rng = random.Random(seed * 313 + 5)
    pre = "#define VG_SEED %du" % (seed & 0xffff)
    groups = []
    o0 = []
    for t in ["float", "double", "int32_t"]:
        for n in [3, 5, 9, 17]:
            o0 += ["g_methods_tensor<%s,%d>();" % (t, n), "g_own_1d<%s,%d>();" % (t, n), "g_expr_mixed<%s,%d>();" % (t, n)]
        o0 += ["g_assign_ops<%s,%d>();" % (t, n) for n in (3, 4, 5, 9)]
        o0 += ["g_own_batch<%s,4,3>();" % t, "g_trans_assign<%s,3,3>();" % t, "g_matmul_map<%s,3,3,3>();" % t, "g_view2d<%s,3,5>();" % t]
    for isa in (["sse2", "avx2"] if tier == "quick" else ["sse2", "avx", "avx2", "avx512"]):
        groups.append({"key": "k7-O0/%s" % isa, "header": "guard_ops.h", "isa": isa, "opt": "-O0", "calls": o0 if tier != "quick" else [c for i, c in enumerate(o0) if "assign_ops" in c or i % 2 == 0], "pre": pre})
    # C++17 (aligned operator new, if constexpr branches): a thin slice of the float / double corpus
    for isa in ["avx2", "avx512"]:
        calls = []
        for t in FTYPES:
            cs = thin(k7_calls(isa, t, "quick", rng, 0), 7, seed)
            calls += [c for c in cs if "heap_new" in c] + [c for c in cs if "heap_new" not in c][seed % 3::3]
        groups.append({"key": "k7-cxx17/%s" % isa, "header": "guard_ops.h", "isa": isa, "opt": "-O2", "std": "c++17", "defs": ["-DNDEBUG"], "calls": calls, "pre": pre})
    bc = ["g_bounds2d<%s,%d,%d>();" % (t, m, n) for t in ["float", "int64_t"] for (m, n) in [(3, 4), (1, 1), (5, 2)]]
    groups.append({"key": "k7-checks/sse2", "header": "guard_ops.h", "isa": "sse2", "opt": "-O1", "defs": ["-DVG_CHECKS", "-DNDEBUG"] + CHECKS_ON, "calls": bc, "pre": pre})
    groups.append({"key": "k7-checks/avx512", "header": "guard_ops.h", "isa": "avx512", "opt": "-O2", "defs": ["-DVG_CHECKS", "-UNDEBUG"], "calls": bc, "pre": pre})
    if tier == "thorough":
        for isa in ["sse2", "avx2", "avx512"]:
            for t in FTYPES + ["int32_t"]:
                calls = thin(k7_calls(isa, t, "quick", rng), 3, seed)
                groups.append({"key": "k7-asan/%s/%s" % (isa, t), "header": "guard_ops.h", "isa": isa, "opt": "-O1",
                               "defs": ["-fsanitize=address,undefined", "-fno-sanitize=alignment", "-fno-sanitize-recover=undefined", "-fno-omit-frame-pointer"], "calls": calls, "pre": pre})
    return groups

THEOREMS = ("Fastor.C07.load3_lanes, store3_lanes, maskLoop_mem, maskAvx_eq_maskLoop, arrayToMask_testBit, kmask_eq_maskLoop, remainderMask_lanes, "
            "masked_tail_in_extent, member_mask_fallback_lanes, transpose33_footprint, matmul333_footprint, matmul3K3_footprint, matvec331_footprint, small_kernels_footprint, bounds_check_sound, bounds_check_complete, memIndex_sound, aligned_only_on_owned, aligned_access_address_ladder, "
            "matmul_reads_in_operands, tmatmul_reads_in_operands, assign_reads_in_operands, einsum_reads_in_operands, view1d_footprint, view2d_footprint")

def run(tier, seed):
    v = core.Verdict(PID, tier, seed)
    v.assumptions = [
        "PROVED part: footprints / flags / bounds logic of the Lean models (Model/Footprint.lean and the kernel models of C01, C02, C03, C17)",
        "OBSERVED part (not proved): no fault at guard pages, no stray write (canaries), inputs unchanged, result independent of the placement, "
        "no allocation, sanitizer builds (thorough tier) - for the operation instances enumerated, on this CPU with g++",
        "misalignments are the multiples of alignof(T) in 0..63 (a float* that is not 4-byte aligned is undefined behaviour for the compiler, not a library matter)",
        "raw backend kernels (_matmul, _norm, ...) take pointers to tensor storage: a general-protection fault of a raw kernel at a placement that is "
        "not library-aligned is reported as ALIGNREQ (a precondition of that kernel), the same kernel is judged through the public routes (maps, owning tensors, batches)",
        "bounds theorems: extents < 2^63, indices are ints; rank >= 5 uses the same test on ints (extents < 2^31)"]
    ok, info = core.proof_stage(v, PID, thorough=(tier == "thorough"))
    v.cov["proof"] = {k: info.get(k) for k in ("build_ok", "problems", "failed_modules", "errors", "leanchecker", "log")}
    if not info.get("build_ok"):
        v.violation("lean-build-failed " + ",".join(info.get("failed_modules", [])), {"kind": "proof-obligation", "detail": info}, nofail=True)
        return v.finish()
    if not ok:
        v.violation("audit " + "; ".join(info.get("problems", []))[:200], {"kind": "audit", "detail": info.get("problems")}, nofail=True)
    with core.Scratch() as wd:
        # ---- correspondence: model vs real helpers / indexing / flags
        cg = corr_groups(tier, seed)
        res = symrun.run_groups(cg, wd, per_tu=60)
        n, mism, ofail, infra, lines = symrun.compare_with_model(res, v)
        flow.report_infra(v, infra)
        for f in ofail:
            v.violation("probe " + f["input"], {"kind": "probe-oracle", "group": f["group"], "input": f["input"], "impl": f["impl"], "model": f["model"],
                                                  "note": "the real helper / indexing call loaded wrong values, wrote outside its lanes, or faulted"})
        ofi = set(f["input"] for f in ofail)
        for m in [m for m in mism if m["input"] not in ofi][:10]:
            what = m["input"].split()[0]
            v.violation("correspondence %s fields=%s" % (m["input"], ",".join(m["fields"])),
                        {"kind": "correspondence", "broken": "model FastorModel.Model.Footprint (theorems %s) no longer describes the code: the real %s disagrees with the "
                         "model on the fields listed" % (THEOREMS, {"pfoot": "partial load/store helper (lanes loaded / written, lowest and highest lane whose access faults)",
                                                                     "bounds": "Tensor/TensorMap operator() (value read = flat offset, or exception)", "memidx": "get_mem_index",
                                                                     "aflag": "is_aligned()", "kern3": "fixed-size intrinsic kernel (lowest / highest operand offset whose access faults at a guard page, set of result elements written)"}.get(what, what)),
                         "input": m["input"], "impl": m["impl"], "model": m["model"], "fields": m["fields"], "group": m["group"]},
                        nofail=(what != "bounds"))
        kinds = {}
        for inp, obs, mo in lines:
            k = inp.split()[0]; kinds[k] = kinds.get(k, 0) + 1
        # ---- K7 observations
        kg = k7_groups(tier, seed) + mmflush_groups(tier, seed) + extra_k7_groups(tier, seed)
        kn, kfail, kinfra, ksamples = flow.run_oracle_groups(kg, wd, per_tu=24 if tier == "quick" else 16)
        # a translation unit that died (sanitizer abort, uncaught crash outside the protected region) names its group and output
        for e in kinfra:
            if e["what"].startswith("run"):
                txt = e["out"]
                m = re.search(r"(ERROR: AddressSanitizer[^\n]*|runtime error:[^\n]*)", txt)
                last = [l for l in txt.split("\n") if l.startswith("guard ")]
                v.violation("k7-abort %s %s" % (e["group"], (m.group(1) if m else e["what"])[:120]),
                            {"kind": "k7-abort", "group": e["group"], "calls": e["calls"], "report": txt[-2500:], "last_completed_case": last[-1] if last else None})
            else:
                flow.report_infra(v, [e])
        for g, line, call in kfail:
            v.violation(guard_key(line), {"kind": "k7", "group": g["key"], "isa": g["isa"], "defs": list(g.get("defs", ())), "opt": g.get("opt", "-O2"),
                                           "std": g.get("std", "c++14"), "header": g["header"], "pre": g.get("pre", ""), "line": line, "call": call,
                                           "note": "FAULT: SIGSEGV/SIGBUS while the operation ran (opnd/off: faulting address relative to operand start; addr=nil: general protection, "
                                                   "e.g. an alignment-requiring access at a misaligned address); CANARY: a byte outside every operand changed; INMOD: an input changed; "
                                                   "PLACEDIFF: the result depends on where the operands sit (an element not written, or bytes outside the operands read); ALLOCS: malloc/new calls"})
    fam = {}; alignreq = []
    for s_ in []:
        pass
    v.cov.update({
        "evaluations": n + kn, "distinct_nontrivial": len(set(l[0] for l in lines)) + kn,
        "rule": "one evaluation = one correspondence line (helper x mask x type x ISA footprint measured on the real intrinsic; one indexing call; one is_aligned query) "
                "compared with the Lean model, or one K7 operation instance (op x element type x shape x ISA) swept over both guard positions x every misalignment "
                "x two canary salts (RUNS per instance: 64 for 4-byte, 32 for 8-byte types); every K7 instance is non-trivial (it runs the real library at a guard page)",
        "corr_lines": kinds, "corr_mismatches": len(mism), "k7_instances": kn, "k7_failures": len(kfail),
        "k7_groups": sorted(set(g["key"] for g in kg)), "corr_groups": sorted(g["key"] for g in cg),
        "k7_families": sorted(set(c.split("<")[0] for g in kg for c in g["calls"])),
        "samples": [{"input": l[0], "impl": l[1], "model": l[2]} for l in lines[:2]] + ksamples,
        "footprint_family": {
            "Model/Matmul (C01)": ["matmul_writes_in_result", "matmul_reads_in_operands", "matmul_read_sets_in_operands"],
            "Model/Tmatmul (C17)": ["tmatmul_writes_in_result", "tmatmul_reads_in_operands", "tmatmul_read_sets_in_operands"],
            "Model/Expr (C02)": ["assign_reads_in_operands", "assign_reads_cover"],
            "Model/Einsum (C03)": ["einsum_reads_in_operands"],
            "Model/ViewWrite (C05)": ["view1d_footprint", "view2d_footprint"],
            "Model/Views (C04)": ["views_read_footprint", "views_gather_footprint", "views_teval_footprint", "views_teval_gather_footprint", "views_eval2_footprint", "views_consumer_footprint"],
            "Model/Reduce (C16)": ["reduce_footprint"],
            "Model/RandomViews (C19)": ["random_view_footprint"],
            "Model/Layout, Model/MapAlias (C20)": ["layout_footprint", "map_reshape_footprint", "map_flatten_squeeze_footprint"],
            "Model/Transpose, Model/Permute (C14)": ["transpose_footprint", "permute_writes_in_result", "permute_reads_in_operand"],
            "Model/Inverse (C10)": ["inverse_leaf_reads_in_operand"],
            "Model/Kern3 (C07)": ["transpose33_footprint", "matmul333_footprint", "matmul3K3_footprint", "matvec331_footprint", "small_kernels_footprint",
                                  "whole_vector_kernels_footprint", "dyadic_footprint"],
            "Model/Footprint (C07)": ["load3_lanes", "store3_lanes", "maskLoop_mem", "maskAvx_eq_maskLoop", "arrayToMask_testBit", "kmask_eq_maskLoop",
                                      "member_mask_fallback_lanes", "remainderMask_lanes", "masked_tail_in_extent", "aligned_only_on_owned",
                                      "flagged_accesses_in_extent", "bounds_check_sound", "bounds_check_complete", "memIndex_sound"],
            "not covered": "Model/LU, Solve, QR and the non-leaf part of Inverse are entry-function models (Mat = Nat -> Nat -> a) without offsets: "
                           "no footprint statement can be made about them beyond locality; the alias-event part of MapAlias has no offsets either; their operations are covered by K7 "
                           "(lu_map, qr_map, solve_map, inverse_map, layout_map, permute_map)"},
        "observed_not_proved": ["no fault", "no stray write", "inputs unchanged", "placement independence", "no allocation", "sanitizers (thorough)"],
    })
    if symrun.REJECTED:
        v.cov["compile_rejected"] = {"count": len(symrun.REJECTED), "examples": symrun.REJECTED[:8],
                                     "note": "instantiations the library does not accept at compile time; excluded from the box"}
    return v.finish()

def replay(path):
    obj = json.load(open(path))
    print(json.dumps(obj, indent=1)[:3000])
    kind = obj.get("kind")
    with core.Scratch() as wd:
        if kind == "k7" and obj.get("call"):
            g = {"key": "replay", "header": obj["header"], "isa": obj["isa"], "defs": obj.get("defs", []), "opt": obj.get("opt", "-O2"),
                 "std": obj.get("std", "c++14"), "pre": obj.get("pre", ""), "calls": [obj["call"]]}
            bad = False
            for r in symrun.run_groups([g], wd):
                out = r["res"]["compile_out"][-2000:] if r["res"]["rc_compile"] else r["res"]["out"] + r["res"].get("err", "")
                print(out); bad = bad or "| ok" not in out
            return 1 if bad else 0
        if kind in ("correspondence", "probe-oracle"):
            gs = [g for g in corr_groups("quick", 1) if g["key"] == obj.get("group")]
            if gs:
                res = symrun.run_groups(gs, wd)
                n, mism, ofail, infra, lines = symrun.compare_with_model(res, None)
                for m in (mism + ofail)[:10]:
                    print("impl :", m["input"], "|", m["impl"]); print("model:", m["model"])
                return 1 if (mism or ofail or infra) else 0
    print("replay: nothing executable in this replay file (kind=%s)" % kind)
    return 1
