"""Case generation shared by C05 (writing through a slice) and C18 (overlapping slices, noalias()).
A case is a script  write/write/...  with  write := op[n].rk.c.dst[.src[.src2]]  (see harness/view_write_sym.h);
ranges are f_l_s per axis joined by ','.  Everything here is plain Python over the DOCUMENTED meaning of
a (first,last,step) triple; neither the library nor the Lean model is consulted."""
import random

VOF = {"scalar": 1, "sse2": 16, "sse42": 16, "avx": 32, "avx2": 32, "avx512": 64}
OPS = ["set", "add", "sub", "mul"]
OPS5 = OPS + ["div"]          # the symbolic carrier has no division; real-type runs use all five

def vwidth(isa, sz):
    return max(VOF[isa] // sz, 1)

def ext_of(t, n):
    f, l, s = t
    if f == -1 and l == 0:
        return 1
    if l < 0: l += n + 1
    if f < 0: f += n + 1
    return len(range(f, l, s))

def first_of(t, n):
    f, l, s = t
    if f == -1 and l == 0: return n - 1
    return f + n + 1 if f < 0 else f

def positions(t, n):
    f = first_of(t, n)
    return [f + k * t[2] for k in range(ext_of(t, n))]

def encode(f, l, s, n, rng, rank1, allow_neg=True):
    """one of the admissible encodings of the range f, f+s, ... < l on an axis of n elements"""
    r = rng.random()
    if not allow_neg or r < 0.6:
        return (f, l, s)
    if r < 0.8:
        return (f, l - n - 1, s)                       # `last`-relative end
    if r < 0.9 and f <= n - 1:
        return (f - n - 1, l - n - 1, s)               # both ends counted from the end
    if not rank1 and f == n - 1 and l == n and s == 1:
        return (-1, 0, 1)                              # integer index -1
    return (f, l, s)

def reversed_with_ext(n, e, rng):
    """a negative-step triple first > last >= 0 selecting e elements (undocumented; real-type runs only), or None"""
    cands = [s for s in (-1, -1, -2, -3) if (e - 1) * (-s) + 1 <= n - 1]
    if not cands or e < 1:
        return None
    s = rng.choice(cands)
    lowest = rng.randint(1, n - 1 - (e - 1) * (-s))        # the last selected element; 0 cannot be reached (last >= 0)
    f = lowest + (e - 1) * (-s)
    l = rng.randint(max(0, f + e * s), lowest - 1)
    return (f, l, s)

REVERSED_P = [0.0]     # probability that range_with_ext returns a reversed range (set by the real-type generators)

def range_with_ext(n, e, rng, rank1=False, steps=(1, 1, 2, 3), allow_neg=True):
    """random admissible triple selecting exactly e elements of an axis of n, or None"""
    if REVERSED_P[0] > 0 and rng.random() < REVERSED_P[0]:
        t = reversed_with_ext(n, e, rng)
        if t is not None:
            return t
    cands = [s for s in steps if (e - 1) * s + 1 <= n]
    if not cands or e < 1:
        return None
    s = rng.choice(cands)
    span = (e - 1) * s + 1
    f = rng.randint(0, n - span)
    l = rng.randint(f + span, min(n, f + e * s))
    return encode(f, l, s, n, rng, rank1, allow_neg)

def rand_range(n, rng, rank1=False, want=None):
    e = want if want is not None else rng.randint(1, n)
    return range_with_ext(n, e, rng, rank1)

def rs(ranges):
    return ",".join("%d_%d_%d" % t for t in ranges)

def write_txt(op, rk, c, dst, src=None, src2=None, na=False):
    parts = [op + ("n" if na else ""), rk, str(c), rs(dst)]
    if src is not None: parts.append(rs(src))
    if src2 is not None: parts.append(rs(src2))
    return ".".join(parts)

def rand_write(dims, rd, V, rng, rks, op=None, dst=None, force_rd=False, ops=None):
    """one non-aliased write.  rks: allowed rhs kinds; t x f m only when the extents equal rd"""
    rank1 = len(dims) == 1
    if dst is None:
        if force_rd:
            dst = [range_with_ext(n, e, rng, rank1) for n, e in zip(dims, rd)]
        else:
            dst = []
            for k, n in enumerate(dims):
                if k == len(dims) - 1:
                    # last axis: hit the width classes (multiple of V, remainder, short)
                    opts = [e for e in (V, 2 * V, V + 1, V - 1, 2 * V + 1, 1, rng.randint(1, n)) if 1 <= e <= n]
                    dst.append(rand_range(n, rng, rank1, rng.choice(opts)))
                else:
                    dst.append(rand_range(n, rng, rank1))
    exts = [ext_of(t, n) for t, n in zip(dst, dims)]
    avail = [k for k in rks if k in "sve" or (exts == list(rd) and (k != "m" or len(dims) <= 2) and (k != "f" or len(dims) >= 2))]
    rk = rng.choice(avail)
    op = op or rng.choice(ops or OPS)
    c = rng.choice([2, 3, 5, -1, -4, 7])
    if op == "div" and rk == "s":
        c = rng.choice([2, 4, -2, -4, 8])      # 1-D/2-D views divide by multiplying with 1/c: exact for powers of two
    src = src2 = None
    if rk in "ve":
        src = [range_with_ext(n, e, rng, rank1) for n, e in zip(dims, exts)]
    if rk == "e":
        src2 = [range_with_ext(n, e, rng, rank1) for n, e in zip(dims, exts)]
    return write_txt(op, rk, c, dst, src, src2)

def all_triples(n, steps):
    out = []
    for s in steps:
        for f in range(n):
            for l in range(f + 1, n + 1):
                out.append((f, l, s))
    return out
