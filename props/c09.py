"""C09 — lazy linear-algebra operators vs their eager counterparts.  Model: Model/Lazy.lean (staged
assignment overload table with alias check).  Ties: generated trees mixing element-wise operators and
lazy products, destination used element-wise and inside products, over the symbolic carrier (values,
number of passes over the destination); real-type runs for inv/det/trans/cof/adj/solve/norm/trace."""
import random
from vlib import core, symrun, flow

PID = "C09"

def gen(rng, depth, allow_mm=True):
    if depth == 0 or rng.random() < 0.2:
        k = rng.choice([0, 1, 2, 3, 1, 2])
        return "t%d" % k, "DABC"[k], False
    r = rng.random()
    if allow_mm and r < 0.4:
        l = gen(rng, depth - 1); rr = gen(rng, depth - 1)
        return l[0] + "_" + rr[0] + "_mm", "(%s %% %s)" % (l[1], rr[1]), True
    name, sym = rng.choice([("add", "+"), ("sub", "-"), ("mul", "*"), ("add", "+"), ("sub", "-")])
    l = gen(rng, depth - 1); rr = gen(rng, depth - 1)
    return l[0] + "_" + rr[0] + "_" + name, "(%s %s %s)" % (l[1], sym, rr[1]), l[2] or rr[2]

FIXED = [("t1_t2_mm_t0_t1_mul_add", "((A % B) + (D * A))"), ("t1_t2_mm_t0_t1_add_sub", "((A % B) - (D + A))"), ("t0_t1_mm_t0_t2_mm_add", "((D % A) + (D % B))"),
         ("t0_t1_mm_t0_t2_mm_sub", "((D % A) - (D % B))"), ("t1_t2_mm_t3_mm", "((A % B) % C)"), ("t1_t2_t3_mm_mm", "(A % (B % C))"), ("t1_t2_mm_t0_add", "((A % B) + D)"),
         ("t0_t1_t2_mm_add", "(D + (A % B))"), ("t0_t1_mul_t1_t2_mm_add", "((D * A) + (A % B))"), ("t1_t2_mm_t3_mul", "((A % B) * C)"), ("t1_t2_mm_t0_t0_mul_sub", "((A % B) - (D * D))"),
         ("t1_t2_mm_t3_add_t0_t1_mm_add", "(((A % B) + C) + (D % A))")]

def sym_groups(tier, seed):
    rng = random.Random(seed * 811 + 13)
    isas = ["sse2", "avx2", "avx512"] if tier == "quick" else core.ALL_ISAS
    groups = []
    for isa in isas:
        trees = dict(FIXED)
        tries = 0
        want = 10 if tier == "quick" else 60
        while len(trees) < len(FIXED) + want and tries < 2000:
            tries += 1
            e, t, has = gen(rng, rng.randint(1, 3))
            if has and "_" in e and len(e) < 60:
                trees[e] = t
        calls = []
        for enc, txt in sorted(trees.items()):
            for op in ([0, 1, 2, 3] if tier == "thorough" else rng.sample([0, 1, 2, 3], 2)):
                if op == 0 and "t0" in enc.split("_") and "%" in txt and "D %" in txt or op == 0 and "% D" in txt:
                    pass    # plain '=' goes through a temporary, aliasing inside products is fine there as well
                n = rng.choice([2, 3, 4, 5])
                calls.append('LAZY_CASE(Sym4, %d, %d, "%s", %s);' % (n, op, enc, txt))
        groups.append({"key": "%s/sz4" % isa, "header": "lazy_sym.h", "isa": isa, "calls": calls})
    return groups

PAIRS = [("inv", "inv(A) + B", "inverse(A) + B"), ("invmul", "inv(A) % B", "matmul(inverse(A), B)"), ("trans", "trans(A) + D", "transpose(A) + D"),
         ("transmm", "trans(A) % B + C", "matmul(transpose(A), B) + C"), ("cof", "cof(A) - D", "cofactor(A) - D"), ("adj", "adj(A) + C", "adjoint(A) + C"),
         ("det", "det(A) * B", "determinant(A) * B"), ("trace", "trace(A) * B + D", "trace(Tensor<double,1,1>()) * B + trace(A) * B + D"),
         ("chain3", "A % B % C", "matmul(matmul(A, B), C)"), ("chain4", "A % B % C % A", "matmul(matmul(matmul(A, B), C), A)"),
         ("solve", "solve(A, B) + C", "matmul(inverse(A), B) + C"), ("invD", "inv(A) + D * B", "inverse(A) + D * B")]

def real_groups(tier, seed):
    rng = random.Random(seed * 97 + 3)
    isas = core.QUICK_ISAS if tier == "quick" else core.ALL_ISAS
    groups = []
    for isa in isas:
        for t in ["double", "float"]:
            calls = []
            for (nm, lz, eg) in PAIRS:
                if nm == "trace": continue
                for n in ([3] if tier == "quick" else [2, 3, 4, 5, 6]):
                    if nm in ("cof", "adj") and n > 4: continue
                    for op in (rng.sample([0, 1, 2, 3, 4], 2) if tier == "quick" else [0, 1, 2, 3, 4]):
                        calls.append('LAZYREAL_CASE(%s, %d, %d, "%s", %du, %s, %s);' % (t, n, op, nm, seed * 7 + n, lz, eg))
            groups.append({"key": "%s/%s" % (isa, t), "header": "lazy_real.h", "isa": isa, "opt": "-O2", "calls": calls,
                           "pre": "static bool g_verbose=false;"})
            # rectangular chains: extents that make each association the cheapest (left-heavy, right-heavy, middle-heavy,
            # vector-terminated), all assignment operators; scalar-valued lazy operators on expressions of 1..16 vectors
            calls = []
            shapes3 = [(5, 3, 4, 2), (2, 4, 3, 5), (3, 7, 2, 6), (6, 2, 7, 3), (4, 4, 4, 4), (9, 2, 2, 9), (2, 9, 9, 2), (1, 5, 6, 3), (7, 3, 5, 1)]
            shapes4 = [(5, 3, 4, 2, 6), (2, 6, 3, 5, 2), (6, 2, 5, 2, 7), (3, 3, 3, 3, 3), (2, 7, 2, 7, 2)]
            shapesv = [(5, 3, 4), (3, 8, 2), (9, 2, 7), (4, 4, 4)]
            for sh in (rng.sample(shapes3, 4) if tier == "quick" else shapes3):
                for op in (rng.sample([0, 1, 2, 3, 4], 3) if tier == "quick" else [0, 1, 2, 3, 4]):
                    calls.append("run_chain3<%s,%d,%d,%d,%d,%d>(%du);" % ((t,) + sh + (op, rng.randint(1, 10 ** 6))))
            for sh in (rng.sample(shapes4, 2) if tier == "quick" else shapes4):
                for op in (rng.sample([0, 1, 2, 3], 2) if tier == "quick" else [0, 1, 2, 3]):
                    calls.append("run_chain4<%s,%d,%d,%d,%d,%d,%d>(%du);" % ((t,) + sh + (op, rng.randint(1, 10 ** 6))))
            for sh in (rng.sample(shapesv, 2) if tier == "quick" else shapesv):
                for op in (rng.sample([0, 1, 2, 3], 2) if tier == "quick" else [0, 1, 2, 3]):
                    calls.append("run_chainv<%s,%d,%d,%d,%d>(%du);" % ((t,) + sh + (op, rng.randint(1, 10 ** 6))))
            sizes = [(1, 3), (2, 4), (3, 5), (4, 8), (8, 8), (8, 16), (12, 12), (16, 17), (5, 27)]
            for (m, n) in (rng.sample(sizes[:4], 1) + sizes[4:7] + rng.sample(sizes[7:], 1) if tier == "quick" else sizes):
                calls.append("run_scalar_lazy<%s,%d,%d>(%du);" % (t, m, n, rng.randint(1, 10 ** 6)))
            for n in ([3, 8] if tier == "quick" else [1, 2, 3, 4, 5, 8, 9, 12, 16]):
                calls.append("run_scalar_lazy_sq<%s,%d>(%du);" % (t, n, rng.randint(1, 10 ** 6)))
            groups.append({"key": "%s/%s/chains" % (isa, t), "header": "lazy_real.h", "isa": isa, "opt": "-O2", "calls": calls,
                           "pre": "static bool g_verbose=false;"})
    return groups

def run(tier, seed):
    return flow.standard_run(
        PID, tier, seed, "Fastor.C09.staged_eq_denote", "FastorModel.Model.Lazy", sym_groups, real_groups,
        assumptions=["matrix products are exact over the symbolic ring; float/double runs compare lazy and eager forms within a small relative tolerance",
                     "all operands square n x n in the symbolic model; inv/det/trans/cof/adj/solve nodes are value-tested only (they delegate to C10-C12, C14, C16)"],
        rule="fixed alias patterns + seeded random trees (depth <= 3) mixing element-wise + - * and lazy products, destination allowed anywhere, assigned with = += -= *=; "
             "non-trivial = the destination occurs on the right-hand side",
        nontrivial=lambda inp, mo: "t0" in symrun.kv(inp).get("E", "").split("_"), per_tu=25)

def sym_call_of(inp):
    d = symrun.kv(inp)
    st = []
    for tok in d["E"].split("_"):
        if tok.startswith("t"): st.append("DABC"[int(tok[1:])])
        else:
            r = st.pop(); l = st.pop(); st.append("(%s %s %s)" % (l, {"add": "+", "sub": "-", "mul": "*", "mm": "%"}[tok], r))
    op = {"set": 0, "add": 1, "sub": 2, "mul": 3}[d["op"]]
    return {"key": "replay", "header": "lazy_sym.h", "isa": d["cfg"], "calls": ['LAZY_CASE(Sym%s, %s, %d, "%s", %s);' % (d["sz"], d["n"], op, d["E"], st[0])]}

def replay(path):
    return flow.standard_replay(path, sym_call_of)
